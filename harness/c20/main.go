// Correspondence harness for C20: Equals / CompareTo of lang/value against the Lean CodeModel
// Golib.Value.Cmp (driver drv_c20), and direct evaluation of the laws of the property on the
// implementation.
//
// Cases are *pools* of 4-8 related values.  For a pool the full matrices eq[i][j] = vᵢ.Equals(vⱼ)
// and cmp[i][j] = sign(vᵢ.CompareTo(vⱼ)) are computed on the implementation (each call guarded)
// and by the model.  Then, on the implementation's matrix:
//
//	total     no call panics
//	refl      eq[i][i]                               symm   eq[i][j] = eq[j][i]
//	trans     eq[i][j] ∧ eq[j][k] → eq[i][k]         decode vᵢ.Equals(decode(encode vᵢ))
//	antisym   cmp[i][j] = −cmp[j][i]                 ctrans cmp[i][j] ≤ 0 ∧ cmp[j][k] ≤ 0 → cmp[i][k] ≤ 0
//	zero      scalars of one type: cmp = 0 ⇔ eq      types  different types: cmp[i][j] = sign(tagᵢ − tagⱼ)
//
// A law failure on which implementation and model agree is a quirk the model contains on purpose
// (known findings: NaN, map key sets / key order); it is reported under the key of that class.
// A law failure where the implementation differs from the model is reported as a property
// failure under  <Type>.<Method>:<law>;  a difference without any law failure as correspondence.
package main

import (
	"encoding/json"
	"fmt"
	"math"
	"os"
	"sort"
	"strings"

	gio "github.com/whatap/golib/io"
	"github.com/whatap/golib/lang/value"
	"verif/harness/c02/vg"
	"verif/harness/vh"
)

type cell struct {
	panicked bool
	eq       bool
	cmp      int // sign
}

func (c cell) String() string {
	if c.panicked {
		return "panic"
	}
	e := 0
	if c.eq {
		e = 1
	}
	return fmt.Sprintf("%d %d", e, c.cmp)
}

func sign(x int) int {
	switch {
	case x < 0:
		return -1
	case x > 0:
		return 1
	}
	return 0
}

// cellOf evaluates Equals and CompareTo (each guarded on its own) on two implementation values.
// what names the methods that panicked.
func cellOf(ga, gb value.Value) (c cell, what string) {
	var w []string
	o := vh.Guard(func() { c.eq = ga.Equals(gb) })
	if !o.OK() {
		c.panicked = true
		w = append(w, "Equals")
	}
	o = vh.Guard(func() { c.cmp = sign(ga.CompareTo(gb)) })
	if !o.OK() {
		c.panicked = true
		w = append(w, "CompareTo")
	}
	return c, strings.Join(w, "+")
}

// implCell builds fresh implementation values (no sharing between them) and evaluates the cell.
func implCell(a, b *vg.V) (c cell, what string) {
	var ga, gb value.Value
	o := vh.Guard(func() { ga, gb = a.ToGo(), b.ToGo() })
	if !o.OK() {
		return cell{panicked: true}, "build"
	}
	return cellOf(ga, gb)
}

func roundtrip(v *vg.V) (*vg.V, bool) {
	var d *vg.V
	o := vh.Guard(func() {
		out := gio.NewDataOutputX()
		value.WriteValue(out, v.ToGo())
		d = vg.FromGo(value.ReadValue(gio.NewDataInputX(out.ToByteArray())))
	})
	return d, o.OK()
}

// decodeEqG: g.Equals(decode(encode g)) on the implementation (the decoded object itself is used)
func decodeEqG(g value.Value) (eq bool, ok bool) {
	o := vh.Guard(func() {
		out := gio.NewDataOutputX()
		value.WriteValue(out, g)
		raw := out.ToByteArray()
		exact := make([]byte, len(raw)) // len == cap: nothing at all behind the value
		copy(exact, raw)
		d := value.ReadValue(gio.NewDataInputX(exact))
		d2 := value.ReadValue(gio.NewDataInputX(raw))
		eq = g.Equals(d) && d.Equals(g) && d2.Equals(g)
		if eq && !cmpSelfQuirk(g) && (g.CompareTo(d) != 0 || d.CompareTo(g) != 0) {
			eq = false
		}
	})
	return eq, o.OK()
}

// cmpSelfQuirk: CompareTo(self) is not 0 for values holding a NaN (known findings); the decode law then checks Equals only
func cmpSelfQuirk(g value.Value) bool {
	r := false
	vh.Guard(func() { r = g.CompareTo(g) != 0 })
	return r
}

func decodeEq(v *vg.V) (eq bool, ok bool) {
	var g value.Value
	if o := vh.Guard(func() { g = v.ToGo() }); !o.OK() {
		return false, false
	}
	return decodeEqG(g)
}

func scalarKind(k string) bool {
	switch k {
	case "N", "B", "D", "I", "L", "F", "G", "S", "M", "T", "H":
		return true
	}
	return false
}

// ---------------------------------------------------------------- classification helpers

// mapCause walks two values in parallel and names the first place where two maps of one kind
// have different key sets or the same keys in a different order.
func mapCause(a, b *vg.V) string {
	if a.K != b.K {
		return ""
	}
	switch a.K {
	case "l":
		if len(a.L) != len(b.L) {
			return ""
		}
		for i := range a.L {
			if c := mapCause(a.L[i], b.L[i]); c != "" {
				return c
			}
		}
	case "m", "im":
		if len(a.L) != len(b.L) {
			return ""
		}
		key := func(v *vg.V, i int) string {
			if v.K == "m" {
				return string(v.Ks[i])
			}
			return fmt.Sprint(v.IKs[i])
		}
		idx := map[string]int{}
		for i := range b.L {
			idx[key(b, i)] = i
		}
		sameOrder := true
		for i := range a.L {
			j, ok := idx[key(a, i)]
			if !ok {
				return "different-keys"
			}
			if j != i {
				sameOrder = false
			}
		}
		if !sameOrder {
			return "key-order"
		}
		for i := range a.L {
			if c := mapCause(a.L[i], b.L[i]); c != "" {
				return c
			}
		}
	}
	return ""
}

// shrinkPair descends into corresponding children while bad still holds on the implementation.
func shrinkPair(a, b *vg.V, bad func(a, b *vg.V) bool) (*vg.V, *vg.V) {
	for {
		moved := false
		if a.K == b.K && (a.K == "l" || a.K == "m" || a.K == "im") {
			type pr struct{ x, y *vg.V }
			var cands []pr
			switch a.K {
			case "l":
				for i := 0; i < len(a.L) && i < len(b.L); i++ {
					cands = append(cands, pr{a.L[i], b.L[i]})
				}
			case "m":
				for i := range a.L {
					for j := range b.L {
						if string(a.Ks[i]) == string(b.Ks[j]) {
							cands = append(cands, pr{a.L[i], b.L[j]})
						}
					}
				}
			case "im":
				for i := range a.L {
					for j := range b.L {
						if a.IKs[i] == b.IKs[j] {
							cands = append(cands, pr{a.L[i], b.L[j]})
						}
					}
				}
			}
			for _, c := range cands {
				if bad(c.x, c.y) {
					a, b, moved = c.x, c.y, true
					break
				}
			}
		}
		if !moved {
			return a, b
		}
	}
}

func typeOf(v *vg.V) string { return vg.TypeName[v.K] }

// ---------------------------------------------------------------- pools

type pool struct {
	how   string
	vs    []*vg.V
	gos   []value.Value // when set: the implementation values, built once (their payloads may share memory)
	alias *aliasSpec
	hseed []uint64 // when set: gos[i] was built from vs[i] through the mutation history of this seed (0 = plainly)
}

// suffix of the failure keys of a pool whose implementation values are prebuilt
func (p *pool) route() string {
	if p.hseed != nil {
		return "after-history"
	}
	return "aliased-payload"
}

func (p *pool) replayExtra(idx []int) map[string]interface{} {
	if p.hseed != nil {
		return map[string]interface{}{"history_seeds": p.hseed, "indices": idx}
	}
	return map[string]interface{}{"alias": p.alias, "indices": idx}
}

// buildHistoryPool builds gos from vs and the seeds
func buildHistoryPool(vs []*vg.V, seeds []uint64) pool {
	pl := pool{how: "history", vs: vs, hseed: seeds}
	for i, v := range vs {
		var g value.Value
		o := vh.Guard(func() {
			if seeds[i] == 0 {
				g = v.ToGo()
			} else {
				g = v.ToGoH(vh.NewRng(seeds[i]))
			}
		})
		if !o.OK() {
			g = value.NewNullValue()
		}
		pl.gos = append(pl.gos, g)
	}
	return pl
}

// historyPools: containers built through mutation histories (vg.ToGoH: junk + Clear rounds,
// placeholder + Set / overwrite, PutAll, NewList …) next to plainly built twins and mutants
func historyPools(r *vh.Rng, thorough bool) []pool {
	n := 250
	if thorough {
		n = 3000
	}
	gen := vg.New(r.Fork(), vg.Opt{Depth: 3, Width: 4, NaNPct: 2, Nil: true})
	var out []pool
	for i := 0; i < n; i++ {
		var base *vg.V
		if r.Chance(50) {
			base = smallContainer(gen, []string{"l", "l", "m", "im"}[r.Intn(4)], 3)
		} else {
			base = gen.Container([]string{"l", "l", "m", "im"}[r.Intn(4)], 3)
		}
		mut := mutate(gen, base)
		vs := []*vg.V{base, base, base, mut, mut}
		seeds := []uint64{0, r.U64() | 1, r.U64() | 1, 0, r.U64() | 1}
		if r.Chance(40) {
			other := smallContainer(gen, base.K, 2)
			vs = append(vs, other, other)
			seeds = append(seeds, 0, r.U64()|1)
		}
		out = append(out, buildHistoryPool(vs, seeds))
	}
	return out
}

// aliasSpec describes a pool whose payloads are windows of ONE backing array (and independent
// copies of some windows): same start / different lengths, overlapping windows, the identical
// slice used in two values.  It is what a replay file carries to rebuild the sharing.
type aliasSpec struct {
	Kind    string   `json:"kind"`    // X P ai af at al
	Backing string   `json:"backing"` // one-line value of that kind holding the whole backing array
	Win     [][3]int `json:"windows"` // lo, hi, 1 = independent copy
	Wrap    bool     `json:"wrap"`    // each value wrapped in a one-element list
}

func buildAlias(sp *aliasSpec) pool {
	b, err := vg.ParseLine(sp.Backing)
	if err != nil || b.K != sp.Kind {
		vh.Die("alias backing %q: %v", sp.Backing, err)
	}
	pl := pool{how: "aliased:" + sp.Kind, alias: sp}
	// the shared backing arrays
	bufB := append([]byte{}, b.Bs...)
	var buf32 []int32
	var buf64 []int64
	var bufF []float32
	var bufS []string
	for _, x := range b.Is {
		buf32 = append(buf32, int32(x))
		buf64 = append(buf64, x)
	}
	for _, x := range b.Us {
		bufF = append(bufF, math.Float32frombits(uint32(x)))
	}
	for _, x := range b.Ss {
		bufS = append(bufS, string(x))
	}
	for _, w := range sp.Win {
		lo, hi, cp := w[0], w[1], w[2] == 1
		v := &vg.V{K: sp.Kind}
		var g value.Value
		switch sp.Kind {
		case "X", "P":
			sl := bufB[lo:hi]
			if cp {
				sl = append([]byte{}, sl...)
			}
			v.Bs = append([]byte{}, sl...)
			if sp.Kind == "X" {
				g = value.NewBlobValue(sl)
			} else {
				g = value.NewIP4Value(sl)
			}
		case "ai":
			sl := buf32[lo:hi]
			if cp {
				sl = append([]int32{}, sl...)
			}
			v.Is = append([]int64{}, b.Is[lo:hi]...)
			g = value.NewIntArray(sl)
		case "al":
			sl := buf64[lo:hi]
			if cp {
				sl = append([]int64{}, sl...)
			}
			v.Is = append([]int64{}, b.Is[lo:hi]...)
			g = value.NewLongArray(sl)
		case "af":
			sl := bufF[lo:hi]
			if cp {
				sl = append([]float32{}, sl...)
			}
			v.Us = append([]uint64{}, b.Us[lo:hi]...)
			g = value.NewFloatArray(sl)
		case "at":
			sl := bufS[lo:hi]
			if cp {
				sl = append([]string{}, sl...)
			}
			for _, x := range b.Ss[lo:hi] {
				v.Ss = append(v.Ss, append([]byte{}, x...))
			}
			g = value.NewTextArray(sl)
		default:
			vh.Die("alias kind %q", sp.Kind)
		}
		if sp.Wrap {
			l := value.NewListValue(nil)
			l.Add(g)
			g = l
			v = &vg.V{K: "l", L: []*vg.V{v}}
		}
		pl.vs = append(pl.vs, v)
		pl.gos = append(pl.gos, g)
	}
	return pl
}

// aliasPools: for every payload-carrying type, backing arrays with several content patterns
func aliasPools(r *vh.Rng, thorough bool) []pool {
	var out []pool
	reps := 1
	if thorough {
		reps = 12
	}
	for rep := 0; rep < reps; rep++ {
		for _, kind := range []string{"X", "P", "ai", "af", "at", "al"} {
			for pat := 0; pat < 4; pat++ {
				n := 8 + r.Intn(5)
				b := &vg.V{K: kind}
				elem := func(i int) int64 {
					switch pat {
					case 0:
						return 7 // all equal: every window of one length has the same content
					case 1:
						return int64(i % 2)
					case 2:
						return int64(i % 4) // [0,4) and [4,8) hold the same content
					}
					return r.Range(0, 2)
				}
				for i := 0; i < n; i++ {
					e := elem(i)
					switch kind {
					case "X", "P":
						b.Bs = append(b.Bs, byte(e))
					case "ai", "al":
						b.Is = append(b.Is, e-1)
					case "af":
						b.Us = append(b.Us, uint64(math.Float32bits(float32(e))))
					case "at":
						b.Ss = append(b.Ss, []byte{'a' + byte(e)})
					}
				}
				var win [][3]int
				if kind == "P" { // an IPv4 value holds exactly four bytes
					win = [][3]int{{0, 4, 0}, {0, 4, 0}, {2, 6, 0}, {4, 8, 0}, {1, 5, 0}, {0, 4, 1}, {2, 6, 1}, {4, 8, 1}}
				} else {
					win = [][3]int{{0, 4, 0}, {0, 8, 0}, {0, 4, 0}, {2, 6, 0}, {4, 8, 0}, {0, 0, 0}, {3, 3, 0}, {0, 4, 1}, {0, 8, 1}, {2, 6, 1}}
					if rep > 0 {
						for k := 0; k < 3; k++ {
							lo := r.Intn(n)
							hi := lo + r.Intn(n-lo+1)
							win = append(win, [3]int{lo, hi, r.Intn(2)})
						}
					}
				}
				sp := &aliasSpec{Kind: kind, Backing: b.Line(), Win: win, Wrap: (pat+rep)%2 == 1}
				out = append(out, buildAlias(sp))
			}
		}
	}
	return out
}

// lookalikes: one value of every implemented type built from "the same content"
func lookalikes(n int64, bs []byte, cnt int64, empty bool, nilPayload bool) []*vg.V {
	f32 := uint64(math.Float32bits(float32(n)))
	f64 := math.Float64bits(float64(n))
	d := &vg.V{K: "D", I: n}
	ip := []byte{byte(uint32(n) >> 24), byte(uint32(n) >> 16), byte(uint32(n) >> 8), byte(uint32(n))}
	s := &vg.V{K: "S"}
	s.QU[0], s.Q[1], s.QU[2], s.QU[3] = f64, cnt, f64, f64
	m := &vg.V{K: "M"}
	m.Q[0], m.Q[1], m.Q[2], m.Q[3] = n, cnt, n, n
	vs := []*vg.V{{K: "N"}, {K: "B", B: n != 0}, d, {K: "I", I: n}, {K: "L", I: n}, {K: "F", U: f32}, {K: "G", U: f64}, s, m,
		{K: "T", Bs: bs}, {K: "H", I: n}, {K: "X", Bs: bs, Nil: nilPayload && len(bs) == 0}, {K: "P", Bs: ip}}
	if empty {
		vs = append(vs, &vg.V{K: "l"}, &vg.V{K: "ai", Nil: nilPayload}, &vg.V{K: "af", Nil: nilPayload}, &vg.V{K: "at", Nil: nilPayload},
			&vg.V{K: "al", Nil: nilPayload}, &vg.V{K: "m"}, &vg.V{K: "im"})
	} else {
		vs = append(vs, &vg.V{K: "l", L: []*vg.V{d.Clone()}}, &vg.V{K: "ai", Is: []int64{n}}, &vg.V{K: "af", Us: []uint64{f32}},
			&vg.V{K: "at", Ss: [][]byte{bs}}, &vg.V{K: "al", Is: []int64{n}},
			&vg.V{K: "m", Ks: [][]byte{[]byte(fmt.Sprint(n))}, L: []*vg.V{d.Clone()}},
			&vg.V{K: "im", IKs: []int32{int32(n)}, L: []*vg.V{d.Clone()}})
	}
	return vs
}

// crossTypePools: every ordered pair of types, on look-alike content
func crossTypePools() []pool {
	var out []pool
	out = append(out, pool{how: "cross-type:zero", vs: lookalikes(0, nil, 0, true, false)})
	out = append(out, pool{how: "cross-type:zero-nil", vs: lookalikes(0, nil, 0, true, true)})
	out = append(out, pool{how: "cross-type:zero-content", vs: lookalikes(0, []byte{0}, 0, false, false)})
	for _, n := range []int64{1, -1, 2, 10, 127, -128, 2147483647, -2147483648} {
		out = append(out, pool{how: "cross-type:number", vs: lookalikes(n, []byte(fmt.Sprint(n)), n%7, false, false)})
	}
	out = append(out, pool{how: "cross-type:bytes", vs: lookalikes(1633837924, []byte("abcd"), 4, false, false)}) // 0x61626364
	return out
}

func mutate(g *vg.Gen, v *vg.V) *vg.V {
	r := g.R
	c := v.Clone()
	// collect nodes
	var nodes []*vg.V
	c.Walk(func(n *vg.V) { nodes = append(nodes, n) })
	n := nodes[r.Intn(len(nodes))]
	switch n.K {
	case "l":
		switch {
		case len(n.L) > 1 && r.Chance(40):
			i, j := r.Intn(len(n.L)), r.Intn(len(n.L))
			n.L[i], n.L[j] = n.L[j], n.L[i]
		case len(n.L) > 0 && r.Chance(50):
			n.L[r.Intn(len(n.L))] = g.Flat(vg.FlatKinds[r.Intn(len(vg.FlatKinds))])
		default:
			n.L = append(n.L, g.Flat("D"))
		}
	case "m", "im":
		switch {
		case len(n.L) > 1 && r.Chance(40): // same entries, other insertion order
			i, j := r.Intn(len(n.L)), r.Intn(len(n.L))
			n.L[i], n.L[j] = n.L[j], n.L[i]
			if n.K == "m" {
				n.Ks[i], n.Ks[j] = n.Ks[j], n.Ks[i]
			} else {
				n.IKs[i], n.IKs[j] = n.IKs[j], n.IKs[i]
			}
		case len(n.L) > 0 && r.Chance(50): // same size, one key replaced
			i := r.Intn(len(n.L))
			if n.K == "m" {
				n.Ks[i] = []byte("zz" + fmt.Sprint(r.Intn(1000)))
				seen := map[string]int{}
				for _, k := range n.Ks {
					seen[string(k)]++
				}
				if seen[string(n.Ks[i])] > 1 {
					n.Ks[i] = append(n.Ks[i], '!')
				}
			} else {
				nk := int32(1000000 + r.Intn(1000))
				for _, k := range n.IKs {
					if k == nk {
						nk += 5000
					}
				}
				n.IKs[i] = nk
			}
		case len(n.L) > 0: // one value changed
			i := r.Intn(len(n.L))
			n.L[i] = g.Flat(vg.FlatKinds[r.Intn(len(vg.FlatKinds))])
		default:
			if n.K == "m" {
				n.Ks = append(n.Ks, []byte("new"))
			} else {
				n.IKs = append(n.IKs, 77)
			}
			n.L = append(n.L, g.Flat("N"))
		}
	case "X", "ai", "af", "at", "al":
		if (len(n.Bs) + len(n.Is) + len(n.Us) + len(n.Ss)) == 0 {
			n.Nil = !n.Nil
		} else {
			*n = *g.Flat(n.K)
		}
	default:
		if r.Chance(70) {
			*n = *g.Flat(n.K)
		} else {
			*n = *g.Flat(vg.FlatKinds[r.Intn(len(vg.FlatKinds))])
		}
	}
	return c
}

// small-domain flat value, so that equal pairs and near-equal pairs occur
func smallFlat(g *vg.Gen, k string) *vg.V {
	r := g.R
	v := &vg.V{K: k}
	small := func() int64 { return r.Range(-2, 2) }
	f32 := []uint64{0, 0x80000000, 0x3f800000, 0xbf800000, 0x7f800000, 0xff800000, 0x40000000, 1}
	f64 := []uint64{0, 0x8000000000000000, 0x3ff0000000000000, 0xbff0000000000000, 0x7ff0000000000000, 0xfff0000000000000, 0x4000000000000000, 1}
	if g.O.NaNPct > 0 {
		f32 = append(f32, 0x7fc00000, 0xffc00000)
		f64 = append(f64, 0x7ff8000000000000, 0xfff8000000000000)
	}
	switch k {
	case "N":
	case "B":
		v.B = r.Bool()
	case "D", "L", "I", "H":
		v.I = small()
		if r.Chance(15) {
			v.I = []int64{-2147483648, 2147483647}[r.Intn(2)]
		}
	case "F":
		v.U = f32[r.Intn(len(f32))]
	case "G":
		v.U = f64[r.Intn(len(f64))]
	case "S":
		v.QU[0], v.Q[1], v.QU[2], v.QU[3] = f64[r.Intn(len(f64))], small(), f64[r.Intn(4)], f64[r.Intn(4)]
	case "M":
		v.Q[0], v.Q[1], v.Q[2], v.Q[3] = small(), small(), small(), small()
	case "T", "X":
		n := r.Intn(4)
		for i := 0; i < n; i++ {
			v.Bs = append(v.Bs, []byte{0, 'a', 'b', 0xff}[r.Intn(4)])
		}
		if k == "X" && n == 0 && g.O.Nil {
			v.Nil = r.Bool()
		}
	case "P":
		v.Bs = []byte{0, 0, 0, byte(r.Intn(3))}
		if r.Chance(30) {
			v.Bs = []byte{byte(r.Intn(2) * 255), 0, 0, 0}
		}
	case "ai", "al":
		n := r.Intn(4)
		for i := 0; i < n; i++ {
			v.Is = append(v.Is, small())
		}
		v.Nil = n == 0 && g.O.Nil && r.Bool()
	case "af":
		n := r.Intn(4)
		for i := 0; i < n; i++ {
			v.Us = append(v.Us, f32[r.Intn(len(f32))])
		}
		v.Nil = n == 0 && g.O.Nil && r.Bool()
	case "at":
		n := r.Intn(4)
		for i := 0; i < n; i++ {
			v.Ss = append(v.Ss, [][]byte{{}, {'a'}, {'a', 'b'}, {'b'}, {0xff}}[r.Intn(5)])
		}
		v.Nil = n == 0 && g.O.Nil && r.Bool()
	}
	return v
}

func smallContainer(g *vg.Gen, k string, d int) *vg.V {
	r := g.R
	v := &vg.V{K: k}
	n := r.Intn(4)
	child := func() *vg.V {
		if d > 1 && r.Chance(25) {
			return smallContainer(g, []string{"l", "m", "im"}[r.Intn(3)], d-1)
		}
		return smallFlat(g, []string{"D", "D", "T", "B", "N", "F", "af", "M", "X"}[r.Intn(9)])
	}
	perm := r.Intn(6)
	keys := [][]byte{[]byte("a"), []byte("b"), []byte("c"), []byte("d")}
	ikeys := []int32{1, 2, 102, -5}
	order := [][]int{{0, 1, 2, 3}, {1, 0, 2, 3}, {2, 1, 0, 3}, {3, 2, 1, 0}, {0, 2, 1, 3}, {1, 2, 3, 0}}[perm]
	for i := 0; i < n; i++ {
		switch k {
		case "m":
			v.Ks = append(v.Ks, keys[order[i]])
		case "im":
			v.IKs = append(v.IKs, ikeys[order[i]])
		}
		v.L = append(v.L, child())
	}
	return v
}

func main() {
	env, rep := vh.Parse("C20")
	rng := vh.NewRng(env.Seed)
	rep.Rule = "a case is one ordered pair (a,b) inside a pool of 4-8 related values (same type / mixed types / mutants of one tree: " +
		"reordered or replaced map keys, changed leaves, nil vs empty payloads, NaNs / a value and its decoding / one value of every type built from the same content (all ordered type pairs) / payloads that are windows of one shared backing array with their independent copies / containers built through mutation histories next to plainly built twins / containers of 1..1000 minimal-size elements (null, empty text / blob / array, decimal 0) alone, nested and as the last field, decoded from an exact-size buffer / every construction route (zero values of the structs, payload fields assigned to nil / short / long slices) / containers of 32767 … 70000 entries against their decoding / chains of one-entry lists, maps and int maps (and their alternations) nested 1 … 1000 levels deep around equal and different leaves, with the clause that the same chain around both operands changes neither Equals nor the sign of CompareTo evaluated on the implementation / chains of neighbouring representable numbers and offsets around 1e-6 for every numeric type, bare and inside arrays, lists and maps / texts that are not well-formed UTF-8 (stray continuation bytes, impossible bytes, truncated, overlong, surrogates, beyond U+10FFFF) and texts a normaliser would identify (NFC / NFD, case, width, trailing blank / NUL, BOM), by class next to U+FFFD and well-formed neighbours, bare, in text arrays, lists, maps and int maps, plus all cross-class pairs with the scalar clauses evaluated on the implementation); laws are evaluated on all pairs and triples of a pool; " +
		"non-trivial = a and b are not both null; distinct by the two one-line forms"

	var pools []pool

	if env.Replay != "" {
		b, err := os.ReadFile(env.Replay)
		if err != nil {
			vh.Die("replay: %v", err)
		}
		var rf struct {
			Cases []struct {
				Values []string   `json:"values"`
				Alias  *aliasSpec `json:"alias"`
				HSeeds []uint64   `json:"history_seeds"`
			} `json:"cases"`
		}
		if err := json.Unmarshal(b, &rf); err != nil {
			vh.Die("replay: %v", err)
		}
		for _, rc := range rf.Cases {
			if rc.Alias != nil {
				pools = append(pools, buildAlias(rc.Alias))
				continue
			}
			p := pool{how: "replay"}
			for _, l := range rc.Values {
				v, err := vg.ParseLine(l)
				if err != nil {
					vh.Die("replay value: %v", err)
				}
				p.vs = append(p.vs, v)
			}
			if len(p.vs) > 0 && len(rc.HSeeds) == len(p.vs) {
				pools = append(pools, buildHistoryPool(p.vs, rc.HSeeds))
			} else if len(p.vs) > 0 {
				pools = append(pools, p)
			}
		}
	} else {
		nPools := 1600
		if env.Thorough {
			nPools = 20000
		}
		gen := vg.New(rng, vg.Opt{Depth: 4, Width: 4, Wide: 0, NaNPct: 6, Nil: true})
		genWide := vg.New(rng.Fork(), vg.Opt{Depth: 3, Width: 6, Wide: 90, WidePct: 20, NaNPct: 3, Nil: true})
		for p := 0; p < nPools; p++ {
			size := 4 + rng.Intn(5)
			var pl pool
			switch m := p % 8; m {
			case 0, 7: // mixed types
				pl.how = "mixed"
				for i := 0; i < size; i++ {
					pl.vs = append(pl.vs, gen.Tree(25))
				}
			case 1: // one flat kind, small domain
				k := vg.Kinds[rng.Intn(len(vg.Kinds))]
				for k == "l" || k == "m" || k == "im" {
					k = vg.Kinds[rng.Intn(len(vg.Kinds))]
				}
				pl.how = "same-flat:" + k
				for i := 0; i < size; i++ {
					pl.vs = append(pl.vs, smallFlat(gen, k))
				}
			case 2: // one flat kind, boundary-biased
				k := vg.Kinds[rng.Intn(len(vg.Kinds))]
				for k == "l" || k == "m" || k == "im" {
					k = vg.Kinds[rng.Intn(len(vg.Kinds))]
				}
				pl.how = "same-flat-boundary:" + k
				for i := 0; i < size; i++ {
					pl.vs = append(pl.vs, gen.Flat(k))
				}
			case 3: // small containers of one kind over a tiny key universe
				k := []string{"l", "m", "im"}[rng.Intn(3)]
				pl.how = "small-container:" + k
				for i := 0; i < size; i++ {
					pl.vs = append(pl.vs, smallContainer(gen, k, 3))
				}
			case 4: // mutants of one tree
				pl.how = "mutants"
				base := gen.Container([]string{"l", "m", "im"}[rng.Intn(3)], 3)
				pl.vs = append(pl.vs, base)
				for i := 1; i < size; i++ {
					src := pl.vs[rng.Intn(len(pl.vs))]
					pl.vs = append(pl.vs, mutate(gen, src))
				}
			case 5: // a value, its decoding, and mutants
				pl.how = "decoded"
				base := gen.Tree(30)
				pl.vs = append(pl.vs, base)
				if d, ok := roundtrip(base); ok {
					pl.vs = append(pl.vs, d)
				}
				for len(pl.vs) < size {
					pl.vs = append(pl.vs, mutate(gen, base))
				}
			default: // wide maps (hash collisions, growth) and their mutants
				pl.how = "wide"
				base := genWide.Container([]string{"m", "im", "l"}[rng.Intn(3)], 2)
				pl.vs = append(pl.vs, base, mutate(genWide, base), mutate(genWide, base), base.Clone())
			}
			pools = append(pools, pl)
		}
		pools = append(pools, crossTypePools()...)
		pools = append(pools, aliasPools(rng.Fork(), env.Thorough)...)
		pools = append(pools, historyPools(rng.Fork(), env.Thorough)...)
		pools = append(pools, nearPools(rng.Fork(), env.Thorough)...)
		pools = append(pools, minimalPools()...)
		pools = append(pools, routePools()...)
		pools = append(pools, deepPools(env.Thorough)...)
		pools = append(pools, textPools(env.Thorough)...)
	}

	// ---- model
	var lines []string
	for _, p := range pools {
		for _, a := range p.vs {
			for _, b := range p.vs {
				lines = append(lines, "Q "+a.Line()+" "+b.Line())
			}
		}
	}
	outs, err := vh.RunDriver(env.Driver, lines)
	if err != nil {
		vh.Die("%v", err)
	}

	seenFail := map[string]int{}
	failOnce := func(kind, key, summary string, vals []*vg.V, extra map[string]interface{}) {
		seenFail[key]++
		if seenFail[key] > 3 {
			rep.Fail(kind, key, summary, nil) // counted only
			return
		}
		var ls []string
		for _, v := range vals {
			ls = append(ls, vh.Clip(v.LineX(), 3000))
		}
		m := map[string]interface{}{"values": ls}
		for k, v := range extra {
			m[k] = v
		}
		rep.Fail(kind, key, summary, m)
	}
	quirkSeen := map[string]int{}

	li := 0
	for _, p := range pools {
		n := len(p.vs)
		rep.Count("pool:" + strings.SplitN(p.how, ":", 2)[0])
		impl := make([][]cell, n)
		what := make([][]string, n)
		model := make([][]string, n)
		differs := make([][]bool, n)
		anyDiff := false
		for i := 0; i < n; i++ {
			impl[i] = make([]cell, n)
			what[i] = make([]string, n)
			model[i] = make([]string, n)
			differs[i] = make([]bool, n)
			for j := 0; j < n; j++ {
				if p.gos != nil {
					impl[i][j], what[i][j] = cellOf(p.gos[i], p.gos[j])
				} else {
					impl[i][j], what[i][j] = implCell(p.vs[i], p.vs[j])
				}
				model[i][j] = outs[li]
				li++
				differs[i][j] = impl[i][j].String() != model[i][j]
				anyDiff = anyDiff || differs[i][j]
				a, b := p.vs[i], p.vs[j]
				rep.Case(a.Line()+" "+b.Line(), !(a.K == "N" && b.K == "N"))
				if a.K == b.K {
					rep.Count("pair:same-type:" + a.K)
				} else {
					rep.Count("pair:different-types")
				}
				if !impl[i][j].panicked {
					rep.Count(fmt.Sprintf("result:eq=%v,cmp=%d", impl[i][j].eq, impl[i][j].cmp))
				} else {
					rep.Count("result:panic")
				}
			}
		}
		if len(rep.Samples) < 8 && len(p.vs) >= 2 {
			rep.Sample(map[string]string{"pool": p.how, "a": vh.Clip(p.vs[0].LineX(), 200), "b": vh.Clip(p.vs[1].LineX(), 200), "implementation": impl[0][1].String(), "model": model[0][1]})
		}
		for _, v := range p.vs {
			if v.HasNaN() {
				rep.Count("value:has-NaN")
			}
			if v.HasNil() {
				rep.Count("value:has-nil-payload")
			}
			if v.HasMap() {
				rep.Count("value:has-map")
			}
		}

		// model cell parsed
		mcell := func(i, j int) (eq bool, cmp int) {
			var e int
			fmt.Sscanf(model[i][j], "%d %d", &e, &cmp)
			return e == 1, cmp
		}
		lawDiffers := false // some law failed at cells where the implementation differs from the model

		// report a law failure on the implementation's matrix
		lawFail := func(law string, idx []int, implOnly bool, detail string) {
			var vals []*vg.V
			nan, anyDiffer := false, false
			for _, i := range idx {
				vals = append(vals, p.vs[i])
				nan = nan || p.vs[i].HasNaN()
			}
			for _, i := range idx {
				for _, j := range idx {
					anyDiffer = anyDiffer || differs[i][j]
				}
			}
			if !anyDiffer && !implOnly {
				// the model shows the same failure: one of the recorded quirks, or something new
				cause := ""
				for x := 0; x < len(idx) && cause == ""; x++ {
					for y := 0; y < len(idx) && cause == ""; y++ {
						if x != y {
							cause = mapCause(p.vs[idx[x]], p.vs[idx[y]])
						}
					}
				}
				switch {
				case nan:
					key := "NaN:" + law
					quirkSeen[key]++
					failOnce("property", key, "IEEE NaN semantics: "+detail, vals, nil)
				case cause != "" && (law == "cmp-antisym" || law == "cmp-trans"):
					key := "Map.CompareTo:" + law
					if law == "cmp-antisym" {
						key += "-" + cause
					}
					quirkSeen[key]++
					failOnce("property", key, "map comparison follows the receiver's keys: "+detail, vals, nil)
				default:
					failOnce("property", "model-and-implementation:"+law+":"+typeOf(vals[0]), "law fails on model and implementation alike, outside the recorded classes: "+detail, vals, nil)
				}
				return
			}
			lawDiffers = true
			if p.gos != nil {
				// payloads share memory: fresh rebuilds would lose the sharing, so no shrinking;
				// the replay carries the aliasing layout and the indices of the values involved
				meth := "Equals"
				if strings.HasPrefix(law, "cmp") {
					meth = "CompareTo"
				}
				if law == "total" {
					meth = strings.Split(detail, "+")[0]
					law = "panic"
				}
				note := " (payloads are windows of one backing array / independent copies)"
				if p.hseed != nil {
					note = " (values built through Put / Set / Clear / PutAll histories next to plainly built twins)"
				}
				vv := vals
				if p.hseed != nil {
					vv = p.vs // the replay needs the whole pool to match the seeds
				}
				failOnce("property", typeOf(vals[0])+"."+meth+":"+law+"-"+p.route(), detail+note, vv, p.replayExtra(idx))
				return
			}
			a, b := vals[0], vals[len(vals)-1]
			key := ""
			switch law {
			case "total":
				for _, meth := range strings.Split(detail, "+") {
					x, _ := shrinkPair(a, b, func(x, y *vg.V) bool { _, w := implCell(x, y); return strings.Contains(w, meth) })
					failOnce("property", typeOf(x)+"."+meth+":panic", meth+" panicked", vals, nil)
				}
				return
			case "cmp-types":
				key = "CompareTo:type-order"
			case "eq-decode":
				bad := a
				a.Walk(func(s *vg.V) {
					if s.Nodes() <= bad.Nodes() {
						if e, ok := decodeEq(s); !ok || !e {
							bad = s
						}
					}
				})
				key = typeOf(bad) + ".Equals:decode"
				if bad.HasNil() {
					key = typeOf(bad) + ".Equals:nil-payload-vs-decoding"
				}
			case "cmp-antisym":
				x, y := shrinkPair(a, b, func(x, y *vg.V) bool {
					c1, _ := implCell(x, y)
					c2, _ := implCell(y, x)
					return !c1.panicked && !c2.panicked && c1.cmp != -c2.cmp
				})
				if x.K != y.K {
					key = "CompareTo:type-order"
				} else {
					key = typeOf(x) + ".CompareTo:antisym"
				}
			default:
				meth := "Equals"
				if strings.HasPrefix(law, "cmp") {
					meth = "CompareTo"
				}
				mixed := false
				for _, v := range vals {
					mixed = mixed || v.K != vals[0].K
				}
				if mixed && meth == "CompareTo" {
					key = "CompareTo:type-order"
				} else {
					key = typeOf(vals[0]) + "." + meth + ":" + law
				}
			}
			failOnce("property", key, detail, vals, nil)
		}

		for i := 0; i < n; i++ {
			for j := 0; j < n; j++ {
				if impl[i][j].panicked {
					lawFail("total", []int{i, j}, true, what[i][j])
				}
			}
		}
		ok := func(i, j int) bool { return !impl[i][j].panicked }
		for i := 0; i < n; i++ {
			if ok(i, i) && !impl[i][i].eq {
				lawFail("eq-refl", []int{i}, false, "a value is not equal to itself")
			}
			if ok(i, i) && impl[i][i].cmp != 0 && !(!impl[i][i].eq) {
				lawFail("cmp-refl", []int{i}, false, "CompareTo(self) is not 0 although Equals(self)")
			}
			// decode law (on the implementation object graph)
			var e, okd bool
			if p.vs[i].HasRawIP() {
				// an address of another length than four cannot round-trip (the reader takes four bytes): laws of Equals / CompareTo only
				e, okd = true, true
			} else if p.gos != nil {
				e, okd = decodeEqG(p.gos[i])
			} else if !p.vs[i].HasRawIP() {
				e, okd = decodeEq(p.vs[i])
			}
			if okd && !e {
				// does the model agree?  model: eqV v v (the decoding of a well-formed value is the value)
				meq, _ := mcell(i, i)
				if !meq {
					lawFail("eq-decode", []int{i}, false, "a value is not equal to the result of decoding its encoding")
				} else {
					lawDiffers = true
					lawFail("eq-decode", []int{i}, true, "a value is not equal to the result of decoding its encoding")
				}
			} else if !okd {
				// encoding a value and decoding it again must not fail at all
				rep.Count("decode-law:panic")
				lawDiffers = true
				lawFail("eq-decode", []int{i}, true, "encoding the value and decoding it again (exact-size buffer, nothing behind it) panics")
			}
			for j := 0; j < n; j++ {
				if !ok(i, j) || !ok(j, i) {
					continue
				}
				a, b := p.vs[i], p.vs[j]
				if i != j && p.hseed != nil && p.vs[i] == p.vs[j] {
					// the same content reached by two construction routes
					if meq, mc := mcell(i, j); meq && mc == 0 && (!impl[i][j].eq || impl[i][j].cmp != 0) {
						lawFail("eq-same-content", []int{i, j}, true, fmt.Sprintf("two values with identical content are not Equal / do not compare 0 (Equals %v, CompareTo sign %d)", impl[i][j].eq, impl[i][j].cmp))
					}
				}
				if i < j && impl[i][j].eq != impl[j][i].eq {
					lawFail("eq-symm", []int{i, j}, false, "Equals is not symmetric")
				}
				if i < j && impl[i][j].cmp != -impl[j][i].cmp {
					lawFail("cmp-antisym", []int{i, j}, false, fmt.Sprintf("CompareTo signs %d and %d do not reverse", impl[i][j].cmp, impl[j][i].cmp))
				}
				if a.K != b.K {
					want := sign(vg.TagOf[a.K] - vg.TagOf[b.K])
					if impl[i][j].cmp != want {
						lawFail("cmp-types", []int{i, j}, false, fmt.Sprintf("different types: CompareTo sign %d, type codes %d vs %d", impl[i][j].cmp, vg.TagOf[a.K], vg.TagOf[b.K]))
					}
					if impl[i][j].eq {
						lawFail("eq-types", []int{i, j}, false, "values of different types are Equal")
					}
				} else if (a.K == "l" || a.K == "m" || a.K == "im") && (impl[i][j].cmp == 0) != impl[i][j].eq && differs[i][j] {
					// the scalar clause reached through containers: descend to the corresponding scalars
					if x, y, found := nestedZeroIffEq(a, b); found {
						lawDiffers = true
						failOnce("property", typeOf(x)+".CompareTo:cmp-zero-iff-eq-inside-containers",
							fmt.Sprintf("scalars %s and %s: CompareTo is zero but Equals false (or the reverse); reached as corresponding elements of two %s values with CompareTo sign %d, Equals %v", vh.Clip(x.LineX(), 200), vh.Clip(y.LineX(), 200), typeOf(a), impl[i][j].cmp, impl[i][j].eq),
							[]*vg.V{a, b}, nil)
					}
				} else if scalarKind(a.K) {
					if pe, def := payloadEq(a, b); def && pe != impl[i][j].eq {
						lawFail("eq-exact", []int{i, j}, false, fmt.Sprintf("scalars: Equals is %v although the payloads are %s", impl[i][j].eq, map[bool]string{true: "equal", false: "different"}[pe]))
					}
					if (impl[i][j].cmp == 0) != impl[i][j].eq {
						lawFail("cmp-zero-iff-eq", []int{i, j}, false, fmt.Sprintf("scalars: CompareTo sign %d but Equals %v", impl[i][j].cmp, impl[i][j].eq))
					}
				}
				for k := 0; k < n; k++ {
					if !ok(j, k) || !ok(i, k) {
						continue
					}
					if impl[i][j].eq && impl[j][k].eq && !impl[i][k].eq {
						lawFail("eq-trans", []int{i, j, k}, false, "Equals is not transitive")
					}
					if impl[i][j].cmp <= 0 && impl[j][k].cmp <= 0 && impl[i][k].cmp > 0 {
						lawFail("cmp-trans", []int{i, j, k}, false, "CompareTo is not transitive")
					}
				}
			}
		}
		if anyDiff && !lawDiffers {
			for i := 0; i < n; i++ {
				for j := 0; j < n; j++ {
					if differs[i][j] {
						meth := "Equals"
						me, mc := mcell(i, j)
						if !impl[i][j].panicked && me == impl[i][j].eq && mc != impl[i][j].cmp {
							meth = "CompareTo"
						}
						var extra map[string]interface{}
						key := typeOf(p.vs[i]) + "." + meth + ":differs-from-model"
						vv := []*vg.V{p.vs[i], p.vs[j]}
						if p.gos != nil {
							extra = p.replayExtra([]int{i, j})
							key += "-" + p.route()
							if p.hseed != nil {
								vv = p.vs
							}
						}
						if p.gos == nil {
							// property-directed search: the pair, its numeric neighbours and the rest of the pool
							if law, lv, what := searchAround(p.vs[i], p.vs[j], p.vs); law != "" {
								m2 := "Equals"
								if strings.HasPrefix(law, "cmp") {
									m2 = "CompareTo"
								}
								failOnce("property", typeOf(lv[0])+"."+m2+":"+law,
									what+" (found around a pair on which implementation "+impl[i][j].String()+" and model "+model[i][j]+" disagree)", lv, nil)
								continue
							}
						}
						failOnce("correspondence", key,
							"implementation "+impl[i][j].String()+", model "+model[i][j]+"; all laws hold on this pool of the implementation",
							vv, extra)
					}
				}
			}
		}
	}

	if env.Replay == "" {
		zeroStructProbe(rep)
		largeStage(rep, env.Thorough)
		depthStage(rep)
		textStage(rep)
		helperStage(rep, env, rng.Fork())
	}

	// ---- known findings: replay the witnesses of the recorded quirks on the implementation
	if env.Replay == "" {
		W := func(s string) *vg.V {
			v, err := vg.ParseLine(s)
			if err != nil {
				vh.Die("witness %q: %v", s, err)
			}
			return v
		}
		c := func(a, b string) cell { x, _ := implCell(W(a), W(b)); return x }
		nan := "F,2143289344"
		{
			x := c(nan, nan)
			rep.KnownReplay("NaN:eq-refl", !x.panicked && !x.eq, "FloatValue(NaN).Equals(itself) = false")
			e, ok := decodeEq(W(nan))
			rep.KnownReplay("NaN:eq-decode", ok && !e, "FloatValue(NaN) is not Equal to the decoding of its encoding")
			x, y := c(nan, "F,1065353216"), c("F,1065353216", nan)
			rep.KnownReplay("NaN:cmp-antisym", x.cmp == -1 && y.cmp == -1, "FloatValue NaN vs 1.0: CompareTo = -1 in both directions")
			p, q, r := c("af,1,1065353216", "af,1,2143289344"), c("af,1,2143289344", "af,1,1073741824"), c("af,1,1065353216", "af,1,1073741824")
			rep.KnownReplay("NaN:eq-trans", p.eq && q.eq && !r.eq, "FloatArray [1] = [NaN] = [2] but [1] != [2]")
			p, q, r = c("F,1065353216", nan), c(nan, "F,1073741824"), c("F,1065353216", "F,1073741824")
			rep.KnownReplay("NaN:cmp-trans", p.cmp <= 0 && q.cmp <= 0 && r.cmp > 0, "FloatValue 1.0 <= NaN <= 2.0 by CompareTo but 1.0 > 2.0")
		}
		{
			x, y := c("m,1,61,N", "m,1,62,N"), c("m,1,62,N", "m,1,61,N")
			rep.KnownReplay("Map.CompareTo:cmp-antisym-different-keys", !x.panicked && !y.panicked && x.cmp == 1 && y.cmp == 1, "MapValue {a:null} vs {b:null}: CompareTo = 1 in both directions")
			x, y = c("m,2,78,D,1,79,D,2", "m,2,79,D,3,78,D,0"), c("m,2,79,D,3,78,D,0", "m,2,78,D,1,79,D,2")
			rep.KnownReplay("Map.CompareTo:cmp-antisym-key-order", !x.panicked && !y.panicked && x.cmp == y.cmp && x.cmp != 0, "MapValue {x:1,y:2} vs {y:3,x:0}: CompareTo has the same sign in both directions (each side walks its own key order)")
			p, q, r := c("m,2,78,D,1,79,D,2", "m,2,79,D,3,78,D,0"), c("m,2,79,D,3,78,D,0", "m,2,78,D,2,79,D,1"), c("m,2,78,D,1,79,D,2", "m,2,78,D,2,79,D,1")
			rep.KnownReplay("Map.CompareTo:cmp-trans", !p.panicked && p.cmp <= 0 && q.cmp <= 0 && r.cmp > 0, "MapValue a={x:1,y:2} b={y:3,x:0} c={x:2,y:1}: a<=b, b<=c but a>c")
		}
	}
	var qs []string
	for k, n := range quirkSeen {
		qs = append(qs, fmt.Sprintf("%s×%d", k, n))
	}
	sort.Strings(qs)
	rep.Note("recorded quirks met in the random pools: %s", strings.Join(qs, " "))
	rep.Note("pools=%d driver lines=%d", len(pools), len(lines))
	rep.Write(env.Out)
}
