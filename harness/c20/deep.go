package main

// Deep nesting.  Equals / CompareTo recurse along the children of lists, maps and int maps; the
// property quantifies over values of every shape, so it must hold at every nesting depth (there is
// no bound in the code: each level is one more call).  Theorems Props/C20 `wrap_eq` / `wrap_cmp`:
// wrapping both operands in the same chain of one-entry containers changes neither result.
//
//   deepPools   for depths 1 … 1000 and seven chain shapes (list / map / int map / the three
//               alternations / a list whose chain runs through its middle element): the chain over
//               several leaves (equal, different payload, different type, empty list, a longer list),
//               one level shallower, and a twin; all pair / triple laws and the decode law by the
//               pool machinery (model and implementation).
//   depthStage  the clause evaluated directly on the implementation: for leaves a, b and every
//               depth / shape, Equals(chain a, chain b) = Equals(a, b) and the sign of
//               CompareTo(chain a, chain b) is the sign of CompareTo(a, b), in both directions.

import (
	"fmt"

	"github.com/whatap/golib/lang/value"
	"verif/harness/c02/vg"
	"verif/harness/vh"
)

var deepShapes = []string{"l", "m", "im", "l/m", "l/im", "m/im", "l-mid"}
var deepDepths = []int{1, 2, 3, 8, 16, 31, 32, 33, 34, 35, 48, 64, 65, 100, 128, 129, 200, 256, 257, 500, 1000}

func wrapLevel(shape string, level int, inner *vg.V) *vg.V {
	kind := shape
	switch shape {
	case "l/m":
		kind = []string{"l", "m"}[level%2]
	case "l/im":
		kind = []string{"l", "im"}[level%2]
	case "m/im":
		kind = []string{"m", "im"}[level%2]
	}
	switch kind {
	case "l":
		return &vg.V{K: "l", L: []*vg.V{inner}}
	case "m":
		return &vg.V{K: "m", Ks: [][]byte{[]byte("k")}, L: []*vg.V{inner}}
	case "im":
		return &vg.V{K: "im", IKs: []int32{1}, L: []*vg.V{inner}}
	case "l-mid":
		return &vg.V{K: "l", L: []*vg.V{{K: "D"}, inner, {K: "N"}}}
	}
	vh.Die("deep shape %q", shape)
	return nil
}

// chain wraps leaf in depth levels of the shape (level 0 is the outermost)
func chain(shape string, depth int, leaf *vg.V) *vg.V {
	v := leaf.Clone()
	for level := depth - 1; level >= 0; level-- {
		v = wrapLevel(shape, level, v)
	}
	return v
}

func deepLeaves() []*vg.V {
	return []*vg.V{
		{K: "D", I: 7},
		{K: "D", I: 8},
		{K: "T", Bs: []byte("x")},
		{K: "l"},
		{K: "l", L: []*vg.V{{K: "D", I: 7}, {K: "N"}}},
	}
}

func deepPools(thorough bool) []pool {
	var out []pool
	for _, d := range deepDepths {
		for _, shape := range deepShapes {
			if d >= 500 && !thorough && shape != "l" && shape != "m" && shape != "l/im" {
				continue
			}
			p := pool{how: "deep:" + shape}
			for _, leaf := range deepLeaves() {
				p.vs = append(p.vs, chain(shape, d, leaf))
			}
			if d > 1 {
				p.vs = append(p.vs, chain(shape, d-1, &vg.V{K: "D", I: 7}))
			}
			out = append(out, p)
		}
	}
	return out
}

// depthStage evaluates "the same chain around both operands changes nothing" on the implementation
func depthStage(rep *vh.Report) {
	leaves := deepLeaves()
	leaves = append(leaves, &vg.V{K: "F", U: 0x7fc00000}, &vg.V{K: "m", Ks: [][]byte{[]byte("a")}, L: []*vg.V{{K: "N"}}},
		&vg.V{K: "m", Ks: [][]byte{[]byte("b")}, L: []*vg.V{{K: "N"}}})
	seen := map[string]int{}
	for _, d := range deepDepths {
		for _, shape := range deepShapes {
			for i, a := range leaves {
				for j, b := range leaves {
					base, bw := implCell(a, b)
					var ga, gb value.Value
					if o := vh.Guard(func() { ga, gb = chain(shape, d, a).ToGo(), chain(shape, d, b).ToGo() }); !o.OK() {
						vh.Die("depth stage: cannot build the chain: %s", o.Panic)
					}
					c, w := cellOf(ga, gb)
					rep.Case(fmt.Sprintf("deep %s %d %d %d", shape, d, i, j), true)
					rep.Count("depth-stage:" + shape)
					if base.panicked {
						vh.Die("depth stage: leaves panic (%s)", bw)
					}
					outer := vg.TypeName[wrapLevel(shape, 0, a).K]
					fail := func(key, summary string) {
						seen[key]++
						var replay interface{}
						if seen[key] <= 3 {
							replay = map[string]interface{}{"values": []string{vh.Clip(chain(shape, d, a).LineX(), 9000), vh.Clip(chain(shape, d, b).LineX(), 9000)},
								"depth": d, "shape": shape, "leaves": []string{a.Line(), b.Line()}}
						}
						rep.Fail("property", key, summary, replay)
					}
					switch {
					case c.panicked:
						fail(outer+"."+w+":panic-at-depth", fmt.Sprintf("%s panicked on two values nested %d levels deep (%s chain)", w, d, shape))
					default:
						if c.eq != base.eq {
							fail(outer+".Equals:nesting-changes-result", fmt.Sprintf("Equals of the leaves is %v, of the same leaves inside identical %s chains of depth %d it is %v", base.eq, shape, d, c.eq))
						}
						if c.cmp != base.cmp {
							fail(outer+".CompareTo:nesting-changes-result", fmt.Sprintf("CompareTo of the leaves has sign %d, of the same leaves inside identical %s chains of depth %d it has sign %d", base.cmp, shape, d, c.cmp))
						}
					}
				}
			}
		}
	}
}
