package main

// Values built through every construction route a caller has — not only the constructors: zero
// values of the structs whose fields are exported (&IP4Value{}, &BlobValue{}, &IntArray{} …, also
// &ListValue{}), exported payload fields assigned directly to nil / empty / short / long slices, and
// constructors called with nil.  Equals / CompareTo are promised to be total, so every law runs on
// them too.  (MapValue / IntMapValue keep their table in an unexported field and need their
// constructor; their zero value is not a value a caller can use.)
//
// And the encode / decode stability clause at container sizes around 2^15 and 2^16.

import (
	"fmt"

	gio "github.com/whatap/golib/io"
	"github.com/whatap/golib/lang/value"
	"verif/harness/c02/vg"
	"verif/harness/vh"
)

func routePools() []pool {
	ip := func(bs []byte, raw, isNil bool) *vg.V { return &vg.V{K: "P", Bs: bs, Raw: raw, Nil: isNil} }
	ips := []*vg.V{
		ip(nil, true, true),                     // &IP4Value{}: Val nil
		ip([]byte{}, true, false),               // Val = []byte{}
		ip([]byte{1}, true, false),              // short
		ip([]byte{1, 2, 3}, true, false),        // short
		ip([]byte{1, 2, 3, 4}, true, false),     // four bytes, assigned directly
		ip([]byte{1, 2, 3, 4}, false, false),    // the same through the constructor
		ip([]byte{1, 2, 3, 4, 5}, true, false),  // long
		ip([]byte{0, 0, 0, 0}, false, false),    // NewIP4Value(nil) gives 0.0.0.0
		ip([]byte{255, 0, 0, 0, 0, 0, 0, 9}, true, false),
	}
	wrapL := func(v *vg.V) *vg.V { return &vg.V{K: "l", L: []*vg.V{{K: "D", I: 1}, v.Clone()}} }
	wrapM := func(v *vg.V) *vg.V { return &vg.V{K: "m", Ks: [][]byte{[]byte("ip")}, L: []*vg.V{v.Clone()}} }
	var inL, inM []*vg.V
	for _, v := range ips[:7] {
		inL = append(inL, wrapL(v))
		inM = append(inM, wrapM(v))
	}
	// zero values / nil-argument constructors of every flat type next to the malformed addresses
	zeros := []*vg.V{{K: "N"}, {K: "B"}, {K: "D"}, {K: "I"}, {K: "L"}, {K: "F"}, {K: "G"}, {K: "S"}, {K: "M"}, {K: "T"}, {K: "H"},
		{K: "X", Nil: true}, ip(nil, true, true), {K: "ai", Nil: true}, {K: "af", Nil: true}, {K: "at", Nil: true}, {K: "al", Nil: true}, {K: "l"}}
	return []pool{
		{how: "routes:ip4", vs: ips},
		{how: "routes:ip4-in-list", vs: inL},
		{how: "routes:ip4-in-map", vs: inM},
		{how: "routes:zero-values", vs: zeros},
	}
}

// listZero: &ListValue{} (nil table) must behave like the empty list
func zeroStructProbe(rep *vh.Report) {
	type pr struct {
		name string
		a, b value.Value
	}
	probes := []pr{
		{"ListValue", &value.ListValue{}, value.NewListValue(nil)},
		{"BlobValue", &value.BlobValue{}, value.NewBlobValue([]byte{})},
		{"IntArray", &value.IntArray{}, value.NewIntArray([]int32{})},
		{"LongArray", &value.LongArray{}, value.NewLongArray([]int64{})},
		{"FloatArray", &value.FloatArray{}, value.NewFloatArray([]float32{})},
		{"TextArray", &value.TextArray{}, value.NewTextArray([]string{})},
		{"TextValue", &value.TextValue{}, value.NewTextValue("")},
		{"LongSummary", &value.LongSummary{}, value.NewLongSummary()},
		{"DoubleSummary", &value.DoubleSummary{}, value.NewDoubleSummary()},
		{"BoolValue", &value.BoolValue{}, value.NewBoolValue(false)},
		{"DecimalValue", &value.DecimalValue{}, value.NewDecimalValue(0)},
	}
	for _, p := range probes {
		for _, pair := range [][2]value.Value{{p.a, p.b}, {p.b, p.a}, {p.a, p.a}} {
			c, what := cellOf(pair[0], pair[1])
			rep.Case("zero-struct "+p.name+fmt.Sprint(pair[0] == p.a, pair[1] == p.a), true)
			rep.Count("routes:zero-struct")
			switch {
			case c.panicked:
				rep.Fail("property", p.name+"."+what+":panic", what+" panicked on the zero value of the struct (&"+p.name+"{})", map[string]interface{}{"type": p.name, "route": "&T{}"})
			case !c.eq || c.cmp != 0:
				rep.Fail("property", p.name+".Equals:zero-value-vs-constructor", fmt.Sprintf("the zero value of the struct and the empty value from the constructor: Equals %v, CompareTo sign %d", c.eq, c.cmp), map[string]interface{}{"type": p.name, "route": "&T{}"})
			}
		}
	}
}

// largeStage: m.Equals(decode(encode m)) for containers with 32767 … 70000 entries (implementation
// only: the model's map lookup is quadratic); arrays at their count limit
func largeStage(rep *vh.Report, thorough bool) {
	sizes := []int{32767, 32768, 32769, 65535, 65536, 70000}
	for _, n := range sizes {
		for _, kind := range []string{"m", "im", "l"} {
			v := &vg.V{K: kind}
			for i := 0; i < n; i++ {
				var e *vg.V
				if i%3 == 0 {
					e = &vg.V{K: "N"}
				} else {
					e = &vg.V{K: "D", I: int64(i)}
				}
				switch kind {
				case "m":
					v.Ks = append(v.Ks, []byte(fmt.Sprintf("k%d", i)))
				case "im":
					v.IKs = append(v.IKs, int32(i*7-100000))
				}
				v.L = append(v.L, e)
			}
			checkLarge(rep, v, fmt.Sprintf("%s with %d entries", vg.TypeName[kind], n), map[string]interface{}{"large": map[string]interface{}{"kind": kind, "entries": n}})
		}
	}
	for _, kind := range []string{"ai", "al", "af", "at"} {
		for _, n := range []int{32766, 32767} {
			v := &vg.V{K: kind}
			for i := 0; i < n; i++ {
				switch kind {
				case "ai", "al":
					v.Is = append(v.Is, int64(i))
				case "af":
					v.Us = append(v.Us, uint64(i))
				default:
					v.Ss = append(v.Ss, []byte{byte('a' + i%26)})
				}
			}
			checkLarge(rep, v, fmt.Sprintf("%s with %d elements", vg.TypeName[kind], n), map[string]interface{}{"large": map[string]interface{}{"kind": kind, "entries": n}})
		}
	}
	_ = thorough
}

func checkLarge(rep *vh.Report, v *vg.V, what string, replay map[string]interface{}) {
	var eq, back bool
	var size int
	o := vh.Guard(func() {
		g := v.ToGo()
		out := gio.NewDataOutputX()
		value.WriteValue(out, g)
		raw := out.ToByteArray()
		exact := make([]byte, len(raw))
		copy(exact, raw)
		d := value.ReadValue(gio.NewDataInputX(exact))
		eq = g.Equals(d) && d.Equals(g) && g.CompareTo(d) == 0 && d.CompareTo(g) == 0
		dv := vg.FromGo(d)
		size = len(dv.L) + len(dv.Is) + len(dv.Us) + len(dv.Ss)
		back = dv.Line() == v.Line()
	})
	rep.Case("large "+what, true)
	rep.Count("large-containers")
	want := len(v.L) + len(v.Is) + len(v.Us) + len(v.Ss)
	if !o.OK() || !eq || !back {
		rep.Fail("property", vg.TypeName[v.K]+".Equals:decode-large",
			fmt.Sprintf("a %s is not Equal to / does not compare 0 with the decoding of its encoding (decoded entries: %d of %d; panic: %s)", what, size, want, vh.Clip(o.Panic, 120)), replay)
	}
}
