package main

// Texts that are not well-formed UTF-8, and texts that some canonicalisation would identify.
//
// A TextValue holds a Go string: any byte sequence.  Equals compares the bytes; the property says
// CompareTo returns zero for scalars exactly when they are equal.  A comparison that first decodes
// the text (to runes, UTF-16 units, a normal form, a folded case …) identifies texts that differ only
// where the decoding loses information: every ill-formed byte becomes U+FFFD, canonically equivalent
// sequences coincide, case disappears.  The random generators produce ill-formed texts, but two texts
// that differ *only inside* the lossy part do not meet by chance.
//
//   textPools   by class of ill-formedness (stray continuation bytes, bytes that never occur,
//               truncated sequences, overlong forms, encoded surrogates, beyond U+10FFFF, a lead
//               followed by a non-continuation) and by class of canonicalisation (NFC / NFD, case,
//               trailing NUL / blank, BOM, width), each next to the genuine U+FFFD and well-formed
//               neighbours, in several contexts (bare, after / before / between ASCII, after a
//               multi-byte character), as TextValue, as the last element of a TextArray, and inside
//               lists, maps and int maps; all pair / triple laws, the decode law, and the model.
//   textStage   the clauses evaluated directly on the implementation over ALL pairs of fragments
//               (across classes): Equals ⇔ same bytes; CompareTo = 0 ⇔ same bytes; signs reverse;
//               transitivity of ≤ on the bare texts; the same for the pair inside identical lists,
//               maps and int maps.
//   textNeighbours (used by the property-directed search around a disagreeing pair): the text with its
//               last byte changed, its bytes ≥ 0x80 replaced, its ill-formed parts replaced by U+FFFD,
//               its ASCII case changed, a stray byte appended.

import (
	"bytes"
	"fmt"

	"verif/harness/c02/vg"
	"verif/harness/vh"
)

type textClass struct {
	name  string
	frags [][]byte
}

func hb(s ...byte) []byte { return s }

var textClasses = []textClass{
	{"stray-continuation", [][]byte{hb(0x80), hb(0xbf), hb(0xa0), hb(0x80, 0x80), hb(0x9f)}},
	{"never-a-lead", [][]byte{hb(0xc0), hb(0xc1), hb(0xf5), hb(0xf8), hb(0xfe), hb(0xff)}},
	{"truncated", [][]byte{hb(0xc3), hb(0xc2), hb(0xe2), hb(0xe2, 0x82), hb(0xf0), hb(0xf0, 0x9f), hb(0xf0, 0x9f, 0x98)}},
	{"overlong", [][]byte{hb(0xc0, 0xaf), hb(0xc1, 0xbf), hb(0xe0, 0x80, 0xaf), hb(0xe0, 0x9f, 0xbf), hb(0xf0, 0x80, 0x80, 0xaf), hb(0xf0, 0x8f, 0xbf, 0xbf)}},
	{"surrogate", [][]byte{hb(0xed, 0xa0, 0x80), hb(0xed, 0xaf, 0xbf), hb(0xed, 0xb0, 0x80), hb(0xed, 0xbf, 0xbf), hb(0xed, 0xa0, 0x80, 0xed, 0xb0, 0x80)}},
	{"beyond-10ffff", [][]byte{hb(0xf4, 0x90, 0x80, 0x80), hb(0xf4, 0xbf, 0xbf, 0xbf), hb(0xf5, 0x80, 0x80, 0x80), hb(0xf7, 0xbf, 0xbf, 0xbf)}},
	{"lead-then-other", [][]byte{hb(0xc3, 0x28), hb(0xc2, 0x28), hb(0xe2, 0x28, 0xa1), hb(0xe2, 0x82, 0x28), hb(0xf0, 0x28, 0x8c, 0xbc), hb(0xc3, 0xc3)}},
	{"well-formed", [][]byte{hb(0xef, 0xbf, 0xbd), hb(0xef, 0xbf, 0xbd, 0xef, 0xbf, 0xbd), hb(0xef, 0xbf, 0xbd, 0xef, 0xbf, 0xbd, 0xef, 0xbf, 0xbd),
		hb(0xc3, 0xa9), hb(0xe2, 0x82, 0xac), hb(0xee, 0x80, 0x80), hb(0xef, 0xbf, 0xbf), hb(0xf0, 0x90, 0x80, 0x80), hb(0xf0, 0x9f, 0x98, 0x80), hb(0xf4, 0x8f, 0xbf, 0xbf), hb(0x7f), hb(0x00), hb()}},
	// canonicalisations: the members of one line are "the same text" to some normaliser, never to Equals
	{"canonical-forms", [][]byte{[]byte("\u00e9"), []byte("e\u0301"), []byte("\u00c9"), []byte("E\u0301"), []byte("e"), []byte("E"), []byte("\u212b"), []byte("\u00c5"), []byte("A\u030a")}},
	{"case-width-blank", [][]byte{[]byte("k"), []byte("K"), []byte("\u212a"), []byte("\uff4b"), []byte("k "), []byte("k\x00"), []byte(" k"), []byte("\ufeffk"), []byte("k\u200b")}},
}

var textContexts = [][2]string{{"", ""}, {"a", ""}, {"", "z"}, {"ab", "cd"}, {"\u00e9", "\U0001f600"}}

func textIn(ctx [2]string, frag []byte) []byte {
	b := append([]byte(ctx[0]), frag...)
	return append(b, ctx[1]...)
}

var textWraps = []string{"T", "at", "l", "m", "im", "l/m"}

func textWrap(kind string, t []byte) *vg.V {
	tv := &vg.V{K: "T", Bs: append([]byte{}, t...)}
	switch kind {
	case "T":
		return tv
	case "at":
		return &vg.V{K: "at", Ss: [][]byte{[]byte("x"), append([]byte{}, t...)}}
	case "l":
		return &vg.V{K: "l", L: []*vg.V{{K: "D", I: 1}, tv}}
	case "m":
		return &vg.V{K: "m", Ks: [][]byte{[]byte("a"), []byte("b")}, L: []*vg.V{{K: "T", Bs: []byte("x")}, tv}}
	case "im":
		return &vg.V{K: "im", IKs: []int32{7}, L: []*vg.V{tv}}
	case "l/m":
		return &vg.V{K: "l", L: []*vg.V{{K: "m", Ks: [][]byte{[]byte("k")}, L: []*vg.V{tv}}}}
	}
	vh.Die("text wrap %q", kind)
	return nil
}

// allTextFrags: every fragment once, with its class
func allTextFrags() (frags [][]byte, class []string) {
	seen := map[string]bool{}
	for _, c := range textClasses {
		for _, f := range c.frags {
			if !seen[string(f)] {
				seen[string(f)] = true
				frags = append(frags, f)
				class = append(class, c.name)
			}
		}
	}
	return
}

func textPools(thorough bool) []pool {
	var out []pool
	fffd := []byte("\uFFFD")
	for ci, ctx := range textContexts {
		var groups []textClass
		for _, c := range textClasses {
			g := textClass{name: c.name, frags: append([][]byte{}, c.frags...)}
			if len(g.frags) > 7 {
				groups = append(groups, textClass{c.name + "-2", g.frags[6:]})
				g.frags = g.frags[:6]
			}
			if c.name != "well-formed" && c.name != "canonical-forms" && c.name != "case-width-blank" {
				// the replacement character itself, once and as often as the fragment has bytes
				g.frags = append(g.frags, fffd, bytes.Repeat(fffd, len(g.frags[len(g.frags)-1])))
			}
			groups = append(groups, g)
		}
		// across the classes: the k-th member of every ill-formed class
		for k := 0; k < 5; k++ {
			g := textClass{name: fmt.Sprintf("across-%d", k)}
			for _, c := range textClasses[:7] {
				g.frags = append(g.frags, c.frags[k%len(c.frags)])
			}
			g.frags = append(g.frags, fffd)
			groups = append(groups, g)
		}
		for gi, g := range groups {
			for wi, w := range textWraps {
				if !thorough && w != "T" && (gi+wi+ci)%2 == 1 {
					continue // quick: every class bare, and in half of the wrappers per context
				}
				p := pool{how: "text:" + g.name + ":" + w}
				var vs []*vg.V
				for _, f := range g.frags {
					vs = append(vs, textWrap(w, textIn(ctx, f)))
				}
				p.vs = dedupe(vs, 9)
				if len(p.vs) >= 2 {
					out = append(out, p)
				}
			}
		}
	}
	return out
}

// textStage: the scalar clauses on every pair of fragments, bare and inside identical containers,
// evaluated on the implementation alone.
func textStage(rep *vh.Report) {
	frags, class := allTextFrags()
	n := len(frags)
	seen := map[string]int{}
	for ci, ctx := range textContexts {
		texts := make([][]byte, n)
		for i := range frags {
			texts[i] = textIn(ctx, frags[i])
		}
		var bare [][]cell
		for _, w := range textWraps {
			outer := vg.TypeName[textWrap(w, nil).K]
			m := make([][]cell, n)
			for i := range m {
				m[i] = make([]cell, n)
				for j := range m[i] {
					a, b := textWrap(w, texts[i]), textWrap(w, texts[j])
					c, what := implCell(a, b)
					m[i][j] = c
					rep.Case(fmt.Sprintf("text %d %s %d %d", ci, w, i, j), true)
					rep.Count("text-stage:" + w)
					if i != j {
						rep.Count("text-stage:class:" + class[i])
					}
					fail := func(key, summary string) {
						seen[key]++
						var replay interface{}
						if seen[key] <= 3 {
							replay = map[string]interface{}{"values": []string{a.LineX(), b.LineX()},
								"texts_hex": []string{vh.Hex(texts[i]), vh.Hex(texts[j])}, "classes": []string{class[i], class[j]}, "inside": w}
						}
						rep.Fail("property", key, summary, replay)
					}
					where := ""
					if w != "T" {
						where = " (the two texts are corresponding elements of otherwise identical " + outer + " values)"
					}
					same := bytes.Equal(texts[i], texts[j])
					switch {
					case c.panicked:
						fail(outer+"."+what+":panic", what+" panicked on texts "+vh.Hex(texts[i])+" / "+vh.Hex(texts[j])+where)
					default:
						if c.eq != same {
							fail("TextValue.Equals:eq-exact", fmt.Sprintf("Equals is %v for the texts %s and %s%s", c.eq, vh.Hex(texts[i]), vh.Hex(texts[j]), where))
						}
						if (c.cmp == 0) != c.eq {
							key := "TextValue.CompareTo:cmp-zero-iff-eq"
							if w == "at" {
								key = "TextArray.CompareTo:cmp-zero-iff-eq"
							} else if w != "T" {
								key += "-inside-containers"
							}
							fail(key, fmt.Sprintf("CompareTo has sign %d but Equals is %v for the texts %s [%s] and %s [%s]%s", c.cmp, c.eq, vh.Hex(texts[i]), class[i], vh.Hex(texts[j]), class[j], where))
						}
					}
				}
			}
			for i := 0; i < n; i++ {
				for j := i + 1; j < n; j++ {
					if !m[i][j].panicked && !m[j][i].panicked && m[i][j].cmp != -m[j][i].cmp {
						seen["antisym"]++
						var replay interface{}
						if seen["antisym"] <= 3 {
							replay = map[string]interface{}{"values": []string{textWrap(w, texts[i]).LineX(), textWrap(w, texts[j]).LineX()}}
						}
						rep.Fail("property", outer+".CompareTo:antisym", fmt.Sprintf("CompareTo signs %d and %d do not reverse for the texts %s and %s inside %s", m[i][j].cmp, m[j][i].cmp, vh.Hex(texts[i]), vh.Hex(texts[j]), w), replay)
					}
				}
			}
			if w == "T" {
				bare = m
			} else if bare != nil {
				// identical containers around both texts change nothing
				for i := 0; i < n; i++ {
					for j := 0; j < n; j++ {
						if !m[i][j].panicked && !bare[i][j].panicked && (bare[i][j].cmp == 0) == bare[i][j].eq && (m[i][j].eq != bare[i][j].eq || (w != "at" && m[i][j].cmp != bare[i][j].cmp) || (m[i][j].cmp == 0) != (bare[i][j].cmp == 0)) {
							// (a TextArray orders its elements ascending, a TextValue descending: only zero / non-zero is compared there)
							seen["wrap"]++
							var replay interface{}
							if seen["wrap"] <= 3 {
								replay = map[string]interface{}{"values": []string{textWrap(w, texts[i]).LineX(), textWrap(w, texts[j]).LineX()}}
							}
							rep.Fail("property", outer+".CompareTo:text-element-changes-result", fmt.Sprintf("the texts %s and %s give Equals %v / CompareTo sign %d, as corresponding elements of identical %s values %v / %d", vh.Hex(texts[i]), vh.Hex(texts[j]), bare[i][j].eq, bare[i][j].cmp, outer, m[i][j].eq, m[i][j].cmp), replay)
						}
					}
				}
			}
		}
		// transitivity on the bare texts, all triples
		for i := 0; i < n; i++ {
			for j := 0; j < n; j++ {
				if bare[i][j].panicked || bare[i][j].cmp > 0 {
					continue
				}
				for k := 0; k < n; k++ {
					if bare[j][k].panicked || bare[i][k].panicked {
						continue
					}
					if bare[j][k].cmp <= 0 && bare[i][k].cmp > 0 {
						seen["trans"]++
						var replay interface{}
						if seen["trans"] <= 3 {
							replay = map[string]interface{}{"values": []string{textWrap("T", texts[i]).LineX(), textWrap("T", texts[j]).LineX(), textWrap("T", texts[k]).LineX()}}
						}
						rep.Fail("property", "TextValue.CompareTo:cmp-trans", fmt.Sprintf("CompareTo is not transitive on the texts %s, %s, %s", vh.Hex(texts[i]), vh.Hex(texts[j]), vh.Hex(texts[k])), replay)
					}
					if bare[i][j].eq && bare[j][k].eq && !bare[i][k].eq {
						rep.Fail("property", "TextValue.Equals:eq-trans", fmt.Sprintf("Equals is not transitive on the texts %s, %s, %s", vh.Hex(texts[i]), vh.Hex(texts[j]), vh.Hex(texts[k])), nil)
					}
				}
			}
		}
	}
}

// textNeighbours: variants of v in which the first text leaf that has one is changed where a decoding
// comparison would not look
func textNeighbours(v *vg.V) []*vg.V {
	var out []*vg.V
	edits := []func(b []byte) []byte{
		func(b []byte) []byte { // last byte's lowest bit
			if len(b) == 0 {
				return nil
			}
			c := append([]byte{}, b...)
			c[len(c)-1] ^= 1
			return c
		},
		func(b []byte) []byte { return mapHigh(b, 0xff) },
		func(b []byte) []byte { return mapHigh(b, 0xfe) },
		func(b []byte) []byte { return bytes.ToValidUTF8(b, []byte("\uFFFD")) },
		func(b []byte) []byte { return append(append([]byte{}, b...), 0x80) },
		func(b []byte) []byte { return append(append([]byte{}, b...), 0xbf) },
		func(b []byte) []byte {
			c := append([]byte{}, b...)
			for i := range c {
				if c[i] >= 'a' && c[i] <= 'z' {
					c[i] -= 32
				} else if c[i] >= 'A' && c[i] <= 'Z' {
					c[i] += 32
				}
			}
			return c
		},
	}
	for _, e := range edits {
		c := v.Clone()
		done := false
		c.Walk(func(n *vg.V) {
			if done {
				return
			}
			switch n.K {
			case "T":
				if nb := e(n.Bs); nb != nil && !bytes.Equal(nb, n.Bs) {
					n.Bs, done = nb, true
				}
			case "at":
				if len(n.Ss) > 0 {
					if nb := e(n.Ss[len(n.Ss)-1]); nb != nil && !bytes.Equal(nb, n.Ss[len(n.Ss)-1]) {
						n.Ss[len(n.Ss)-1], done = nb, true
					}
				}
			}
		})
		if done {
			out = append(out, c)
		}
	}
	return out
}

func mapHigh(b []byte, to byte) []byte {
	c := append([]byte{}, b...)
	for i := range c {
		if c[i] >= 0x80 {
			c[i] = to
		}
	}
	return c
}

// nestedZeroIffEq: a and b are containers of one kind on which CompareTo is 0 although Equals is false
// (or the reverse).  Descend along corresponding children while that persists; when it ends at two
// scalars of one type without NaN, the scalar clause of the property fails on them.
func nestedZeroIffEq(a, b *vg.V) (x, y *vg.V, ok bool) {
	bad := func(p, q *vg.V) bool {
		c, _ := implCell(p, q)
		return !c.panicked && (c.cmp == 0) != c.eq
	}
	if !bad(a, b) {
		return nil, nil, false
	}
	x, y = shrinkPair(a, b, bad)
	if x.K == y.K && scalarKind(x.K) && !x.HasNaN() && !y.HasNaN() && (x != a || y != b) {
		return x, y, true
	}
	return nil, nil, false
}
