package main

// Containers made mostly or wholly of MINIMAL-size elements (a NullValue is one byte on the wire, an
// empty text / blob / decimal 0 two, an empty array three), with 1, 2, 3, 10, 1000 of them, encoded
// alone in an exact-size buffer, nested one level, and as the last field of a larger value.  A decoder
// that estimates "count x minimum element size" against the bytes that are left must not reject them.

import (
	"fmt"

	"verif/harness/c02/vg"
)

func minimalPools() []pool {
	var out []pool
	elems := map[string]func() *vg.V{
		"null":        func() *vg.V { return &vg.V{K: "N"} },
		"empty-text":  func() *vg.V { return &vg.V{K: "T"} },
		"empty-blob":  func() *vg.V { return &vg.V{K: "X"} },
		"decimal-0":   func() *vg.V { return &vg.V{K: "D"} },
		"false":       func() *vg.V { return &vg.V{K: "B"} },
		"empty-array": func() *vg.V { return &vg.V{K: "ai"} },
		"empty-list":  func() *vg.V { return &vg.V{K: "l"} },
	}
	names := []string{"null", "empty-text", "empty-blob", "decimal-0", "false", "empty-array", "empty-list"}
	wrapVariants := func(x *vg.V) []*vg.V {
		return []*vg.V{
			x,                               // alone: the value is the whole buffer
			{K: "l", L: []*vg.V{x.Clone()}}, // nested one level
			{K: "m", Ks: [][]byte{[]byte("k")}, L: []*vg.V{x.Clone()}},                               // nested in a map
			{K: "l", L: []*vg.V{{K: "T", Bs: []byte("head")}, {K: "D", I: 5}, x.Clone()}},            // last field of a larger value
			{K: "m", Ks: [][]byte{[]byte("a"), []byte("z")}, L: []*vg.V{{K: "L", I: -1}, x.Clone()}}, // last entry of a map
			{K: "im", IKs: []int32{1, 2}, L: []*vg.V{{K: "G", U: 0}, x.Clone()}},
		}
	}
	for _, n := range []int{1, 2, 3, 10, 1000} {
		for ei, name := range names {
			if n == 1000 && ei > 3 {
				continue
			}
			mk := elems[name]
			l := &vg.V{K: "l"}
			m := &vg.V{K: "m"}
			im := &vg.V{K: "im"}
			for i := 0; i < n; i++ {
				l.L = append(l.L, mk())
				key := fmt.Sprint(i)
				if i == 0 {
					key = "" // the empty key is one byte
				}
				m.Ks = append(m.Ks, []byte(key))
				m.L = append(m.L, mk())
				im.IKs = append(im.IKs, int32(i))
				im.L = append(im.L, mk())
			}
			mostly := l.Clone() // mostly minimal: one ordinary element in front
			mostly.L[0] = &vg.V{K: "T", Bs: []byte("x")}
			for _, c := range []*vg.V{l, m, im, mostly} {
				vs := wrapVariants(c)
				if n == 1000 {
					vs = vs[:4]
				}
				out = append(out, pool{how: "minimal:" + name, vs: vs})
			}
		}
		// arrays of n minimal elements
		at := &vg.V{K: "at"}
		ai := &vg.V{K: "ai"}
		af := &vg.V{K: "af"}
		al := &vg.V{K: "al"}
		for i := 0; i < n; i++ {
			at.Ss = append(at.Ss, []byte{})
			ai.Is = append(ai.Is, 0)
			af.Us = append(af.Us, 0)
			al.Is = append(al.Is, 0)
		}
		for _, c := range []*vg.V{at, ai, af, al} {
			vs := wrapVariants(c)
			if n == 1000 {
				vs = vs[:4]
			}
			out = append(out, pool{how: "minimal:array", vs: vs})
		}
	}
	return out
}
