package main

// dump: the driver line of a LIVE pack object, read from its current PUBLIC state (exported fields,
// public getters, public enumerations of its containers).  Used by the re-send-after-mutation stage:
// whatever the object caches privately, the frame it sends must be the model's encoding of this state.
//
// TextPack has no public reader for its records; the stage keeps a mirror of what was added (liveObj.recs).

import (
	"fmt"
	"math"
	"reflect"
	"strings"
	"unsafe"

	"github.com/whatap/golib/lang"
	"github.com/whatap/golib/lang/pack"
	"github.com/whatap/golib/lang/value"
	"github.com/whatap/golib/util/hmap"
	"verif/harness/vh"
)

func dumpValue(v value.Value) string {
	switch x := v.(type) {
	case nil:
		return "n"
	case *value.NullValue:
		return "n"
	case *value.BoolValue:
		if x.Val {
			return "b:1"
		}
		return "b:0"
	case *value.DecimalValue:
		return "d:" + itoa(x.Val)
	case *value.IntValue:
		return "i:" + itoa(int64(x.Val))
	case *value.LongValue:
		return "l:" + itoa(x.Val)
	case *value.FloatValue:
		return "f:" + utoa(uint64(math.Float32bits(x.Val)))
	case *value.DoubleValue:
		return "g:" + utoa(math.Float64bits(x.Val))
	case *value.DoubleSummary:
		return fmt.Sprintf("ds:%d:%d:%d:%d", math.Float64bits(x.Sum), x.Count, math.Float64bits(x.Min), math.Float64bits(x.Max))
	case *value.LongSummary:
		return fmt.Sprintf("ls:%d:%d:%d:%d", x.Sum, x.Count, x.Min, x.Max)
	case *value.TextValue:
		return "t:" + hx(x.Val)
	case *value.TextHashValue:
		return "h:" + itoa(int64(x.Val))
	case *value.BlobValue:
		return "x:" + vh.Hex(x.Val)
	case *value.IP4Value:
		return "p:" + vh.Hex(x.Val)
	case *value.ListValue:
		var ts []string
		for i := 0; i < x.Size(); i++ {
			ts = append(ts, dumpValue(x.Get(i)))
		}
		return "L(" + strings.Join(ts, ";") + ")"
	case *value.IntArray:
		ts := make([]string, len(x.Val))
		for i, e := range x.Val {
			ts[i] = itoa(int64(e))
		}
		return "ai:" + vh.List(ts)
	case *value.LongArray:
		ts := make([]string, len(x.Val))
		for i, e := range x.Val {
			ts[i] = itoa(e)
		}
		return "al:" + vh.List(ts)
	case *value.FloatArray:
		ts := make([]string, len(x.Val))
		for i, e := range x.Val {
			ts[i] = utoa(uint64(math.Float32bits(e)))
		}
		return "af:" + vh.List(ts)
	case *value.TextArray:
		ts := make([]string, len(x.Val))
		for i, e := range x.Val {
			ts[i] = hx(e)
			if e == "" {
				ts[i] = "_"
			}
		}
		return "at:" + vh.List(ts)
	case *value.MapValue:
		return dumpMap(x)
	case *value.IntMapValue:
		var ts []string
		ks := x.Keys()
		for ks.HasMoreElements() {
			k := ks.NextInt()
			ts = append(ts, itoa(int64(k))+"="+dumpValue(x.Get(k)))
		}
		return "IM(" + strings.Join(ts, ";") + ")"
	}
	return "unknown-value"
}

func dumpMap(m *value.MapValue) string {
	if m == nil {
		return "M()"
	}
	var ts []string
	ks := m.Keys()
	for ks.HasMoreElements() {
		k := ks.NextString()
		ts = append(ts, hx(k)+"="+dumpValue(m.Get(k)))
	}
	return "M(" + strings.Join(ts, ";") + ")"
}

func dumpHdr(p pack.Pack) string {
	v := reflect.ValueOf(p).Elem()
	g := func(n string) int64 { return v.FieldByName(n).Int() }
	return fmt.Sprintf("pcode=%d oid=%d okind=%d onode=%d time=%d", g("Pcode"), g("Oid"), g("Okind"), g("Onode"), g("Time"))
}

func ints16(xs []int16) string {
	ts := make([]string, len(xs))
	for i, x := range xs {
		ts[i] = itoa(int64(x))
	}
	return vh.List(ts)
}

func ints32(xs []int32) string {
	ts := make([]string, len(xs))
	for i, x := range xs {
		ts[i] = itoa(int64(x))
	}
	return vh.List(ts)
}

var counterScalars = []string{"duration", "cputime", "heapTot", "heapUse", "heapPerm", "heapPendingFinalization", "gcCount", "gcTime",
	"serviceCount", "serviceError", "serviceTime", "sqlCount", "sqlError", "sqlTime", "sqlFetchCount", "sqlFetchTime", "httpcCount",
	"httpcError", "httpcTime", "actSvcCount", "cpu", "cpuSys", "cpuUsr", "cpuWait", "cpuSteal", "cpuIrq", "cpuProc", "cpuCores", "mem",
	"swap", "disk", "threadTotalStarted", "threadCount", "threadDaemon", "threadPeakCount", "procFd", "tps", "respTime", "apType",
	"starttime", "packDropped", "hostIp", "macHash", "pid", "threadPoolActiveCount", "threadPoolQueueSize", "containerKey", "txDbcTime",
	"txSqlTime", "txHttpcTime", "apdexSatisfied", "apdexTolerated", "arrivalRate", "gcOldgenCount", "version", "heapMax", "procFdMax",
	"metering", "apdexTotal", "resp90", "resp95", "timeSqrSum"}

func goFieldName(key string) string { return strings.ToUpper(key[:1]) + key[1:] }

func txm(m *pack.TxMeter) string { return fmt.Sprintf("%d:%d:%d:%d", m.Time, m.Count, m.Error, m.Actx) }

func dumpCounter(c *pack.CounterPack1) string {
	var sb strings.Builder
	v := reflect.ValueOf(c).Elem()
	for _, k := range counterScalars {
		f := v.FieldByName(goFieldName(k))
		switch f.Kind() {
		case reflect.Float32:
			// the bit pattern as stored (f.Float() would widen to float64 and quiet a signalling NaN)
			fmt.Fprintf(&sb, " %s=%d", k, *(*uint32)(unsafe.Pointer(f.UnsafeAddr())))
		case reflect.Uint8:
			fmt.Fprintf(&sb, " %s=%d", k, f.Uint())
		default:
			fmt.Fprintf(&sb, " %s=%d", k, f.Int())
		}
	}
	fmt.Fprintf(&sb, " actSvcSlice=%s activeStat=%s", ints16(c.ActSvcSlice), ints16(c.ActiveStat))
	if c.DbNumActive != nil && c.DbNumIdle != nil {
		d := func(m *hmap.IntIntMap) string {
			var ts []string
			en := m.Entries()
			for en.HasMoreElements() {
				e := en.NextElement().(*hmap.IntIntEntry)
				ts = append(ts, fmt.Sprintf("%d:%d", e.GetKey(), e.GetValue()))
			}
			if len(ts) == 0 {
				return "-"
			}
			return strings.Join(ts, "/")
		}
		fmt.Fprintf(&sb, " dbActive=%s dbIdle=%s", d(c.DbNumActive), d(c.DbNumIdle))
	}
	if n := c.Netstat; n != nil {
		fmt.Fprintf(&sb, " netstat=%d:%d:%d:%d", n.Est, n.FinW, n.CloW, n.TimW)
	}
	if w := c.Websocket; w != nil {
		fmt.Fprintf(&sb, " websocket=%d:%d:%d", w.Count, w.In, w.Out)
	}
	if c.Extra != nil {
		sb.WriteString(" extra=" + dumpValue(c.Extra))
	}
	ikm := func(key string, m *hmap.IntKeyLinkedMap) {
		if m == nil {
			return
		}
		var ts []string
		en := m.Entries()
		for en.HasMoreElements() {
			e := en.NextElement().(*hmap.IntKeyLinkedEntry)
			switch x := e.GetValue().(type) {
			case *pack.TxMeter:
				ts = append(ts, fmt.Sprintf("%d:%s", e.GetKey(), txm(x)))
			case *pack.HttpcMeter:
				ts = append(ts, fmt.Sprintf("%d:%s", e.GetKey(), txm(&x.TxMeter)))
			case *pack.SqlMeter:
				ts = append(ts, fmt.Sprintf("%d:%s:%d:%d", e.GetKey(), txm(&x.TxMeter), x.FetchCount, x.FetchTime))
			}
		}
		t := "-"
		if len(ts) > 0 {
			t = strings.Join(ts, "/")
		}
		sb.WriteString(" " + key + "=" + t)
	}
	ikm("oidMeter", c.TxcallerOidMeter)
	ikm("sqlMeter", c.SqlMeter)
	ikm("httpcMeter", c.HttpcMeter)
	if m := c.TxcallerGroupMeter; m != nil {
		var ts []string
		en := m.Entries()
		for en.HasMoreElements() {
			e := en.NextElement().(*hmap.LinkedEntry)
			k := e.GetKey().(*lang.PKIND)
			ts = append(ts, fmt.Sprintf("%d:%d:%s", k.PCode, k.OKind, txm(e.GetValue().(*pack.TxMeter))))
		}
		t := "-"
		if len(ts) > 0 {
			t = strings.Join(ts, "/")
		}
		sb.WriteString(" groupMeter=" + t)
	}
	if u := c.TxcallerUnknown; u != nil {
		sb.WriteString(" unknown=" + txm(u))
	}
	if m := c.TxcallerPOidMeter; m != nil && m.Size() > 0 {
		var ts []string
		en := m.Entries()
		for en.HasMoreElements() {
			e := en.NextElement().(*hmap.LinkedEntry)
			k := e.GetKey().(*lang.POID)
			tm := e.GetValue().(*pack.TxMeter)
			at := "-"
			if len(tm.Acts) > 0 {
				as := make([]string, len(tm.Acts))
				for j, a := range tm.Acts {
					as[j] = itoa(int64(a))
				}
				at = strings.Join(as, ".")
			}
			ts = append(ts, fmt.Sprintf("%d:%d:%d:%d:%d:%s:%d", k.PCode, k.Oid, tm.Time, tm.Count, tm.Error, at, tm.Actx))
		}
		sb.WriteString(" poidMeter=" + strings.Join(ts, "/"))
	}
	return sb.String()
}

type liveObj struct {
	typ    string
	goName string
	p      pack.Pack
	recs   []pack.TextRec // mirror of a TextPack's records (no public reader)
	lic    string
	log    []string // what was done to the object, in order

	lastPayload  []byte // payload of the previous send
	mutated      bool   // mutated since the previous send
	lastReserved bool   // event: the state before the previous send held user attributes under reserved keys
}

// dumpPack: "<type> k=v …" from the object's current public state (without lic / go).
func dumpPack(o *liveObj) string {
	h := dumpHdr(o.p)
	switch p := o.p.(type) {
	case *pack.TagCountPack:
		return fmt.Sprintf("tagcount %s category=%s tagHash=%d tags=%s data=%s", h, hx(p.Category), p.GetTagHash(), dumpMap(p.Tags), dumpMap(p.Data))
	case *pack.LogSinkPack:
		return fmt.Sprintf("logsink %s category=%s tagHash=%d tags=%s line=%d content=%s fields=%s", h, hx(p.Category), p.TagHash, dumpMap(p.Tags),
			p.Line, hx(p.Content), dumpMap(p.Fields))
	case *pack.TextPack:
		ts := make([]string, len(o.recs))
		for i, r := range o.recs {
			ts[i] = fmt.Sprintf("%d:%d:%s", r.Div, r.Hash, hx(r.Text))
		}
		t := "-"
		if len(ts) > 0 {
			t = strings.Join(ts, "/")
		}
		return fmt.Sprintf("text %s recs=%s", h, t)
	case *pack.ParamPack:
		var ts []string
		ks := p.Keys()
		for ks.HasMoreElements() {
			k := ks.NextString()
			ts = append(ts, hx(k)+"="+dumpValue(p.Get(k)))
		}
		return fmt.Sprintf("param %s id=%d request=%d response=%d table=M(%s)", h, p.Id, p.Request, p.Response, strings.Join(ts, ";"))
	case *pack.EventPack:
		var ts []string
		en := p.Attr.Entries()
		for en.HasMoreElements() {
			e := en.NextElement().(*hmap.StringKeyLinkedEntry)
			s, _ := e.GetValue().(string)
			ts = append(ts, hx(e.GetKey())+":"+hx(s))
		}
		t := "-"
		if len(ts) > 0 {
			t = strings.Join(ts, "/")
		}
		esc := 0
		if p.Escalation {
			esc = 1
		}
		return fmt.Sprintf("event %s uuid=%s esc=%d level=%d title=%s message=%s status=%d otype=%d attr=%s", h, hx(p.Uuid), esc, p.Level,
			hx(p.Title), hx(p.Message), p.Status, p.Otype, t)
	case *pack.ZipPack:
		return fmt.Sprintf("zip %s status=%d recordCount=%d records=%s", h, p.Status, p.RecordCount, vh.Hex(p.Records))
	case *pack.HitMapPack1:
		return fmt.Sprintf("hitmap %s hit=%s error=%s", h, ints32(p.Hit), ints32(p.Error))
	case *pack.CounterPack1:
		return "counter " + h + dumpCounter(p)
	}
	return "unknown"
}
