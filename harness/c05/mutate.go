package main

// Re-send after mutation: ONE pack object is sent again and again, mutated between sends through every
// public route — setter methods, direct assignment of exported fields, direct mutation of the exported
// containers (maps put/removed/cleared/replaced, slices written and appended in place, meter entries
// changed in place).  Before each send the object's current public state is dumped (dump.go); the bytes it
// sends must be the model's encoding of a freshly built pack with that state.  A pack that keeps part of
// an earlier encoding (a cached tag map, a cached body) fails here.
//
// Every send is exactly one Write of the object, through one of three routes: the public client over a
// loopback socket, the frame builder (MakeDataForVerif), pack.ToBytesPack.

import (
	"bytes"
	"fmt"
	"reflect"
	"strings"
	"time"

	"github.com/whatap/golib/lang"
	"github.com/whatap/golib/lang/pack"
	"github.com/whatap/golib/lang/value"
	wnet "github.com/whatap/golib/net"
	"github.com/whatap/golib/net/oneway"
	"github.com/whatap/golib/util/hmap"
	"verif/harness/vh"
)

type mutator struct {
	name string
	f    func(r *vh.Rng, o *liveObj)
}

func simpleValue(r *vh.Rng) value.Value {
	v, _ := genValue(r, 1)
	return v
}

func setField(p pack.Pack, name string, v int64) {
	reflect.ValueOf(p).Elem().FieldByName(name).SetInt(v)
}

var hdrMutators = []mutator{
	{"SetPCODE", func(r *vh.Rng, o *liveObj) { o.p.SetPCODE(genInt(r, 8)) }},
	{"SetOID", func(r *vh.Rng, o *liveObj) { o.p.SetOID(int32(genInt(r, 4))) }},
	{"SetOKIND", func(r *vh.Rng, o *liveObj) { o.p.SetOKIND(int32(r.PickInt([]int{0, 0, 7, -1}))) }},
	{"SetONODE", func(r *vh.Rng, o *liveObj) { o.p.SetONODE(int32(r.PickInt([]int{0, 0, 9, -2}))) }},
	{"SetTime", func(r *vh.Rng, o *liveObj) { o.p.SetTime(genInt(r, 8)) }},
	{"field:Pcode", func(r *vh.Rng, o *liveObj) { setField(o.p, "Pcode", genInt(r, 8)) }},
	{"field:Oid", func(r *vh.Rng, o *liveObj) { setField(o.p, "Oid", genInt(r, 4)) }},
	{"field:Okind", func(r *vh.Rng, o *liveObj) { setField(o.p, "Okind", int64(r.PickInt([]int{0, 3}))) }},
	{"field:Onode", func(r *vh.Rng, o *liveObj) { setField(o.p, "Onode", int64(r.PickInt([]int{0, 5}))) }},
	{"field:Time", func(r *vh.Rng, o *liveObj) { setField(o.p, "Time", genInt(r, 8)) }},
}

// an existing key of a string-keyed map (to overwrite in place), or a new one
func someKey(r *vh.Rng, keys []string) string {
	if len(keys) > 0 && r.Bool() {
		return keys[r.Intn(len(keys))]
	}
	return genStr(r, false)
}

func mapKeys(m *value.MapValue) []string {
	var ks []string
	if m == nil {
		return ks
	}
	en := m.Keys()
	for en.HasMoreElements() {
		ks = append(ks, en.NextString())
	}
	return ks
}

func mutatorsOf(o *liveObj) []mutator {
	switch p := o.p.(type) {
	case *pack.TagCountPack:
		return []mutator{
			{"PutTag", func(r *vh.Rng, o *liveObj) { p.PutTag(someKey(r, mapKeys(p.Tags)), genStr(r, true)) }},
			{"PutTag(new)", func(r *vh.Rng, o *liveObj) { p.PutTag("t"+genStr(r, false), genStr(r, true)) }},
			{"Tags.Put", func(r *vh.Rng, o *liveObj) { p.Tags.Put(someKey(r, mapKeys(p.Tags)), simpleValue(r)) }},
			{"Tags.PutString", func(r *vh.Rng, o *liveObj) { p.Tags.PutString(someKey(r, mapKeys(p.Tags)), genStr(r, true)) }},
			{"Tags.PutLong", func(r *vh.Rng, o *liveObj) { p.Tags.PutLong(someKey(r, mapKeys(p.Tags)), genInt(r, 8)) }},
			{"Tags.Clear", func(r *vh.Rng, o *liveObj) { p.Tags.Clear() }},
			{"Tags=new", func(r *vh.Rng, o *liveObj) { m, _ := genMap(r, r.Intn(3), 1); p.Tags = m }},
			{"Put", func(r *vh.Rng, o *liveObj) {
				k := someKey(r, mapKeys(p.Data))
				switch r.Intn(5) {
				case 0:
					p.Put(k, int(genInt(r, 4)))
				case 1:
					p.Put(k, genInt(r, 8))
				case 2:
					p.Put(k, float64(r.Intn(1000))/8)
				case 3:
					p.Put(k, genStr(r, true))
				default:
					p.Put(k, simpleValue(r))
				}
			}},
			{"Data.Put", func(r *vh.Rng, o *liveObj) { p.Data.Put(someKey(r, mapKeys(p.Data)), simpleValue(r)) }},
			{"Clear", func(r *vh.Rng, o *liveObj) { p.Clear() }},
			{"Data=new", func(r *vh.Rng, o *liveObj) { m, _ := genMap(r, r.Intn(3), 1); p.Data = m }},
			{"field:Category", func(r *vh.Rng, o *liveObj) { p.Category = genStr(r, true) }},
		}
	case *pack.LogSinkPack:
		return []mutator{
			{"Tags.Put", func(r *vh.Rng, o *liveObj) { p.Tags.Put(someKey(r, mapKeys(p.Tags)), simpleValue(r)) }},
			{"Tags.PutString", func(r *vh.Rng, o *liveObj) { p.Tags.PutString(someKey(r, mapKeys(p.Tags)), genStr(r, true)) }},
			{"Tags.Clear", func(r *vh.Rng, o *liveObj) { p.Tags.Clear() }},
			{"Tags=new", func(r *vh.Rng, o *liveObj) { m, _ := genMap(r, r.Intn(3), 1); p.Tags = m }},
			{"field:TagHash", func(r *vh.Rng, o *liveObj) { p.TagHash = r.Pick64([]int64{0, 0, genInt(r, 8)}) }},
			{"ResetTagHash", func(r *vh.Rng, o *liveObj) { p.ResetTagHash() }},
			{"TransferOidToTag", func(r *vh.Rng, o *liveObj) { p.TransferOidToTag() }},
			{"field:Category", func(r *vh.Rng, o *liveObj) { p.Category = genStr(r, true) }},
			{"field:Line", func(r *vh.Rng, o *liveObj) { p.Line = genInt(r, 8) }},
			{"field:Content", func(r *vh.Rng, o *liveObj) { p.Content = genStr(r, true) }},
			{"SetContent", func(r *vh.Rng, o *liveObj) { p.SetContent(genStr(r, true)) }},
			{"SetContentBytes", func(r *vh.Rng, o *liveObj) {
				q := pack.NewLogSinkPack()
				q.Content, q.Line = genStr(r, true), genInt(r, 8)
				p.SetContentBytes(q.GetContentBytes())
			}},
			{"Fields.Put", func(r *vh.Rng, o *liveObj) {
				if p.Fields == nil {
					p.Fields = value.NewMapValue()
				}
				p.Fields.Put(someKey(r, mapKeys(p.Fields)), simpleValue(r))
			}},
			{"Fields.Clear", func(r *vh.Rng, o *liveObj) {
				if p.Fields != nil {
					p.Fields.Clear()
				}
			}},
			{"Fields=nil", func(r *vh.Rng, o *liveObj) { p.Fields = nil }},
			{"Fields=new", func(r *vh.Rng, o *liveObj) { m, _ := genMap(r, r.Intn(3), 1); p.Fields = m }},
		}
	case *pack.TextPack:
		rec := func(r *vh.Rng) pack.TextRec {
			return pack.TextRec{Div: byte(r.Intn(256)), Hash: int32(genInt(r, 4)), Text: genStr(r, true)}
		}
		return []mutator{
			{"AddText", func(r *vh.Rng, o *liveObj) { x := rec(r); p.AddText(x); o.recs = append(o.recs, x) }},
			{"AddTexts", func(r *vh.Rng, o *liveObj) {
				xs := []pack.TextRec{rec(r), rec(r)}
				// the pack may keep the slice it is given: hand it a private copy, mirror the values
				p.AddTexts(append([]pack.TextRec{}, xs...))
				o.recs = append(o.recs, xs...)
			}},
		}
	case *pack.ParamPack:
		pkeys := func() []string {
			var ks []string
			en := p.Keys()
			for en.HasMoreElements() {
				ks = append(ks, en.NextString())
			}
			return ks
		}
		return []mutator{
			{"Put", func(r *vh.Rng, o *liveObj) { p.Put(someKey(r, pkeys()), simpleValue(r)) }},
			{"PutString", func(r *vh.Rng, o *liveObj) { p.PutString(someKey(r, pkeys()), genStr(r, true)) }},
			{"PutLong", func(r *vh.Rng, o *liveObj) { p.PutLong(someKey(r, pkeys()), genInt(r, 8)) }},
			{"SetMapValue", func(r *vh.Rng, o *liveObj) { m, _ := genMap(r, 1+r.Intn(3), 1); p.SetMapValue(m) }},
			{"ToResponse", func(r *vh.Rng, o *liveObj) { p.ToResponse() }},
			{"field:Id", func(r *vh.Rng, o *liveObj) { p.Id = int32(genInt(r, 4)) }},
			{"field:Request", func(r *vh.Rng, o *liveObj) { p.Request = genInt(r, 8) }},
			{"field:Response", func(r *vh.Rng, o *liveObj) { p.Response = genInt(r, 8) }},
		}
	case *pack.EventPack:
		akeys := func() []string {
			var ks []string
			en := p.Attr.Keys()
			for en.HasMoreElements() {
				ks = append(ks, en.NextString())
			}
			return ks
		}
		return []mutator{
			{"Attr.Put", func(r *vh.Rng, o *liveObj) { p.Attr.Put(someKey(r, akeys()), genStr(r, true)) }},
			{"Attr.Put(reserved)", func(r *vh.Rng, o *liveObj) {
				p.Attr.Put(r.PickStr([]string{"_esca_", "_uuid_", "_status_", "_otype_"}), genStr(r, true))
			}},
			{"Attr.PutFirst", func(r *vh.Rng, o *liveObj) { p.Attr.PutFirst("f"+genStr(r, false), genStr(r, true)) }},
			{"Attr.Remove", func(r *vh.Rng, o *liveObj) {
				if ks := akeys(); len(ks) > 0 {
					p.Attr.Remove(ks[r.Intn(len(ks))])
				}
			}},
			{"Attr.Clear", func(r *vh.Rng, o *liveObj) { p.Attr.Clear() }},
			{"Attr=new", func(r *vh.Rng, o *liveObj) { p.Attr = hmap.NewStringKeyLinkedMap() }},
			{"field:Uuid", func(r *vh.Rng, o *liveObj) { p.Uuid = r.PickStr([]string{"", "u-1", "유유"}) }},
			{"SetUuid", func(r *vh.Rng, o *liveObj) { p.SetUuid() }},
			{"field:Escalation", func(r *vh.Rng, o *liveObj) { p.Escalation = !p.Escalation }},
			{"field:Level", func(r *vh.Rng, o *liveObj) { p.Level = byte(r.Intn(256)) }},
			{"field:Title", func(r *vh.Rng, o *liveObj) { p.Title = genStr(r, true) }},
			{"field:Message", func(r *vh.Rng, o *liveObj) { p.Message = genStr(r, true) }},
			{"field:Status", func(r *vh.Rng, o *liveObj) { p.Status = int32(genInt(r, 4)) }},
			{"field:Otype", func(r *vh.Rng, o *liveObj) { p.Otype = int32(genInt(r, 4)) }},
		}
	case *pack.ZipPack:
		return []mutator{
			{"Records=append", func(r *vh.Rng, o *liveObj) { p.Records = append(p.Records, r.Bytes(1+r.Intn(40))...) }},
			{"Records[i]=", func(r *vh.Rng, o *liveObj) {
				if len(p.Records) > 0 {
					p.Records[r.Intn(len(p.Records))] ^= 0x5a
				}
			}},
			{"Records=new", func(r *vh.Rng, o *liveObj) { p.Records = r.Bytes(r.PickInt([]int{0, 1, 253, 254, 300})) }},
			{"SetRecords", func(r *vh.Rng, o *liveObj) {
				var items []pack.Pack
				for i, n := 0, r.Intn(3); i < n; i++ {
					q, _ := genCase(r, r.PickInt([]int{2, 5, 3}), false).build()
					items = append(items, q)
				}
				p.SetRecords(items)
			}},
			{"field:Status", func(r *vh.Rng, o *liveObj) { p.Status = byte(r.Intn(256)) }},
			{"field:RecordCount", func(r *vh.Rng, o *liveObj) { p.RecordCount = int(genInt(r, 4)) }},
		}
	case *pack.HitMapPack1:
		return []mutator{
			{"Add", func(r *vh.Rng, o *liveObj) { p.Add(r.Intn(90000), r.Bool()) }},
			{"Hit[i]=", func(r *vh.Rng, o *liveObj) {
				p.Hit[r.Intn(len(p.Hit))] = int32(r.PickInt([]int{0, 1, 32768, 65535, 65536, r.Intn(3000)}))
			}},
			{"Error[i]=", func(r *vh.Rng, o *liveObj) { p.Error[r.Intn(len(p.Error))] = int32(r.Intn(70000)) }},
			{"Hit=new", func(r *vh.Rng, o *liveObj) { p.Hit = make([]int32, pack.HITMAP_LENGTH); p.Hit[3] = int32(r.Intn(100)) }},
		}
	case *pack.CounterPack1:
		ms := []mutator{
			{"ActSvcSlice[i]=", func(r *vh.Rng, o *liveObj) {
				if len(p.ActSvcSlice) > 0 {
					p.ActSvcSlice[r.Intn(len(p.ActSvcSlice))] = int16(genInt(r, 2))
				}
			}},
			{"ActSvcSlice=append", func(r *vh.Rng, o *liveObj) {
				if len(p.ActSvcSlice) < 200 {
					p.ActSvcSlice = append(p.ActSvcSlice, int16(genInt(r, 2)))
				}
			}},
			{"ActiveStat=append", func(r *vh.Rng, o *liveObj) {
				if len(p.ActiveStat) < 200 {
					p.ActiveStat = append(p.ActiveStat, int16(genInt(r, 2)))
				}
			}},
			{"ActiveStat=nil", func(r *vh.Rng, o *liveObj) { p.ActiveStat = nil }},
			{"DbNumActive.Put", func(r *vh.Rng, o *liveObj) {
				if p.DbNumActive == nil {
					p.DbNumActive = hmap.NewIntIntMapDefault()
				}
				if p.DbNumIdle == nil {
					p.DbNumIdle = hmap.NewIntIntMapDefault()
				}
				p.DbNumActive.Put(int32(r.Intn(5)), int32(genInt(r, 4)))
			}},
			{"DbNumIdle.Add", func(r *vh.Rng, o *liveObj) {
				if p.DbNumIdle != nil {
					p.DbNumIdle.Put(int32(r.Intn(5)), int32(r.Intn(100)))
				}
			}},
			{"DbNumIdle=nil", func(r *vh.Rng, o *liveObj) { p.DbNumIdle = nil }},
			{"Netstat=", func(r *vh.Rng, o *liveObj) {
				if r.Chance(30) {
					p.Netstat = nil
				} else if p.Netstat == nil {
					p.Netstat = pack.NewNETSTAT()
				}
				if p.Netstat != nil {
					p.Netstat.CloW, p.Netstat.TimW = int32(genInt(r, 4)), int32(genInt(r, 4))
				}
			}},
			{"Websocket=", func(r *vh.Rng, o *liveObj) {
				if r.Chance(30) {
					p.Websocket = nil
				} else {
					if p.Websocket == nil {
						p.Websocket = pack.NewWEBSOCKET()
					}
					p.Websocket.In = genInt(r, 8)
				}
			}},
			{"Extra.Put", func(r *vh.Rng, o *liveObj) {
				if p.Extra == nil {
					p.Extra = value.NewIntMapValue()
				}
				p.Extra.Put(int32(r.Intn(4)), simpleValue(r))
			}},
			{"Extra=nil", func(r *vh.Rng, o *liveObj) { p.Extra = nil }},
			{"SqlMeter.Put", func(r *vh.Rng, o *liveObj) {
				if p.SqlMeter == nil {
					p.SqlMeter = hmap.NewIntKeyLinkedMapDefault()
				}
				m := pack.NewSqlMeter()
				m.TxMeter = *genTxMeter(r)
				m.FetchCount, m.FetchTime = genInt(r, 8), genInt(r, 8)
				p.SqlMeter.Put(int32(r.Intn(4)), m)
			}},
			{"SqlMeter.entry=", func(r *vh.Rng, o *liveObj) {
				if p.SqlMeter != nil && p.SqlMeter.Size() > 0 {
					p.SqlMeter.GetFirstValue().(*pack.SqlMeter).FetchTime = genInt(r, 8)
				}
			}},
			{"SqlMeter.Remove", func(r *vh.Rng, o *liveObj) {
				if p.SqlMeter != nil {
					p.SqlMeter.Remove(int32(r.Intn(4)))
				}
			}},
			{"TxcallerOidMeter.Put", func(r *vh.Rng, o *liveObj) {
				if p.TxcallerOidMeter == nil {
					p.TxcallerOidMeter = hmap.NewIntKeyLinkedMapDefault()
				}
				p.TxcallerOidMeter.Put(int32(r.Intn(4)), genTxMeter(r))
			}},
			{"TxcallerOidMeter=nil", func(r *vh.Rng, o *liveObj) { p.TxcallerOidMeter = nil }},
			{"TxcallerPOidMeter.Put", func(r *vh.Rng, o *liveObj) {
				if p.TxcallerPOidMeter == nil {
					p.TxcallerPOidMeter = hmap.NewLinkedMapDefault()
				}
				tm := genTxMeter(r)
				tm.Acts = []int16{int16(r.Intn(9)), 2}
				p.TxcallerPOidMeter.Put(lang.NewPOID(int64(r.Intn(3)), int32(r.Intn(2))), tm)
			}},
			{"TxcallerPOidMeter.entry.Acts=", func(r *vh.Rng, o *liveObj) {
				if m := p.TxcallerPOidMeter; m != nil && m.Size() > 0 {
					tm := m.GetFirstValue().(*pack.TxMeter)
					tm.Acts = append(tm.Acts, int16(genInt(r, 2)))
				}
			}},
			{"TxcallerUnknown=", func(r *vh.Rng, o *liveObj) {
				if r.Chance(30) {
					p.TxcallerUnknown = nil
				} else {
					p.TxcallerUnknown = genTxMeter(r)
				}
			}},
		}
		for _, k := range []string{"Duration", "Cputime", "HeapMax", "SqlFetchTime", "ApType", "Pid", "ThreadPoolQueueSize", "Resp95", "TimeSqrSum", "HostIp", "GcOldgenCount"} {
			k := k
			ms = append(ms, mutator{"field:" + k, func(r *vh.Rng, o *liveObj) {
				f := reflect.ValueOf(p).Elem().FieldByName(k)
				w := uint(f.Type().Size())
				f.SetInt(genInt(r, w))
			}})
		}
		for _, k := range []string{"Cpu", "Tps", "Metering", "TxSqlTime"} {
			k := k
			ms = append(ms, mutator{"field:" + k, func(r *vh.Rng, o *liveObj) {
				reflect.ValueOf(p).Elem().FieldByName(k).SetFloat(float64(r.Intn(1000)) / 4)
			}})
		}
		ms = append(ms, mutator{"field:Version", func(r *vh.Rng, o *liveObj) { p.Version = byte(r.Intn(256)) }})
		return ms
	}
	return nil
}

func newLive(r *vh.Rng, t int) *liveObj {
	c := genCase(r, t, false)
	o := &liveObj{typ: c.typ, goName: c.goName, lic: c.lic}
	if t == 2 {
		// text pack: header only, records are added by the mutators (mirrored)
		p := pack.NewTextPack()
		for _, f := range hdrFields(r) {
			f.apply(p)
		}
		o.p = p
	} else {
		o.p, _ = c.build()
	}
	if o.lic == "" {
		o.lic = "L"
	}
	return o
}

func mutationPhase(env *vh.Env, rep *vh.Report, r *vh.Rng) {
	perType, steps := 4, 10
	if env.Thorough {
		perType, steps = 40, 25
	}
	var objs []*liveObj
	for t := 0; t < 8; t++ {
		for i := 0; i < perType; i++ {
			var o *liveObj
			if oc := vh.Guard(func() { o = newLive(r, t) }); oc.OK() && o != nil {
				objs = append(objs, o)
			}
		}
	}
	// routes
	capt := newCapture()
	defer capt.ln.Close()
	var sock *oneway.OneWayTcpClient
	oc := vh.GuardTimeout(120*time.Second, func() {
		sock = oneway.GetOneWayTcpClient(oneway.WithServers([]string{capt.ln.Addr().String()}), oneway.WithLicense(""), oneway.WithPcode(1), oneway.WithOid(1))
	})
	sockOK := oc.OK() && sock != nil && capt.accept() == nil
	defer func() {
		if sock != nil {
			vh.Guard(func() { sock.Close(); sock.Destroy() })
		}
		if capt.conn != nil {
			capt.conn.Close()
		}
	}()
	hook := oneway.NewForVerif(oneway.WithLicense("client"), oneway.WithServers([]string{"127.0.0.1:1"}))
	routes := []string{"socket", "makeData", "ToBytesPack"}

	for step := 0; step < steps; step++ {
		// mutate (not before the first send), then dump the public state
		lines := make([]string, len(objs))
		last := make([]string, len(objs))
		for i, o := range objs {
			if step > 0 && r.Chance(30) {
				// no mutation between two sends: the second frame must be byte-identical to the first
				last[i] = "no-mutation"
				o.log = append(o.log, "(no mutation)")
			} else if step > 0 {
				o.mutated = true
				ms := append(append([]mutator{}, mutatorsOf(o)...), hdrMutators...)
				for k, n := 0, 1+r.Intn(2); k < n && len(ms) > 0; k++ {
					var m mutator
					if r.Chance(80) && len(mutatorsOf(o)) > 0 {
						own := mutatorsOf(o)
						m = own[r.Intn(len(own))]
					} else {
						m = ms[r.Intn(len(ms))]
					}
					g := vh.Guard(func() { m.f(r, o) })
					o.log = append(o.log, m.name)
					last[i] = m.name
					rep.Count("mutate:" + o.typ + ":" + strings.SplitN(m.name, "(", 2)[0])
					if !g.OK() {
						rep.Fail("property", o.goName+":"+m.name+":panic", "a public mutator panicked: "+vh.Clip(g.Panic, 200), map[string]interface{}{"history": o.log})
					}
				}
			} else {
				last[i] = "first-send"
			}
			g := vh.Guard(func() { lines[i] = dumpPack(o) + " lic=" + vh.Hex([]byte(o.lic)) })
			if !g.OK() {
				lines[i] = "hash -"
			}
		}
		outs, err := vh.RunDriver(env.Driver, lines)
		if err != nil {
			vh.Die("%v", err)
		}
		for i, o := range objs {
			parts := strings.Split(outs[i], " ")
			if len(parts) != 2 {
				rep.Fail("correspondence", o.goName+":resend:driver-rejects-line", "driver answered "+vh.Clip(outs[i], 100), map[string]interface{}{"line": vh.Clip(lines[i], 2000)})
				continue
			}
			want := vh.UnHex(parts[0])
			route := routes[(step+i)%3]
			if route == "socket" && !sockOK {
				route = "makeData"
			}
			var got, exp []byte
			g := vh.GuardTimeout(120*time.Second, func() {
				switch route {
				case "socket":
					exp = want
					if err := sock.Send(o.p, wnet.WithLicense(o.lic)); err != nil {
						panic(fmt.Sprint("Send: ", err))
					}
					got, _ = capt.read(len(want))
					if !bytes.Equal(got, want) {
						got = append(got, capt.drain()...)
					}
				case "makeData":
					exp = want
					got = append([]byte{}, hook.MakeDataForVerif(o.p, wnet.WithLicense(o.lic))...)
				default:
					exp = want[22:]
					got = append([]byte{}, pack.ToBytesPack(o.p)...)
				}
			})
			o.log = append(o.log, "send("+route+")")
			// (a) a send must not change the object's public state, except what the model says a send changes
			if g.OK() {
				var after string
				if ga := vh.Guard(func() { after = dumpPack(o) + " lic=" + vh.Hex([]byte(o.lic)) }); ga.OK() {
					if fld, same := sendStateDiff(o.typ, lines[i], after); !same {
						rep.Fail("property", o.goName+":send-changes-public-state["+fld+"]",
							fmt.Sprintf("%s: sending the object (route %s) changed its public state: field %s differs between the dump before and the dump after the send", o.goName, route, fld),
							map[string]interface{}{"what_was_done_to_the_object": o.log, "public_state_before_the_send": vh.Clip(lines[i], 3000),
								"public_state_after_the_send": vh.Clip(after, 3000), "field": fld, "route": route, "seed": env.Seed})
					}
				}
				rep.Count("resend:state-compared-before-after")
			}
			// (b) the same object sent twice with no mutation in between: byte-identical payloads
			payload := got
			if route != "ToBytesPack" && len(got) >= 22 {
				payload = got[22:]
			}
			if g.OK() && !o.mutated && o.lastPayload != nil && !o.lastReserved {
				rep.Count("resend:unmutated-pair")
				if !bytes.Equal(payload, o.lastPayload) {
					rep.Fail("property", o.goName+":resend-differs",
						fmt.Sprintf("%s: the same object sent twice with no mutation in between gave different bytes (first difference at payload offset %d; second send through %s)", o.goName, firstDiff(o.lastPayload, payload), route),
						map[string]interface{}{"what_was_done_to_the_object": o.log, "public_state": vh.Clip(lines[i], 3000),
							"first_payload_hex": vh.Clip(vh.Hex(o.lastPayload), 3000), "second_payload_hex": vh.Clip(vh.Hex(payload), 3000), "route": route, "seed": env.Seed})
				}
			}
			if g.OK() {
				o.lastPayload, o.mutated = append([]byte{}, payload...), false
				o.lastReserved = o.typ == "event" && hasReservedAttr(lines[i])
			}
			rep.Case(fmt.Sprintf("resend %s step %d %s", vh.Clip(lines[i], 150), step, route), step > 0)
			rep.Count("resend-route:" + route)
			if !g.OK() || !bytes.Equal(got, exp) {
				what := "the bytes sent are not the encoding of the pack's current public state"
				if !g.OK() {
					what = "sending " + g.String() + ": " + vh.Clip(g.Panic, 200)
				}
				rep.Fail("property", o.goName+":resend-after-mutation["+strings.SplitN(last[i], "(", 2)[0]+"]",
					fmt.Sprintf("%s: the same pack object sent again after %s (send #%d, route %s): %s (first difference at offset %d)", o.goName, last[i], step+1, route, what, firstDiff(exp, got)),
					map[string]interface{}{"what_was_done_to_the_object": o.log, "public_state_before_this_send": vh.Clip(lines[i], 3000),
						"sent_hex": vh.Clip(vh.Hex(got), 3000), "model_encoding_of_that_state_hex": vh.Clip(vh.Hex(exp), 3000), "first_differing_offset": firstDiff(exp, got), "route": route,
						"seed": env.Seed})
			}
		}
	}
	rep.Note("re-send after mutation: %d live objects (%d per type) x %d sends, every send preceded by 1-2 public mutations; routes socket/makeData/ToBytesPack", len(objs), perType, steps)
}

var reservedHex = []string{hx("_uuid_"), hx("_esca_"), hx("_status_"), hx("_otype_")}

func lineFields(line string) map[string]string {
	m := map[string]string{}
	for _, tok := range strings.Split(line, " ")[1:] {
		if k, v, ok := strings.Cut(tok, "="); ok {
			m[k] = v
		}
	}
	return m
}

func isReservedEntry(e string) bool {
	k, _, _ := strings.Cut(e, ":")
	for _, r := range reservedHex {
		if k == r {
			return true
		}
	}
	return false
}

func hasReservedAttr(line string) bool {
	a := lineFields(line)["attr"]
	if a == "" || a == "-" {
		return false
	}
	for _, e := range strings.Split(a, "/") {
		if isReservedEntry(e) {
			return true
		}
	}
	return false
}

// sendStateDiff compares the public state before and after a send.  What the model lets a send change:
//
//	tag-count / log-sink: the stored tag hash, and only when it was 0 (it becomes the hash that was written);
//	event: attributes under the reserved keys (they exist only on the wire: a send removes them).
func sendStateDiff(typ, before, after string) (string, bool) {
	b, a := lineFields(before), lineFields(after)
	if typ == "event" {
		var kept []string
		if x := b["attr"]; x != "" && x != "-" {
			for _, e := range strings.Split(x, "/") {
				if !isReservedEntry(e) {
					kept = append(kept, e)
				}
			}
		}
		if len(kept) == 0 {
			b["attr"] = "-"
		} else {
			b["attr"] = strings.Join(kept, "/")
		}
	}
	for k, v := range b {
		if a[k] == v {
			continue
		}
		if k == "tagHash" && v == "0" {
			continue
		}
		return k, false
	}
	for k := range a {
		if _, ok := b[k]; !ok {
			return k, false
		}
	}
	return "", true
}
