package main

// Histories on ONE long-lived client: the frame of every send must be the reference frame for the
// license and project code *in effect for that send*.
//
//   effective license of a send = the per-send WithLicense text if it is non-empty,
//                                 else the client's license at that moment
//   the client's license changes between sends through the exported field `License`
//   or through ApplyConfig (config key "license")
//   the project code of a frame is the pack's
//
// Two ways of observing, same histories:
//   hook    oneway.NewForVerif + MakeDataForVerif (net/oneway/export_verif.go): the exact bytes
//           sendDirect / process() hand to the writer; ApplyConfig is exercised here
//   socket  the public singleton client over a loopback listener (field changes only: ApplyConfig
//           reconnects to the configured host, which is not the listener)

import (
	"bytes"
	"fmt"
	"time"

	"github.com/whatap/golib/config"
	"github.com/whatap/golib/lang/pack"
	wnet "github.com/whatap/golib/net"
	"github.com/whatap/golib/net/oneway"
	"verif/harness/vh"
)

// mapConf is a minimal config.Config over a map (only what ApplyConfig reads matters).
type mapConf map[string]string

func (m mapConf) ApplyDefault()            {}
func (m mapConf) GetConfFile() string      { return "" }
func (m mapConf) Destroy()                 {}
func (m mapConf) GetKeys() []string        { return nil }
func (m mapConf) GetValue(k string) string { return m[k] }
func (m mapConf) GetValueDef(k, def string) string {
	if v, ok := m[k]; ok && v != "" {
		return v
	}
	return def
}
func (m mapConf) GetBoolean(k string, def bool) bool { return def }
func (m mapConf) GetInt(k string, def int) int32 {
	var v int32
	if s, ok := m[k]; ok {
		if _, err := fmt.Sscan(s, &v); err == nil {
			return v
		}
	}
	return int32(def)
}
func (m mapConf) GetIntSet(k, def, deli string) []int32 { return nil }
func (m mapConf) GetLong(k string, def int64) int64 {
	var v int64
	if s, ok := m[k]; ok {
		if _, err := fmt.Sscan(s, &v); err == nil {
			return v
		}
	}
	return def
}
func (m mapConf) GetStringArray(k string, def string, deli string) []string { return nil }
func (m mapConf) GetStringHashSet(k, def, deli string) []int32              { return nil }
func (m mapConf) GetStringHashCodeSet(k, def, deli string) []int32          { return nil }
func (m mapConf) GetFloat(k string, def float32) float32                    { return def }
func (m mapConf) SetValues(v *map[string]string)                            {}
func (m mapConf) ToString() string                                          { return "" }
func (m mapConf) String() string                                            { return "" }

var _ config.Config = mapConf{}

type hop struct {
	kind     string // send | send-override | set-field | apply-config
	lic      string // override text / new license
	c        *tcase // the pack of a send
	eff      string // effective license of a send
	class    string // default | default-after-change | override | empty-override | override-after-change
	want     []byte // reference frame
	lineIdx  int
	describe string
}

type history struct {
	initial string
	ops     []hop
}

func genOverride(r *vh.Rng) string {
	switch r.Intn(6) {
	case 0:
		return "" // empty override = use the client's license
	case 1:
		return string(rune('A' + r.Intn(26))) // one character
	case 2:
		return r.PickStr([]string{"라이선스-키", "ライセンス✓", "é", "😀"})
	default:
		return genLicense(r)
	}
}

func genHistory(r *vh.Rng, n int, allowApply bool, thorough bool) *history {
	h := &history{initial: genLicense(r)}
	if r.Chance(15) {
		h.initial = ""
	}
	cur := h.initial
	changed := false
	for i := 0; i < n; i++ {
		switch k := r.Intn(10); {
		case k < 4: // default license
			c := genCase(r, r.PickInt([]int{0, 2, 5, 5, 3, 1, 4}), thorough)
			cl := "default"
			if changed {
				cl = "default-after-change"
			}
			h.ops = append(h.ops, hop{kind: "send", c: c, eff: cur, class: cl})
		case k < 7: // per-send override
			c := genCase(r, r.PickInt([]int{0, 2, 5, 5, 3, 1, 4}), thorough)
			ov := genOverride(r)
			eff, cl := ov, "override"
			if ov == "" {
				eff, cl = cur, "empty-override"
			}
			if changed {
				cl += "-after-change"
			}
			h.ops = append(h.ops, hop{kind: "send-override", lic: ov, c: c, eff: eff, class: cl})
		default: // the client's license changes
			nl := genLicense(r)
			if r.Chance(10) {
				nl = ""
			}
			kind := "set-field"
			if allowApply && r.Bool() {
				kind = "apply-config"
			}
			if nl != cur {
				changed = true
			}
			cur = nl
			h.ops = append(h.ops, hop{kind: kind, lic: nl})
		}
	}
	// every history ends with: default send, change, default send (the shortest stale-state pattern)
	c1 := genCase(r, 5, thorough)
	cl := "default"
	if changed {
		cl = "default-after-change"
	}
	h.ops = append(h.ops, hop{kind: "send", c: c1, eff: cur, class: cl})
	nl := cur + "·2"
	kind := "set-field"
	if allowApply && r.Bool() {
		kind = "apply-config"
	}
	h.ops = append(h.ops, hop{kind: kind, lic: nl})
	h.ops = append(h.ops, hop{kind: "send", c: genCase(r, 5, thorough), eff: nl, class: "default-after-change"})
	return h
}

// prepare asks the driver for the reference frame of every send (license in effect, the pack's pcode).
func prepare(env *vh.Env, hs []*history) {
	var lines []string
	for _, h := range hs {
		for i := range h.ops {
			o := &h.ops[i]
			switch o.kind {
			case "send", "send-override":
				cc := *o.c
				cc.lic = o.eff
				_, line := cc.build()
				o.lineIdx = len(lines)
				lines = append(lines, line)
				if o.kind == "send" {
					o.describe = "Send(" + vh.Clip(line, 160) + ")"
				} else {
					o.describe = fmt.Sprintf("Send(%s, WithLicense(hex %s))", vh.Clip(line, 160), vh.Hex([]byte(o.lic)))
				}
			case "set-field":
				o.describe = "client.License = hex " + vh.Hex([]byte(o.lic))
			case "apply-config":
				o.describe = "client.ApplyConfig(license = hex " + vh.Hex([]byte(o.lic)) + ")"
			}
		}
	}
	outs, err := vh.RunDriver(env.Driver, lines)
	if err != nil {
		vh.Die("%v", err)
	}
	for _, h := range hs {
		for i := range h.ops {
			o := &h.ops[i]
			if o.c != nil {
				var hexs, st string
				fmt.Sscan(outs[o.lineIdx], &hexs, &st)
				o.want = vh.UnHex(hexs)
			}
		}
	}
}

func framePart(d int) string {
	switch {
	case d < 2:
		return "source-version-bytes"
	case d < 10:
		return "project-code"
	case d < 18:
		return "license-hash"
	case d < 22:
		return "length-field"
	}
	return "payload"
}

func failHistory(rep *vh.Report, mode string, h *history, upto int, got []byte) {
	o := h.ops[upto]
	d := firstDiff(o.want, got)
	var steps []string
	for i := 0; i <= upto; i++ {
		steps = append(steps, h.ops[i].describe)
	}
	rep.Fail("property", "OneWayTcpClient.history:"+framePart(d)+":"+o.class+"("+mode+")",
		fmt.Sprintf("on one long-lived client, send #%d of the history (%s) produced a frame that differs from the reference frame for the license/pcode in effect at offset %d (%s)",
			upto, o.class, d, framePart(d)),
		map[string]interface{}{"mode": mode, "initial_client_license_hex": vh.Hex([]byte(h.initial)), "history": steps,
			"failing_step": upto, "license_in_effect_hex": vh.Hex([]byte(o.eff)),
			"frame_hex": vh.Clip(vh.Hex(got), 3000), "reference_frame_hex": vh.Clip(vh.Hex(o.want), 3000), "first_differing_offset": d})
}

func changeLicense(client *oneway.OneWayTcpClient, o hop, host string) {
	if o.kind == "set-field" {
		client.License = o.lic
		return
	}
	// ApplyConfig re-reads license, host, pcode, oid from the configuration
	client.ApplyConfig(mapConf{"license": o.lic, "whatap.server.host": host, "whatap.server.port": "6600", "pcode": "12345", "oid": "7"})
}

// hookHistories: frames straight from makeData on one client (verif hook).
func hookHistories(env *vh.Env, rep *vh.Report, hs []*history) {
	for _, h := range hs {
		var client *oneway.OneWayTcpClient
		o := vh.Guard(func() {
			client = oneway.NewForVerif(oneway.WithLicense(h.initial), oneway.WithPcode(12345), oneway.WithOid(7),
				oneway.WithServers([]string{"127.0.0.1:1"}))
		})
		if !o.OK() || client == nil {
			rep.Fail("property", "OneWayTcpClient.history:constructor-"+o.String(), "NewForVerif failed", map[string]string{"panic": o.Panic})
			return
		}
		for i, op := range h.ops {
			rep.Count("history-op:" + op.kind)
			if op.c == nil {
				oc := vh.GuardTimeout(150*time.Second, func() { changeLicense(client, op, "127.0.0.1") })
				if oc.Timeout {
					// ApplyConfig re-dials the configured host with the client's 60 s timeout; a dial that hangs on a busy
					// machine is not a statement about the bytes on the wire: abandon this history
					rep.Count("history:apply-config-slow-abandoned")
					break
				}
				if !oc.OK() {
					rep.Fail("property", "OneWayTcpClient.history:"+op.kind+"-"+oc.String(), "changing the license "+oc.String(), map[string]string{"op": op.describe, "panic": oc.Panic})
					break
				}
				continue
			}
			var got []byte
			p, _ := op.c.build()
			oc := vh.Guard(func() {
				if op.kind == "send" {
					got = append([]byte{}, client.MakeDataForVerif(p)...)
				} else {
					// options that are not the license must not influence the frame
					got = append([]byte{}, client.MakeDataForVerif(p, wnet.WithSecureFlag(byte(i)), wnet.WithLicense(op.lic), wnet.WithPriority(i%2 == 0))...)
				}
			})
			rep.Count("history-send:" + op.class)
			if !oc.OK() || !bytes.Equal(got, op.want) {
				failHistory(rep, "hook", h, i, got)
				break
			}
		}
		vh.Guard(func() { client.Close(); client.StopForVerif() })
	}
}

// socketHistories: the same kind of history through the public singleton client, frames read by a TCP peer.
func socketHistories(env *vh.Env, rep *vh.Report, hs []*history) {
	for _, h := range hs {
		capt := newCapture()
		var client *oneway.OneWayTcpClient
		o := vh.GuardTimeout(120*time.Second, func() {
			client = oneway.GetOneWayTcpClient(oneway.WithServers([]string{capt.ln.Addr().String()}),
				oneway.WithLicense(h.initial), oneway.WithPcode(12345), oneway.WithOid(7))
		})
		done := func() {
			if client != nil {
				vh.Guard(func() { client.Close(); client.Destroy() })
			}
			if capt.conn != nil {
				capt.conn.Close()
			}
			capt.ln.Close()
		}
		if !o.OK() || client == nil || capt.accept() != nil {
			rep.Fail("property", "OneWayTcpClient.history:connect", "public client could not connect to the loopback listener", map[string]string{"outcome": o.String()})
			done()
			return
		}
		stop := false
		for i, op := range h.ops {
			if stop {
				break
			}
			rep.Count("history-op:" + op.kind)
			if op.c == nil {
				client.License = op.lic
				continue
			}
			p, _ := op.c.build()
			var err error
			oc := vh.GuardTimeout(120*time.Second, func() {
				if op.kind == "send" {
					err = client.Send(p)
				} else {
					err = client.Send(p, wnet.WithPriority(i%2 == 1), wnet.WithLicense(op.lic), wnet.WithSecureFlag(byte(i)))
				}
			})
			if !oc.OK() || err != nil {
				rep.Fail("property", "OneWayTcpClient.history:Send-"+oc.String(), fmt.Sprintf("Send failed: %v %v", oc.Panic, err), map[string]string{"op": op.describe})
				stop = true
				break
			}
			got, _ := capt.read(len(op.want))
			rep.Count("history-send:" + op.class)
			rep.Count("socket-frames-history")
			if !bytes.Equal(got, op.want) {
				got = append(got, capt.drain()...)
				failHistory(rep, "socket", h, i, got)
				stop = true
			}
		}
		if !stop {
			if extra := capt.drain(); len(extra) > 0 {
				rep.Fail("property", "OneWayTcpClient.history:trailing-bytes(socket)", "bytes after the last frame of a history", map[string]string{"extra_hex": vh.Clip(vh.Hex(extra), 400)})
			}
		}
		done()
	}
}

// historyPhase generates, prepares and runs the histories.
func historyPhase(env *vh.Env, rep *vh.Report, rng *vh.Rng) {
	nHook, nSock, length := 40, 8, 12
	if env.Thorough {
		nHook, nSock, length = 1500, 150, 25
	}
	var hookH, sockH []*history
	for i := 0; i < nHook; i++ {
		hookH = append(hookH, genHistory(rng, 2+rng.Intn(length), true, env.Thorough))
	}
	for i := 0; i < nSock; i++ {
		sockH = append(sockH, genHistory(rng, 2+rng.Intn(length), false, env.Thorough))
	}
	prepare(env, append(append([]*history{}, hookH...), sockH...))
	for _, h := range append(append([]*history{}, hookH...), sockH...) {
		var canon []string
		for _, o := range h.ops {
			canon = append(canon, o.kind+":"+vh.Hex([]byte(o.lic)))
		}
		rep.Case("history "+vh.Hex([]byte(h.initial))+" "+fmt.Sprint(canon), len(h.ops) > 3)
	}
	if len(hookH) > 0 {
		var steps []string
		for _, o := range hookH[0].ops {
			steps = append(steps, vh.Clip(o.describe, 120))
		}
		rep.Sample(map[string]interface{}{"history": steps, "initial_license_hex": vh.Hex([]byte(hookH[0].initial))})
	}
	hookHistories(env, rep, hookH)
	socketHistories(env, rep, sockH)
	rep.Note("histories on one client: %d through MakeDataForVerif (field changes and ApplyConfig), %d through the public client over loopback (field changes)", nHook, nSock)
}

var _ = pack.NewZipPack
