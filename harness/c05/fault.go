package main

// Fault injection: the peer dies in the middle of a frame.
//
// A listener hands every accepted connection to a reader that records what arrives and, for the first
// connection of a scenario, resets the connection (SO_LINGER 0 + close) after exactly k bytes of the big
// frame B — k swept over the first byte, the header boundary (21/22/23), mid-body and the last byte.  The
// receive buffer of the listener is tiny and the frame is larger than what the client's kernel buffers
// absorb, so the client's write of B is IN PROGRESS when the reset arrives (a write error in the middle of
// a frame); with the smaller frame the write has completed and the error surfaces on the next send.  The
// client then reconnects by itself and further packs are sent.
//
// Checked, per connection: the byte stream parses from offset 0 into whole reference frames (the model's
// frames of the packs that were sent); a truncated frame may only be the LAST thing on a connection that
// died (reset by the peer or closed by the client).  Over all connections: no frame arrives whole twice;
// on the direct path a send that returned nil after the client had seen the failure arrives whole.
// Paths: direct Send (public singleton), queued Send (WithUseQueue, background goroutine), SendAndClear
// (hook client).  golib has ONE TCP client implementation (net/oneway); net/TcpClient.go is the interface.

import (
	"bytes"
	"context"
	"fmt"
	"net"
	"sync"
	"syscall"
	"time"

	"github.com/whatap/golib/lang/pack"
	wnet "github.com/whatap/golib/net"
	"github.com/whatap/golib/net/oneway"
	"verif/harness/vh"
)

type connRec struct {
	remote   string
	sentinel bool // the harness's own marker connection (see flushAccepts)
	data     []byte
	killed   bool // reset by the injector
	eof      bool // closed by the client
	open     bool
}

type faultServer struct {
	ln    net.Listener
	mu    sync.Mutex
	conns []*connRec
	plans []int // kill connection i after plans[i] bytes (absent / <0: never)
	stop  chan struct{}
	wg    sync.WaitGroup
}

func newFaultServer(plans []int) *faultServer {
	lc := net.ListenConfig{Control: func(network, address string, c syscall.RawConn) error {
		return c.Control(func(fd uintptr) { syscall.SetsockoptInt(int(fd), syscall.SOL_SOCKET, syscall.SO_RCVBUF, 4096) })
	}}
	ln, err := lc.Listen(context.Background(), "tcp", "127.0.0.1:0")
	if err != nil {
		vh.Die("listen: %v", err)
	}
	s := &faultServer{ln: ln, plans: plans, stop: make(chan struct{})}
	s.wg.Add(1)
	go func() {
		defer s.wg.Done()
		for {
			ln.(*net.TCPListener).SetDeadline(time.Now().Add(200 * time.Millisecond))
			c, err := ln.Accept()
			select {
			case <-s.stop:
				if err == nil {
					c.Close()
				}
				return
			default:
			}
			if err != nil {
				if ne, ok := err.(net.Error); ok && ne.Timeout() {
					continue
				}
				return // listener closed
			}
			s.mu.Lock()
			idx := len(s.conns)
			rec := &connRec{open: true, remote: c.RemoteAddr().String()}
			s.conns = append(s.conns, rec)
			plan := -1
			if idx < len(s.plans) {
				plan = s.plans[idx]
			}
			s.mu.Unlock()
			s.wg.Add(1)
			go s.serve(c, rec, plan)
		}
	}()
	return s
}

func (s *faultServer) serve(c net.Conn, rec *connRec, plan int) {
	defer s.wg.Done()
	defer c.Close()
	buf := make([]byte, 256<<10)
	for {
		select {
		case <-s.stop:
			return
		default:
		}
		s.mu.Lock()
		have := len(rec.data)
		s.mu.Unlock()
		if plan >= 0 && have >= plan {
			c.(*net.TCPConn).SetLinger(0)
			c.Close()
			s.mu.Lock()
			rec.killed, rec.open = true, false
			s.mu.Unlock()
			return
		}
		max := len(buf)
		if plan >= 0 && plan-have < max {
			max = plan - have
		}
		c.SetReadDeadline(time.Now().Add(100 * time.Millisecond))
		n, err := c.Read(buf[:max])
		if n > 0 {
			s.mu.Lock()
			rec.data = append(rec.data, buf[:n]...)
			s.mu.Unlock()
		}
		if err != nil {
			if ne, ok := err.(net.Error); ok && ne.Timeout() {
				continue
			}
			s.mu.Lock()
			rec.eof, rec.open = true, false
			s.mu.Unlock()
			return
		}
	}
}

func (s *faultServer) total() int {
	s.mu.Lock()
	defer s.mu.Unlock()
	n := 0
	for _, c := range s.conns {
		n += len(c.data)
	}
	return n
}

// quiesce: wait until nothing new has arrived for `idle`, at most `limit`
func (s *faultServer) quiesce(idle, limit time.Duration) {
	deadline := time.Now().Add(limit)
	last, since := s.total(), time.Now()
	for time.Now().Before(deadline) {
		time.Sleep(20 * time.Millisecond)
		if t := s.total(); t != last {
			last, since = t, time.Now()
		} else if time.Since(since) >= idle {
			return
		}
	}
}

// flushAccepts: the harness dials a marker connection and waits until the server has accepted it.  The kernel hands
// connections to Accept in the order they were established, so every connection the client made before this call
// has been accepted (and has a record) when it returns.  Purely logical: no guess about how long accepting takes.
func (s *faultServer) flushAccepts(limit time.Duration) bool {
	c, err := net.DialTimeout("tcp", s.ln.Addr().String(), limit)
	if err != nil {
		return false
	}
	defer c.Close()
	me := c.LocalAddr().String()
	deadline := time.Now().Add(limit)
	for time.Now().Before(deadline) {
		s.mu.Lock()
		for _, r := range s.conns {
			if r.remote == me {
				r.sentinel = true
				s.mu.Unlock()
				return true
			}
		}
		s.mu.Unlock()
		time.Sleep(2 * time.Millisecond)
	}
	return false
}

// waitAllRead: every connection of the client has been read to its end (EOF after the client's Close, or the
// injector's reset)
func (s *faultServer) waitAllRead(limit time.Duration) bool {
	deadline := time.Now().Add(limit)
	for {
		s.mu.Lock()
		pending := false
		for _, c := range s.conns {
			if c.open && !c.sentinel {
				pending = true
			}
		}
		s.mu.Unlock()
		if !pending {
			return true
		}
		if time.Now().After(deadline) {
			return false
		}
		time.Sleep(5 * time.Millisecond)
	}
}

// stopAccepting: no further connection can be made (a late re-dial of the client's goroutine is refused)
func (s *faultServer) stopAccepting() { s.ln.Close() }

func (s *faultServer) close() {
	close(s.stop)
	s.ln.Close()
	done := make(chan struct{})
	go func() { s.wg.Wait(); close(done) }()
	select {
	case <-done:
	case <-time.After(30 * time.Second):
	}
}

type faultPack struct {
	name  string
	c     *tcase
	frame []byte
}

// streamCheck parses one connection's stream into the known frames.
// returns (problem, trace, whole frames seen in order)
func streamCheck(data []byte, dead bool, frames []faultPack) (string, []string, []string) {
	var trace, whole []string
	pos := 0
	for pos < len(data) {
		rest := data[pos:]
		matched := false
		for _, f := range frames {
			if len(rest) >= len(f.frame) && bytes.Equal(rest[:len(f.frame)], f.frame) {
				trace = append(trace, fmt.Sprintf("@%d whole %s (%d bytes)", pos, f.name, len(f.frame)))
				whole = append(whole, f.name)
				pos += len(f.frame)
				matched = true
				break
			}
		}
		if matched {
			continue
		}
		for _, f := range frames {
			if len(rest) < len(f.frame) && bytes.Equal(rest, f.frame[:len(rest)]) {
				trace = append(trace, fmt.Sprintf("@%d first %d of %d bytes of %s, then the stream ends", pos, len(rest), len(f.frame), f.name))
				if dead {
					return "", trace, whole
				}
				return "truncated-frame-on-a-live-connection", trace, whole
			}
		}
		// not a frame start: say what it is, if it is a piece of a known frame
		for _, f := range frames {
			n := len(rest)
			if n > 64 {
				n = 64
			}
			if off := bytes.Index(f.frame, rest[:n]); off > 0 {
				trace = append(trace, fmt.Sprintf("@%d NOT a frame start: these bytes are %s from its offset %d on", pos, f.name, off))
				return "tail-of-a-frame-as-frame-start", trace, whole
			}
		}
		trace = append(trace, fmt.Sprintf("@%d NOT a frame start (%s…)", pos, vh.Clip(vh.Hex(rest), 48)))
		return "not-a-frame-start", trace, whole
	}
	return "", trace, whole
}

type sendRes struct {
	Pack string `json:"pack"`
	Err  string `json:"error"`
}

func wnetLicense(l string) wnet.TcpClientOption { return wnet.WithLicense(l) }

func faultPhase(env *vh.Env, rep *vh.Report, r *vh.Rng) {
	// packs: four small ones, one big (larger than the kernel absorbs: the write is in progress when the peer
	// resets), one medium (absorbed: the error surfaces at the next send)
	mkZip := func(name string, n int) faultPack {
		c := genZip(r, false)
		recs := r.Bytes(n)
		for i := range c.fields {
			if c.fields[i].name == "records" {
				c.fields[i] = field{name: "records", text: vh.Hex(recs), apply: func(p pack.Pack) { p.(*pack.ZipPack).Records = recs }}
			}
		}
		c.lic = "fault-" + name
		return faultPack{name: name, c: c}
	}
	packs := []faultPack{mkZip("S1", 40), mkZip("S2", 300), mkZip("S3", 17), mkZip("S4", 90), mkZip("BIG", 5<<20), mkZip("MID", 1<<20)}
	{
		// reference frames from the driver (no decode check here: phase A covers zip packs; the 5 MiB line is long)
		var lines []string
		var goBytes [][]byte
		for _, p := range packs {
			q, line := p.c.build()
			lines = append(lines, line)
			goBytes = append(goBytes, append([]byte{}, pack.ToBytesPack(q)...))
		}
		outs, err := vh.RunDriver(env.Driver, lines)
		if err != nil {
			vh.Die("%v", err)
		}
		for i := range packs {
			var hexs, st string
			fmt.Sscan(outs[i], &hexs, &st)
			packs[i].frame = vh.UnHex(hexs)
			if len(packs[i].frame) < 22 || !bytes.Equal(packs[i].frame[22:], goBytes[i]) {
				rep.Note("fault stage skipped: a pack of the stage already differs single-threaded")
				return
			}
		}
	}
	byName := map[string]faultPack{}
	for _, p := range packs {
		byName[p.name] = p
	}
	type scen struct {
		path string
		big  string
		k    int
	}
	var scens []scen
	for _, path := range []string{"direct", "queue", "sendAndClear"} {
		F := len(byName["BIG"].frame)
		ks := []int{1, 22, F / 2, F - 1}
		if env.Thorough {
			ks = []int{0, 1, 10, 21, 22, 23, 4096, F / 3, F / 2, F - 4096, F - 1}
		}
		for _, k := range ks {
			scens = append(scens, scen{path, "BIG", k})
		}
		M := len(byName["MID"].frame)
		ks = []int{10, M / 2}
		if env.Thorough {
			ks = []int{0, 1, 22, M / 2, M - 1}
		}
		for _, k := range ks {
			scens = append(scens, scen{path, "MID", k})
		}
	}
	midErr := 0
	t0 := time.Now()
	// small connection streams are also parsed by the model's receiver (driver op `stream`, Wire.parseStream)
	type streamQ struct {
		line        string
		whole, rest int
		what        string
	}
	var streamQs []streamQ
	for _, sc := range scens {
		order := []string{"S1", sc.big, "S2", "S3", "S4"}
		plans := []int{len(byName["S1"].frame) + sc.k}
		srv := newFaultServer(plans)
		var results []sendRes
		var client *oneway.OneWayTcpClient
		addr := srv.ln.Addr().String()
		run := vh.GuardTimeout(10*time.Minute, func() {
			switch sc.path {
			case "direct":
				client = oneway.GetOneWayTcpClient(oneway.WithServers([]string{addr}), oneway.WithLicense("x"))
			case "queue":
				client = oneway.GetOneWayTcpClient(oneway.WithServers([]string{addr}), oneway.WithLicense("x"), oneway.WithUseQueue())
			default:
				client = oneway.NewForVerif(oneway.WithServers([]string{addr}), oneway.WithLicense("x"), oneway.WithUseQueue())
			}
			client.Timeout = 30 * time.Second // the peer always reads or resets promptly: this only bounds a hang
			for i, name := range order {
				p, _ := byName[name].c.build()
				var err error
				o := vh.GuardTimeout(3*time.Minute, func() { err = client.Send(p, wnetLicense(byName[name].c.lic)) })
				e := ""
				if !o.OK() {
					e = o.String() + ": " + vh.Clip(o.Panic, 100)
				} else if err != nil {
					e = err.Error()
				}
				if sc.path == "sendAndClear" && (i == 1 || i == len(order)-1 || i == 2) {
					// flush what is queued: after S1+B, after S2, at the end
					var ferr error
					o2 := vh.GuardTimeout(3*time.Minute, func() { ferr = client.SendAndClear() })
					if !o2.OK() {
						e += " SendAndClear " + o2.String()
					} else if ferr != nil {
						e += " SendAndClear: " + ferr.Error()
					}
				}
				results = append(results, sendRes{name, vh.Clip(e, 160)})
				if sc.path == "queue" {
					// let the background goroutine take the item before the next one is queued
					srv.quiesce(60*time.Millisecond, 2*time.Second)
				}
			}
		})
		// End of the scenario, without relying on wall-clock guesses for the verdict:
		//  1. (queued path) wait until the background goroutine has taken every item — bounded, generous; this only
		//     decides how much was sent, not whether what was sent is well formed;
		//  2. stop the client: cancel its goroutine, Close() → the kernel delivers what was written, then FIN;
		//  3. wait until every connection that carried bytes has been read to its end (EOF or the injector's reset).
		// After that every connection is dead and complete; if one is still open after the (very generous) limit the
		// scenario is inconclusive and gives no verdict.
		if sc.path == "queue" && client != nil {
			deadline := time.Now().Add(60 * time.Second)
			for time.Now().Before(deadline) {
				n := 1
				vh.Guard(func() { n = client.Queue.Size() })
				if n == 0 {
					break
				}
				time.Sleep(10 * time.Millisecond)
			}
			srv.quiesce(300*time.Millisecond, 20*time.Second)
		}
		//  2. cancel the client's goroutine; flush the accept queue (marker connection); refuse further connections;
		//     Close() the client → FIN after whatever it wrote;
		accepted := true
		if client != nil {
			vh.GuardTimeout(2*time.Minute, func() { client.Destroy(); client.StopForVerif() })
			accepted = srv.flushAccepts(2 * time.Minute)
			srv.stopAccepting()
			vh.GuardTimeout(2*time.Minute, func() { client.Close() })
		}
		//  3. every connection is read to its end
		inconclusive := !accepted || !srv.waitAllRead(90*time.Second)
		srv.close()
		rep.Case(fmt.Sprintf("fault %s %s k=%d", sc.path, sc.big, sc.k), true)
		rep.Count("fault-scenario:" + sc.path)
		switch { // the cut-position vocabulary C06 uses, so that the two reports line up
		case sc.k == 0:
			rep.Count("cut:between-frames")
		case sc.k < 22:
			rep.Count("cut:inside-header")
		default:
			rep.Count("cut:inside-payload")
		}
		if len(results) > 1 && results[1].Err != "" && sc.path == "direct" {
			midErr++
			rep.Count("fault:write-error-returned-for-the-broken-frame")
		}
		// evaluate
		srv.mu.Lock()
		conns := append([]*connRec{}, srv.conns...)
		srv.mu.Unlock()
		var summary []map[string]interface{}
		wholeCount := map[string]int{}
		problem, where := "", -1
		for ci, c := range conns {
			if c.sentinel {
				continue
			}
			dead := c.killed || c.eof
			// candidates: the frame that was broken first (a 1-byte prefix matches every frame)
			cands := append([]faultPack{byName[sc.big]}, packs...)
			pr, trace, whole := streamCheck(c.data, dead, cands)
			for _, w := range whole {
				wholeCount[w]++
			}
			if pr == "" && len(c.data) > 0 && len(c.data) < 200000 {
				used := 0
				for _, w := range whole {
					used += len(byName[w].frame)
				}
				streamQs = append(streamQs, streamQ{"stream " + vh.Hex(c.data), len(whole), len(c.data) - used, fmt.Sprintf("%s %s k=%d connection %d", sc.path, sc.big, sc.k, ci)})
			}
			summary = append(summary, map[string]interface{}{"connection": ci, "bytes": len(c.data), "reset_by_peer_after_plan": c.killed,
				"closed_by_client": c.eof, "parse": trace, "first_bytes_hex": vh.Clip(vh.Hex(c.data), 96)})
			if pr != "" && problem == "" {
				problem, where = pr, ci
			}
		}
		rep.CountN("fault-connections", len(conns))
		replayObj := map[string]interface{}{"path": sc.path, "broken_frame": sc.big, "frame_bytes": len(byName[sc.big].frame), "peer_resets_after_k_bytes_of_it": sc.k,
			"sends": results, "connections": summary, "seed": env.Seed}
		kclass := "mid-body"
		switch {
		case sc.k < 22:
			kclass = "in-header"
		case sc.k <= 23:
			kclass = "header-boundary"
		case sc.k >= len(byName[sc.big].frame)-1:
			kclass = "last-byte"
		}
		if inconclusive {
			rep.Count("fault:inconclusive-connection-still-open")
			continue
		}
		if !run.OK() {
			rep.Fail("property", "OneWayTcpClient.fault:"+sc.path+":"+run.String(), "the client hung or panicked after the peer reset the connection inside a frame: "+vh.Clip(run.Panic, 200), replayObj)
			continue
		}
		if problem != "" {
			rep.Fail("property", "OneWayTcpClient.fault:"+sc.path+":"+problem+"("+kclass+")",
				fmt.Sprintf("after the peer reset the connection %d bytes into a %d-byte frame (%s path), the byte stream of connection #%d is not a concatenation of whole frames: %s", sc.k, len(byName[sc.big].frame), sc.path, where, problem),
				replayObj)
			continue
		}
		for name, n := range wholeCount {
			if n > 1 {
				rep.Fail("property", "OneWayTcpClient.fault:"+sc.path+":frame-delivered-twice("+kclass+")",
					fmt.Sprintf("frame %s arrived whole %d times after a reset inside a frame (%s path)", name, n, sc.path), replayObj)
			}
		}
		if sc.path == "direct" {
			// (queued paths: Send only enqueues, its nil says nothing about delivery — loss there is C06's subject)
			// once the client has SEEN the failure (a send returned an error), a later send that returns nil went
			// to a connection the injector never touches: its frame must arrive whole.  (Sends that returned nil
			// before the client saw any error may be lost with the reset: TCP gives no acknowledgement.)
			firstErr := len(results)
			for i, rs := range results {
				if rs.Err != "" {
					firstErr = i
					break
				}
			}
			for i := firstErr + 1; i < len(results); i++ {
				if results[i].Err == "" && wholeCount[results[i].Pack] == 0 {
					rep.Fail("property", "OneWayTcpClient.fault:"+sc.path+":frame-lost-after-reconnect("+kclass+")",
						fmt.Sprintf("Send of %s returned nil after the client had reconnected, but the frame did not arrive whole on any connection", results[i].Pack), replayObj)
				}
			}
		}
	}
	if len(streamQs) > 0 {
		lines := make([]string, len(streamQs))
		for i, q := range streamQs {
			lines[i] = q.line
		}
		outs, err := vh.RunDriver(env.Driver, lines)
		if err != nil {
			vh.Die("%v", err)
		}
		for i, q := range streamQs {
			var n, rest int
			fmt.Sscan(outs[i], &n, &rest)
			rep.Count("fault:stream-parsed-by-the-model")
			// a truncated tail shorter than a header is left over by the model as well; a longer one may not parse either
			if n != q.whole || (q.rest == 0 && rest != 0) {
				rep.Fail("correspondence", "OneWayTcpClient.fault:model-stream-parse-disagrees",
					fmt.Sprintf("the model's receiver parses %d whole frames (%d bytes left) where the harness matched %d reference frames (%d bytes left)", n, rest, q.whole, q.rest),
					map[string]interface{}{"connection": q.what, "stream_hex": vh.Clip(q.line, 2000)})
			}
		}
	}
	rep.Note("fault stage took %.1f s", time.Since(t0).Seconds())
	rep.Note("fault injection: %d scenarios (3 paths x reset after k bytes of a %d-byte and a %d-byte frame); the direct Send of the broken big frame returned an error in %d scenarios (write error in the middle of the frame)",
		len(scens), len(byName["BIG"].frame), len(byName["MID"].frame), midErr)
}
