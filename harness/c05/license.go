package main

// License field (stage C2): the property text fixes bytes 10..18 of every frame as Hash64 of the LICENSE
// TEXT — the bytes of the string the application configured (client option / exported field) or handed to
// one send (wnet.WithLicense) — nothing is said about a canonical form of that text.  A route that tidies
// the text before hashing (trims blanks or line ends, folds case, strips quotes / a comment / a BOM / NULs,
// collapses blanks, cuts at a length) produces the same frames as before for every "clean" license and a
// different license field exactly for texts that carry what it tidies — which is what a license read from
// whatap.conf, a secret file or the environment looks like.
//
// Generator class "raw license" (rawLicense; also 1 in 5 of genLicense, so the socket, history, mutation
// and queue stages meet it): base text × decoration (leading / trailing / only white space of every kind
// Unicode knows, line ends, NUL, BOM, quotes, comment tail, key= prefix, case variants, inner runs of
// blanks, a very long text).
//
// Clause evaluated directly on the implementation, per (pack, raw license, route):
//   frame[0..2] = 10, 0;  frame[10..18] = big-endian reference hash64 of exactly the license bytes in effect
//   (asked from the driver with a `hash` line, not taken from the implementation's Hash64Str);
//   the whole frame = the reference frame for that license;
//   and, metamorphic: two licenses whose reference hashes differ give frames whose license fields differ.
// Routes: client license by constructor option, client license by the exported field on a client built with
// another license, per-send WithLicense over a client license; all through makeData (hook client, no socket).

import (
	"bytes"
	"encoding/binary"
	"fmt"
	"strings"

	wnet "github.com/whatap/golib/net"
	"github.com/whatap/golib/net/oneway"
	"verif/harness/vh"
)

var licBases = []string{"x4sg22ea3zdt9-z21ehre2sdpz2t-x3ri3p2bmmsd4u", "x2jgg66m4jlck-z6l4o2nb3cckq0-x5jfk4ktaqmfth", "abcdefg", "A", "라이선스-키", "é", "Lic-Mixed-CASE-42"}

// every white-space character of unicode.IsSpace, plus the things that travel with a text out of a file
var licBlanks = []string{" ", "\t", "\n", "\r\n", "\r", "\v", "\f", "\u0085", "\u00a0", "\u1680", "\u2003", "\u2028", "\u2029", "\u202f", "\u205f", "\u3000", "  ", " \n", "\t \r\n", "\x00", "\ufeff", "\u200b"}

// rawLicense returns a license text and the class of its decoration (stable, no random values).
func rawLicense(r *vh.Rng) (string, string) {
	base := r.PickStr(licBases)
	if r.Chance(25) {
		n := 1 + r.Intn(40)
		b := make([]byte, n)
		for i := range b {
			b[i] = byte(0x21 + r.Intn(0x5e))
		}
		base = string(b)
	}
	ws := func() string { return r.PickStr(licBlanks) }
	switch r.Intn(16) {
	case 0, 1, 2:
		return base + ws(), "trailing-blank"
	case 3, 4:
		return ws() + base, "leading-blank"
	case 5:
		return ws() + base + ws(), "surrounding-blanks"
	case 6:
		s := ws()
		for k := r.Intn(3); k > 0; k-- {
			s += ws()
		}
		return s, "blanks-only"
	case 7:
		return base + "\n" + r.PickStr(licBases) + "\n", "several-lines"
	case 8:
		q := r.PickStr([]string{"\"", "'", "`"})
		return q + base + q, "quoted"
	case 9:
		return base + r.PickStr([]string{" # comment", "#x", " ; note", "//"}), "comment-tail"
	case 10:
		return r.PickStr([]string{"license=", "license = ", "LICENSE:"}) + base, "key-prefix"
	case 11:
		if r.Bool() {
			return strings.ToUpper(base), "upper-case"
		}
		return strings.ToLower(base), "lower-case"
	case 12:
		i := r.Intn(len(base) + 1)
		for i < len(base) && base[i]&0xC0 == 0x80 {
			i++
		}
		return base[:i] + r.PickStr([]string{"  ", " ", "\t", "\x00", "-"}) + base[i:], "inner-blank"
	case 13:
		return base + strings.Repeat(r.PickStr([]string{" ", "\x00", "="}), 1+r.Intn(70)), "padded"
	case 14:
		return strings.Repeat(base, 1+300/len(base)), "long"
	default:
		return base, "clean"
	}
}

type licCase struct {
	c      *tcase
	lic    string // license in effect
	class  string
	route  string
	want   []byte // reference frame
	refH   uint64 // reference hash64 of lic, as the 8 field bytes read
	line   string
	got    []byte
	failed bool
}

func licensePhase(env *vh.Env, rep *vh.Report, r *vh.Rng) {
	n := 360
	if env.Thorough {
		n = 6000
	}
	routes := []string{"client-option", "client-field", "per-send"}
	var cs []*licCase
	var lines []string
	for i := 0; i < n; i++ {
		lic, class := rawLicense(r)
		c := genCase(r, r.PickInt([]int{2, 2, 0, 3, 4, 1}), false)
		cc := *c
		cc.lic = lic
		_, line := cc.build()
		cs = append(cs, &licCase{c: &cc, lic: lic, class: class, route: routes[i%3], line: line})
		lines = append(lines, line, "hash "+vh.Hex([]byte(lic)))
	}
	outs, err := vh.RunDriver(env.Driver, lines)
	if err != nil {
		vh.Die("%v", err)
	}
	for i, k := range cs {
		var hexs, st string
		fmt.Sscan(outs[2*i], &hexs, &st)
		k.want = vh.UnHex(hexs)
		var h int64
		if _, err := fmt.Sscan(outs[2*i+1], &h); err != nil {
			vh.Die("driver answered %q to a hash line", outs[2*i+1])
		}
		k.refH = uint64(h)
	}
	reported := map[string]bool{}
	for i, k := range cs {
		if len(k.want) < 22 {
			continue // the driver refused the pack line (not a statement about the license)
		}
		other := "other-" + fmt.Sprint(i%7)
		o := vh.Guard(func() {
			var client *oneway.OneWayTcpClient
			p, _ := k.c.build()
			switch k.route {
			case "client-option":
				client = oneway.NewForVerif(oneway.WithLicense(k.lic), oneway.WithPcode(12345), oneway.WithOid(7), oneway.WithServers([]string{"127.0.0.1:1"}))
				k.got = append([]byte{}, client.MakeDataForVerif(p)...)
			case "client-field":
				client = oneway.NewForVerif(oneway.WithLicense(other), oneway.WithPcode(12345), oneway.WithOid(7), oneway.WithServers([]string{"127.0.0.1:1"}))
				client.License = k.lic
				k.got = append([]byte{}, client.MakeDataForVerif(p, wnet.WithLicense(""))...)
			default:
				client = oneway.NewForVerif(oneway.WithLicense(other), oneway.WithPcode(12345), oneway.WithOid(7), oneway.WithServers([]string{"127.0.0.1:1"}))
				if k.lic == "" {
					client.License = ""
				}
				k.got = append([]byte{}, client.MakeDataForVerif(p, wnet.WithLicense(k.lic))...)
			}
			client.StopForVerif()
		})
		rep.Case("license-field "+k.route+" "+vh.Hex([]byte(k.lic))+" "+vh.Clip(k.line, 80), k.class != "clean")
		rep.Count("license-field:" + k.class)
		rep.Count("license-route:" + k.route)
		if i < 3 {
			rep.Sample(map[string]string{"stage": "license-field", "route": k.route, "class": k.class, "license_hex": vh.Hex([]byte(k.lic))})
		}
		what, part := "", ""
		switch {
		case !o.OK():
			what, part = "makeData "+o.String(), o.String()
		case len(k.got) < 22:
			what, part = fmt.Sprintf("the frame has %d bytes, less than a header", len(k.got)), "short-frame"
		case k.got[0] != 10 || k.got[1] != 0:
			what, part = fmt.Sprintf("source/version bytes are %d,%d, the protocol says 10,0", k.got[0], k.got[1]), "source-version-bytes"
		case binary.BigEndian.Uint64(k.got[10:18]) != k.refH:
			what = fmt.Sprintf("the license field of the frame is %016x, the reference hash64 of the %d license bytes in effect is %016x",
				binary.BigEndian.Uint64(k.got[10:18]), len(k.lic), k.refH)
			part = "license-hash"
		case !bytes.Equal(k.got, k.want):
			d := firstDiff(k.want, k.got)
			what, part = fmt.Sprintf("the frame differs from the reference frame at offset %d", d), framePart(d)
		}
		if what == "" {
			continue
		}
		k.failed = true
		key := "OneWayTcpClient.makeData:" + part + ":raw-license-" + k.class + "(" + k.route + ")"
		if reported[key] {
			continue
		}
		reported[key] = true
		rep.Fail("property", key, "license text of class "+k.class+" through route "+k.route+": "+what,
			map[string]interface{}{"route": k.route, "license_class": k.class, "license_in_effect_hex": vh.Hex([]byte(k.lic)),
				"license_in_effect_quoted": fmt.Sprintf("%q", k.lic), "line": vh.Clip(k.line, 3000),
				"frame_hex": vh.Clip(vh.Hex(k.got), 3000), "reference_frame_hex": vh.Clip(vh.Hex(k.want), 3000),
				"reference_hash64": fmt.Sprintf("%016x", k.refH)})
	}
	// metamorphic clause: licenses the reference hash tells apart are told apart by the frames' license fields
	seen := map[uint64]*licCase{} // implementation's field -> first case that produced it
	for _, k := range cs {
		if len(k.got) < 22 || len(k.want) < 22 {
			continue
		}
		f := binary.BigEndian.Uint64(k.got[10:18])
		rep.Count("license-field:pairs")
		if first, ok := seen[f]; ok && first.refH != k.refH && !reported["collide"] {
			reported["collide"] = true
			rep.Fail("property", "OneWayTcpClient.makeData:license-hash:two-licenses-one-field",
				fmt.Sprintf("two license texts with different reference hashes (%016x, %016x) were sent with the same license field %016x", first.refH, k.refH, f),
				map[string]interface{}{"license_a_hex": vh.Hex([]byte(first.lic)), "route_a": first.route, "license_b_hex": vh.Hex([]byte(k.lic)), "route_b": k.route,
					"line_a": vh.Clip(first.line, 1500), "line_b": vh.Clip(k.line, 1500), "field": fmt.Sprintf("%016x", f)})
		} else if !ok {
			seen[f] = k
		}
	}
}
