package main

// Generators: every case is a pack type plus a list of named fields.  A field carries
//   - its text for the driver line (names only – the wire order is known to the Lean reference, not here),
//   - a closure that sets it on the Go pack through the public API,
//   - a "zero" variant used by the shrinking search that localises a disagreement.

import (
	"fmt"
	"math"
	"strconv"
	"strings"

	"github.com/whatap/golib/lang"
	"github.com/whatap/golib/lang/pack"
	"github.com/whatap/golib/lang/value"
	"github.com/whatap/golib/util/hmap"
	"verif/harness/vh"
)

type field struct {
	name  string
	text  string                   // value text for the driver ("" = omit the key: absent optional section)
	apply func(p pack.Pack)        // sets the field on a freshly constructed pack
	late  func(p pack.Pack) string // optional: text computed from the built pack (inputs only the pack can tell)
	zero  *field                   // simpler variant for shrinking (nil: already simplest)
}

type tcase struct {
	typ    string // driver type name
	goName string // Go type name (for keys)
	mk     func() pack.Pack
	fields []field
	lic    string
}

// build constructs a fresh Go pack and returns it with the driver line (without go=).
func (c *tcase) build() (pack.Pack, string) {
	p := c.mk()
	for _, f := range c.fields {
		if f.apply != nil {
			f.apply(p)
		}
	}
	var sb strings.Builder
	sb.WriteString(c.typ)
	for _, f := range c.fields {
		t := f.text
		if f.late != nil {
			t = f.late(p)
		}
		if t == "" {
			continue
		}
		sb.WriteByte(' ')
		sb.WriteString(f.name)
		sb.WriteByte('=')
		sb.WriteString(t)
	}
	sb.WriteString(" lic=" + vh.Hex([]byte(c.lic)))
	return p, sb.String()
}

func (c *tcase) nonZero() []string {
	var out []string
	for _, f := range c.fields {
		if f.zero != nil {
			out = append(out, f.name)
		}
	}
	return out
}

// ---------------------------------------------------------------- scalars

var bounds = vh.SignedBoundaries()

func rangeOf(w uint) (int64, int64) {
	if w == 8 {
		return math.MinInt64, math.MaxInt64
	}
	hi := int64(1)<<(8*w-1) - 1
	return -hi - 1, hi
}

func clamp(v, lo, hi int64) int64 {
	if v < lo || v > hi {
		span := uint64(hi-lo) + 1
		return lo + int64(uint64(v-lo)%span)
	}
	return v
}

// genInt: boundary-biased signed integer of w bytes
func genInt(r *vh.Rng, w uint) int64 {
	lo, hi := rangeOf(w)
	switch {
	case r.Chance(35):
		return clamp(r.Pick64(bounds), lo, hi)
	case r.Chance(40):
		k := uint(r.Intn(int(w))) + 1
		if k == 6 || k == 7 {
			k = 8
		}
		if k > w {
			k = w
		}
		l, h := rangeOf(k)
		return r.Range(l, h)
	case r.Chance(15):
		return 0
	default:
		return r.Range(lo, hi)
	}
}

var floatBits = []uint32{0, 0x80000000, 0x7f800000, 0xff800000, 0x7fc00000, 0x7fc00001, 0xffc12345, 1, 0x3f800000, 0x42c80000, 0xffffffff}

func genF32(r *vh.Rng) uint32 {
	if r.Chance(40) {
		return floatBits[r.Intn(len(floatBits))]
	}
	return uint32(r.U64())
}

var words = []string{"", "a", "oid", "host", "whatap", "category-1", "app_log", "x y", "한글", "日本語テキスト", "naïve ✓", "emoji😀", "tab\tnl\n", "_esca_x", "k"}

func genStr(r *vh.Rng, allowEmpty bool) string {
	for {
		var s string
		switch {
		case r.Chance(55):
			s = r.PickStr(words)
		case r.Chance(6):
			s = strings.Repeat("é", r.PickInt([]int{126, 127, 128}))
		case r.Chance(4):
			s = strings.Repeat("z", r.PickInt([]int{252, 253, 254, 255, 256, 300}))
		case r.Chance(10):
			s = string(r.Bytes(r.Intn(12))) // arbitrary bytes, possibly invalid UTF-8
		default:
			n := r.Intn(14)
			b := make([]byte, n)
			for i := range b {
				b[i] = byte(0x20 + r.Intn(0x5f))
			}
			s = string(b)
		}
		if s != "" || allowEmpty {
			return s
		}
	}
}

func genLicense(r *vh.Rng) string {
	switch {
	case r.Chance(12):
		return ""
	case r.Chance(22):
		// a license as it comes out of a file / the environment (see license.go): the license field is the
		// hash of exactly these bytes, whatever "tidying" a route might find natural
		l, _ := rawLicense(r)
		return l
	case r.Chance(30):
		return r.PickStr([]string{"x4sg22ea3zdt9-z21ehre2sdpz2t-x3ri3p2bmmsd4u", "abcdefg", "hijklmn", "A", "license with spaces"})
	case r.Chance(30):
		return r.PickStr([]string{"라이선스-키", "ライセンス✓", "ключ", "é", "😀😀"})
	case r.Chance(10):
		return strings.Repeat("L", 200+r.Intn(200))
	default:
		n := 1 + r.Intn(48)
		b := make([]byte, n)
		for i := range b {
			b[i] = byte(0x21 + r.Intn(0x5e))
		}
		return string(b)
	}
}

func itoa(v int64) string  { return strconv.FormatInt(v, 10) }
func utoa(v uint64) string { return strconv.FormatUint(v, 10) }
func hx(s string) string   { return vh.Hex([]byte(s)) }

// ---------------------------------------------------------------- tagged values

// genValue returns a Go value and its neutral text (syntax of Driver/C05.lean).
func genValue(r *vh.Rng, depth int) (value.Value, string) {
	k := r.Intn(20)
	if depth <= 0 && (k == 13 || k == 18 || k == 19) {
		k = r.Intn(13)
	}
	switch k {
	case 0:
		return value.NewNullValue(), "n"
	case 1:
		b := r.Bool()
		if b {
			return value.NewBoolValue(true), "b:1"
		}
		return value.NewBoolValue(false), "b:0"
	case 2:
		v := genInt(r, 8)
		return value.NewDecimalValue(v), "d:" + itoa(v)
	case 3:
		v := int32(genInt(r, 4))
		return value.NewIntValue(v), "i:" + itoa(int64(v))
	case 4:
		v := genInt(r, 8)
		return value.NewLongValue(v), "l:" + itoa(v)
	case 5:
		b := genF32(r)
		return value.NewFloatValue(math.Float32frombits(b)), "f:" + utoa(uint64(b))
	case 6:
		b := r.U64()
		if r.Chance(30) {
			b = []uint64{0, 0x8000000000000000, 0x7ff0000000000000, 0x7ff8000000000001, 0x3ff0000000000000}[r.Intn(5)]
		}
		return value.NewDoubleValue(math.Float64frombits(b)), "g:" + utoa(b)
	case 7:
		d := value.NewDoubleSummary()
		s, mn, mx := r.U64()&^(0x7ff<<52)|(uint64(0x3ff+r.Intn(20))<<52), uint64(0x3ff0000000000000), uint64(0x4059000000000000)
		d.Sum, d.Min, d.Max = math.Float64frombits(s), math.Float64frombits(mn), math.Float64frombits(mx)
		d.Count = int32(genInt(r, 4))
		return d, fmt.Sprintf("ds:%d:%d:%d:%d", s, d.Count, mn, mx)
	case 8:
		l := value.NewLongSummary()
		l.Sum, l.Count, l.Min, l.Max = genInt(r, 8), int32(genInt(r, 4)), genInt(r, 8), genInt(r, 8)
		return l, fmt.Sprintf("ls:%d:%d:%d:%d", l.Sum, l.Count, l.Min, l.Max)
	case 9, 14, 15:
		s := genStr(r, true)
		return value.NewTextValue(s), "t:" + hx(s)
	case 10:
		v := int32(genInt(r, 4))
		return value.NewTextHashValue(v), "h:" + itoa(int64(v))
	case 11:
		b := r.Bytes(r.PickInt([]int{0, 1, 3, 17, 253, 254}))
		return value.NewBlobValue(b), "x:" + vh.Hex(b)
	case 12:
		b := r.Bytes(4)
		return value.NewIP4Value(b), "p:" + vh.Hex(b)
	case 13:
		n := r.Intn(4)
		items := make([]interface{}, 0, n)
		var ts []string
		for i := 0; i < n; i++ {
			v, t := genValue(r, depth-1)
			items = append(items, v)
			ts = append(ts, t)
		}
		return value.NewListValue(items), "L(" + strings.Join(ts, ";") + ")"
	case 16:
		n := r.Intn(4)
		xs := make([]int32, n)
		ts := make([]string, n)
		for i := range xs {
			xs[i] = int32(genInt(r, 4))
			ts[i] = itoa(int64(xs[i]))
		}
		return value.NewIntArray(xs), "ai:" + vh.List(ts)
	case 17:
		n := r.Intn(4)
		if r.Bool() {
			xs := make([]int64, n)
			ts := make([]string, n)
			for i := range xs {
				xs[i] = genInt(r, 8)
				ts[i] = itoa(xs[i])
			}
			return value.NewLongArray(xs), "al:" + vh.List(ts)
		}
		if r.Bool() {
			xs := make([]float32, n)
			ts := make([]string, n)
			for i := range xs {
				b := genF32(r)
				xs[i] = math.Float32frombits(b)
				ts[i] = utoa(uint64(b))
			}
			return value.NewFloatArray(xs), "af:" + vh.List(ts)
		}
		xs := make([]string, n)
		ts := make([]string, n)
		for i := range xs {
			xs[i] = genStr(r, true)
			ts[i] = hx(xs[i])
			if xs[i] == "" {
				ts[i] = "_" // "-" alone would read as the empty list
			}
		}
		return value.NewTextArray(xs), "at:" + vh.List(ts)
	case 18:
		m, t := genMap(r, r.Intn(4), depth-1)
		return m, t
	default:
		m := value.NewIntMapValue()
		n := r.Intn(4)
		var ts []string
		seen := map[int32]bool{}
		for i := 0; i < n; i++ {
			k := int32(genInt(r, 4))
			if seen[k] {
				continue
			}
			seen[k] = true
			v, t := genValue(r, depth-1)
			m.Put(k, v)
			ts = append(ts, itoa(int64(k))+"="+t)
		}
		return m, "IM(" + strings.Join(ts, ";") + ")"
	}
}

func genKeys(r *vh.Rng, n int) []string {
	seen := map[string]bool{}
	var out []string
	for len(out) < n {
		k := genStr(r, false)
		if seen[k] {
			k = k + strconv.Itoa(len(out))
		}
		if seen[k] {
			continue
		}
		seen[k] = true
		out = append(out, k)
	}
	return out
}

// genMap: a string-keyed map value with n distinct non-empty keys
func genMap(r *vh.Rng, n int, depth int) (*value.MapValue, string) {
	m := value.NewMapValue()
	var ts []string
	for _, k := range genKeys(r, n) {
		v, t := genValue(r, depth)
		m.Put(k, v)
		ts = append(ts, hx(k)+"="+t)
	}
	return m, "M(" + strings.Join(ts, ";") + ")"
}

func mapSize(r *vh.Rng) int {
	switch {
	case r.Chance(20):
		return 0
	case r.Chance(4):
		return 130 // decimal count needs 2 bytes
	default:
		return 1 + r.Intn(6)
	}
}

// ---------------------------------------------------------------- common header

type hdrSetter interface {
	SetPCODE(int64)
	SetOID(int32)
	SetOKIND(int32)
	SetONODE(int32)
	SetTime(int64)
}

func intField(name string, v int64, set func(p pack.Pack, v int64)) field {
	f := field{name: name, text: itoa(v), apply: func(p pack.Pack) { set(p, v) }}
	if v != 0 {
		z := field{name: name, text: "0", apply: func(p pack.Pack) { set(p, 0) }}
		f.zero = &z
	}
	return f
}

func hdrFields(r *vh.Rng) []field {
	pcode := genInt(r, 8)
	oid := genInt(r, 4)
	var okind, onode int64
	switch r.Intn(6) {
	case 0, 1, 2:
	case 3:
		okind = genInt(r, 4)
	case 4:
		onode = genInt(r, 4)
	default:
		okind, onode = genInt(r, 4), genInt(r, 4)
	}
	tm := genInt(r, 8)
	if r.Chance(60) {
		tm = 1700000000000 + r.Range(0, 1<<36)
	}
	return []field{
		intField("pcode", pcode, func(p pack.Pack, v int64) { p.SetPCODE(v) }),
		intField("oid", oid, func(p pack.Pack, v int64) { p.SetOID(int32(v)) }),
		intField("okind", okind, func(p pack.Pack, v int64) { p.SetOKIND(int32(v)) }),
		intField("onode", onode, func(p pack.Pack, v int64) { p.SetONODE(int32(v)) }),
		intField("time", tm, func(p pack.Pack, v int64) { p.SetTime(v) }),
	}
}

func strField(name, s string, set func(p pack.Pack, s string)) field {
	f := field{name: name, text: hx(s), apply: func(p pack.Pack) { set(p, s) }}
	if s != "" {
		z := field{name: name, text: "-", apply: func(p pack.Pack) { set(p, "") }}
		f.zero = &z
	}
	return f
}

// mapField: a map-valued field; entries is the generated content, set installs entries on the pack
func mapField(r *vh.Rng, name string, n int, put func(p pack.Pack, k string, v value.Value)) field {
	keys := genKeys(r, n)
	vals := make([]value.Value, n)
	var ts []string
	for i, k := range keys {
		v, t := genValue(r, 2)
		vals[i] = v
		ts = append(ts, hx(k)+"="+t)
	}
	f := field{name: name, text: "M(" + strings.Join(ts, ";") + ")", apply: func(p pack.Pack) {
		for i, k := range keys {
			put(p, k, vals[i])
		}
	}}
	if n > 0 {
		z := field{name: name, text: "M()", apply: func(p pack.Pack) {}}
		f.zero = &z
	}
	return f
}

// ---------------------------------------------------------------- the eight packs

func genTagCount(r *vh.Rng) *tcase {
	c := &tcase{typ: "tagcount", goName: "TagCountPack", mk: func() pack.Pack { return pack.NewTagCountPack() }}
	c.fields = hdrFields(r)
	c.fields = append(c.fields, strField("category", genStr(r, true), func(p pack.Pack, s string) { p.(*pack.TagCountPack).Category = s }))
	ntags := mapSize(r)
	tags := mapField(r, "tags", ntags, func(p pack.Pack, k string, v value.Value) { p.(*pack.TagCountPack).Tags.Put(k, v) })
	c.fields = append(c.fields, mapField(r, "data", mapSize(r), func(p pack.Pack, k string, v value.Value) { p.(*pack.TagCountPack).Data.Put(k, v) }))
	if ntags > 0 && r.Chance(25) {
		// stale stored hash: the pack was written once, then a tag was added (the stored hash is an input of the next write)
		extraKey := "late-" + genStr(r, false)
		base := tags
		tags = field{name: "tags", text: strings.TrimSuffix(base.text, ")") + ";" + hx(extraKey) + "=t:" + hx("v") + ")",
			apply: func(p pack.Pack) {
				base.apply(p)
				pack.ToBytesPack(p)
				p.(*pack.TagCountPack).PutTag(extraKey, "v")
			}, zero: base.zero}
	}
	c.fields = append(c.fields, tags)
	c.fields = append(c.fields, field{name: "tagHash", late: func(p pack.Pack) string { return itoa(p.(*pack.TagCountPack).GetTagHash()) }})
	return c
}

func genLogSink(r *vh.Rng) *tcase {
	c := &tcase{typ: "logsink", goName: "LogSinkPack", mk: func() pack.Pack { return pack.NewLogSinkPack() }}
	c.fields = hdrFields(r)
	c.fields = append(c.fields, strField("category", genStr(r, true), func(p pack.Pack, s string) { p.(*pack.LogSinkPack).Category = s }))
	var th int64
	if r.Chance(30) {
		th = genInt(r, 8)
	}
	c.fields = append(c.fields, intField("tagHash", th, func(p pack.Pack, v int64) { p.(*pack.LogSinkPack).TagHash = v }))
	c.fields = append(c.fields, mapField(r, "tags", mapSize(r), func(p pack.Pack, k string, v value.Value) { p.(*pack.LogSinkPack).Tags.Put(k, v) }))
	c.fields = append(c.fields, intField("line", genInt(r, 8), func(p pack.Pack, v int64) { p.(*pack.LogSinkPack).Line = v }))
	content := genStr(r, true)
	if r.Chance(5) {
		content = strings.Repeat("log line ", 8000) // > 65535 bytes: 5-byte blob header
	}
	c.fields = append(c.fields, strField("content", content, func(p pack.Pack, s string) { p.(*pack.LogSinkPack).Content = s }))
	nf := mapSize(r)
	ff := mapField(r, "fields", nf, func(p pack.Pack, k string, v value.Value) { p.(*pack.LogSinkPack).Fields.Put(k, v) })
	if nf == 0 && r.Bool() {
		ff.apply = func(p pack.Pack) { p.(*pack.LogSinkPack).Fields = nil }
	}
	c.fields = append(c.fields, ff)
	return c
}

func genText(r *vh.Rng) *tcase {
	c := &tcase{typ: "text", goName: "TextPack", mk: func() pack.Pack { return pack.NewTextPack() }}
	c.fields = hdrFields(r)
	n := r.Intn(6)
	if r.Chance(5) {
		n = 130
	}
	recs := make([]pack.TextRec, n)
	ts := make([]string, n)
	for i := range recs {
		recs[i] = pack.TextRec{Div: byte(r.Intn(256)), Hash: int32(genInt(r, 4)), Text: genStr(r, true)}
		if r.Chance(2) {
			recs[i].Text = strings.Repeat("q", 70000)
		}
		ts[i] = fmt.Sprintf("%d:%d:%s", recs[i].Div, recs[i].Hash, hx(recs[i].Text))
	}
	f := field{name: "recs", text: "-", apply: func(p pack.Pack) {
		for _, x := range recs {
			p.(*pack.TextPack).AddText(x)
		}
	}}
	if n > 0 {
		f.text = strings.Join(ts, "/")
		z := field{name: "recs", text: "-", apply: func(p pack.Pack) {}}
		f.zero = &z
	}
	c.fields = append(c.fields, f)
	return c
}

func genParam(r *vh.Rng) *tcase {
	c := &tcase{typ: "param", goName: "ParamPack", mk: func() pack.Pack { return pack.NewParamPack() }}
	c.fields = hdrFields(r)
	c.fields = append(c.fields,
		intField("id", genInt(r, 4), func(p pack.Pack, v int64) { p.(*pack.ParamPack).Id = int32(v) }),
		intField("request", genInt(r, 8), func(p pack.Pack, v int64) { p.(*pack.ParamPack).Request = v }),
		intField("response", genInt(r, 8), func(p pack.Pack, v int64) { p.(*pack.ParamPack).Response = v }),
		mapField(r, "table", mapSize(r), func(p pack.Pack, k string, v value.Value) { p.(*pack.ParamPack).Put(k, v) }))
	return c
}

func genEvent(r *vh.Rng) *tcase {
	c := &tcase{typ: "event", goName: "EventPack", mk: func() pack.Pack { return pack.NewEventPack() }}
	c.fields = hdrFields(r)
	uuid := ""
	if r.Chance(60) {
		uuid = r.PickStr([]string{"123e4567-e89b-12d3-a456-426614174000", "u", "유유아이디"})
	}
	esc := r.Bool()
	escF := field{name: "esc", text: "0", apply: func(p pack.Pack) { p.(*pack.EventPack).Escalation = esc }}
	if esc {
		escF.text = "1"
		z := field{name: "esc", text: "0", apply: func(p pack.Pack) {}}
		escF.zero = &z
	}
	level := int64(r.PickInt([]int{0, 10, 20, 30, 255, r.Intn(256)}))
	n := r.Intn(5)
	if r.Chance(4) {
		n = 200
	}
	keys := genKeys(r, n)
	if n > 0 && r.Chance(30) {
		// a reserved key already present: it keeps its position and takes the folded value
		keys[r.Intn(n)] = r.PickStr([]string{"_esca_", "_uuid_", "_status_", "_otype_"})
	}
	vals := make([]string, n)
	ts := make([]string, n)
	for i := range keys {
		vals[i] = genStr(r, true)
		ts[i] = hx(keys[i]) + ":" + hx(vals[i])
	}
	attr := field{name: "attr", text: "-", apply: func(p pack.Pack) {
		for i, k := range keys {
			p.(*pack.EventPack).Attr.Put(k, vals[i])
		}
	}}
	if n > 0 {
		attr.text = strings.Join(ts, "/")
		z := field{name: "attr", text: "-", apply: func(p pack.Pack) {}}
		attr.zero = &z
	}
	c.fields = append(c.fields,
		strField("uuid", uuid, func(p pack.Pack, s string) { p.(*pack.EventPack).Uuid = s }),
		escF,
		intField("level", level, func(p pack.Pack, v int64) { p.(*pack.EventPack).Level = byte(v) }),
		strField("title", genStr(r, true), func(p pack.Pack, s string) { p.(*pack.EventPack).Title = s }),
		strField("message", genStr(r, true), func(p pack.Pack, s string) { p.(*pack.EventPack).Message = s }),
		intField("status", genInt(r, 4), func(p pack.Pack, v int64) { p.(*pack.EventPack).Status = int32(v) }),
		intField("otype", genInt(r, 4), func(p pack.Pack, v int64) { p.(*pack.EventPack).Otype = int32(v) }),
		attr)
	return c
}

func genZip(r *vh.Rng, thorough bool) *tcase {
	c := &tcase{typ: "zip", goName: "ZipPack", mk: func() pack.Pack { return pack.NewZipPack() }}
	c.fields = hdrFields(r)
	n := r.Intn(60)
	switch {
	case r.Chance(25):
		n = r.PickInt([]int{0, 1, 252, 253, 254, 255, 256})
	case r.Chance(5):
		n = r.PickInt([]int{65535, 65536})
	}
	recs := r.Bytes(n)
	rf := field{name: "records", text: vh.Hex(recs), apply: func(p pack.Pack) { p.(*pack.ZipPack).Records = recs }}
	if n > 0 {
		z := field{name: "records", text: "-", apply: func(p pack.Pack) {}}
		rf.zero = &z
	}
	c.fields = append(c.fields,
		intField("status", int64(r.Intn(256)), func(p pack.Pack, v int64) { p.(*pack.ZipPack).Status = byte(v) }),
		intField("recordCount", genInt(r, 8), func(p pack.Pack, v int64) { p.(*pack.ZipPack).RecordCount = int(v) }),
		rf)
	return c
}

func genHitMap(r *vh.Rng) *tcase {
	c := &tcase{typ: "hitmap", goName: "HitMapPack1", mk: func() pack.Pack { return pack.NewHitMapPack1() }}
	c.fields = hdrFields(r)
	mkArr := func(name string, set func(p *pack.HitMapPack1, xs []int32)) field {
		xs := make([]int32, pack.HITMAP_LENGTH)
		ts := make([]string, len(xs))
		zs := make([]string, len(xs))
		sparse := r.Bool()
		for i := range xs {
			switch {
			case sparse && r.Chance(80):
				xs[i] = 0
			case r.Chance(20):
				xs[i] = int32(r.PickInt([]int{1, 127, 128, 255, 256, 32767, 32768, 65535, 65536, 70000, -1}))
			default:
				xs[i] = int32(r.Intn(3000))
			}
			ts[i] = itoa(int64(xs[i]))
			zs[i] = "0"
		}
		f := field{name: name, text: strings.Join(ts, ","), apply: func(p pack.Pack) { set(p.(*pack.HitMapPack1), xs) }}
		z := field{name: name, text: strings.Join(zs, ","), apply: func(p pack.Pack) {}}
		f.zero = &z
		return f
	}
	c.fields = append(c.fields,
		mkArr("hit", func(p *pack.HitMapPack1, xs []int32) { copy(p.Hit, xs) }),
		mkArr("error", func(p *pack.HitMapPack1, xs []int32) { copy(p.Error, xs) }))
	return c
}

// ---------------------------------------------------------------- counter pack

func cp(p pack.Pack) *pack.CounterPack1 { return p.(*pack.CounterPack1) }

func f32Field(r *vh.Rng, name string, set func(p *pack.CounterPack1, v float32)) field {
	b := genF32(r)
	f := field{name: name, text: utoa(uint64(b)), apply: func(p pack.Pack) { set(cp(p), math.Float32frombits(b)) }}
	if b != 0 {
		z := field{name: name, text: "0", apply: func(p pack.Pack) {}}
		f.zero = &z
	}
	return f
}

func shortsField(r *vh.Rng, name string, def int, set func(p *pack.CounterPack1, xs []int16)) field {
	n := def
	if r.Chance(30) {
		n = r.PickInt([]int{0, 1, 3, 5, 8, 255})
	}
	xs := make([]int16, n)
	ts := make([]string, n)
	for i := range xs {
		xs[i] = int16(genInt(r, 2))
		ts[i] = itoa(int64(xs[i]))
	}
	nilIt := n == 0 && r.Bool()
	f := field{name: name, text: vh.List(ts), apply: func(p pack.Pack) {
		if nilIt {
			set(cp(p), nil)
		} else {
			set(cp(p), xs)
		}
	}}
	z := field{name: name, text: "-", apply: func(p pack.Pack) { set(cp(p), nil) }}
	if n > 0 {
		f.zero = &z
	}
	return f
}

func meterCount(r *vh.Rng) int {
	switch {
	case r.Chance(25):
		return 0
	case r.Chance(4):
		return 130
	default:
		return 1 + r.Intn(4)
	}
}

func genTxMeter(r *vh.Rng) *pack.TxMeter {
	m := pack.NewTxMeter()
	m.Time, m.Count, m.Error, m.Actx = genInt(r, 8), int32(genInt(r, 4)), int32(genInt(r, 4)), int32(genInt(r, 4))
	return m
}

// optional section helper: present with probability pct; absent = key omitted
func optField(r *vh.Rng, name string, pct int, mk func() (string, func(p *pack.CounterPack1))) field {
	if !r.Chance(pct) {
		return field{name: name}
	}
	t, ap := mk()
	z := field{name: name}
	return field{name: name, text: t, apply: func(p pack.Pack) { ap(cp(p)) }, zero: &z}
}

func genCounter(r *vh.Rng) *tcase {
	c := &tcase{typ: "counter", goName: "CounterPack1", mk: func() pack.Pack { return pack.NewCounterPack1() }}
	c.fields = hdrFields(r)
	I := func(name string, w uint, set func(p *pack.CounterPack1, v int64)) {
		c.fields = append(c.fields, intField(name, genInt(r, w), func(p pack.Pack, v int64) { set(cp(p), v) }))
	}
	F := func(name string, set func(p *pack.CounterPack1, v float32)) {
		c.fields = append(c.fields, f32Field(r, name, set))
	}
	I("duration", 4, func(p *pack.CounterPack1, v int64) { p.Duration = int32(v) })
	I("cputime", 8, func(p *pack.CounterPack1, v int64) { p.Cputime = v })
	I("heapTot", 8, func(p *pack.CounterPack1, v int64) { p.HeapTot = v })
	I("heapUse", 8, func(p *pack.CounterPack1, v int64) { p.HeapUse = v })
	I("heapPerm", 8, func(p *pack.CounterPack1, v int64) { p.HeapPerm = v })
	I("heapPendingFinalization", 4, func(p *pack.CounterPack1, v int64) { p.HeapPendingFinalization = int32(v) })
	I("heapMax", 8, func(p *pack.CounterPack1, v int64) { p.HeapMax = v })
	I("gcCount", 4, func(p *pack.CounterPack1, v int64) { p.GcCount = int32(v) })
	I("gcTime", 8, func(p *pack.CounterPack1, v int64) { p.GcTime = v })
	I("gcOldgenCount", 4, func(p *pack.CounterPack1, v int64) { p.GcOldgenCount = int32(v) })
	I("serviceCount", 4, func(p *pack.CounterPack1, v int64) { p.ServiceCount = int32(v) })
	I("serviceError", 4, func(p *pack.CounterPack1, v int64) { p.ServiceError = int32(v) })
	I("serviceTime", 8, func(p *pack.CounterPack1, v int64) { p.ServiceTime = v })
	F("txDbcTime", func(p *pack.CounterPack1, v float32) { p.TxDbcTime = v })
	F("txSqlTime", func(p *pack.CounterPack1, v float32) { p.TxSqlTime = v })
	F("txHttpcTime", func(p *pack.CounterPack1, v float32) { p.TxHttpcTime = v })
	I("sqlCount", 4, func(p *pack.CounterPack1, v int64) { p.SqlCount = int32(v) })
	I("sqlError", 4, func(p *pack.CounterPack1, v int64) { p.SqlError = int32(v) })
	I("sqlTime", 8, func(p *pack.CounterPack1, v int64) { p.SqlTime = v })
	I("sqlFetchCount", 8, func(p *pack.CounterPack1, v int64) { p.SqlFetchCount = v })
	I("sqlFetchTime", 8, func(p *pack.CounterPack1, v int64) { p.SqlFetchTime = v })
	I("httpcCount", 4, func(p *pack.CounterPack1, v int64) { p.HttpcCount = int32(v) })
	I("httpcError", 4, func(p *pack.CounterPack1, v int64) { p.HttpcError = int32(v) })
	I("httpcTime", 8, func(p *pack.CounterPack1, v int64) { p.HttpcTime = v })
	I("actSvcCount", 4, func(p *pack.CounterPack1, v int64) { p.ActSvcCount = int32(v) })
	c.fields = append(c.fields, shortsField(r, "actSvcSlice", 3, func(p *pack.CounterPack1, xs []int16) { p.ActSvcSlice = xs }))
	F("cpu", func(p *pack.CounterPack1, v float32) { p.Cpu = v })
	F("cpuSys", func(p *pack.CounterPack1, v float32) { p.CpuSys = v })
	F("cpuUsr", func(p *pack.CounterPack1, v float32) { p.CpuUsr = v })
	F("cpuWait", func(p *pack.CounterPack1, v float32) { p.CpuWait = v })
	F("cpuSteal", func(p *pack.CounterPack1, v float32) { p.CpuSteal = v })
	F("cpuIrq", func(p *pack.CounterPack1, v float32) { p.CpuIrq = v })
	F("cpuProc", func(p *pack.CounterPack1, v float32) { p.CpuProc = v })
	I("cpuCores", 4, func(p *pack.CounterPack1, v int64) { p.CpuCores = int32(v) })
	F("mem", func(p *pack.CounterPack1, v float32) { p.Mem = v })
	F("swap", func(p *pack.CounterPack1, v float32) { p.Swap = v })
	F("disk", func(p *pack.CounterPack1, v float32) { p.Disk = v })
	I("threadTotalStarted", 8, func(p *pack.CounterPack1, v int64) { p.ThreadTotalStarted = v })
	I("threadCount", 4, func(p *pack.CounterPack1, v int64) { p.ThreadCount = int32(v) })
	I("threadDaemon", 4, func(p *pack.CounterPack1, v int64) { p.ThreadDaemon = int32(v) })
	I("threadPeakCount", 4, func(p *pack.CounterPack1, v int64) { p.ThreadPeakCount = int32(v) })
	I("starttime", 8, func(p *pack.CounterPack1, v int64) { p.Starttime = v })
	I("packDropped", 8, func(p *pack.CounterPack1, v int64) { p.PackDropped = v })
	I("hostIp", 4, func(p *pack.CounterPack1, v int64) { p.HostIp = int32(v) })
	I("procFd", 4, func(p *pack.CounterPack1, v int64) { p.ProcFd = int32(v) })
	F("tps", func(p *pack.CounterPack1, v float32) { p.Tps = v })
	I("respTime", 4, func(p *pack.CounterPack1, v int64) { p.RespTime = int32(v) })
	F("arrivalRate", func(p *pack.CounterPack1, v float32) { p.ArrivalRate = v })
	I("apType", 2, func(p *pack.CounterPack1, v int64) { p.ApType = int16(v) })
	I("macHash", 4, func(p *pack.CounterPack1, v int64) { p.MacHash = int32(v) })
	I("pid", 4, func(p *pack.CounterPack1, v int64) { p.Pid = int32(v) })
	c.fields = append(c.fields, shortsField(r, "activeStat", 5, func(p *pack.CounterPack1, xs []int16) { p.ActiveStat = xs }))
	I("threadPoolActiveCount", 4, func(p *pack.CounterPack1, v int64) { p.ThreadPoolActiveCount = int32(v) })
	I("threadPoolQueueSize", 4, func(p *pack.CounterPack1, v int64) { p.ThreadPoolQueueSize = int32(v) })
	I("containerKey", 4, func(p *pack.CounterPack1, v int64) { p.ContainerKey = int32(v) })
	I("apdexSatisfied", 4, func(p *pack.CounterPack1, v int64) { p.ApdexSatisfied = int32(v) })
	I("apdexTolerated", 4, func(p *pack.CounterPack1, v int64) { p.ApdexTolerated = int32(v) })
	I("apdexTotal", 4, func(p *pack.CounterPack1, v int64) { p.ApdexTotal = int32(v) })
	I("procFdMax", 4, func(p *pack.CounterPack1, v int64) { p.ProcFdMax = int32(v) })
	F("metering", func(p *pack.CounterPack1, v float32) { p.Metering = v })
	I("resp90", 4, func(p *pack.CounterPack1, v int64) { p.Resp90 = int32(v) })
	I("resp95", 4, func(p *pack.CounterPack1, v int64) { p.Resp95 = int32(v) })
	I("timeSqrSum", 8, func(p *pack.CounterPack1, v int64) { p.TimeSqrSum = v })
	c.fields = append(c.fields, intField("version", int64(r.Intn(256)), func(p pack.Pack, v int64) { cp(p).Version = byte(v) }))

	// database pool: two int→int maps; the wire order is the maps' own enumeration order (hash order),
	// which is read back through the public enumeration
	if r.Chance(50) {
		mkMap := func() *hmap.IntIntMap {
			m := hmap.NewIntIntMapDefault()
			for i, n := 0, r.Intn(5); i < n; i++ {
				m.Put(int32(genInt(r, 4)), int32(genInt(r, 4)))
			}
			return m
		}
		act, idle := mkMap(), mkMap()
		dump := func(m *hmap.IntIntMap) string {
			var ts []string
			en := m.Entries()
			for en.HasMoreElements() {
				e := en.NextElement().(*hmap.IntIntEntry)
				ts = append(ts, fmt.Sprintf("%d:%d", e.GetKey(), e.GetValue()))
			}
			if len(ts) == 0 {
				return "-"
			}
			return strings.Join(ts, "/")
		}
		za, zi := field{name: "dbActive"}, field{name: "dbIdle"}
		c.fields = append(c.fields,
			field{name: "dbActive", text: dump(act), apply: func(p pack.Pack) { cp(p).DbNumActive = act }, zero: &za},
			field{name: "dbIdle", text: dump(idle), apply: func(p pack.Pack) { cp(p).DbNumIdle = idle }, zero: &zi})
	} else if r.Chance(30) {
		// only one of the two maps set: the section is absent
		m := hmap.NewIntIntMapDefault()
		m.Put(1, 2)
		c.fields = append(c.fields, field{name: "dbActive", apply: func(p pack.Pack) { cp(p).DbNumActive = m }})
	}
	c.fields = append(c.fields, optField(r, "netstat", 50, func() (string, func(p *pack.CounterPack1)) {
		n := pack.NewNETSTAT()
		n.Est, n.FinW, n.CloW, n.TimW = int32(genInt(r, 4)), int32(genInt(r, 4)), int32(genInt(r, 4)), int32(genInt(r, 4))
		return fmt.Sprintf("%d:%d:%d:%d", n.Est, n.FinW, n.CloW, n.TimW), func(p *pack.CounterPack1) { p.Netstat = n }
	}))
	c.fields = append(c.fields, optField(r, "websocket", 50, func() (string, func(p *pack.CounterPack1)) {
		w := pack.NewWEBSOCKET()
		w.Count, w.In, w.Out = int32(genInt(r, 4)), genInt(r, 8), genInt(r, 8)
		return fmt.Sprintf("%d:%d:%d", w.Count, w.In, w.Out), func(p *pack.CounterPack1) { p.Websocket = w }
	}))
	c.fields = append(c.fields, optField(r, "extra", 50, func() (string, func(p *pack.CounterPack1)) {
		m := value.NewIntMapValue()
		var ts []string
		seen := map[int32]bool{}
		for i, n := 0, r.Intn(5); i < n; i++ {
			k := int32(genInt(r, 4))
			if seen[k] {
				continue
			}
			seen[k] = true
			v, t := genValue(r, 1)
			m.Put(k, v)
			ts = append(ts, itoa(int64(k))+"="+t)
		}
		return "IM(" + strings.Join(ts, ";") + ")", func(p *pack.CounterPack1) { p.Extra = m }
	}))
	intKeyMeter := func(name string, sql bool, set func(p *pack.CounterPack1, m *hmap.IntKeyLinkedMap)) {
		c.fields = append(c.fields, optField(r, name, 60, func() (string, func(p *pack.CounterPack1)) {
			m := hmap.NewIntKeyLinkedMapDefault()
			var ts []string
			seen := map[int32]bool{}
			for i, n := 0, meterCount(r); i < n; i++ {
				k := int32(genInt(r, 4))
				if seen[k] {
					continue
				}
				seen[k] = true
				tm := genTxMeter(r)
				if sql {
					sm := pack.NewSqlMeter()
					sm.TxMeter = *tm
					sm.FetchCount, sm.FetchTime = genInt(r, 8), genInt(r, 8)
					m.Put(k, sm)
					ts = append(ts, fmt.Sprintf("%d:%d:%d:%d:%d:%d:%d", k, tm.Time, tm.Count, tm.Error, tm.Actx, sm.FetchCount, sm.FetchTime))
				} else if name == "httpcMeter" {
					hm := pack.NewHttpcMeter()
					hm.TxMeter = *tm
					m.Put(k, hm)
					ts = append(ts, fmt.Sprintf("%d:%d:%d:%d:%d", k, tm.Time, tm.Count, tm.Error, tm.Actx))
				} else {
					m.Put(k, tm)
					ts = append(ts, fmt.Sprintf("%d:%d:%d:%d:%d", k, tm.Time, tm.Count, tm.Error, tm.Actx))
				}
			}
			t := "-"
			if len(ts) > 0 {
				t = strings.Join(ts, "/")
			}
			return t, func(p *pack.CounterPack1) { set(p, m) }
		}))
	}
	intKeyMeter("oidMeter", false, func(p *pack.CounterPack1, m *hmap.IntKeyLinkedMap) { p.TxcallerOidMeter = m })
	intKeyMeter("sqlMeter", true, func(p *pack.CounterPack1, m *hmap.IntKeyLinkedMap) { p.SqlMeter = m })
	intKeyMeter("httpcMeter", false, func(p *pack.CounterPack1, m *hmap.IntKeyLinkedMap) { p.HttpcMeter = m })
	c.fields = append(c.fields, optField(r, "groupMeter", 60, func() (string, func(p *pack.CounterPack1)) {
		m := hmap.NewLinkedMapDefault()
		var ts []string
		seen := map[string]bool{}
		for i, n := 0, meterCount(r); i < n; i++ {
			k := lang.NewPKIND(genInt(r, 8), int32(genInt(r, 4)))
			id := fmt.Sprint(k.PCode, k.OKind)
			if seen[id] {
				continue
			}
			seen[id] = true
			tm := genTxMeter(r)
			m.Put(k, tm)
			ts = append(ts, fmt.Sprintf("%d:%d:%d:%d:%d:%d", k.PCode, k.OKind, tm.Time, tm.Count, tm.Error, tm.Actx))
		}
		t := "-"
		if len(ts) > 0 {
			t = strings.Join(ts, "/")
		}
		return t, func(p *pack.CounterPack1) { p.TxcallerGroupMeter = m }
	}))
	c.fields = append(c.fields, optField(r, "unknown", 50, func() (string, func(p *pack.CounterPack1)) {
		tm := genTxMeter(r)
		return fmt.Sprintf("%d:%d:%d:%d", tm.Time, tm.Count, tm.Error, tm.Actx), func(p *pack.CounterPack1) { p.TxcallerUnknown = tm }
	}))
	poid := optField(r, "poidMeter", poidPct, func() (string, func(p *pack.CounterPack1)) {
		m := hmap.NewLinkedMapDefault()
		var ts []string
		seen := map[string]bool{}
		n := 1 + r.Intn(4)
		for i := 0; i < n; i++ {
			k := lang.NewPOID(genInt(r, 8), int32(genInt(r, 4)))
			id := fmt.Sprint(k.PCode, k.Oid)
			if seen[id] {
				continue
			}
			seen[id] = true
			tm := genTxMeter(r)
			na := r.PickInt([]int{0, 0, 1, 3, 3, 5})
			as := make([]string, na)
			if na > 0 || r.Bool() {
				tm.Acts = make([]int16, na)
			}
			for j := range as {
				tm.Acts[j] = int16(genInt(r, 2))
				as[j] = itoa(int64(tm.Acts[j]))
			}
			at := "-"
			if na > 0 {
				at = strings.Join(as, ".")
			}
			m.Put(k, tm)
			ts = append(ts, fmt.Sprintf("%d:%d:%d:%d:%d:%s:%d", k.PCode, k.Oid, tm.Time, tm.Count, tm.Error, at, tm.Actx))
		}
		return strings.Join(ts, "/"), func(p *pack.CounterPack1) { p.TxcallerPOidMeter = m }
	})
	c.fields = append(c.fields, poid)
	if poid.text == "" && r.Chance(10) {
		// a non-nil but empty (project, object) meter: count 0 on the wire, same as absent
		c.fields = append(c.fields, field{name: "poidMeterEmpty", apply: func(p pack.Pack) { cp(p).TxcallerPOidMeter = hmap.NewLinkedMapDefault() }})
	}
	return c
}

var poidPct = 35

func genCase(r *vh.Rng, typ int, thorough bool) *tcase {
	var c *tcase
	switch typ {
	case 0:
		c = genTagCount(r)
	case 1:
		c = genLogSink(r)
	case 2:
		c = genText(r)
	case 3:
		c = genParam(r)
	case 4:
		c = genEvent(r)
	case 5:
		c = genZip(r, thorough)
	case 6:
		c = genHitMap(r)
	default:
		c = genCounter(r)
	}
	c.lic = genLicense(r)
	return c
}

// witnessD27 is the concrete pack of theorem C05.finding_D27: a counter pack whose only non-zero content
// is one (project, object) meter entry {0,0,0,0,0,acts=[],actx=1}.
func witnessD27(r *vh.Rng) *tcase {
	c := genCounter(r)
	var fs []field
	for _, f := range c.fields {
		if f.name == "poidMeter" || f.name == "poidMeterEmpty" {
			continue
		}
		if f.zero != nil {
			f = *f.zero
		}
		fs = append(fs, f)
	}
	z := field{name: "poidMeter"}
	fs = append(fs, field{name: "poidMeter", text: "0:0:0:0:0:-:1", zero: &z, apply: func(p pack.Pack) {
		m := hmap.NewLinkedMapDefault()
		tm := pack.NewTxMeter()
		tm.Actx = 1
		m.Put(lang.NewPOID(0, 0), tm)
		cp(p).TxcallerPOidMeter = m
	}})
	c.fields = fs
	c.lic = "abcdefg"
	return c
}
