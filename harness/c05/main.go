// Correspondence harness for C05: the bytes the implementation puts on the wire against the
// independent reference encoder of the collector protocol (Lean, Golib.Wire.Reference; driver drv_c05).
//
// For this property the reference encoder IS the specification ("the whole body equals, field by
// field, what an independent reference encoder emits"), so a byte difference on a concrete pack is a
// failure of the property itself, reported with the pack as replay.  What is compared:
//
//	A  pack.ToBytesPack(p)                         = payload of the reference frame
//	   + the reference *decoder* run by the driver on the implementation's bytes recovers the fields
//	B  io.DataOutputX.WriteHeader / WriteOneWayHeader around the payload = reference frame
//	C  hash.Hash64Str(license)                     = reference hash64
//	C2 license field of the frame (license.go): raw license texts (surrounding / only white space, line ends,
//	   NUL, BOM, quotes, comment tail, case variants …) × routes (client option, exported field, per-send):
//	   frame[10..18] = reference hash64 of exactly the license bytes in effect, frame = reference frame
//	D  frames captured on a loopback socket from the public client API
//	   (oneway.GetOneWayTcpClient + Send, per-send license and client license) = reference frame
//	G  re-send after mutation (mutate.go, dump.go): one object sent repeatedly, mutated between sends through
//	   every public route; each send must be the model's encoding of the object's current public state
//	H  fault injection (fault.go): the peer resets the connection k bytes into a frame; every connection's
//	   stream must be whole frames (a truncated one only last on a dead connection), nothing twice
//	F  concurrent encoders (concurrent.go, child process): several goroutines encode their own packs of
//	   each type at the same time (ToBytesPack and makeData on one shared client); every result must equal
//	   that pack's single-threaded reference bytes; a crash / race-detector abort is an outcome
//	I  queued routes (queue.go): queue-mode clients (Send / SendFlush only enqueue; process() or SendAndClear
//	   build the frame later): packs of all types with boundary header values (time 0, oid 0, …); the frame
//	   received must be the reference encoding of the values handed to Send, the caller's object unchanged
//	E  histories on ONE long-lived client (history.go): sends with the default license, per-send
//	   overrides (empty, one character, multi-byte), license changes between sends through the exported
//	   field and through ApplyConfig, packs with different project codes; every frame must be the
//	   reference frame for the license/pcode in effect for that send
//
// On a difference the case is shrunk field by field (each field reset to its zero variant while the
// difference persists); the fields that remain name the failing part in the key.
package main

import (
	"bytes"
	"encoding/json"
	"fmt"
	"io"
	"net"
	"os"
	"sort"
	"strings"
	"time"

	wio "github.com/whatap/golib/io"
	"github.com/whatap/golib/lang/pack"
	wnet "github.com/whatap/golib/net"
	"github.com/whatap/golib/net/oneway"
	"github.com/whatap/golib/util/hash"
	"verif/harness/vh"
)

type result struct {
	goBytes []byte
	outcome vh.Outcome
	line    string
	frame   []byte // reference frame
	dec     string // reference decoder status
	bad     string // driver complaint (bad-op / badkey)
}

func goPayload(c *tcase) (p pack.Pack, line string, b []byte, o vh.Outcome) {
	o = vh.Guard(func() {
		p, line = c.build()
		b = append([]byte{}, pack.ToBytesPack(p)...)
	})
	return
}

// evalCases runs implementation and driver on the cases.
func evalCases(env *vh.Env, cases []*tcase) []result {
	res := make([]result, len(cases))
	lines := make([]string, len(cases))
	for i, c := range cases {
		_, line, b, o := goPayload(c)
		res[i].goBytes, res[i].outcome, res[i].line = b, o, line
		if o.OK() {
			lines[i] = line + " go=" + vh.Hex(b)
		} else {
			lines[i] = "hash -"
		}
	}
	outs, err := vh.RunDriver(env.Driver, lines)
	if err != nil {
		vh.Die("%v", err)
	}
	for i, o := range outs {
		parts := strings.Split(o, " ")
		if len(parts) != 2 || !res[i].outcome.OK() {
			res[i].bad = o
			continue
		}
		res[i].frame = vh.UnHex(parts[0])
		res[i].dec = parts[1]
	}
	return res
}

func payloadOf(frame []byte) []byte {
	if len(frame) < 22 {
		return nil
	}
	return frame[22:]
}

func differs(r result) bool {
	return !r.outcome.OK() || r.bad != "" || !bytes.Equal(payloadOf(r.frame), r.goBytes) || r.dec != "ok"
}

// shrink resets fields to their zero variants while the case keeps failing.
func shrink(env *vh.Env, c *tcase) *tcase {
	cur := *c
	cur.fields = append([]field{}, c.fields...)
	for pass := 0; pass < 2; pass++ {
		for i := range cur.fields {
			if cur.fields[i].zero == nil {
				continue
			}
			try := cur
			try.fields = append([]field{}, cur.fields...)
			try.fields[i] = *cur.fields[i].zero
			r := evalCases(env, []*tcase{&try})[0]
			if differs(r) {
				cur = try
			}
		}
	}
	return &cur
}

func firstDiff(a, b []byte) int {
	n := len(a)
	if len(b) < n {
		n = len(b)
	}
	for i := 0; i < n; i++ {
		if a[i] != b[i] {
			return i
		}
	}
	if len(a) != len(b) {
		return n
	}
	return -1
}

type replayCase struct {
	Line      string   `json:"driver_line"`
	Fields    []string `json:"fields_that_matter"`
	Go        string   `json:"implementation_payload_hex"`
	Reference string   `json:"reference_payload_hex"`
	FirstDiff int      `json:"first_differing_offset"`
	Decoder   string   `json:"reference_decoder_on_implementation_bytes"`
	Outcome   string   `json:"implementation_outcome"`
	Seed      uint64   `json:"seed"`
	Index     int      `json:"case_index"`
}

func report(env *vh.Env, rep *vh.Report, c *tcase, idx int) {
	m := shrink(env, c)
	r := evalCases(env, []*tcase{m})[0]
	names := m.nonZero()
	sort.Strings(names)
	if len(names) > 3 {
		names = names[:3]
	}
	ref := payloadOf(r.frame)
	rc := replayCase{Line: r.line, Fields: names, Go: vh.Clip(vh.Hex(r.goBytes), 4000), Reference: vh.Clip(vh.Hex(ref), 4000),
		FirstDiff: firstDiff(ref, r.goBytes), Decoder: r.dec, Outcome: r.outcome.String(), Seed: env.Seed, Index: idx}
	switch {
	case !r.outcome.OK():
		rep.Fail("property", c.goName+".Write:panic["+strings.Join(names, ",")+"]",
			"serialising the pack panics: "+vh.Clip(r.outcome.Panic, 200), rc)
	case r.bad != "":
		rep.Fail("correspondence", c.goName+":driver-rejects-line", "driver answered "+r.bad, rc)
	case !bytes.Equal(ref, r.goBytes):
		key := c.goName + ":payload-differs[" + strings.Join(names, ",") + "]"
		what := fmt.Sprintf("%s: bytes of ToBytesPack differ from the reference encoder at offset %d (fields that matter: %v)", c.goName, rc.FirstDiff, names)
		if c.typ == "counter" && len(names) == 1 && names[0] == "poidMeter" && len(r.goBytes) < len(ref) {
			key = "CounterPack1.TxcallerPOidMeter:acts-not-written"
			what = "CounterPack1: the (project, object) caller meter is written without the active-slice array between Error and Actx that the protocol (and the Go reader) has there; the reference decoder cannot decode the pack"
		}
		rep.Fail("property", key, what, rc)
	default:
		rep.Fail("correspondence", c.goName+":reference-decoder["+r.dec+"]",
			"bytes equal the reference but the reference decoder does not return the fields ("+r.dec+")", rc)
	}
}

// ---------------------------------------------------------------- loopback capture (public API only)

type capture struct {
	ln   net.Listener
	conn net.Conn
}

func newCapture() *capture {
	ln, err := net.Listen("tcp", "127.0.0.1:0")
	if err != nil {
		vh.Die("listen: %v", err)
	}
	return &capture{ln: ln}
}

func (c *capture) accept() error {
	type res struct {
		c   net.Conn
		err error
	}
	ch := make(chan res, 1)
	go func() { cn, err := c.ln.Accept(); ch <- res{cn, err} }()
	select {
	case r := <-ch:
		c.conn = r.c
		return r.err
	case <-time.After(60 * time.Second):
		return fmt.Errorf("no connection from the client within 60 s")
	}
}

// read exactly n bytes (the length of the reference frame); the deadline only bounds a hang (a frame that is
// shorter than expected): it is far above anything load can cause
func (c *capture) read(n int) ([]byte, []byte) {
	buf := make([]byte, n)
	c.conn.SetReadDeadline(time.Now().Add(60 * time.Second))
	k, _ := io.ReadFull(c.conn, buf)
	buf = buf[:k]
	var extra []byte
	if k < n {
		return buf, nil
	}
	return buf, extra
}

func (c *capture) drain() []byte {
	c.conn.SetReadDeadline(time.Now().Add(30 * time.Millisecond))
	b, _ := io.ReadAll(c.conn)
	return b
}

func socketPhase(env *vh.Env, rep *vh.Report, cases []*tcase, res []result, clientLicense string, perSend bool, tag string) {
	capt := newCapture()
	defer capt.ln.Close()
	var client *oneway.OneWayTcpClient
	o := vh.GuardTimeout(120*time.Second, func() {
		client = oneway.GetOneWayTcpClient(oneway.WithServers([]string{capt.ln.Addr().String()}),
			oneway.WithLicense(clientLicense), oneway.WithPcode(12345), oneway.WithOid(7))
	})
	if !o.OK() || client == nil {
		rep.Fail("property", "OneWayTcpClient:connect-"+o.String(), "public client could not be created/connected to a loopback listener", map[string]string{"phase": tag})
		return
	}
	defer func() {
		vh.Guard(func() { client.Close(); client.Destroy() })
		if capt.conn != nil {
			capt.conn.Close()
		}
	}()
	if err := capt.accept(); err != nil {
		rep.Fail("property", "OneWayTcpClient:connect-timeout", err.Error(), map[string]string{"phase": tag})
		return
	}
	for i, c := range cases {
		if differs(res[i]) {
			continue // payload already reported in phase A
		}
		want := res[i].frame
		if !perSend {
			// the frame's license is the client's: ask the driver for that frame
			cc := *c
			cc.lic = clientLicense
			want = evalCases(env, []*tcase{&cc})[0].frame
		}
		p, _ := c.build()
		var err error
		o := vh.GuardTimeout(120*time.Second, func() {
			if perSend {
				err = client.Send(p, wnet.WithLicense(c.lic))
			} else {
				err = client.Send(p)
			}
		})
		if !o.OK() || err != nil {
			rep.Fail("property", "OneWayTcpClient.Send:"+o.String(), fmt.Sprintf("Send failed: %v %v", o.Panic, err), map[string]interface{}{"phase": tag, "line": res[i].line})
			return
		}
		got, _ := capt.read(len(want))
		rep.Count("socket-frames-" + tag)
		if !bytes.Equal(got, want) {
			extra := capt.drain()
			part := "payload"
			d := firstDiff(want, got)
			switch {
			case d < 2:
				part = "source/version bytes"
			case d < 10:
				part = "project code"
			case d < 18:
				part = "license hash"
			case d < 22:
				part = "length field"
			}
			rep.Fail("property", "OneWayTcpClient.frame:"+strings.ReplaceAll(part, " ", "-")+"("+tag+")",
				fmt.Sprintf("frame received by a TCP peer differs from the reference frame at offset %d (%s)", d, part),
				map[string]interface{}{"phase": tag, "line": res[i].line, "license_hex": vh.Hex([]byte(c.lic)), "client_license_hex": vh.Hex([]byte(clientLicense)),
					"received_hex": vh.Clip(vh.Hex(append(got, extra...)), 4000), "reference_frame_hex": vh.Clip(vh.Hex(want), 4000), "first_differing_offset": d})
			return
		}
	}
	// nothing else may be on the wire
	if extra := capt.drain(); len(extra) > 0 {
		rep.Fail("property", "OneWayTcpClient.frame:trailing-bytes("+tag+")", "bytes after the last frame", map[string]string{"extra_hex": vh.Clip(vh.Hex(extra), 400)})
	}
}

// ---------------------------------------------------------------- main

func main() {
	env, rep := vh.Parse("C05")
	if os.Getenv("C05_STAGE") == "concurrent" {
		concurrentChild(env) // child process of the concurrent-encoders stage
		return
	}
	rng := vh.NewRng(env.Seed)
	rep.Rule = "a case = one pack of the eight listed types with random header/fields/license, generated field-wise (boundary-biased integers, " +
		"empty/ASCII/multi-byte/long strings, maps of tagged values to depth 2, optional sections present or absent, both header forms); " +
		"non-trivial = at least one field besides the header differs from its zero value; distinct by driver line; " +
		"plus histories of sends on one long-lived client (default license, per-send overrides incl. empty/1-char/multi-byte, " +
		"license changes by field and by ApplyConfig between sends): non-trivial = more than 3 operations, distinct by operation list"

	if env.Replay != "" {
		replay(env, rep)
		rep.Write(env.Out)
		return
	}

	perType := 150
	nSock := 400
	if env.Thorough {
		perType = 6000
		nSock = 8000
	}
	if os.Getenv("C05_POID_PCT") != "" {
		fmt.Sscan(os.Getenv("C05_POID_PCT"), &poidPct)
	}
	typeNames := []string{"tagcount", "logsink", "text", "param", "event", "zip", "hitmap", "counter"}
	var cases []*tcase
	cases = append(cases, witnessD27(rng)) // the witness of theorem C05.finding_D27, every run
	for i := 0; i < perType; i++ {
		for t := range typeNames {
			cases = append(cases, genCase(rng, t, env.Thorough))
		}
	}

	// ---- C: the license hash
	{
		var lics []string
		for i := 0; i < 300; i++ {
			lics = append(lics, genLicense(rng))
		}
		lines := make([]string, len(lics))
		for i, l := range lics {
			lines[i] = "hash " + vh.Hex([]byte(l))
		}
		outs, err := vh.RunDriver(env.Driver, lines)
		if err != nil {
			vh.Die("%v", err)
		}
		for i, l := range lics {
			got := fmt.Sprint(hash.Hash64Str(l))
			rep.Case("hash "+lines[i], l != "")
			rep.Count("hash")
			if got != outs[i] {
				rep.Fail("property", "hash.Hash64Str:value", fmt.Sprintf("Hash64Str(%q) = %s, reference hash64 = %s", l, got, outs[i]),
					map[string]string{"license_hex": vh.Hex([]byte(l)), "implementation": got, "reference": outs[i]})
			}
		}
	}

	// ---- C2: the license field of the frame for license texts as they come out of files (license.go)
	licensePhase(env, rep, vh.NewRng(env.Seed*0x3C6EF372+0x11CE))

	// ---- A: payload bytes and reference decoder
	res := evalCases(env, cases)
	reported := map[string]int{}
	for i, c := range cases {
		r := res[i]
		nz := c.nonZero()
		nontrivial := false
		for _, n := range nz {
			if n != "pcode" && n != "oid" && n != "okind" && n != "onode" && n != "time" {
				nontrivial = true
			}
		}
		rep.Case(r.line, nontrivial)
		rep.Count("type:" + c.typ)
		hdr := "hdr:short"
		for _, f := range c.fields {
			if (f.name == "okind" || f.name == "onode") && f.zero != nil {
				hdr = "hdr:extended"
			}
			if c.typ == "counter" && f.text != "" && f.zero != nil {
				switch f.name {
				case "dbActive", "netstat", "websocket", "extra", "oidMeter", "sqlMeter", "httpcMeter", "groupMeter", "unknown", "poidMeter":
					rep.Count("counter-section:" + f.name)
				}
			}
		}
		rep.Count(hdr)
		switch {
		case len(r.goBytes) <= 64:
			rep.Count("payload<=64B")
		case len(r.goBytes) <= 1024:
			rep.Count("payload<=1KiB")
		default:
			rep.Count("payload>1KiB")
		}
		if i < 6 {
			rep.Sample(map[string]string{"line": vh.Clip(r.line, 600), "payload_hex": vh.Clip(vh.Hex(r.goBytes), 300)})
		}
		if differs(r) {
			rep.Count("differs:" + c.typ)
			if reported[c.typ] < 3 {
				reported[c.typ]++
				report(env, rep, c, i)
			}
		}
	}

	// ---- B: DataOutputX.WriteHeader / WriteOneWayHeader around the implementation's payload
	for i, c := range cases {
		r := res[i]
		if differs(r) || len(r.frame) < 22 {
			continue
		}
		pcode := int64(0)
		for _, f := range c.fields {
			if f.name == "pcode" {
				fmt.Sscan(f.text, &pcode)
			}
		}
		for k, name := range []string{"WriteHeader", "WriteOneWayHeader"} {
			var got []byte
			o := vh.Guard(func() {
				out := wio.NewDataOutputX()
				out.WriteBytes(r.goBytes)
				if k == 0 {
					out.WriteHeader(r.frame[0], r.frame[1], pcode, hash.Hash64Str(c.lic))
				} else {
					out.WriteOneWayHeader(r.frame[0], r.frame[1], pcode, hash.Hash64Str(c.lic))
				}
				got = append([]byte{}, out.ToByteArray()...)
			})
			rep.Count("header:" + name)
			if !o.OK() || !bytes.Equal(got, r.frame) {
				rep.Fail("property", "DataOutputX."+name+":frame-differs", fmt.Sprintf("%s(10,0,pcode,hash) around the payload differs from the reference frame at offset %d", name, firstDiff(r.frame, got)),
					map[string]interface{}{"line": r.line, "license_hex": vh.Hex([]byte(c.lic)), "got_hex": vh.Clip(vh.Hex(got), 2000), "reference_frame_hex": vh.Clip(vh.Hex(r.frame), 2000)})
				break
			}
		}
	}

	// ---- B2: the other frame variants of the public API: WriteSecureHeader, ToBytesPackECB
	{
		vr := vh.NewRng(env.Seed*0x1F123BB5 + 0xECB)
		nv := 200
		if env.Thorough {
			nv = 4000
		}
		if nv > len(cases) {
			nv = len(cases)
		}
		var lines []string
		var gots [][]byte
		var names []string
		for i := 0; i < nv; i++ {
			r := res[i]
			if differs(r) {
				continue
			}
			src, ver := byte(vr.Intn(256)), byte(vr.Intn(256))
			pc, oid, key := genInt(vr, 8), int32(genInt(vr, 4)), int32(genInt(vr, 4))
			var got []byte
			o := vh.Guard(func() {
				out := wio.NewDataOutputX()
				out.WriteBytes(r.goBytes)
				out.WriteSecureHeader(src, ver, pc, oid, key)
				got = append([]byte{}, out.ToByteArray()...)
			})
			if !o.OK() {
				got = nil
			}
			lines = append(lines, fmt.Sprintf("secure %d %d %d %d %d %s", src, ver, pc, oid, key, vh.Hex(r.goBytes)))
			gots = append(gots, got)
			names = append(names, "DataOutputX.WriteSecureHeader")
			n := vr.PickInt([]int{1, 8, 16, 16, 32, 7, 1 + vr.Intn(40)})
			var ecb []byte
			o = vh.Guard(func() {
				p, _ := cases[i].build()
				ecb = append([]byte{}, pack.ToBytesPackECB(p, n)...)
			})
			if !o.OK() {
				ecb = nil
			}
			lines = append(lines, fmt.Sprintf("ecb %d %s", n, vh.Hex(r.goBytes)))
			gots = append(gots, ecb)
			names = append(names, "pack.ToBytesPackECB")
		}
		outs, err := vh.RunDriver(env.Driver, lines)
		if err != nil {
			vh.Die("%v", err)
		}
		for i := range lines {
			want := vh.UnHex(outs[i])
			rep.Count("variant:" + names[i])
			rep.Case(vh.Clip(lines[i], 120), true)
			if !bytes.Equal(gots[i], want) {
				rep.Fail("property", names[i]+":differs", fmt.Sprintf("%s differs from the reference at offset %d", names[i], firstDiff(want, gots[i])),
					map[string]interface{}{"driver_line": vh.Clip(lines[i], 3000), "got_hex": vh.Clip(vh.Hex(gots[i]), 3000), "reference_hex": vh.Clip(vh.Hex(want), 3000)})
			}
		}
	}

	// ---- D: real frames on a loopback socket, through the public API
	if nSock > len(cases) {
		nSock = len(cases)
	}
	// per-send license (the client's own license is empty, so an empty per-send license also yields the empty text)
	socketPhase(env, rep, cases[:nSock], res[:nSock], "", true, "per-send-license")
	// the client's license
	k := nSock / 4
	socketPhase(env, rep, cases[:k], res[:k], genLicense(rng)+"#", false, "client-license")

	// ---- E: histories of sends on one long-lived client (license changes between sends, per-send overrides)
	tPh := time.Now()
	lap := func(name string) { rep.Note("phase %s: %.1f s", name, time.Since(tPh).Seconds()); tPh = time.Now() }
	historyPhase(env, rep, vh.NewRng(env.Seed*0x9E3779B9+0xC05))
	lap("E histories")

	// ---- G: the same object re-sent after mutations through every public route
	mutationPhase(env, rep, vh.NewRng(env.Seed*0x2545F491+0x6D75))
	lap("G re-send after mutation")

	// ---- I: queue mode — Send only enqueues, the frame is built later by process() / SendAndClear
	queuePhase(env, rep, vh.NewRng(env.Seed*0x51ED270B+0x0C0E))
	lap("I queued routes")

	// ---- H: the peer resets the connection in the middle of a frame; the client reconnects
	faultPhase(env, rep, vh.NewRng(env.Seed*0x7F4A7C15+0xFA17))
	lap("H fault injection")

	// ---- F: concurrent encoders (child process): every pack type + makeData from several goroutines at once
	concurrentPhase(env, rep)
	lap("F concurrent encoders")

	rep.Note("phase A: %d packs (%d per type); phase D: %d + %d frames captured on loopback", len(cases), perType, nSock, k)
	rep.Write(env.Out)
}

// replay re-runs the driver lines of a replay file against the implementation is not possible from the
// text alone (the Go pack is built by closures); instead the generator is re-run with the recorded seed
// and the recorded case indices are re-evaluated.
func replay(env *vh.Env, rep *vh.Report) {
	raw, err := os.ReadFile(env.Replay)
	if err != nil {
		vh.Die("replay: %v", err)
	}
	var rf struct {
		Key   string `json:"key"`
		Seed  uint64 `json:"seed"`
		Tier  string `json:"tier"`
		Cases []struct {
			Index int    `json:"case_index"`
			Line  string `json:"driver_line"`
		} `json:"cases"`
	}
	if err := json.Unmarshal(raw, &rf); err != nil {
		vh.Die("replay: %v", err)
	}
	if strings.HasPrefix(rf.Key, "OneWayTcpClient.fault") {
		env.Seed, env.Thorough = rf.Seed, rf.Tier == "thorough"
		rep.Rule = "replay of the fault-injection stage of the recorded seed"
		faultPhase(env, rep, vh.NewRng(rf.Seed*0x7F4A7C15+0xFA17))
		return
	}
	if strings.Contains(rf.Key, "OneWayTcpClient.queued") || strings.Contains(rf.Key, "(queued)") {
		env.Seed, env.Thorough = rf.Seed, rf.Tier == "thorough"
		rep.Rule = "replay of the queued-routes stage of the recorded seed"
		queuePhase(env, rep, vh.NewRng(rf.Seed*0x51ED270B+0x0C0E))
		return
	}
	if strings.Contains(rf.Key, "resend-after-mutation") {
		env.Seed, env.Thorough = rf.Seed, rf.Tier == "thorough"
		rep.Rule = "replay of the re-send-after-mutation stage of the recorded seed"
		mutationPhase(env, rep, vh.NewRng(rf.Seed*0x2545F491+0x6D75))
		return
	}
	if strings.Contains(rf.Key, "under-concurrent-writers") {
		env.Seed, env.Thorough = rf.Seed, rf.Tier == "thorough"
		if env.Thorough {
			env.Tier = "thorough"
		}
		rep.Rule = "replay of the concurrent-encoders stage of the recorded seed"
		concurrentPhase(env, rep)
		return
	}
	if strings.HasPrefix(rf.Key, "OneWayTcpClient.history") {
		// histories are generated from their own stream of the seed: re-run them all
		env.Seed, env.Thorough = rf.Seed, rf.Tier == "thorough"
		rep.Rule = "replay of the send histories of the recorded seed"
		historyPhase(env, rep, vh.NewRng(rf.Seed*0x9E3779B9+0xC05))
		return
	}
	rng := vh.NewRng(rf.Seed)
	perType := 150
	if rf.Tier == "thorough" {
		perType = 6000
	}
	var cases []*tcase
	cases = append(cases, witnessD27(rng))
	for i := 0; i < perType; i++ {
		for t := 0; t < 8; t++ {
			cases = append(cases, genCase(rng, t, rf.Tier == "thorough"))
		}
	}
	rep.Rule = "replay of recorded case indices (generator re-run with the recorded seed)"
	for _, rc := range rf.Cases {
		if rc.Index < 0 || rc.Index >= len(cases) {
			continue
		}
		c := cases[rc.Index]
		r := evalCases(env, []*tcase{c})[0]
		rep.Case(r.line, true)
		rep.Sample(map[string]string{"line": vh.Clip(r.line, 600)})
		if differs(r) {
			report(env, rep, c, rc.Index)
		}
	}
}
