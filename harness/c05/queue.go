package main

// Queued routes (stage I): a client in queue mode (WithUseQueue) does not build the frame inside Send —
// Send / SendFlush only put the pack on the client's queue, the frame is built later by the background
// goroutine (process) or by SendAndClear.  The property quantifies over all header and field values whatever
// the route: the frame that reaches the peer must be the reference encoding of the values the caller handed to
// Send, and Send must leave the caller's object alone.
//
// What is generated: live objects of all eight pack types whose common-header fields sit on boundary values
// (0 in particular: time 0, oid 0, project code 0, kind/node 0, and ±1, min, max) — a route that "completes" or
// "normalises" a pack does so on exactly such values —, re-used over several rounds with public mutations in
// between.  Per round every object is dumped (public state = what is handed to Send), enqueued through Send /
// SendFlush(p,true) / SendFlush(p,false) with or without a per-send license, then the frames are read off a
// loopback socket (frame by frame, by the length field) and compared with the reference frames of the dumped
// states; afterwards every object is dumped again (a send may change only what the model lets it change).
//
// Routes: the public singleton (GetOneWayTcpClient + WithUseQueue, its own process goroutine), a hook client
// whose process goroutine is started before / after the packs are queued, and SendAndClear on a hook client.
//
// Synchronisation is logical: the frames are awaited on the socket (deadlines only bound a hang); the objects are
// looked at again only after the goroutine that encoded them has handed over (queue mutex / channel), the last
// queued item of a round is a sentinel object that is never looked at again.

import (
	"bytes"
	"encoding/binary"
	"fmt"
	"io"
	"net"
	"strings"
	"time"

	wnet "github.com/whatap/golib/net"
	"github.com/whatap/golib/net/oneway"
	"verif/harness/vh"
)

// readFrame reads one frame by its length field: 22 header bytes, then as many bytes as the header declares.
func readFrame(conn net.Conn) ([]byte, error) {
	conn.SetReadDeadline(time.Now().Add(90 * time.Second)) // bounds a hang only
	hdr := make([]byte, 22)
	if k, err := io.ReadFull(conn, hdr); err != nil {
		return hdr[:k], fmt.Errorf("reading a frame header: %v", err)
	}
	n := int(binary.BigEndian.Uint32(hdr[18:22]))
	if n < 0 || n > 64<<20 {
		return hdr, fmt.Errorf("the frame header declares %d payload bytes", n)
	}
	body := make([]byte, n)
	k, err := io.ReadFull(conn, body)
	if err != nil {
		return append(hdr, body[:k]...), fmt.Errorf("reading %d payload bytes: %v", n, err)
	}
	return append(hdr, body...), nil
}

var hdrBoundary8 = []int64{0, 0, 0, 1, -1, 255, 256, 1<<31 - 1, 1 << 31, -(1 << 31), 1<<63 - 1, -(1 << 63), 1700000000123}
var hdrBoundary4 = []int64{0, 0, 0, 1, -1, 127, 128, 1<<31 - 1, -(1 << 31)}

// boundaryHeader puts the common-header fields of o on boundary values; timeZero forces time 0.
func boundaryHeader(r *vh.Rng, o *liveObj, timeZero bool) (getterProblem string) {
	tm := r.Pick64(hdrBoundary8)
	if r.Chance(25) {
		tm = genInt(r, 8)
	}
	if timeZero {
		tm = 0
	}
	pc, oid := r.Pick64(hdrBoundary8), r.Pick64(hdrBoundary4)
	if r.Chance(30) {
		pc, oid = genInt(r, 8), genInt(r, 4)
	}
	var okind, onode int64
	switch r.Intn(5) {
	case 0:
		okind = r.Pick64(hdrBoundary4)
	case 1:
		onode = r.Pick64(hdrBoundary4)
	case 2:
		okind, onode = genInt(r, 4), genInt(r, 4)
	}
	o.p.SetPCODE(pc)
	o.p.SetOID(int32(oid))
	o.p.SetOKIND(int32(okind))
	o.p.SetONODE(int32(onode))
	o.p.SetTime(tm)
	o.log = append(o.log, fmt.Sprintf("SetPCODE(%d) SetOID(%d) SetOKIND(%d) SetONODE(%d) SetTime(%d)", pc, oid, okind, onode, tm))
	// the public getters of the common header (makeData reads the project code through GetPCODE)
	if g := o.p.GetTime(); g != tm {
		return fmt.Sprintf("GetTime() = %d after SetTime(%d)", g, tm)
	}
	if g := o.p.GetPCODE(); g != pc {
		return fmt.Sprintf("GetPCODE() = %d after SetPCODE(%d)", g, pc)
	}
	return ""
}

func queuePhase(env *vh.Env, rep *vh.Report, r *vh.Rng) {
	perType, roundsPerRoute := 2, 2
	if env.Thorough {
		perType, roundsPerRoute = 6, 5
	}
	const clientLic = "queue-client-license"
	routes := []string{"process(public)", "process(hook)", "SendAndClear(hook)"}
	apis := []string{"Send", "SendFlush(flush)", "SendFlush(no-flush)"}
	t0 := time.Now()
	nFrames := 0

	for ri, route := range routes {
		// fresh objects per route
		var objs []*liveObj
		for t := 0; t < 8; t++ {
			for i := 0; i < perType; i++ {
				var o *liveObj
				if oc := vh.Guard(func() { o = newLive(r, t) }); oc.OK() && o != nil {
					objs = append(objs, o)
				}
			}
		}
		capt := newCapture()
		var client *oneway.OneWayTcpClient
		var procDone <-chan struct{}
		addr := capt.ln.Addr().String()
		oc := vh.GuardTimeout(120*time.Second, func() {
			switch route {
			case "process(public)":
				client = oneway.GetOneWayTcpClient(oneway.WithServers([]string{addr}), oneway.WithLicense(clientLic), oneway.WithPcode(1), oneway.WithOid(1), oneway.WithUseQueue())
			default:
				client = oneway.NewForVerif(oneway.WithServers([]string{addr}), oneway.WithLicense(clientLic), oneway.WithPcode(1), oneway.WithOid(1), oneway.WithUseQueue())
			}
		})
		if !oc.OK() || client == nil {
			rep.Fail("property", "OneWayTcpClient.queued:"+route+":constructor-"+oc.String(), "a queue-mode client could not be created: "+vh.Clip(oc.Panic, 200), map[string]string{"route": route})
			capt.ln.Close()
			continue
		}
		if !client.UseQueue {
			rep.Fail("property", "OneWayTcpClient.queued:"+route+":WithUseQueue-ignored", "WithUseQueue() did not put the client into queue mode", map[string]string{"route": route})
		}
		connected := false
		abort := false

		for round := 0; round < roundsPerRoute && !abort; round++ {
			// ---- mutate, put the header on boundary values, dump = what is handed to Send
			n := len(objs)
			lines := make([]string, n+1)
			api := make([]string, n+1)
			perSend := make([]bool, n+1)
			for i, o := range objs {
				if round > 0 || o.typ == "text" {
					own := mutatorsOf(o)
					for k, m := 0, 1+r.Intn(2); k < m && len(own) > 0; k++ {
						mu := own[r.Intn(len(own))]
						g := vh.Guard(func() { mu.f(r, o) })
						o.log = append(o.log, mu.name)
						if !g.OK() {
							rep.Fail("property", o.goName+":"+mu.name+":panic", "a public mutator panicked: "+vh.Clip(g.Panic, 200), map[string]interface{}{"history": o.log})
						}
					}
				}
				gp := ""
				vh.Guard(func() { gp = boundaryHeader(r, o, (i+round+ri)%3 == 0) })
				rep.Count("header-getters-compared-with-setters")
				if gp != "" {
					rep.Fail("property", "AbstractPack:getter-disagrees-with-setter", o.goName+": "+gp, map[string]interface{}{"what_was_done_to_the_object": o.log, "seed": env.Seed})
				}
				perSend[i] = (i+round)%2 == 0
				api[i] = apis[(i+round+ri)%3]
			}
			// the sentinel: a fresh object, queued last, never looked at again after it was queued
			var sentinel *liveObj
			vh.Guard(func() { sentinel = newLive(r, 5); _ = boundaryHeader(r, sentinel, round%2 == 0) })
			if sentinel == nil {
				vh.Die("queue stage: cannot build the sentinel pack")
			}
			all := append(append([]*liveObj{}, objs...), sentinel)
			perSend[n], api[n] = round%2 == 1, "SendFlush(flush)"
			for i, o := range all {
				lic := clientLic
				if perSend[i] {
					lic = o.lic
				}
				g := vh.Guard(func() { lines[i] = dumpPack(o) + " lic=" + vh.Hex([]byte(lic)) })
				if !g.OK() {
					lines[i] = "hash -"
				}
			}
			outs, err := vh.RunDriver(env.Driver, lines)
			if err != nil {
				vh.Die("%v", err)
			}
			want := make([][]byte, len(all))
			for i := range all {
				parts := strings.Split(outs[i], " ")
				if len(parts) != 2 {
					rep.Fail("correspondence", all[i].goName+":queued:driver-rejects-line", "driver answered "+vh.Clip(outs[i], 100), map[string]interface{}{"line": vh.Clip(lines[i], 2000)})
					abort = true
					break
				}
				want[i] = vh.UnHex(parts[0])
			}
			if abort {
				break
			}

			// ---- enqueue through the public API
			enqueue := func() bool {
				for i, o := range all {
					var err error
					g := vh.GuardTimeout(120*time.Second, func() {
						var opts []wnet.TcpClientOption
						if perSend[i] {
							opts = append(opts, wnet.WithLicense(o.lic))
						}
						switch api[i] {
						case "Send":
							err = client.Send(o.p, opts...)
						case "SendFlush(flush)":
							err = client.SendFlush(o.p, true, opts...)
						default:
							err = client.SendFlush(o.p, false, opts...)
						}
					})
					o.log = append(o.log, fmt.Sprintf("%s [queue mode, route %s, round %d]", api[i], route, round))
					if !g.OK() || err != nil {
						rep.Fail("property", "OneWayTcpClient.queued:"+route+":enqueue-"+g.String(), fmt.Sprintf("%s in queue mode failed: %v %v", api[i], vh.Clip(g.Panic, 200), err),
							map[string]interface{}{"route": route, "api": api[i], "line": vh.Clip(lines[i], 2000), "seed": env.Seed})
						return false
					}
				}
				return true
			}
			var sacDone chan vh.Outcome
			var sacErr error
			switch route {
			case "process(public)":
				if !enqueue() {
					abort = true
				}
			case "process(hook)":
				if round%2 == 0 {
					// queued before the goroutine exists (first round) / while it is idle (later rounds)
					if !enqueue() {
						abort = true
					}
					if procDone == nil {
						procDone = client.StartProcessForVerif()
					}
				} else {
					if procDone == nil {
						procDone = client.StartProcessForVerif()
					}
					if !enqueue() {
						abort = true
					}
				}
			default:
				if round == 0 {
					// the public Connect: the connection exists before anything is queued
					var cerr error
					g := vh.GuardTimeout(120*time.Second, func() { cerr = client.Connect() })
					rep.Count("queued:explicit-Connect")
					if !g.OK() || cerr != nil {
						rep.Fail("property", "OneWayTcpClient.queued:"+route+":Connect-"+g.String(), fmt.Sprintf("Connect to a loopback listener failed: %v %v", vh.Clip(g.Panic, 200), cerr), map[string]interface{}{"route": route, "seed": env.Seed})
						abort = true
						break
					}
				}
				if !enqueue() {
					abort = true
				}
				sacDone = make(chan vh.Outcome, 1)
				go func() { sacDone <- vh.Guard(func() { sacErr = client.SendAndClear() }) }()
			}
			if abort {
				break
			}
			if !connected {
				if err := capt.accept(); err != nil {
					rep.Fail("property", "OneWayTcpClient.queued:"+route+":connect-timeout", err.Error(), map[string]string{"route": route})
					abort = true
					break
				}
				connected = true
			}

			// ---- the frames, in queue order
			got := make([][]byte, len(all))
			for i := range all {
				f, err := readFrame(capt.conn)
				got[i] = f
				nFrames++
				if err != nil {
					rep.Fail("property", "OneWayTcpClient.queued:"+route+":frame-missing", fmt.Sprintf("queued pack #%d of the round did not arrive as a frame: %v", i, err),
						map[string]interface{}{"route": route, "api": api[i], "round": round, "public_state_handed_to_Send": vh.Clip(lines[i], 3000),
							"received_hex": vh.Clip(vh.Hex(f), 2000), "model_frame_hex": vh.Clip(vh.Hex(want[i]), 2000), "what_was_done_to_the_object": all[i].log, "seed": env.Seed})
					abort = true
					break
				}
			}
			if abort {
				break
			}
			// ---- hand-over: the encoding goroutine is done with every object but the sentinel
			if sacDone != nil {
				select {
				case o := <-sacDone:
					if !o.OK() || sacErr != nil {
						rep.Fail("property", "OneWayTcpClient.queued:"+route+":SendAndClear-"+o.String(), fmt.Sprintf("SendAndClear failed: %v %v", vh.Clip(o.Panic, 200), sacErr), map[string]interface{}{"route": route, "seed": env.Seed})
					} else {
						// SendAndClear flushed: the public Flush finds nothing buffered (and puts nothing on the wire: trailing-bytes check)
						nb, ferr := -1, error(nil)
						g := vh.GuardTimeout(120*time.Second, func() { nb, ferr = client.Flush() })
						rep.Count("queued:Flush-after-SendAndClear")
						if !g.OK() || ferr != nil || nb != 0 {
							rep.Fail("property", "OneWayTcpClient.queued:"+route+":Flush-after-SendAndClear", fmt.Sprintf("Flush() after SendAndClear returned (%d, %v) %s: every frame had arrived, nothing can be buffered", nb, ferr, g.String()),
								map[string]interface{}{"route": route, "round": round, "seed": env.Seed})
						}
					}
				case <-time.After(3 * time.Minute):
					rep.Fail("property", "OneWayTcpClient.queued:"+route+":SendAndClear-timeout", "SendAndClear did not return although every frame has arrived", map[string]interface{}{"route": route, "seed": env.Seed})
					abort = true
				}
			} else {
				deadline := time.Now().Add(60 * time.Second)
				for time.Now().Before(deadline) {
					sz := 1
					vh.Guard(func() { sz = client.Queue.Size() })
					if sz == 0 {
						break
					}
					time.Sleep(5 * time.Millisecond)
				}
			}
			if abort {
				break
			}

			// ---- compare; a frame that is not the encoding of the state handed to Send: is it the encoding of
			// the state the object has NOW (the route changed the object before encoding it)?
			after := make([]string, n)
			var askIdx []int
			var askLines []string
			for i, o := range objs {
				lic := clientLic
				if perSend[i] {
					lic = o.lic
				}
				vh.Guard(func() { after[i] = dumpPack(o) + " lic=" + vh.Hex([]byte(lic)) })
				if !bytes.Equal(got[i], want[i]) && after[i] != "" && after[i] != lines[i] {
					askIdx = append(askIdx, i)
					askLines = append(askLines, after[i])
				}
			}
			afterFrame := map[int][]byte{}
			if len(askLines) > 0 {
				if outs, err := vh.RunDriver(env.Driver, askLines); err == nil {
					for k, i := range askIdx {
						if parts := strings.Split(outs[k], " "); len(parts) == 2 {
							afterFrame[i] = vh.UnHex(parts[0])
						}
					}
				}
			}
			for i, o := range all {
				hz := ""
				for _, tok := range strings.Split(lines[i], " ")[1:6] {
					if strings.HasSuffix(tok, "=0") {
						hz += "," + strings.TrimSuffix(tok, "=0")
					}
				}
				rep.Case(fmt.Sprintf("queued %s %s round %d %s", route, api[i], round, vh.Clip(lines[i], 150)), true)
				rep.Count("queued-route:" + route)
				rep.Count("queued-api:" + api[i])
				rep.Count("queued-type:" + o.typ)
				if strings.Contains(hz, "time") {
					rep.Count("queued-header:time=0")
				}
				if hz != "" {
					rep.Count("queued-header:some-field-0")
				}
				if perSend[i] {
					rep.Count("queued-license:per-send")
				} else {
					rep.Count("queued-license:client")
				}
				fld, same := "", true
				if i < n && after[i] != "" {
					fld, same = sendStateDiff(o.typ, lines[i], after[i])
					rep.Count("queued:state-compared-before-after")
				}
				if !bytes.Equal(got[i], want[i]) {
					d := firstDiff(want[i], got[i])
					part := framePart(d)
					if d >= 22 && d < 24 {
						part = "pack-type"
					} else if d >= 24 {
						part = "pack-body"
					}
					key := "OneWayTcpClient.queued:" + route + ":frame-differs[" + part + "]"
					what := fmt.Sprintf("queue mode, route %s: the frame received for a %s handed to %s differs from the reference encoding of the values handed over, at offset %d (%s)", route, o.goName, api[i], d, part)
					if af, ok := afterFrame[i]; ok && bytes.Equal(af, got[i]) && !same {
						key = "OneWayTcpClient.queued:" + route + ":pack-modified-before-encoding[" + fld + "]"
						what = fmt.Sprintf("queue mode, route %s: %s changed field %s of the caller's %s before it was encoded: the frame on the wire is the encoding of the changed object, not of the values handed to %s (first difference at offset %d)",
							route, api[i], fld, o.goName, api[i], d)
					}
					rep.Fail("property", key, what, map[string]interface{}{"route": route, "api": api[i], "round": round, "per_send_license": perSend[i],
						"public_state_handed_to_Send": vh.Clip(lines[i], 3000), "public_state_after_the_frame_arrived": vh.Clip(strOr(after, i), 3000),
						"received_frame_hex": vh.Clip(vh.Hex(got[i]), 3000), "model_frame_of_the_state_handed_to_Send_hex": vh.Clip(vh.Hex(want[i]), 3000),
						"first_differing_offset": d, "what_was_done_to_the_object": o.log, "seed": env.Seed})
					continue
				}
				if !same {
					rep.Fail("property", o.goName+":send-changes-public-state["+fld+"](queued)",
						fmt.Sprintf("%s: %s in queue mode (route %s) changed the caller's object: field %s differs between the dump before the call and the dump after the frame arrived", o.goName, api[i], route, fld),
						map[string]interface{}{"route": route, "api": api[i], "round": round, "field": fld, "public_state_before": vh.Clip(lines[i], 3000),
							"public_state_after": vh.Clip(after[i], 3000), "what_was_done_to_the_object": o.log, "seed": env.Seed})
				}
			}
		}
		// nothing else may be on the wire
		if connected && !abort {
			if extra := capt.drain(); len(extra) > 0 {
				rep.Fail("property", "OneWayTcpClient.queued:"+route+":trailing-bytes", "bytes after the last queued frame", map[string]string{"extra_hex": vh.Clip(vh.Hex(extra), 400)})
			}
		}
		vh.GuardTimeout(2*time.Minute, func() {
			if route == "process(public)" {
				client.Destroy()
			}
			client.StopForVerif()
			client.Close()
		})
		if capt.conn != nil {
			capt.conn.Close()
		}
		capt.ln.Close()
		_ = procDone
	}
	rep.Note("queued routes: %d frames read off loopback sockets from queue-mode clients (routes process(public), process(hook), SendAndClear(hook); %d objects per type per route, %d rounds each); %.1f s",
		nFrames, perType, roundsPerRoute, time.Since(t0).Seconds())
}

func strOr(xs []string, i int) string {
	if i < len(xs) {
		return xs[i]
	}
	return "(sentinel: not looked at again)"
}
