package main

// Concurrent encoders: the product encodes packs from many goroutines (queue consumer + direct senders).
// For each of the eight pack types, G goroutines each encode THEIR OWN packs (objects never shared) again
// and again for a short time — pack.ToBytesPack and, on one shared client, the frame builder
// (MakeDataForVerif with a per-send license) — and every produced payload / frame must equal the
// reference bytes of THAT pack, computed single-threaded by the driver beforehand.
//
// The stage runs in a child process (this binary re-executed with C05_STAGE=concurrent) so that a crash
// ("fatal error: concurrent map writes", a race-detector abort in the thorough tier, which is built with
// -race) is an outcome, not the end of the harness.

import (
	"bytes"
	"encoding/json"
	"fmt"
	"os"
	"os/exec"
	"regexp"
	"strings"
	"sync"
	"time"

	"github.com/whatap/golib/lang/pack"
	wnet "github.com/whatap/golib/net"
	"github.com/whatap/golib/net/oneway"
	"verif/harness/vh"
)

const concGoroutines = 6
const concPerGoroutine = 3

var concTypeNames = []string{"tagcount", "logsink", "text", "param", "event", "zip", "hitmap", "counter"}

// concCases: deterministic from the seed (own stream), same in parent and child.
// index = (type*G + goroutine)*perG + k
func concCases(seed uint64, thorough bool) []*tcase {
	r := vh.NewRng(seed*0x51ED270B + 0xC0C)
	var cs []*tcase
	for t := range concTypeNames {
		for g := 0; g < concGoroutines; g++ {
			for k := 0; k < concPerGoroutine; k++ {
				c := genCase(r, t, thorough)
				if c.lic == "" {
					c.lic = fmt.Sprintf("lic-%d-%d", g, k)
				}
				cs = append(cs, c)
			}
		}
	}
	return cs
}

type concExpect struct {
	Frames []string `json:"frames"` // reference frame hex per case index
	Lines  []string `json:"lines"`
}

type concFailure struct {
	Type      string `json:"type"`
	GoName    string `json:"go_name"`
	What      string `json:"what"` // payload | frame | panic
	Index     int    `json:"case_index"`
	Line      string `json:"this_pack"`
	Other     string `json:"other_pack_encoded_concurrently"`
	Got       string `json:"produced_hex"`
	Want      string `json:"reference_hex"`
	FirstDiff int    `json:"first_differing_offset"`
	Iteration int    `json:"iteration"`
	Panic     string `json:"panic,omitempty"`
}

type concResult struct {
	Failures   []concFailure  `json:"failures"`
	Encodings  map[string]int `json:"encodings"`
	Done       []string       `json:"types_completed"`
	DurationMs int            `json:"per_type_ms"`
}

// ---------------------------------------------------------------- child

func concurrentChild(env *vh.Env) {
	raw, err := os.ReadFile(os.Getenv("C05_EXPECT"))
	if err != nil {
		vh.Die("child: %v", err)
	}
	var ex concExpect
	if err := json.Unmarshal(raw, &ex); err != nil {
		vh.Die("child: %v", err)
	}
	cases := concCases(env.Seed, env.Thorough)
	dur := 300 * time.Millisecond
	if env.Thorough {
		dur = 2 * time.Second
	}
	res := concResult{Encodings: map[string]int{}, DurationMs: int(dur / time.Millisecond)}
	client := oneway.NewForVerif(oneway.WithLicense("client-license"), oneway.WithPcode(12345), oneway.WithOid(7),
		oneway.WithServers([]string{"127.0.0.1:1"}))
	var mu sync.Mutex
	for t, tn := range concTypeNames {
		fmt.Fprintf(os.Stderr, "CONC-STAGE %s\n", tn)
		var wg sync.WaitGroup
		stop := make(chan struct{})
		var once sync.Once
		halt := func() { once.Do(func() { close(stop) }) }
		var failed bool
		base := t * concGoroutines * concPerGoroutine
		want := func(i int) []byte { return vh.UnHex(ex.Frames[i]) }
		for g := 0; g < concGoroutines; g++ {
			wg.Add(1)
			go func(g int) {
				defer wg.Done()
				n := 0
				for it := 0; ; it++ {
					select {
					case <-stop:
						mu.Lock()
						res.Encodings[tn] += n
						mu.Unlock()
						return
					default:
					}
					k := it % concPerGoroutine
					idx := base + g*concPerGoroutine + k
					c := cases[idx]
					w := want(idx)
					var payload, frame []byte
					o := vh.Guard(func() {
						p, _ := c.build()
						payload = append([]byte{}, pack.ToBytesPack(p)...)
						p2, _ := c.build()
						frame = append([]byte{}, client.MakeDataForVerif(p2, wnet.WithLicense(c.lic))...)
					})
					n += 2
					what := ""
					var got, exp []byte
					switch {
					case !o.OK():
						what = "panic"
					case len(w) >= 22 && !bytes.Equal(payload, w[22:]):
						what, got, exp = "payload", payload, w[22:]
					case !bytes.Equal(frame, w):
						what, got, exp = "frame", frame, w
					}
					if what == "" || len(w) == 0 {
						continue
					}
					mu.Lock()
					if !failed {
						failed = true
						f := concFailure{Type: tn, GoName: c.goName, What: what, Index: idx, Line: vh.Clip(ex.Lines[idx], 3000),
							Got: vh.Clip(vh.Hex(got), 3000), Want: vh.Clip(vh.Hex(exp), 3000), FirstDiff: firstDiff(exp, got), Iteration: it, Panic: vh.Clip(o.Panic, 300)}
						// the other pack: the concurrently encoded pack of this type whose reference bytes explain
						// most of the bytes that are wrong
						best, bestN := -1, 0
						for j := base; j < base+concGoroutines*concPerGoroutine; j++ {
							if (j-base)/concPerGoroutine == g {
								continue
							}
							ow := want(j)
							if what == "payload" && len(ow) >= 22 {
								ow = ow[22:]
							}
							m := 0
							for x := 0; x < len(got) && x < len(exp) && x < len(ow); x++ {
								if got[x] != exp[x] && got[x] == ow[x] {
									m++
								}
							}
							if m > bestN {
								best, bestN = j, m
							}
						}
						if best >= 0 {
							f.Other = vh.Clip(ex.Lines[best], 3000)
						}
						res.Failures = append(res.Failures, f)
					}
					res.Encodings[tn] += n
					mu.Unlock()
					halt()
					return
				}
			}(g)
		}
		select {
		case <-time.After(dur):
			halt()
		case <-stop:
		}
		wg.Wait()
		res.Done = append(res.Done, tn)
	}
	b, _ := json.Marshal(res)
	if err := os.WriteFile(env.Out, b, 0o644); err != nil {
		vh.Die("child: %v", err)
	}
}

// ---------------------------------------------------------------- parent

var stackPack = regexp.MustCompile(`lang/pack\.\(\*(\w+)\)\.(\w+)`)

func concurrentPhase(env *vh.Env, rep *vh.Report) {
	cases := concCases(env.Seed, env.Thorough)
	res := evalCases(env, cases)
	ex := concExpect{}
	for i, r := range res {
		if differs(r) {
			// single-threaded disagreement is phase A's business; give the child the implementation's own
			// single-threaded bytes so that only concurrency effects show here
			ex.Frames = append(ex.Frames, "-")
			ex.Lines = append(ex.Lines, r.line)
			_ = i
			continue
		}
		ex.Frames = append(ex.Frames, vh.Hex(r.frame))
		ex.Lines = append(ex.Lines, r.line)
	}
	dir, err := os.MkdirTemp("", "c05conc")
	if err != nil {
		vh.Die("%v", err)
	}
	defer os.RemoveAll(dir)
	expPath, outPath := dir+"/expect.json", dir+"/result.json"
	b, _ := json.Marshal(ex)
	os.WriteFile(expPath, b, 0o644)
	self, _ := os.Executable()
	cmd := exec.Command(self, "-driver", env.Driver, "-tier", env.Tier, "-seed", fmt.Sprint(env.Seed), "-out", outPath, "-repo", env.Repo)
	cmd.Env = append(os.Environ(), "C05_STAGE=concurrent", "C05_EXPECT="+expPath, "GORACE=halt_on_error=1 exitcode=66")
	var stderr bytes.Buffer
	cmd.Stderr = &stderr
	done := make(chan error, 1)
	if err := cmd.Start(); err != nil {
		vh.Die("cannot start the concurrent-encoders child: %v", err)
	}
	go func() { done <- cmd.Wait() }()
	limit := 10 * time.Minute
	if env.Thorough {
		limit = 30 * time.Minute
	}
	var werr error
	select {
	case werr = <-done:
	case <-time.After(limit):
		cmd.Process.Kill()
		werr = fmt.Errorf("timeout after %v", limit)
	}
	var cr concResult
	if raw, err := os.ReadFile(outPath); err == nil {
		json.Unmarshal(raw, &cr)
	}
	for tn, n := range cr.Encodings {
		rep.CountN("concurrent-encodings:"+tn, n)
	}
	for i, tn := range concTypeNames {
		rep.Case(fmt.Sprintf("concurrent %s seed %d: %d goroutines x %d packs", tn, env.Seed, concGoroutines, concPerGoroutine), i >= 0)
	}
	for _, f := range cr.Failures {
		key := f.GoName + ".Write:wrong-under-concurrent-writers"
		what := fmt.Sprintf("%s: with %d goroutines encoding their own %s packs at the same time, pack.ToBytesPack of one pack produced bytes that differ from its single-threaded reference at offset %d (iteration %d)",
			f.GoName, concGoroutines, f.Type, f.FirstDiff, f.Iteration)
		if f.What == "frame" {
			key = "OneWayTcpClient.makeData:wrong-under-concurrent-writers(" + f.GoName + ")"
			what = fmt.Sprintf("makeData on one shared client, called from %d goroutines with their own %s packs, produced a frame that differs from the reference frame of that pack at offset %d", concGoroutines, f.Type, f.FirstDiff)
		}
		if f.What == "panic" {
			key = f.GoName + ".Write:panic-under-concurrent-writers"
			what = f.GoName + ": encoding panics when other goroutines encode their own packs at the same time: " + f.Panic
		}
		rep.Fail("property", key, what, f)
	}
	if werr != nil {
		// the child died: which type was running, and what the runtime said
		se := stderr.String()
		stage := "?"
		for _, l := range strings.Split(se, "\n") {
			if strings.HasPrefix(l, "CONC-STAGE ") {
				stage = strings.TrimPrefix(l, "CONC-STAGE ")
			}
		}
		goName := map[string]string{"tagcount": "TagCountPack", "logsink": "LogSinkPack", "text": "TextPack", "param": "ParamPack",
			"event": "EventPack", "zip": "ZipPack", "hitmap": "HitMapPack1", "counter": "CounterPack1"}[stage]
		class := "crash"
		if strings.Contains(se, "DATA RACE") {
			class = "data-race"
		}
		site := ""
		if m := stackPack.FindStringSubmatch(se); m != nil {
			site = m[1] + "." + m[2]
		}
		tail := se
		if i := strings.Index(tail, "WARNING: DATA RACE"); i >= 0 {
			tail = tail[i:]
		} else if i := strings.Index(tail, "fatal error"); i >= 0 {
			tail = tail[i:]
		}
		var two []string
		if t := indexOf(concTypeNames, stage); t >= 0 {
			base := t * concGoroutines * concPerGoroutine
			two = []string{vh.Clip(ex.Lines[base], 2000), vh.Clip(ex.Lines[base+concPerGoroutine], 2000)}
		}
		rep.Fail("property", goName+".Write:"+class+"-under-concurrent-writers",
			fmt.Sprintf("the process %s while %d goroutines were encoding their own %s packs (%v) at %s", map[string]string{"crash": "died", "data-race": "was stopped by the race detector"}[class], concGoroutines, stage, werr, site),
			map[string]interface{}{"stage": stage, "site": site, "runtime_output": vh.Clip(tail, 3000), "two_of_the_packs": two, "seed": env.Seed})
	}
	rep.Note("concurrent encoders: %d goroutines x %d own packs per type, %d ms per type, child process; types completed: %v", concGoroutines, concPerGoroutine, cr.DurationMs, cr.Done)
}

func indexOf(xs []string, s string) int {
	for i, x := range xs {
		if x == s {
			return i
		}
	}
	return -1
}
