// Package vh is the shared core of the correspondence harnesses:
// one PRNG, the driver pipe, panic/timeout capture and the JSON report.
package vh

import (
	"bufio"
	"bytes"
	"encoding/hex"
	"encoding/json"
	"flag"
	"fmt"
	"os"
	"os/exec"
	"sort"
	"strings"
	"time"
)

// ---------------------------------------------------------------- PRNG

// Rng is splitmix64; every random choice of a harness derives from one Rng
// seeded with VERIF_SEED so that a disagreement replays exactly.
type Rng struct{ s uint64 }

func NewRng(seed uint64) *Rng {
	// the state is the *mixed* seed: with a linear seed→state map consecutive seeds would give
	// the same stream shifted by one draw
	z := seed + 0x1234567
	z = (z ^ (z >> 30)) * 0xBF58476D1CE4E5B9
	z = (z ^ (z >> 27)) * 0x94D049BB133111EB
	z ^= z >> 31
	return &Rng{s: z ^ (seed << 32)}
}
func (r *Rng) U64() uint64 {
	r.s += 0x9E3779B97F4A7C15
	z := r.s
	z = (z ^ (z >> 30)) * 0xBF58476D1CE4E5B9
	z = (z ^ (z >> 27)) * 0x94D049BB133111EB
	return z ^ (z >> 31)
}
func (r *Rng) Intn(n int) int {
	if n <= 0 {
		return 0
	}
	return int(r.U64() % uint64(n))
}
func (r *Rng) Bool() bool         { return r.U64()&1 == 1 }
func (r *Rng) Chance(pct int) bool { return r.Intn(100) < pct }
func (r *Rng) I64() int64         { return int64(r.U64()) }
func (r *Rng) Range(lo, hi int64) int64 { // inclusive
	if hi <= lo {
		return lo
	}
	span := uint64(hi-lo) + 1
	if span == 0 {
		return int64(r.U64())
	}
	return lo + int64(r.U64()%span)
}
func (r *Rng) Bytes(n int) []byte {
	b := make([]byte, n)
	for i := range b {
		b[i] = byte(r.U64())
	}
	return b
}
func (r *Rng) Pick64(xs []int64) int64 { return xs[r.Intn(len(xs))] }
func (r *Rng) PickInt(xs []int) int    { return xs[r.Intn(len(xs))] }
func (r *Rng) PickStr(xs []string) string { return xs[r.Intn(len(xs))] }

// Fork derives an independent stream (for goroutines / sub-generators).
func (r *Rng) Fork() *Rng { return &Rng{s: r.U64()} }

// SignedBoundaries returns the edges of every signed width class used by the
// wire formats: 0, ±1, ±2^(8w-1) and neighbours for w = 1,2,3,4,5,8.
func SignedBoundaries() []int64 {
	out := []int64{0, 1, -1, 2, -2}
	for _, w := range []uint{1, 2, 3, 4, 5, 8} {
		bits := 8*w - 1
		var hi int64
		if bits == 63 {
			hi = 1<<63 - 1
		} else {
			hi = 1<<bits - 1
		}
		lo := -hi - 1
		for d := int64(-2); d <= 2; d++ {
			if bits == 63 {
				if d <= 0 {
					out = append(out, hi+d)
				}
				if d >= 0 {
					out = append(out, lo+d)
				}
			} else {
				out = append(out, hi+d, lo+d)
			}
		}
	}
	return out
}

// ---------------------------------------------------------------- hex / text

func Hex(b []byte) string {
	if len(b) == 0 {
		return "-"
	}
	return hex.EncodeToString(b)
}
func UnHex(s string) []byte {
	if s == "-" || s == "" {
		return []byte{}
	}
	b, err := hex.DecodeString(s)
	if err != nil {
		panic("bad hex: " + s)
	}
	return b
}
func List(xs []string) string {
	if len(xs) == 0 {
		return "-"
	}
	return strings.Join(xs, ",")
}

// ---------------------------------------------------------------- calling the implementation

// Outcome of a guarded call into the implementation.
type Outcome struct {
	Panic   string // non-empty when the call panicked (recoverable)
	Timeout bool   // the call did not return within the watchdog
}

func (o Outcome) OK() bool { return o.Panic == "" && !o.Timeout }
func (o Outcome) String() string {
	if o.Timeout {
		return "timeout"
	}
	if o.Panic != "" {
		return "panic"
	}
	return "ok"
}

// Guard runs f, converting a panic into an Outcome.
func Guard(f func()) (o Outcome) {
	defer func() {
		if r := recover(); r != nil {
			o.Panic = fmt.Sprint(r)
			if o.Panic == "" {
				o.Panic = "panic"
			}
		}
	}()
	f()
	return
}

// GuardTimeout runs f in a goroutine with a watchdog (for self-deadlock checks).
// A timed-out goroutine is leaked on purpose.
func GuardTimeout(d time.Duration, f func()) Outcome {
	ch := make(chan Outcome, 1)
	go func() { ch <- Guard(f) }()
	select {
	case o := <-ch:
		return o
	case <-time.After(d):
		return Outcome{Timeout: true}
	}
}

// ---------------------------------------------------------------- driver pipe

// RunDriver feeds all lines to the Lean driver executable and returns its
// output lines (one per input line).
func RunDriver(path string, lines []string) ([]string, error) {
	cmd := exec.Command(path)
	var in bytes.Buffer
	for _, l := range lines {
		in.WriteString(l)
		in.WriteByte('\n')
	}
	cmd.Stdin = &in
	var out, errb bytes.Buffer
	cmd.Stdout = &out
	cmd.Stderr = &errb
	if err := cmd.Run(); err != nil {
		return nil, fmt.Errorf("driver %s: %v: %s", path, err, errb.String())
	}
	var res []string
	sc := bufio.NewScanner(&out)
	sc.Buffer(make([]byte, 1<<20), 1<<30)
	for sc.Scan() {
		res = append(res, sc.Text())
	}
	if len(res) != len(lines) {
		return res, fmt.Errorf("driver %s: %d input lines, %d output lines; stderr: %s", path, len(lines), len(res), errb.String())
	}
	return res, nil
}

// ---------------------------------------------------------------- report

// Failure is one thing the harness found.
//   Kind "property"       – the property itself fails on the implementation for Replay
//   Kind "correspondence" – model and implementation disagree on Replay, and the
//                           property-directed search found no input on which the
//                           property itself fails
//   Key identifies the failing input / call site / history class; it is what
//   known_findings.json lists.
type Failure struct {
	Kind    string      `json:"kind"`
	Key     string      `json:"key"`
	Summary string      `json:"summary"`
	Replay  interface{} `json:"replay"`
}

type Known struct {
	Key        string `json:"key"`
	StillFails bool   `json:"still_fails"`
	What       string `json:"what"`
}

type Report struct {
	Property     string                 `json:"property"`
	Tier         string                 `json:"tier"`
	Seed         uint64                 `json:"seed"`
	Evaluations  int                    `json:"evaluations"`
	Distinct     int                    `json:"distinct_nontrivial"`
	Rule         string                 `json:"rule"`
	Samples      []interface{}          `json:"samples"`
	Distribution map[string]int         `json:"distribution"`
	Failures     []Failure              `json:"failures"`
	Known        []Known                `json:"known_replayed"`
	Notes        []string               `json:"notes"`
	Extra        map[string]interface{} `json:"extra,omitempty"`
	WallS        float64                `json:"wall_s"`

	distinct map[string]struct{}
	failKeys map[string]int
	start    time.Time
}

type Env struct {
	Driver string
	Tier   string
	Seed   uint64
	Out    string
	Repo   string
	Replay string
	Thorough bool
}

// Parse reads the common flags. Harness mains call it first.
func Parse(property string) (*Env, *Report) {
	e := &Env{}
	flag.StringVar(&e.Driver, "driver", "", "path of the Lean driver executable")
	flag.StringVar(&e.Tier, "tier", "quick", "quick|thorough")
	flag.Uint64Var(&e.Seed, "seed", 1, "VERIF_SEED")
	flag.StringVar(&e.Out, "out", "", "report file (JSON)")
	flag.StringVar(&e.Repo, "repo", "/repo", "repository root (for harnesses that read source or fixtures)")
	flag.StringVar(&e.Replay, "replay", "", "replay file: re-run only that case")
	flag.Parse()
	e.Thorough = e.Tier == "thorough"
	r := &Report{Property: property, Tier: e.Tier, Seed: e.Seed, Distribution: map[string]int{},
		distinct: map[string]struct{}{}, failKeys: map[string]int{}, start: time.Now(),
		Samples: []interface{}{}, Failures: []Failure{}, Known: []Known{}, Notes: []string{}, Extra: map[string]interface{}{}}
	return e, r
}

// Case records one explored case. canon is its canonical text; nontrivial
// says whether it counts under the harness's stated rule.
func (r *Report) Case(canon string, nontrivial bool) {
	r.Evaluations++
	if nontrivial {
		if len(canon) > 200 {
			canon = canon[:200] + fmt.Sprintf("#%d", len(canon))
		}
		r.distinct[canon] = struct{}{}
	}
}
func (r *Report) Count(bucket string)        { r.Distribution[bucket]++ }
func (r *Report) CountN(bucket string, n int) { r.Distribution[bucket] += n }
func (r *Report) Sample(x interface{}) {
	if len(r.Samples) < 8 {
		r.Samples = append(r.Samples, x)
	}
}
func (r *Report) Note(f string, a ...interface{}) { r.Notes = append(r.Notes, fmt.Sprintf(f, a...)) }

// Fail records a failure; at most 3 per key are kept.
func (r *Report) Fail(kind, key, summary string, replay interface{}) {
	r.failKeys[key]++
	if r.failKeys[key] > 3 {
		return
	}
	r.Failures = append(r.Failures, Failure{kind, key, summary, replay})
}
func (r *Report) KnownReplay(key string, stillFails bool, what string) {
	r.Known = append(r.Known, Known{key, stillFails, what})
}
func (r *Report) NFail() int { return len(r.Failures) }

// Write finalises and writes the report; the harness exit code is 0 unless
// the harness itself could not run (verdicts are the check script's job).
func (r *Report) Write(path string) {
	r.Distinct = len(r.distinct)
	r.WallS = time.Since(r.start).Seconds()
	keys := make([]string, 0, len(r.failKeys))
	for k := range r.failKeys {
		keys = append(keys, k)
	}
	sort.Strings(keys)
	r.Extra["failure_counts"] = r.failKeys
	b, _ := json.MarshalIndent(r, "", " ")
	if path == "" {
		os.Stdout.Write(b)
		return
	}
	if err := os.WriteFile(path, b, 0o644); err != nil {
		fmt.Fprintln(os.Stderr, "cannot write report:", err)
		os.Exit(3)
	}
}

// Die aborts the harness run (infrastructure error, not a verdict).
func Die(f string, a ...interface{}) {
	fmt.Fprintf(os.Stderr, "harness error: "+f+"\n", a...)
	os.Exit(3)
}

// Clip shortens long strings for summaries.
func Clip(s string, n int) string {
	if len(s) <= n {
		return s
	}
	return s[:n] + fmt.Sprintf("…(%d)", len(s))
}
