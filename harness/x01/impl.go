package main

import (
	"fmt"
	"strconv"
	"strings"

	gio "github.com/whatap/golib/io"
	"github.com/whatap/golib/lang"
	"github.com/whatap/golib/lang/topology"
	"github.com/whatap/golib/lang/variable"
	"github.com/whatap/golib/util/hmap"
	"github.com/whatap/golib/util/pathutil"
	"verif/harness/vh"
)

// ---------------------------------------------------------------- key values

// key is one key of type ty: integer fields in struct order, or (ip, port) for LINK
type key struct {
	ty   string
	f    []int64
	ip   []byte
	port int64
}

var arity = map[string]int{"I2": 2, "I3": 3, "L2": 2, "L3": 3, "POID": 2, "PKIND": 2, "PKOID": 3}

func (k key) text() string {
	if k.ty == "LINK" {
		return fmt.Sprintf("%s %d", hexOrDash(k.ip), k.port)
	}
	s := make([]string, len(k.f))
	for i, v := range k.f {
		s[i] = strconv.FormatInt(v, 10)
	}
	return strings.Join(s, " ")
}

func hexOrDash(b []byte) string {
	if len(b) == 0 {
		return "-"
	}
	return vh.Hex(b)
}

// driver type name (PKIND is the POID code)
func drvType(ty string) string {
	if ty == "PKIND" {
		return "POID"
	}
	return ty
}

func (k key) obj() hmap.LinkedKey {
	switch k.ty {
	case "I2":
		return variable.NewI2(int32(k.f[0]), int32(k.f[1]))
	case "I3":
		return variable.NewI3(int32(k.f[0]), int32(k.f[1]), int32(k.f[2]))
	case "L2":
		return variable.NewL2(k.f[0], k.f[1])
	case "L3":
		return variable.NewL3(k.f[0], k.f[1], k.f[2])
	case "POID":
		return lang.NewPOID(k.f[0], int32(k.f[1]))
	case "PKIND":
		return lang.NewPKIND(k.f[0], int32(k.f[1]))
	case "PKOID":
		return lang.NewPKOID(k.f[0], int32(k.f[1]), int32(k.f[2]))
	case "LINK":
		l := topology.NewLINK()
		if k.ip != nil {
			l.IP = append([]byte{}, k.ip...)
		}
		l.Port = int(k.port)
		return l
	}
	panic("type " + k.ty)
}

func fieldsOf(o hmap.LinkedKey) key {
	switch v := o.(type) {
	case *variable.I2:
		return key{ty: "I2", f: []int64{int64(v.V1), int64(v.V2)}}
	case *variable.I3:
		return key{ty: "I3", f: []int64{int64(v.V1), int64(v.V2), int64(v.V3)}}
	case *variable.L2:
		return key{ty: "L2", f: []int64{v.V1, v.V2}}
	case *variable.L3:
		return key{ty: "L3", f: []int64{v.V1, v.V2, v.V3}}
	case *lang.POID:
		return key{ty: "POID", f: []int64{v.PCode, int64(v.Oid)}}
	case *lang.PKIND:
		return key{ty: "PKIND", f: []int64{v.PCode, int64(v.OKind)}}
	case *lang.PKOID:
		return key{ty: "PKOID", f: []int64{v.PCode, int64(v.OKind), int64(v.Oid)}}
	case *topology.LINK:
		return key{ty: "LINK", ip: v.IP, port: int64(v.Port)}
	}
	panic("type")
}

func compareTo(a, b key) int {
	switch x := a.obj().(type) {
	case *variable.I2:
		return x.CompareTo(b.obj().(*variable.I2))
	case *variable.I3:
		return x.CompareTo(b.obj().(*variable.I3))
	case *variable.L2:
		return x.CompareTo(b.obj().(*variable.L2))
	case *variable.L3:
		return x.CompareTo(b.obj().(*variable.L3))
	case *lang.POID:
		return x.CompareTo(b.obj().(*lang.POID))
	case *lang.PKIND:
		return x.CompareTo(b.obj().(*lang.PKIND))
	case *lang.PKOID:
		return x.CompareTo(b.obj().(*lang.PKOID))
	}
	panic("no CompareTo")
}

func toBytes(k key) []byte {
	switch x := k.obj().(type) {
	case *variable.I2:
		return x.ToBytes()
	case *variable.I3:
		return x.ToBytes()
	case *variable.L2:
		return x.ToBytes()
	case *variable.L3:
		return x.ToBytes()
	case *topology.LINK:
		out := gio.NewDataOutputX()
		x.ToBytes(out)
		return out.ToByteArray()
	}
	panic("no ToBytes")
}

// toObject decodes b; rest = number of bytes not consumed
func toObject(ty string, b []byte) (k key, rest int) {
	switch ty {
	case "I2":
		return fieldsOf(variable.NewI2Defuault().ToObject(b)), len(b) - 8
	case "I3":
		return fieldsOf(variable.NewI3Defuault().ToObject(b)), len(b) - 12
	case "L2":
		return fieldsOf(variable.NewL2Defuault().ToObject(b)), len(b) - 16
	case "L3":
		return fieldsOf(variable.NewL3Defuault().ToObject(b)), len(b) - 24
	case "LINK":
		in := gio.NewDataInputX(b)
		l := topology.NewLINK().ToObject(in)
		n := 0
		for n <= len(b) {
			if o := vh.Guard(func() { in.ReadBytes(1) }); !o.OK() {
				break
			}
			n++
		}
		return fieldsOf(l), n
	}
	panic("no ToObject")
}

// ---------------------------------------------------------------- request lines → implementation

func parseKey(ty string, ts []string) (key, bool) {
	if ty == "LINK" {
		if len(ts) != 2 {
			return key{}, false
		}
		var ip []byte
		if ts[0] != "-" {
			ip = vh.UnHex(ts[0])
		}
		p, err := strconv.ParseInt(ts[1], 10, 64)
		return key{ty: ty, ip: ip, port: p}, err == nil
	}
	k := key{ty: ty}
	for _, t := range ts {
		v, err := strconv.ParseInt(t, 10, 64)
		if err != nil {
			return k, false
		}
		k.f = append(k.f, v)
	}
	return k, len(k.f) == arity[ty]
}

func b2s(b bool) string {
	if b {
		return "1"
	}
	return "0"
}

// implType: the driver has no PKIND; a line may carry the Go type after a `@` (ignored by the driver? no —
// PKIND lines are sent as POID lines and executed here on both POID and PKIND, see genKeyLines)
func implAnswer(line string) (ans string) {
	if strings.HasPrefix(line, "T ") {
		return treeAnswer(line[2:])
	}
	ts := strings.Split(line, " ")
	if len(ts) < 3 {
		return "bad"
	}
	op, ty, args := ts[0], ts[1], ts[2:]
	o := vh.Guard(func() { ans = keyAnswer(op, ty, args) })
	if !o.OK() {
		if op == "O" {
			return "fail"
		}
		return "panic"
	}
	return ans
}

func keyAnswer(op, ty string, args []string) string {
	n := arity[ty]
	if ty == "LINK" {
		n = 2
	}
	switch op {
	case "H":
		a, ok := parseKey(ty, args)
		if !ok {
			return "bad"
		}
		h := a.obj().Hash()
		if ty == "POID" { // the PKIND code must answer the same
			if h2 := (key{ty: "PKIND", f: a.f}).obj().Hash(); h2 != h {
				return fmt.Sprintf("PKIND=%d POID=%d", h2, h)
			}
		}
		return strconv.FormatUint(uint64(h), 10)
	case "E", "C", "N":
		if len(args) != 2*n {
			return "bad"
		}
		a, ok1 := parseKey(ty, args[:n])
		b, ok2 := parseKey(ty, args[n:])
		if !ok1 || !ok2 {
			return "bad"
		}
		switch op {
		case "E":
			r := a.obj().Equals(b.obj())
			if ty == "POID" {
				if r2 := (key{ty: "PKIND", f: a.f}).obj().Equals((key{ty: "PKIND", f: b.f}).obj()); r2 != r {
					return "PKIND differs"
				}
			}
			return b2s(r)
		case "C":
			r := compareTo(a, b)
			if ty == "POID" {
				if r2 := compareTo(key{ty: "PKIND", f: a.f}, key{ty: "PKIND", f: b.f}); r2 != r {
					return "PKIND differs"
				}
			}
			return strconv.Itoa(r)
		default:
			return b2s(a.obj().(*topology.LINK).Include(b.obj().(*topology.LINK)))
		}
	case "EN":
		a, ok := parseKey(ty, args)
		if !ok {
			return "bad"
		}
		return b2s(a.obj().Equals(nil))
	case "B":
		a, ok := parseKey(ty, args)
		if !ok {
			return "bad"
		}
		return hexOrDash(toBytes(a))
	case "O":
		if len(args) != 1 {
			return "bad"
		}
		var b []byte
		if args[0] != "-" {
			b = vh.UnHex(args[0])
		}
		k, rest := toObject(ty, b)
		return fmt.Sprintf("ok %s %d", k.text(), rest)
	}
	return "bad"
}

// ---------------------------------------------------------------- PathTree histories

func parseSegs(s string) []string {
	if s == "-" {
		return []string{}
	}
	parts := strings.Split(s, ",")
	out := make([]string, len(parts))
	for i, p := range parts {
		out[i] = strings.TrimPrefix(p, "s")
	}
	return out
}

func segsText(p []string) string {
	if len(p) == 0 {
		return "-"
	}
	s := make([]string, len(p))
	for i, x := range p {
		s[i] = "s" + x
	}
	return strings.Join(s, ",")
}

func strArg(s string) string {
	if s == "~" {
		return ""
	}
	return s
}

func valArg(s string) interface{} {
	if s == "nil" {
		return nil
	}
	v, _ := strconv.Atoi(s)
	return v
}

func showVal(v interface{}) string {
	if v == nil {
		return "nil"
	}
	if i, ok := v.(int); ok {
		return fmt.Sprintf("v%d", i)
	}
	return fmt.Sprintf("?%v", v)
}

func treeOp(t *pathutil.PathTree, op string) (ans string) {
	f := strings.Split(op, ":")
	o := vh.Guard(func() {
		switch {
		case f[0] == "i" && len(f) == 3:
			ans = showVal(t.InsertArray(parseSegs(f[1]), valArg(f[2])))
		case f[0] == "I" && len(f) == 3:
			ans = showVal(t.Insert(strArg(f[1]), valArg(f[2])))
		case f[0] == "f" && len(f) == 2:
			ans = showVal(t.FindArray(parseSegs(f[1])))
		case f[0] == "F" && len(f) == 2:
			ans = showVal(t.Find(strArg(f[1])))
		case f[0] == "n":
			ans = fmt.Sprintf("n%d", t.Size())
		case f[0] == "e":
			ans = "m" + b2s(t.Paths().HasMoreElements())
		default:
			ans = "bad"
		}
	})
	if !o.OK() {
		return "panic"
	}
	return ans
}

func treeAnswer(ops string) string {
	t := pathutil.NewPathTree()
	var out []string
	for _, op := range strings.Split(ops, ";") {
		out = append(out, treeOp(t, op))
	}
	return strings.Join(out, ";")
}
