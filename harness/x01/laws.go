package main

import (
	"bytes"
	"fmt"
	"math"
	"math/big"
	"strconv"
	"strings"

	"github.com/whatap/golib/lang/topology"
	"github.com/whatap/golib/util/pathutil"
	"verif/harness/vh"
)

// keys of the known findings this check owns (proposed/X01/known_findings.json)
const (
	kI3Bytes    = "I3.ToBytes:V3-not-written"
	kLinkPort   = "LINK.ToBytes:port-truncated-int32"
	kLinkNil    = "LINK.Equals:nil-panic"
	kCmpSuffix  = ".CompareTo:overflow" // POID / PKIND / PKOID
	kTreeOneSeg = "PathTree.Insert:one-segment-ignored"
	kTreeSize   = "PathTree.Size:not-path-count"
	kTreeEnum   = "PathTree.Enumeration:never-starts"
	kTreeBack   = "PathTree.Find:no-backtracking"
	kNodeBytes  = "NODE.ToObject:type-byte-not-read" // replayed only (NODE is not modelled)
)

type lawFail struct {
	key, sum string
	known    bool
}

func fieldsEqual(a, b key) bool {
	if a.ty == "LINK" {
		return bytes.Equal(a.ip, b.ip) && a.port == b.port
	}
	for i := range a.f {
		if a.f[i] != b.f[i] {
			return false
		}
	}
	return true
}

func lexCmp(a, b key) int {
	for i := range a.f {
		if a.f[i] < b.f[i] {
			return -1
		}
		if a.f[i] > b.f[i] {
			return 1
		}
	}
	return 0
}

// does some field difference leave the range of the field's type?
func diffOverflows(a, b key) bool {
	for i := range a.f {
		d := new(big.Int).Sub(big.NewInt(a.f[i]), big.NewInt(b.f[i]))
		lo, hi := big.NewInt(math.MinInt32), big.NewInt(math.MaxInt32)
		if wide(a.ty, i) {
			lo, hi = big.NewInt(math.MinInt64), big.NewInt(math.MaxInt64)
		}
		if d.Cmp(lo) < 0 || d.Cmp(hi) > 0 {
			return true
		}
	}
	return false
}

func poidFamily(ty string) bool { return ty == "POID" || ty == "PKIND" || ty == "PKOID" }

// pairLaws evaluates K1/K2 on (a, b) and K3 on a
func pairLaws(a, b key) (out []lawFail) {
	ty := a.ty
	var eq, eqr bool
	var ha, hb, ha2 uint
	o := vh.Guard(func() {
		eq, eqr = a.obj().Equals(b.obj()), b.obj().Equals(a.obj())
		ha, hb, ha2 = a.obj().Hash(), b.obj().Hash(), a.obj().Hash()
	})
	if !o.OK() {
		return append(out, lawFail{key: ty + ".Equals:panic", sum: fmt.Sprintf("%s Equals/Hash panics on %s / %s: %s", ty, a.text(), b.text(), o)})
	}
	if eq != fieldsEqual(a, b) {
		out = append(out, lawFail{key: ty + ".Equals:not-fieldwise", sum: fmt.Sprintf("%s{%s}.Equals({%s}) = %v", ty, a.text(), b.text(), eq)})
	}
	if eq != eqr {
		out = append(out, lawFail{key: ty + ".Equals:asymmetric", sum: fmt.Sprintf("%s{%s} vs {%s}: %v / %v", ty, a.text(), b.text(), eq, eqr)})
	}
	if (eq && ha != hb) || ha != ha2 {
		out = append(out, lawFail{key: ty + ".Hash:inconsistent-with-Equals", sum: fmt.Sprintf("%s{%s} hash %d, {%s} hash %d, Equals %v", ty, a.text(), ha, b.text(), hb, eq)})
	}
	if ty != "LINK" {
		var r, rr int
		if o := vh.Guard(func() { r, rr = compareTo(a, b), compareTo(b, a) }); !o.OK() {
			out = append(out, lawFail{key: ty + ".CompareTo:panic", sum: o.String()})
		} else if want := lexCmp(a, b); r != want || rr != -want {
			f := lawFail{key: ty + ".CompareTo:order", sum: fmt.Sprintf("%s{%s}.CompareTo({%s}) = %d and reversed %d, lexicographic order says %d", ty, a.text(), b.text(), r, rr, want)}
			if poidFamily(ty) && (diffOverflows(a, b) || diffOverflows(b, a)) {
				f.key, f.known = ty+kCmpSuffix, true
			}
			out = append(out, f)
		}
	}
	if serial(ty) {
		var dec key
		var rest int
		if o := vh.Guard(func() { dec, rest = toObject(ty, toBytes(a)) }); !o.OK() {
			out = append(out, lawFail{key: ty + ".ToBytes:roundtrip", sum: fmt.Sprintf("%s{%s}: ToObject(ToBytes()) panics: %s", ty, a.text(), o)})
		} else if !fieldsEqual(dec, a) || rest != 0 {
			f := lawFail{key: ty + ".ToBytes:roundtrip", sum: fmt.Sprintf("%s{%s} comes back as {%s}, %d bytes left over", ty, a.text(), dec.text(), rest)}
			switch {
			case ty == "I3" && rest == 0 && a.f[2] != a.f[1] && dec.f[0] == a.f[0] && dec.f[1] == a.f[1] && dec.f[2] == a.f[1]:
				f.key, f.known = kI3Bytes, true
			case ty == "LINK" && rest == 0 && a.port != int64(int32(a.port)) && bytes.Equal(dec.ip, a.ip) && dec.port == int64(int32(a.port)):
				f.key, f.known = kLinkPort, true
			}
			out = append(out, f)
		}
	}
	return out
}

func keyLaws(r *vh.Rng, thorough bool, rep *vh.Report) {
	n := 20000
	if thorough {
		n = 400000
	}
	types := append([]string{"PKIND"}, keyTypes...)
	for i := 0; i < n; i++ {
		ty := r.PickStr(types)
		a := genKey(r, ty)
		b := related(r, a)
		rep.Count("law:" + ty)
		for _, f := range pairLaws(a, b) {
			rep.Fail("property", f.key, f.sum, map[string]string{"type": ty, "a": a.text(), "b": b.text()})
		}
		// transitivity of the order on a related triple
		if ty != "LINK" {
			c := related(r, b)
			ab, bc, ac := compareTo(a, b), compareTo(b, c), compareTo(a, c)
			if ab < 0 && bc < 0 && ac >= 0 {
				key := ty + ".CompareTo:order"
				if poidFamily(ty) && (diffOverflows(a, b) || diffOverflows(b, c) || diffOverflows(a, c)) {
					key = ty + kCmpSuffix
				}
				rep.Fail("property", key, fmt.Sprintf("%s: {%s} < {%s} < {%s} but first.CompareTo(third) = %d", ty, a.text(), b.text(), c.text(), ac),
					map[string]string{"type": ty, "a": a.text(), "b": b.text(), "c": c.text()})
			}
		}
	}

	// ---- replays of the known findings (the witnesses of X01.finding_*)
	i3 := key{ty: "I3", f: []int64{1, 2, 3}}
	dec, _ := toObject("I3", toBytes(i3))
	rep.KnownReplay(kI3Bytes, !fieldsEqual(dec, i3), fmt.Sprintf("I3{1,2,3}.ToBytes() = %s decodes to {%s}", vh.Hex(toBytes(i3)), dec.text()))
	lk := key{ty: "LINK", ip: []byte{10, 0, 0, 1}, port: 4294967376}
	dl, _ := toObject("LINK", toBytes(lk))
	rep.KnownReplay(kLinkPort, dl.port != lk.port, fmt.Sprintf("LINK{10.0.0.1, Port 4294967376} comes back with Port %d", dl.port))
	o := vh.Guard(func() { lk.obj().Equals(nil) })
	rep.KnownReplay(kLinkNil, !o.OK(), "LINK.Equals(nil): "+o.String())
	// NODE (not modelled): ToBytes writes ver, Attr.GetValueType(), Attr; ToObject reads ver and then the map
	nb := topology.NewNODE().ToBytes()
	var back []byte
	on := vh.Guard(func() { back = topology.NewNODE().ToObject(nb).ToBytes() })
	rep.KnownReplay(kNodeBytes, !on.OK() || !bytes.Equal(back, nb), fmt.Sprintf("NewNODE().ToBytes() = %s; NewNODE().ToObject(it): %s", vh.Hex(nb), on))
	for _, ty := range []string{"POID", "PKIND", "PKOID"} {
		a := key{ty: ty, f: make([]int64, arity[ty])}
		b := key{ty: ty, f: make([]int64, arity[ty])}
		a.f[0] = math.MinInt64
		ab, ba := compareTo(a, b), compareTo(b, a)
		rep.KnownReplay(ty+kCmpSuffix, ab == -1 && ba == -1, fmt.Sprintf("%s{MinInt64,0..}.CompareTo({0,..}) = %d and the reverse = %d", ty, ab, ba))
	}
}

// ---------------------------------------------------------------- PathTree against an association

type assoc struct {
	vals     map[string]int  // stored path → value
	prefixes map[string]bool // every non-empty prefix of a stored path
}

func pkey(p []string) string { return strconv.Itoa(len(p)) + "|" + strings.Join(p, "\x00") }

func (m *assoc) insert(p []string, v int) (old interface{}) {
	if o, ok := m.vals[pkey(p)]; ok {
		old = o
	}
	m.vals[pkey(p)] = v
	for i := 1; i <= len(p); i++ {
		m.prefixes[pkey(p[:i])] = true
	}
	return old
}

// greedy resolution: literal segment if some stored path continues with it, else `*` for a non-empty segment
func (m *assoc) find(p []string) interface{} {
	if len(p) == 0 {
		return nil
	}
	res := make([]string, 0, len(p))
	for _, s := range p {
		if m.prefixes[pkey(append(res[:len(res):len(res)], s))] {
			res = append(res, s)
		} else if s != "" && m.prefixes[pkey(append(res[:len(res):len(res)], "*"))] {
			res = append(res, "*")
		} else {
			return nil
		}
	}
	if v, ok := m.vals[pkey(res)]; ok {
		return v
	}
	return nil
}

// treeHistoryLaws runs the ops of a T line on a fresh PathTree and on the association
func treeHistoryLaws(ops []string) (out []lawFail) {
	t := pathutil.NewPathTree()
	m := &assoc{vals: map[string]int{}, prefixes: map[string]bool{}}
	hist := strings.Join(ops, ";")
	for i, op := range ops {
		f := strings.Split(op, ":")
		at := fmt.Sprintf("op %d (%s) of T %s", i, op, vh.Clip(hist, 300))
		var p []string
		switch f[0] {
		case "i", "f":
			p = parseSegs(f[1])
		case "I", "F":
			if s := strArg(f[1]); s != "" {
				p = strings.Split(s, "/")
			}
		}
		got := treeOp(t, op)
		if got == "panic" {
			out = append(out, lawFail{key: "PathTree:panic", sum: at})
			continue
		}
		switch f[0] {
		case "i", "I":
			v := valArg(f[2])
			want := interface{}(nil)
			if v != nil && len(p) >= 2 {
				want = m.insert(p, v.(int))
			}
			if got != showVal(want) {
				out = append(out, lawFail{key: "PathTree.Insert:return", sum: fmt.Sprintf("returned %s, previous value is %s; %s", got, showVal(want), at)})
			}
			if v != nil && len(p) == 1 {
				if r := t.FindArray(p); r == nil {
					out = append(out, lawFail{key: kTreeOneSeg, known: true, sum: "Find after Insert of a one-segment path is nil; " + at})
				}
			}
		case "f", "F":
			if sv, ok := m.vals[pkey(p)]; ok && got != showVal(sv) {
				out = append(out, lawFail{key: "PathTree.Find:after-insert", sum: fmt.Sprintf("stored value %d, Find = %s; %s", sv, got, at)})
			} else if want := showVal(m.find(p)); got != want {
				out = append(out, lawFail{key: "PathTree.Find:resolution", sum: fmt.Sprintf("Find = %s, greedy resolution over the stored paths = %s; %s", got, want, at)})
			}
		case "n":
			if got != fmt.Sprintf("n%d", len(m.vals)) {
				out = append(out, lawFail{key: kTreeSize, known: true, sum: fmt.Sprintf("Size() = %s with %d stored paths; %s", got[1:], len(m.vals), at)})
			}
		case "e":
			if (got == "m1") != (len(m.vals) > 0) {
				out = append(out, lawFail{key: kTreeEnum, known: true, sum: fmt.Sprintf("Paths().HasMoreElements() = %s with %d stored paths; %s", got, len(m.vals), at)})
			}
		}
	}
	return out
}

func treeLaws(r *vh.Rng, thorough bool, rep *vh.Report) {
	n := 4000
	if thorough {
		n = 80000
	}
	for i := 0; i < n; i++ {
		line := genTreeLine(r, rep)
		for _, f := range treeHistoryLaws(strings.Split(line[2:], ";")) {
			rep.Fail("property", f.key, f.sum, map[string]string{"line": line})
		}
	}
	// ---- replays of the known findings
	t := pathutil.NewPathTree()
	t.Insert("a", 1)
	rep.KnownReplay(kTreeOneSeg, t.Find("a") == nil, fmt.Sprintf("Insert(\"a\", 1); Find(\"a\") = %v", t.Find("a")))
	t1, t2 := pathutil.NewPathTree(), pathutil.NewPathTree()
	t1.Insert("/a/b", 1)
	s1 := t1.Size()
	t1.Insert("/a", 2)
	t2.Insert("/a", 2)
	t2.Insert("/a/b", 1)
	rep.KnownReplay(kTreeSize, s1 != 1 || t1.Size() != 2 || t2.Size() != 2,
		fmt.Sprintf("Insert(/a/b): Size = %d; then Insert(/a): %d; the same two paths in the other order: %d", s1, t1.Size(), t2.Size()))
	rep.KnownReplay(kTreeEnum, !t1.Paths().HasMoreElements() && !t1.Values().HasMoreElements() && !t1.Entries().HasMoreElements(),
		"Paths()/Values()/Entries() of a tree with two paths: HasMoreElements() = false")
	t3 := pathutil.NewPathTree()
	t3.Insert("/a/b/c", 1)
	t3.Insert("/a/*/d", 2)
	rep.KnownReplay(kTreeBack, t3.Find("/a/b/d") == nil, fmt.Sprintf("stored /a/b/c and /a/*/d: Find(/a/b/d) = %v", t3.Find("/a/b/d")))
}

// directLaw: a model/implementation disagreement on `line` — does an evident law fail on the implementation for
// exactly this input?  "" if not.
func directLaw(line, impl string) string {
	var fs []lawFail
	if strings.HasPrefix(line, "T ") {
		fs = treeHistoryLaws(strings.Split(line[2:], ";"))
	} else {
		ts := strings.Split(line, " ")
		if len(ts) < 3 {
			return ""
		}
		ty, args := ts[1], ts[2:]
		n := arity[ty]
		if ty == "LINK" {
			n = 2
		}
		tys := []string{ty}
		if ty == "POID" {
			tys = append(tys, "PKIND")
		}
		for _, ty := range tys {
			switch {
			case len(args) == n:
				if a, ok := parseKey(ty, args); ok {
					fs = append(fs, pairLaws(a, a)...)
				}
			case len(args) == 2*n:
				a, ok1 := parseKey(ty, args[:n])
				b, ok2 := parseKey(ty, args[n:])
				if ok1 && ok2 {
					fs = append(fs, pairLaws(a, b)...)
				}
			case ts[0] == "O" && len(args) == 1 && strings.HasPrefix(impl, "ok "):
				// decoding then re-encoding must give the consumed bytes back (canonical form)
				f := strings.Split(impl, " ")
				if k, ok := parseKey(ty, f[1:len(f)-1]); ok {
					b := vh.UnHex(strings.Replace(args[0], "-", "", 1))
					rest, _ := strconv.Atoi(f[len(f)-1])
					enc := toBytes(k)
					if rest >= 0 && rest <= len(b) && !bytes.Equal(enc, b[:len(b)-rest]) && ty != "I3" && ty != "LINK" {
						fs = append(fs, lawFail{key: ty + ".ToObject:not-inverse", sum: fmt.Sprintf("%s.ToObject(%s) = {%s} whose ToBytes is %s", ty, args[0], k.text(), vh.Hex(enc))})
					}
					fs = append(fs, pairLaws(k, k)...)
				}
			}
		}
	}
	for _, f := range fs {
		if !f.known {
			return "law fails on the implementation [" + f.key + "]: " + f.sum
		}
	}
	return ""
}
