package main

import (
	"fmt"
	"math"
	"strings"

	"verif/harness/vh"
)

var b32 = []int64{0, 1, -1, 2, 31, -31, 32, 255, 256, 65535, 65536, math.MaxInt32, math.MinInt32, math.MaxInt32 - 1, math.MinInt32 + 1,
	1 << 30, -(1 << 30), (1 << 30) + 1, 69273666, -69273666}
var b64 = []int64{0, 1, -1, 31, -31, math.MaxInt32, math.MinInt32, 1 << 31, 1 << 32, (1 << 32) - 1, (1 << 32) + 1, -(1 << 32), 1 << 33,
	math.MaxInt64, math.MinInt64, math.MaxInt64 - 1, math.MinInt64 + 1, 1 << 62, -(1 << 62), (1 << 62) + 1, 3000000000000000000, -7000000000000000000,
	0x0000000100000001, -0x0000000100000001}

func gen32(r *vh.Rng) int64 {
	switch r.Intn(4) {
	case 0:
		return r.Pick64(b32)
	case 1:
		return r.Range(-40, 40)
	case 2:
		return r.Pick64(b32) + r.Range(-2, 2)
	}
	return int64(int32(r.U64()))
}

func gen64(r *vh.Rng) int64 {
	switch r.Intn(4) {
	case 0:
		return r.Pick64(b64)
	case 1:
		return r.Range(-40, 40)
	case 2:
		return int64(uint64(r.Pick64(b64)) + uint64(r.Range(-2, 2)))
	}
	return r.I64()
}

func clamp32(v int64) int64 { return int64(int32(v)) }

// is field i of type ty an int64 field?
func wide(ty string, i int) bool {
	switch ty {
	case "L2", "L3":
		return true
	case "POID", "PKIND", "PKOID":
		return i == 0
	}
	return false
}

var ipLens = []int{0, 0, 4, 4, 4, 16, 1, 5, 253, 254, 255, 300}
var ports = []int64{0, 0, 1, 80, 443, 8080, 65535, 65536, -1, math.MaxInt32, math.MinInt32, 1 << 31, 1 << 32, (1 << 32) + 80, -(1 << 32) - 5, math.MaxInt64, math.MinInt64}

func genKey(r *vh.Rng, ty string) key {
	if ty == "LINK" {
		k := key{ty: ty}
		n := r.PickInt(ipLens)
		if n > 0 {
			k.ip = r.Bytes(n)
			if r.Chance(30) {
				for i := range k.ip {
					k.ip[i] = byte(r.Intn(3))
				}
			}
		} else if r.Bool() {
			k.ip = []byte{}
		}
		if r.Chance(70) {
			k.port = r.Pick64(ports)
		} else {
			k.port = gen64(r)
		}
		return k
	}
	k := key{ty: ty}
	for i := 0; i < arity[ty]; i++ {
		if wide(ty, i) {
			k.f = append(k.f, gen64(r))
		} else {
			k.f = append(k.f, clamp32(gen32(r)))
		}
	}
	return k
}

// a key related to a: equal, one field changed, fields rotated, or fresh
func related(r *vh.Rng, a key) key {
	b := key{ty: a.ty, f: append([]int64{}, a.f...), port: a.port}
	if a.ip != nil {
		b.ip = append([]byte{}, a.ip...)
	}
	switch r.Intn(5) {
	case 0: // equal
	case 1, 2: // one field changed
		if a.ty == "LINK" {
			switch {
			case r.Bool():
				b.port = r.Pick64(ports)
			case len(b.ip) > 0 && r.Bool():
				b.ip[r.Intn(len(b.ip))] ^= byte(1 + r.Intn(255))
			case len(b.ip) > 0:
				b.ip = b.ip[:len(b.ip)-1]
			default:
				b.ip = append(b.ip, byte(r.Intn(256)))
			}
		} else {
			i := r.Intn(len(b.f))
			if wide(a.ty, i) {
				if r.Bool() {
					b.f[i] = gen64(r)
				} else {
					b.f[i] = int64(uint64(b.f[i]) + uint64(r.Range(-1, 1)))
				}
			} else if r.Bool() {
				b.f[i] = clamp32(gen32(r))
			} else {
				b.f[i] = clamp32(b.f[i] + r.Range(-1, 1))
			}
		}
	case 3: // rotated (catches a field order swap in Equals/CompareTo)
		if a.ty != "LINK" {
			n := len(b.f)
			first := b.f[0]
			copy(b.f, b.f[1:])
			b.f[n-1] = first
			for i := range b.f {
				if !wide(a.ty, i) {
					b.f[i] = clamp32(b.f[i])
				}
			}
		}
	default:
		return genKey(r, a.ty)
	}
	return b
}

var keyTypes = []string{"I2", "I3", "L2", "L3", "POID", "PKOID", "LINK"}

func serial(ty string) bool { return ty == "I2" || ty == "I3" || ty == "L2" || ty == "L3" || ty == "LINK" }

func fixedLines() []string {
	return []string{
		"H I2 1 2", "H I2 2 1", "H I3 1 2 3", "H I2 -2000 0", "H L2 -1 5", "H POID -5 7", "H PKOID 1 2 3",
		"C POID -9223372036854775808 0 0 0", "C POID 0 0 -9223372036854775808 0", "C POID 3000000000000000000 0 -7000000000000000000 0",
		"B I3 1 2 3", "O I3 000000010000000200000003", "B LINK 0a000001 4294967376", "EN LINK 7f000001 80", "EN LINK - 0",
		"T I:/a/b:1;n;I:/a:2;n;F:/a/b;F:/a;e", "T I:/a:2;n;I:/a/b:1;n;F:/a/b;F:/a;e",
		"T I:a:1;F:a;I:*:2;F:a;n", "T I:/a/*:1;I:/a/b/c:2;F:/a/b;F:/a/x;F:/a/b/c;F:/a/x/c;F:/a/;n",
	}
}

func genKeyLines(r *vh.Rng, n int, rep *vh.Report) []string {
	var out []string
	for len(out) < n {
		ty := r.PickStr(keyTypes)
		a := genKey(r, ty)
		b := related(r, a)
		out = append(out, fmt.Sprintf("H %s %s", ty, a.text()), fmt.Sprintf("E %s %s %s", ty, a.text(), b.text()))
		if ty != "LINK" {
			out = append(out, fmt.Sprintf("C %s %s %s", ty, a.text(), b.text()))
		} else {
			out = append(out, fmt.Sprintf("N %s %s %s", ty, a.text(), b.text()))
			if r.Chance(5) {
				out = append(out, fmt.Sprintf("EN %s %s", ty, a.text()))
			}
		}
		if serial(ty) {
			out = append(out, fmt.Sprintf("B %s %s", ty, a.text()))
			enc := toBytes(a)
			switch r.Intn(4) {
			case 0: // exact
				rep.Count("O:exact")
			case 1: // trailing bytes
				enc = append(enc, r.Bytes(1+r.Intn(5))...)
				rep.Count("O:trailing")
			case 2: // truncated
				if len(enc) > 0 {
					enc = enc[:r.Intn(len(enc))]
				}
				rep.Count("O:truncated")
			default: // arbitrary bytes of about the right size
				enc = r.Bytes(r.Intn(len(enc) + 4))
				rep.Count("O:random")
			}
			out = append(out, fmt.Sprintf("O %s %s", ty, hexOrDash(enc)))
		}
	}
	return out
}

// ---------------------------------------------------------------- PathTree histories

var segAlphabet = []string{"a", "b", "c", "ab", "*", "", "a", "b", "*"}

func genSegs(r *vh.Rng, pool *[][]string) []string {
	// shared prefixes: extend / truncate / mutate a path used before
	if len(*pool) > 0 && r.Chance(60) {
		p := append([]string{}, (*pool)[r.Intn(len(*pool))]...)
		switch r.Intn(5) {
		case 0:
		case 1:
			p = append(p, r.PickStr(segAlphabet))
		case 2:
			if len(p) > 0 {
				p = p[:len(p)-1]
			}
		case 3:
			if len(p) > 0 {
				p[r.Intn(len(p))] = r.PickStr(segAlphabet)
			}
		default:
			if len(p) > 0 { // a concrete path that a stored pattern may match
				for i := range p {
					if p[i] == "*" && r.Bool() {
						p[i] = r.PickStr([]string{"a", "b", "zz", ""})
					}
				}
			}
		}
		return p
	}
	n := []int{0, 1, 1, 2, 2, 2, 3, 3, 4, 5}[r.Intn(10)]
	p := make([]string, n)
	for i := range p {
		p[i] = r.PickStr(segAlphabet)
	}
	if n > 1 && r.Chance(60) {
		p[0] = "" // the usual "/x/y" form
	}
	return p
}

func genTreeLine(r *vh.Rng, rep *vh.Report) string {
	var pool [][]string
	nops := 2 + r.Intn(24)
	ops := make([]string, 0, nops)
	val := 1
	for i := 0; i < nops; i++ {
		p := genSegs(r, &pool)
		asStr := r.Chance(35)
		str := strings.Join(p, "/")
		if str == "" {
			str = "~"
		}
		switch c := r.Intn(100); {
		case c < 45:
			v := fmt.Sprint(val)
			val++
			if r.Chance(6) {
				v = "nil"
			}
			pool = append(pool, p)
			if asStr {
				ops = append(ops, "I:"+str+":"+v)
			} else {
				ops = append(ops, "i:"+segsText(p)+":"+v)
			}
			rep.Count(fmt.Sprintf("tree:insert-len%d", min(len(p), 4)))
		case c < 88:
			if asStr {
				ops = append(ops, "F:"+str)
			} else {
				ops = append(ops, "f:"+segsText(p))
			}
			rep.Count("tree:find")
		case c < 96:
			ops = append(ops, "n")
		default:
			ops = append(ops, "e")
		}
	}
	return "T " + strings.Join(ops, ";")
}

func genTreeLines(r *vh.Rng, n int, rep *vh.Report) []string {
	out := make([]string, n)
	for i := range out {
		out[i] = genTreeLine(r, rep)
	}
	return out
}
