// Correspondence harness for the extension check X01: composite key types (lang/variable I2 I3 L2 L3,
// lang POID PKIND PKOID, lang/topology LINK) and util/pathutil.PathTree against the Lean CodeModels
// Golib.Ext.Keys / Golib.Ext.PathTree (driver drv_x01).
//
// Every case is a request line in the driver's syntax.  Two executors answer it: the real code (impl.go)
// and the Lean model (driver).  Beside that the evident laws are evaluated directly on the implementation
// (laws.go): Equals = field-wise equality / equivalence, Hash consistency, CompareTo = lexicographic total
// order, ToBytes/ToObject round trip, PathTree = association from paths to values (an independent Go
// oracle of the greedy resolution), Size, enumeration.
//
//	law fails on the implementation                  → kind "property"
//	laws hold (or the known quirk), model ≠ impl     → kind "correspondence"
package main

import (
	"encoding/json"
	"fmt"
	"os"
	"strings"

	"verif/harness/vh"
)

type kase struct {
	line string
	impl string
}

func main() {
	env, rep := vh.Parse("X01")
	rng := vh.NewRng(env.Seed)
	rep.Rule = "one case = one request line: a method of a key type on boundary-biased field values (H E C B O N), or a PathTree op history (T) " +
		"over a small segment alphabet {a b c ab * empty} with shared prefixes, repeated inserts, nil values and one-segment paths; " +
		"non-trivial: key lines whose fields are not all zero / histories with at least one effective insert and one find; distinct = distinct request lines"

	var lines []string
	if env.Replay != "" {
		lines = loadReplay(env.Replay)
	} else {
		nKey, nTree := 6000, 3000
		if env.Thorough {
			nKey, nTree = 120000, 60000
		}
		lines = append(lines, fixedLines()...)
		lines = append(lines, genKeyLines(rng.Fork(), nKey, rep)...)
		lines = append(lines, genTreeLines(rng.Fork(), nTree, rep)...)
	}

	cases := make([]kase, len(lines))
	for i, l := range lines {
		cases[i] = kase{line: l, impl: implAnswer(l)}
		rep.Case(l, nontrivial(l))
		rep.Count("line:" + lineKind(l))
		if i%997 == 0 {
			rep.Sample(map[string]string{"line": vh.Clip(l, 300), "impl": vh.Clip(cases[i].impl, 300)})
		}
	}

	// ---- the laws, directly on the implementation (also replays the known findings)
	if env.Replay == "" {
		keyLaws(rng.Fork(), env.Thorough, rep)
		treeLaws(rng.Fork(), env.Thorough, rep)
	}
	lawFailed := rep.NFail() > 0

	// ---- the model
	outs, err := vh.RunDriver(env.Driver, lines)
	if err != nil {
		vh.Die("driver: %v", err)
	}
	if len(outs) != len(lines) {
		vh.Die("driver answered %d of %d lines", len(outs), len(lines))
	}
	for i, c := range cases {
		if outs[i] == c.impl {
			continue
		}
		key := "model:" + lineKey(c.line)
		kind := "correspondence"
		sum := fmt.Sprintf("model and implementation disagree on %s: impl=%s model=%s", vh.Clip(c.line, 200), vh.Clip(c.impl, 200), vh.Clip(outs[i], 200))
		if d := directLaw(c.line, c.impl); d != "" {
			kind = "property"
			sum = d + "; " + sum
		}
		rep.Fail(kind, key, sum, map[string]string{"line": c.line, "impl": c.impl, "model": outs[i]})
	}
	if !lawFailed && rep.NFail() > 0 {
		rep.Note("property-directed search around the disagreeing lines: the laws of laws.go were evaluated on the implementation for the same generators and held")
	}
	rep.Write(env.Out)
}

func lineKind(l string) string {
	ts := strings.SplitN(l, " ", 3)
	if ts[0] == "T" {
		return "T"
	}
	if len(ts) >= 2 {
		return ts[0] + ":" + ts[1]
	}
	return ts[0]
}

// lineKey: type + method, never a value
func lineKey(l string) string {
	ts := strings.SplitN(l, " ", 3)
	if ts[0] == "T" {
		return "PathTree.history"
	}
	m := map[string]string{"H": "Hash", "E": "Equals", "EN": "Equals(nil)", "C": "CompareTo", "B": "ToBytes", "O": "ToObject", "N": "Include"}
	if len(ts) >= 2 {
		return ts[1] + "." + m[ts[0]]
	}
	return "line"
}

func nontrivial(l string) bool {
	if strings.HasPrefix(l, "T ") {
		return strings.Contains(l, "i:") || strings.Contains(l, "I:")
	}
	for _, t := range strings.Split(l, " ")[2:] {
		if t != "0" && t != "-" {
			return true
		}
	}
	return false
}

func loadReplay(path string) []string {
	b, err := os.ReadFile(path)
	if err != nil {
		vh.Die("replay: %v", err)
	}
	var r struct {
		Cases []map[string]interface{} `json:"cases"`
	}
	if err := json.Unmarshal(b, &r); err != nil {
		vh.Die("replay: %v", err)
	}
	var out []string
	for _, c := range r.Cases {
		if l, ok := c["line"].(string); ok {
			out = append(out, l)
		}
	}
	return out
}
