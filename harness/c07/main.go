// Correspondence harness for C07: the UDP tracer packs of lang/pack/udp against the Lean
// CodeModel Golib.Udp.* (driver drv_c07).
//
// Stages
//   rt     every pack type × every version around every gate found in the source (gate-1, gate,
//          gate+1) ∪ random versions: Go Write → Go Read (CreatePack + Read on the bytes followed
//          by a random tail).  Direct property: every field the writer carries at that version
//          (found by differential probing of the Go writer, no model involved) is restored, subject
//          only to the documented transaction-start caps, and exactly the written bytes are consumed.
//          Correspondence: bytes, pack after Read, bytes left and carried-field set vs the driver.
//   topack ToPack (Read + Process) agrees with Read followed by Process; Dbc after Process vs driver.
//   proc   Process() of every type on filled packs (optional inputs empty / numeric / structured Data with
//          empty parts; packs already processed once): every struct field and the panic outcome vs driver.
//   pool   acquire / fill with markers / release / re-acquire histories, sequential and from 8
//          goroutines: no marker survives; the pack equals the Clear() or the constructor constants
//          of the model.
//   pool2  two-use histories acquire → fill/decode → Process() → release → re-acquire → fill/decode →
//          Process(): every field (exported or not, through pointers, by reflection) of the pack equals
//          that of a pack which only had the second use.
//   route  every ordered pair of pack types (A, B): create A, use, release, create B three times — B has its
//          own concrete type, is clean and reads like a never-used pack; random create/use/release histories
//          with several packs of a few types alive.  A panic of CreatePack/ClosePack is a property failure.
//   fault  ToPack of every truncation and of damaged copies of short datagrams of every type, each followed by
//          CreatePack of that type: the packs handed out are never-used packs, nothing of the failed datagram is reachable.
//   conc   12 (16) goroutines, each writing and reading back (CreatePack, Read, Process, ClosePack) its own stream
//          of packs of all types at several versions at the same time; numeric fields non-zero and distinct per
//          goroutine; every encoding equals the sequentially pre-computed bytes, every decode the sequential one.
//   paramkv key=value texts with blanks/tabs around '=' and the separator (" ", ";", "&"), repeated keys,
//          prefix/suffix/case variants of the key, empty values: ToStringStr leaves no token of the key with
//          another value (direct), equals an independent reference and the model; the same texts as
//          semicolon-separated connection strings through Process().
//   mask   connection strings from the key=value grammar (1 … 200 tokens, password first / middle / last /
//          at positions 19, 20, 21, repeated, very long values) (and near-misses): after Process() of an
//          SQL / SQL-param / DBC pack of the Go and PHP families no password token keeps its value;
//          passwords whose text also occurs elsewhere in the string (a piece of the key: password=word) must not
//          be left in value position (secretLeft); Dbc vs driver on ASCII strings.
//   api    (api.go) streams of packs through one buffer (WritePack / ReadPack), the setters, the ParamKV
//          accessors, GetPackType / version / flush accessors.
//   num    ParseStringZeroToEmpty / ParseInt32 / ParseInt64 / Truncate vs the digit-function model.
package main

import (
	"encoding/json"
	"fmt"
	"os"
	"path/filepath"
	"reflect"
	"regexp"
	"runtime"
	"sort"
	"strconv"
	"strings"
	"sync"

	gio "github.com/whatap/golib/io"
	"github.com/whatap/golib/lang/pack/udp"
	"github.com/whatap/golib/util/paramtext"
	"github.com/whatap/golib/util/stringutil"
	"verif/harness/vh"
)

var (
	env *vh.Env
	rep *vh.Report
	rng *vh.Rng
)

// ---------------------------------------------------------------- calling the implementation

// Every call into the implementation goes through vh.Guard.  A panic of CreatePack / ClosePack /
// a constructor on an input inside the property's quantifier is a failure of the property, reported
// with the history of operations that led to it; it never ends the harness.

var repMu sync.Mutex // rep is also written from the goroutines of the pool stage

func failSafe(kind, key, summary string, replay interface{}) {
	repMu.Lock()
	defer repMu.Unlock()
	rep.Fail(kind, key, summary, replay)
}

func histReplay(stage, tname string, hist []string) map[string]interface{} {
	h := append([]string{}, hist...)
	if len(h) > 60 {
		h = h[len(h)-60:]
	}
	return map[string]interface{}{"stage": stage, "type": tname, "history": h}
}

// implCreate: udp.CreatePack under a guard; the pack must exist and have the type's concrete type
func implCreate(stage string, pt *ptype, ver int32, hist []string) (udp.UdpPack, bool) {
	var p udp.UdpPack
	o := vh.Guard(func() { p = udp.CreatePack(pt.code, ver) })
	h := append(append([]string{}, hist...), fmt.Sprintf("CreatePack(%s, %d)", pt.name, ver))
	switch {
	case !o.OK():
		failSafe("property", "CreatePack:"+pt.name+":panic",
			fmt.Sprintf("CreatePack(%d /*%s*/, %d) panics: %s", pt.code, pt.name, ver, vh.Clip(o.Panic, 200)), histReplay(stage, pt.name, h))
		return nil, false
	case p == nil || reflect.ValueOf(p).IsNil():
		failSafe("property", "CreatePack:"+pt.name+":nil",
			fmt.Sprintf("CreatePack(%d /*%s*/, %d) returns no pack", pt.code, pt.name, ver), histReplay(stage, pt.name, h))
		return nil, false
	case reflect.TypeOf(p) != reflect.TypeOf(pt.zero()):
		failSafe("property", "CreatePack:"+pt.name+":wrong-type",
			fmt.Sprintf("CreatePack(%d /*%s*/, %d) returns a %s", pt.code, pt.name, ver, reflect.TypeOf(p)), histReplay(stage, pt.name, h))
		return nil, false
	}
	return p, true
}

// implClose: udp.ClosePack under a guard
func implClose(stage string, pt *ptype, p udp.UdpPack, hist []string) bool {
	if p == nil {
		return false
	}
	o := vh.Guard(func() { udp.ClosePack(p) })
	if !o.OK() {
		h := append(append([]string{}, hist...), fmt.Sprintf("ClosePack(%s)", pt.name))
		failSafe("property", "ClosePack:"+pt.name+":panic", fmt.Sprintf("ClosePack(%s) panics: %s", pt.name, vh.Clip(o.Panic, 200)), histReplay(stage, pt.name, h))
		return false
	}
	return true
}

// runStage: a panic of the harness's own code in a stage is reported and the other stages still run
func runStage(name string, f func()) {
	o := vh.Guard(f)
	if !o.OK() {
		failSafe("property", "stage:"+name+":panic", "stage "+name+" stopped by a panic: "+vh.Clip(o.Panic, 300), map[string]interface{}{"stage": name})
	}
}

// ---------------------------------------------------------------- versions

var gateRe = regexp.MustCompile(`\.Ver\s*(>=|<=|==|!=|>|<)\s*([0-9]+)`)

// a version compared with a named constant (`this.Ver >= UDP_PACK_VERSION`), also inside a helper
// method of AbstractPack: the constant's value is a gate like any literal
var gateNameRe = regexp.MustCompile(`\.Ver\s*(>=|<=|==|!=|>|<)\s*([A-Za-z_][A-Za-z0-9_]*)`)

// gates of the source: every constant a version is compared with
func sourceGates(repo string) []int64 {
	set := map[int64]bool{}
	files, _ := filepath.Glob(filepath.Join(repo, "lang", "pack", "udp", "*.go"))
	var srcs []string
	for _, f := range files {
		b, err := os.ReadFile(f)
		if err != nil {
			continue
		}
		srcs = append(srcs, string(b))
		for _, m := range gateRe.FindAllStringSubmatch(string(b), -1) {
			n, _ := strconv.ParseInt(m[2], 10, 64)
			set[n] = true
		}
	}
	for _, src := range srcs {
		for _, m := range gateNameRe.FindAllStringSubmatch(src, -1) {
			def := regexp.MustCompile(`(?m)^\s*(?:const\s+)?` + regexp.QuoteMeta(m[2]) + `\s*(?:int32\s*|int64\s*|int\s*)?=\s*([0-9]+)\b`)
			for _, other := range srcs {
				if d := def.FindStringSubmatch(other); d != nil {
					n, _ := strconv.ParseInt(d[1], 10, 64)
					set[n] = true
					namedGates[m[2]] = n
				}
			}
		}
	}
	var out []int64
	for n := range set {
		out = append(out, n)
	}
	sort.Slice(out, func(i, j int) bool { return out[i] < out[j] })
	return out
}

var namedGates = map[string]int64{}

// ---------------------------------------------------------------- families
//
// The families are the ranges of the ladder `Ver > 50000 / > 40000 / > 30000 / > 20000 / else` that
// every Write, Read and Process of the package has.  A family is sampled over its WHOLE range, not
// only around the gates that exist in the source today: its lowest version, the next one, interior
// values below the first gate, the lower neighbour of the first gate, values between and above the
// gates, and its top.  A gate that a change introduces inside a family (in one of Write / Read /
// Process only) then separates two sampled versions of the family wherever it is put coarsely, and
// the ranges below the first gate — where no literal of the source points — are always exercised.
type family struct {
	name   string
	lo, hi int32
	masks  bool // sends raw connection strings: Process() of the SQL / DB-connection packs masks the password
}

var families = []family{
	{"PHP", 10001, 20000, true},
	{"Python", 20001, 30000, false},
	{"Dotnet", 30001, 40000, false},
	{"Batch", 40001, 50000, false},
	{"Go", 50001, 59999, true},
}

func familyOf(ver int32) *family {
	for i := range families {
		if ver >= families[i].lo && ver <= families[i].hi {
			return &families[i]
		}
	}
	return nil
}

// familySamples: the fixed samples of a family (deterministic) plus nrand random interior ones,
// half of them below the first gate of the family
func familySamples(f family, r *vh.Rng, nrand int, dense bool) []int32 {
	var gs []int32
	for _, g := range gates {
		if g > int64(f.lo) && g <= int64(f.hi) && g%10000 != 0 {
			gs = append(gs, int32(g))
		}
	}
	set := map[int32]bool{f.lo: true, f.hi: true}
	first, last := f.hi, f.lo
	if len(gs) > 0 {
		first, last = gs[0], gs[len(gs)-1]
		for _, g := range gs {
			set[g-1], set[g], set[g+1] = true, true, true
		}
	}
	set[f.lo+(first-f.lo)/2] = true  // interior below the first gate: the middle
	set[last+(f.hi-last)/2] = true   // interior above the last gate
	if dense {
		set[f.lo+1], set[f.hi-1] = true, true
		set[f.lo+(first-f.lo)/4], set[f.lo+(first-f.lo)*3/4] = true, true
		set[last+2], set[last+10] = true, true
	}
	if r != nil {
		for i := 0; i < nrand; i++ {
			if i%2 == 0 && first-1 > f.lo+1 {
				set[int32(r.Range(int64(f.lo)+1, int64(first)-1))] = true
			} else {
				set[int32(r.Range(int64(f.lo), int64(f.hi)))] = true
			}
		}
	}
	var out []int32
	for v := range set {
		if v >= f.lo && v <= f.hi {
			out = append(out, v)
		}
	}
	sort.Slice(out, func(i, j int) bool { return out[i] < out[j] })
	return out
}

var gates []int64

// gateFloor: the largest gate constant ≤ ver (version class used in failure keys)
func gateFloor(ver int32) string {
	best := int64(-1 << 62)
	for _, g := range gates {
		if g <= int64(ver) && g > best {
			best = g
		}
		if g+1 <= int64(ver) && g%10000 == 0 && g+1 > best { // family thresholds are `> n`
			best = g + 1
		}
	}
	if best == -1<<62 {
		return "min"
	}
	return strconv.FormatInt(best, 10)
}

func versions() []int32 {
	set := map[int32]bool{}
	for _, g := range gates {
		for d := int64(-1); d <= 1; d++ {
			set[int32(g+d)] = true
		}
	}
	for _, v := range []int32{0, 1, -1, 9999, 10100, 65536, 2147483647, -2147483648, udp.UDP_PACK_VERSION} {
		set[v] = true
	}
	for _, f := range families { // the whole range of every family, see familySamples
		for _, v := range familySamples(f, rng, 2, env.Thorough) {
			set[v] = true
		}
	}
	nrand := 20
	if env.Thorough {
		nrand = 80
	}
	fams := [][2]int64{{10095, 10125}, {20095, 20115}, {30095, 30115}, {39995, 40015}, {49995, 50115}, {-100, 70000}}
	for i := 0; i < nrand; i++ {
		f := fams[rng.Intn(len(fams))]
		set[int32(rng.Range(f[0], f[1]))] = true
	}
	var out []int32
	for v := range set {
		out = append(out, v)
	}
	sort.Slice(out, func(i, j int) bool { return out[i] < out[j] })
	return out
}

// checkGates: the versions exercised contain the representatives of every model layout
// (C07.version_coverage: 0 and g-1, g, g+1 for every gate g of the layout)
func checkGates(vers []int32) {
	have := map[int64]bool{}
	for _, v := range vers {
		have[int64(v)] = true
	}
	var lines []string
	for _, pt := range ptypes {
		lines = append(lines, "G "+pt.name)
	}
	outs, err := vh.RunDriver(env.Driver, lines)
	if err != nil {
		vh.Die("%v", err)
	}
	for i, pt := range ptypes {
		if outs[i] == "-" {
			continue
		}
		for _, g := range strings.Split(outs[i], ",") {
			n, err := strconv.ParseInt(g, 10, 64)
			if err != nil {
				vh.Die("driver G %s: %s", pt.name, outs[i])
			}
			for d := int64(-1); d <= 1; d++ {
				if !have[n+d] {
					rep.Fail("correspondence", pt.name+":gates", fmt.Sprintf("the model of %s compares the version with %d, which is not a version constant of the source (gates in source: %v)", pt.name, n, gates), nil)
				}
			}
		}
	}
	rep.Count("gates.checked")
}

// ---------------------------------------------------------------- generators

// documented caps: the transaction-start fields (constants of UdpPack.go)
var documentedCaps = map[string]map[string]int{
	"UdpTxStartPack": {
		"Host": udp.HTTP_HOST_MAX_SIZE, "Uri": udp.HTTP_URI_MAX_SIZE, "Ipaddr": udp.HTTP_IP_MAX_SIZE,
		"UAgent": udp.HTTP_UA_MAX_SIZE, "Ref": udp.HTTP_REF_MAX_SIZE, "WClientId": udp.HTTP_URI_MAX_SIZE,
		"HttpMethod": udp.HTTP_METHOD_MAX_SIZE,
	},
}

// lengths worth trying for a text field: around every cap constant of the package
var capLens = []int{256, 2048, 4096, 32768}

func genLen(r *vh.Rng, tname, fname string) int {
	if c, ok := documentedCaps[tname][fname]; ok && r.Chance(35) {
		return r.PickInt([]int{c - 1, c, c + 1})
	}
	switch {
	case r.Chance(12):
		c := r.PickInt(capLens)
		return r.PickInt([]int{c - 1, c, c + 1})
	case r.Chance(2):
		return 65535
	case r.Chance(25):
		return r.PickInt([]int{0, 1})
	default:
		return r.Intn(24)
	}
}

var alphabet = []byte("abcdefghijklmnopqrstuvwxyzABCXYZ0123456789 /=;:,.-_#?&%\t")

func genText(r *vh.Rng, n int) []byte {
	b := make([]byte, n)
	mode := r.Intn(4)
	for i := range b {
		switch {
		case mode == 0 || n > 300: // cheap for the long ones
			b[i] = alphabet[(i*7+n)%len(alphabet)]
		case mode == 1:
			b[i] = byte(r.U64()) // arbitrary bytes: Go strings are byte strings
		default:
			b[i] = alphabet[r.Intn(len(alphabet))]
		}
	}
	if n > 300 && n > 8 { // make the tail distinctive so that a cut is visible
		copy(b[n-8:], []byte(fmt.Sprintf("%08d", n)))
	}
	return b
}

var bounds = vh.SignedBoundaries()

func genInt(r *vh.Rng, bits int) int64 {
	var lo, hi int64
	switch bits {
	case 16:
		lo, hi = -32768, 32767
	case 32:
		lo, hi = -2147483648, 2147483647
	default:
		lo, hi = -9223372036854775808, 9223372036854775807
	}
	switch {
	case r.Chance(20):
		return 0
	case r.Chance(40):
		v := r.Pick64(bounds)
		if v < lo || v > hi {
			return hi
		}
		return v
	case r.Chance(50):
		return r.Range(-300, 300)
	default:
		return r.Range(lo, hi)
	}
}

// genRec: canonical values for every wire-comparable field except Ver / Flush
func genRec(r *vh.Rng, pt *ptype) map[string]string {
	rec := map[string]string{}
	p := pt.new()
	for _, f := range fieldsOf(p) {
		if f.name == "Ver" || f.name == "Flush" || !comparable(f.typ) {
			continue
		}
		switch f.typ.Kind() {
		case reflect.Int16:
			rec[f.name] = "i" + strconv.FormatInt(genInt(r, 16), 10)
		case reflect.Int32:
			rec[f.name] = "i" + strconv.FormatInt(genInt(r, 32), 10)
		case reflect.Int64:
			rec[f.name] = "i" + strconv.FormatInt(genInt(r, 64), 10)
		case reflect.Bool:
			rec[f.name] = "b0"
		case reflect.String:
			rec[f.name] = "s" + vh.Hex(genText(r, genLen(r, pt.name, f.name)))
		case reflect.Slice:
			if f.typ.Elem().Kind() == reflect.Uint8 {
				n := r.PickInt([]int{0, 1, 2, 300, 5, 17})
				if r.Chance(3) {
					n = 65535
				}
				if n == 0 && r.Bool() {
					rec[f.name] = "n"
				} else {
					rec[f.name] = "s" + vh.Hex(genText(r, n))
				}
			} else {
				n := 5
				if r.Chance(30) {
					n = r.Intn(8)
				}
				if n == 0 && r.Bool() {
					rec[f.name] = "n"
					break
				}
				xs := make([]string, n)
				for i := range xs {
					xs[i] = strconv.FormatInt(genInt(r, 16), 10)
				}
				rec[f.name] = "l" + vh.List(xs)
			}
		}
	}
	if pt.name == "UdpActiveStackPack" && r.Chance(70) { // Process() needs three ", " separated parts
		rec["Data"] = "s" + vh.Hex([]byte(fmt.Sprintf("x, %d, stack%d", r.Range(-5, 1<<40), r.Intn(100))))
	}
	if pt.name == "UdpRelayPack" {
		rec["Len"] = "i0" // set from len(Data) by the reader's caller
	}
	return rec
}

func recString(pt *ptype, rec map[string]string) string {
	var parts []string
	for _, f := range fieldsOf(pt.zero()) {
		if v, ok := rec[f.name]; ok {
			parts = append(parts, f.name+"="+v)
		}
	}
	if len(parts) == 0 {
		return "-"
	}
	return strings.Join(parts, ";")
}

// ---------------------------------------------------------------- Go side of one round trip

func goWrite(pt *ptype, ver int32, rec map[string]string) ([]byte, vh.Outcome) {
	var b []byte
	o := vh.Guard(func() {
		p := pt.new()
		p.SetVersion(ver)
		applyRec(p, rec)
		b = udp.ToBytesPack(p)
	})
	return b, o
}

// carried fields of the Go writer at (type, version), by differential probing: a field is
// carried iff changing it alone changes the bytes
var carriedCache sync.Map

func probeVal(f fref, alt bool) (string, bool) {
	a, b := "1", "2"
	switch f.typ.Kind() {
	case reflect.Int16, reflect.Int32, reflect.Int64:
		if alt {
			return "i" + b, true
		}
		return "i" + a, true
	case reflect.String:
		if alt {
			return "s62", true
		}
		return "s61", true
	case reflect.Slice:
		if f.typ.Elem().Kind() == reflect.Uint8 {
			if alt {
				return "s62", true
			}
			return "s61", true
		}
		if f.typ.Elem().Kind() == reflect.Int16 {
			if alt {
				return "l1,2,3,4,6", true
			}
			return "l1,2,3,4,5", true
		}
	}
	return "", false
}

func carriedGo(pt *ptype, ver int32) map[string]bool {
	key := fmt.Sprintf("%s@%d", pt.name, ver)
	if v, ok := carriedCache.Load(key); ok {
		return v.(map[string]bool)
	}
	base := map[string]string{}
	fs := fieldsOf(pt.zero())
	for _, f := range fs {
		if f.name == "Ver" || f.name == "Flush" {
			continue
		}
		if v, ok := probeVal(f, false); ok {
			base[f.name] = v
		}
	}
	b0, _ := goWrite(pt, ver, base)
	out := map[string]bool{}
	for _, f := range fs {
		if _, ok := base[f.name]; !ok {
			continue
		}
		alt := map[string]string{}
		for k, v := range base {
			alt[k] = v
		}
		alt[f.name], _ = probeVal(f, true)
		b1, _ := goWrite(pt, ver, alt)
		if string(b0) != string(b1) {
			out[f.name] = true
		}
	}
	carriedCache.Store(key, out)
	return out
}

// fields whose wire form is another field's text (documented in the writer)
var derivedTransfer = map[string]map[string]string{
	"UdpActiveStatsPack": {"ActiveStats": "Data"},
}

type rtCase struct {
	pt   *ptype
	ver  int32
	rec  map[string]string
	tail []byte
	// results of the implementation
	wOut    vh.Outcome
	bytes   []byte
	created bool // CreatePack returned a pack
	cPanic  string
	init    string
	rOut    vh.Outcome
	after   map[string]string
	afterS  string
	avail   int
	propBad []string // fields on which the property fails
}

func (c *rtCase) replay() map[string]interface{} {
	return map[string]interface{}{"stage": "rt", "type": c.pt.name, "ver": c.ver, "rec": recString(c.pt, c.rec), "tail": vh.Hex(c.tail)}
}

func joinI16(val string) string { // canonical "l…" → the text ArrayInt16ToString produces
	if val == "n" || val == "l-" {
		return ""
	}
	return val[1:]
}

func (c *rtCase) run() {
	c.bytes, c.wOut = goWrite(c.pt, c.ver, c.rec)
	if !c.wOut.OK() {
		return
	}
	var q udp.UdpPack
	o := vh.Guard(func() { q = udp.CreatePack(c.pt.code, c.ver) })
	if !o.OK() || q == nil || reflect.ValueOf(q).IsNil() {
		c.created = false
		c.cPanic = o.Panic
		q = pt_new(c.pt, c.ver)
	} else {
		c.created = true
	}
	if c.pt.name == "UdpRelayPack" { // the payload length comes from the UDP header, not from the pack's bytes
		n := 0
		if v := c.rec["Data"]; v != "n" && v != "" {
			n = len(vh.UnHex(v[1:]))
		}
		setCanon(q, fieldByName(q, "Len"), "i"+strconv.Itoa(n))
	}
	c.init = canon(q, false)
	in := gio.NewDataInputX(append(append([]byte{}, c.bytes...), c.tail...))
	c.rOut = vh.Guard(func() { q.Read(in) })
	if !c.rOut.OK() {
		return
	}
	c.avail = int(in.Available())
	c.after = canonMap(q, false)
	c.afterS = canon(q, false)
	// ---- direct property
	car := carriedGo(c.pt, c.ver)
	for f := range car {
		want := c.rec[f]
		got := c.after[f]
		if d, ok := derivedTransfer[c.pt.name][f]; ok {
			if c.after[d] != "s"+vh.Hex([]byte(joinI16(want))) {
				c.propBad = append(c.propBad, f)
			}
			continue
		}
		if want == "n" && got == "s-" { // nil and empty byte slices are the same payload
			continue
		}
		if got == want {
			continue
		}
		if cp, ok := documentedCaps[c.pt.name][f]; ok && strings.HasPrefix(want, "s") {
			w := vh.UnHex(want[1:])
			if len(w) > cp && got == "s"+vh.Hex(w[:cp]) {
				continue
			}
		}
		c.propBad = append(c.propBad, f)
	}
	sort.Strings(c.propBad)
	if c.avail != len(c.tail) {
		c.propBad = append(c.propBad, "#consumed")
	}
	// the pack goes back to the pool (exercises ClosePack on packs that were really used)
	if c.created {
		vh.Guard(func() { udp.ClosePack(q) })
	}
}

func pt_new(pt *ptype, ver int32) udp.UdpPack {
	p := pt.new()
	vh.Guard(func() { p.SetVersion(ver) })
	return p
}

func fieldByName(p udp.UdpPack, name string) fref {
	for _, f := range fieldsOf(p) {
		if f.name == name {
			return f
		}
	}
	vh.Die("no field %s", name)
	return fref{}
}

// isCut: got is a strict prefix of want (a length cap)
func isCut(want, got string) bool {
	if !strings.HasPrefix(want, "s") || !strings.HasPrefix(got, "s") {
		return false
	}
	w, g := vh.UnHex(want[1:]), vh.UnHex(got[1:])
	return len(g) < len(w) && string(w[:len(g)]) == string(g)
}

// ---------------------------------------------------------------- stage rt

type propFail struct {
	c     *rtCase
	field string
}

func stageRT(cases []*rtCase) {
	// implementation side, 16 workers (CreatePack/ClosePack are meant to be used concurrently)
	var wg sync.WaitGroup
	ch := make(chan *rtCase, 64)
	for i := 0; i < 16; i++ {
		wg.Add(1)
		go func() {
			defer wg.Done()
			for c := range ch {
				cc := c
				if o := vh.Guard(func() { cc.run() }); !o.OK() {
					cc.wOut = o
				}
			}
		}()
	}
	for _, c := range cases {
		ch <- c
	}
	close(ch)
	wg.Wait()

	// driver side
	var lines []string
	type idx struct{ w, r, x int }
	ix := make([]idx, len(cases))
	xSeen := map[string]int{}
	for i, c := range cases {
		ix[i] = idx{-1, -1, -1}
		ix[i].w = len(lines)
		lines = append(lines, fmt.Sprintf("W %s %d %s", c.pt.name, c.ver, recString(c.pt, c.rec)))
		if c.wOut.OK() && c.rOut.OK() {
			ix[i].r = len(lines)
			lines = append(lines, fmt.Sprintf("R %s %d %s %s", c.pt.name, c.ver, c.init, vh.Hex(append(append([]byte{}, c.bytes...), c.tail...))))
		}
		k := fmt.Sprintf("X %s %d", c.pt.name, c.ver)
		if j, ok := xSeen[k]; ok {
			ix[i].x = j
		} else {
			ix[i].x = len(lines)
			xSeen[k] = len(lines)
			lines = append(lines, k)
		}
	}
	outs, err := vh.RunDriver(env.Driver, lines)
	if err != nil {
		vh.Die("%v", err)
	}

	fails := map[string][]propFail{} // type:field → failing cases
	for i, c := range cases {
		canonText := fmt.Sprintf("%s %d %s", c.pt.name, c.ver, recString(c.pt, c.rec))
		rep.Case(canonText, len(c.bytes) > 0)
		rep.Count("rt.type." + c.pt.name)
		rep.Count("rt.verclass." + gateFloor(c.ver))
		rep.Count(fmt.Sprintf("rt.bytes.%s", sizeBucket(len(c.bytes))))
		if i < 3 {
			rep.Sample(map[string]interface{}{"type": c.pt.name, "ver": c.ver, "rec": vh.Clip(recString(c.pt, c.rec), 300), "bytes": vh.Clip(vh.Hex(c.bytes), 120)})
		}
		if !c.wOut.OK() {
			rep.Fail("property", c.pt.name+":Write:"+c.wOut.String(), "Write panicked: "+vh.Clip(c.wOut.Panic, 200), c.replay())
			continue
		}
		if !c.created {
			rep.Count("rt.createpack.nil")
			if c.cPanic != "" {
				rep.Fail("property", "CreatePack:"+c.pt.name+":panic",
					fmt.Sprintf("CreatePack(%d, ver) for %s panics (%s), so ToPack/ReadPack cannot read what its Write produced", c.pt.code, c.pt.name, vh.Clip(c.cPanic, 160)), c.replay())
			} else {
				rep.Fail("property", "CreatePack:"+c.pt.name+":nil",
					fmt.Sprintf("CreatePack(%d, ver) returns no pack for %s, so ToPack/ReadPack cannot read what its Write produced", c.pt.code, c.pt.name), c.replay())
			}
		}
		if !c.rOut.OK() {
			rep.Fail("property", c.pt.name+":Read:"+c.rOut.String(), "Read of the writer's own bytes panicked: "+vh.Clip(c.rOut.Panic, 200), c.replay())
			continue
		}
		for _, f := range c.propBad {
			k := c.pt.name + ":" + f
			fails[k] = append(fails[k], propFail{c, f})
		}
		if len(c.propBad) > 0 {
			continue // the model describes the repaired behaviour; the property failure is the finding
		}
		// correspondence
		if outs[ix[i].w] != vh.Hex(c.bytes) {
			// property-directed search around the disagreeing input
			if pc := searchAround(c); pc != nil {
				for _, f := range pc.propBad {
					k := pc.pt.name + ":" + f
					fails[k] = append(fails[k], propFail{pc, f})
				}
				continue
			}
			rep.Fail("correspondence", c.pt.name+":Write:bytes",
				fmt.Sprintf("writer bytes differ from the model: impl %s model %s", vh.Clip(vh.Hex(c.bytes), 160), vh.Clip(outs[ix[i].w], 160)), c.replay())
			continue
		}
		if diff := diffRead(c, outs[ix[i].r]); diff != "" {
			if pc := searchAround(c); pc != nil {
				for _, f := range pc.propBad {
					k := pc.pt.name + ":" + f
					fails[k] = append(fails[k], propFail{pc, f})
				}
				continue
			}
			rep.Fail("correspondence", c.pt.name+":Read:state", "pack after Read differs from the model: "+vh.Clip(diff, 400), c.replay())
			continue
		}
		// carried set
		car := carriedGo(c.pt, c.ver)
		var names []string
		for f := range car {
			names = append(names, f)
		}
		sort.Strings(names)
		var mnames []string
		if outs[ix[i].x] != "-" {
			mnames = strings.Split(outs[ix[i].x], ",")
		}
		for j, n := range mnames { // the model names the wire field; ActiveStats travels as Data
			for src, dst := range derivedTransfer[c.pt.name] {
				if n == dst {
					mnames[j] = src
				}
			}
		}
		sort.Strings(mnames)
		if strings.Join(names, ",") != strings.Join(dedup(mnames), ",") {
			rep.Fail("correspondence", c.pt.name+":carried",
				fmt.Sprintf("fields carried at version %d: impl [%s] model [%s]", c.ver, strings.Join(names, ","), strings.Join(mnames, ",")), c.replay())
		}
	}
	// property failures: one key per (type, field), named after the lowest version class it fails in
	var keys []string
	for k := range fails {
		keys = append(keys, k)
	}
	sort.Strings(keys)
	for _, k := range keys {
		fs := fails[k]
		sort.SliceStable(fs, func(i, j int) bool { return fs[i].c.ver < fs[j].c.ver })
		lowest := fs[0]
		for _, f := range fs { // prefer a positive version class for the name
			if f.c.ver > 0 {
				lowest = f
				break
			}
		}
		c, f := lowest.c, lowest.field
		key := k + "@" + gateFloor(c.ver)
		summary := ""
		switch {
		case f == "#consumed":
			key = c.pt.name + ":consumed@" + gateFloor(c.ver)
			summary = fmt.Sprintf("Read left %d bytes, %d expected, after reading %d written bytes", c.avail, len(c.tail), len(c.bytes))
		case isCut(c.rec[f], c.after[f]):
			key = c.pt.name + ":cap"
			summary = fmt.Sprintf("%s.%s written with %d bytes reads back cut to %d bytes (not a documented transaction-start cap)", c.pt.name, f, len(vh.UnHex(c.rec[f][1:])), len(vh.UnHex(c.after[f][1:])))
		default:
			summary = fmt.Sprintf("%s.%s = %s written at version %d reads back as %s", c.pt.name, f, vh.Clip(c.rec[f], 80), c.ver, vh.Clip(c.after[f], 80))
		}
		rep.Count("rt.property_failures")
		for n, x := range fs {
			if n >= 3 {
				break
			}
			rep.Fail("property", key, summary, x.c.replay())
		}
	}
}

// diffRead compares the pack after Read and the bytes left with the driver's answer
// ("ok <rec> <left>"), on the wire-comparable fields
func diffRead(c *rtCase, ans string) string {
	parts := strings.Split(ans, " ")
	if len(parts) != 3 || parts[0] != "ok" {
		return "model: " + vh.Clip(ans, 100) + ", impl read ok"
	}
	m := parseRec(parts[1])
	var d []string
	for _, f := range fieldsOf(c.pt.zero()) {
		if !comparable(f.typ) {
			continue
		}
		if m[f.name] != c.after[f.name] {
			d = append(d, fmt.Sprintf("%s: impl %s model %s", f.name, vh.Clip(c.after[f.name], 60), vh.Clip(m[f.name], 60)))
		}
	}
	if parts[2] != strconv.Itoa(c.avail) {
		d = append(d, fmt.Sprintf("bytes left: impl %d model %s", c.avail, parts[2]))
	}
	return strings.Join(d, "; ")
}

// searchAround: property-directed search near a case on which model and implementation
// disagree: vary one carried field at a time and evaluate the property on the implementation
var searchBudget = 40
var searchFound = map[string]*rtCase{}

func searchAround(c *rtCase) *rtCase {
	k := c.pt.name + "@" + gateFloor(c.ver)
	if f, ok := searchFound[k]; ok {
		return f
	}
	if searchBudget <= 0 {
		return nil
	}
	searchBudget--
	f := searchAround1(c)
	if f != nil {
		searchFound[k] = f
	}
	return f
}

func searchAround1(c *rtCase) *rtCase {
	car := carriedGo(c.pt, c.ver)
	var names []string
	for f := range car {
		names = append(names, f)
	}
	sort.Strings(names)
	for _, f := range names {
		fr := fieldByName(c.pt.zero(), f)
		var alts []string
		switch fr.typ.Kind() {
		case reflect.Int16:
			alts = []string{"i5", "i-1", "i32767", "i0"}
		case reflect.Int32:
			alts = []string{"i5", "i-1", "i2147483647", "i1234567", "i0"}
		case reflect.Int64:
			alts = []string{"i5", "i-1", "i9223372036854775807", "i1234567890123", "i0"}
		case reflect.String:
			alts = []string{"s61", "s-", "s" + vh.Hex(genText(rng, 300))}
		default:
			continue
		}
		for _, a := range alts {
			rec := map[string]string{}
			for k, v := range c.rec {
				rec[k] = v
			}
			rec[f] = a
			n := &rtCase{pt: c.pt, ver: c.ver, rec: rec, tail: c.tail}
			n.run()
			if n.wOut.OK() && n.rOut.OK() && len(n.propBad) > 0 {
				return n
			}
		}
	}
	return nil
}

// fullRec: a complete record (zero values) with some fields set
func fullRec(pt *ptype, set map[string]string) map[string]string {
	rec := map[string]string{}
	for _, f := range fieldsOf(pt.zero()) {
		if f.name == "Ver" || f.name == "Flush" || !comparable(f.typ) {
			continue
		}
		switch f.typ.Kind() {
		case reflect.String:
			rec[f.name] = "s-"
		case reflect.Slice:
			rec[f.name] = "n"
		case reflect.Bool:
			rec[f.name] = "b0"
		default:
			rec[f.name] = "i0"
		}
	}
	for k, v := range set {
		rec[k] = v
	}
	return rec
}

func dedup(xs []string) []string {
	var out []string
	for i, x := range xs {
		if i == 0 || x != xs[i-1] {
			out = append(out, x)
		}
	}
	return out
}

func sizeBucket(n int) string {
	switch {
	case n < 64:
		return "<64"
	case n < 1024:
		return "<1k"
	case n < 16384:
		return "<16k"
	default:
		return ">=16k"
	}
}

// ---------------------------------------------------------------- stage topack

func stageToPack(cases []*rtCase) {
	var lines []string
	type pend struct {
		c   *rtCase
		dbc string
	}
	var pends []pend
	n := 0
	for _, c := range cases {
		if !c.wOut.OK() || !c.rOut.OK() || len(c.propBad) > 0 || !c.created {
			continue
		}
		if c.pt.name == "UdpRelayPack" {
			continue // known finding, replayed separately
		}
		if c.pt.name == "UdpActiveStackPack" && len(strings.Split(string(vh.UnHex(c.rec["Data"][1:])), ", ")) < 3 {
			continue // Process() indexes the parts (totality of Process is not part of C07)
		}
		n++
		// Read followed by Process on a fresh pack
		q, ok := implCreate("topack", c.pt, c.ver, []string{"after the round trips of stage rt"})
		if !ok {
			continue
		}
		in := gio.NewDataInputX(c.bytes)
		var o1, o2 vh.Outcome
		o1 = vh.Guard(func() { q.Read(in); q.Process() })
		var tp udp.UdpPack
		o2 = vh.Guard(func() { tp = udp.ToPack(c.pt.code, c.ver, c.bytes) })
		rep.Count("topack.calls")
		if !o1.OK() || !o2.OK() {
			key := c.pt.name + ":ToPack:" + o2.String()
			if _, ok := c.rec["Dbc"]; ok && c.pt.name != "UdpTxResultSetPack" {
				key = "SqlDbcPacks:Process:panic"
			}
			rep.Fail("property", key, "ToPack of the writer's own bytes panicked: "+vh.Clip(o1.Panic+" / "+o2.Panic, 200), c.replay())
			continue
		}
		a, b := canonMap(q, false), canonMap(tp, false)
		for f := range carriedGo(c.pt, c.ver) {
			if a[f] != b[f] {
				rep.Fail("property", c.pt.name+":ToPack:"+f, fmt.Sprintf("ToPack and Read+Process disagree on %s: %s vs %s", f, vh.Clip(b[f], 80), vh.Clip(a[f], 80)), c.replay())
			}
		}
		if d, ok := c.rec["Dbc"]; ok && (c.pt.name == "UdpTxSqlPack" || c.pt.name == "UdpTxSqlParamPack" || c.pt.name == "UdpTxDbcPack") {
			lines = append(lines, fmt.Sprintf("D %d %s", c.ver, d[1:]))
			pends = append(pends, pend{c, b["Dbc"]})
		}
		implClose("topack", c.pt, q, nil)
		implClose("topack", c.pt, tp, nil)
	}
	if len(lines) > 0 {
		outs, err := vh.RunDriver(env.Driver, lines)
		if err != nil {
			vh.Die("%v", err)
		}
		for i, p := range pends {
			if "s"+outs[i] != p.dbc {
				if maskSearch(p.c.pt.name, string(vh.UnHex(p.c.rec["Dbc"][1:])), p.c.ver) {
					continue
				}
				rep.Fail("correspondence", p.c.pt.name+":Process:Dbc",
					fmt.Sprintf("Dbc after ToPack differs from the model: impl %s model s%s", vh.Clip(p.dbc, 200), vh.Clip(outs[i], 200)), p.c.replay())
			}
		}
	}
	rep.CountN("topack.cases", n)
}

func asciiOnly(b []byte) bool {
	for _, c := range b {
		if c >= 128 {
			return false
		}
	}
	return true
}

// ---------------------------------------------------------------- stage pool

type poolConsts struct{ cleared, fresh map[string]string }

func loadPoolConsts() map[string]poolConsts {
	var lines []string
	for _, pt := range ptypes {
		lines = append(lines, "K "+pt.name)
	}
	outs, err := vh.RunDriver(env.Driver, lines)
	if err != nil {
		vh.Die("%v", err)
	}
	m := map[string]poolConsts{}
	for i, pt := range ptypes {
		parts := strings.Split(outs[i], " ")
		if len(parts) != 2 {
			vh.Die("driver K %s: %s", pt.name, outs[i])
		}
		m[pt.name] = poolConsts{parseRec(parts[0]), parseRec(parts[1])}
	}
	return m
}

type poolFail struct {
	kind, key, summary string
	replay             interface{}
}

// one history on one pack type: acquire / check / fill / (use) / release, `rounds` times
func poolHistory(pt *ptype, consts poolConsts, r *vh.Rng, rounds int, who string) (fails []poolFail, evals int, reused int) {
	var hist []string
	for n := 1; n <= rounds; n++ {
		ver := int32(r.PickInt([]int{10101, 10110, 20104, 30103, 40001, 50100, 50101, 7}))
		p, ok := implCreate("pool", pt, ver, hist)
		if !ok {
			return
		}
		evals++
		got := canonMap(p, true)
		hist = append(hist, fmt.Sprintf("acquire(ver=%d)", ver))
		// direct property: nothing of a previous use
		var res []string
		for _, f := range fieldsOf(p) {
			if f.name != "Ver" && isMarker(f.name, got[f.name]) {
				res = append(res, f.name)
			}
		}
		if got["Ver"] != fmt.Sprintf("i%d", ver) {
			res = append(res, "Ver")
		}
		if len(res) > 0 {
			for _, f := range res {
				fails = append(fails, poolFail{"property", pt.name + ":" + f + ":residue",
					fmt.Sprintf("%s from the pool still carries %s = %s of its previous use", pt.name, f, vh.Clip(got[f], 80)),
					map[string]interface{}{"stage": "pool", "type": pt.name, "who": who, "history": append([]string{}, hist...)}})
			}
		} else {
			// correspondence: the pack is the model's Clear() constants or constructor constants
			isCleared, isFresh := true, true
			var diffs []string
			for _, f := range fieldsOf(p) {
				if f.name == "Ver" {
					continue
				}
				if got[f.name] != consts.cleared[f.name] {
					isCleared = false
					diffs = append(diffs, fmt.Sprintf("%s=%s (cleared %s, fresh %s)", f.name, got[f.name], consts.cleared[f.name], consts.fresh[f.name]))
				}
				if got[f.name] != consts.fresh[f.name] {
					isFresh = false
				}
			}
			if isCleared && n > 1 {
				reused++
			}
			if !isCleared && !isFresh {
				fails = append(fails, poolFail{"correspondence", pt.name + ":pool:constants",
					"pack from the pool is neither the model's Clear() constants nor its constructor constants: " + vh.Clip(strings.Join(diffs, ", "), 300),
					map[string]interface{}{"stage": "pool", "type": pt.name, "who": who, "history": append([]string{}, hist...)}})
			}
		}
		fillMarkers(p, n, r)
		hist = append(hist, fmt.Sprintf("fill(markers %d)", n))
		if r.Chance(30) { // use it the way the clients do
			vh.Guard(func() { udp.ToBytesPack(p) })
			hist = append(hist, "write")
		}
		if r.Chance(30) {
			vh.Guard(func() { p.Process() })
			hist = append(hist, "process")
		}
		vh.Guard(func() { udp.ClosePack(p) })
		hist = append(hist, "release")
		if len(hist) > 40 {
			hist = hist[len(hist)-40:]
		}
	}
	return
}

func stagePool() {
	consts := loadPoolConsts()
	rounds := 40
	if env.Thorough {
		rounds = 400
	}
	report := func(fs []poolFail) {
		for _, f := range fs {
			rep.Fail(f.kind, f.key, f.summary, f.replay)
		}
	}
	// sequential
	for i := range ptypes {
		pt := &ptypes[i]
		fs, ev, reused := poolHistory(pt, consts[pt.name], rng.Fork(), rounds, "sequential")
		report(fs)
		rep.CountN("pool.sequential.acquires", ev)
		rep.CountN("pool.sequential.reused_after_release", reused)
		rep.Case(fmt.Sprintf("pool sequential %s rounds=%d", pt.name, rounds), ev > 1)
	}
	// 8 goroutines, every one running histories on every type
	var wg sync.WaitGroup
	for g := 0; g < 8; g++ {
		wg.Add(1)
		r := rng.Fork()
		go func(g int) {
			defer wg.Done()
			for i := range ptypes {
				pt := &ptypes[(i+g)%len(ptypes)]
				fs, ev, reused := poolHistory(pt, consts[pt.name], r, rounds, fmt.Sprintf("goroutine-%d", g))
				repMu.Lock()
				report(fs)
				rep.CountN("pool.concurrent.acquires", ev)
				rep.CountN("pool.concurrent.reused_after_release", reused)
				rep.Case(fmt.Sprintf("pool goroutine %d %s rounds=%d", g, pt.name, rounds), ev > 1)
				repMu.Unlock()
			}
		}(g)
	}
	wg.Wait()
}

// ---------------------------------------------------------------- stage proc: Process() field by field

// sortedT: a "t…" value with its entries sorted (maps have no order)
func sortedT(v string) string {
	if !strings.HasPrefix(v, "t") || v == "t-" {
		return v
	}
	xs := strings.Split(v[1:], ",")
	sort.Strings(xs)
	return "t" + strings.Join(xs, ",")
}

// stageProcess: fill a pack (all wire and derived scalar fields), run Process() once or twice and
// compare every struct field — derived pointers, maps and slices included — and the panic outcome
// with the model's Process
func stageProcess() {
	per := 70
	if env.Thorough {
		per = 1200
	}
	type job struct {
		pt   *ptype
		ver  int32
		pre  string
		post map[string]string
		out  vh.Outcome
	}
	var jobs []job
	var lines []string
	for i := range ptypes {
		pt := &ptypes[i]
		r := rng.Fork()
		for n := 0; n < per; n++ {
			ver := useVers[r.Intn(len(useVers))]
			if r.Chance(20) {
				ver = int32(r.Range(-3, 60000))
			}
			p := pt.new()
			p.SetVersion(ver)
			rec := genUseRec(r, pt)
			for _, f := range fieldsOf(p) { // derived booleans start either way
				if f.typ.Kind() == reflect.Bool && f.name != "Flush" && r.Bool() {
					rec[f.name] = "b1"
				}
			}
			applyRec(p, rec)
			if r.Chance(25) { // a pack that was processed before (derived fields already set)
				vh.Guard(func() { p.Process() })
				applyRec(p, genUseRec(r, pt))
			}
			pre := canon(p, true)
			o := vh.Guard(func() { p.Process() })
			j := job{pt, ver, pre, canonMap(p, true), o}
			jobs = append(jobs, j)
			lines = append(lines, fmt.Sprintf("Q %s %d %s", pt.name, ver, pre))
		}
	}
	outs, err := vh.RunDriver(env.Driver, lines)
	if err != nil {
		vh.Die("%v", err)
	}
	for i, j := range jobs {
		rep.Case(lines[i], true)
		rep.Count("proc.type." + j.pt.name)
		replay := map[string]interface{}{"stage": "proc", "type": j.pt.name, "ver": j.ver, "rec": j.pre}
		if !j.out.OK() {
			rep.Count("proc.panic")
			if outs[i] != "panic" {
				if (j.pt.name == "UdpTxSqlPack" || j.pt.name == "UdpTxSqlParamPack" || j.pt.name == "UdpTxDbcPack") && maskSearch(j.pt.name, "", j.ver) {
					continue
				}
				rep.Fail("correspondence", j.pt.name+":Process:panic", fmt.Sprintf("Process() panics (%s) where the model does not, on %s", vh.Clip(j.out.Panic, 100), vh.Clip(j.pre, 300)), replay)
			}
			continue
		}
		if !strings.HasPrefix(outs[i], "ok ") {
			rep.Fail("correspondence", j.pt.name+":Process:panic", fmt.Sprintf("the model's Process panics where the implementation does not, on %s", vh.Clip(j.pre, 300)), replay)
			continue
		}
		m := parseRec(outs[i][3:])
		var d []string
		for _, f := range fieldsOf(j.pt.zero()) {
			if sortedT(m[f.name]) != sortedT(j.post[f.name]) {
				d = append(d, fmt.Sprintf("%s: impl %s model %s", f.name, vh.Clip(j.post[f.name], 80), vh.Clip(m[f.name], 80)))
			}
		}
		if len(d) > 0 {
			if (j.pt.name == "UdpTxSqlPack" || j.pt.name == "UdpTxSqlParamPack" || j.pt.name == "UdpTxDbcPack") && maskSearch(j.pt.name, "", j.ver) {
				continue
			}
			rep.Fail("correspondence", j.pt.name+":Process:fields", "pack after Process() differs from the model: "+vh.Clip(strings.Join(d, "; "), 400), replay)
		}
	}
}

// ---------------------------------------------------------------- stage pool2: two uses of one pooled pack

var useTexts = []string{"1", "0", "true", "123", "-7", "2147483647", "2147483648", "-2147483649", "99999999999", "99999999999999999999999", "-99999999999999999999999", "+5", "T", "False", "abc", "/a/b?x=1", "host:8080", "http://h/p"}
var useVers = []int32{10101, 10102, 10105, 10107, 10108, 10110, 20101, 20102, 20104, 30101, 30102, 30103, 40001, 50001, 50100, 50101, 7}

// genUseRec: a record for one use of a pack that goes through Process(): optional inputs are often
// empty, often numeric text (so that the derived fields of Process() are set in one use and not in the other)
func genUseRec(r *vh.Rng, pt *ptype) map[string]string {
	rec := genRec(r, pt)
	for _, f := range fieldsOf(pt.zero()) {
		if f.typ.Kind() != reflect.String {
			continue
		}
		if _, ok := rec[f.name]; !ok {
			continue
		}
		switch {
		case r.Chance(35):
			rec[f.name] = "s-"
		case r.Chance(40):
			rec[f.name] = "s" + vh.Hex([]byte(r.PickStr(useTexts)))
		case r.Chance(50):
			rec[f.name] = "s" + vh.Hex(genText(r, r.Intn(12)))
		}
	}
	set := func(n, v string) { rec[n] = "s" + vh.Hex([]byte(v)) }
	switch pt.name {
	case "UdpActiveStackPack":
		if r.Chance(85) { // three ", " separated parts, each possibly empty / not a number
			part := func() string { return r.PickStr([]string{"", "12", "-5", "abc", "99999999999", "stack7"}) }
			set("Data", part()+", "+part()+", "+part())
		}
	case "UdpDBConPoolPack":
		if r.Chance(70) {
			w := func() string { return r.PickStr([]string{"", "7", "900", "jdbc:u", "x", "99999999999", "-99999999999", "-5"}) }
			set("Data", w()+"|"+w()+"|"+w()+"|"+w()+r.PickStr([]string{"", ",bad|x", ",1|u|2|3"}))
		} else if r.Chance(50) {
			set("Data", "nothing")
		}
	case "UdpConfigPack":
		if r.Chance(70) {
			set("Data", fmt.Sprintf("k%d=%s\n%s=%d\nnoeq", r.Intn(5), r.PickStr([]string{"", "v", "9"}), r.PickStr([]string{"", "q"}), r.Intn(99)))
		}
	case "UdpActiveStatsPack":
		if r.Chance(40) {
			rec["ActiveStats"] = "l" + vh.List([]string{"1", "2", "3"}[:r.Intn(4)])
		}
		if r.Chance(30) { // Data as it arrives from another agent: five parts, some not int16 / not numbers
			w := func() string { return r.PickStr([]string{"", "7", "-3", "40000", "99999999999", "x", "2147483647"}) }
			set("Data", w()+","+w()+","+w()+","+w()+","+w())
		}
	case "UdpTxSqlPack", "UdpTxSqlParamPack", "UdpTxDbcPack":
		if r.Chance(50) {
			set("Dbc", "user=u password=PWpool host=h")
		}
	}
	return rec
}

type use struct {
	ver  int32
	rec  map[string]string
	fill bool // true: assign the fields directly; false: decode the bytes a writer produced for rec
}

// applyUse performs one use on p: fill or decode, then Process()
func applyUse(pt *ptype, p udp.UdpPack, u use) vh.Outcome {
	return vh.Guard(func() {
		if u.fill {
			applyRec(p, u.rec)
		} else {
			b, o := goWrite(pt, u.ver, u.rec)
			if !o.OK() {
				panic("write: " + o.Panic)
			}
			if pt.name == "UdpRelayPack" {
				setCanon(p, fieldByName(p, "Len"), "i"+strconv.Itoa(len(b)))
			}
			p.Read(gio.NewDataInputX(b))
		}
		p.Process()
	})
}

var pool2Ignore = map[string]bool{"ParamPack.Time": true, "ParamPack.AbstractPack.Time": true} // UdpTxParamPack.Process reads the clock

type fieldDiff struct{ path, got, want string }

func diffsOf(q, ref udp.UdpPack) []fieldDiff {
	var out []fieldDiff
	for _, path := range packDiff(q, ref, pool2Ignore) {
		out = append(out, fieldDiff{path, showField(q, path), showField(ref, path)})
	}
	return out
}

// twoUse runs acquire → use 1 → Process → release → re-acquire → use 2 → Process and compares every
// field of the re-acquired pack — right after the re-acquisition and again after the second use —
// with a pack that never had the first use (constructor + Clear(), or constructor alone when the pool
// made a new object).  Returns the differing fields (nil = fine), whether the pool handed the same
// object back, and whether the history ran to the end.
func twoUse(pt *ptype, u1, u2 use) (bad []fieldDiff, reused bool, ran bool) {
	hist := []string{fmt.Sprintf("use1(ver=%d, fill=%v)", u1.ver, u1.fill)}
	p, ok := implCreate("pool2", pt, u1.ver, nil)
	if !ok {
		return nil, false, false
	}
	applyUse(pt, p, u1) // a panicking Process() (ill-formed Data) still leaves a used pack to release
	addr := reflect.ValueOf(p).Pointer()
	implClose("pool2", pt, p, hist)
	p = nil
	q, ok := implCreate("pool2", pt, u2.ver, append(hist, "ClosePack"))
	if !ok {
		return nil, false, false
	}
	reused = reflect.ValueOf(q).Pointer() == addr
	defer func() { vh.Guard(func() { udp.ClosePack(q) }) }()
	refNew := pt_new(pt, u2.ver) // straight from the constructor
	refClr := pt.new()            // constructor, then Clear(): what a pooled pack must be equivalent to
	if o := vh.Guard(func() { refClr.Clear(); refClr.SetVersion(u2.ver) }); !o.OK() {
		return []fieldDiff{{"Clear()", "panic: " + vh.Clip(o.Panic, 80), "no panic"}}, reused, true
	}
	pick := func() []fieldDiff {
		dClr := diffsOf(q, refClr)
		if len(dClr) == 0 {
			return nil
		}
		dNew := diffsOf(q, refNew)
		if len(dNew) == 0 && !reused {
			return nil
		}
		if reused || len(dClr) <= len(dNew) {
			return dClr
		}
		return dNew
	}
	if d := pick(); len(d) > 0 { // before the second use
		return d, reused, true
	}
	if o := applyUse(pt, q, u2); !o.OK() {
		return nil, reused, false
	}
	if !applyUse(pt, refNew, u2).OK() || !applyUse(pt, refClr, u2).OK() {
		return nil, reused, false
	}
	return pick(), reused, true
}

func useReplay(u use, pt *ptype) map[string]interface{} {
	return map[string]interface{}{"ver": u.ver, "fill": u.fill, "rec": recString(pt, u.rec)}
}

func reportTwoUse(pt *ptype, u1, u2 use, bad []fieldDiff, reused bool) {
	for _, d := range bad {
		top := d.path
		if i := strings.Index(d.path, "."); i > 0 && !strings.HasPrefix(d.path, "AbstractPack.") {
			top = d.path[:i]
		}
		rep.Fail("property", pt.name+":"+top+":residue",
			fmt.Sprintf("%s used (version %d), processed, released, re-acquired (same object: %v) and used again (version %d) differs on %s from a pack that only had the second use: %s instead of %s",
				pt.name, u1.ver, reused, u2.ver, d.path, vh.Clip(d.got, 100), vh.Clip(d.want, 100)),
			map[string]interface{}{"stage": "pool2", "type": pt.name, "use1": useReplay(u1, pt), "use2": useReplay(u2, pt)})
	}
}

func stagePool2() {
	per := 80
	if env.Thorough {
		per = 1500
	}
	for i := range ptypes {
		pt := &ptypes[i]
		r := rng.Fork()
		for n := 0; n < per; n++ {
			u1 := use{ver: useVers[r.Intn(len(useVers))], rec: genUseRec(r, pt), fill: r.Chance(40)}
			u2 := use{ver: useVers[r.Intn(len(useVers))], rec: genUseRec(r, pt), fill: r.Chance(40)}
			if r.Chance(50) {
				u2.ver = u1.ver
			}
			bad, reused, ran := twoUse(pt, u1, u2)
			rep.Case(fmt.Sprintf("pool2 %s %d %v %s | %d %v %s", pt.name, u1.ver, u1.fill, recString(pt, u1.rec), u2.ver, u2.fill, recString(pt, u2.rec)), ran)
			switch {
			case !ran:
				rep.Count("pool2.skipped(process panics or no pack)")
			case reused:
				rep.Count("pool2.same_object_back")
			default:
				rep.Count("pool2.other_object")
			}
			if len(bad) > 0 {
				reportTwoUse(pt, u1, u2, bad, reused)
			}
		}
	}
}

// ---------------------------------------------------------------- stage conc: independent writers / readers at the same time

// one item of a goroutine's stream, with what a sequential run gives for it
type concItem struct {
	pt      *ptype
	ver     int32
	rec     map[string]string
	bytes   []byte   // sequential encoding
	decoded [2]string // all fields after Read + Process on a never-used pack: constructor, constructor + Clear()
	clean   [2]string // all fields of a never-used pack with Ver set: constructor, constructor + Clear()
	ok      bool
}

// concRec: field values for goroutine g, item i — every numeric field non-zero and different from every other
// goroutine's (so that digits swapped or mixed between writers are visible), texts tagged with the goroutine
func concRec(r *vh.Rng, pt *ptype, g, i int) map[string]string {
	rec := genUseRec(r, pt)
	for _, f := range fieldsOf(pt.zero()) {
		if f.name == "Ver" || f.name == "Flush" {
			continue
		}
		switch f.typ.Kind() {
		case reflect.Int16:
			rec[f.name] = "i" + strconv.Itoa(1000*(g+1)+i%900)
		case reflect.Int32:
			rec[f.name] = "i" + strconv.Itoa((g+1)*100000007%2000000000+i*7+len(f.name))
		case reflect.Int64:
			rec[f.name] = "i" + strconv.FormatInt(int64(g+1)*1000000000000007+int64(i)*7919+int64(len(f.name)), 10)
		case reflect.String:
			if v, ok := rec[f.name]; ok && (v == "s-" || r.Chance(50)) && f.name != "Data" && f.name != "Dbc" {
				rec[f.name] = "s" + vh.Hex([]byte(fmt.Sprintf("g%d-%d-%s", g, i, f.name)))
			}
		}
	}
	if _, ok := rec["Dbc"]; ok {
		rec["Dbc"] = "s" + vh.Hex([]byte(fmt.Sprintf("user=g%d;password=PWg%dx%d host=h%d", g, g, i, i)))
	}
	if pt.name == "UdpActiveStatsPack" {
		rec["ActiveStats"] = fmt.Sprintf("l%d,%d,%d,%d,%d", g+1, 10*(g+1)+1, 100*(g+1), i%100, g*i%1000)
	}
	return rec
}

// useOnce: what one writer + reader does with an item on pack q: read the bytes, Process()
func concDecode(it *concItem, q udp.UdpPack, b []byte) (string, vh.Outcome) {
	var out string
	o := vh.Guard(func() {
		if it.pt.name == "UdpRelayPack" {
			setCanon(q, fieldByName(q, "Len"), "i"+strconv.Itoa(len(b)))
		}
		q.Read(gio.NewDataInputX(b))
		q.Process()
		out = canon(q, true)
	})
	return out, o
}

// direct access to two fields of the three hot types (no reflection: the tight loop must be fast)
func tightGet(p udp.UdpPack) (int64, string) {
	switch x := p.(type) {
	case *udp.UdpTxSqlPack:
		return x.Txid, x.Dbc
	case *udp.UdpTxEndPack:
		return x.Txid, x.Host
	case *udp.UdpTxStartPack:
		return x.Txid, x.Host
	}
	return 0, ""
}

func tightSet(p udp.UdpPack, tx int64, text string) {
	switch x := p.(type) {
	case *udp.UdpTxSqlPack:
		x.Txid, x.Dbc = tx, text
	case *udp.UdpTxEndPack:
		x.Txid, x.Host = tx, text
	case *udp.UdpTxStartPack:
		x.Txid, x.Host = tx, text
	}
}

// stageConc: G goroutines, each writing and reading back its own stream of packs at the same time; every
// encoding must be the sequentially pre-computed bytes and every decode (Read + Process on a pack from
// CreatePack, released afterwards) what a sequential run gives.  The tracer has one goroutine per transaction.
func stageConc() {
	G, rounds := 12, 25
	if env.Thorough {
		G, rounds = 16, 150
	}
	vers := []int32{10110, 20104, 30103, 50101, 10102}
	streams := make([][]*concItem, G)
	for g := 0; g < G; g++ { // sequential pre-computation
		r := rng.Fork()
		for ti := range ptypes {
			pt := &ptypes[ti]
			for vi, ver := range vers {
				if vi >= 3 && !env.Thorough && (ti+g)%2 == 0 {
					continue
				}
				it := &concItem{pt: pt, ver: ver, rec: concRec(r, pt, g, len(streams[g]))}
				b, o := goWrite(pt, ver, it.rec)
				if !o.OK() {
					continue
				}
				it.bytes = b
				refNew := pt_new(pt, ver)
				refClr := pt.new()
				vh.Guard(func() { refClr.Clear(); refClr.SetVersion(ver) })
				it.clean = [2]string{canon(refNew, true), canon(refClr, true)}
				d0, o0 := concDecode(it, refNew, b)
				d1, o1 := concDecode(it, refClr, b)
				if !o0.OK() || !o1.OK() {
					continue // Process() of this content panics also sequentially (ActiveStack with short Data)
				}
				it.decoded = [2]string{d0, d1}
				it.ok = true
				streams[g] = append(streams[g], it)
			}
		}
	}
	// the hot types: one item per (hot type, goroutine), all at the same version
	hotIters := 1500
	if env.Thorough {
		hotIters = 20000
	}
	var hot [][]*concItem
	for _, tn := range []string{"UdpTxSqlPack", "UdpTxEndPack", "UdpTxStartPack", "UdpConfigPack"} {
		row := make([]*concItem, G)
		okRow := true
		for g := 0; g < G; g++ {
			for _, it := range streams[g] {
				if it.pt.name == tn && it.ver == vers[0] {
					row[g] = it
				}
			}
			if row[g] == nil {
				okRow = false
			}
		}
		if okRow {
			hot = append(hot, row)
		}
	}
	if len(hot) == 0 {
		hotIters = 0
		hot = [][]*concItem{make([]*concItem, G)}
	}
	tightIters := 120000
	if env.Thorough {
		tightIters = 1500000
	}
	tightCodes := []uint8{udp.TX_SQL, udp.TX_END, udp.TX_START}
	var tightBad []string
	type bad struct {
		it        *concItem
		g         int
		what, got string
	}
	var mu sync.Mutex
	var bads []bad
	var ops int64
	start := make(chan struct{})
	var wg sync.WaitGroup
	for g := 0; g < G; g++ {
		wg.Add(1)
		go func(g int) {
			defer wg.Done()
			<-start
			n := 0
			for round := 0; round < rounds; round++ {
				for _, it := range streams[g] {
					n++
					b, o := goWrite(it.pt, it.ver, it.rec)
					if !o.OK() || string(b) != string(it.bytes) {
						mu.Lock()
						bads = append(bads, bad{it, g, "encoding", vh.Clip(vh.Hex(b), 200) + o.Panic})
						mu.Unlock()
						continue
					}
					var q udp.UdpPack
					if oc := vh.Guard(func() { q = udp.CreatePack(it.pt.code, it.ver) }); !oc.OK() || q == nil || reflect.ValueOf(q).IsNil() {
						mu.Lock()
						bads = append(bads, bad{it, g, "CreatePack", oc.Panic})
						mu.Unlock()
						continue
					}
					if c0 := canon(q, true); c0 != it.clean[0] && c0 != it.clean[1] {
						mu.Lock()
						bads = append(bads, bad{it, g, "pack just obtained from CreatePack (before Read)", vh.Clip(c0, 300)})
						mu.Unlock()
					}
					d, od := concDecode(it, q, b)
					vh.Guard(func() { udp.ClosePack(q) })
					if !od.OK() || (d != it.decoded[0] && d != it.decoded[1]) {
						mu.Lock()
						bads = append(bads, bad{it, g, "decode", vh.Clip(d, 300) + od.Panic})
						mu.Unlock()
					}
				}
			}
			// hot phase: every goroutine on the same few types, several packs held at once (so that the pool
			// hands objects from one goroutine to another); a pack must be clean when it is handed out and must
			// still hold what this goroutine put into it after a busy window (a Clear() arriving late from another
			// goroutine's ClosePack would wipe it)
			for iter := 0; iter < hotIters; iter++ {
				it := hot[(iter+g)%len(hot)][g]
				var held []udp.UdpPack
				var filled []string
				for k := 0; k < 3; k++ {
					var q udp.UdpPack
					if oc := vh.Guard(func() { q = udp.CreatePack(it.pt.code, it.ver) }); !oc.OK() || q == nil || reflect.ValueOf(q).IsNil() {
						mu.Lock()
						bads = append(bads, bad{it, g, "CreatePack", oc.Panic})
						mu.Unlock()
						continue
					}
					if c0 := canon(q, true); c0 != it.clean[0] && c0 != it.clean[1] {
						mu.Lock()
						bads = append(bads, bad{it, g, "pack just obtained from CreatePack (before Read)", vh.Clip(c0, 300)})
						mu.Unlock()
					}
					d, od := concDecode(it, q, it.bytes)
					if !od.OK() || (d != it.decoded[0] && d != it.decoded[1]) {
						mu.Lock()
						bads = append(bads, bad{it, g, "decode", vh.Clip(d, 300) + od.Panic})
						mu.Unlock()
					}
					held = append(held, q)
					filled = append(filled, d)
				}
				for spin := 0; spin < 40; spin++ { // busy window; no verdict depends on its length
					runtime.Gosched()
				}
				for k, q := range held {
					if d2 := canon(q, true); d2 != filled[k] {
						mu.Lock()
						bads = append(bads, bad{it, g, "pack held by the goroutine, re-read after a busy window (fields wiped or changed by someone else)", vh.Clip(d2, 300)})
						mu.Unlock()
					}
				}
				for _, q := range held {
					vh.Guard(func() { udp.ClosePack(q) })
				}
				n += len(held)
			}
			// tight phase: create → must be clean → fill → short spin → must still be filled → release, two packs at a
			// time (the second release goes to the pool's shared queue, where other goroutines take it), with direct
			// field access so that the loop is as fast as the tracer's
			mark := int64(g+1)*1000003 + 17
			text := fmt.Sprintf("g%d", g)
			for iter := 0; iter < tightIters; iter++ {
				var ps [2]udp.UdpPack
				for k := 0; k < 2; k++ {
					code := tightCodes[(iter+k)%len(tightCodes)]
					o := vh.Guard(func() { ps[k] = udp.CreatePack(code, 50100) })
					if !o.OK() || ps[k] == nil {
						continue
					}
					if tx, tv := tightGet(ps[k]); tx != 0 || tv != "" {
						mu.Lock()
						if len(tightBad) < 20 {
							tightBad = append(tightBad, fmt.Sprintf("goroutine %d: %T from CreatePack carries Txid=%d text=%q of another use", g, ps[k], tx, tv))
						}
						mu.Unlock()
					}
					tightSet(ps[k], mark, text)
				}
				for spin := 0; spin < 3; spin++ {
					runtime.Gosched()
				}
				for k := 0; k < 2; k++ {
					if ps[k] == nil {
						continue
					}
					if tx, tv := tightGet(ps[k]); tx != mark || tv != text {
						mu.Lock()
						if len(tightBad) < 20 {
							tightBad = append(tightBad, fmt.Sprintf("goroutine %d: a %T it holds and filled with Txid=%d text=%q now has Txid=%d text=%q", g, ps[k], mark, text, tx, tv))
						}
						mu.Unlock()
					}
					q := ps[k]
					vh.Guard(func() { udp.ClosePack(q) })
				}
				n += 2
			}
			mu.Lock()
			ops += int64(n)
			mu.Unlock()
		}(g)
	}
	close(start)
	wg.Wait()
	for _, tb := range tightBad {
		rep.Fail("property", "Pool:differs-under-concurrency", tb+fmt.Sprintf(" (%d goroutines creating, filling and releasing packs of three types at the same time)", G),
			map[string]interface{}{"stage": "conc", "goroutines": G, "what": tb})
	}
	rep.CountN("conc.write_read_process_ops", int(ops))
	rep.CountN("conc.goroutines", G)
	for g := 0; g < G; g++ {
		rep.Case(fmt.Sprintf("conc goroutine %d: %d items × %d rounds", g, len(streams[g]), rounds), len(streams[g]) > 0)
	}
	for _, b := range bads {
		want := vh.Clip(vh.Hex(b.it.bytes), 200)
		if b.what == "decode" || strings.HasPrefix(b.what, "pack held") {
			want = vh.Clip(b.it.decoded[1], 300)
		}
		if strings.HasPrefix(b.what, "pack just obtained") {
			want = vh.Clip(b.it.clean[1], 300)
		}
		rep.Fail("property", b.it.pt.name+":differs-under-concurrency",
			fmt.Sprintf("%s version %d, with %d goroutines writing and reading their own packs at the same time: the %s of goroutine %d's pack is %s; sequentially it is %s",
				b.it.pt.name, b.it.ver, G, b.what, b.g, b.got, want),
			map[string]interface{}{"stage": "conc", "type": b.it.pt.name, "ver": b.it.ver, "rec": recString(b.it.pt, b.it.rec), "goroutines": G})
	}
}

// ---------------------------------------------------------------- stage fault: failing decodes in pool histories

// stageFault: ToPack / ReadPack of truncated and corrupted datagrams (every pack type, cut at every offset of
// a short encoding — hence at every field boundary, in particular right after the password-bearing Dbc —, length
// prefixes damaged), interleaved with CreatePack of the same type.  Whatever the failing decode did (panic inside
// Read or Process, half-read pack), every pack handed out afterwards must be a never-used pack on every field;
// the datagrams carry a password marker that must not be reachable from it.
func stageFault() {
	r := rng.Fork()
	vers := []int32{50100, 10110, 20104}
	if env.Thorough {
		vers = []int32{50100, 50101, 10110, 10101, 20104, 30103, 40001}
	}
	n := 0
	for ti := range ptypes {
		pt := &ptypes[ti]
		for _, ver := range vers {
			rec := concRec(r, pt, 7, n)
			for _, f := range fieldsOf(pt.zero()) { // short texts: the whole encoding stays small
				if f.typ.Kind() == reflect.String && f.name != "Dbc" && f.name != "Data" {
					rec[f.name] = "s" + vh.Hex([]byte("STALE-"+f.name))
				}
			}
			if _, ok := rec["Dbc"]; ok {
				rec["Dbc"] = "s" + vh.Hex([]byte("user=u;password=PWSTALEx9 host=h"))
			}
			full, o := goWrite(pt, ver, rec)
			if !o.OK() {
				continue
			}
			var grams [][]byte
			for cut := 0; cut < len(full); cut++ {
				if len(full) > 400 && cut%7 != 0 {
					continue
				}
				grams = append(grams, full[:cut])
			}
			for k := 0; k < 12 && len(full) > 2; k++ { // damaged bytes (length prefixes among them)
				g := append([]byte{}, full...)
				i := r.Intn(len(g))
				g[i] = byte(r.PickInt([]int{0xff, 0x7f, 0x80, 0x00, int(g[i]) + 1}))
				grams = append(grams, g)
			}
			for _, gram := range grams {
				n++
				hist := []string{fmt.Sprintf("ToPack(%s, %d, %s)", pt.name, ver, vh.Clip(vh.Hex(gram), 400))}
				var tp udp.UdpPack
				od := vh.Guard(func() { tp = udp.ToPack(pt.code, ver, gram) })
				if od.OK() {
					rep.Count("fault.decode_ok")
					if tp != nil && !reflect.ValueOf(tp).IsNil() {
						implClose("fault", pt, tp, hist) // the caller owns a pack it was given
						hist = append(hist, "ClosePack")
					}
				} else {
					rep.Count("fault.decode_panics")
					hist[0] += " panics"
				}
				var got []udp.UdpPack
				for k := 0; k < 2; k++ {
					q, ok := implCreate("fault", pt, ver, hist)
					hist = append(hist, fmt.Sprintf("CreatePack(%s, %d)", pt.name, ver))
					if !ok {
						break
					}
					if ds := cleanDiff(pt, q, ver, nil); len(ds) > 0 {
						var fs []string
						for _, d := range ds {
							fs = append(fs, fmt.Sprintf("%s = %s (never-used: %s)", d.path, vh.Clip(d.got, 60), vh.Clip(d.want, 30)))
						}
						failSafe("property", pt.name+":stale-after-failed-decode",
							"a pack from CreatePack after a failing decode of the same type is not a never-used pack: "+vh.Clip(strings.Join(fs, "; "), 500), histReplay("fault", pt.name, hist))
					} else if all := canon(q, true); strings.Contains(all, vh.Hex([]byte("PWSTALE"))) || strings.Contains(all, vh.Hex([]byte("STALE-"))) {
						failSafe("property", pt.name+":stale-after-failed-decode", "a pack from CreatePack after a failing decode still reaches values of the failed datagram: "+vh.Clip(all, 300), histReplay("fault", pt.name, hist))
					}
					got = append(got, q)
				}
				for _, q := range got {
					implClose("fault", pt, q, hist)
				}
				rep.Case(fmt.Sprintf("fault %s %d %s", pt.name, ver, vh.Hex(gram)), true)
			}
		}
	}
	rep.CountN("fault.datagrams", n)
}

// ---------------------------------------------------------------- stage route: pools across types

// cleanDiff: how a pack just obtained from CreatePack differs from a never-used pack (constructor +
// Clear(), or the constructor alone); nil = it is one of the two
func cleanDiff(pt *ptype, q udp.UdpPack, ver int32, then func(udp.UdpPack) vh.Outcome) []fieldDiff {
	refNew := pt_new(pt, ver)
	refClr := pt.new()
	if o := vh.Guard(func() { refClr.Clear(); refClr.SetVersion(ver) }); !o.OK() {
		return []fieldDiff{{"Clear()", "panic: " + vh.Clip(o.Panic, 80), "no panic"}}
	}
	if then != nil {
		if !then(refNew).OK() || !then(refClr).OK() {
			return nil // the use itself does not work on a fresh pack: not a pool matter
		}
	}
	dClr := diffsOf(q, refClr)
	if len(dClr) == 0 {
		return nil
	}
	dNew := diffsOf(q, refNew)
	if len(dNew) == 0 {
		return nil
	}
	if len(dClr) <= len(dNew) {
		return dClr
	}
	return dNew
}

func reportResidue(stage string, pt *ptype, ds []fieldDiff, what string, hist []string) {
	for _, d := range ds {
		top := d.path
		if i := strings.Index(d.path, "."); i > 0 && !strings.HasPrefix(d.path, "AbstractPack.") {
			top = d.path[:i]
		}
		failSafe("property", pt.name+":"+top+":residue",
			fmt.Sprintf("%s %s differs on %s from a never-used pack: %s instead of %s", pt.name, what, d.path, vh.Clip(d.got, 100), vh.Clip(d.want, 100)),
			histReplay(stage, pt.name, hist))
	}
}

// checkCreated: a pack handed out by CreatePack is clean, and reading a writer's bytes into it gives
// what reading them into a never-used pack gives
func checkCreated(stage string, pt *ptype, q udp.UdpPack, ver int32, r *vh.Rng, hist []string) {
	if ds := cleanDiff(pt, q, ver, nil); len(ds) > 0 {
		reportResidue(stage, pt, ds, "from CreatePack", hist)
		return
	}
	rec := genUseRec(r, pt)
	b, o := goWrite(pt, ver, rec)
	if !o.OK() {
		return
	}
	read := func(p udp.UdpPack) vh.Outcome {
		return vh.Guard(func() {
			if pt.name == "UdpRelayPack" {
				setCanon(p, fieldByName(p, "Len"), "i"+strconv.Itoa(len(b)))
			}
			p.Read(gio.NewDataInputX(b))
		})
	}
	if o := read(q); !o.OK() {
		failSafe("property", pt.name+":Read:panic", "Read of a writer's bytes into a pack from CreatePack panics: "+vh.Clip(o.Panic, 160), histReplay(stage, pt.name, hist))
		return
	}
	if ds := cleanDiff(pt, q, ver, read); len(ds) > 0 {
		reportResidue(stage, pt, ds, "from CreatePack, after reading a writer's bytes,", hist)
	}
}

func useAndFill(pt *ptype, p udp.UdpPack, n int, r *vh.Rng) {
	vh.Guard(func() { fillMarkers(p, n, r) })
	if r.Chance(40) {
		vh.Guard(func() { p.Process() })
	}
}

// stageRoute: (1) for every ordered pair of pack types (A, B): create A, use it, release it, then create
// B several times — every B must have B's concrete type, be clean and read like a never-used pack;
// (2) random histories of create / use / release over all types with several packs alive.
func stageRoute() {
	r := rng.Fork()
	n := 0
	for i := range ptypes {
		for j := range ptypes {
			A, B := &ptypes[i], &ptypes[j]
			verA, verB := useVers[r.Intn(len(useVers))], useVers[r.Intn(len(useVers))]
			var hist []string
			a, ok := implCreate("route", A, verA, hist)
			if !ok {
				continue
			}
			hist = append(hist, fmt.Sprintf("CreatePack(%s, %d)", A.name, verA), "fill with markers")
			n++
			useAndFill(A, a, n, r)
			if !implClose("route", A, a, hist) {
				continue
			}
			hist = append(hist, fmt.Sprintf("ClosePack(%s)", A.name))
			var bs []udp.UdpPack
			for k := 0; k < 3; k++ {
				b, ok := implCreate("route", B, verB, hist)
				hist = append(hist, fmt.Sprintf("CreatePack(%s, %d)", B.name, verB))
				if !ok {
					break
				}
				checkCreated("route", B, b, verB, r, hist)
				bs = append(bs, b)
			}
			for _, b := range bs {
				implClose("route", B, b, hist)
			}
			rep.Case(fmt.Sprintf("route %s→%s", A.name, B.name), true)
			rep.Count("route.pairs")
		}
	}
	// random histories
	nh, steps := 8, 150
	if env.Thorough {
		nh, steps = 60, 400
	}
	for h := 0; h < nh; h++ {
		type live struct {
			pt *ptype
			p  udp.UdpPack
		}
		var alive []live
		var hist []string
		focus := []*ptype{&ptypes[r.Intn(len(ptypes))], &ptypes[r.Intn(len(ptypes))], &ptypes[r.Intn(len(ptypes))]}
		for st := 0; st < steps; st++ {
			switch {
			case len(alive) == 0 || (len(alive) < 6 && r.Chance(50)):
				pt := focus[r.Intn(len(focus))] // few types: the same pools are hit again and again
				if r.Chance(30) {
					pt = &ptypes[r.Intn(len(ptypes))]
				}
				ver := useVers[r.Intn(len(useVers))]
				p, ok := implCreate("route", pt, ver, hist)
				hist = append(hist, fmt.Sprintf("CreatePack(%s, %d)", pt.name, ver))
				if !ok {
					continue
				}
				checkCreated("route", pt, p, ver, r, hist)
				n++
				useAndFill(pt, p, n, r)
				hist = append(hist, "use")
				alive = append(alive, live{pt, p})
				rep.Count("route.history.creates")
			default:
				k := r.Intn(len(alive))
				l := alive[k]
				alive = append(alive[:k], alive[k+1:]...)
				implClose("route", l.pt, l.p, hist)
				hist = append(hist, fmt.Sprintf("ClosePack(%s)", l.pt.name))
			}
			if len(hist) > 80 {
				hist = hist[len(hist)-80:]
			}
		}
		for _, l := range alive {
			implClose("route", l.pt, l.p, hist)
		}
		rep.Case(fmt.Sprintf("route history %d", h), true)
	}
}

// ---------------------------------------------------------------- stage paramkv: key=value texts with white space

// refToPair / refToStringStr: the intended behaviour of paramtext.ParamKV written down independently
// (split at the separator; a token's key and value are the trimmed texts around its first '=';
// the last token with a key gives the key's value; ToStringStr replaces the value of an existing key)
func refToPair(tok string) (string, string) {
	i := strings.Index(tok, "=")
	if i < 0 {
		return "", ""
	}
	return strings.TrimSpace(tok[:i]), strings.TrimSpace(tok[i+1:])
}

func refToStringStr(s, sep, key, val string) string {
	toks := strings.Split(s, sep)
	m := map[string]string{}
	for _, t := range toks {
		if k, v := refToPair(t); k != "" {
			m[k] = v
		}
	}
	if _, ok := m[key]; ok {
		m[key] = val
	}
	out := make([]string, len(toks))
	for i, t := range toks {
		if k, _ := refToPair(t); k != "" {
			out[i] = k + "=" + m[k]
		} else {
			out[i] = t
		}
	}
	return strings.Join(out, sep)
}

var kvKeys = []string{"password", "Password", "PASSWORD", "pass", "passwor", "password2", "xpassword", "pwd", "user", "k", "word", "ssword"}
var kvWs = []string{"", "", "", " ", "\t", "  ", " \t", "\t "}

type kvText struct {
	s       string
	sep     string
	key     string
	secrets []string // values of the tokens whose trimmed key is `key`
	shape   string
}

// genKvText: tokens `ws key ws = ws value ws` joined by sep; repeated keys, keys that are prefixes /
// suffixes / case variants of the key, empty values
func genKvText(r *vh.Rng, sep string, wsSet []string) kvText {
	key := "password"
	if r.Chance(25) {
		key = r.PickStr(kvKeys)
	}
	n := r.PickInt([]int{1, 2, 3, 3, 4, 6, 9})
	var toks []string
	var secrets []string
	has := false
	selfKv := false
	ws := func() string { return r.PickStr(wsSet) }
	for i := 0; i < n; i++ {
		k := r.PickStr(kvKeys)
		if (i == n-1 && !has) || r.Chance(25) {
			k = key
		}
		v := genPlain(r, 8)
		if strings.ContainsAny(v, " ;&=\t") {
			v = "v"
		}
		if r.Chance(15) {
			v = ""
		}
		if k == key {
			has = true
			secretN++
			v = fmt.Sprintf("PW%dx", secretN)
			if r.Chance(10) {
				v = ""
			} else {
				if r.Chance(15) { // the value's text also occurs in its key / in an earlier token
					v = selfValue(r, k, toks)
					selfKv = true
				}
				secrets = append(secrets, v)
			}
		}
		toks = append(toks, ws()+k+ws()+"="+ws()+v+ws())
	}
	shape := "sep" + map[string]string{" ": "blank", ";": "semicolon", "&": "amp", "mix": "mixed"}[sep]
	if selfKv {
		shape += "+selfref"
	}
	if sep == "mix" {
		var b strings.Builder
		for i, t := range toks {
			if i > 0 {
				b.WriteString(r.PickStr([]string{" ", ";"}))
			}
			b.WriteString(t)
		}
		return kvText{b.String(), sep, key, secrets, shape}
	}
	return kvText{strings.Join(toks, sep), sep, key, secrets, shape}
}

// kvValueHas: some token of s (split at sep) has sec inside its value (the text after its first '=')
func kvValueHas(s, sep, sec string) bool {
	for _, tok := range strings.Split(s, sep) {
		if i := strings.Index(tok, "="); i >= 0 && strings.Contains(tok[i+1:], sec) {
			return true
		}
	}
	return false
}

func stageParamKV() {
	n := 1200
	if env.Thorough {
		n = 15000
	}
	r := rng.Fork()
	type job struct {
		t    kvText
		val  string
		impl string
		out  vh.Outcome
	}
	var jobs []job
	var lines []string
	for i := 0; i < n; i++ {
		sep := r.PickStr([]string{";", "&", " ", ";", "&"})
		wsSet := kvWs
		if sep == " " && r.Chance(50) {
			wsSet = []string{"", "", "\t"}
		}
		t := genKvText(r, sep, wsSet)
		val := r.PickStr([]string{"#", "#", "***", ""})
		var out string
		o := vh.Guard(func() { out = paramtext.NewParamKVSeperate(t.s, t.sep, "=").ToStringStr(t.key, val) })
		jobs = append(jobs, job{t, val, out, o})
		lines = append(lines, fmt.Sprintf("M %d %s %s %s", t.sep[0], vh.Hex([]byte(t.key)), vh.Hex([]byte(val)), vh.Hex([]byte(t.s))))
	}
	outs, err := vh.RunDriver(env.Driver, lines)
	if err != nil {
		vh.Die("%v", err)
	}
	kvExplained := false
	var mismatches []int
	for i, j := range jobs {
		rep.Case("kv "+j.t.sep+" "+j.t.key+" "+j.t.s, strings.Contains(j.t.s, "="))
		rep.Count("paramkv." + j.t.shape)
		replay := map[string]interface{}{"stage": "paramkv", "text": vh.Hex([]byte(j.t.s)), "sep": j.t.sep, "key": j.t.key, "val": j.val}
		if !j.out.OK() {
			rep.Fail("property", "ParamKV:ToStringStr:panic", fmt.Sprintf("NewParamKVSeperate(%q, %q, \"=\").ToStringStr(%q, %q) panics: %s", vh.Clip(j.t.s, 120), j.t.sep, j.t.key, j.val, vh.Clip(j.out.Panic, 100)), replay)
			continue
		}
		ref := refToStringStr(j.t.s, j.t.sep, j.t.key, j.val)
		// direct property: no token of the result has the key with another value; a value of the key that the
		// intended behaviour removes is not in the result
		bad := ""
		for _, tok := range strings.Split(j.impl, j.t.sep) {
			if k, v := refToPair(tok); k == j.t.key && v != j.val {
				bad = fmt.Sprintf("token %q keeps its value", tok)
			}
		}
		for _, sec := range j.t.secrets {
			if strings.Contains(j.impl, sec) && !strings.Contains(ref, sec) {
				bad = fmt.Sprintf("the value %q of the key survives", sec)
			}
			// value position: a token of the result has the removed value after its '=' although no token of the
			// intended result has (the value's text may legitimately stay inside a key: password=word)
			if sec != "" && sec != j.val && kvValueHas(j.impl, j.t.sep, sec) && !kvValueHas(ref, j.t.sep, sec) {
				bad = fmt.Sprintf("the value %q of the key survives as the value of a token", sec)
			}
		}
		if bad != "" {
			kvExplained = true
			rep.Fail("property", "ParamKV:ToStringStr:value-kept",
				fmt.Sprintf("NewParamKVSeperate(%q, %q, \"=\").ToStringStr(%q, %q) = %q: %s", vh.Clip(j.t.s, 160), j.t.sep, j.t.key, j.val, vh.Clip(j.impl, 160), bad), replay)
			continue
		}
		model := string(vh.UnHex(outs[i]))
		if j.impl != ref || j.impl != model {
			mismatches = append(mismatches, i)
		}
	}
	for _, i := range mismatches { // differences without a failing input (unless one was exhibited above)
		j := jobs[i]
		ref := refToStringStr(j.t.s, j.t.sep, j.t.key, j.val)
		model := string(vh.UnHex(outs[i]))
		replay := map[string]interface{}{"stage": "paramkv", "text": vh.Hex([]byte(j.t.s)), "sep": j.t.sep, "key": j.t.key, "val": j.val}
		if !kvExplained {
			rep.Fail("correspondence", "ParamKV:ToStringStr:text",
				fmt.Sprintf("ToStringStr(%q, %q) on %q with separator %q: impl %q, reference %q, model %q", j.t.key, j.val, vh.Clip(j.t.s, 120), j.t.sep, vh.Clip(j.impl, 120), vh.Clip(ref, 120), vh.Clip(model, 120)), replay)
		}
	}
	// the same texts as connection strings: tokens with tabs around '=' and around the tokens (TrimSpace removes
	// them, so these are key=value tokens of the grammar after trimming), separated by ';', ' ' or both; after
	// Process() of a Go / PHP pack no password value is left.  (With *blanks* inside the tokens the blank pass
	// cuts the tokens apart and the unchanged code keeps values: outside the property's grammar, not asserted.)
	m := n / 2
	tn := []string{"UdpTxSqlPack", "UdpTxSqlParamPack", "UdpTxDbcPack"}
	for i := 0; i < m; i++ {
		t := genKvText(r, r.PickStr([]string{";", ";", " ", "mix"}), []string{"", "", "\t", "\t\t", "\n", "\t\r"})
		if t.key != "password" {
			continue
		}
		for _, ver := range []int32{50100, 10110, maskFamilyVers[i%len(maskFamilyVers)]} { // + one of the whole-range samples of the two families
			tname := tn[i%3]
			out, o := processDbc(tname, ver, t.s)
			rep.Case(fmt.Sprintf("kvdbc %s %d %s", tname, ver, t.s), true)
			rep.Count("paramkv.dbc")
			replay := map[string]interface{}{"stage": "mask", "type": tname, "ver": ver, "dbc": vh.Hex([]byte(t.s)), "grammar": true, "secrets": t.secrets}
			if !o.OK() {
				rep.Fail("property", "SqlDbcPacks:Process:panic", fmt.Sprintf("%s.Process() at version %d panics on %q: %s", tname, ver, vh.Clip(t.s, 120), vh.Clip(o.Panic, 100)), replay)
				continue
			}
			for _, sec := range t.secrets {
				if where, _ := secretLeft(t.s, out, sec); where != "" {
					rep.Fail("property", "SqlDbcPacks:Process:password",
						fmt.Sprintf("%s.Process() at version %d turns Dbc %q into %q, which still has the password value %q %s", tname, ver, vh.Clip(t.s, 160), vh.Clip(out, 160), sec, where), replay)
					break
				}
			}
		}
	}
}

// ---------------------------------------------------------------- stage mask

var plainKeys = []string{"user", "password", "host", "port", "dbname", "sslmode", "Password", "PASSWORD", "pwd", "password2", "xpassword", "pass", "a", "k1"}

const plainChars = "abcdefghijklmnopqrstuvwxyzABCDEFGHIJKLMNOPQRSTUVWXYZ0123456789#@:/._-+*!$%&()[]{}<>?,'\"\\|~^`"

// characters whose lower-case form has a different UTF-8 length, other non-ASCII text, invalid bytes
var oddPieces = []string{"\u023a", "\u023e", "\u0130", "\u212a", "\u00df", "\u00e9", "\u4e2d", "\xff", "\xc3", "\xe2\x80"}

func genPlain(r *vh.Rng, max int) string {
	n := r.Intn(max + 1)
	var b strings.Builder
	for i := 0; i < n; i++ {
		if r.Chance(6) {
			b.WriteString(r.PickStr(oddPieces))
		} else {
			b.WriteByte(plainChars[r.Intn(len(plainChars))])
		}
	}
	return b.String()
}

type connStr struct {
	s       string
	grammar bool     // built from key=value tokens (keys, values free of ' ', ';', '=', white space), separators ' ' or ';'
	secrets []string // the values of the password keys
	shape   string
}

var secretN int

// token counts: short strings, and counts around 20 / far beyond (a tokenizer with a cap on the
// number of pieces — strings.SplitN — would keep the rest of the string inside the last value)
var longCounts = []int{19, 20, 21, 22, 40, 200}

// pwPositions: where the password tokens sit in a string of n tokens
func pwPositions(r *vh.Rng, n int) map[int]bool {
	pos := map[int]bool{}
	if n == 0 {
		return pos
	}
	cands := []int{0, n / 2, n - 1, 19, 20, 21}
	k := 1
	if r.Chance(30) { // repeated password keys
		k = 2 + r.Intn(2)
	}
	for i := 0; i < k; i++ {
		c := r.PickInt(cands)
		if c >= n {
			c = n - 1
		}
		pos[c] = true
	}
	return pos
}

func genValue(r *vh.Rng) string {
	v := genPlain(r, 10)
	switch {
	case r.Chance(10):
		v = "#"
	case r.Chance(3): // very long value
		n := r.PickInt([]int{300, 1000, 3000})
		var b strings.Builder
		for b.Len() < n {
			b.WriteString(genPlain(r, 40))
			b.WriteByte('x')
		}
		v = b.String()
	}
	return v
}

// selfValue: a value whose text also occurs elsewhere in the connection string — a piece of its own key
// (password=word, password=ss, password=password), of an earlier token, two pieces of the key.  A masking
// that finds the value by searching the token / the string for its text instead of by position replaces
// the wrong occurrence on exactly these.
func selfValue(r *vh.Rng, key string, prev []string) string {
	pick := func(src string) string {
		if src == "" {
			return ""
		}
		i := r.Intn(len(src))
		return src[i : i+1+r.Intn(len(src)-i)]
	}
	v := ""
	switch r.Intn(7) {
	case 0, 1:
		v = pick(key)
	case 2:
		v = key
	case 3:
		if len(prev) > 0 {
			v = pick(prev[len(prev)-1])
		}
	case 4:
		if len(prev) > 0 {
			v = pick(prev[r.Intn(len(prev))])
		}
	case 5:
		v = pick(key) + pick(key)
	case 6:
		v = key[:1+r.Intn(len(key))] // a prefix of the key
	}
	if v == "" || v == "#" || strings.ContainsAny(v, " ;=&\t\n\r\v\f") || strings.TrimSpace(v) != v {
		v = key[len(key)/2:]
	}
	return v
}

func buildConn(r *vh.Rng, ntok int, pw map[int]bool, sepMode int) connStr {
	return buildConnSelf(r, ntok, pw, sepMode, 0)
}

// buildConnSelf: selfPct = how often (percent) a value is made from text that occurs elsewhere in the string
func buildConnSelf(r *vh.Rng, ntok int, pw map[int]bool, sepMode int, selfPct int) connStr {
	var toks []string
	var secrets []string
	self := false
	for i := 0; i < ntok; i++ {
		k := r.PickStr(plainKeys)
		if r.Chance(20) {
			k = genPlain(r, 6)
		}
		v := genValue(r)
		if pw[i] {
			k = "password"
		}
		if k == "password" && (pw[i] || r.Chance(80)) {
			if selfPct > 0 && r.Chance(selfPct) {
				v = selfValue(r, k, toks)
				self = true
			} else {
				secretN++
				v = fmt.Sprintf("PW%dx", secretN) + genPlain(r, 3)
				if r.Chance(5) {
					v += genValue(r)
				}
			}
			secrets = append(secrets, v)
		} else if selfPct > 0 && k != "" && r.Chance(selfPct/2) {
			v = selfValue(r, k, toks)
			self = true
		}
		toks = append(toks, k+"="+v)
	}
	shape := "uniform-space"
	sepOf := func(i int) string { return " " }
	switch sepMode {
	case 1:
		shape = "uniform-semicolon"
		sepOf = func(i int) string { return ";" }
	case 2:
		shape = "mixed"
		sepOf = func(i int) string { return r.PickStr([]string{" ", ";"}) }
	}
	var b strings.Builder
	for i, t := range toks {
		if i > 0 {
			b.WriteString(sepOf(i))
		}
		b.WriteString(t)
	}
	cs := connStr{b.String(), true, secrets, shape}
	switch {
	case ntok >= 40:
		cs.shape += "+tokens>=40"
	case ntok >= 19:
		cs.shape += "+tokens19-22"
	}
	if !asciiOnly([]byte(cs.s)) {
		cs.shape += "+non-ascii"
	}
	if self {
		cs.shape += "+selfref"
	}
	return cs
}

// systematic self-referential passwords: every piece of the key "password" as the password, first / middle /
// last of three tokens, every separator mode
func selfRefConns() []connStr {
	var out []connStr
	seen := map[string]bool{}
	key := "password"
	for i := 0; i < len(key); i++ {
		for j := i + 1; j <= len(key); j++ {
			v := key[i:j]
			if seen[v] {
				continue
			}
			seen[v] = true
			for sm, seps := range [][2]string{{" ", " "}, {";", ";"}, {";", " "}, {" ", ";"}} {
				shape := []string{"uniform-space", "uniform-semicolon", "mixed", "mixed"}[sm] + "+selfref"
				for pos := 0; pos < 3; pos++ {
					toks := []string{"host=db1", "user=app"}
					pwTok := "password=" + v
					toks = append(toks[:pos], append([]string{pwTok}, toks[pos:]...)...)
					out = append(out, connStr{toks[0] + seps[0] + toks[1] + seps[1] + toks[2], true, []string{v}, shape})
				}
			}
			out = append(out, connStr{"password=" + v, true, []string{v}, "uniform-space+selfref"})
		}
	}
	return out
}

// systematic long strings: every count × separator mode × password position
func fixedLongConns(r *vh.Rng) []connStr {
	var out []connStr
	for _, n := range []int{1, 2, 3, 19, 20, 21, 22, 40, 200} {
		for sep := 0; sep < 3; sep++ {
			for _, p := range []int{0, n / 2, n - 1, 19, 20, 21} {
				if p >= n {
					continue
				}
				out = append(out, buildConn(r, n, map[int]bool{p: true}, sep))
			}
			if n >= 3 {
				out = append(out, buildConn(r, n, map[int]bool{0: true, n / 2: true, n - 1: true}, sep))
			}
		}
	}
	return out
}

func genConn(r *vh.Rng) connStr {
	ntok := r.PickInt([]int{0, 1, 1, 2, 3, 3, 4, 5, 8})
	if r.Chance(25) {
		ntok = r.PickInt(longCounts)
		if ntok == 200 && !r.Chance(30) {
			ntok = 40
		}
	}
	pw := map[int]bool{}
	if r.Chance(70) {
		pw = pwPositions(r, ntok)
	}
	selfPct := 0
	if r.Chance(15) { // values whose text occurs elsewhere in the string
		selfPct = 70
	}
	cs := buildConnSelf(r, ntok, pw, r.Intn(3), selfPct)
	if r.Chance(35) { // near-misses
		cs.grammar = false
		s := cs.s
		switch r.Intn(10) {
		case 0:
			s = strings.Replace(s, "=", " = ", 1)
			cs.shape = "near:spaces-around-eq"
		case 1:
			s = s + r.PickStr([]string{" ", ";", "; ", " ;"})
			cs.shape = "near:trailing-sep"
		case 2:
			s = strings.Replace(s, " ", "  ", 1)
			s = strings.Replace(s, ";", ";;", 1)
			cs.shape = "near:double-sep"
		case 3:
			s = strings.Replace(s, "password=", "password\t=\t", 1)
			cs.shape = "near:tab-around-eq"
		case 4:
			s = strings.Replace(s, "=", "", 1)
			cs.shape = "near:missing-eq"
		case 5:
			s = "=" + s
			cs.shape = "near:leading-eq"
		case 6:
			s = strings.Replace(s, "=", "==", 1) + " password=a=b"
			cs.shape = "near:eq-in-value"
		case 7:
			s = s + r.PickStr([]string{" password", ";password", " password ="})
			cs.shape = "near:bare-key"
		case 8:
			s = strings.Replace(s, "=", "\u00a0=\u2003", 1) + r.PickStr([]string{"\u00a0", "\u3000;", " \u0085"})
			cs.shape = "near:unicode-space"
		case 9:
			s = r.PickStr(oddPieces) + s + r.PickStr(oddPieces)
			cs.shape = "near:odd-bytes"
		}
		cs.s = s
	}
	return cs
}

// leaks: what is left of a password after Process(): a token (split at ';' and ' ') whose key is
// "password" and whose value is not "#", or a password value of the input still present
func leaks(cs connStr, out string) []string {
	var res []string
	for _, a := range strings.Split(out, ";") {
		for _, t := range strings.Split(a, " ") {
			i := strings.Index(t, "=")
			if i < 0 {
				continue
			}
			if strings.TrimSpace(t[:i]) == "password" && strings.TrimSpace(t[i+1:]) != "#" {
				res = append(res, t)
			}
		}
	}
	for _, sec := range cs.secrets {
		if where, _ := secretLeft(cs.s, out, sec); where != "" {
			res = append(res, sec+" ("+where+")")
		}
	}
	return res
}

func splitTokens(s string) []string {
	var res []string
	for _, a := range strings.Split(s, ";") {
		res = append(res, strings.Split(a, " ")...)
	}
	return res
}

// secretLeft: is the password value sec of the connection string s still in out (the string after masking)?
//   - sec occurs nowhere else in s (not in a key, not in another value): it must not occur in out at all;
//   - sec also occurs in key position only (password=word, pass=1 password=pass): no token of out may have it
//     in value position (after the token's last '=') — the key "password" legitimately still contains "word";
//   - sec also occurs in the value of a token with another key: nothing is asserted (that value stays).
// asserted = false in the last case and for the empty value / the mask text itself.
func secretLeft(s, out, sec string) (where string, asserted bool) {
	if sec == "" || sec == "#" {
		return "", false
	}
	elsewhere, innocent := false, false
	for _, tok := range splitTokens(s) {
		i := strings.Index(tok, "=")
		if i < 0 {
			if strings.Contains(tok, sec) {
				elsewhere, innocent = true, true
			}
			continue
		}
		if strings.Contains(tok[:i], sec) {
			elsewhere = true
		}
		if strings.TrimSpace(tok[:i]) != "password" && strings.Contains(tok[i+1:], sec) {
			elsewhere, innocent = true, true
		}
	}
	switch {
	case innocent:
		return "", false
	case !elsewhere:
		if strings.Contains(out, sec) {
			return "in the text", true
		}
	default:
		for _, tok := range splitTokens(out) {
			// after the token's last '=': an empty value followed by a blank makes the unchanged code glue two
			// tokens ("a= password=x" -> "a=password=#"), so the text after the first '=' may contain a key
			if i := strings.LastIndex(tok, "="); i >= 0 && strings.Contains(tok[i+1:], sec) {
				return "as the value of the token " + strconv.Quote(tok), true
			}
		}
	}
	return "", true
}

func processDbc(tname string, ver int32, dbc string) (string, vh.Outcome) {
	var out string
	o := vh.Guard(func() {
		switch tname {
		case "UdpTxSqlPack":
			p := udp.NewUdpTxSqlPack()
			p.Ver, p.Dbc = ver, dbc
			p.Process()
			out = p.Dbc
		case "UdpTxSqlParamPack":
			p := udp.NewUdpTxSqlParamPack()
			p.Ver, p.Dbc = ver, dbc
			p.Process()
			out = p.Dbc
		default:
			p := udp.NewUdpTxDbcPack()
			p.Ver, p.Dbc = ver, dbc
			p.Process()
			out = p.Dbc
		}
	})
	return out, o
}

var maskVers = []int32{50100, 50101, 50001, 50000, 40001, 30103, 20104, 20001, 20000, 10110, 10101, 10100, 0, -5}

// maskFamilyVers: the dense samples of the whole range of the two families that send raw connection
// strings (lowest version, interior values below the first gate, every gate and its neighbours,
// above the last gate, top) — filled by initFamilyVersions once the gates of the source are known
var maskFamilyVers []int32

// initFamilyVersions extends the version lists of the stages that are not driven by versions():
// the masking stage gets the dense samples of the masking families (and a few of the others, which
// must NOT be required to mask), the use histories (proc, pool2, route) the coarse samples of all
func initFamilyVersions() {
	seenM, seenU := map[int32]bool{}, map[int32]bool{}
	for _, v := range maskVers {
		seenM[v] = true
	}
	for _, v := range useVers {
		seenU[v] = true
	}
	for _, f := range families {
		for _, v := range familySamples(f, nil, 0, f.masks) {
			if f.masks {
				maskFamilyVers = append(maskFamilyVers, v)
			}
			if !seenM[v] {
				seenM[v] = true
				maskVers = append(maskVers, v)
			}
		}
		for _, v := range familySamples(f, nil, 0, false) {
			if !seenU[v] {
				seenU[v] = true
				useVers = append(useVers, v)
			}
		}
	}
}

// the families that send raw connection strings, over their whole range (Go 50001…, PHP …20000): the
// same ranges in which Write and Read of these packs take the Go / PHP branch
func inMaskFamily(ver int32) bool {
	f := familyOf(ver)
	return f != nil && f.masks
}

func maskReplay(tname string, ver int32, cs connStr) map[string]interface{} {
	return map[string]interface{}{"stage": "mask", "type": tname, "ver": ver, "dbc": vh.Hex([]byte(cs.s)), "grammar": cs.grammar, "secrets": cs.secrets}
}

// maskProperty evaluates the property on the implementation; true = it fails (reported)
func maskProperty(tname string, ver int32, cs connStr) (string, bool, bool) {
	out, o := processDbc(tname, ver, cs.s)
	if !o.OK() {
		if cs.grammar && inMaskFamily(ver) {
			rep.Fail("property", "SqlDbcPacks:Process:panic",
				fmt.Sprintf("%s.Process() at version %d panics on the connection string %q: %s", tname, ver, vh.Clip(cs.s, 120), vh.Clip(o.Panic, 120)), maskReplay(tname, ver, cs))
			return "", false, true
		}
		return "", false, false
	}
	if cs.grammar && inMaskFamily(ver) {
		if l := leaks(cs, out); len(l) > 0 {
			rep.Fail("property", "SqlDbcPacks:Process:password",
				fmt.Sprintf("%s.Process() at version %d turns Dbc %q into %q, which still has %q", tname, ver, vh.Clip(cs.s, 120), vh.Clip(out, 120), l[0]), maskReplay(tname, ver, cs))
			return out, true, true
		}
	}
	return out, true, false
}

// maskSearch: property-directed search near a string on which model and implementation disagree:
// grammar strings built from its non-ASCII pieces in key position before a password token
var maskSearchBudget = 40
var maskSearchFound = map[string]bool{}

func maskSearch(tname string, s string, ver int32) bool {
	if maskSearchFound[tname] { // a failing input near such strings has already been exhibited for this type
		return true
	}
	if maskSearchBudget <= 0 {
		return false
	}
	maskSearchBudget--
	found := maskSearch1(tname, s)
	if !found && inMaskFamily(ver) && ver != 50100 && ver != 10110 {
		// the disagreement is at another version of a masking family: the same search at that version
		searchVers = []int32{ver}
		found = maskSearch1(tname, s)
		searchVers = []int32{50100, 10110}
	}
	if !found { // plain grammar strings over the whole range of both families
		found = maskFamilySweep(tname, func(string, int32, connStr) {})
	}
	if found {
		maskSearchFound[tname] = true
	}
	return found
}

var searchVers = []int32{50100, 10110}

// the plain grammar strings of the family sweep
var sweepConns = []connStr{
	{"user=u password=PWsweep host=h", true, []string{"PWsweep"}, "sweep:uniform-space"},
	{"user=u;password=PWsweep;host=h", true, []string{"PWsweep"}, "sweep:uniform-semicolon"},
	{"a=1;b=2 password=PWsweep;c=3 d=4", true, []string{"PWsweep"}, "sweep:mixed"},
	{"password=PWsweep", true, []string{"PWsweep"}, "sweep:alone"},
	{"host=h port=1 password=PWsweep", true, []string{"PWsweep"}, "sweep:last"},
}

// maskFamilySweep: the property evaluated directly at EVERY sampled version of the whole range of
// both masking families (not only 50100 / 10110 and the gates' neighbours).  true = a failure was
// exhibited (and reported by maskProperty); each evaluated case is handed to `each`
func maskFamilySweep(tname string, each func(out string, ver int32, cs connStr)) bool {
	for _, ver := range maskFamilyVers {
		for _, cs := range sweepConns {
			out, _, bad := maskProperty(tname, ver, cs)
			if bad {
				return true
			}
			each(out, ver, cs)
		}
	}
	return false
}

func maskSearch1(tname string, s string) bool {
	// white space that TrimSpace removes around '=' and around the tokens (tabs: the blank pass does not cut them)
	for _, form := range []string{"password\t=\t%s", "password\t=%s", "password=\t%s", "\tpassword=%s\t", "a=1;password\t=\t%s", "a=1 password\t=%s;b=2", "a=1;\tpassword\t=%s\t;b=2"} {
		cs := connStr{fmt.Sprintf(form, "PWsearch"), true, []string{"PWsearch"}, "search-ws"}
		for _, ver := range searchVers {
			if _, _, bad := maskProperty(tname, ver, cs); bad {
				return true
			}
		}
	}
	// a password whose text also occurs elsewhere in its token / in the string
	for _, v := range []string{"word", "pass", "ss", "a", "d", "password", "passwor", "assword", "host", "db1", "h", "1"} {
		for _, form := range []string{"password=%s", "host=db1 password=%s", "host=db1;password=%s", "host=db1 password=%s user=u", "host=db1;password=%s;user=u", "a=1;b=2 password=%s;c=3"} {
			cs := connStr{fmt.Sprintf(form, v), true, []string{v}, "search-selfref"}
			for _, ver := range searchVers {
				if _, _, bad := maskProperty(tname, ver, cs); bad {
					return true
				}
			}
		}
	}
	// long grammar strings: a defect that depends on the number of tokens (or on the length of the
	// string) shows with the same tokens repeated
	ntoks := len(strings.FieldsFunc(s, func(c rune) bool { return c == ' ' || c == ';' }))
	for _, n := range []int{ntoks, ntoks + 1, 19, 20, 21, 22, 40, 200, 1000} {
		for _, sep := range []string{" ", ";"} {
			for _, at := range []int{n - 1, n / 2, 0} {
				if n <= 0 || at < 0 {
					continue
				}
				toks := make([]string, n)
				for i := range toks {
					toks[i] = fmt.Sprintf("k%d=v%d", i, i)
				}
				toks[at] = "password=PWsearch"
				cs := connStr{strings.Join(toks, sep), true, []string{"PWsearch"}, "search-long"}
				for _, ver := range searchVers {
					if _, _, bad := maskProperty(tname, ver, cs); bad {
						return true
					}
				}
			}
		}
	}
	var pieces []string
	for i := 0; i < len(s); {
		if s[i] < 128 {
			i++
			continue
		}
		j := i
		for j < len(s) && s[j] >= 128 {
			j++
		}
		pieces = append(pieces, s[i:j])
		i = j
	}
	pieces = append(pieces, oddPieces...)
	for n, pc := range pieces {
		if n > 24 {
			break
		}
		for _, pre := range []string{pc, pc + pc, pc + pc + pc, "k" + pc} {
			for _, form := range []string{"%s=1;password=%s", "%s=1 password=%s", "%s=;password=%s", "u=%s;password=%s"} {
				sec := "PWsearch"
				cs := connStr{fmt.Sprintf(form, pre, sec), true, []string{sec}, "search"}
				for _, ver := range searchVers {
					if _, _, bad := maskProperty(tname, ver, cs); bad {
						return true
					}
				}
			}
		}
	}
	return false
}

func maskOne(tname string, ver int32, cs connStr, model string) {
	rep.Count("mask.shape." + cs.shape)
	out, ok, bad := maskProperty(tname, ver, cs)
	if bad {
		return
	}
	mout := string(vh.UnHex(model))
	if !ok || mout != out {
		if maskSearch(tname, cs.s, ver) {
			return
		}
		got := "panic"
		if ok {
			got = fmt.Sprintf("%q", vh.Clip(out, 120))
		}
		rep.Fail("correspondence", tname+":Process:Dbc",
			fmt.Sprintf("Dbc after Process differs from the model on %q: impl %s model %q", vh.Clip(cs.s, 120), got, vh.Clip(mout, 120)), maskReplay(tname, ver, cs))
	}
}

func stageMask() {
	n := 1500
	if env.Thorough {
		n = 20000
	}
	tn := []string{"UdpTxSqlPack", "UdpTxSqlParamPack", "UdpTxDbcPack"}
	type job struct {
		t   string
		ver int32
		cs  connStr
	}
	var jobs []job
	var lines []string
	fixed := []connStr{
		{"user=u password=secret host=h", true, []string{"secret"}, "uniform-space"},
		{"user=u;password=secret;host=h", true, []string{"secret"}, "uniform-semicolon"},
		{"a=1;b=2 password=secret;c=3 d=4", true, []string{"secret"}, "mixed"},
		{"x=2 x=1;password=secret", true, []string{"secret"}, "mixed"},
		{"password=a1 password=b1", true, []string{"a1", "b1"}, "uniform-space"},
		{"password=", true, nil, "uniform-space"},
		{"", true, nil, "uniform-space"},
		{"a=1 password = secret", false, nil, "near:spaces-around-eq"},
		{"foo password =secret", false, nil, "near:spaces-around-eq"},
		{"\u023a\u023a=1;password=secret", true, []string{"secret"}, "uniform-semicolon+non-ascii"},
		{"\xff=1;password=secret", true, []string{"secret"}, "uniform-semicolon+non-ascii"},
	}
	fixed = append(fixed, fixedLongConns(rng)...)
	fixed = append(fixed, selfRefConns()...)
	if n < len(fixed)+500 {
		n = len(fixed) + 500
	}
	for i := 0; i < n; i++ {
		var cs connStr
		if i < len(fixed) {
			cs = fixed[i]
		} else {
			cs = genConn(rng)
		}
		t := tn[i%3]
		vs := pickVers()
		if i < len(fixed) {
			vs = []int32{50100, 10110, maskVers[rng.Intn(len(maskVers))]}
			if strings.HasSuffix(cs.shape, "+selfref") { // the systematic self-referential block: both families, no third version
				vs = vs[:2]
			}
		}
		for _, ver := range vs {
			jobs = append(jobs, job{t, ver, cs})
			lines = append(lines, fmt.Sprintf("D %d %s", ver, vh.Hex([]byte(cs.s))))
		}
	}
	// the family sweep: plain grammar strings × every pack type × every sampled version of the whole
	// range of both masking families (lowest, interior below the first gate, gates ± 1, above, top)
	for _, t := range tn {
		for _, ver := range maskFamilyVers {
			for _, cs := range sweepConns {
				jobs = append(jobs, job{t, ver, cs})
				lines = append(lines, fmt.Sprintf("D %d %s", ver, vh.Hex([]byte(cs.s))))
				rep.Count("mask.family_sweep." + familyOf(ver).name)
			}
		}
	}
	outs, err := vh.RunDriver(env.Driver, lines)
	if err != nil {
		vh.Die("%v", err)
	}
	for i, j := range jobs {
		rep.Case(fmt.Sprintf("mask %s %d %s", j.t, j.ver, j.cs.s), strings.Contains(j.cs.s, "="))
		if inMaskFamily(j.ver) && j.cs.grammar && len(j.cs.secrets) > 0 {
			rep.Count("mask.grammar_with_password_in_masking_family")
			for _, sec := range j.cs.secrets {
				if _, asserted := secretLeft(j.cs.s, "", sec); !asserted {
					rep.Count("mask.secret_not_assertable(empty, '#', or also the value of another key)")
				}
			}
		}
		maskOne(j.t, j.ver, j.cs, outs[i])
	}
}

func pickVers() []int32 {
	a := maskVers[rng.Intn(len(maskVers))]
	b := []int32{50100, 10110}[rng.Intn(2)]
	if a == b {
		return []int32{a}
	}
	return []int32{a, b}
}

// ---------------------------------------------------------------- stage num

func stageNum() {
	var ints []int64
	ints = append(ints, bounds...)
	n := 400
	if env.Thorough {
		n = 20000
	}
	for i := 0; i < n; i++ {
		ints = append(ints, genInt(rng, []int{16, 32, 64}[rng.Intn(3)]))
	}
	texts := []string{"", "0", "-0", "+0", "+5", "-5", " 5", "5 ", "-", "+", "--5", "0x1f", "1_000", "007", "-007", "1e3", "5.0", "٣",
		"2147483647", "2147483648", "-2147483648", "-2147483649", "9223372036854775807", "9223372036854775808",
		"-9223372036854775808", "-9223372036854775809", "99999999999999999999999", "\x05", "5\x00", "１２"}
	for i := 0; i < n/4; i++ {
		texts = append(texts, string(genText(rng, rng.Intn(6))))
		texts = append(texts, strconv.FormatInt(genInt(rng, 64), 10)+rng.PickStr([]string{"", "", "0", "x", " "}))
	}
	var lines []string
	for _, v := range ints {
		lines = append(lines, fmt.Sprintf("Z %d", v))
	}
	for _, t := range texts {
		lines = append(lines, "N 4 "+vh.Hex([]byte(t)), "N 8 "+vh.Hex([]byte(t)))
	}
	type tr struct {
		s string
		n int
	}
	var trs []tr
	for i := 0; i < 60; i++ {
		c := rng.PickInt([]int{0, 1, 256, 2048, 32768})
		l := rng.PickInt([]int{0, 1, c - 1, c, c + 1, c + 100})
		if l < 0 {
			l = 0
		}
		trs = append(trs, tr{string(genText(rng, l)), c})
		lines = append(lines, fmt.Sprintf("T %d %s", c, vh.Hex([]byte(trs[i].s))))
	}
	outs, err := vh.RunDriver(env.Driver, lines)
	if err != nil {
		vh.Die("%v", err)
	}
	k := 0
	for _, v := range ints {
		s := stringutil.ParseStringZeroToEmpty(v)
		rep.Case(fmt.Sprintf("Z %d", v), v != 0)
		rep.Count("num.zeroToEmpty")
		// direct property: the text of a number reads back as the number
		back := stringutil.ParseInt64(s)
		if back != v {
			rep.Fail("property", "numtext:int64", fmt.Sprintf("ParseInt64(ParseStringZeroToEmpty(%d)) = %d", v, back), map[string]interface{}{"stage": "num", "v": v})
		} else if v >= -2147483648 && v <= 2147483647 && int64(stringutil.ParseInt32(s)) != v {
			rep.Fail("property", "numtext:int32", fmt.Sprintf("ParseInt32(ParseStringZeroToEmpty(%d)) = %d", v, stringutil.ParseInt32(s)), map[string]interface{}{"stage": "num", "v": v})
		} else if outs[k] != vh.Hex([]byte(s)) {
			rep.Fail("correspondence", "numtext:zeroToEmpty", fmt.Sprintf("ParseStringZeroToEmpty(%d) = %q, model %s", v, s, outs[k]), map[string]interface{}{"stage": "num", "v": v})
		}
		k++
	}
	for _, t := range texts {
		rep.Case("N "+t, t != "")
		rep.Count("num.parse")
		g4, g8 := strconv.FormatInt(int64(stringutil.ParseInt32(t)), 10), strconv.FormatInt(stringutil.ParseInt64(t), 10)
		if outs[k] != g4 {
			rep.Fail("correspondence", "numtext:ParseInt32", fmt.Sprintf("ParseInt32(%q) = %s, model %s", t, g4, outs[k]), map[string]interface{}{"stage": "num", "text": vh.Hex([]byte(t))})
		}
		if outs[k+1] != g8 {
			rep.Fail("correspondence", "numtext:ParseInt64", fmt.Sprintf("ParseInt64(%q) = %s, model %s", t, g8, outs[k+1]), map[string]interface{}{"stage": "num", "text": vh.Hex([]byte(t))})
		}
		k += 2
	}
	for _, x := range trs {
		rep.Case(fmt.Sprintf("T %d %d", x.n, len(x.s)), len(x.s) > x.n)
		rep.Count("num.truncate")
		if g := vh.Hex([]byte(stringutil.Truncate(x.s, x.n))); g != outs[k] {
			rep.Fail("correspondence", "stringutil:Truncate", fmt.Sprintf("Truncate(len %d, %d): impl %s model %s", len(x.s), x.n, vh.Clip(g, 60), vh.Clip(outs[k], 60)), nil)
		}
		k++
	}
}

// ---------------------------------------------------------------- known findings

func knownReplays() {
	// K1: UdpTxMessagePack caps Hash and Desc although they are not transaction-start fields
	{
		still, what := false, ""
		o := vh.Guard(func() {
			p := udp.NewUdpTxMessagePack()
			p.Hash = strings.Repeat("h", 2049)
			p.Desc = strings.Repeat("d", 32769)
			q := udp.NewUdpTxMessagePack()
			q.Read(gio.NewDataInputX(udp.ToBytesPack(p)))
			still = len(q.Hash) == 2048 || len(q.Desc) == 32768
			what = fmt.Sprintf("Hash of 2049 bytes reads back with %d, Desc of 32769 bytes with %d", len(q.Hash), len(q.Desc))
		})
		if !o.OK() {
			still, what = true, "the replay panicked: "+o.Panic
		}
		rep.KnownReplay("UdpTxMessagePack:cap", still, what)
	}
	// K2: UdpRelayPack's payload length is not on the wire and ToPack has no way to supply it
	{
		still := false
		what := ""
		o := vh.Guard(func() {
			p := udp.NewUdpRelayPack()
			p.Data = []byte{1, 2, 3}
			b := udp.ToBytesPack(p)
			q := udp.ToPack(udp.RELAY_PACK, udp.UDP_PACK_VERSION, b)
			r := q.(*udp.UdpRelayPack)
			still = len(r.Data) != 3
			what = fmt.Sprintf("ToPack(RELAY_PACK) of a 3-byte payload restores %d bytes", len(r.Data))
			udp.ClosePack(q)
		})
		if !o.OK() {
			still, what = true, "ToPack(RELAY_PACK) panicked: "+o.Panic
		}
		rep.KnownReplay("UdpRelayPack:Data:ToPack", still, what)
	}
}

// ---------------------------------------------------------------- replay

func runReplay(path string) {
	b, err := os.ReadFile(path)
	if err != nil {
		vh.Die("replay: %v", err)
	}
	var doc struct {
		Cases []map[string]interface{} `json:"cases"`
	}
	if err := json.Unmarshal(b, &doc); err != nil {
		vh.Die("replay: %v", err)
	}
	var rts []*rtCase
	for _, c := range doc.Cases {
		switch c["stage"] {
		case "rt":
			pt := typeByName(c["type"].(string))
			if pt == nil {
				continue
			}
			rts = append(rts, &rtCase{pt: pt, ver: int32(c["ver"].(float64)), rec: fullRec(pt, parseRec(c["rec"].(string))), tail: vh.UnHex(c["tail"].(string))})
		case "mask":
			str := string(vh.UnHex(c["dbc"].(string)))
			ver := int32(c["ver"].(float64))
			outs, err := vh.RunDriver(env.Driver, []string{fmt.Sprintf("D %d %s", ver, vh.Hex([]byte(str)))})
			if err != nil {
				vh.Die("%v", err)
			}
			g, _ := c["grammar"].(bool)
			var secs []string
			if xs, ok := c["secrets"].([]interface{}); ok {
				for _, x := range xs {
					secs = append(secs, x.(string))
				}
			}
			rep.Case("mask replay "+str, true)
			maskOne(c["type"].(string), ver, connStr{str, g, secs, "replay"}, outs[0])
		case "proc":
			pt := typeByName(c["type"].(string))
			if pt == nil {
				continue
			}
			ver := int32(c["ver"].(float64))
			rec := c["rec"].(string)
			outs, err := vh.RunDriver(env.Driver, []string{fmt.Sprintf("Q %s %d %s", pt.name, ver, rec)})
			if err != nil {
				vh.Die("%v", err)
			}
			rep.Case("proc replay "+rec, true)
			rep.Note("proc replay: model answers %s (packs with derived pointer fields cannot be rebuilt from a record; re-run the stage with the seed of the replay)", vh.Clip(outs[0], 200))
		case "fault":
			stageFault()
		case "conc":
			stageConc()
		case "route":
			stageRoute()
		case "paramkv":
			stageParamKV()
		case "api":
			stageApi()
		case "pool":
			stagePool()
		case "pool2":
			pt := typeByName(c["type"].(string))
			if pt == nil {
				continue
			}
			mk := func(x interface{}) use {
				m := x.(map[string]interface{})
				f, _ := m["fill"].(bool)
				return use{ver: int32(m["ver"].(float64)), fill: f, rec: fullRec(pt, parseRec(m["rec"].(string)))}
			}
			u1, u2 := mk(c["use1"]), mk(c["use2"])
			for try := 0; try < 50; try++ { // until the pool hands the same object back
				bad, reused, ran := twoUse(pt, u1, u2)
				rep.Case(fmt.Sprintf("pool2 replay %s try %d", pt.name, try), ran)
				if len(bad) > 0 {
					reportTwoUse(pt, u1, u2, bad, reused)
					break
				}
				if reused {
					break
				}
			}
		case "num":
			stageNum()
		}
	}
	if len(rts) > 0 {
		stageRT(rts)
		stageToPack(rts)
	}
}

// ---------------------------------------------------------------- main

func main() {
	env, rep = vh.Parse("C07")
	rng = vh.NewRng(env.Seed).Fork() // Fork: consecutive seeds of vh.NewRng are the same splitmix stream shifted by one draw
	rep.Rule = "rt: one case = (pack type, version, field values); versions = {gate-1, gate, gate+1 for every version constant (literal or named) found in lang/pack/udp/*.go} ∪ samples of the whole range of every family (lowest, interior below the first gate, above the last gate, top) ∪ random; " +
		"text lengths biased to 0, 1, cap-1, cap, cap+1, 65535; non-trivial = the writer produced at least one byte; distinct by canonical text. " +
		"pool: one case = one acquire/fill/release history of a type (non-trivial: at least two acquires). " +
		"mask: one case = (pack type, version, connection string) (non-trivial: contains '='). num: one case = one numeral or text."
	gates = sourceGates(env.Repo)
	if len(gates) == 0 {
		vh.Die("no version gates found under %s/lang/pack/udp", env.Repo)
	}
	rep.Extra["gates_in_source"] = gates
	rep.Extra["named_gates_in_source"] = namedGates
	initFamilyVersions()
	rep.Extra["mask_family_versions"] = maskFamilyVers

	if env.Replay != "" {
		runStage("replay", func() { runReplay(env.Replay) })
		runStage("known", knownReplays)
		rep.Write(env.Out)
		return
	}

	vers := versions()
	rep.Extra["versions"] = len(vers)
	checkGates(vers)
	perCell := 2
	if env.Thorough {
		perCell = 10
	}
	var cases []*rtCase
	for i := range ptypes {
		pt := &ptypes[i]
		for _, v := range vers {
			for k := 0; k < perCell; k++ {
				c := &rtCase{pt: pt, ver: v, rec: genRec(rng, pt), tail: rng.Bytes(rng.PickInt([]int{0, 0, 1, 3, 8}))}
				cases = append(cases, c)
			}
		}
	}
	// witnesses of the candidate defects, always present
	cases = append(cases,
		&rtCase{pt: typeByName("UdpTxSqlPack"), ver: 20102, rec: fullRec(typeByName("UdpTxSqlPack"), map[string]string{"Dbc": "s61", "Sql": "s62", "Fetch": "i5"}), tail: nil},
		&rtCase{pt: typeByName("UdpTxResultSetPack"), ver: 50100, rec: fullRec(typeByName("UdpTxResultSetPack"), map[string]string{"Dbc": "s61", "Sql": "s62", "Fetch": "i7"}), tail: []byte{9}},
	)
	// in chunks: the driver lines of a chunk (hex of up to 64 KiB per field) are freed before the next
	const chunk = 2500
	for lo := 0; lo < len(cases); lo += chunk {
		hi := lo + chunk
		if hi > len(cases) {
			hi = len(cases)
		}
		part := cases[lo:hi]
		runStage("rt", func() { stageRT(part) })
		runStage("topack", func() { stageToPack(part) })
		for i := lo; i < hi; i++ {
			cases[i] = nil
		}
		runtime.GC()
	}
	runStage("proc", stageProcess)
	runStage("pool", stagePool)
	runStage("pool2", stagePool2)
	runStage("route", stageRoute)
	runStage("fault", stageFault)
	runStage("conc", stageConc)
	runStage("mask", stageMask)
	runStage("paramkv", stageParamKV)
	runStage("api", stageApi)
	runStage("num", stageNum)
	runStage("known", knownReplays)
	ctorPanics.Range(func(k, v interface{}) bool {
		rep.Fail("property", "New"+k.(string)+":panic", fmt.Sprintf("the constructor New%s panics: %v", k, v), map[string]interface{}{"stage": "ctor", "type": k})
		return true
	})
	rep.Write(env.Out)
}
