package main

import (
	"fmt"
	"reflect"
	"sort"
	"strconv"
	"strings"
	"sync"

	"github.com/whatap/golib/lang/pack/udp"
	"github.com/whatap/golib/util/urlutil"
	"verif/harness/vh"
)

// ptype is one UDP pack type of the implementation.
type ptype struct {
	name string
	code uint8
	mk   func() udp.UdpPack // the constructor NewT()
	zero func() udp.UdpPack // new(T): no code of the implementation runs (reflection only)
}

// ctorPanics: constructors that panicked (reported once by main)
var ctorPanics sync.Map

// new calls the constructor under a guard; a panicking constructor yields new(T)
func (pt *ptype) new() udp.UdpPack {
	var p udp.UdpPack
	o := vh.Guard(func() { p = pt.mk() })
	if !o.OK() || p == nil || reflect.ValueOf(p).IsNil() {
		ctorPanics.Store(pt.name, o.Panic)
		return pt.zero()
	}
	return p
}

var ptypes = []ptype{
	{"UdpTxStartPack", udp.TX_START, func() udp.UdpPack { return udp.NewUdpTxStartPack() }, func() udp.UdpPack { return new(udp.UdpTxStartPack) }},
	{"UdpTxEndPack", udp.TX_END, func() udp.UdpPack { return udp.NewUdpTxEndPack() }, func() udp.UdpPack { return new(udp.UdpTxEndPack) }},
	{"UdpTxStartEndPack", udp.TX_START_END, func() udp.UdpPack { return udp.NewUdpTxStartEndPack() }, func() udp.UdpPack { return new(udp.UdpTxStartEndPack) }},
	{"UdpTxSqlPack", udp.TX_SQL, func() udp.UdpPack { return udp.NewUdpTxSqlPack() }, func() udp.UdpPack { return new(udp.UdpTxSqlPack) }},
	{"UdpTxSqlParamPack", udp.TX_SQL_PARAM, func() udp.UdpPack { return udp.NewUdpTxSqlParamPack() }, func() udp.UdpPack { return new(udp.UdpTxSqlParamPack) }},
	{"UdpTxDbcPack", udp.TX_DB_CONN, func() udp.UdpPack { return udp.NewUdpTxDbcPack() }, func() udp.UdpPack { return new(udp.UdpTxDbcPack) }},
	{"UdpTxHttpcPack", udp.TX_HTTPC, func() udp.UdpPack { return udp.NewUdpTxHttpcPack() }, func() udp.UdpPack { return new(udp.UdpTxHttpcPack) }},
	{"UdpTxErrorPack", udp.TX_ERROR, func() udp.UdpPack { return udp.NewUdpTxErrorPack() }, func() udp.UdpPack { return new(udp.UdpTxErrorPack) }},
	{"UdpTxMessagePack", udp.TX_MSG, func() udp.UdpPack { return udp.NewUdpTxMessagePack() }, func() udp.UdpPack { return new(udp.UdpTxMessagePack) }},
	{"UdpTxSecureMessagePack", udp.TX_SECURE_MSG, func() udp.UdpPack { return udp.NewUdpTxSecureMessagePack() }, func() udp.UdpPack { return new(udp.UdpTxSecureMessagePack) }},
	{"UdpTxMethodPack", udp.TX_METHOD, func() udp.UdpPack { return udp.NewUdpTxMethodPack() }, func() udp.UdpPack { return new(udp.UdpTxMethodPack) }},
	{"UdpTxResultSetPack", udp.TX_RESULT_SET, func() udp.UdpPack { return udp.NewUdpTxResultSetPack() }, func() udp.UdpPack { return new(udp.UdpTxResultSetPack) }},
	{"UdpTxParamPack", udp.TX_PARAM, func() udp.UdpPack { return udp.NewUdpTxParamPack() }, func() udp.UdpPack { return new(udp.UdpTxParamPack) }},
	{"UdpActiveStackPack1", udp.ACTIVE_STACK_1, func() udp.UdpPack { return udp.NewUdpActiveStackPack1() }, func() udp.UdpPack { return new(udp.UdpActiveStackPack1) }},
	{"UdpActiveStackPack", udp.ACTIVE_STACK, func() udp.UdpPack { return udp.NewUdpActiveStackPack() }, func() udp.UdpPack { return new(udp.UdpActiveStackPack) }},
	{"UdpActiveStatsPack", udp.ACTIVE_STATS, func() udp.UdpPack { return udp.NewUdpActiveStatsPack() }, func() udp.UdpPack { return new(udp.UdpActiveStatsPack) }},
	{"UdpDBConPoolPack", udp.DBCONN_POOL, func() udp.UdpPack { return udp.NewUdpDBConPoolPack() }, func() udp.UdpPack { return new(udp.UdpDBConPoolPack) }},
	{"UdpConfigPack", udp.CONFIG_INFO, func() udp.UdpPack { return udp.NewUdpConfigPack() }, func() udp.UdpPack { return new(udp.UdpConfigPack) }},
	{"UdpRelayPack", udp.RELAY_PACK, func() udp.UdpPack { return udp.NewUdpRelayPack() }, func() udp.UdpPack { return new(udp.UdpRelayPack) }},
}

func typeByName(n string) *ptype {
	for i := range ptypes {
		if ptypes[i].name == n {
			return &ptypes[i]
		}
	}
	return nil
}

// fref is one struct field of a pack, embedded header flattened.  A header field
// shadowed by an own field of the same name is called "AbstractPack.<name>".
type fref struct {
	name string
	idx  []int
	typ  reflect.Type
}

var fieldCache = map[string][]fref{}

func fieldsOf(p udp.UdpPack) []fref {
	t := reflect.TypeOf(p).Elem()
	if fs, ok := fieldCache[t.Name()]; ok {
		return fs
	}
	own := map[string]bool{}
	for i := 0; i < t.NumField(); i++ {
		if !t.Field(i).Anonymous {
			own[t.Field(i).Name] = true
		}
	}
	var fs []fref
	for i := 0; i < t.NumField(); i++ {
		f := t.Field(i)
		if f.Anonymous && f.Type.Kind() == reflect.Struct {
			for j := 0; j < f.Type.NumField(); j++ {
				ef := f.Type.Field(j)
				n := ef.Name
				if own[n] {
					n = f.Name + "." + n
				}
				fs = append(fs, fref{n, []int{i, j}, ef.Type})
			}
		} else {
			fs = append(fs, fref{f.Name, []int{i}, f.Type})
		}
	}
	fieldCache[t.Name()] = fs
	return fs
}

func init() {
	for _, pt := range ptypes {
		fieldsOf(pt.zero()) // fill the cache before goroutines start (no implementation code runs here)
	}
}

func fieldVal(p udp.UdpPack, f fref) reflect.Value {
	return reflect.ValueOf(p).Elem().FieldByIndex(f.idx)
}

// wire-comparable kinds: what the layouts can carry or assign
func comparable(t reflect.Type) bool {
	switch t.Kind() {
	case reflect.Int16, reflect.Int32, reflect.Int64, reflect.String, reflect.Bool:
		return true
	case reflect.Slice:
		return t.Elem().Kind() == reflect.Uint8 || t.Elem().Kind() == reflect.Int16
	}
	return false
}

// canonical text of one field value (the driver's value syntax; "P" = non-nil pointer)
func canonVal(v reflect.Value) string {
	switch v.Kind() {
	case reflect.Int16, reflect.Int32, reflect.Int64, reflect.Int:
		return "i" + strconv.FormatInt(v.Int(), 10)
	case reflect.String:
		return "s" + vh.Hex([]byte(v.String()))
	case reflect.Bool:
		if v.Bool() {
			return "b1"
		}
		return "b0"
	case reflect.Ptr:
		if v.IsNil() {
			return "n"
		}
		e := v.Elem()
		if e.Kind() == reflect.Struct {
			if u := e.FieldByName("Url"); u.IsValid() && u.Kind() == reflect.String { // *urlutil.URL: the string given to NewURL
				return "s" + vh.Hex([]byte(u.String()))
			}
			id, rs := e.FieldByName("Id"), e.FieldByName("Response")
			if id.IsValid() && rs.IsValid() { // *pack.ParamPack
				return "l" + strconv.FormatInt(id.Int(), 10) + "," + strconv.FormatInt(rs.Int(), 10)
			}
		}
		return "P"
	case reflect.Slice:
		if v.IsNil() {
			return "n"
		}
		switch v.Type().Elem().Kind() {
		case reflect.Uint8:
			return "s" + vh.Hex(v.Bytes())
		case reflect.Int16:
			xs := make([]string, v.Len())
			for i := range xs {
				xs[i] = strconv.FormatInt(v.Index(i).Int(), 10)
			}
			return "l" + vh.List(xs)
		case reflect.String:
			xs := make([]string, v.Len())
			for i := range xs {
				xs[i] = vh.Hex([]byte(v.Index(i).String()))
			}
			return "t" + vh.List(xs)
		}
	case reflect.Map:
		if v.IsNil() {
			return "n"
		}
		var xs []string
		for _, k := range v.MapKeys() {
			xs = append(xs, vh.Hex([]byte(k.String()+"="+v.MapIndex(k).String())))
		}
		sort.Strings(xs)
		return "t" + vh.List(xs)
	}
	return "?" + v.Kind().String()
}

// canon renders the pack as a record; all=false keeps only the wire-comparable fields
func canon(p udp.UdpPack, all bool) string {
	var b strings.Builder
	first := true
	for _, f := range fieldsOf(p) {
		if !all && !comparable(f.typ) {
			continue
		}
		if !first {
			b.WriteByte(';')
		}
		first = false
		b.WriteString(f.name)
		b.WriteByte('=')
		b.WriteString(canonVal(fieldVal(p, f)))
	}
	if first {
		return "-"
	}
	return b.String()
}

func canonMap(p udp.UdpPack, all bool) map[string]string {
	m := map[string]string{}
	for _, f := range fieldsOf(p) {
		if !all && !comparable(f.typ) {
			continue
		}
		m[f.name] = canonVal(fieldVal(p, f))
	}
	return m
}

func parseRec(s string) map[string]string {
	m := map[string]string{}
	if s == "-" || s == "" {
		return m
	}
	for _, kv := range strings.Split(s, ";") {
		i := strings.IndexByte(kv, '=')
		if i > 0 {
			m[kv[:i]] = kv[i+1:]
		}
	}
	return m
}

// setCanon assigns a canonical value to a field (replay and record application)
func setCanon(p udp.UdpPack, f fref, val string) error {
	v := fieldVal(p, f)
	if val == "" {
		return fmt.Errorf("empty value")
	}
	body := val[1:]
	switch val[0] {
	case 'i':
		n, err := strconv.ParseInt(body, 10, 64)
		if err != nil {
			return err
		}
		v.SetInt(n)
	case 's':
		if v.Kind() == reflect.String {
			v.SetString(string(vh.UnHex(body)))
		} else {
			v.SetBytes(vh.UnHex(body))
		}
	case 'b':
		v.SetBool(body == "1")
	case 'n':
		v.Set(reflect.Zero(v.Type()))
	case 'l':
		xs := []int16{}
		if body != "-" {
			for _, x := range strings.Split(body, ",") {
				n, err := strconv.ParseInt(x, 10, 16)
				if err != nil {
					return err
				}
				xs = append(xs, int16(n))
			}
		}
		v.Set(reflect.ValueOf(xs))
	default:
		return fmt.Errorf("cannot set %q", val)
	}
	return nil
}

func applyRec(p udp.UdpPack, rec map[string]string) {
	for _, f := range fieldsOf(p) {
		if val, ok := rec[f.name]; ok {
			if err := setCanon(p, f, val); err != nil {
				vh.Die("bad record value %s=%s: %v", f.name, val, err)
			}
		}
	}
}

// fillMarkers overwrites every field of the pack with a value that is recognisable as
// "left over from use n" (pool histories).
func fillMarkers(p udp.UdpPack, n int, r *vh.Rng) {
	for _, f := range fieldsOf(p) {
		if f.name == "Ver" {
			continue
		}
		v := fieldVal(p, f)
		switch v.Kind() {
		case reflect.Int16:
			v.SetInt(int64(0x5E00 + n%200))
		case reflect.Int32:
			v.SetInt(int64(0x5EED0000 + n))
		case reflect.Int64:
			v.SetInt(int64(0x5EED00000000) + int64(n))
		case reflect.String:
			v.SetString(fmt.Sprintf("RESIDUE-%d-%s", n, f.name))
		case reflect.Bool:
			v.SetBool(r.Bool())
		case reflect.Slice:
			switch f.typ.Elem().Kind() {
			case reflect.Uint8:
				v.SetBytes([]byte(fmt.Sprintf("RESIDUE-%d", n)))
			case reflect.Int16:
				v.Set(reflect.ValueOf([]int16{int16(n), 2, 3, 4, 5}))
			case reflect.String:
				v.Set(reflect.ValueOf([]string{fmt.Sprintf("RESIDUE-%d", n)}))
			}
		case reflect.Map:
			if v.IsNil() {
				v.Set(reflect.MakeMap(f.typ))
			}
			v.SetMapIndex(reflect.ValueOf(fmt.Sprintf("RESIDUE-%d", n)), reflect.ValueOf("secret"))
		case reflect.Ptr:
			if f.typ == reflect.TypeOf((*urlutil.URL)(nil)) {
				v.Set(reflect.ValueOf(urlutil.NewURL(fmt.Sprintf("http://RESIDUE-%d/", n))))
			} else {
				v.Set(reflect.New(f.typ.Elem()))
			}
		}
	}
}

// isMarker: does the canonical value look like a fillMarkers value?
func isMarker(name, val string) bool {
	if val == "P" {
		return true
	}
	if strings.HasPrefix(val, "s") && strings.Contains(val, vh.Hex([]byte("RESIDUE-"))) {
		return true
	}
	if strings.HasPrefix(val, "t") && val != "t-" {
		return true
	}
	if strings.HasPrefix(val, "l") {
		return true
	}
	if strings.HasPrefix(val, "i") {
		n, _ := strconv.ParseInt(val[1:], 10, 64)
		return (n >= 0x5EED0000 && n < 0x5EED0000+1<<24) || (n >= 0x5EED00000000 && n < 0x5EED00000000+1<<24) || (n >= 0x5E00 && n < 0x5E00+200)
	}
	return false
}

// deepDiff lists the paths on which two values differ, looking at every field, exported or not
// (reads through reflection only by kind, so unexported fields are accessible); nil and empty
// slices / maps are different values.  Paths in `ignore` are skipped (clock readings).
func deepDiff(path string, a, b reflect.Value, ignore map[string]bool, out *[]string, depth int) {
	if ignore[path] || depth > 12 || len(*out) > 20 {
		return
	}
	if a.Kind() != b.Kind() {
		*out = append(*out, path)
		return
	}
	switch a.Kind() {
	case reflect.Bool:
		if a.Bool() != b.Bool() {
			*out = append(*out, path)
		}
	case reflect.Int, reflect.Int8, reflect.Int16, reflect.Int32, reflect.Int64:
		if a.Int() != b.Int() {
			*out = append(*out, path)
		}
	case reflect.Uint, reflect.Uint8, reflect.Uint16, reflect.Uint32, reflect.Uint64, reflect.Uintptr:
		if a.Uint() != b.Uint() {
			*out = append(*out, path)
		}
	case reflect.Float32, reflect.Float64:
		if a.Float() != b.Float() && !(a.Float() != a.Float() && b.Float() != b.Float()) {
			*out = append(*out, path)
		}
	case reflect.String:
		if a.String() != b.String() {
			*out = append(*out, path)
		}
	case reflect.Ptr, reflect.Interface:
		if a.IsNil() != b.IsNil() {
			*out = append(*out, path)
			return
		}
		if !a.IsNil() {
			deepDiff(path, a.Elem(), b.Elem(), ignore, out, depth+1)
		}
	case reflect.Struct:
		for i := 0; i < a.NumField(); i++ {
			n := a.Type().Field(i).Name
			pp := n
			if path != "" {
				pp = path + "." + n
			}
			if a.Type().Field(i).Anonymous && path == "" {
				pp = "" // embedded header: its fields are named like own fields …
				deepDiffEmbedded(a.Field(i), b.Field(i), a.Type(), n, ignore, out, depth+1)
				continue
			}
			deepDiff(pp, a.Field(i), b.Field(i), ignore, out, depth+1)
		}
	case reflect.Slice, reflect.Array:
		if a.Kind() == reflect.Slice && a.IsNil() != b.IsNil() {
			*out = append(*out, path)
			return
		}
		if a.Len() != b.Len() {
			*out = append(*out, path)
			return
		}
		for i := 0; i < a.Len(); i++ {
			before := len(*out)
			deepDiff(path, a.Index(i), b.Index(i), ignore, out, depth+1)
			if len(*out) > before {
				*out = (*out)[:before]
				*out = append(*out, path)
				return
			}
		}
	case reflect.Map:
		if a.IsNil() != b.IsNil() || a.Len() != b.Len() {
			*out = append(*out, path)
			return
		}
		for _, k := range a.MapKeys() {
			bv := b.MapIndex(k)
			if !bv.IsValid() {
				*out = append(*out, path)
				return
			}
			before := len(*out)
			deepDiff(path, a.MapIndex(k), bv, ignore, out, depth+1)
			if len(*out) > before {
				*out = (*out)[:before]
				*out = append(*out, path)
				return
			}
		}
	case reflect.Func, reflect.Chan, reflect.UnsafePointer:
		// not data
	}
}

// … unless shadowed by an own field of the outer struct
func deepDiffEmbedded(a, b reflect.Value, outer reflect.Type, embName string, ignore map[string]bool, out *[]string, depth int) {
	own := map[string]bool{}
	for i := 0; i < outer.NumField(); i++ {
		if !outer.Field(i).Anonymous {
			own[outer.Field(i).Name] = true
		}
	}
	for j := 0; j < a.NumField(); j++ {
		n := a.Type().Field(j).Name
		if own[n] {
			n = embName + "." + n
		}
		deepDiff(n, a.Field(j), b.Field(j), ignore, out, depth)
	}
}

// packDiff: every field (exported or not, nested through pointers) on which two packs differ
func packDiff(p, q udp.UdpPack, ignore map[string]bool) []string {
	var out []string
	deepDiff("", reflect.ValueOf(p).Elem(), reflect.ValueOf(q).Elem(), ignore, &out, 0)
	sort.Strings(out)
	return out
}

// showField renders the field at a top-level name for a failure summary
func showField(p udp.UdpPack, path string) string {
	top := path
	for _, f := range fieldsOf(p) {
		if f.name == top || strings.HasPrefix(path, f.name+".") {
			v := fieldVal(p, f)
			if v.Kind() == reflect.Ptr && !v.IsNil() {
				return fmt.Sprintf("&%+v", derefPrintable(v.Elem()))
			}
			return canonVal(v)
		}
	}
	return "?"
}

func derefPrintable(v reflect.Value) string {
	if v.Kind() != reflect.Struct {
		return v.Kind().String()
	}
	var parts []string
	for i := 0; i < v.NumField() && i < 8; i++ {
		f := v.Field(i)
		switch f.Kind() {
		case reflect.String:
			parts = append(parts, fmt.Sprintf("%s:%q", v.Type().Field(i).Name, vh.Clip(f.String(), 30)))
		case reflect.Int, reflect.Int16, reflect.Int32, reflect.Int64:
			parts = append(parts, fmt.Sprintf("%s:%d", v.Type().Field(i).Name, f.Int()))
		}
	}
	return "{" + strings.Join(parts, " ") + "}"
}
