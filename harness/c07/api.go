// Stage api: the exported functions of the anchor files that the other stages do not reach.
//
//	streams   WritePack … WritePack into one DataOutputX, ReadPack … ReadPack from one DataInputX: every pack of
//	          the stream reads back as it does alone, the reader ends exactly at the tail (direct); bytes and the
//	          packs after Read vs the model (driver ops WS / RS)
//	setters   SetMcallerUrlHash (hash ↦ decimal text ↦ hash through Process(), driver ops I / H),
//	          SetStaticContents ("1"/"0" ↦ IsStatic through Process(), op C), UdpConfigPack.Set (map ↦ lines ↦ map),
//	          SetHeader / ParseHeader, SetParameter / ParseParameter (key=value lines with the caps of the constants)
//	paramkv   NewParamKV, ExistsKey, GetValue (driver op V), GetKeys, GetOriginal, ToStringMap
//	misc      GetPackType of constructed and pooled packs, SetVersion/GetVersion, SetFlush/IsFlush, ToString()
//	          (called; a panic is recorded, nothing is asserted about its text)
package main

import (
	"fmt"
	"reflect"
	"sort"
	"strconv"
	"strings"

	gio "github.com/whatap/golib/io"
	"github.com/whatap/golib/lang/pack/udp"
	"github.com/whatap/golib/util/paramtext"
	"github.com/whatap/golib/util/stringutil"
	"verif/harness/vh"
)

type streamItem struct {
	pt    *ptype
	ver   int32
	rec   map[string]string
	alone string // all wire-comparable fields after ToPack of the pack's own bytes
	bytes []byte
}

// streamCanon: the wire-comparable fields of a pack; Index / Parent / Flush only where the wire carries them (a
// new pack has the constructor's constants — Index 0, UdpConfigPack Flush true —, a pooled one those of Clear();
// both are never-used packs, which one CreatePack hands out is the pool's choice)
func streamCanon(pt *ptype, ver int32, q udp.UdpPack) string {
	m := canonMap(q, false)
	car := carriedGo(pt, ver)
	var parts []string
	for _, f := range fieldsOf(pt.zero()) {
		if (f.name == "Index" || f.name == "Parent" || f.name == "Flush") && !car[f.name] {
			continue
		}
		if v, ok := m[f.name]; ok {
			parts = append(parts, f.name+"="+v)
		}
	}
	return strings.Join(parts, ";")
}

func apiStreams(r *vh.Rng, n int) {
	vers := versions()
	var usable []*ptype
	for i := range ptypes {
		// UdpRelayPack: length not on the wire (known finding); UdpActiveStackPack: Process() needs three parts
		if ptypes[i].name != "UdpRelayPack" && ptypes[i].name != "UdpActiveStackPack" {
			usable = append(usable, &ptypes[i])
		}
	}
	type job struct {
		items  []streamItem
		tail   []byte
		bytes  []byte
		inits  []string
		afters []map[string]string
		left   int
		ok     bool
	}
	var jobs []*job
	var lines []string
	for h := 0; h < n; h++ {
		k := 2 + r.Intn(4)
		j := &job{tail: r.Bytes(r.PickInt([]int{0, 0, 1, 5}))}
		total := 0
		for i := 0; i < k; i++ {
			pt := usable[r.Intn(len(usable))]
			it := streamItem{pt: pt, ver: vers[r.Intn(len(vers))]}
			for try := 0; try < 20; try++ {
				it.rec = genRec(r, pt)
				b, o := goWrite(pt, it.ver, it.rec)
				if o.OK() && len(b) < 3000 {
					it.bytes = b
					break
				}
			}
			if it.bytes == nil {
				continue
			}
			total += len(it.bytes)
			j.items = append(j.items, it)
		}
		if len(j.items) < 2 {
			continue
		}
		hist := []string{}
		bad := ""
		o := vh.Guard(func() {
			// the packs alone
			for i := range j.items {
				it := &j.items[i]
				q := udp.ToPack(it.pt.code, it.ver, it.bytes)
				it.alone = streamCanon(it.pt, it.ver, q)
				udp.ClosePack(q)
			}
			// one buffer
			out := gio.NewDataOutputX()
			for i := range j.items {
				it := &j.items[i]
				p := it.pt.new()
				p.SetVersion(it.ver)
				applyRec(p, it.rec)
				hist = append(hist, fmt.Sprintf("WritePack %s ver %d %s", it.pt.name, it.ver, vh.Clip(recString(it.pt, it.rec), 300)))
				if ret := udp.WritePack(out, p); ret != out {
					bad = "WritePack does not return the buffer it was given"
				}
			}
			j.bytes = out.ToByteArray()
			var cat []byte
			for _, it := range j.items {
				cat = append(cat, it.bytes...)
			}
			if bad == "" && string(cat) != string(j.bytes) {
				bad = fmt.Sprintf("the packs written into one buffer (%d bytes) are not the packs written alone one after the other (%d bytes)", len(j.bytes), len(cat))
			}
			// ReadPack … ReadPack from one reader
			in := gio.NewDataInputX(append(append([]byte{}, j.bytes...), j.tail...))
			for i, it := range j.items {
				hist = append(hist, fmt.Sprintf("ReadPack %s ver %d", it.pt.name, it.ver))
				q := udp.ReadPack(it.pt.code, it.ver, in)
				got := streamCanon(it.pt, it.ver, q)
				udp.ClosePack(q)
				if bad == "" && got != it.alone {
					bad = fmt.Sprintf("pack %d of the stream (%s, version %d) reads back as %s, alone as %s", i, it.pt.name, it.ver, vh.Clip(got, 200), vh.Clip(it.alone, 200))
				}
			}
			if bad == "" && int(in.Available()) != len(j.tail) {
				bad = fmt.Sprintf("after the last pack %d bytes are left, %d follow the stream", in.Available(), len(j.tail))
			}
			// Read without Process(), for the model
			in2 := gio.NewDataInputX(append(append([]byte{}, j.bytes...), j.tail...))
			for _, it := range j.items {
				q := udp.CreatePack(it.pt.code, it.ver)
				j.inits = append(j.inits, canon(q, false))
				q.Read(in2)
				j.afters = append(j.afters, canonMap(q, false))
				udp.ClosePack(q)
			}
			j.left = int(in2.Available())
			j.ok = true
		})
		var desc []string
		for _, it := range j.items {
			desc = append(desc, fmt.Sprintf("%s@%d", it.pt.name, it.ver))
		}
		rep.Case("stream "+strings.Join(desc, " ")+" "+vh.Hex(j.bytes), true)
		rep.Count(fmt.Sprintf("api.stream.packs=%d", len(j.items)))
		replay := histReplay("api", "stream", hist)
		if !o.OK() {
			rep.Fail("property", "Stream:panic", "writing / reading several packs through one buffer panics: "+vh.Clip(o.Panic, 200), replay)
			continue
		}
		if bad != "" {
			rep.Fail("property", "Stream:differs", bad, replay)
			continue
		}
		ws, rs := "WS", "RS "+vh.Hex(append(append([]byte{}, j.bytes...), j.tail...))
		for i, it := range j.items {
			ws += fmt.Sprintf(" %s|%d|%s", it.pt.name, it.ver, recString(it.pt, it.rec))
			rs += fmt.Sprintf(" %s|%d|%s", it.pt.name, it.ver, j.inits[i])
		}
		jobs = append(jobs, j)
		lines = append(lines, ws, rs)
	}
	outs, err := vh.RunDriver(env.Driver, lines)
	if err != nil {
		vh.Die("%v", err)
	}
	for i, j := range jobs {
		var desc []string
		for _, it := range j.items {
			desc = append(desc, fmt.Sprintf("%s|%d|%s", it.pt.name, it.ver, recString(it.pt, it.rec)))
		}
		replay := map[string]interface{}{"stage": "api", "what": "stream", "items": desc, "tail": vh.Hex(j.tail)}
		if outs[2*i] != vh.Hex(j.bytes) {
			rep.Fail("correspondence", "Stream:bytes", fmt.Sprintf("stream bytes differ from the model: impl %s model %s", vh.Clip(vh.Hex(j.bytes), 160), vh.Clip(outs[2*i], 160)), replay)
			continue
		}
		parts := strings.Split(outs[2*i+1], " ")
		if len(parts) != 2+len(j.items) || parts[0] != "ok" {
			rep.Fail("correspondence", "Stream:Read:state", "the model's readers answer "+vh.Clip(outs[2*i+1], 120)+", the implementation read the stream", replay)
			continue
		}
		var d []string
		if parts[1] != strconv.Itoa(j.left) {
			d = append(d, fmt.Sprintf("bytes left: impl %d model %s", j.left, parts[1]))
		}
		for k, it := range j.items {
			m := parseRec(parts[2+k])
			for _, f := range fieldsOf(it.pt.zero()) {
				if comparable(f.typ) && m[f.name] != j.afters[k][f.name] {
					d = append(d, fmt.Sprintf("pack %d %s.%s: impl %s model %s", k, it.pt.name, f.name, vh.Clip(j.afters[k][f.name], 60), vh.Clip(m[f.name], 60)))
				}
			}
		}
		if len(d) > 0 {
			rep.Fail("correspondence", "Stream:Read:state", "packs read from one stream differ from the model: "+vh.Clip(strings.Join(d, "; "), 400), replay)
		}
	}
}

func apiSetters(r *vh.Rng) {
	vers := []int32{50101, 50100, 50001, 50000, 40001, 30103, 30102, 30101, 30001, 20104, 20102, 20101, 20001, 20000, 10110, 10102, 10101, 10100, 0}
	vals := []int32{0, 1, -1, 7, 2147483647, -2147483648, 1000000000, -999999999}
	for i := 0; i < 12; i++ {
		vals = append(vals, int32(genInt(r, 32)))
	}
	// ---- SetMcallerUrlHash
	type hj struct {
		v    int32
		ver  int32
		text string
		re   int32 // the hash Process() recomputes from the text alone
		wire string
		ok   bool
	}
	var hjs []hj
	var lines []string
	for _, v := range vals {
		for _, ver := range vers {
			j := hj{v: v, ver: ver}
			o := vh.Guard(func() {
				p := udp.NewUdpTxEndPackVer(ver)
				p.SetMcallerUrlHash(v)
				j.text = p.McallerUrl
				if p.McallerUrlHash != v {
					j.text = "!hash"
				}
				b := udp.ToBytesPack(p)
				p.McallerUrlHash = 0
				p.Process()
				j.re = p.McallerUrlHash
				q := udp.ToPack(udp.TX_END, ver, b).(*udp.UdpTxEndPack)
				j.wire = fmt.Sprintf("%q %d", q.McallerUrl, q.McallerUrlHash)
				udp.ClosePack(q)
				j.ok = true
			})
			rep.Case(fmt.Sprintf("api sethash %d %d", v, ver), true)
			rep.Count("api.setter.SetMcallerUrlHash")
			if !o.OK() {
				rep.Fail("property", "UdpTxEndPack:SetMcallerUrlHash:panic", fmt.Sprintf("SetMcallerUrlHash(%d) / write / ToPack at version %d panics: %s", v, ver, vh.Clip(o.Panic, 160)),
					map[string]interface{}{"stage": "api", "what": "sethash", "v": v, "ver": ver})
				continue
			}
			hjs = append(hjs, j)
			lines = append(lines, fmt.Sprintf("I %d", v), fmt.Sprintf("H %d %d", v, ver))
		}
	}
	// ---- SetStaticContents
	lines = append(lines, "C 0", "C 1")
	outs, err := vh.RunDriver(env.Driver, lines)
	if err != nil {
		vh.Die("%v", err)
	}
	for i, j := range hjs {
		replay := map[string]interface{}{"stage": "api", "what": "sethash", "v": j.v, "ver": j.ver}
		mtext := string(vh.UnHex(outs[2*i]))
		mre := outs[2*i+1]
		if j.text != mtext || "i"+strconv.Itoa(int(j.re)) != mre {
			rep.Fail("correspondence", "UdpTxEndPack:SetMcallerUrlHash",
				fmt.Sprintf("SetMcallerUrlHash(%d) at version %d: text %q (model %q), hash recomputed by Process() %d (model %s)", j.v, j.ver, j.text, mtext, j.re, mre), replay)
			continue
		}
		// through the wire: where the text is carried, the pack read back has the text and the recomputed hash
		if carriedGo(typeByName("UdpTxEndPack"), j.ver)["McallerUrl"] {
			if want := fmt.Sprintf("%q %d", j.text, j.re); j.wire != want {
				rep.Fail("property", "UdpTxEndPack:McallerUrl@"+gateFloor(j.ver),
					fmt.Sprintf("SetMcallerUrlHash(%d), write, ToPack at version %d gives (McallerUrl, McallerUrlHash) = %s, the pack itself has %s", j.v, j.ver, j.wire, want), replay)
			}
		}
	}
	c0 := strings.Split(outs[len(outs)-2], " ")
	c1 := strings.Split(outs[len(outs)-1], " ")
	for _, b := range []bool{false, true} {
		m := c0
		if b {
			m = c1
		}
		for _, ver := range vers {
			for _, tn := range []string{"UdpTxStartPack", "UdpTxStartEndPack"} {
				var text string
				var flag, back bool
				var carried bool
				o := vh.Guard(func() {
					var p udp.UdpPack
					if tn == "UdpTxStartPack" {
						x := udp.NewUdpTxStartPackVer(ver)
						x.SetStaticContents(b)
						text, flag, p = x.IsStaticContents, x.IsStatic, x
					} else {
						x := udp.NewUdpTxStartEndPackVer(ver)
						x.SetStaticContents(b)
						text, flag, p = x.IsStaticContents, x.IsStatic, x
					}
					pt := typeByName(tn)
					carried = carriedGo(pt, ver)["IsStaticContents"]
					q := udp.ToPack(pt.code, ver, udp.ToBytesPack(p))
					back = reflect.ValueOf(q).Elem().FieldByName("IsStatic").Bool()
					udp.ClosePack(q)
				})
				rep.Case(fmt.Sprintf("api setstatic %s %v %d", tn, b, ver), true)
				rep.Count("api.setter.SetStaticContents")
				replay := map[string]interface{}{"stage": "api", "what": "setstatic", "type": tn, "b": b, "ver": ver}
				if !o.OK() {
					rep.Fail("property", tn+":SetStaticContents:panic", fmt.Sprintf("SetStaticContents(%v) / write / ToPack at version %d panics: %s", b, ver, vh.Clip(o.Panic, 160)), replay)
					continue
				}
				mflag := m[0] == "b1"
				if flag != mflag || text != string(vh.UnHex(m[1])) || flag != b {
					rep.Fail("correspondence", tn+":SetStaticContents", fmt.Sprintf("SetStaticContents(%v): IsStatic %v IsStaticContents %q, model %s", b, flag, text, strings.Join(m, " ")), replay)
					continue
				}
				if carried && back != b {
					rep.Fail("correspondence", tn+":SetStaticContents", fmt.Sprintf("SetStaticContents(%v), write, ToPack at version %d: IsStatic comes back as %v although IsStaticContents is carried", b, ver, back), replay)
				}
			}
		}
	}
	// ---- UdpConfigPack.Set: map ↦ lines ↦ map
	for i := 0; i < 60; i++ {
		m := map[string]string{}
		for k := r.Intn(6); k > 0; k-- {
			key := "k" + strings.Map(func(c rune) rune {
				if c == '=' || c == '\n' || c == '\r' {
					return 'x'
				}
				return c
			}, genPlain(r, 6))
			val := strings.Map(func(c rune) rune {
				if c == '\n' || c == '\r' {
					return 'y'
				}
				return c
			}, genPlain(r, 8))
			if r.Chance(30) {
				val += "=" + genPlain(r, 3)
			}
			val = strings.ToValidUTF8(strings.ReplaceAll(val, "\r", "y"), "?")
			key = strings.ToValidUTF8(key, "?")
			m[key] = strings.ReplaceAll(strings.ReplaceAll(val, "\n", "y"), "\r", "y")
		}
		var back map[string]string
		o := vh.Guard(func() {
			p := udp.NewUdpConfigPack()
			p.Set(m)
			q := udp.ToPack(udp.CONFIG_INFO, p.Ver, udp.ToBytesPack(p)).(*udp.UdpConfigPack)
			back = map[string]string{}
			for k, v := range q.MapData {
				back[k] = v
			}
			udp.ClosePack(q)
		})
		rep.Case(fmt.Sprintf("api configset %v", m), len(m) > 0)
		rep.Count("api.setter.UdpConfigPack.Set")
		replay := map[string]interface{}{"stage": "api", "what": "configset", "map": m}
		if !o.OK() {
			rep.Fail("property", "UdpConfigPack:Set:panic", "Set / write / ToPack panics: "+vh.Clip(o.Panic, 160), replay)
			continue
		}
		if !reflect.DeepEqual(back, m) {
			rep.Fail("correspondence", "UdpConfigPack:Set", fmt.Sprintf("Set(%v), write, ToPack gives MapData %v", m, back), replay)
		}
	}
	// ---- SetHeader / ParseHeader, SetParameter / ParseParameter
	for i := 0; i < 60; i++ {
		m := map[string][]string{}
		want := map[string]bool{}
		for k := 1 + r.Intn(4); k > 0; k-- {
			key := fmt.Sprintf("h%d", k) + strings.Repeat("K", r.PickInt([]int{0, 3, 252, 253, 254, 300}))
			val := strings.Repeat("v", r.PickInt([]int{0, 1, 255, 256, 257, 400}))
			m[key] = []string{val, "second"}
			want[stringutil.Truncate(key, udp.HTTP_HEADER_KEY_MAX_SIZE)+"="+stringutil.Truncate(val, udp.HTTP_HEADER_VALUE_MAX_SIZE)] = true
		}
		var descs [4]string
		o := vh.Guard(func() {
			a := udp.NewUdpTxMessagePack()
			a.SetHeader(m)
			b := udp.NewUdpTxSecureMessagePack()
			b.SetParameter(m)
			descs = [4]string{a.Desc, udp.ParseHeader(m, udp.HTTP_HEADER_MAX_COUNT, udp.HTTP_HEADER_KEY_MAX_SIZE, udp.HTTP_HEADER_VALUE_MAX_SIZE),
				b.Desc, udp.ParseParameter(m, udp.HTTP_PARAM_MAX_COUNT, udp.HTTP_PARAM_KEY_MAX_SIZE, udp.HTTP_PARAM_VALUE_MAX_SIZE)}
		})
		rep.Case(fmt.Sprintf("api header %d %v", i, len(m)), true)
		rep.Count("api.setter.SetHeader/SetParameter")
		replay := map[string]interface{}{"stage": "api", "what": "header", "keys": len(m)}
		if !o.OK() {
			rep.Fail("property", "UdpTxMessagePack:SetHeader:panic", "SetHeader / SetParameter panics: "+vh.Clip(o.Panic, 160), replay)
			continue
		}
		for n, d := range descs {
			got := map[string]bool{}
			for _, ln := range strings.Split(strings.TrimSuffix(d, "\n"), "\n") {
				got[ln] = true
			}
			if !reflect.DeepEqual(got, want) {
				rep.Fail("correspondence", []string{"UdpTxMessagePack:SetHeader", "ParseHeader", "UdpTxSecureMessagePack:SetParameter", "ParseParameter"}[n],
					fmt.Sprintf("lines %v, expected the capped key=value lines %v", vh.Clip(fmt.Sprint(got), 200), vh.Clip(fmt.Sprint(want), 200)), replay)
				break
			}
		}
	}
}

func apiParamKV(r *vh.Rng, n int) {
	type job struct {
		t    kvText
		key  string
		ex   bool
		val  string
		what string
	}
	var jobs []job
	var lines []string
	for i := 0; i < n; i++ {
		sep := r.PickStr([]string{";", "&", " "})
		t := genKvText(r, sep, kvWs)
		// the reference: the map the constructor builds
		ref := map[string]string{}
		for _, tok := range strings.Split(t.s, sep) {
			if k, v := refToPair(tok); k != "" {
				ref[k] = v
			}
		}
		replay := map[string]interface{}{"stage": "api", "what": "paramkv", "text": vh.Hex([]byte(t.s)), "sep": sep}
		rep.Case("api kv "+sep+" "+t.s, true)
		rep.Count("api.paramkv")
		var keys []string
		var orig, viaMap, viaStr, viaDefault, viaSep, two, twoRef string
		type kq struct {
			ex  bool
			val string
		}
		qs := map[string]kq{}
		probe := []string{t.key, "user", "", "nokey", "Password"}
		o := vh.Guard(func() {
			p := paramtext.NewParamKVSeperate(t.s, sep, "=")
			keys = p.GetKeys()
			orig = p.GetOriginal()
			for _, k := range probe {
				qs[k] = kq{p.ExistsKey(k), p.GetValue(k)}
			}
			viaStr = paramtext.NewParamKVSeperate(t.s, sep, "=").ToStringStr(t.key, "#")
			viaMap = paramtext.NewParamKVSeperate(t.s, sep, "=").ToStringMap(map[string]string{t.key: "#"})
			two = paramtext.NewParamKVSeperate(t.s, sep, "=").ToStringMap(map[string]string{t.key: "#", "user": "U", "absent": "x"})
			viaDefault = paramtext.NewParamKV(t.s).ToStringStr(t.key, "#")
			viaSep = paramtext.NewParamKVSeperate(t.s, " ", "=").ToStringStr(t.key, "#")
		})
		if !o.OK() {
			rep.Fail("property", "ParamKV:api:panic", fmt.Sprintf("the ParamKV accessors panic on %q: %s", vh.Clip(t.s, 120), vh.Clip(o.Panic, 120)), replay)
			continue
		}
		// two keys at once = one after the other on the reference
		twoRef = refToStringStr(t.s, sep, t.key, "#")
		if t.key != "user" {
			twoRef = refToStringStr(twoRef, sep, "user", "U")
		}
		sort.Strings(keys)
		var rkeys []string
		for k := range ref {
			rkeys = append(rkeys, k)
		}
		sort.Strings(rkeys)
		bad := ""
		switch {
		case orig != t.s:
			bad = fmt.Sprintf("GetOriginal() = %q", vh.Clip(orig, 100))
		case strings.Join(keys, "\x00") != strings.Join(rkeys, "\x00"):
			bad = fmt.Sprintf("GetKeys() = %q, the keys of the text are %q", keys, rkeys)
		case viaMap != viaStr:
			bad = fmt.Sprintf("ToStringMap({%q: \"#\"}) = %q, ToStringStr = %q", t.key, vh.Clip(viaMap, 100), vh.Clip(viaStr, 100))
		case viaDefault != viaSep:
			bad = fmt.Sprintf("NewParamKV(s) rewrites to %q, NewParamKVSeperate(s, \" \", \"=\") to %q", vh.Clip(viaDefault, 100), vh.Clip(viaSep, 100))
		case two != twoRef && !strings.Contains(valuesOf(ref), "user="):
			bad = fmt.Sprintf("ToStringMap with two keys = %q, one key after the other gives %q", vh.Clip(two, 100), vh.Clip(twoRef, 100))
		}
		for _, k := range probe {
			v, ok := ref[k]
			if bad == "" && (qs[k].ex != ok || qs[k].val != v) {
				bad = fmt.Sprintf("ExistsKey(%q) = %v, GetValue = %q; the text has %v %q", k, qs[k].ex, qs[k].val, ok, v)
			}
		}
		if bad != "" {
			rep.Fail("correspondence", "ParamKV:accessors", fmt.Sprintf("NewParamKVSeperate(%q, %q, \"=\"): %s", vh.Clip(t.s, 120), sep, bad), replay)
			continue
		}
		for _, k := range probe {
			jobs = append(jobs, job{t, k, qs[k].ex, qs[k].val, ""})
			lines = append(lines, fmt.Sprintf("V %d %s %s", sep[0], hexOrDash(k), hexOrDash(t.s)))
		}
	}
	outs, err := vh.RunDriver(env.Driver, lines)
	if err != nil {
		vh.Die("%v", err)
	}
	for i, j := range jobs {
		want := "0 " + vh.Hex([]byte(j.val))
		if j.ex {
			want = "1 " + vh.Hex([]byte(j.val))
		}
		if outs[i] != want {
			rep.Fail("correspondence", "ParamKV:GetValue", fmt.Sprintf("ExistsKey / GetValue(%q) on %q: impl %s, model %s", j.key, vh.Clip(j.t.s, 120), want, outs[i]),
				map[string]interface{}{"stage": "api", "what": "paramkv", "text": vh.Hex([]byte(j.t.s)), "sep": j.t.sep, "key": j.key})
		}
	}
}

// valuesOf: "k=v" pairs of a map, for a containment test
func valuesOf(m map[string]string) string {
	var b strings.Builder
	for k, v := range m {
		b.WriteString(k + "=" + v + "\x00")
	}
	return b.String()
}

func hexOrDash(s string) string { return vh.Hex([]byte(s)) }

func apiMisc(r *vh.Rng) {
	for i := range ptypes {
		pt := &ptypes[i]
		var code, pcode uint8
		var gv int32
		var fl1, fl2 bool
		created := false
		tsPanic := ""
		o := vh.Guard(func() {
			p := pt.new()
			code = p.GetPackType()
			p.SetVersion(40001)
			gv = p.GetVersion()
			p.SetFlush(true)
			fl1 = p.IsFlush()
			p.SetFlush(false)
			fl2 = p.IsFlush()
			fillMarkers(p, 5, r)
			if ts, ok := p.(interface{ ToString() string }); ok {
				if o2 := vh.Guard(func() { _ = ts.ToString() }); !o2.OK() {
					tsPanic = o2.Panic
				}
			}
			if q := udp.CreatePack(pt.code, 50100); q != nil && !reflect.ValueOf(q).IsNil() {
				created = true
				pcode = q.GetPackType()
				udp.ClosePack(q)
			}
		})
		rep.Case("api misc "+pt.name, true)
		rep.Count("api.misc")
		if tsPanic != "" {
			rep.Count("api.misc.ToString_panics(recorded, not asserted)")
		}
		replay := map[string]interface{}{"stage": "api", "what": "misc", "type": pt.name}
		if !o.OK() {
			rep.Fail("property", pt.name+":accessors:panic", "GetPackType / SetVersion / SetFlush panics: "+vh.Clip(o.Panic, 160), replay)
			continue
		}
		if code != pt.code || (created && pcode != pt.code) || gv != 40001 || !fl1 || fl2 {
			rep.Fail("correspondence", pt.name+":accessors",
				fmt.Sprintf("GetPackType %d (pooled %d, expected %d), GetVersion after SetVersion(40001) %d, IsFlush after SetFlush(true/false) %v/%v", code, pcode, pt.code, gv, fl1, fl2), replay)
		}
	}
}

func stageApi() {
	r := rng.Fork()
	n := 150
	if env.Thorough {
		n = 1500
	}
	apiStreams(r, n)
	apiSetters(r)
	apiParamKV(r, n)
	apiMisc(r)
}
