// Correspondence harness for C14: util/hll HyperLogLog / RegisterSet against the
// Lean CodeModel Golib.HLL.Model (driver drv_c14).
//
// Three layers of evidence per case (a precision p and a multiset of 32-/64-bit items):
//
//  1. model      – GetBytes(), the booleans of Offer/OfferLong and Cardinality() equal what the
//                  driver computes from the hashed values (the hash is the real MurmurHash,
//                  its identity is C15's business);
//  2. property   – evaluated directly on the implementation: permutations and duplicates give
//                  identical bytes, merging any split gives the bytes of the single counter,
//                  merge is commutative / associative / idempotent and leaves its inputs
//                  untouched, Build(GetBytes()) preserves bytes and estimate, every register
//                  equals the maximum rank of the items whose hash selects it (independent
//                  Go evaluation of "leading bits select, leading zeros of the rest + 1");
//  3. exploration – the estimate is compared with the true cardinality over many seeds
//                  (sampled, generous tolerance; not a theorem).
//
// MurmurHash restricted to 32-bit items is a bijection; the harness inverts it to offer items
// with chosen hash values (all ranks, boundary registers).
package main

import (
	"bytes"
	"encoding/binary"
	"encoding/json"
	"fmt"
	"math"
	"math/bits"
	"os"
	"sort"
	"strconv"
	"strings"
	"sync"
	"time"

	"github.com/whatap/golib/util/hll"
	"verif/harness/vh"
)

// ---------------------------------------------------------------- items

type item struct {
	wide bool
	v    uint64
}

func (it item) String() string {
	if it.wide {
		return "l:" + strconv.FormatUint(it.v, 10)
	}
	return "i:" + strconv.FormatUint(it.v, 10)
}
func parseItem(s string) item {
	v, _ := strconv.ParseUint(s[2:], 10, 64)
	return item{wide: s[0] == 'l', v: v}
}
// refHashLong is the harness's own statement of the hash the counter is specified with:
// MurmurHash2 (stream-lib `MurmurHash.hashLong`): two 32-bit rounds, the low word then the high
// word of the item, each `k *= m; k ^= k >>> 24; k *= m`, combined as `h = (h*m) ^ k`, followed by
// the final avalanche.  Written independently of util/hll/MurmurHash.go; the model is always fed
// with these values, never with the library's.
func refHashLong(data uint64) uint32 {
	const m = uint32(0x5bd1e995)
	mix := func(k uint32) uint32 {
		k *= m
		k ^= k >> 24
		k *= m
		return k
	}
	h := uint32(0)
	h ^= mix(uint32(data)) // low word (h starts at 0)
	h *= m
	h ^= mix(uint32(data >> 32)) // high word
	h ^= h >> 13
	h *= m
	h ^= h >> 15
	return h
}

// a 32-bit item is hashed as the 64-bit value with a zero high word
func hashOf(it item) uint32 {
	if it.wide {
		return refHashLong(it.v)
	}
	return refHashLong(uint64(uint32(it.v)))
}
func offer(h *hll.HyperLogLog, it item) bool {
	if it.wide {
		return h.OfferLong(it.v)
	}
	return h.Offer(uint32(it.v))
}
func itemStrings(items []item) []string {
	out := make([]string, len(items))
	for i, it := range items {
		out[i] = it.String()
	}
	return out
}

// ---------------------------------------------------------------- murmur inverse (32-bit items)

const murM = uint32(0x5bd1e995)

func inv32(a uint32) uint32 { // modular inverse of an odd number mod 2^32
	x := a
	for i := 0; i < 5; i++ {
		x *= 2 - a*x
	}
	return x
}

// unmurmur returns the 32-bit item o whose (reference) hash is h; validated at start-up.
func unmurmur(h uint32) uint32 {
	mi := inv32(murM)
	h ^= h >> 15
	h ^= h >> 30
	h *= mi
	h = h ^ (h >> 13) ^ (h >> 26)
	h *= mi // undo h *= m
	h *= mi // undo h = k*m
	k := h ^ (h >> 24)
	return k * mi
}

// ---------------------------------------------------------------- independent evaluation of the property text

// specIdxRank: "the register selected by the leading p bits of the hash" and "leading zeros of
// the remaining bits + 1" (an all-zero rest counts all 32-p positions).
func specIdxRank(p uint32, h uint32) (uint32, uint32) {
	w := 32 - p
	idx := h >> w
	rest := h << p >> p // low w bits
	var lz uint32
	if rest == 0 {
		lz = w
	} else {
		lz = uint32(bits.LeadingZeros32(rest)) - p
	}
	return idx, lz + 1
}

func specWordCount(p uint32) int { // six registers per word, enough words for 2^p registers
	m := 1 << p
	return m/6 + 1
}

// specRegs: pointwise maximum of the ranks.
func specRegs(p uint32, hashes []uint32) []uint32 {
	regs := make([]uint32, 1<<p)
	for _, h := range hashes {
		i, r := specIdxRank(p, h)
		if r > regs[i] {
			regs[i] = r
		}
	}
	return regs
}

func packRegs(p uint32, regs []uint32) []byte {
	n := specWordCount(p)
	words := make([]uint32, n)
	for i, r := range regs {
		words[i/6] |= r << (5 * uint(i%6))
	}
	out := make([]byte, 8+4*n)
	binary.BigEndian.PutUint32(out[0:], p)
	binary.BigEndian.PutUint32(out[4:], uint32(n))
	for i, w := range words {
		binary.BigEndian.PutUint32(out[8+4*i:], w)
	}
	return out
}

func unpackRegs(b []byte) (p uint32, regs []uint32, ok bool) {
	if len(b) < 8 {
		return 0, nil, false
	}
	p = binary.BigEndian.Uint32(b)
	n := int(binary.BigEndian.Uint32(b[4:]))
	if p > 24 || len(b) != 8+4*n || n*6 < 1<<p {
		return p, nil, false
	}
	regs = make([]uint32, 1<<p)
	for i := range regs {
		w := binary.BigEndian.Uint32(b[8+4*(i/6):])
		regs[i] = (w >> (5 * uint(i%6))) & 31
	}
	return p, regs, true
}

func zerosOf(b []byte) int {
	_, regs, ok := unpackRegs(b)
	if !ok {
		return -1
	}
	z := 0
	for _, r := range regs {
		if r == 0 {
			z++
		}
	}
	return z
}

// ---------------------------------------------------------------- running the implementation

type run struct {
	h     *hll.HyperLogLog
	bytes []byte
	bools string
	card  uint64
	out   res
	stage string // where a panic / hang occurred: "offer" | "GetBytes" | "Cardinality"
}

func itemsReplay(p uint32, items []item) func() map[string]interface{} {
	return func() map[string]interface{} {
		n := len(items)
		if n > 200000 {
			n = 200000
		}
		return map[string]interface{}{"p": p, "n": len(items), "items": itemStrings(items[:n])}
	}
}

// build: a fresh counter of precision p, the items offered in order, GetBytes(), Cardinality().
func build(p uint32, items []item) run {
	var r run
	var sb strings.Builder
	r.stage = "new"
	r.out = impl("build", itemsReplay(p, items), func() {
		r.h = hll.NewHyperLogLogInt(p)
		r.stage = "offer"
		for _, it := range items {
			if offer(r.h, it) {
				sb.WriteByte('1')
			} else {
				sb.WriteByte('0')
			}
		}
		r.stage = "GetBytes"
		r.bytes = r.h.GetBytes()
		r.stage = "Cardinality"
		r.card = r.h.Cardinality()
		r.stage = ""
	})
	r.bools = sb.String()
	if r.bools == "" {
		r.bools = "-"
	}
	return r
}

// buildFailure reports a build that panicked or does not return, with the smallest exhibit found:
// one item on a fresh counter, else the shortest failing prefix.
func buildFailure(c *caseT, b run, fail failFn) {
	if b.out.Skipped {
		return
	}
	if b.out.Timeout {
		m := replayOf(c, map[string]interface{}{"step": "fresh counter, offer the items, GetBytes(), Cardinality(): blocked in " + b.stage, "goroutine": b.out.Where})
		fail("property", blocksKey(b.out), "a call on a counter that saw these items does not return ("+b.stage+")", m)
		return
	}
	key := b.stage + ":panic"
	if b.stage == "offer" || b.stage == "new" {
		key = "offer:panic"
	}
	gmu.Lock()
	nLocalised[key]++
	enough := nLocalised[key] > 3
	gmu.Unlock()
	if enough { // three localised exhibits per key are kept; the search for more is not worth its time
		fail("property", key, "panic in "+b.stage+": "+vh.Clip(b.out.Panic, 200), replayOf(c, map[string]interface{}{"step": b.stage}))
		return
	}
	what := map[string]string{"offer": "offering items", "new": "creating the counter", "GetBytes": "GetBytes() after offering these items", "Cardinality": "Cardinality() after offering these items"}[b.stage]
	still := func(items []item) bool {
		x := build(c.p, items)
		return !x.out.Skipped && !x.out.Timeout && x.out.Panic != "" && x.stage == b.stage
	}
	for i, it := range c.items {
		if i >= 4096 {
			break
		}
		if still([]item{it}) {
			fail("property", key, what+" panicked (a single item on a fresh counter): "+vh.Clip(b.out.Panic, 200),
				replayOf(&caseT{p: c.p, items: []item{it}, mode: c.mode}, map[string]interface{}{"hash": hashOf(it), "step": b.stage}))
			return
		}
	}
	lo, hi := 0, len(c.items) // shortest failing prefix (the failure is monotone for a state-dependent panic)
	for lo < hi {
		mid := (lo + hi) / 2
		if still(c.items[:mid+1]) {
			hi = mid
		} else {
			lo = mid + 1
		}
	}
	n := lo + 1
	if n > len(c.items) {
		n = len(c.items)
	}
	fail("property", key, what+" panicked: "+vh.Clip(b.out.Panic, 200), replayOf(&caseT{p: c.p, items: c.items[:n], mode: c.mode}, map[string]interface{}{"step": b.stage}))
}

var nLocalised = map[string]int{}

type failFn = func(kind, key, summary string, replay interface{})

func bytesOf(h *hll.HyperLogLog) (b []byte, o res) {
	o = impl("GetBytes", nil, func() { b = h.GetBytes() })
	return
}

func hashList(items []item) string {
	if len(items) == 0 {
		return "-"
	}
	var sb strings.Builder
	sb.Grow(len(items) * 11)
	for i, it := range items {
		if i > 0 {
			sb.WriteByte(',')
		}
		sb.WriteString(strconv.FormatUint(uint64(hashOf(it)), 10))
	}
	return sb.String()
}

func fnv(items []item) string {
	h := uint64(14695981039346656037)
	for _, it := range items {
		x := it.v
		if it.wide {
			x ^= 0xabcdef
		}
		for k := 0; k < 8; k++ {
			h ^= x & 0xff
			h *= 1099511628211
			x >>= 8
		}
	}
	return strconv.FormatUint(h, 16)
}

// ---------------------------------------------------------------- tolerance of the sampled error bound

// sigma(p) = 1.04/sqrt(m).  tolerance: |est - n| <= (tolSigma·sigma + biasAllow)·n + tolAbs.
// biasAllow: the raw estimator of the original algorithm (the one this code implements, without
// the HLL++ bias correction) over-estimates by up to ≈3 % for n between 2.5·m and 5·m at every
// precision; the sampled check judges the implementation against that algorithm, so the band
// includes it.  Calibrated on >10^6 sampled estimates (worst deviations are reported in the
// evidence): a hit is far outside anything the algorithm produces.
// Worst deviations seen in 10^7 sampled estimates on the fixed code: 6.9 sigma (p ≤ 6, heavy upper
// tail with 16–64 registers), 5.4 sigma (7 ≤ p ≤ 13), 3.95 % at n ≈ 2.44·m for p = 16 (bias).
const tolSigma = 10.0
const tolSigmaSmallP = 14.0
const biasAllow = 0.05
const tolAbs = 3.0

func withinBound(p uint32, n int, est uint64) bool {
	if est > 1<<62 {
		return false
	}
	m := float64(uint64(1) << p)
	sigma := 1.04 / math.Sqrt(m)
	ts := tolSigma
	if p <= 6 {
		ts = tolSigmaSmallP
	}
	tol := (ts*sigma+biasAllow)*float64(n) + tolAbs
	return math.Abs(float64(est)-float64(n)) <= tol
}

// near-exact answers for small sets: n distinct hashes that select n distinct registers of an
// otherwise empty counter are counted by linear counting, round(m·ln(m/(m-n))), which is n
// (to the unit) while n² ≤ m/2.
func tinyExpected(p uint32, hashes []uint32) (uint64, bool) {
	m := uint64(1) << p
	n := uint64(len(hashes))
	if n == 0 {
		return 0, true
	}
	if 2*n*n > m {
		return 0, false
	}
	seen := map[uint32]struct{}{}
	for _, h := range hashes {
		ix, _ := specIdxRank(p, h)
		if _, dup := seen[ix]; dup {
			return 0, false
		}
		seen[ix] = struct{}{}
	}
	return n, true
}

// ---------------------------------------------------------------- main

type caseT struct {
	p     uint32
	items []item
	mode  string
}

type pending struct {
	line string
	want string
	c    *caseT
	what string // "OFF" | "MRG" | "BLD" | word-level keys
	key  string
	info interface{}
}

func main() {
	env, rep := vh.Parse("C14")
	// vh.NewRng(s) and vh.NewRng(s+1) are the same splitmix stream shifted by one draw; scramble
	// the seed first so that neighbouring seeds explore unrelated inputs
	rng := vh.NewRng(scramble(env.Seed))
	rep.Rule = "a case is a precision p in 4..16 and a sequence of 32-/64-bit items (random, duplicated, or with chosen hash values via the inverted MurmurHash) of cardinality 0..8·2^p; for each: bytes/booleans/estimate vs the model, a shuffled and a duplicated re-offer, a random split merged back (plus comm/assoc/idem/inputs-unchanged), rebuild from bytes; non-trivial = at least one item; distinct by (p, mode, item multiset hash)"

	var pend []pending
	var mu sync.Mutex
	closed := false // set when the driver phase starts: a goroutine given up by the watchdog must not write any more
	add := func(p pending) {
		mu.Lock()
		if !closed {
			pend = append(pend, p)
		}
		mu.Unlock()
	}
	fail := func(kind, key, summary string, replay interface{}) {
		mu.Lock()
		if !closed {
			rep.Fail(kind, key, summary, replay)
		}
		mu.Unlock()
	}
	// the report is always written: at 5/6 of the check script's timeout an emergency report is written
	budget := 1500 * time.Second
	if env.Thorough {
		budget = 6000 * time.Second
	}
	supervise(env, budget, func() ([]vh.Failure, int, string) {
		mu.Lock()
		defer mu.Unlock()
		closed = true
		return append([]vh.Failure(nil), rep.Failures...), rep.Evaluations, rep.Rule
	})

	// ---- 0. the inverse of MurmurHash on 32-bit items (harness tool, not a verdict)
	invOK := true
	for i := 0; i < 2000 && invOK; i++ {
		h := uint32(rng.U64())
		if i < 8 {
			h = []uint32{0, 1, 0xffffffff, 0x80000000, 0x7fffffff, 0x0fffffff, 0x10000000, 0xf0000000}[i]
		}
		if refHashLong(uint64(unmurmur(h))) != h {
			invOK = false
		}
	}
	if !invOK {
		rep.Note("harness bug: the inverse of the reference hash is wrong; chosen-hash cases are skipped")
	}
	invOKg = invOK

	// ---- replay mode: only the cases of the replay file
	var cases []*caseT
	if env.Replay != "" {
		raw, err := os.ReadFile(env.Replay)
		if err != nil {
			vh.Die("cannot read replay: %v", err)
		}
		var rf struct {
			Cases []struct {
				P      uint32   `json:"p"`
				Items  []string `json:"items"`
				Family string   `json:"range_family"`
				Base   uint64   `json:"range_base"`
				Fixed  uint64   `json:"range_fixed"`
				N      int      `json:"range_n"`
				State  string   `json:"register_state"`
				Hist   []string `json:"history_ops"`
			} `json:"cases"`
		}
		if err := json.Unmarshal(raw, &rf); err != nil {
			vh.Die("bad replay file: %v", err)
		}
		for _, c := range rf.Cases {
			if len(c.Hist) > 0 { // a history over several counters
				runHistory(rep, c.Hist, add, fail)
				continue
			}
			if c.P == 0 {
				continue
			}
			if c.N > 0 { // a large-cardinality range: items are described, not listed
				rangeCheck(rep, c.P, c.Family, c.Base, c.Fixed, c.N, add, fail)
				continue
			}
			if c.State != "" { // a register state given as bytes
				stateCheck(rep, c.P, vh.UnHex(c.State), 0, add, fail)
				continue
			}
			ct := &caseT{p: c.P, mode: "replay"}
			for _, s := range c.Items {
				ct.items = append(ct.items, parseItem(s))
			}
			cases = append(cases, ct)
		}
	} else {
		// ---- 1. word level and RegisterSet level
		registerSetSection(env, rep, rng, add)
		// ---- 2. generated cases
		cases = genCases(env, rng, invOK)
	}

	// ---- 3. every case on the implementation (16 workers), lines for the model
	var wg sync.WaitGroup
	sem := make(chan struct{}, 16)
	forks := make([]*vh.Rng, len(cases))
	for i := range cases {
		forks[i] = rng.Fork()
	}
	for ci, c := range cases {
		wg.Add(1)
		sem <- struct{}{}
		go func(c *caseT, r *vh.Rng) {
			defer wg.Done()
			defer func() { <-sem }()
			checkCase(c, r, add, fail)
		}(c, forks[ci])
	}
	wg.Wait()
	for _, c := range cases {
		rep.Case(fmt.Sprintf("p=%d mode=%s n=%d h=%s", c.p, c.mode, len(c.items), fnv(c.items)), len(c.items) > 0)
		rep.Count(fmt.Sprintf("p=%02d", c.p))
		rep.Count("mode:" + c.mode)
		m := 1 << c.p
		switch n := len(c.items); {
		case n == 0:
			rep.Count("card:0")
		case n <= 5:
			rep.Count("card:1..5")
		case n < m:
			rep.Count("card:<m")
		case n <= 5*m/2:
			rep.Count("card:m..2.5m")
		default:
			rep.Count("card:>2.5m")
		}
		if len(rep.Samples) < 6 && len(c.items) > 0 && len(c.items) <= 6 {
			rep.Sample(map[string]interface{}{"p": c.p, "items": itemStrings(c.items), "mode": c.mode})
		}
	}

	// ---- 4. sampled error bound + search for D30 (implementation only)
	if env.Replay == "" {
		sampleEstimates(env, rep, rng, fail)
		largeCardinalities(env, rep, rng, add, fail)
		historySection(env, rep, rng, add, fail)
		hashSection(env, rep, rng, add, fail)
		apiSection(env, rep, rng, add, fail)
		d30Witness(rep, invOK, fail)
		if invOK {
			linearSweep(env, rep, add, fail)
		}
	}

	// ---- 5. ask the model
	mu.Lock()
	closed = true
	mu.Unlock()
	guardNotes(rep)
	sort.SliceStable(pend, func(i, j int) bool { return pend[i].line < pend[j].line })
	lines := make([]string, len(pend))
	for i, p := range pend {
		lines[i] = p.line
	}
	outs, err := runDriverPar(env.Driver, lines, 8)
	if err != nil {
		vh.Die("%v", err)
	}
	for i, got := range outs {
		pe := pend[i]
		if got == pe.want {
			continue
		}
		if pe.what == "OFF" { // the model appends branch, zeros, register sum, exact-specification branch and raw estimate
			if g := strings.SplitN(got, " ", 4); len(g) >= 3 && g[0]+" "+g[1]+" "+g[2] == pe.want {
				// the exact rational specification (Golib.HLL.EstSpec) against the float implementation
				if f := strings.Fields(got); len(f) >= 8 {
					if f[3] == f[6] {
						rep.Count("exact-spec:same-branch-as-float")
					} else {
						rep.Count("exact-spec:branch-differs-from-float")
						rep.Note("float and exact small-range decisions differ (boundary rounding) at p=%d regSum=%s", pe.c.p, f[5])
					}
					if f[3] == "R" && f[6] == "R" {
						impl, _ := strconv.ParseUint(f[2], 10, 64)
						exact, _ := strconv.ParseUint(f[7], 10, 64)
						switch {
						case impl == exact:
							rep.Count("exact-spec:raw-estimate-equal")
						case impl+1 == exact || exact+1 == impl:
							rep.Count("exact-spec:raw-estimate-off-by-one-rounding")
						default:
							rep.Fail("correspondence", "Cardinality:differs-from-exact-specification",
								fmt.Sprintf("Cardinality() = %d, exact alpha·m²/Σ2^-M[j] rounds to %d", impl, exact), replayOf(pe.c, nil))
						}
					}
				}
				continue
			}
		}
		classify(rep, pe, got)
	}
	rep.Extra["driver_lines"] = len(lines)
	// a disagreement with the model is reported as "correspondence" only when no input was found on
	// which the property itself fails; when the direct evaluation found such inputs, they are the report
	nprop := 0
	for _, f := range rep.Failures {
		if f.Kind == "property" {
			nprop++
		}
	}
	if nprop > 0 {
		kept := rep.Failures[:0]
		dropped := 0
		for _, f := range rep.Failures {
			if f.Kind == "property" {
				kept = append(kept, f)
			} else {
				dropped++
			}
		}
		rep.Failures = kept
		if dropped > 0 {
			rep.Note("%d model disagreements not listed separately: the direct evaluation exhibited inputs on which the property fails", dropped)
		}
	}
	rep.Write(env.Out)
}

var invOKg bool

func crafted(h uint32) item { return item{false, uint64(unmurmur(h))} }

func scramble(x uint64) uint64 {
	x ^= 0xC14C14C14C14C14
	x = (x ^ (x >> 33)) * 0xff51afd7ed558ccd
	x = (x ^ (x >> 33)) * 0xc4ceb9fe1a85ec53
	return x ^ (x >> 33)
}

func runDriverPar(driver string, lines []string, k int) ([]string, error) {
	if len(lines) < 4*k {
		return vh.RunDriver(driver, lines)
	}
	outs := make([][]string, k)
	errs := make([]error, k)
	var wg sync.WaitGroup
	// round-robin so that the long lines are spread
	idx := make([][]int, k)
	for i := range lines {
		idx[i%k] = append(idx[i%k], i)
	}
	for w := 0; w < k; w++ {
		wg.Add(1)
		go func(w int) {
			defer wg.Done()
			sub := make([]string, len(idx[w]))
			for j, i := range idx[w] {
				sub[j] = lines[i]
			}
			outs[w], errs[w] = vh.RunDriver(driver, sub)
		}(w)
	}
	wg.Wait()
	res := make([]string, len(lines))
	for w := 0; w < k; w++ {
		if errs[w] != nil {
			return nil, errs[w]
		}
		for j, i := range idx[w] {
			res[i] = outs[w][j]
		}
	}
	return res, nil
}

// ---------------------------------------------------------------- item families

// Every family is a way items look in use; the i-th item of a sequence is gen(i).  Families that
// vary only part of a 64-bit item are there because a hash that ignores (or mistreats) that part
// still looks fine on uniformly random items.
var familyNames = []string{"int32", "int64", "mixed", "small", "seq", "neg64", "hi-only", "lo-only", "sign-pairs"}

func newFamily(name string, r *vh.Rng) func(i int) item {
	switch name {
	case "int32":
		return func(int) item { return item{false, uint64(uint32(r.U64()))} }
	case "int64":
		return func(int) item { return item{true, r.U64()} }
	case "small": // small integers, the way ids look, through both entry points
		return func(int) item { return item{r.Bool(), uint64(r.Intn(1 << 22))} }
	case "seq": // consecutive ids from a base
		wide := r.Bool()
		base := uint64(r.Intn(1 << 16))
		if wide && r.Bool() {
			base = r.U64() >> uint(r.Intn(40))
		}
		return func(i int) item {
			if wide {
				return item{true, base + uint64(i)}
			}
			return item{false, uint64(uint32(base) + uint32(i))}
		}
	case "neg64": // negative int64 ids: -1, -2, … and arbitrary values with the sign bit set
		return func(int) item {
			if r.Bool() {
				return item{true, uint64(-int64(1 + r.Intn(1<<22)))}
			}
			return item{true, r.U64() | 1<<63}
		}
	case "hi-only": // one low word, the items differ only in the upper 32 bits
		lo := uint64(uint32(r.U64()))
		if r.Chance(30) {
			lo = uint64(r.Intn(3))
		}
		seq := r.Bool()
		base := uint32(r.U64())
		if r.Bool() {
			base |= 1 << 31 // … with the sign bit set
		}
		return func(i int) item {
			hi := uint32(r.U64())
			if seq {
				hi = base + uint32(i)
			}
			return item{true, uint64(hi)<<32 | lo}
		}
	case "lo-only": // one (non-zero) upper word, the items differ only in the lower 32 bits
		hi := uint64(uint32(r.U64()) | 1)
		if r.Bool() {
			hi |= 1 << 31
		}
		seq := r.Bool()
		base := uint32(r.U64())
		return func(i int) item {
			lo := uint32(r.U64())
			if seq {
				lo = base + uint32(i)
			}
			return item{true, hi<<32 | uint64(lo)}
		}
	case "sign-pairs": // x and x with the sign bit flipped
		var prev uint64
		return func(i int) item {
			if i%2 == 1 {
				return item{true, prev ^ 1<<63}
			}
			prev = r.U64()
			if r.Chance(30) {
				prev = uint64(r.Intn(1 << 20))
			}
			return item{true, prev}
		}
	default: // mixed
		return func(int) item {
			if r.Bool() {
				return item{false, uint64(uint32(r.U64()))}
			}
			if r.Chance(20) { // a 64-bit item whose value also fits 32 bits (same hash as the 32-bit item)
				return item{true, uint64(uint32(r.U64()))}
			}
			return item{true, r.U64()}
		}
	}
}

// bump offers items until one changes the counter (a maximal-rank item in a random register
// first, then random items); false if nothing changed it.
func bump(h *hll.HyperLogLog, p uint32, r *vh.Rng) bool {
	for t := 0; t < 64; t++ {
		var it item
		if invOKg && t%2 == 0 {
			it = crafted(uint32(r.Intn(1<<p)) << (32 - p))
		} else {
			it = item{true, r.U64()}
		}
		if offer(h, it) {
			return true
		}
	}
	return false
}

// ---------------------------------------------------------------- case generation

func genCases(env *vh.Env, rng *vh.Rng, invOK bool) []*caseT {
	var cases []*caseT
	reps := 2
	if env.Thorough {
		reps = 6
	}
	modes := familyNames
	for p := uint32(4); p <= 16; p++ {
		m := 1 << p
		sizes := []int{0, 1, 2, 3, 5, 17, m / 4, m / 2, m - 1, m, m + 1, 2 * m, 5 * m / 2, 3 * m, 5 * m, 8 * m}
		for rp := 0; rp < reps; rp++ {
			if !env.Thorough && p >= 13 && rp > 0 {
				break // quick tier: one pass over the large precisions
			}
			for si, n := range sizes {
				if !env.Thorough && p >= 14 && si%2 == 1 && n > m {
					continue // quick tier: fewer of the very large cases
				}
				mode := modes[(si+rp+int(p))%len(modes)]
				c := &caseT{p: p, mode: mode}
				gen := newFamily(mode, rng)
				for i := 0; i < n; i++ {
					c.items = append(c.items, gen(i))
				}
				cases = append(cases, c)
			}
			// extra small cases at every precision (tiny sets, many of them)
			for k := 0; k < 6; k++ {
				n := 1 + rng.Intn(12)
				c := &caseT{p: p, mode: "tiny"}
				gen := newFamily(familyNames[rng.Intn(len(familyNames))], rng)
				for i := 0; i < n; i++ {
					c.items = append(c.items, gen(i))
				}
				cases = append(cases, c)
			}
		}
		if invOK {
			// chosen hash values: every rank 1..33-p in registers 0, 1, m/2, m-1; extremes of the hash
			w := 32 - p
			c := &caseT{p: p, mode: "ranks"}
			for _, reg := range []uint32{0, 1, uint32(m / 2), uint32(m - 1)} {
				for t := uint32(1); t <= w+1; t++ {
					var rest uint32
					if t <= w {
						rest = 1 << (w - t)
						if t < w && rng.Bool() {
							rest |= uint32(rng.U64()) & (rest - 1) // random lower bits do not change the rank
						}
					}
					c.items = append(c.items, crafted(reg<<w|rest))
				}
			}
			cases = append(cases, c)
			// descending then ascending ranks in one register (update-if-greater both ways)
			c2 := &caseT{p: p, mode: "ranks-updown"}
			reg := uint32(rng.Intn(m))
			for t := w + 1; t >= 1; t-- {
				var rest uint32
				if t <= w {
					rest = 1 << (w - t)
				}
				c2.items = append(c2.items, crafted(reg<<w|rest))
			}
			for t := uint32(1); t <= w+1; t++ {
				var rest uint32
				if t <= w {
					rest = 1<<(w-t) | (uint32(rng.U64()) & (1<<(w-t) - 1))
				}
				c2.items = append(c2.items, crafted(reg<<w|rest))
			}
			cases = append(cases, c2)
			c3 := &caseT{p: p, mode: "extremes"}
			for _, h := range []uint32{0, 1, 0xffffffff, 0x80000000, 0x7fffffff, 1 << w, 1<<w - 1, 1<<w + 1, 0xffffffff << w, 1 << (p - 1), 1<<(p-1) + 1} {
				c3.items = append(c3.items, crafted(h))
			}
			cases = append(cases, c3)
			// one item in every register, rank 1: no empty register with the smallest possible raw estimate
			c4 := &caseT{p: p, mode: "all-registers-rank1"}
			for reg := 0; reg < m; reg++ {
				c4.items = append(c4.items, crafted(uint32(reg)<<w|1<<(w-1)))
			}
			cases = append(cases, c4)
			// the top of the register range: rank 33-p (the hash tail after the index bits is all zero).
			// Item 0 has hash 0 through both entry points; other registers by chosen hashes.  Tiny sets
			// (the estimate must be exact) and every register at the top value.
			cases = append(cases, &caseT{p: p, mode: "top-rank", items: []item{{false, 0}}})
			cases = append(cases, &caseT{p: p, mode: "top-rank", items: []item{{true, 0}, {false, 0}}})
			c5 := &caseT{p: p, mode: "top-rank", items: []item{{true, 0}}}
			for k := 0; k < 1+rng.Intn(3); k++ {
				c5.items = append(c5.items, crafted(uint32(rng.Intn(m))<<w))
			}
			if rng.Bool() {
				c5.items = append(c5.items, item{true, rng.U64()})
			}
			cases = append(cases, c5)
			c6 := &caseT{p: p, mode: "top-rank-all"}
			for reg := 0; reg < m; reg++ {
				c6.items = append(c6.items, crafted(uint32(reg)<<w))
			}
			cases = append(cases, c6)
		} else {
			cases = append(cases, &caseT{p: p, mode: "top-rank", items: []item{{false, 0}}}, &caseT{p: p, mode: "top-rank", items: []item{{true, 0}}})
		}
	}
	return cases
}

// ---------------------------------------------------------------- per-case checks

func shuffled(r *vh.Rng, items []item) []item {
	out := append([]item(nil), items...)
	for i := len(out) - 1; i > 0; i-- {
		j := r.Intn(i + 1)
		out[i], out[j] = out[j], out[i]
	}
	return out
}

func replayOf(c *caseT, extra map[string]interface{}) map[string]interface{} {
	m := map[string]interface{}{"p": c.p, "mode": c.mode, "n": len(c.items)}
	if len(c.items) <= 200000 {
		m["items"] = itemStrings(c.items)
	} else {
		m["items"] = itemStrings(c.items[:200000])
		m["items_truncated"] = true
	}
	for k, v := range extra {
		m[k] = v
	}
	return m
}

func checkCase(c *caseT, r *vh.Rng, add func(pending), fail failFn) {
	p := c.p
	base := build(p, c.items)
	if !base.out.OK() {
		buildFailure(c, base, fail)
		return
	}
	// step runs one block of implementation calls of this case under the watchdog.  A panic is
	// reported under panicKey ("" = the block reports for itself), a call that does not return under
	// "<Type.Method>:blocks" with the case and the step as replay; after a hang the case is abandoned
	// (its counters may be locked for ever).  false = the block did not complete.
	abandoned := false
	step := func(label, panicKey, what string, rp func() map[string]interface{}, f func()) bool {
		if abandoned {
			return false
		}
		o := impl(label, rp, f)
		switch {
		case o.Skipped:
			return false
		case o.Timeout:
			if firstHangReport(label) {
				m := rp()
				m["step"] = what
				m["goroutine"] = o.Where
				fail("property", blocksKey(o), what+" does not return", m)
			}
			abandoned = true
			return false
		case o.Panic != "":
			if panicKey != "" {
				m := rp()
				m["step"] = what
				fail("property", panicKey, what+" panicked: "+vh.Clip(o.Panic, 200), m)
			}
			return false
		}
		return true
	}
	rpc := func() map[string]interface{} { return replayOf(c, nil) }
	// a build inside the case: failures are localised and reported
	sub := func(items []item) (run, bool) {
		if abandoned {
			return run{}, false
		}
		b := build(p, items)
		if !b.out.OK() {
			buildFailure(&caseT{p: p, items: items, mode: c.mode}, b, fail)
			if b.out.Timeout {
				abandoned = true
			}
			return b, false
		}
		return b, true
	}
	// model
	add(pending{line: fmt.Sprintf("OFF %d %s", p, hashList(c.items)),
		want: fmt.Sprintf("%s %s %d", vh.Hex(base.bytes), base.bools, base.card), c: c, what: "OFF"})

	// direct: registers = pointwise maximum of the ranks
	hashes := make([]uint32, len(c.items))
	for i, it := range c.items {
		hashes[i] = hashOf(it)
	}
	spec := packRegs(p, specRegs(p, hashes))
	if !bytes.Equal(spec, base.bytes) {
		localiseRegisterFailure(c, hashes, fail)
	}
	// the model's packing of the abstract registers (bytesOfRegs) against GetBytes()
	if p <= 10 {
		rs := specRegs(p, hashes)
		var sb strings.Builder
		for i, v := range rs {
			if i > 0 {
				sb.WriteByte(',')
			}
			sb.WriteString(strconv.Itoa(int(v)))
		}
		add(pending{line: fmt.Sprintf("PACK %d %s", p, sb.String()), want: vh.Hex(base.bytes), c: c, what: "PACK"})
	}
	// direct: the boolean of Offer = "the register grew"
	{
		regs := make([]uint32, 1<<p)
		for i, h := range hashes {
			ix, rk := specIdxRank(p, h)
			grew := rk > regs[ix]
			if grew {
				regs[ix] = rk
			}
			if i < len(base.bools) && (base.bools[i] == '1') != grew {
				fail("property", "offer:boolean", "Offer's boolean is not 'the register grew'",
					replayOf(&caseT{p: p, items: c.items[:i+1], mode: c.mode}, map[string]interface{}{"at": i, "implementation": base.bools[i] == '1'}))
				break
			}
		}
	}

	// order
	if len(c.items) > 1 {
		if sh, ok := sub(shuffled(r, c.items)); ok {
			if !bytes.Equal(sh.bytes, base.bytes) {
				fail("property", "order:bytes-differ", "a permutation of the same items gives different bytes", replayOf(c, nil))
			}
			if sh.card != base.card {
				fail("property", "order:estimate-differs", "a permutation of the same items gives a different estimate", replayOf(c, nil))
			}
		}
	}
	// duplicates: every item again (immediately, and the whole sequence again)
	if len(c.items) > 0 {
		var dup []item
		for _, it := range c.items {
			dup = append(dup, it)
			if r.Chance(40) {
				dup = append(dup, it)
			}
		}
		dup = append(dup, shuffled(r, c.items)...)
		if d, ok := sub(dup); ok && !bytes.Equal(d.bytes, base.bytes) {
			fail("property", "duplicates:bytes-differ", "offering items again changes the bytes", replayOf(c, nil))
		}
		// an item offered twice in a row: the second Offer reports "unchanged"
		step("offer-twice", "offer:panic", "offering every item twice in a row", rpc, func() {
			h := hll.NewHyperLogLogInt(p)
			for i, it := range c.items {
				if i >= 64 {
					break
				}
				offer(h, it)
				if offer(h, it) {
					fail("property", "duplicates:boolean", "re-offering the item just offered reports a change",
						replayOf(&caseT{p: p, items: c.items[:i+1], mode: c.mode}, nil))
					break
				}
			}
		})
	}
	if abandoned {
		return
	}

	// merge of a random split (parts may overlap, some may be empty)
	{
		k := 2 + r.Intn(3)
		parts := make([][]item, k)
		for _, it := range c.items {
			j := r.Intn(k)
			parts[j] = append(parts[j], it)
			if r.Chance(15) { // overlap
				j2 := r.Intn(k)
				parts[j2] = append(parts[j2], it)
			}
		}
		if r.Chance(25) {
			parts[r.Intn(k)] = nil
		}
		var total []item
		for _, pt := range parts {
			total = append(total, pt...)
		}
		rp := func() map[string]interface{} {
			ps := make([]interface{}, k)
			for j := range parts {
				if len(parts[j]) <= 1024 {
					ps[j] = itemStrings(parts[j])
				} else {
					ps[j] = fmt.Sprintf("%d items", len(parts[j]))
				}
			}
			return replayOf(c, map[string]interface{}{"parts": ps})
		}
		single, okS := sub(total)
		hs := make([]*hll.HyperLogLog, k)
		before := make([][]byte, k)
		okParts := okS
		for j := range parts {
			b, ok := sub(parts[j])
			if !ok {
				okParts = false
				break
			}
			hs[j] = b.h
			before[j] = b.bytes
		}
		var merged *hll.HyperLogLog
		var mb []byte
		var mcard uint64
		okM := okParts && step("merge", "merge:panic", "a.Merge(b, …) of counters of equal precision, GetBytes(), Cardinality()", rp, func() {
			merged = hs[0].Merge(hs[1:]...)
			mb = merged.GetBytes()
			mcard = merged.Cardinality()
		})
		if okM {
			if !bytes.Equal(mb, single.bytes) {
				fail("property", "merge:not-union", "merge of the parts differs from the counter that saw the union", rp())
			}
			if mcard != single.card {
				fail("property", "merge:estimate-differs", "estimate of the merge differs from the estimate of the union counter", rp())
			}
			step("merge:inputs", "merge:panic", "GetBytes() of the inputs after Merge", rp, func() {
				for j := range hs {
					if !bytes.Equal(hs[j].GetBytes(), before[j]) {
						fail("property", "merge:input-modified", fmt.Sprintf("Merge changed its input #%d", j), rp())
						break
					}
				}
			})
			// commutative
			step("merge:reverse", "merge:panic", "merging in reverse order", rp, func() {
				rev := make([]*hll.HyperLogLog, k)
				for j := range hs {
					rev[j] = hs[k-1-j]
				}
				if b := rev[0].Merge(rev[1:]...).GetBytes(); !bytes.Equal(b, mb) {
					fail("property", "merge:not-commutative", "merging in reverse order gives different bytes", rp())
				}
			})
			// associative
			if k >= 3 {
				step("merge:assoc", "merge:panic", "(a∪b)∪c and a∪(b∪c)", rp, func() {
					l := hs[0].Merge(hs[1]).Merge(hs[2]).GetBytes()
					rr := hs[0].Merge(hs[1].Merge(hs[2])).GetBytes()
					if !bytes.Equal(l, rr) {
						fail("property", "merge:not-associative", "(a∪b)∪c differs from a∪(b∪c)", rp())
					}
				})
			}
			// idempotent
			step("merge:self", "merge:panic", "a.Merge(a) and a.Merge()", rp, func() {
				if b := hs[0].Merge(hs[0]).GetBytes(); !bytes.Equal(b, before[0]) {
					fail("property", "merge:not-idempotent", "a∪a differs from a", rp())
				}
				if b := hs[0].Merge().GetBytes(); !bytes.Equal(b, before[0]) {
					fail("property", "merge:not-idempotent", "a.Merge() differs from a", rp())
				}
			})
			// AddAll: in-place union, argument untouched
			if a, ok := sub(parts[0]); ok {
				step("addall", "merge:panic", "a.AddAll(b) for every other part", rp, func() {
					for j := 1; j < k; j++ {
						a.h.AddAll(hs[j])
					}
					if b := a.h.GetBytes(); !bytes.Equal(b, mb) {
						fail("property", "merge:addall-not-union", "AddAll differs from Merge", rp())
					}
					for j := 1; j < k; j++ {
						if !bytes.Equal(hs[j].GetBytes(), before[j]) {
							fail("property", "merge:input-modified", fmt.Sprintf("AddAll changed its argument #%d", j), rp())
							break
						}
					}
				})
			}
			// idempotent in place: a.AddAll(a) returns and changes nothing (also twice, also after the
			// counter was an argument, and for the merged counter); estimate unchanged
			for _, who := range []string{"a part", "the merged counter"} {
				items := parts[0]
				if who != "a part" {
					items = total
				}
				a, ok := sub(items)
				if !ok {
					continue
				}
				who := who
				step("addall:self", "merge:panic", "a.AddAll(a) ("+who+")", rp, func() {
					a.h.AddAll(a.h)
					a.h.AddAll(a.h)
					if !bytes.Equal(a.h.GetBytes(), a.bytes) {
						fail("property", "merge:not-idempotent", "a.AddAll(a) changes a ("+who+")", rp())
					}
					if a.h.Cardinality() != a.card {
						fail("property", "merge:not-idempotent", "a.AddAll(a) changes the estimate of a ("+who+")", rp())
					}
					if offer(a.h, item{true, 0x9e3779b97f4a7c15}) { // the counter keeps working
						a.h.AddAll(a.h)
					}
				})
			}
		}
		// no aliasing in either direction: r := h.Merge(), h.Merge(a), h.Merge(a, b, c); mutate the
		// result → every input keeps its bytes; mutate an input → the result keeps its bytes
		if okM && len(total) <= 40000 {
			for _, arity := range []int{0, 1, 3} {
				if arity > k-1 {
					arity = k - 1
				}
				ins := make([]*hll.HyperLogLog, arity+1)
				okIns := true
				for j := range ins {
					b, ok := sub(parts[j])
					if !ok {
						okIns = false
						break
					}
					ins[j] = b.h
				}
				if !okIns {
					break
				}
				var res *hll.HyperLogLog
				bad := ""
				og := step("merge:aliasing", "merge:panic", "Merge/offer history", rp, func() {
					res = ins[0].Merge(ins[1:]...)
					snap := make([][]byte, len(ins))
					for j := range ins {
						snap[j] = ins[j].GetBytes()
					}
					if bump(res, p, r) {
						for j := range ins {
							if !bytes.Equal(ins[j].GetBytes(), snap[j]) {
								bad = fmt.Sprintf("offering to the result of Merge with %d argument(s) changed input #%d", arity, j)
								return
							}
						}
					}
					// AddAll into the result
					extra := hll.NewHyperLogLogInt(p)
					bump(extra, p, r)
					res.AddAll(extra)
					for j := range ins {
						if !bytes.Equal(ins[j].GetBytes(), snap[j]) {
							bad = fmt.Sprintf("AddAll into the result of Merge with %d argument(s) changed input #%d", arity, j)
							return
						}
					}
					rs := res.GetBytes()
					for j := range ins {
						if bump(ins[j], p, r) && !bytes.Equal(res.GetBytes(), rs) {
							bad = fmt.Sprintf("offering to input #%d changed the result of an earlier Merge with %d argument(s)", j, arity)
							return
						}
					}
				})
				if og && bad != "" {
					m := rp()
					m["history"] = bad
					m["merge_arguments"] = arity
					fail("property", "merge:result-aliases-input", bad, m)
				}
				if arity == k-1 {
					break
				}
			}
		}
		// "inputs untouched" includes the container the inputs are passed in: Merge is called with
		// every sub-slice xs[:j] of a slice that has spare capacity (and with len == cap, nil, empty,
		// the receiver among the arguments, the same counter twice); after each call EVERY element of
		// the full slice must be the same pointer with the same bytes as before, each result must be the
		// union, and finally the full slice is merged and compared with the union (and the model).
		if okM && !abandoned && len(total) <= 40000 {
			containerHistories(c, r, parts, add, fail)
		}
		// model of the merge (only for moderate sizes: the single-counter line already ties the state)
		if okM && len(total) <= 70000 {
			ls := make([]string, k)
			for j := range parts {
				ls[j] = hashList(parts[j])
			}
			add(pending{line: fmt.Sprintf("MRG %d %s", p, strings.Join(ls, "|")),
				want: fmt.Sprintf("%s %d", vh.Hex(mb), mcard), c: c, what: "MRG", info: rp()})
		}
	}
	if abandoned {
		return
	}

	// serialize / rebuild
	{
		var rb []byte
		var rcard uint64
		var nilBuilt bool
		ok := step("rebuild", "rebuild:fails", "BuildHyperLogLog(GetBytes()), then GetBytes(), Cardinality() and re-offering the items", rpc, func() {
			h2 := hll.BuildHyperLogLog(base.bytes)
			if h2 == nil {
				nilBuilt = true
				return
			}
			rb = h2.GetBytes()
			rcard = h2.Cardinality()
			// the rebuilt counter keeps working: offering everything again changes nothing
			for i, it := range c.items {
				if i >= 256 {
					break
				}
				if offer(h2, it) {
					fail("property", "rebuild:state-differs", "re-offering an item to the rebuilt counter changes it", replayOf(c, nil))
					break
				}
			}
		})
		switch {
		case !ok:
		case nilBuilt:
			fail("property", "rebuild:fails", "BuildHyperLogLog(GetBytes()) returned nil", replayOf(c, nil))
		case !bytes.Equal(rb, base.bytes):
			fail("property", "rebuild:bytes-differ", "BuildHyperLogLog(GetBytes()).GetBytes() differs", replayOf(c, nil))
		case rcard != base.card:
			fail("property", "rebuild:estimate-differs", "the rebuilt counter's estimate differs", replayOf(c, nil))
		}
		// the byte slice handed to BuildHyperLogLog is a container too: spare capacity beyond len and the
		// bytes themselves stay as they were, also after the rebuilt counter is used
		if ok && len(c.items) <= 40000 {
			bad := ""
			other, okO := sub(c.items)
			og := okO && step("rebuild:container", "", "BuildHyperLogLog on a slice with spare capacity", rpc, func() {
				n := len(base.bytes)
				buf := make([]byte, n+96)
				for i := range buf {
					buf[i] = byte(0xA5 ^ i)
				}
				copy(buf[16:], base.bytes)
				keep := append([]byte(nil), buf...)
				arg := buf[16 : 16+n : 16+n+32] // len n, 32 spare bytes of capacity, 48 more behind and 16 in front
				h2 := hll.BuildHyperLogLog(arg)
				if h2 == nil {
					return
				}
				if !bytes.Equal(buf, keep) {
					bad = "BuildHyperLogLog wrote into its argument (or around it)"
					return
				}
				bump(h2, p, r)
				h2.AddAll(other.h)
				_ = h2.GetBytes()
				if !bytes.Equal(buf, keep) {
					bad = "using the rebuilt counter wrote into the byte slice it was built from (or around it)"
				}
			})
			if og && bad != "" {
				fail("property", "rebuild:container-modified", bad, replayOf(c, map[string]interface{}{"history": bad}))
			}
		}
		// the rebuilt counter, the original and the byte slice are independent of each other
		if ok && len(c.items) <= 40000 {
			bad := ""
			h1r, ok1 := sub(c.items)
			og := ok1 && step("rebuild:aliasing", "rebuild:fails", "rebuild/offer history", rpc, func() {
				h1 := h1r.h
				b1 := h1.GetBytes()
				keep := append([]byte(nil), b1...)
				h2 := hll.BuildHyperLogLog(b1)
				if h2 == nil {
					return
				}
				if bump(h2, p, r) && (!bytes.Equal(h1.GetBytes(), keep) || !bytes.Equal(b1, keep)) {
					bad = "offering to the rebuilt counter changed the original counter or the serialized bytes"
					return
				}
				s2 := h2.GetBytes()
				if bump(h1, p, r) && (!bytes.Equal(h2.GetBytes(), s2) || !bytes.Equal(b1, keep)) {
					bad = "offering to the original counter changed the rebuilt counter or the serialized bytes"
					return
				}
				s1 := h1.GetBytes()
				for i := range b1 {
					b1[i] ^= 0xff
				}
				if !bytes.Equal(h2.GetBytes(), s2) || !bytes.Equal(h1.GetBytes(), s1) {
					bad = "overwriting the serialized bytes changed a counter"
				}
			})
			if og && bad != "" {
				fail("property", "rebuild:aliases-original", bad, replayOf(c, map[string]interface{}{"history": bad}))
			}
		}
		if ok && !nilBuilt && len(c.items) <= 70000 {
			add(pending{line: "BLD " + vh.Hex(base.bytes), want: fmt.Sprintf("ok %d %s %d", p, vh.Hex(rb), rcard), c: c, what: "BLD"})
		}
	}

	// near-exact answers for tiny sets (deterministic: distinct registers, n² ≤ m/2)
	{
		dhs := map[uint32]struct{}{}
		var hs []uint32
		for _, h := range hashes {
			if _, ok := dhs[h]; !ok {
				dhs[h] = struct{}{}
				hs = append(hs, h)
			}
		}
		if want, ok := tinyExpected(p, hs); ok && base.card != want {
			fail("property", "estimate:tiny-set-not-exact", fmt.Sprintf("Cardinality() = %d for %d items in distinct registers at precision %d", base.card, want, p), replayOf(c, nil))
		}
	}

	// estimate against the true cardinality (exploration, generous tolerance)
	distinct := map[item]struct{}{}
	dh := map[uint32]struct{}{}
	for i, it := range c.items {
		distinct[it] = struct{}{}
		dh[hashes[i]] = struct{}{}
	}
	n := len(dh) // items with equal hash are one item to the counter (e.g. 32-bit x and 64-bit x)
	if c.mode != "ranks" && c.mode != "ranks-updown" && c.mode != "extremes" && c.mode != "all-registers-rank1" && c.mode != "top-rank-all" {
		if !withinBound(p, n, base.card) {
			key := "estimate:outside-error-bound"
			if base.card >= 1<<62 && zerosOf(base.bytes) == 0 {
				key = keyD30
			}
			fail("property", key, fmt.Sprintf("Cardinality() = %d for %d distinct items at precision %d", base.card, n, p), replayOf(c, nil))
		}
	} else if base.card >= 1<<62 {
		fail("property", keyD30, fmt.Sprintf("Cardinality() = %d for %d distinct items at precision %d (no empty register, small raw estimate)", base.card, n, p), replayOf(c, nil))
	}
}

const keyD30 = "HyperLogLog.Cardinality:linear-counting-with-no-empty-register"

// a register state that is not the pointwise maximum: find the smallest exhibit
func localiseRegisterFailure(c *caseT, hashes []uint32, fail func(kind, key, summary string, replay interface{})) {
	p := c.p
	// a single item on a fresh counter
	for i, it := range c.items {
		if i >= 20000 {
			break
		}
		b := build(p, []item{it})
		want := packRegs(p, specRegs(p, hashes[i:i+1]))
		if !b.out.OK() || !bytes.Equal(b.bytes, want) {
			ix, rk := specIdxRank(p, hashes[i])
			fail("property", "offer:register-index-or-rank",
				fmt.Sprintf("one item (hash %#08x) on a fresh counter: expected register %d = %d (leading %d bits select, leading zeros of the rest + 1)", hashes[i], ix, rk, p),
				replayOf(&caseT{p: p, items: []item{it}, mode: c.mode}, map[string]interface{}{"hash": hashes[i], "implementation": vh.Hex(b.bytes), "expected": vh.Hex(want)}))
			return
		}
	}
	// the shortest prefix whose state is not the pointwise maximum
	lo, hi := 0, len(c.items)
	for lo < hi {
		mid := (lo + hi) / 2
		b := build(p, c.items[:mid+1])
		if bytes.Equal(b.bytes, packRegs(p, specRegs(p, hashes[:mid+1]))) {
			lo = mid + 1
		} else {
			hi = mid
		}
	}
	n := lo + 1
	if n > len(c.items) {
		n = len(c.items)
	}
	fail("property", "offer:register-not-maximum", "the registers are not the pointwise maximum of the ranks offered",
		replayOf(&caseT{p: p, items: c.items[:n], mode: c.mode}, nil))
}

// the model and the implementation disagree on a line
func classify(rep *vh.Report, pe pending, got string) {
	short := func(s string) string { return vh.Clip(s, 600) }
	switch pe.what {
	case "OFF":
		w := strings.Split(pe.want, " ")
		g := strings.Split(got, " ")
		if len(g) >= 6 && len(w) == 3 {
			if g[0] == w[0] && g[1] == w[1] && g[2] != w[2] {
				// same state, different estimate
				if g[4] == "0" && w[2] == "9223372036854775808" {
					rep.Fail("property", keyD30,
						fmt.Sprintf("no empty register and a raw estimate ≤ 2.5·m: the code evaluates m·log(m/0) and returns %s; the algorithm (linear counting only if V ≠ 0) gives %s", w[2], g[2]),
						replayOf(pe.c, map[string]interface{}{"implementation": w[2], "model": g[2]}))
					return
				}
				n, _ := strconv.ParseUint(w[2], 10, 64)
				dh := map[uint32]struct{}{}
				for _, it := range pe.c.items {
					dh[hashOf(it)] = struct{}{}
				}
				chosen := strings.HasPrefix(pe.c.mode, "ranks") || pe.c.mode == "extremes" || pe.c.mode == "all-registers-rank1" || pe.c.mode == "top-rank-all"
				if !chosen && !withinBound(pe.c.p, len(dh), n) {
					rep.Fail("property", "estimate:outside-error-bound", "Cardinality() differs from the model and is outside the error bound",
						replayOf(pe.c, map[string]interface{}{"implementation": w[2], "model": g[2], "branch": g[3], "zeros": g[4], "regSum": g[5]}))
					return
				}
				rep.Fail("correspondence", "Cardinality:differs-from-model", "Cardinality() differs from the model on this register state (still inside the sampled error bound)",
					replayOf(pe.c, map[string]interface{}{"implementation": w[2], "model": g[2], "branch": g[3], "zeros": g[4], "regSum": g[5]}))
				return
			}
			if g[0] == w[0] && g[1] != w[1] {
				rep.Fail("correspondence", "offer:boolean-differs-from-model", "booleans of Offer differ from the model (state equal)", replayOf(pe.c, nil))
				return
			}
			// state differs: the direct evaluation (pointwise maximum) has already reported it if the property fails
			rep.Fail("correspondence", "offer:state-differs-from-model", "GetBytes() differs from the model", replayOf(pe.c, map[string]interface{}{"implementation": short(w[0]), "model": short(g[0])}))
			return
		}
		rep.Fail("correspondence", "offer:model-answer", "unexpected model answer", map[string]interface{}{"line": short(pe.line), "model": short(got)})
	case "HIST":
		rep.Fail("correspondence", "history:differs-from-model", "the counters after a history over several counters differ from the model (Golib.HLL.Heap)",
			map[string]interface{}{"history_ops": pe.info, "implementation": short(pe.want), "model": short(got)})
	case "MH":
		rep.Fail("correspondence", "hash:differs-from-model", "MurmurHashLong differs from the model (Golib.HLL.Murmur)",
			map[string]interface{}{"line": pe.line, "implementation": pe.want, "model": got})
	case "PACK":
		rep.Fail("correspondence", "bytes:differ-from-the-packing-of-the-registers", "GetBytes() is not the model's packing (bytesOfRegs) of the pointwise-maximum registers",
			replayOf(pe.c, map[string]interface{}{"implementation": short(pe.want), "model": short(got)}))
	case "LIN":
		rep.Fail("correspondence", "Cardinality:linear-counting-differs-from-model", "linear-counting value differs from the model's m·log(m/V)",
			map[string]interface{}{"line": pe.line, "implementation": pe.want, "model": got, "info": pe.info})
	case "MRG", "BLD":
		// answers end in "<hex bytes> <cardinality>"
		w := strings.Split(pe.want, " ")
		g := strings.Split(got, " ")
		name := map[string]string{"MRG": "merge", "BLD": "rebuild"}[pe.what]
		info := pe.info
		if info == nil {
			info = replayOf(pe.c, map[string]interface{}{"implementation": short(pe.want), "model": short(got)})
		}
		if len(w) == len(g) && len(w) >= 2 && strings.Join(w[:len(w)-1], " ") == strings.Join(g[:len(g)-1], " ") {
			// same bytes, different estimate
			b := vh.UnHex(w[len(w)-2])
			if w[len(w)-1] == "9223372036854775808" && zerosOf(b) == 0 {
				rep.Fail("property", keyD30, fmt.Sprintf("no empty register and a raw estimate ≤ 2.5·m (%s counter): Cardinality() = %s, the algorithm gives %s", name, w[len(w)-1], g[len(g)-1]), info)
				return
			}
			rep.Fail("correspondence", name+":estimate-differs-from-model", "Cardinality() of the "+name+" result differs from the model (bytes equal)", info)
			return
		}
		rep.Fail("correspondence", name+":differs-from-model", name+" bytes differ from the model", info)
	default:
		rep.Fail("property", pe.key, "implementation differs from the model", map[string]interface{}{"line": short(pe.line), "implementation": short(pe.want), "model": short(got), "info": pe.info})
	}
}

// ---------------------------------------------------------------- RegisterSet / word level

func wordsHex(ws []uint32) string {
	b := make([]byte, 4*len(ws))
	for i, w := range ws {
		binary.BigEndian.PutUint32(b[4*i:], w)
	}
	return vh.Hex(b)
}

func registerSetSection(env *vh.Env, rep *vh.Report, rng *vh.Rng, add func(pending)) {
	// sizes: getSizeForCount through NewRegisterSet(count).Size
	counts := []int{}
	for p := 0; p <= 20; p++ {
		counts = append(counts, 1<<p)
	}
	for i := 0; i < 60; i++ {
		counts = append(counts, 1+rng.Intn(5000))
	}
	counts = append(counts, 5, 6, 7, 191, 192, 193, 197, 198, 383, 384, 390, 1152, 1157)
	for _, c := range counts {
		var rs *hll.RegisterSet
		var bits, robits []uint32
		if o := impl("rs:new", nil, func() { rs = hll.NewRegisterSet(c); bits = rs.Bits(); robits = rs.ReadOnlyBits() }); !o.OK() {
			if !o.Skipped {
				rep.Fail("property", "RegisterSet:size", "NewRegisterSet(count) "+o.String(), map[string]interface{}{"count": c})
			}
			continue
		}
		add(pending{line: fmt.Sprintf("SZ %d", c), want: fmt.Sprint(rs.Size), what: "SZ", key: "RegisterSet:size", info: c})
		rep.Count("rs:size")
		if len(rs.M) != rs.Size || rs.Count != c {
			rep.Fail("property", "RegisterSet:size", "Size/Count fields inconsistent", map[string]interface{}{"count": c})
		}
		if 6*rs.Size < c && c&(c-1) == 0 { // the property's counters have 2^p registers
			rep.Fail("property", "RegisterSet:size", "fewer than count registers allocated", map[string]interface{}{"count": c, "size": rs.Size})
		}
		// Bits() / ReadOnlyBits(): the words (what GetBytes serializes); whether they alias the set is not the property's business
		if len(bits) != rs.Size || len(robits) != rs.Size {
			rep.Fail("property", "RegisterSet:bits", "Bits()/ReadOnlyBits() are not the Size words of the set", map[string]interface{}{"count": c})
		}
	}
	// op sequences
	nseq := 300
	if env.Thorough {
		nseq = 5000
	}
	for s := 0; s < nseq; s++ {
		count := 1 << uint(rng.Intn(11))
		rs := hll.NewRegisterSet(count)
		shadow := make([]uint32, count)
		nops := 5 + rng.Intn(60)
		var ops, res []string
		okSeq := true
		o := impl("rs:ops", nil, func() {
			for i := 0; i < nops; i++ {
				pos := rng.Intn(count)
				if rng.Chance(40) { // cluster in one word / neighbours
					pos = (pos/6)*6 + rng.Intn(6)
					if pos >= count {
						pos = count - 1
					}
				}
				v := uint32(rng.Intn(32))
				if rng.Chance(20) {
					v = uint32(rng.PickInt([]int{0, 1, 30, 31}))
				}
				switch rng.Intn(3) {
				case 0:
					rs.Set(uint32(pos), v)
					shadow[pos] = v
					ops = append(ops, fmt.Sprintf("s:%d:%d", pos, v))
					res = append(res, "-")
				case 1:
					b := rs.UpdateIfGreater(uint32(pos), v)
					grew := v > shadow[pos]
					if grew {
						shadow[pos] = v
					}
					if b != grew {
						okSeq = false
					}
					ops = append(ops, fmt.Sprintf("u:%d:%d", pos, v))
					if b {
						res = append(res, "1")
					} else {
						res = append(res, "0")
					}
				default:
					g := rs.Get(pos)
					if g != shadow[pos] {
						okSeq = false
					}
					ops = append(ops, fmt.Sprintf("g:%d", pos))
					res = append(res, fmt.Sprint(g))
				}
			}
			// the packed-register law, directly: every register reads back what was last stored
			for i := 0; i < count; i++ {
				if rs.Get(i) != shadow[i] {
					okSeq = false
				}
			}
			// Bits() and ReadOnlyBits() are the words as they are now (the model: the word array)
			if wordsHex(rs.Bits()) != wordsHex(rs.M) || wordsHex(rs.ReadOnlyBits()) != wordsHex(rs.M) {
				okSeq = false
			}
		})
		if o.Skipped {
			continue
		}
		line := fmt.Sprintf("RS %d %s", count, strings.Join(ops, ";"))
		if !o.OK() || !okSeq {
			rep.Fail("property", "RegisterSet:get-set-update", "a register does not read back the value last stored / UpdateIfGreater is not max", map[string]interface{}{"line": line, "outcome": o.String()})
		}
		add(pending{line: line, want: strings.Join(res, ",") + " " + wordsHex(rs.M), what: "RS", key: "RegisterSet:get-set-update", info: count})
		rep.Case(line, true)
		rep.Count("rs:ops")
	}
	// NewRegisterSetInit adopts the slice it is given: with spare capacity behind len, no operation
	// may touch the words beyond len (nor may Merge touch its argument's)
	for s := 0; s < 60; s++ {
		pw := uint(rng.Intn(9))
		count := 1 << pw
		n := count/6 + 1
		backing := make([]uint32, n+5)
		for i := range backing {
			backing[i] = 0x2A5A5A5A ^ uint32(i)
		}
		for i := 0; i < n; i++ {
			backing[i] = 0
		}
		keep := append([]uint32(nil), backing...)
		other := make([]uint32, n+3)
		for i := range other {
			other[i] = uint32(rng.U64()) & 0x3fffffff
		}
		keepOther := append([]uint32(nil), other...)
		bad := ""
		o := impl("rs:init", nil, func() {
			rs := hll.NewRegisterSetInit(count, backing[:n:n+5])
			for pos := 0; pos < count; pos++ {
				rs.Set(uint32(pos), uint32(rng.Intn(32)))
				rs.UpdateIfGreater(uint32(pos), uint32(rng.Intn(32)))
			}
			for i := n; i < n+5; i++ {
				if backing[i] != keep[i] {
					bad = "Set/UpdateIfGreater wrote beyond the length of the word slice"
					return
				}
			}
			rs.Merge(hll.NewRegisterSetInit(count, other[:n:n+3]))
			for i := n; i < n+5; i++ {
				if backing[i] != keep[i] {
					bad = "Merge wrote beyond the length of the receiver's word slice"
					return
				}
			}
			for i := range other {
				if other[i] != keepOther[i] {
					bad = "Merge wrote into its argument's word slice"
					return
				}
			}
		})
		if !o.Skipped && (!o.OK() || bad != "") {
			rep.Fail("property", "RegisterSet:writes-outside-its-words", bad+" "+o.String(), map[string]interface{}{"count": count, "words": n})
		}
		rep.Count("rs:spare-capacity")
		rep.Evaluations++
	}
	// word-wise merge
	nm := 2000
	if env.Thorough {
		nm = 50000
	}
	for s := 0; s < nm; s++ {
		a := uint32(rng.U64()) & 0x3fffffff
		b := uint32(rng.U64()) & 0x3fffffff
		if rng.Chance(25) {
			b = a ^ (uint32(31) << (5 * uint(rng.Intn(6))) & uint32(rng.U64()))
		}
		if rng.Chance(10) {
			a = uint32(rng.PickInt([]int{0, 0x3fffffff, 0x1f, 0x3e000000}))
		}
		var ra, rb *hll.RegisterSet
		okm := true
		o := impl("rs:merge-word", nil, func() {
			ra = hll.NewRegisterSetInit(6, []uint32{a})
			rb = hll.NewRegisterSetInit(6, []uint32{b})
			ra.Merge(rb)
			okm = rb.M[0] == b
			for j := 0; j < 6; j++ {
				x, y := (a>>(5*uint(j)))&31, (b>>(5*uint(j)))&31
				mx := x
				if y > mx {
					mx = y
				}
				if ra.Get(j) != mx {
					okm = false
				}
			}
		})
		if o.Skipped {
			continue
		}
		if !o.OK() {
			rep.Fail("property", "RegisterSet:merge", "word merge "+o.String(), map[string]interface{}{"a": a, "b": b})
			continue
		}
		if !okm {
			rep.Fail("property", "RegisterSet:merge", "word merge is not the register-wise maximum / modifies its argument", map[string]interface{}{"a": a, "b": b, "merged": ra.M[0]})
		}
		add(pending{line: fmt.Sprintf("WM %d %d", a, b), want: fmt.Sprint(ra.M[0]), what: "WM", key: "RegisterSet:merge", info: []uint32{a, b}})
		rep.Count("rs:merge-word")
		rep.Evaluations++
	}
}

// ---------------------------------------------------------------- sampled error bound, search for D30

func sampleEstimates(env *vh.Env, rep *vh.Report, rng *vh.Rng, fail func(kind, key, summary string, replay interface{})) {
	seeds := 100
	if env.Thorough {
		seeds = 400
	}
	if s := os.Getenv("C14_SAMPLE_SEEDS"); s != "" {
		seeds, _ = strconv.Atoi(s)
	}
	type stat struct {
		worst   float64 // max |est-n| / (sigma·n)  over n ≥ m/4
		worstN  int
		samples int
		d30     int
		tinyOff int
	}
	stats := make([]stat, 17)
	famStats := map[string]*stat{}
	var mu sync.Mutex
	var wg sync.WaitGroup
	sem := make(chan struct{}, 16)
	for p := uint32(4); p <= 16; p++ {
		for s := 0; s < seeds; s++ {
			r := rng.Fork()
			wg.Add(1)
			sem <- struct{}{}
			fam := familyNames[s%len(familyNames)]
			go func(p uint32, r *vh.Rng) {
				defer wg.Done()
				defer func() { <-sem }()
				m := 1 << p
				sigma := 1.04 / math.Sqrt(float64(m))
				gen := newFamily(fam, r)
				h := hll.NewHyperLogLogInt(p)
				seen := map[uint32]struct{}{} // distinct *hashes* (a 64-bit item may collide with another in the 32-bit hash)
				var items []item
				maxN := 8 * m
				every := 1
				if p > 6 {
					every = m / 16
				}
				var st stat
				drawn, dups := 0, 0
				stage := "offer"
				cs := func() *caseT { return &caseT{p: p, items: items, mode: "sampled:" + fam} }
				o := impl("sampled", func() map[string]interface{} { return replayOf(cs(), nil) }, func() {
				for len(seen) < maxN {
					it := gen(drawn)
					drawn++
					hv := hashOf(it)
					if _, dup := seen[hv]; dup {
						if dups++; dups > 4*maxN+1000 {
							break // the family cannot supply more distinct items
						}
						continue
					}
					seen[hv] = struct{}{}
					items = append(items, it)
					stage = "offer"
					offer(h, it)
					n := len(seen)
					if n%every != 0 && n > 16 {
						continue
					}
					stage = "Cardinality"
					est := h.Cardinality()
					st.samples++
					if n*4 >= m {
						d := math.Abs(float64(est)-float64(n)) / (sigma * float64(n))
						if est < 1<<62 && d > st.worst {
							st.worst, st.worstN = d, n
						}
					}
					if !withinBound(p, n, est) {
						key := "estimate:outside-error-bound"
						if est >= 1<<62 && zerosOf(h.GetBytes()) == 0 {
							key = keyD30
							st.d30++
						}
						c := &caseT{p: p, items: items, mode: "sampled:" + fam}
						fail("property", key, fmt.Sprintf("Cardinality() = %d for %d distinct items at precision %d", est, n, p), replayOf(c, nil))
						if key != keyD30 {
							break
						}
					}
				}
				})
				if !o.OK() && !o.Skipped {
					// a panic (or a call that does not return) on a trajectory: localised by re-building
					buildFailure(cs(), run{out: o, stage: stage}, fail)
				}
				mu.Lock()
				s0 := &stats[p]
				if st.worst > s0.worst {
					s0.worst, s0.worstN = st.worst, st.worstN
				}
				s0.samples += st.samples
				s0.d30 += st.d30
				f0 := famStats[fam]
				if f0 == nil {
					f0 = &stat{}
					famStats[fam] = f0
				}
				f0.samples += st.samples
				if st.worst > f0.worst {
					f0.worst, f0.worstN = st.worst, int(p)
				}
				mu.Unlock()
			}(p, r)
		}
	}
	wg.Wait()
	tab := map[string]interface{}{}
	total := 0
	for p := 4; p <= 16; p++ {
		tab[fmt.Sprintf("p=%02d", p)] = map[string]interface{}{
			"samples": stats[p].samples, "worst_abs_error_in_sigmas": math.Round(stats[p].worst*100) / 100, "at_n": stats[p].worstN,
			"sigma": 1.04 / math.Sqrt(float64(uint64(1)<<uint(p))), "tolerance_sigmas": map[bool]float64{true: tolSigmaSmallP, false: tolSigma}[p <= 6], "bias_allowance": biasAllow, "no_empty_register_overflow_hits": stats[p].d30}
		total += stats[p].samples
		rep.CountN(fmt.Sprintf("sampled-estimates:p=%02d", p), stats[p].samples)
	}
	ftab := map[string]interface{}{}
	for f, st := range famStats {
		ftab[f] = map[string]interface{}{"samples": st.samples, "worst_abs_error_in_sigmas": math.Round(st.worst*100) / 100, "at_precision": st.worstN}
		rep.CountN("sampled-estimates:family="+f, st.samples)
	}
	rep.Evaluations += total
	rep.Extra["sampled_error_bound"] = tab
	rep.Extra["sampled_error_bound_by_family"] = ftab
	rep.Note("sampled error bound (exploration, not a theorem): %d estimates over %d seeds per precision, tolerance (%.0f·1.04/sqrt(m) + %.2f)·n + %.0f (%.0f sigma for p ≤ 6; the %.2f covers the known bias of the uncorrected estimator between 2.5·m and 5·m)", total, seeds, tolSigma, biasAllow, tolAbs, tolSigmaSmallP, biasAllow)
}

// the deterministic exhibits of D30 (also proved about the model: C14.finding_D30)
func d30Witness(rep *vh.Report, invOK bool, fail func(kind, key, summary string, replay interface{})) {
	var cs []*caseT
	if invOK {
		c := &caseT{p: 4, mode: "D30-witness"}
		for reg := uint32(0); reg < 16; reg++ {
			c.items = append(c.items, crafted(reg<<28|1<<27))
		}
		cs = append(cs, c)
	}
	// found by the sampled search on the unchanged code (seeded random 32-bit items, precision 4)
	c2 := &caseT{p: 4, mode: "D30-witness"}
	for _, v := range []uint64{2849051040, 4145281261, 2162586141, 1547649738, 2551019755, 3644061230, 213093954, 1746941724, 1480243479, 3461611215, 1113005445, 1544263702, 1152776292, 86415957, 2330197264, 3519739574, 1146752796, 2422257694, 870168704, 941514219, 2571671809, 2973976908, 3312653831, 4153888127, 2329540827, 3221528243, 4277578419, 2997178283, 1114113670, 281594482, 4221930904, 150504690, 3563175628, 4277691899, 4135462674} {
		c2.items = append(c2.items, item{false, v})
	}
	cs = append(cs, c2)
	for _, c := range cs {
		b := build(c.p, c.items)
		rep.Evaluations++
		rep.Count("d30-witness")
		if !b.out.OK() {
			buildFailure(c, b, fail)
			continue
		}
		if zerosOf(b.bytes) != 0 {
			rep.Note("D30 witness no longer fills every register (hash changed?)")
			continue
		}
		if !withinBound(c.p, len(c.items), b.card) && c.mode == "D30-witness" && b.card >= 1<<62 {
			fail("property", keyD30, fmt.Sprintf("Cardinality() = %d for %d distinct items at precision %d: no empty register and raw estimate ≤ 2.5·m, the code takes the linear-counting branch and evaluates log(m/0)", b.card, len(c.items), c.p), replayOf(c, nil))
		}
	}
}

// linearSweep drives a counter of every precision through every number V of empty registers
// (registers filled one by one with rank 1: the raw estimate stays ≤ 1.45·m, so the small-range
// branch with V ≠ 0 is taken) and compares Cardinality() with m·ln(m/V) evaluated independently
// in Go and by the model.
func linearSweep(env *vh.Env, rep *vh.Report, add func(pending), fail func(kind, key, summary string, replay interface{})) {
	var wg sync.WaitGroup
	var mu sync.Mutex
	total := 0
	for p := uint32(4); p <= 16; p++ {
		wg.Add(1)
		go func(p uint32) {
			defer wg.Done()
			m := 1 << p
			w := 32 - p
			step := 1
			if !env.Thorough && p >= 13 {
				step = m / 2048 // quick tier: 2048 values of V for the large precisions
			}
			n := 0
			bad := 0
			cur := 0
			how := func() map[string]interface{} {
				return map[string]interface{}{"p": p, "how": "offer one item of rank 1 to registers 0.." + fmt.Sprint(cur) + ", Cardinality() after each"}
			}
			ob := impl("linear-sweep", how, func() {
			h := hll.NewHyperLogLogInt(p)
			for reg := 0; reg < m-1; reg++ {
				cur = reg
				it := crafted(uint32(reg)<<w | 1<<(w-1))
				offer(h, it)
				V := m - 1 - reg
				if V%step != 0 && V > 64 && reg > 64 {
					continue
				}
				var card uint64
				o := vh.Guard(func() { card = h.Cardinality() }) // inside the guarded block: recover only
				n++
				want := uint64(math.Floor(float64(m)*math.Log(float64(m)/float64(V)) + 0.5))
				if (!o.OK() || card != want) && bad < 3 {
					bad++
					fail("property", "Cardinality:linear-counting-value",
						fmt.Sprintf("precision %d, %d empty registers, every other register = 1: Cardinality() = %d, linear counting m·ln(m/V) = %d", p, V, card, want),
						map[string]interface{}{"p": p, "empty_registers": V, "implementation": card, "expected": want, "how": "offer one item of rank 1 to registers 0.." + fmt.Sprint(reg)})
				}
				add(pending{line: fmt.Sprintf("LIN %d %d", m, V), want: fmt.Sprint(card), what: "LIN", info: map[string]interface{}{"p": p, "V": V}})
			}
			})
			if ob.Timeout {
				m := how()
				m["goroutine"] = ob.Where
				fail("property", blocksKey(ob), "a call of the linear-counting sweep does not return", m)
			} else if ob.Panic != "" {
				fail("property", "offer:panic", "the linear-counting sweep panicked: "+vh.Clip(ob.Panic, 200), how())
			}
			mu.Lock()
			total += n
			mu.Unlock()
		}(p)
	}
	wg.Wait()
	rep.CountN("linear-counting-sweep", total)
	rep.Evaluations += total
}

// ---------------------------------------------------------------- large cardinalities: no empty register, raw estimator

// refEstimate is the algorithm's estimate written out independently of the library:
// E = alpha_m·m² / Σ 2^-M[j]; linear counting m·ln(m/V) if E ≤ 2.5·m and V ≠ 0; rounded half up.
func refEstimate(p uint32, regs []uint32) (est float64, raw bool) {
	m := float64(uint64(1) << p)
	var alpha float64
	switch p {
	case 4:
		alpha = 0.673
	case 5:
		alpha = 0.697
	case 6:
		alpha = 0.709
	default:
		alpha = 0.7213 / (1 + 1.079/m)
	}
	sum := 0.0
	zeros := 0
	for _, r := range regs {
		sum += 1 / float64(uint64(1)<<r)
		if r == 0 {
			zeros++
		}
	}
	e := alpha * m * m / sum
	if e <= 2.5*m && zeros != 0 {
		return m * math.Log(m/float64(zeros)), false
	}
	return e, true
}

func closeTo(card uint64, ref float64) bool {
	return math.Abs(float64(card)-ref) <= 1e-9*ref+0.5000001
}

func rangeItem(fam string, base, fixed uint64, i int) item {
	switch fam {
	case "seq32": // 32-bit ids base, base+1, … through Offer
		return item{false, uint64(uint32(base) + uint32(i))}
	case "seq64": // 64-bit ids through OfferLong
		return item{true, base + uint64(i)}
	default: // "hi-only": the upper word counts, the lower word is fixed
		return item{true, uint64(uint32(base)+uint32(i))<<32 | uint64(uint32(fixed))}
	}
}

// rangeCheck offers n distinct consecutive items (described by family/base, not listed) and
// compares Cardinality() with the true cardinality (sampled bound), with the reference formula on
// the registers read back from GetBytes() (relative 1e-9) and with the model (BLD line).
func rangeCheck(rep *vh.Report, p uint32, fam string, base, fixed uint64, n int, add func(pending), fail func(kind, key, summary string, replay interface{})) {
	var b []byte
	var card uint64
	replay := map[string]interface{}{"p": p, "range_family": fam, "range_base": base, "range_fixed": fixed, "range_n": n,
		"how": fmt.Sprintf("offer the %d distinct items rangeItem(%q, base, fixed, i), i = 0..n-1, to a counter of precision %d", n, fam, p)}
	stage := "offer"
	o := impl("range", func() map[string]interface{} { return replay }, func() {
		h := hll.NewHyperLogLogInt(p)
		for i := 0; i < n; i++ {
			offer(h, rangeItem(fam, base, fixed, i))
		}
		stage = "GetBytes"
		b = h.GetBytes()
		stage = "Cardinality"
		card = h.Cardinality()
	})
	if o.Skipped {
		return
	}
	if o.Timeout {
		replay["goroutine"] = o.Where
		fail("property", blocksKey(o), "a call on a counter that saw a range of items does not return ("+stage+")", replay)
		return
	}
	if !o.OK() {
		replay["step"] = stage
		key := "offer:panic"
		if stage != "offer" {
			key = stage + ":panic"
		}
		fail("property", key, stage+" on a range of items panicked: "+vh.Clip(o.Panic, 200), replay)
		return
	}
	replay["implementation"] = card
	stateCheck(rep, p, b, n, add, fail, replay, card)
}

// stateCheck: a register state (bytes) and, when known, the number n of distinct items that
// produced it.  card/replay are given by rangeCheck; for a bare state the counter is rebuilt.
func stateCheck(rep *vh.Report, p uint32, b []byte, n int, add func(pending), fail func(kind, key, summary string, replay interface{}), opt ...interface{}) {
	var replay map[string]interface{}
	var card uint64
	if len(opt) == 2 {
		replay = opt[0].(map[string]interface{})
		card = opt[1].(uint64)
	} else {
		replay = map[string]interface{}{"p": p, "register_state": vh.Hex(b), "how": "BuildHyperLogLog(register_state).Cardinality()"}
		nilBuilt := false
		stage := "BuildHyperLogLog"
		o := impl("state", func() map[string]interface{} { return replay }, func() {
			h := hll.BuildHyperLogLog(b)
			if h == nil {
				nilBuilt = true
				return
			}
			stage = "Cardinality"
			card = h.Cardinality()
		})
		if o.Skipped {
			return
		}
		if o.Timeout {
			replay["goroutine"] = o.Where
			fail("property", blocksKey(o), stage+" of a well-formed register state does not return", replay)
			return
		}
		if !o.OK() && stage == "Cardinality" {
			fail("property", "Cardinality:panic", "Cardinality() of a counter rebuilt from a well-formed (reachable) register state panicked: "+vh.Clip(o.Panic, 200), replay)
			return
		}
		if !o.OK() || nilBuilt {
			fail("property", "rebuild:fails", "BuildHyperLogLog of a well-formed register state failed", replay)
			return
		}
		replay["implementation"] = card
	}
	_, regs, ok := unpackRegs(b)
	if !ok {
		fail("property", "offer:register-not-maximum", "GetBytes() is not a well-formed register state", replay)
		return
	}
	ref, raw := refEstimate(p, regs)
	replay["reference_formula"] = ref
	replay["raw_estimator_branch"] = raw
	m := 1 << p
	reported := false
	if n > 0 && !withinBound(p, n, card) {
		key := "estimate:outside-error-bound"
		if card >= 1<<62 && zerosOf(b) == 0 {
			key = keyD30
		}
		fail("property", key, fmt.Sprintf("Cardinality() = %d for %d distinct items at precision %d (the algorithm's formula gives %.1f on these registers)", card, n, p, ref), replay)
		reported = true
	}
	if n == 0 && zerosOf(b) == 0 && card*2 < uint64(m) {
		// every history that reaches a state without empty registers offered at least m distinct items
		fail("property", "estimate:outside-error-bound", fmt.Sprintf("Cardinality() = %d for a register state of precision %d with no empty register (at least %d distinct items; the algorithm's formula gives %.1f)", card, p, m, ref), replay)
		reported = true
	}
	if !closeTo(card, ref) && !reported {
		fail("correspondence", "Cardinality:differs-from-reference-formula", fmt.Sprintf("Cardinality() = %d, alpha·m²/Σ2^-M[j] (with the small-range rule) = %.3f", card, ref), replay)
	}
	add(pending{line: "BLD " + vh.Hex(b), want: fmt.Sprintf("ok %d %s %d", p, vh.Hex(b), card), c: &caseT{p: p, mode: "state"}, what: "BLD", info: replay})
}

// largeCardinalities: for every precision, cardinalities 3·m, 8·m, 50·m (thorough: also 200·m) by
// true offers of consecutive items (cheap on the implementation; the model gets the register
// state, not the items), and synthetic register states for cardinalities up to 5000·m (ranks near
// saturation) rebuilt from bytes.
func largeCardinalities(env *vh.Env, rep *vh.Report, rng *vh.Rng, add func(pending), fail func(kind, key, summary string, replay interface{})) {
	mults := []int{3, 8, 50}
	if env.Thorough {
		mults = append(mults, 200)
	}
	fams := []string{"seq32", "seq64", "hi-only"}
	type job struct {
		p          uint32
		fam        string
		base, fix  uint64
		n          int
		state      []byte
		valueRange bool
	}
	var jobs []job
	k := 0
	for p := uint32(4); p <= 16; p++ {
		m := 1 << p
		for _, mu := range mults {
			base := rng.U64()
			if rng.Bool() {
				base = uint64(rng.Intn(1 << 20))
			}
			jobs = append(jobs, job{p: p, fam: fams[k%len(fams)], base: base, fix: rng.U64(), n: mu * m})
			k++
		}
		// synthetic states: register = max of K geometric ranks, K ≈ Poisson(n/m) (K ≥ 1: no empty register)
		for _, lam := range []float64{3, 8, 50, 1000, 5000} {
			regs := make([]uint32, m)
			maxRank := 33 - p
			for i := range regs {
				u1 := (float64(rng.U64()>>11) + 0.5) / (1 << 53)
				u2 := (float64(rng.U64()>>11) + 0.5) / (1 << 53)
				kk := math.Round(lam + math.Sqrt(lam)*math.Sqrt(-2*math.Log(u1))*math.Cos(2*math.Pi*u2))
				if kk < 1 {
					kk = 1
				}
				u := (float64(rng.U64()>>11) + 0.5) / (1 << 53)
				t := math.Ceil(-math.Log2(1 - math.Pow(u, 1/kk)))
				if t < 1 {
					t = 1
				}
				if t > float64(maxRank) {
					t = float64(maxRank)
				}
				regs[i] = uint32(t)
			}
			jobs = append(jobs, job{p: p, state: packRegs(p, regs)})
		}
		// the whole range of register values 0..33-p (every such assignment is reachable): uniformly
		// random values, every value in turn, every register at the top value, one register at the top
		top := uint32(33 - p)
		for kind := 0; kind < 4; kind++ {
			regs := make([]uint32, m)
			for i := range regs {
				switch kind {
				case 0:
					regs[i] = uint32(rng.Intn(int(top) + 1))
				case 1:
					regs[i] = uint32(i) % (top + 1)
				case 2:
					regs[i] = top
				}
			}
			if kind == 3 {
				regs[rng.Intn(m)] = top
			}
			jobs = append(jobs, job{p: p, state: packRegs(p, regs), valueRange: true})
		}
	}
	var wg sync.WaitGroup
	sem := make(chan struct{}, 16)
	for _, j := range jobs {
		wg.Add(1)
		sem <- struct{}{}
		go func(j job) {
			defer wg.Done()
			defer func() { <-sem }()
			if j.state != nil {
				stateCheck(rep, j.p, j.state, 0, add, fail)
			} else {
				rangeCheck(rep, j.p, j.fam, j.base, j.fix, j.n, add, fail)
			}
		}(j)
	}
	wg.Wait()
	for _, j := range jobs {
		if j.valueRange {
			rep.Count("state:register-values-over-the-whole-range-0..33-p")
			rep.Case(fmt.Sprintf("state p=%d %s", j.p, fnvBytes(j.state)), true)
		} else if j.state != nil {
			rep.Count("large:synthetic-state")
			rep.Case(fmt.Sprintf("state p=%d %s", j.p, fnvBytes(j.state)), true)
		} else {
			rep.Count(fmt.Sprintf("large:true-offers:%dm", j.n>>j.p))
			rep.Case(fmt.Sprintf("range p=%d %s base=%d n=%d", j.p, j.fam, j.base, j.n), true)
		}
	}
}

func fnvBytes(b []byte) string {
	h := uint64(14695981039346656037)
	for _, x := range b {
		h ^= uint64(x)
		h *= 1099511628211
	}
	return strconv.FormatUint(h, 16)
}

// ---------------------------------------------------------------- containers of inputs

// containerHistories: the slice that carries the arguments of the variadic Merge is an input too.
const abortMark = "c14-abort: a build inside the block failed"

func containerHistories(c *caseT, r *vh.Rng, parts [][]item, add func(pending), fail func(kind, key, summary string, replay interface{})) {
	p := c.p
	// the element item lists: the parts plus two small extra counters, so that there are ≥ 4 elements
	elems := append([][]item(nil), parts...)
	for e := 0; e < 2; e++ {
		var ex []item
		for i := 0; i < 1+r.Intn(6); i++ {
			ex = append(ex, item{true, r.U64()})
		}
		elems = append(elems, ex)
	}
	n := len(elems)
	recvItems := []item{{true, r.U64()}, {false, uint64(uint32(r.U64()))}}
	if len(c.items) > 0 && r.Bool() {
		recvItems = append(recvItems, c.items[r.Intn(len(c.items))])
	}
	unionBytes := func(lists ...[]item) []byte {
		var hs []uint32
		for _, l := range lists {
			for _, it := range l {
				hs = append(hs, hashOf(it))
			}
		}
		return packRegs(p, specRegs(p, hs))
	}
	rpl := func(extra map[string]interface{}) map[string]interface{} {
		es := make([]interface{}, n)
		for j := range elems {
			if len(elems[j]) <= 1024 {
				es[j] = itemStrings(elems[j])
			} else {
				es[j] = fmt.Sprintf("%d items", len(elems[j]))
			}
		}
		m := map[string]interface{}{"p": p, "receiver": itemStrings(recvItems), "slice_elements": es}
		for k, v := range extra {
			m[k] = v
		}
		return m
	}
	type variant struct {
		name     string
		spare    int  // capacity beyond n
		recvIn   int  // index at which the receiver itself is an element (-1: not)
		dupOf    int  // element that is the same counter as element 0 (-1: none)
	}
	variants := []variant{{"spare-capacity", 3, -1, -1}, {"len==cap", 0, -1, -1}, {"receiver-among-arguments", 2, 1, -1}, {"same-counter-twice", 1, -1, n - 1}}
	for _, v := range variants {
		bad := ""
		var extra map[string]interface{}
		var finalBytes []byte
		var finalCard uint64
		mk := func(items []item) *hll.HyperLogLog { // a build that fails was reported by the case already
			b := build(p, items)
			if !b.out.OK() {
				panic(abortMark)
			}
			return b.h
		}
		og := impl("container:"+v.name, func() map[string]interface{} { return rpl(map[string]interface{}{"variant": v.name}) }, func() {
			recv := mk(recvItems)
			lists := append([][]item(nil), elems...)
			backing := make([]*hll.HyperLogLog, n, n+v.spare)
			for j := range backing {
				backing[j] = mk(lists[j])
			}
			if v.recvIn >= 0 {
				backing[v.recvIn] = recv
				lists[v.recvIn] = recvItems
			}
			if v.dupOf >= 0 {
				backing[v.dupOf] = backing[0]
				lists[v.dupOf] = lists[0]
			}
			// what lies behind len in the backing array is the caller's as well
			full := backing[:cap(backing)]
			sentinels := make([]*hll.HyperLogLog, 0)
			for j := n; j < len(full); j++ {
				full[j] = mk([]item{{true, r.U64()}})
				sentinels = append(sentinels, full[j])
			}
			ptr := append([]*hll.HyperLogLog(nil), full...)
			snap := make([][]byte, len(full))
			for j := range full {
				snap[j] = full[j].GetBytes()
			}
			recvSnap := recv.GetBytes()
			check := func(what string, j int) bool {
				for i := range full {
					if full[i] != ptr[i] {
						bad = fmt.Sprintf("%s: element #%d of the caller's slice (len %d, cap %d) was replaced by another counter", what, i, n, cap(backing))
						extra = map[string]interface{}{"variant": v.name, "call": what, "subslice_len": j, "element": i}
						return false
					}
					if !bytes.Equal(full[i].GetBytes(), snap[i]) {
						bad = fmt.Sprintf("%s: the registers of element #%d of the caller's slice changed", what, i)
						extra = map[string]interface{}{"variant": v.name, "call": what, "subslice_len": j, "element": i}
						return false
					}
				}
				if !bytes.Equal(recv.GetBytes(), recvSnap) {
					bad = what + ": the receiver changed"
					extra = map[string]interface{}{"variant": v.name, "call": what, "subslice_len": j}
					return false
				}
				return true
			}
			// nil and empty
			for _, a := range []struct {
				name string
				arg  []*hll.HyperLogLog
			}{{"Merge(nil...)", nil}, {"Merge(xs[:0]...)", backing[:0]}, {"Merge([]{}...)", []*hll.HyperLogLog{}}} {
				res := recv.Merge(a.arg...)
				if !check(a.name, 0) {
					return
				}
				if !bytes.Equal(res.GetBytes(), unionBytes(recvItems)) {
					bad = a.name + " is not a copy of the receiver"
					extra = map[string]interface{}{"variant": v.name, "call": a.name}
					return
				}
			}
			// every sub-slice xs[:j], j = 1..n  (spare capacity for j < cap)
			for j := 1; j <= n; j++ {
				what := fmt.Sprintf("recv.Merge(xs[:%d]...)", j)
				res := recv.Merge(backing[:j]...)
				if !check(what, j) {
					return
				}
				want := unionBytes(append([][]item{recvItems}, lists[:j]...)...)
				if !bytes.Equal(res.GetBytes(), want) {
					bad = what + " is not the union of the receiver and the first " + fmt.Sprint(j) + " elements"
					extra = map[string]interface{}{"variant": v.name, "call": what, "subslice_len": j}
					return
				}
				// an element as receiver, the rest of the prefix as arguments
				if j >= 2 {
					what2 := fmt.Sprintf("xs[0].Merge(xs[1:%d]...)", j)
					res2 := backing[0].Merge(backing[1:j]...)
					if !check(what2, j) {
						return
					}
					if !bytes.Equal(res2.GetBytes(), unionBytes(lists[:j]...)) {
						bad = what2 + " is not the union of the first " + fmt.Sprint(j) + " elements"
						extra = map[string]interface{}{"variant": v.name, "call": what2, "subslice_len": j}
						return
					}
				}
			}
			// multi-step: after all those calls the caller uses the full slice
			res := recv.Merge(backing...)
			if !check("recv.Merge(xs...) after the sub-slice calls", n) {
				return
			}
			finalBytes = res.GetBytes()
			finalCard = res.Cardinality()
			if !bytes.Equal(finalBytes, unionBytes(append([][]item{recvItems}, lists...)...)) {
				bad = "after Merge calls on sub-slices, merging the caller's full slice is not the union of its elements"
				extra = map[string]interface{}{"variant": v.name, "call": "recv.Merge(xs...)"}
				return
			}
			// the counters behind len are still the caller's and still usable
			for i, sv := range sentinels {
				if full[n+i] != sv {
					bad = "a counter stored behind the length of the caller's slice was replaced"
					return
				}
			}
			// model of the final union
			if v.name == "spare-capacity" {
				ls := []string{hashList(recvItems)}
				tot := len(recvItems)
				for _, l := range lists {
					ls = append(ls, hashList(l))
					tot += len(l)
				}
				if tot <= 70000 {
					add(pending{line: fmt.Sprintf("MRG %d %s", p, strings.Join(ls, "|")),
						want: fmt.Sprintf("%s %d", vh.Hex(finalBytes), finalCard), c: c, what: "MRG", info: rpl(map[string]interface{}{"variant": v.name})})
				}
			}
		})
		if og.Skipped || og.Panic == abortMark {
			continue
		}
		if og.Timeout {
			fail("property", blocksKey(og), "a Merge over a sub-slice history does not return ("+v.name+")", rpl(map[string]interface{}{"variant": v.name, "goroutine": og.Where}))
			return
		}
		if !og.OK() {
			fail("property", "merge:panic", "Merge over a sub-slice history panicked ("+v.name+"): "+vh.Clip(og.Panic, 200), rpl(map[string]interface{}{"variant": v.name}))
		} else if bad != "" {
			if extra == nil {
				extra = map[string]interface{}{"variant": v.name}
			}
			extra["history"] = bad
			fail("property", "merge:container-modified", bad, rpl(extra))
		}
	}
}

// ---------------------------------------------------------------- histories over several counters

// opShape: the class of an operation of a history as far as blocking is concerned (which counters
// coincide), e.g. "a:self" for x.AddAll(x), "m:self" for x.Merge(…, x, …).
func opShape(f []string) string {
	switch f[0] {
	case "a":
		if len(f) >= 3 && f[1] == f[2] {
			return "a:self"
		}
		return "a"
	case "m":
		if len(f) < 3 || f[2] == "-" {
			return "m:none"
		}
		js := strings.Split(f[2], ",")
		seen := map[string]bool{}
		sh := "m"
		for _, j := range js {
			if j == f[1] {
				sh = "m:self"
			}
			if seen[j] && sh == "m" {
				sh = "m:dup"
			}
			seen[j] = true
		}
		return sh
	}
	return f[0]
}

// minimalFor: the smallest history with the operation op on fresh counters of the same precisions and
// the same coincidences between its counters.
func minimalFor(f []string, prec []uint32) []string {
	atoi := func(x string) int { v, _ := strconv.Atoi(x); return v }
	var ops []string
	idx := map[int]int{}
	use := func(i int) int {
		if k, ok := idx[i]; ok {
			return k
		}
		if i < 0 || i >= len(prec) {
			return -1
		}
		k := len(idx)
		idx[i] = k
		ops = append(ops, fmt.Sprintf("n:%d", prec[i]))
		return k
	}
	switch f[0] {
	case "o":
		return append(ops, fmt.Sprintf("o:%d:%s:%s", use(atoi(f[1])), f[2], f[3]))
	case "a":
		i := use(atoi(f[1]))
		j := use(atoi(f[2]))
		return append(ops, fmt.Sprintf("a:%d:%d", i, j))
	case "m":
		i := use(atoi(f[1]))
		arg := "-"
		if f[2] != "-" {
			var js []string
			for _, x := range strings.Split(f[2], ",") {
				js = append(js, strconv.Itoa(use(atoi(x))))
			}
			arg = strings.Join(js, ",")
		}
		return append(ops, fmt.Sprintf("m:%d:%s", i, arg))
	case "b", "g":
		return append(ops, fmt.Sprintf("%s:%d", f[0], use(atoi(f[1]))))
	}
	return []string{strings.Join(f, ":")}
}

// runHistory executes ops (item form: n:P, o:I:<item>, a:I:J, m:I:J1,J2|-, b:I, g:I) on real counters.
// After every operation: only the receiver of o/a may have changed (frame), a panicking operation
// changes nothing and creates nothing, and every counter is the counter of the items that reached it
// (independent evaluation).  At the end the whole world is compared with the model.
// Every operation runs under the watchdog (label = its shape).  An operation that does not return is
// established once: it is re-run alone on fresh counters (minimal history, reported as the replay if it
// blocks again, else the whole prefix is the replay); later histories stop when they meet that shape.
func runHistory(rep *vh.Report, ops []string, add func(pending), fail failFn) {
	runHistoryL(rep, ops, add, fail, "hist:")
}

func runHistoryL(rep *vh.Report, ops []string, add func(pending), fail failFn, prefix string) (hung bool) {
	var objs []*hll.HyperLogLog
	var prec []uint32
	var ghost [][]uint32 // hashes that reached each counter
	var mops []string    // model form (hashes)
	replay := func(at int, extra string) map[string]interface{} {
		return map[string]interface{}{"history_ops": ops[:at+1], "at": at, "what": extra}
	}
	// snapshot: GetBytes() of every counter, under the watchdog
	snapshot := func(at int) ([][]byte, bool) {
		out := make([][]byte, len(objs))
		o := impl(prefix+"snapshot", func() map[string]interface{} { return replay(at, "GetBytes() of every counter") }, func() {
			for i, ob := range objs {
				out[i] = ob.GetBytes()
			}
		})
		if o.Timeout {
			m := replay(at, "GetBytes() of a counter of the history does not return")
			m["goroutine"] = o.Where
			fail("property", blocksKey(o), "after this history GetBytes() of a counter does not return", m)
			hung = true
		} else if o.Panic != "" {
			fail("property", "history:panic", "GetBytes() of a counter of the history panicked: "+vh.Clip(o.Panic, 160), replay(at, "panic in GetBytes"))
		}
		return out, o.OK()
	}
	for at, op := range ops {
		f := strings.Split(op, ":")
		before, ok := snapshot(at)
		if !ok {
			return
		}
		nBefore := len(objs)
		target := -1
		var created *hll.HyperLogLog
		var createdGhost []uint32
		var createdPrec uint32
		expectPanic := false
		atoi := func(x string) int { v, _ := strconv.Atoi(x); return v }
		label := prefix + opShape(f)
		if labelHung(label) {
			rep.Count("history:stopped-at-an-operation-known-to-block")
			break
		}
		o := impl(label, func() map[string]interface{} { return replay(at, "operation "+op) }, func() {
			switch f[0] {
			case "n":
				createdPrec = uint32(atoi(f[1]))
				created = hll.NewHyperLogLogInt(createdPrec)
				mops = append(mops, op)
			case "o":
				i := atoi(f[1])
				it := parseItem(f[2] + ":" + f[3])
				target = i
				offer(objs[i], it)
				ghost[i] = append(ghost[i], hashOf(it))
				mops = append(mops, fmt.Sprintf("o:%d:%d", i, hashOf(it)))
			case "a":
				i, j := atoi(f[1]), atoi(f[2])
				target = i
				mops = append(mops, op)
				expectPanic = prec[i] != prec[j]
				objs[i].AddAll(objs[j])
				ghost[i] = append(append([]uint32(nil), ghost[i]...), ghost[j]...)
			case "m":
				i := atoi(f[1])
				mops = append(mops, op)
				var args []*hll.HyperLogLog
				g := append([]uint32(nil), ghost[i]...)
				if f[2] != "-" {
					for _, js := range strings.Split(f[2], ",") {
						j := atoi(js)
						args = append(args, objs[j])
						g = append(g, ghost[j]...)
						if prec[j] != prec[i] {
							expectPanic = true
						}
					}
				}
				created = objs[i].Merge(args...)
				createdGhost, createdPrec = g, prec[i]
			case "b":
				i := atoi(f[1])
				mops = append(mops, op)
				created = hll.BuildHyperLogLog(objs[i].GetBytes())
				createdGhost, createdPrec = append([]uint32(nil), ghost[i]...), prec[i]
			case "g":
				mops = append(mops, op)
				_ = objs[atoi(f[1])].GetBytes()
			}
		})
		if o.Skipped {
			break
		}
		if o.Timeout {
			// established: the operation does not return.  Alone on fresh counters?
			hung = true
			if prefix == "hist:" {
				if min := minimalFor(f, prec); runHistoryL(rep, min, func(pending) {}, fail, "hist-min:") {
					return // reported with the minimal history as replay
				}
			}
			m := replay(at, "operation "+op+" does not return")
			m["goroutine"] = o.Where
			fail("property", blocksKey(o), "operation "+op+" of a history over several counters does not return", m)
			return
		}
		if !o.OK() {
			created = nil
			if !expectPanic {
				fail("property", "history:panic", "operation "+op+" panicked: "+vh.Clip(o.Panic, 160), replay(at, "panic"))
				return
			}
		} else if expectPanic {
			fail("property", "history:size-mismatch-accepted", "operation "+op+" combined counters of different precision without failing", replay(at, "no panic"))
			return
		}
		// frame
		after, ok := snapshot(at)
		if !ok {
			return
		}
		for k := 0; k < nBefore; k++ {
			if k == target && o.OK() {
				continue
			}
			if !bytes.Equal(after[k], before[k]) {
				what := fmt.Sprintf("operation %s changed counter #%d, which is not its receiver", op, k)
				if !o.OK() {
					what = fmt.Sprintf("the failing operation %s changed counter #%d", op, k)
				}
				fail("property", "history:frame-violated", what, replay(at, what))
				return
			}
		}
		if created != nil {
			for k := 0; k < nBefore; k++ {
				if objs[k] == created {
					what := fmt.Sprintf("operation %s returned counter #%d instead of a new counter", op, k)
					fail("property", "history:frame-violated", what, replay(at, what))
					return
				}
			}
			objs = append(objs, created)
			prec = append(prec, createdPrec)
			ghost = append(ghost, createdGhost)
			var cb []byte
			if _, ok := func() ([]byte, bool) {
				o := impl(prefix+"snapshot", func() map[string]interface{} { return replay(at, "GetBytes() of the new counter") }, func() { cb = created.GetBytes() })
				if o.Timeout {
					m := replay(at, "GetBytes() of the counter created by "+op+" does not return")
					m["goroutine"] = o.Where
					fail("property", blocksKey(o), "GetBytes() of the counter created by "+op+" does not return", m)
					hung = true
				} else if o.Panic != "" {
					fail("property", "history:panic", "GetBytes() of the counter created by "+op+" panicked: "+vh.Clip(o.Panic, 160), replay(at, "panic in GetBytes"))
				}
				return cb, o.OK()
			}(); !ok {
				return
			}
			after = append(after, cb)
		}
		// every counter = the counter of what reached it
		check := []int{}
		if target >= 0 && o.OK() {
			check = append(check, target)
		}
		if created != nil {
			check = append(check, len(objs)-1)
		}
		for _, k := range check {
			if !bytes.Equal(after[k], packRegs(prec[k], specRegs(prec[k], ghost[k]))) {
				what := fmt.Sprintf("after %s counter #%d is not the counter of the items that reached it", op, k)
				fail("property", "history:state-is-not-the-fold", what, replay(at, what))
				return
			}
		}
	}
	final, ok := snapshot(len(ops) - 1)
	if !ok {
		return
	}
	hx := make([]string, len(final))
	for i, b := range final {
		hx[i] = vh.Hex(b)
	}
	line := "HIST " + strings.Join(mops, ";")
	if len(mops) == 0 {
		line = "HIST -"
	}
	add(pending{line: line, want: vh.List(hx), what: "HIST", info: ops, c: &caseT{p: 4, mode: "history"}})
	return
}

func historySection(env *vh.Env, rep *vh.Report, rng *vh.Rng, add func(pending), fail func(kind, key, summary string, replay interface{})) {
	n := 300
	if env.Thorough {
		n = 3000
	}
	for h := 0; h < n; h++ {
		var ops []string
		var prec []int
		ps := []int{4 + rng.Intn(4), 4 + rng.Intn(7)}
		gens := []func(int) item{newFamily(familyNames[rng.Intn(len(familyNames))], rng), newFamily("small", rng)}
		nops := 8 + rng.Intn(40)
		drawn := 0
		for len(ops) < nops {
			k := len(prec)
			pick := func() int { return rng.Intn(k) }
			switch c := rng.Intn(100); {
			case k == 0 || (k < 6 && c < 12):
				p := ps[rng.Intn(2)]
				if rng.Chance(80) {
					p = ps[0]
				}
				ops = append(ops, fmt.Sprintf("n:%d", p))
				prec = append(prec, p)
			case c < 55:
				it := gens[rng.Intn(2)](drawn)
				drawn++
				ops = append(ops, fmt.Sprintf("o:%d:%s", pick(), it.String()))
			case c < 68:
				i, j := pick(), pick()
				if rng.Chance(15) {
					j = i // AddAll of a counter into itself
				}
				ops = append(ops, fmt.Sprintf("a:%d:%d", i, j))
			case c < 88 && k < 14:
				i := pick()
				na := rng.Intn(4)
				var js []string
				ok := true
				for a := 0; a < na; a++ {
					j := pick()
					if rng.Chance(25) {
						j = i // the receiver among the arguments
					}
					if a > 0 && rng.Chance(20) {
						js = append(js, js[a-1]) // the same counter twice
						continue
					}
					if prec[j] != prec[i] {
						ok = false
					}
					js = append(js, strconv.Itoa(j))
				}
				arg := "-"
				if len(js) > 0 {
					arg = strings.Join(js, ",")
				}
				ops = append(ops, fmt.Sprintf("m:%d:%s", i, arg))
				if ok {
					for _, x := range js { // a duplicate of a mismatching argument also fails
						jv, _ := strconv.Atoi(x)
						if prec[jv] != prec[i] {
							ok = false
						}
					}
				}
				if ok {
					prec = append(prec, prec[i])
				}
			case c < 94 && k < 14:
				i := pick()
				ops = append(ops, fmt.Sprintf("b:%d", i))
				prec = append(prec, prec[i])
			default:
				ops = append(ops, fmt.Sprintf("g:%d", pick()))
			}
		}
		runHistory(rep, ops, add, fail)
		rep.Case("history "+strings.Join(ops, ";"), true)
		rep.Count("history")
		rep.CountN("history:ops", len(ops))
		if h < 2 {
			rep.Sample(map[string]interface{}{"history_ops": ops})
		}
	}
}

// ---------------------------------------------------------------- the hash against the model and the reference

func hashSection(env *vh.Env, rep *vh.Report, rng *vh.Rng, add func(pending), fail func(kind, key, summary string, replay interface{})) {
	vals := []uint64{0, 1, 2, 255, 4294967295, 4294967296, 4294967297, 1 << 63, 1<<63 | 1, 18446744073709551615,
		0x0123456789abcdef, 0xdeadbeef00000000, 1234567890123456789, 42 << 32, 42<<32 | 7}
	n := 1500
	if env.Thorough {
		n = 20000
	}
	for _, fam := range familyNames {
		g := newFamily(fam, rng)
		for i := 0; i < n/len(familyNames); i++ {
			it := g(i)
			if !it.wide {
				// the 32-bit entry point
				o := uint32(it.v)
				var lib uint32
				if g := impl("hash32", nil, func() { lib = hll.MurmurHash(o) }); !g.OK() {
					if !g.Skipped {
						fail("property", "hash:panic-or-blocks", "MurmurHash("+fmt.Sprint(o)+") "+g.String(), map[string]interface{}{"p": 4, "items": []string{it.String()}})
					}
					continue
				}
				if lib != refHashLong(uint64(o)) {
					fail("property", "hash:differs-from-MurmurHash2", fmt.Sprintf("MurmurHash(%d) = %d, MurmurHash2 of the zero-extended item = %d", o, lib, refHashLong(uint64(o))),
						map[string]interface{}{"p": 4, "items": []string{it.String()}})
				}
				add(pending{line: fmt.Sprintf("MH %d", o), want: fmt.Sprint(lib), what: "MH"})
				continue
			}
			vals = append(vals, it.v)
		}
	}
	for _, v := range vals {
		var lib uint32
		if g := impl("hash64", nil, func() { lib = hll.MurmurHashLong(v) }); !g.OK() {
			if !g.Skipped {
				fail("property", "hash:panic-or-blocks", "MurmurHashLong("+fmt.Sprint(v)+") "+g.String(), map[string]interface{}{"p": 4, "items": []string{item{true, v}.String()}})
			}
			continue
		}
		if lib != refHashLong(v) {
			fail("property", "hash:differs-from-MurmurHash2", fmt.Sprintf("MurmurHashLong(%d) = %d, MurmurHash2 (low word, then high word) = %d", v, lib, refHashLong(v)),
				map[string]interface{}{"p": 4, "items": []string{item{true, v}.String()}})
		}
		add(pending{line: fmt.Sprintf("MH %d", v), want: fmt.Sprint(lib), what: "MH"})
	}
	rep.CountN("hash:vs-model-and-reference", n+15)
	rep.Evaluations += n + 15
}

// ---------------------------------------------------------------- the rest of the exported API

// apiSection exercises the exported functions no other stage calls directly: the constructors
// NewHyperLogLog / NewHyperLogLogDefault / NewHyperLogLogFloat, Sizeof and Round.
func apiSection(env *vh.Env, rep *vh.Report, rng *vh.Rng, add func(pending), fail failFn) {
	bad := func(key, what string, replay map[string]interface{}) { fail("property", key, what, replay) }
	// NewHyperLogLog(p, NewRegisterSet(2^p)) is NewHyperLogLogInt(p); precisions above 30 are refused (nil)
	for p := uint32(4); p <= 16; p++ {
		var items []item
		g := newFamily(familyNames[rng.Intn(len(familyNames))], rng)
		for i := 0; i < 1+rng.Intn(200); i++ {
			items = append(items, g(i))
		}
		ref := build(p, items)
		if !ref.out.OK() {
			continue
		}
		var b []byte
		var card uint64
		var size int
		o := impl("api:new", itemsReplay(p, items), func() {
			h := hll.NewHyperLogLog(p, hll.NewRegisterSet(1<<p))
			for _, it := range items {
				offer(h, it)
			}
			b, card, size = h.GetBytes(), h.Cardinality(), h.Sizeof()
		})
		rp := itemsReplay(p, items)()
		if o.Timeout {
			rp["goroutine"] = o.Where
			bad(blocksKey(o), "a call on a counter made by NewHyperLogLog(p, NewRegisterSet(2^p)) does not return", rp)
		} else if o.Panic != "" {
			bad("offer:panic", "a counter made by NewHyperLogLog(p, NewRegisterSet(2^p)) panicked: "+vh.Clip(o.Panic, 160), rp)
		} else if o.OK() {
			if !bytes.Equal(b, ref.bytes) || card != ref.card {
				bad("constructor:NewHyperLogLog-differs-from-NewHyperLogLogInt", "NewHyperLogLog(p, NewRegisterSet(2^p)) and NewHyperLogLogInt(p) differ after the same offers", rp)
			}
			// Sizeof() = 4 bytes per word = what GetBytes() carries after its two header ints
			if size != 4*specWordCount(p) || size != len(b)-8 {
				bad("Sizeof:not-four-bytes-per-word", fmt.Sprintf("Sizeof() = %d at precision %d, the register words take %d bytes", size, p, 4*specWordCount(p)), rp)
			}
			add(pending{line: fmt.Sprintf("SZ %d", 1<<p), want: fmt.Sprint(size / 4), what: "SZ", key: "Sizeof:not-four-bytes-per-word", info: p})
		}
		rep.Count("api:NewHyperLogLog+Sizeof")
		rep.Evaluations++
	}
	for _, p := range []uint32{31, 32, 33, 64, 1 << 31, 0xffffffff} {
		var h *hll.HyperLogLog
		o := impl("api:new-invalid", nil, func() { h = hll.NewHyperLogLog(p, hll.NewRegisterSet(16)) })
		if o.OK() && h != nil {
			bad("constructor:invalid-precision-accepted", fmt.Sprintf("NewHyperLogLog(%d, …) returned a counter (precisions above 30 are refused)", p), map[string]interface{}{"log2m": p})
		}
		rep.Count("api:NewHyperLogLog-invalid-precision")
		rep.Evaluations++
	}
	// NewHyperLogLogDefault() is an empty counter of precision 10
	{
		var b []byte
		var card uint64
		o := impl("api:default", nil, func() { h := hll.NewHyperLogLogDefault(); b, card = h.GetBytes(), h.Cardinality() })
		if !o.Skipped && (!o.OK() || !bytes.Equal(b, packRegs(10, make([]uint32, 1024))) || card != 0) {
			bad("constructor:default-is-not-an-empty-counter-of-precision-10", "NewHyperLogLogDefault() "+o.String(), map[string]interface{}{"bytes": vh.Clip(vh.Hex(b), 80), "cardinality": card})
		}
		rep.Count("api:NewHyperLogLogDefault")
		rep.Evaluations++
	}
	// NewHyperLogLogFloat(rsd): an empty counter whose standard error 1.04/sqrt(m) is the requested one
	// up to the granularity of powers of two (within a factor 2; which neighbour is chosen is the code's business)
	for i := 0; i < 40; i++ {
		p := 4 + rng.Intn(13)
		rsd := 1.04 / math.Sqrt(math.Exp2(float64(p)+float64(rng.Intn(1000))/1000))
		var b []byte
		var card uint64
		o := impl("api:float", nil, func() { h := hll.NewHyperLogLogFloat(rsd); b, card = h.GetBytes(), h.Cardinality() })
		if o.Skipped {
			continue
		}
		q, regs, okb := unpackRegs(b)
		good := o.OK() && okb && card == 0 && zerosOf(b) == len(regs)
		if good {
			se := 1.04 / math.Sqrt(float64(uint64(1)<<q))
			good = se <= 2*rsd && rsd <= 2*se
		}
		if !good {
			bad("constructor:precision-for-rsd", fmt.Sprintf("NewHyperLogLogFloat(%g) is not an empty counter with standard error 1.04/sqrt(m) within a factor 2 of the request", rsd), map[string]interface{}{"rsd": rsd, "bytes": vh.Clip(vh.Hex(b), 40), "outcome": o.String()})
		}
		rep.Count("api:NewHyperLogLogFloat")
		rep.Evaluations++
	}
	// Round: half away from zero on the values Cardinality passes (and their negatives)
	for i := 0; i < 400; i++ {
		x := float64(rng.Intn(1<<30)) + float64(rng.Intn(4))/4
		if i%5 == 0 {
			x = float64(rng.Intn(1 << 20)) * (1 + float64(rng.Intn(1<<20))/(1<<20))
		}
		if i%2 == 1 {
			x = -x
		}
		want := int64(math.Floor(math.Abs(x) + 0.5))
		if x < 0 {
			want = -want
		}
		var got int64
		o := impl("api:round", nil, func() { got = hll.Round(x) })
		if !o.Skipped && (!o.OK() || got != want) {
			bad("Round:not-half-away-from-zero", fmt.Sprintf("Round(%v) = %d, expected %d", x, got, want), map[string]interface{}{"x": x, "implementation": got})
		}
		rep.Count("api:Round")
		rep.Evaluations++
	}
}
