// Calls into the implementation: recover + watchdog + "the report is always written".
//
// Every block of implementation calls of this harness runs through impl(label, replay, f):
//
//   - f runs in its own goroutine under recover (a panic becomes an outcome);
//   - a watchdog decides "this call does not return" WITHOUT depending on how fast the machine is:
//     after softDeadline it looks at the state of the goroutine (runtime.Stack): if it is parked in a
//     blocking primitive (mutex, semaphore, channel, cond, select, sleep) and the first frame outside
//     runtime/sync belongs to the implementation (github.com/whatap/golib/…), in three samples 500 ms
//     apart with the same stack, the call is blocked for ever (a slow goroutine on a loaded machine is
//     runnable/running, never parked inside the implementation).  A call that is still not back after
//     hardDeadline is reported whatever its state (busy loop);
//   - a hang is established once per label: later blocks with that label are not run (res.Skipped),
//     so that a blocking implementation costs a few deadlines, not one per case;
//   - every block is registered while in flight; at the global deadline (well before the check
//     script's timeout) the report is written from what was found so far plus the in-flight blocks.
package main

import (
	"encoding/json"
	"fmt"
	"os"
	"regexp"
	"runtime"
	"sort"
	"strconv"
	"strings"
	"sync"
	"time"

	"verif/harness/vh"
)

const (
	softDeadline = 10 * time.Second
	hardDeadline = 600 * time.Second
)

// res is the outcome of a guarded block.
type res struct {
	vh.Outcome
	Skipped bool   // not run: a block with this label was established to block for ever
	API     string // Timeout: the implementation function the harness called that does not return ("HyperLogLog.AddAll")
	Where   string // Timeout: state and innermost frames of the blocked goroutine
}

func (r res) OK() bool { return r.Outcome.OK() && !r.Skipped }

type inflight struct {
	label  string
	start  time.Time
	gid    int
	replay func() map[string]interface{}
}

var (
	gmu       sync.Mutex
	hungLabel = map[string]string{} // label → API that blocked
	flights   = map[int]*inflight{}
	flightSeq int
	nBlocks   int
	nSkipped  = map[string]int{}
)

func labelHung(label string) bool {
	gmu.Lock()
	defer gmu.Unlock()
	_, h := hungLabel[label]
	return h
}

func curGid() int {
	var buf [64]byte
	n := runtime.Stack(buf[:], false)
	// "goroutine 123 [running]:"
	f := strings.Fields(string(buf[:n]))
	if len(f) >= 2 {
		g, _ := strconv.Atoi(f[1])
		return g
	}
	return -1
}

var goroutineHdr = regexp.MustCompile(`^goroutine (\d+) \[([^\],]+)`)

var blockedStates = map[string]bool{
	"sync.Mutex.Lock": true, "sync.RWMutex.Lock": true, "sync.RWMutex.RLock": true, "semacquire": true,
	"chan receive": true, "chan send": true, "chan receive (nil chan)": true, "chan send (nil chan)": true,
	"select": true, "select (no cases)": true, "sync.Cond.Wait": true, "sync.WaitGroup.Wait": true, "sleep": true,
}

// stackOf returns the state and the function names (innermost first) of goroutine gid.
func stackOf(gid int) (state string, frames []string) {
	buf := make([]byte, 1<<20)
	for {
		n := runtime.Stack(buf, true)
		if n < len(buf) {
			buf = buf[:n]
			break
		}
		buf = make([]byte, 2*len(buf))
	}
	for _, g := range strings.Split(string(buf), "\n\n") {
		lines := strings.Split(g, "\n")
		m := goroutineHdr.FindStringSubmatch(lines[0])
		if m == nil {
			continue
		}
		if id, _ := strconv.Atoi(m[1]); id != gid {
			continue
		}
		for _, l := range lines[1:] {
			if l == "" || l[0] == '\t' || strings.HasPrefix(l, "created by ") {
				continue
			}
			if i := strings.LastIndex(l, "("); i > 0 {
				l = l[:i]
			}
			frames = append(frames, l)
		}
		return m[2], frames
	}
	return "gone", nil
}

const implPkg = "github.com/whatap/golib/"

// blockedInImpl: parked in a blocking primitive, reached directly from implementation code.
func blockedInImpl(state string, frames []string) bool {
	if !blockedStates[state] {
		return false
	}
	for _, f := range frames {
		if strings.HasPrefix(f, "runtime.") || strings.HasPrefix(f, "sync.") || strings.HasPrefix(f, "internal/") || strings.HasPrefix(f, "time.") {
			continue
		}
		return strings.HasPrefix(f, implPkg)
	}
	return false
}

// apiOf: the implementation function the harness called (outermost implementation frame), as Type.Method.
func apiOf(frames []string) string {
	api := ""
	for _, f := range frames { // innermost first: the last implementation frame before harness frames
		if strings.HasPrefix(f, implPkg) {
			api = f
		} else if api != "" && strings.HasPrefix(f, "main.") {
			break
		}
	}
	if api == "" {
		return "call"
	}
	api = api[strings.LastIndex(api, "/")+1:] // hll.(*HyperLogLog).AddAll
	if i := strings.Index(api, "."); i >= 0 {
		api = api[i+1:]
	}
	api = strings.NewReplacer("(*", "", ")", "").Replace(api)
	if i := strings.Index(api, ".func"); i > 0 {
		api = api[:i]
	}
	return api
}

func whereOf(state string, frames []string) string {
	n := len(frames)
	if n > 4 {
		n = 4
	}
	return "[" + state + "] " + strings.Join(frames[:n], " <- ")
}

// impl runs f under recover and the watchdog.  replay describes the input of the block (for the
// emergency report); it may be nil.
func impl(label string, replay func() map[string]interface{}, f func()) res {
	if labelHung(label) {
		gmu.Lock()
		nSkipped[label]++
		gmu.Unlock()
		return res{Skipped: true}
	}
	fl := &inflight{label: label, start: time.Now(), replay: replay, gid: -1}
	gmu.Lock()
	flightSeq++
	id := flightSeq
	flights[id] = fl
	nBlocks++
	gmu.Unlock()
	defer func() {
		gmu.Lock()
		delete(flights, id)
		gmu.Unlock()
	}()
	ch := make(chan vh.Outcome, 1)
	gidCh := make(chan int, 1)
	go func() {
		gidCh <- curGid()
		ch <- vh.Guard(f)
	}()
	gid := <-gidCh
	gmu.Lock()
	fl.gid = gid
	gmu.Unlock()
	soft := time.NewTimer(softDeadline)
	defer soft.Stop()
	select {
	case o := <-ch:
		return res{Outcome: o}
	case <-soft.C:
	}
	// late: look at the goroutine
	hard := time.NewTimer(hardDeadline - softDeadline)
	defer hard.Stop()
	same, last := 0, ""
	for {
		state, frames := stackOf(gid)
		sig := state + "|" + strings.Join(frames, "|")
		if blockedInImpl(state, frames) {
			if sig == last {
				same++
			} else {
				same, last = 1, sig
			}
			if same >= 3 {
				return established(label, state, frames)
			}
		} else {
			same, last = 0, ""
		}
		wait := 500 * time.Millisecond
		if same == 0 {
			wait = 3 * time.Second
		}
		select {
		case o := <-ch:
			return res{Outcome: o}
		case <-hard.C:
			state, frames := stackOf(gid)
			return established(label, state, frames)
		case <-time.After(wait):
		}
	}
}

func established(label, state string, frames []string) res {
	api := apiOf(frames)
	gmu.Lock()
	hungLabel[label] = api
	gmu.Unlock()
	return res{Outcome: vh.Outcome{Timeout: true}, API: api, Where: whereOf(state, frames)}
}

var hangReported = map[string]bool{}

// firstHangReport: true for the first caller per label (workers that ran into the same hang at the
// same time report it once, so that the other stages' exhibits of the same key are kept too).
func firstHangReport(label string) bool {
	gmu.Lock()
	defer gmu.Unlock()
	if hangReported[label] {
		return false
	}
	hangReported[label] = true
	return true
}

// blocksKey is the stable key of "this implementation call does not return".
func blocksKey(o res) string { return o.API + ":blocks" }

// guardNotes adds what the watchdog saw to the report.
func guardNotes(rep *vh.Report) {
	gmu.Lock()
	defer gmu.Unlock()
	rep.Extra["guarded_blocks"] = nBlocks
	if len(hungLabel) > 0 {
		ls := []string{}
		for l, api := range hungLabel {
			ls = append(ls, fmt.Sprintf("%s (%s, %d later blocks not run)", l, api, nSkipped[l]))
		}
		sort.Strings(ls)
		rep.Note("implementation calls that do not return were established for the block classes: %s", strings.Join(ls, "; "))
		rep.Extra["blocks_not_run_after_a_hang"] = nSkipped
	}
}

// ---------------------------------------------------------------- the report is always written

// supervise writes an emergency report and ends the process (exit 3: not a completed run) when the run exceeds budget: what was
// found so far (snapshot() copies the failures under the harness's lock) plus every block that is
// in flight for more than a minute, as "does not return" with its replay.
func supervise(env *vh.Env, budget time.Duration, snapshot func() (failures []vh.Failure, evaluations int, rule string)) {
	go func() {
		time.Sleep(budget)
		fs, evals, rule := snapshot()
		gmu.Lock()
		var late []string
		for _, fl := range flights {
			if time.Since(fl.start) < time.Minute {
				continue
			}
			state, frames := "unknown", []string(nil)
			if fl.gid >= 0 {
				state, frames = stackOf(fl.gid)
			}
			rp := map[string]interface{}{}
			if fl.replay != nil {
				rp = fl.replay()
			}
			rp["block"] = fl.label
			rp["goroutine"] = whereOf(state, frames)
			fs = append(fs, vh.Failure{Kind: "property", Key: apiOf(frames) + ":blocks",
				Summary: fmt.Sprintf("an implementation call of block %q has not returned after %.0f s", fl.label, time.Since(fl.start).Seconds()), Replay: rp})
			late = append(late, fl.label)
		}
		gmu.Unlock()
		out := map[string]interface{}{
			"property": "C14", "tier": env.Tier, "seed": env.Seed, "evaluations": evals, "distinct_nontrivial": 0,
			"rule": rule, "samples": []interface{}{}, "distribution": map[string]int{}, "failures": fs,
			"known_replayed": []interface{}{},
			"notes": []string{fmt.Sprintf("EMERGENCY REPORT: the run exceeded its budget of %.0f s; blocks in flight for more than a minute: %v; the report covers only what had been found until then", budget.Seconds(), late)},
			"extra": map[string]interface{}{"emergency": true}, "wall_s": budget.Seconds(),
		}
		b, _ := json.MarshalIndent(out, "", " ")
		if env.Out == "" {
			os.Stdout.Write(b)
		} else if err := os.WriteFile(env.Out, b, 0o644); err != nil {
			fmt.Fprintln(os.Stderr, "cannot write the emergency report:", err)
		}
		// not a completed run: the check script lists the failing inputs of the report and says that the run was cut short
		os.Exit(3)
	}()
}
