package main

import (
	"bytes"
	"crypto/sha1"
	"encoding/binary"
	"fmt"
	"strings"

	"github.com/whatap/golib/lang/pack"
	whash "github.com/whatap/golib/util/hash"
	"verif/harness/vh"
)

// finding is one way in which an observation contradicts the Spec.
type finding struct {
	Key     string `json:"key"`
	Summary string `json:"summary"`
}

// delivery: frame of send Sid arrived whole as the Pos-th frame of connection Conn.
type delivery struct {
	Sid, Conn, Pos int
}

// analysis is the parsed observation (also the input of the model witness).
type analysis struct {
	Delivered []delivery           // in connection order, then position
	BySid     map[int]int          // sid -> index in Delivered (first)
	TailSid   map[int]int          // conn -> sid whose strict prefix is the tail (-1 none)
	TailLen   map[int]int          // conn -> tail length
	TailCands map[int]map[int]bool // conn -> sends whose frame has the tail as a strict prefix
	Frames    map[int][]int        // conn -> sids in order
}

// checkSpec decides the property directly on what was observed:
// whole frames per connection (+ a strict-prefix tail only on a connection the
// fault script closed), every frame equal to the reference encoding of exactly
// one send (pcode, license hash, payload), no duplicates, acceptance order and
// real-time order preserved, nothing accepted lost while the connection was
// healthy, and delivery resumes after the faults.
func checkSpec(o *observation) ([]finding, *analysis) {
	var out []finding
	add := func(key, f string, a ...interface{}) {
		out = append(out, finding{key, fmt.Sprintf(f, a...)})
	}
	mode := o.Spec.Mode
	// frames are looked up by digest (a thorough batch holds gigabytes of frames: no second copy of them)
	byFrame := map[[20]byte]*sendRec{}
	for _, s := range o.Sends {
		byFrame[sha1.Sum(s.frame)] = s
	}
	// the same frames with the license-hash field blanked: a frame that matches only here has the
	// right pack and project code but the hash of a license that was not in effect for that send
	noLic := func(f []byte) [20]byte {
		if len(f) < 18 {
			return sha1.Sum(f)
		}
		h := sha1.New()
		h.Write(f[:10])
		h.Write(make([]byte, 8))
		h.Write(f[18:])
		var d [20]byte
		copy(d[:], h.Sum(nil))
		return d
	}
	byFrameNoLic := map[[20]byte]*sendRec{}
	for _, s := range o.Sends {
		byFrameNoLic[noLic(s.frame)] = s
	}
	bySid := map[int]*sendRec{}
	for _, s := range o.Sends {
		bySid[s.Sid] = s
	}
	an := &analysis{BySid: map[int]int{}, TailSid: map[int]int{}, TailLen: map[int]int{}, Frames: map[int][]int{},
		TailCands: map[int]map[int]bool{}}
	decoded := 0
	for _, c := range o.Conns {
		frames, tail, bad := parseStream(c.data)
		if bad != "" {
			add("frames_whole:"+mode+":not-a-frame-sequence", "connection %d: %s (received %d bytes: %s)", c.Idx, bad, len(c.data), vh.Clip(vh.Hex(c.data), 120))
			continue
		}
		for pos, f := range frames {
			s := byFrame[sha1.Sum(f)]
			if s != nil && !bytes.Equal(s.frame, f) {
				s = nil
			}
			if s == nil && foreignFrame(f, o.Nonce) {
				// a client of another run reached this listener (loopback port reuse): not an observation of this client
				o.Infra = "a foreign client delivered frames to this scenario's listener"
				return nil, an
			}
			if s == nil {
				if s2 := byFrameNoLic[noLic(f)]; s2 != nil && len(f) >= frameHdr {
					add("license_choice:"+mode+":hash", "connection %d frame %d is the pack of send %d (sender %d #%d, per-send license %q, client license %q) but carries license hash %d instead of %d", c.Idx, pos, s2.Sid, s2.Sender, s2.Seq, s2.Lic, defaultLicense, int64(binary.BigEndian.Uint64(f[10:18])), whash.Hash64Str(s2.Eff))
					continue
				}
				add("frames_whole:"+mode+":unknown-frame", "connection %d frame %d (%d bytes) is not the encoding of any pack handed to the client: %s", c.Idx, pos, len(f), vh.Clip(vh.Hex(f), 120))
				continue
			}
			if prev, dup := an.BySid[s.Sid]; dup {
				d := an.Delivered[prev]
				add("order_once:"+mode+":duplicate", "send %d (sender %d #%d) received twice: connection %d frame %d and connection %d frame %d", s.Sid, s.Sender, s.Seq, d.Conn, d.Pos, c.Idx, pos)
			} else {
				an.BySid[s.Sid] = len(an.Delivered)
			}
			an.Delivered = append(an.Delivered, delivery{s.Sid, c.Idx, pos})
			an.Frames[c.Idx] = append(an.Frames[c.Idx], s.Sid)
			// the statement's reading of a frame: header fields and the decoded pack
			if decoded < 400 || len(f) < 200 {
				decoded++
				if msg := decodeCheck(f, s); msg != "" {
					add("license_choice:"+mode+":decode", "connection %d frame %d: %s", c.Idx, pos, msg)
				}
			}
		}
		an.TailSid[c.Idx] = -1
		an.TailLen[c.Idx] = len(tail)
		if len(tail) > 0 {
			// An incomplete frame at the end needs a fault on that connection: the peer closed it, or — with a
			// short client Timeout — the write deadline expired inside that very frame and the client said so.
			reportedTimeout := false
			if o.Spec.TimeoutMs > 0 && !c.Faulted {
				for _, s := range o.Sends {
					if (s.Class == "flush" || s.Class == "write" || s.Class == "deadline") && strings.Contains(s.Err, "timeout") &&
						len(tail) < len(s.frame) && bytes.Equal(s.frame[:len(tail)], tail) {
						reportedTimeout = true
						break
					}
				}
			}
			if o.Spec.TimeoutMs > 0 && !c.Faulted && mode == "queue" {
				// process() reports nothing: with a short Timeout a write that timed out shows only as a
				// connection the client gave up (closed) inside a frame
				reportedTimeout = true
			}
			if !c.Faulted && !reportedTimeout {
				add("frames_whole:"+mode+":partial-on-live-connection", "connection %d was not closed by the peer yet ends with %d bytes of an incomplete frame", c.Idx, len(tail))
			}
			found := false
			an.TailCands[c.Idx] = map[int]bool{}
			for _, s := range o.Sends {
				if len(tail) < len(s.frame) && bytes.Equal(s.frame[:len(tail)], tail) {
					an.TailCands[c.Idx][s.Sid] = true
					if !found {
						an.TailSid[c.Idx] = s.Sid
					} else if _, whole := an.BySid[an.TailSid[c.Idx]]; whole {
						an.TailSid[c.Idx] = s.Sid
					}
					found = true
				}
			}
			if !found {
				add("frames_whole:"+mode+":tail-not-a-frame-prefix", "connection %d ends with %d bytes that are not the beginning of any handed frame: %s", c.Idx, len(tail), vh.Clip(vh.Hex(tail), 120))
			}
		}
	}
	// order: acceptance order (the order in which the client serialised the packs), per sender, real time
	lastSeq := map[int]int{}
	var maxInv, lastMade int64
	var maxInvSid, lastMadeSid int = -1, -1
	seen := map[int]bool{}
	for _, d := range an.Delivered {
		if seen[d.Sid] {
			continue
		}
		seen[d.Sid] = true
		s := bySid[d.Sid]
		if prev, ok := lastSeq[s.Sender]; ok && prev >= s.Seq {
			add("order_once:"+mode+":per-sender-order", "sender %d: pack #%d received after pack #%d (connection %d frame %d)", s.Sender, s.Seq, prev, d.Conn, d.Pos)
		}
		lastSeq[s.Sender] = s.Seq
		if s.Ret < maxInv {
			a := bySid[maxInvSid]
			add("order_once:"+mode+":realtime-order", "send %d returned (stamp %d) before send %d was invoked (stamp %d) yet is received after it", s.Sid, s.Ret, a.Sid, a.Inv)
		}
		if s.Inv > maxInv {
			maxInv, maxInvSid = s.Inv, s.Sid
		}
		if s.Made != 0 {
			if s.Made < lastMade {
				add("order_once:"+mode+":acceptance-order", "send %d was taken by the client (stamp %d) before send %d (stamp %d) yet is received after it", s.Sid, s.Made, lastMadeSid, lastMade)
			}
			lastMade, lastMadeSid = s.Made, s.Sid
		}
	}
	// loss
	type span struct {
		lo, hi int64
		last   bool
	}
	var spans []span
	for i, c := range o.Conns {
		if c.Faulted || len(an.Frames[c.Idx]) == 0 {
			continue
		}
		sp := span{lo: 1 << 62}
		for _, sid := range an.Frames[c.Idx] {
			m := bySid[sid].Made
			if m == 0 {
				continue
			}
			if m < sp.lo {
				sp.lo = m
			}
			if m > sp.hi {
				sp.hi = m
			}
		}
		sp.last = i == len(o.Conns)-1 && o.Recovered
		spans = append(spans, sp)
	}
	faultFree := len(o.Spec.Script) == 0
	bgConnected := false
	for _, e := range o.Log {
		if e.Kind == "connected" && e.Process {
			bgConnected = true
		}
	}
	for _, s := range o.Sends {
		if s.Class != "ok" {
			continue
		}
		if _, ok := an.BySid[s.Sid]; ok {
			continue
		}
		lost := ""
		if faultFree {
			lost = "no fault was injected"
		} else if s.Made != 0 {
			for _, sp := range spans {
				if sp.lo < s.Made && (s.Made < sp.hi || sp.last) {
					lost = "it was taken by the client between two packs that arrived on a connection that stayed healthy"
				}
			}
		}
		if lost != "" {
			key := "healthy_no_loss:" + mode
			if o.Spec.PreIdleMs > 0 {
				key = "healthy_no_loss:after-idle"
				lost += fmt.Sprintf("; the client had been idle for %d ms (longer than every internal wait) before traffic began", o.Spec.PreIdleMs)
			} else if o.Spec.ApplyConfigs > 0 {
				key = keyD70
			} else if mode == "direct" && bgConnected && len(o.Conns) > 1 {
				key = "healthy_no_loss:direct:bgConnect-race"
			}
			add(key, "send %d (sender %d #%d, %d bytes) was accepted (nil error) and never received although %s", s.Sid, s.Sender, s.Seq, s.Len, lost)
		}
	}
	if faultFree {
		for _, s := range o.Sends {
			if s.Class != "ok" && s.Class != "enqueue" && s.Class != "panic" {
				k := "healthy_no_error:" + mode
				if o.Spec.ApplyConfigs > 0 {
					k = keyD70 + ":send-error"
				}
				add(k, "no fault was injected, yet send %d (sender %d #%d, %s) failed: %s", s.Sid, s.Sender, s.Seq, s.Entry, vh.Clip(s.Err, 200))
				break
			}
		}
	}
	if len(o.Spec.Servers) > 0 && len(o.Addrs) == len(o.Spec.Servers) {
		// the server list: a collector of the list that is listening must be reached, whatever stands before it
		li := liveIndex(o.Spec.Servers)
		if v := compareList(o.Spec.Servers, connectGroups(o.Log, o.Addrs), li, li); v.Property != "" {
			add("recovers:"+mode+":live-server-of-list-not-reached", "%s (client Timeout %d ms)", v.Property, o.Spec.TimeoutMs)
		}
	}
	if !o.Recovered {
		add("recovers:"+mode+":no-delivery-after-faults", "after the fault script ended, none of %d further packs (handed over more than 20 s) was received (%d connections accepted)", o.Attempts, len(o.Conns))
	}
	for _, p := range o.Panics {
		add("send:"+mode+":panic", "Send panicked: %s", vh.Clip(p, 200))
	}
	return out, an
}

// decodeCheck reads one received frame the way the collector does.
func decodeCheck(f []byte, s *sendRec) string {
	if f[0] != 10 || f[1] != 0 {
		return "bad magic"
	}
	pcode := int64(binary.BigEndian.Uint64(f[2:]))
	hash := int64(binary.BigEndian.Uint64(f[10:]))
	if pcode != s.Pcode {
		return fmt.Sprintf("header pcode %d, pack pcode %d", pcode, s.Pcode)
	}
	if hash != whash.Hash64Str(s.Eff) {
		return fmt.Sprintf("header license hash %d is not the hash of the license in effect (%q)", hash, s.Eff)
	}
	var p pack.Pack
	o := vh.Guard(func() { p = pack.ToPack(f[frameHdr:]) })
	if !o.OK() || p == nil {
		return "payload does not decode: " + o.Panic
	}
	tp, ok := p.(*pack.TextPack)
	if !ok {
		return fmt.Sprintf("payload decodes to %T", p)
	}
	if tp.Pcode != s.tp.Pcode || tp.Oid != s.tp.Oid || tp.Time != s.tp.Time || tp.Okind != s.tp.Okind || tp.Onode != s.tp.Onode {
		return "decoded pack differs from the pack sent"
	}
	if !bytes.Equal(pack.ToBytesPack(tp), f[frameHdr:]) {
		return "decoded pack does not re-encode to the received payload"
	}
	return ""
}

// foreignFrame: a well-formed frame whose pack decodes and carries another run's nonce.
func foreignFrame(f []byte, nonce int32) bool {
	if len(f) < frameHdr {
		return false
	}
	var p pack.Pack
	if o := vh.Guard(func() { p = pack.ToPack(f[frameHdr:]) }); !o.OK() || p == nil {
		return false
	}
	tp, ok := p.(*pack.TextPack)
	return ok && tp.Oid != nonce
}
