package main

import (
	"context"
	"encoding/binary"
	"fmt"
	"runtime"
	"strings"
	"sync"
	"sync/atomic"
	"time"

	"github.com/whatap/golib/lang/pack"
	wnet "github.com/whatap/golib/net"
	"github.com/whatap/golib/net/oneway"
	"verif/harness/vh"
)

const defaultLicense = "default-license-0001"

// scenarioSpec is everything that determines a run except the scheduler.
type scenarioSpec struct {
	Name     string      `json:"name"`
	Mode     string      `json:"mode"` // "direct" | "queue"
	Senders  int         `json:"senders"`
	QueueCap int         `json:"queue_cap,omitempty"`
	Script   []directive `json:"script"`
	PreMax   int         `json:"pre_max"` // sends per sender at most while the script is still running
	Post     int         `json:"post"`    // sends per sender after the script has been carried out
	Big      int         `json:"big,omitempty"`
	// BigAll: every pack of the senders carries a text of about that many bytes (frames larger
	// than the client's 2 MiB buffered writer go straight to the socket inside send())
	BigAll int `json:"big_all,omitempty"`
	// Reconfig (queue mode): the consumer is stalled (its first makeData blocks) while the senders
	// build a backlog; then the queue capacity is set to each of these values in turn
	// (Queue.SetCapacity — what ApplyConfig does for oneway_queue_size), three more packs are handed
	// after each change, and the consumer is released.  0 = unbounded.
	Reconfig []int `json:"reconfig,omitempty"`
	// Stall (queue mode): the consumer is stalled while the senders hand their packs through every
	// public entry point (Send, SendFlush(false), SendFlush(true)), then released: delivery order
	// must be acceptance order across entry points.
	Stall bool `json:"stall,omitempty"`
	// TimeoutMs: the client's Timeout (dial / write deadline); IdleMs: every sender pauses that long
	// after each send, so the healthy connection gets older than the timeout between sends.
	TimeoutMs int `json:"timeout_ms,omitempty"`
	IdleMs    int `json:"idle_ms,omitempty"`
	// ApplyConfigs: that many calls of ApplyConfig with a changed server list (same collector: the
	// client closes and re-dials) while the senders run.  The collector stand-in then listens on
	// port 6600, the only port ApplyConfig can point the client at.
	ApplyConfigs int `json:"apply_configs,omitempty"`
	// PreIdleMs: after the client is connected and process() runs, nothing happens for that long (longer
	// than every internal wait of the client: see internalWaitMs) before the first pack is handed over.
	// Burst: the packs after the idle period are handed over back to back (no pacing).
	PreIdleMs int  `json:"pre_idle_ms,omitempty"`
	Burst     bool `json:"burst,omitempty"`
	// Sizes: frame lengths (bytes, exact) the senders cycle through — mixes around the client's internal
	// buffer sizes; every pack but the last of a cycle goes through SendFlush(false), the last through
	// SendFlush(true).  Batch: queue mode without process(): the packs of a cycle are Put, then the
	// application calls SendAndClear (many frames, one flush).  PostBig: once a send has failed, every
	// further pack makes a frame of that length (larger than the write buffer: the frame after a write
	// timeout must not be glued onto the connection that carries the fragment).
	Sizes   []int `json:"sizes,omitempty"`
	Batch   bool  `json:"batch,omitempty"`
	PostBig int   `json:"post_big,omitempty"`
	// Servers: the client's server list by kind of entry (serverlist.go): exactly one "live" (the scripted
	// collector stand-in), before it "refused" / "gone" entries, behind it also "spare".  Empty: [live].
	Servers []string `json:"servers,omitempty"`
	Seed    uint64   `json:"seed"`
}

type observation struct {
	Spec      scenarioSpec `json:"spec"`
	Sends     []*sendRec   `json:"sends"`
	Conns     []*connObs   `json:"conns"`
	Log       []logEvent   `json:"log"`
	Infra     string       `json:"infra,omitempty"`
	Recovered bool         `json:"recovered"`
	Attempts  int          `json:"recovery_attempts"`
	CapEvents []capEvent   `json:"capacity_changes,omitempty"`
	Nonce     int32        `json:"-"`
	Panics    []string     `json:"panics,omitempty"`
	// Stuck: a call into the client did not return, or process() did not return after its context was
	// cancelled, within the (patient) deadline: the client blocks for ever
	Stuck  string `json:"stuck,omitempty"`
	WallMs int64  `json:"wall_ms"`
	// the public Flush() right after a successful SendAndClear: how often it had nothing to flush / something
	FlushEmpty int64 `json:"public_flush_nothing_left,omitempty"`
	FlushOther int64 `json:"public_flush_something_left,omitempty"`
	// how process() was stopped: "WithContext cancel" | "Destroy" | "StopForVerif"
	StoppedBy string `json:"stopped_by,omitempty"`
	// server-list scenarios: the addresses given to the client (in list order) and how many connections
	// the spare collectors accepted
	Addrs         []string `json:"server_addrs,omitempty"`
	SpareAccepted int      `json:"spare_accepted,omitempty"`
}

type capEvent struct {
	Stamp int64 `json:"stamp"`
	Cap   int   `json:"cap"`
}

type scen struct {
	spec  scenarioSpec
	clk   *clock
	lg    *hookLogger
	srv   *server
	c     *oneway.OneWayTcpClient
	mu    sync.Mutex
	sends []*sendRec
	nsid  int
	pan   []string
	nOk   int64
	nMade int64
	nonce int32
	gate  chan struct{} // non-nil: the consumer's makeData blocks until it is closed
	gated int32

	failedAny int32 // a send of this scenario has reported an error

	flushEmpty, flushOther int64 // public Flush() after a successful SendAndClear: (0, nil) / anything else

	lastMade int64 // unix nanos of the consumer's last progress (queue mode)
	callMu   sync.Mutex
	calls    map[int64]callInfo // calls into the client that have not returned yet
	callSeq  int64
	hung     chan string // receives once when a call has been inside the client for longer than callWatchdog
	hungOnce sync.Once
}

type callInfo struct {
	what  string
	since time.Time
}

// Deadlines for "the client blocks for ever".  The send lock is process-wide, so in a batch process a call can
// wait for other clients' writes; alone in a process nothing competes.  Patient on purpose: a hang is
// established once, by re-running the scenario alone (isolate.go).
var (
	callWatchdog  = 60 * time.Second // one call into the client (Send, SendAndClear, ApplyConfig, Close)
	stopWatchdog  = 45 * time.Second // process() returning after its context was cancelled
	stallProgress = 30 * time.Second // queue mode: packs queued and the consumer has not taken one for that long
)

// enter / leave bracket every call into the client.
func (sc *scen) enter(what string) int64 {
	sc.callMu.Lock()
	defer sc.callMu.Unlock()
	if sc.calls == nil {
		sc.calls = map[int64]callInfo{}
	}
	sc.callSeq++
	sc.calls[sc.callSeq] = callInfo{what, time.Now()}
	return sc.callSeq
}
func (sc *scen) leave(id int64) {
	sc.callMu.Lock()
	delete(sc.calls, id)
	sc.callMu.Unlock()
}

// watchCalls reports (once) a call that has not returned within callWatchdog.
func (sc *scen) watchCalls(stop <-chan struct{}) {
	t := time.NewTicker(500 * time.Millisecond)
	defer t.Stop()
	for {
		select {
		case <-stop:
			return
		case <-t.C:
		}
		sc.callMu.Lock()
		var worst string
		for _, c := range sc.calls {
			if d := time.Since(c.since); d > callWatchdog {
				worst = fmt.Sprintf("%s has not returned for %v", c.what, d.Round(time.Second))
			}
		}
		sc.callMu.Unlock()
		if worst != "" && sc.hung != nil {
			sc.hungOnce.Do(func() { sc.hung <- worst })
			return
		}
	}
}

// consumerStalled: queue mode, accepted packs are waiting and process() has not taken one for stallProgress.
func (sc *scen) consumerStalled() bool {
	if sc.spec.Mode != "queue" || sc.spec.Batch || sc.backlog() <= 0 || atomic.LoadInt32(&sc.gated) == 1 {
		return false
	}
	last := atomic.LoadInt64(&sc.lastMade)
	return last != 0 && time.Since(time.Unix(0, last)) > stallProgress
}

func (sc *scen) backlog() int64 { return atomic.LoadInt64(&sc.nOk) - atomic.LoadInt64(&sc.nMade) }

func (sc *scen) doSend(r *vh.Rng, sender, seq, big int) *sendRec {
	return sc.doSendLen(r, sender, seq, big, 0, -1)
}

// doSendLen: target > 0 asks for a frame of exactly that many bytes; cyc >= 0 is the position in the
// size cycle (entry point: SendFlush(false), the last of the cycle SendFlush(true)).
func (sc *scen) doSendLen(r *vh.Rng, sender, seq, big, target, cyc int) *sendRec {
	var tp *pack.TextPack
	var pcode int64
	if target > 0 {
		seed := r.U64()
		big = target - 120
		if big < 0 {
			big = 0
		}
		for try := 0; try < 4; try++ {
			tp, pcode = genPack(vh.NewRng(seed), sc.nonce, sender, seq, big)
			d := target - len(refFrame(tp, defaultLicense))
			if d == 0 || big+d < 0 {
				break
			}
			big += d
		}
	} else {
		tp, pcode = genPack(r, sc.nonce, sender, seq, big)
	}
	lic := r.PickStr(licenses)
	eff := lic
	if eff == "" {
		eff = defaultLicense
	}
	rec := &sendRec{Sender: sender, Seq: seq, Pcode: pcode, Lic: lic, Eff: eff, tp: tp}
	rec.frame = refFrame(tp, eff)
	rec.Len = len(rec.frame)
	// every public entry point for a pack, in both modes
	switch r.Intn(3) {
	case 0:
		rec.Entry = "Send"
	case 1:
		rec.Entry = "SendFlush(false)"
	default:
		rec.Entry = "SendFlush(true)"
		rec.Flush = true
	}
	if cyc >= 0 && len(sc.spec.Sizes) > 0 {
		rec.Entry, rec.Flush = "SendFlush(false)", false
		if cyc == len(sc.spec.Sizes)-1 {
			rec.Entry, rec.Flush = "SendFlush(true)", true
		}
	}
	sc.mu.Lock()
	rec.Sid = sc.nsid
	sc.nsid++
	sc.sends = append(sc.sends, rec)
	sc.mu.Unlock()
	var made int64
	p := &tpack{TextPack: tp, rec: rec, onWrite: func() {
		atomic.StoreInt64(&rec.taken, sc.clk.tick()) // the client has the pack in hand (queue mode: it left the queue)
		// only the consumer goroutine is stalled: a pack written by its sender must not wait here
		if sc.gate != nil && atomic.LoadInt32(&sc.gated) == 1 && inProcessGoroutine() {
			<-sc.gate
		}
		atomic.StoreInt64(&made, sc.clk.tick())
		atomic.AddInt64(&sc.nMade, 1)
		atomic.StoreInt64(&sc.lastMade, time.Now().UnixNano())
	}}
	var opts []wnet.TcpClientOption
	if lic != "" {
		opts = append(opts, wnet.WithLicense(lic))
	}
	if r.Chance(10) {
		opts = append(opts, wnet.WithPriority(true))
	}
	if r.Chance(10) {
		opts = append(opts, wnet.WithSecureFlag(byte(r.Intn(3))))
	}
	var err error
	rec.Inv = sc.clk.tick()
	callID := sc.enter(rec.Entry)
	defer sc.leave(callID)
	out := vh.Guard(func() {
		switch rec.Entry {
		case "Send":
			err = sc.c.Send(p, opts...)
		case "SendFlush(false)":
			err = sc.c.SendFlush(p, false, opts...)
		default:
			err = sc.c.SendFlush(p, true, opts...)
		}
	})
	rec.Ret = sc.clk.tick()
	if !out.OK() {
		sc.mu.Lock()
		sc.pan = append(sc.pan, out.Panic)
		sc.mu.Unlock()
		rec.Err, rec.Class = "panic: "+out.Panic, "panic"
	} else {
		rec.Class = errClass(err)
		if err != nil {
			rec.Err = err.Error()
			if rec.Class != "enqueue" {
				atomic.StoreInt32(&sc.failedAny, 1)
				sc.srv.sendFailed()
			}
		}
	}
	rec.madePtr = &made
	if rec.Class == "ok" {
		atomic.AddInt64(&sc.nOk, 1)
	}
	return rec
}

// parseStream splits a received byte stream into whole frames and a tail.
// bad is non-empty when the stream cannot be a sequence of frames.
func parseStream(data []byte) (frames [][]byte, tail []byte, bad string) {
	rest := data
	for len(rest) > 0 {
		if rest[0] != 10 || (len(rest) > 1 && rest[1] != 0) {
			return frames, rest, fmt.Sprintf("offset %d: frame does not start with 0a 00", len(data)-len(rest))
		}
		if len(rest) < frameHdr {
			return frames, rest, ""
		}
		l := int(binary.BigEndian.Uint32(rest[18:22]))
		if l < 2 || l > 1<<28 {
			return frames, rest, fmt.Sprintf("offset %d: implausible payload length %d", len(data)-len(rest), l)
		}
		if len(rest) < frameHdr+l {
			return frames, rest, ""
		}
		frames = append(frames, rest[:frameHdr+l])
		rest = rest[frameHdr+l:]
	}
	return frames, nil, ""
}

func (sc *scen) arrived(frame []byte) bool { return sc.srv.arrived(frame) }

func (sc *scen) waitArrived(frame []byte, d time.Duration) bool {
	deadline := time.Now().Add(d)
	for {
		if sc.arrived(frame) {
			return true
		}
		if time.Now().After(deadline) || sc.consumerStalled() {
			return false
		}
		select {
		case <-sc.srv.notify:
		case <-time.After(20 * time.Millisecond):
		}
	}
}

func runScenario(spec scenarioSpec) *observation { return runScenarioWatch(spec, nil) }

var destroyMu sync.Mutex

// liveDialFailures: failed dials of the live collector's address since the client last connected.
func liveDialFailures(log []logEvent, liveAddr string) int {
	n := 0
	for _, e := range log {
		switch {
		case e.Kind == "connected":
			n = 0
		case e.Kind == "fail" && strings.Trim(e.Host, `"`) == liveAddr:
			n++
		}
	}
	return n
}

// runScenarioWatch: hung (may be nil) receives a description when a call into the client does not return.
func runScenarioWatch(spec scenarioSpec, hung chan string) *observation {
	t0 := time.Now()
	clk := &clock{}
	lg := &hookLogger{clk: clk}
	obs := &observation{Spec: spec}
	port := 0
	if spec.ApplyConfigs > 0 {
		port = 6600
	}
	srv, err := newServerPort(clk, lg, spec.Script, port)
	if err != nil {
		obs.Infra = "listen: " + err.Error()
		return obs
	}
	sc := &scen{spec: spec, clk: clk, lg: lg, srv: srv, nonce: int32(vh.NewRng(spec.Seed ^ uint64(time.Now().UnixNano())).U64()), hung: hung}
	watchStop := make(chan struct{})
	defer close(watchStop)
	go sc.watchCalls(watchStop)
	obs.Nonce = sc.nonce
	if (len(spec.Reconfig) > 0 || spec.Stall) && spec.Mode == "queue" {
		sc.gate = make(chan struct{})
		sc.gated = 1
	}
	if len(spec.Script) > 0 && spec.Script[0].RefuseBefore > 0 {
		srv.startRefusingAtStart()
	}
	srv.wg.Add(1)
	go srv.run()

	servers := []string{srv.addr}
	var eps []*endpoint
	if len(spec.Servers) > 0 {
		var err error
		servers, eps, err = buildServerList(spec.Servers, srv.addr)
		if err != nil {
			srv.shutdown()
			obs.Infra = err.Error()
			return obs
		}
		obs.Addrs = servers
		defer func() {
			for _, e := range eps {
				e.close()
			}
		}()
	}
	opts := []oneway.OneWayTcpClientOption{oneway.WithServers(servers), oneway.WithLicense(defaultLicense),
		oneway.WithPcode(4711), oneway.WithOid(99), oneway.WithLogger(lg)}
	if spec.ApplyConfigs > 0 {
		// the other way to say where the collector is: WithWhatapTcpServer(NewWhatapTcpServerInfo(…)) — license,
		// hosts (through GetWhatapHosts: always port 6600), project code and object id in one option
		host := srv.addr[:strings.LastIndex(srv.addr, ":")]
		opts = []oneway.OneWayTcpClientOption{oneway.WithWhatapTcpServer(wnet.NewWhatapTcpServerInfo(defaultLicense, host, "6600", "4711", "verif-c06")), oneway.WithLogger(lg)}
	}
	// every second scenario hands the client a context of its own (WithContext) and stops process() by
	// cancelling it; one scenario per process stops it through Destroy()
	var ownCancel context.CancelFunc
	if spec.Seed%2 == 0 {
		ctx, cancel := context.WithCancel(context.Background())
		ownCancel = cancel
		opts = append(opts, oneway.WithContext(ctx, cancel))
	}
	if spec.Mode == "queue" {
		opts = append(opts, oneway.WithUseQueue())
		if spec.QueueCap > 0 {
			opts = append(opts, oneway.WithQueueSize(int32(spec.QueueCap)))
		}
	}
	// the three steps of GetOneWayTcpClient, on a private client
	sc.c = oneway.NewForVerif(opts...)
	if spec.TimeoutMs > 0 {
		sc.c.Timeout = time.Duration(spec.TimeoutMs) * time.Millisecond
	}
	// RequestQueue reports a refused Put through its public Failed hook, inside its lock
	sc.c.Queue.Failed = func(v interface{}) {
		if ts, ok := v.(*wnet.TcpSend); ok {
			if tp, ok := ts.Pack.(*tpack); ok && tp.rec != nil {
				atomic.StoreInt64(&tp.rec.failStamp, clk.tick())
			}
		}
	}
	_ = sc.c.Connect()
	var done <-chan struct{}
	if spec.Batch {
		// no process(): the application drains the queue itself with SendAndClear
		ch := make(chan struct{})
		close(ch)
		done = ch
	} else {
		done = sc.c.StartProcessForVerif()
	}
	var acDone chan struct{}
	if spec.ApplyConfigs > 0 {
		// the config observer's goroutine: the server list alternates between two spellings of the same collector
		acDone = make(chan struct{})
		host := srv.addr[:strings.LastIndex(srv.addr, ":")]
		ar := vh.NewRng(spec.Seed ^ 0xac)
		go func() {
			defer close(acDone)
			for k := 1; k <= spec.ApplyConfigs; k++ {
				time.Sleep(time.Duration(200+ar.Intn(1500)) * time.Microsecond)
				h := host
				if k%2 == 1 {
					h = host + "," + host
				}
				conf := &stubConf{m: map[string]string{"license": defaultLicense, "whatap.server.host": h, "pcode": "4711", "oid": "99"}}
				id := sc.enter("ApplyConfig")
				vh.Guard(func() { sc.c.ApplyConfig(conf) })
				sc.leave(id)
			}
		}()
	}

	if spec.PreIdleMs > 0 {
		time.Sleep(time.Duration(spec.PreIdleMs) * time.Millisecond)
	}
	root := vh.NewRng(spec.Seed)
	budget := 20*time.Second + time.Duration(spec.PreIdleMs)*time.Millisecond
	var wg sync.WaitGroup
	for s := 0; s < spec.Senders; s++ {
		r := root.Fork()
		wg.Add(1)
		go func(sender int, r *vh.Rng) {
			defer wg.Done()
			post := spec.Post
			for seq := 0; ; seq++ {
				if srv.scriptDone() {
					if post <= 0 {
						return
					}
					post--
				} else if seq >= spec.PreMax || time.Since(t0) > budget {
					return
				}
				big := 0
				if spec.BigAll > 0 {
					big = spec.BigAll + r.Intn(spec.BigAll/4+1)
				} else if spec.Big > 0 && r.Chance(15) {
					big = spec.Big/2 + r.Intn(spec.Big/2+1)
				}
				target, cyc := 0, -1
				if n := len(spec.Sizes); n > 0 {
					cyc = seq % n
					target = spec.Sizes[(cyc+sender)%n]
				}
				if spec.PostBig > 0 && atomic.LoadInt32(&sc.failedAny) == 1 {
					target = spec.PostBig
				}
				rec := sc.doSendLen(r, sender, seq, big, target, cyc)
				if spec.Batch && (cyc == len(spec.Sizes)-1 || len(spec.Sizes) == 0) {
					id := sc.enter("SendAndClear")
					var sacErr error
					out := vh.Guard(func() { sacErr = sc.c.SendAndClear() })
					if out.OK() && sacErr == nil {
						// the public Flush() right after it (no process() in these scenarios, one sender: nobody
						// else touches the writer): nothing is left to flush
						var n int
						var ferr error
						if o2 := vh.Guard(func() { n, ferr = sc.c.Flush() }); !o2.OK() {
							sc.mu.Lock()
							sc.pan = append(sc.pan, "Flush(): "+o2.Panic)
							sc.mu.Unlock()
						} else if n == 0 && ferr == nil {
							atomic.AddInt64(&sc.flushEmpty, 1)
						} else {
							atomic.AddInt64(&sc.flushOther, 1)
						}
					}
					sc.leave(id)
				}
				if spec.IdleMs > 0 {
					time.Sleep(time.Duration(spec.IdleMs) * time.Millisecond)
				}
				switch r.Intn(8) {
				case 0:
					runtime.Gosched()
				case 1:
					time.Sleep(time.Duration(r.Intn(300)) * time.Microsecond)
				}
				if spec.Mode == "queue" {
					// keep the consumer fed without flooding the queue (it sleeps 1.6 s whenever it finds the queue empty)
					if rec.Class == "enqueue" {
						time.Sleep(10 * time.Millisecond)
					} else if atomic.LoadInt32(&sc.gated) == 0 && !spec.Burst {
						for w := 0; w < 50 && sc.backlog() > 32; w++ {
							time.Sleep(2 * time.Millisecond)
						}
					}
				}
			}
		}(s, r)
	}
	wg.Wait()
	if acDone != nil {
		<-acDone
	}

	if sc.gate != nil {
		// reconfigure under the backlog, hand a few more packs after each change, release the consumer
		rr := root.Fork()
		seq := 0
		for _, capv := range spec.Reconfig {
			sc.c.Queue.SetCapacity(capv)
			obs.CapEvents = append(obs.CapEvents, capEvent{sc.clk.tick(), capv})
			for k := 0; k < 3; k++ {
				sc.doSend(rr, spec.Senders+1, seq, 0)
				seq++
			}
		}
		atomic.StoreInt32(&sc.gated, 0)
		close(sc.gate)
	}

	// closer: sentinel sends until one has demonstrably arrived (recovery), at most 6
	r := root.Fork()
	wait := 5 * time.Second
	if spec.Mode == "queue" {
		wait = 20 * time.Second
	}
	// (The send lock is process-wide and, since fix-D42, process() takes it at the top of every loop: with
	// dozens of clients in this one process a queue consumer can be slow to get its turn, hence the patience.)
	// Attempts continue until one pack has arrived; giving up needs at least 10 attempts spread over
	// at least 20 s (a refusal period of the script may still be running: the attempts themselves are
	// the connection failures it is waiting for), so a loaded machine cannot cause a false alarm.
	closerStart := time.Now()
	attempts := 0
	noProgress := false
	atomic.CompareAndSwapInt64(&sc.lastMade, 0, time.Now().UnixNano())
	for seq := 0; !obs.Recovered; seq++ {
		if attempts >= 10 && time.Since(closerStart) > 20*time.Second && srv.scriptDone() {
			break
		}
		if time.Since(closerStart) > 240*time.Second {
			break
		}
		if sc.consumerStalled() {
			// accepted packs are queued and process() takes none: it is blocked, or the machine is far too
			// slow; which of the two shows when it is asked to stop
			noProgress = true
			break
		}
		rec := sc.doSend(r, spec.Senders, seq, 0)
		if spec.Batch {
			id := sc.enter("SendAndClear")
			vh.Guard(func() { _ = sc.c.SendAndClear() })
			sc.leave(id)
		}
		if rec.Class == "enqueue" {
			// queue full: not an attempt, wait for room
			time.Sleep(20 * time.Millisecond)
			continue
		}
		attempts++
		if rec.Class == "ok" {
			obs.Recovered = sc.waitArrived(rec.frame, wait)
		} else {
			d := time.Duration(attempts) * 20 * time.Millisecond
			if d > 500*time.Millisecond {
				d = 500 * time.Millisecond
			}
			time.Sleep(d)
		}
	}
	obs.Attempts = attempts
	// stop the background goroutine first (so that Close below is ordered after its last access)
	switch {
	case ownCancel != nil:
		obs.StoppedBy = "WithContext-cancel"
		ownCancel()
	case spec.Seed%7 == 3:
		// Destroy() also clears the package's singleton variable (without a lock): one call at a time
		obs.StoppedBy = "Destroy"
		destroyMu.Lock()
		_ = sc.c.Destroy()
		destroyMu.Unlock()
	default:
		sc.c.StopForVerif()
	}
	select {
	case <-done:
		if noProgress && liveDialFailures(lg.snapshot(), srv.addr) >= 2 {
			// not the machine: the consumer has nothing to write to — the client keeps reporting that it cannot
			// reach the collector, which is listening (server-list scenarios)
			noProgress = false
		}
		if noProgress {
			obs.Infra = fmt.Sprintf("process() took no queued pack for %v and then stopped normally: machine too slow for this scenario", stallProgress)
		}
	case <-time.After(stopWatchdog):
		// not an infrastructure matter: the goroutine is blocked inside the client (a lock that is never
		// released, a write without deadline): the application's packs are accepted and never sent
		obs.Stuck = fmt.Sprintf("process() did not return within %v after its context was cancelled (%d accepted packs still queued)", stopWatchdog, sc.backlog())
	}
	if obs.Stuck == "" {
		id := sc.enter("Close")
		_ = sc.c.Close()
		sc.leave(id)
	}
	// the collector stand-in reads to EOF on whatever is still open
	deadline := time.Now().Add(10 * time.Second)
	for {
		srv.mu.Lock()
		n := len(srv.live)
		srv.mu.Unlock()
		if n == 0 || time.Now().After(deadline) {
			break
		}
		time.Sleep(5 * time.Millisecond)
	}
	srv.shutdown()
	srv.closeLive()
	wdone := make(chan struct{})
	go func() { srv.wg.Wait(); close(wdone) }()
	stopped := false
	select {
	case <-wdone:
		stopped = true
	case <-time.After(10 * time.Second):
	}
	for _, rec := range sc.sends {
		rec.Made = atomic.LoadInt64(rec.madePtr)
	}
	obs.Sends = sc.sends
	if stopped {
		obs.Conns = srv.takeStreams()
	} else {
		obs.Conns = srv.snapshot()
	}
	obs.Log = lg.snapshot()
	for _, e := range eps {
		obs.SpareAccepted += int(atomic.LoadInt32(&e.accepted))
	}
	if len(eps) > 0 && obs.Infra == "" {
		for _, ev := range obs.Log {
			host := strings.Trim(ev.Host, `"`)
			for _, e := range eps {
				if ev.Kind == "connected" && host == e.addr && (e.kind == "gone" || e.kind == "refused") {
					obs.Infra = "a server-list entry built to be unreachable (" + e.kind + ") accepted a connection"
				}
			}
		}
		liveFailedEver := false
		for _, ev := range obs.Log {
			if ev.Kind == "fail" && strings.Trim(ev.Host, `"`) == srv.addr {
				liveFailedEver = true
			}
		}
		if obs.SpareAccepted > 0 && liveFailedEver {
			// the dial of the live collector was reported failed (its own reset racing the dialer): the client
			// went on to the spare collector, as it should; what it delivered there is not observed
			obs.Infra = "the client failed over to the spare collector after a reported dial failure of the live one"
		}
	}
	obs.Panics = sc.pan
	obs.FlushEmpty, obs.FlushOther = atomic.LoadInt64(&sc.flushEmpty), atomic.LoadInt64(&sc.flushOther)
	srv.mu.Lock()
	if srv.infra != "" {
		obs.Infra = srv.infra
	}
	srv.mu.Unlock()
	obs.WallMs = time.Since(t0).Milliseconds()
	return obs
}
