package main

import (
	"fmt"
	"strings"
	"sync"
	"sync/atomic"
	"time"

	"github.com/whatap/golib/lang/pack"
	"github.com/whatap/golib/net/oneway"
	"verif/harness/vh"
)

// D70 — ApplyConfig (called by the config observer when the configuration file
// changes) does Close() and Connect() without the send lock when the license or
// the server list changed.  A direct sender that has copied its frame into the
// buffered writer and not flushed yet gets `wr` replaced under it: its Flush
// flushes the new, empty writer and Send returns nil — accepted, never sent.
// (A Close() landing between send()'s `conn == nil` test and
// `conn.SetWriteDeadline` makes send() panic on the nil conn; its recover()
// swallows the panic and returns a nil error: the same silent loss.)
// In queue mode process() writes and flushes without the lock, so the same
// happens to the consumer.
//
// The replay runs senders against a healthy collector stand-in while another
// goroutine calls ApplyConfig with alternating licenses, and looks for a pack
// that Send accepted and no connection received.  Closing a connection
// gracefully delivers everything flushed before, so without the race nothing
// accepted can be missing.

// stubConf is a config.Config backed by a map.
type stubConf struct{ m map[string]string }

func (c *stubConf) ApplyDefault()            {}
func (c *stubConf) GetConfFile() string      { return "" }
func (c *stubConf) Destroy()                 {}
func (c *stubConf) GetKeys() []string        { return nil }
func (c *stubConf) GetValue(k string) string { return c.m[k] }
func (c *stubConf) GetValueDef(k, def string) string {
	if v, ok := c.m[k]; ok {
		return v
	}
	return def
}
func (c *stubConf) GetBoolean(k string, def bool) bool { return def }
func (c *stubConf) GetInt(k string, def int) int32 {
	var n int
	if v, ok := c.m[k]; ok {
		if _, err := fmt.Sscanf(v, "%d", &n); err == nil {
			return int32(n)
		}
	}
	return int32(def)
}
func (c *stubConf) GetIntSet(k, def, deli string) []int32 { return nil }
func (c *stubConf) GetLong(k string, def int64) int64 {
	var n int64
	if v, ok := c.m[k]; ok {
		if _, err := fmt.Sscanf(v, "%d", &n); err == nil {
			return n
		}
	}
	return def
}
func (c *stubConf) GetStringArray(k, def, deli string) []string      { return nil }
func (c *stubConf) GetStringHashSet(k, def, deli string) []int32     { return nil }
func (c *stubConf) GetStringHashCodeSet(k, def, deli string) []int32 { return nil }
func (c *stubConf) GetFloat(k string, def float32) float32           { return def }
func (c *stubConf) SetValues(v *map[string]string)                   {}
func (c *stubConf) ToString() string                                 { return "" }
func (c *stubConf) String() string                                   { return "" }

type d70Result struct {
	Mode        string `json:"mode"`
	Rounds      int    `json:"rounds"`
	Reconfigs   int    `json:"apply_config_calls"`
	Sends       int    `json:"sends"`
	Accepted    int    `json:"accepted"`
	Received    int    `json:"received"`
	Lost        int    `json:"accepted_not_received"`
	Example     string `json:"example,omitempty"`
	Serialized  bool   `json:"apply_config_waits_for_senders,omitempty"`
	Other       string `json:"other,omitempty"`
	Connections int    `json:"connections"`
}

var d70Licenses = []string{"license-A", "license-B"}

// d70Round: senders hammer a healthy collector while ApplyConfig flips the license.
func d70Round(mode string, seed uint64, senders, reconfigs int) (res d70Result) {
	res.Mode = mode
	clk := &clock{}
	lg := &hookLogger{clk: clk}
	srv, err := newServerPort(clk, lg, nil, 6600)
	if err != nil {
		res.Other = "listen: " + err.Error()
		return
	}
	srv.wg.Add(1)
	go srv.run()
	defer func() {
		srv.shutdown()
		srv.closeLive()
	}()
	host := srv.addr[:strings.LastIndex(srv.addr, ":")]
	opts := []oneway.OneWayTcpClientOption{oneway.WithServers([]string{srv.addr}), oneway.WithLicense(d70Licenses[0]),
		oneway.WithPcode(7), oneway.WithLogger(lg)}
	if mode == "queue" {
		opts = append(opts, oneway.WithUseQueue())
	}
	c := oneway.NewForVerif(opts...)
	_ = c.Connect()
	done := c.StartProcessForVerif()

	type rec struct {
		frames [][]byte // the frame under every license that may have been in effect
		ok     bool
		id     string
	}
	var mu sync.Mutex
	var recs []*rec
	var stop int32
	var wg sync.WaitGroup
	root := vh.NewRng(seed)
	for s := 0; s < senders; s++ {
		r := root.Fork()
		wg.Add(1)
		go func(sender int, r *vh.Rng) {
			defer wg.Done()
			for seq := 0; atomic.LoadInt32(&stop) == 0 && seq < 20000; seq++ {
				tp := pack.NewTextPack()
				tp.SetPCODE(7)
				tp.SetOID(int32(seed))
				tp.SetTime(int64(sender)<<32 | int64(seq))
				tp.AddText(pack.TextRec{Div: 1, Hash: int32(seq), Text: fmt.Sprintf("d70 s%d#%d %s", sender, seq, randText(r, r.Intn(300)))})
				rc := &rec{id: fmt.Sprintf("sender %d #%d", sender, seq)}
				for _, l := range d70Licenses {
					rc.frames = append(rc.frames, refFrame(tp, l))
				}
				var e error
				o := vh.Guard(func() { e = c.Send(&tpack{TextPack: tp}) })
				rc.ok = o.OK() && e == nil
				mu.Lock()
				recs = append(recs, rc)
				mu.Unlock()
				if mode == "queue" {
					time.Sleep(20 * time.Microsecond)
				}
			}
		}(s, r)
	}
	// the reconfigurer
	rr := root.Fork()
	slow := 0
	for k := 1; k <= reconfigs; k++ {
		conf := &stubConf{m: map[string]string{"license": d70Licenses[k%2], "whatap.server.host": host, "pcode": "7"}}
		t0 := time.Now()
		vh.Guard(func() { c.ApplyConfig(conf) })
		if time.Since(t0) > 300*time.Millisecond {
			slow++
		}
		time.Sleep(time.Duration(rr.Intn(400)) * time.Microsecond)
		res.Reconfigs++
	}
	atomic.StoreInt32(&stop, 1)
	wg.Wait()
	// drain: a last pack, handed until one arrives
	sc := &scen{srv: srv}
	for k := 0; k < 50; k++ {
		tp := pack.NewTextPack()
		tp.SetPCODE(7)
		tp.SetTime(int64(999)<<32 | int64(k))
		tp.AddText(pack.TextRec{Div: 1, Hash: 1, Text: "d70 last"})
		var e error
		vh.Guard(func() { e = c.Send(&tpack{TextPack: tp}) })
		if e == nil {
			arrived := false
			for _, l := range d70Licenses {
				if sc.waitArrived(refFrame(tp, l), 3*time.Second) {
					arrived = true
					break
				}
			}
			if arrived {
				break
			}
		} else {
			time.Sleep(50 * time.Millisecond)
		}
	}
	c.StopForVerif()
	select {
	case <-done:
	case <-time.After(20 * time.Second):
	}
	_ = c.Close()
	time.Sleep(100 * time.Millisecond)
	res.Connections = len(srv.snapshot())
	for _, rc := range recs {
		res.Sends++
		if !rc.ok {
			continue
		}
		res.Accepted++
		got := false
		for _, f := range rc.frames {
			if srv.arrived(f) {
				got = true
			}
		}
		if got {
			res.Received++
		} else {
			res.Lost++
			if res.Example == "" {
				res.Example = rc.id
			}
		}
	}
	_ = slow
	return
}

// runD70 repeats rounds until a loss is seen or the budget is used.
func runD70(seed uint64, budget time.Duration) []d70Result {
	var out []d70Result
	for _, mode := range []string{"direct", "queue"} {
		t0 := time.Now()
		agg := d70Result{Mode: mode}
		for round := 0; round < 40 && time.Since(t0) < budget/2; round++ {
			r := d70Round(mode, seed+uint64(round), 4, 60)
			agg.Rounds++
			agg.Reconfigs += r.Reconfigs
			agg.Sends += r.Sends
			agg.Accepted += r.Accepted
			agg.Received += r.Received
			agg.Lost += r.Lost
			agg.Connections += r.Connections
			if agg.Example == "" {
				agg.Example = r.Example
			}
			if r.Other != "" {
				agg.Other = r.Other
			}
			if agg.Lost > 0 {
				break
			}
		}
		out = append(out, agg)
	}
	return out
}
