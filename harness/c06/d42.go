package main

import (
	"net"
	"sync"
	"sync/atomic"
	"time"

	"github.com/whatap/golib/lang/pack"
	"github.com/whatap/golib/net/oneway"
	"verif/harness/vh"
)

// D42 — the background goroutine process() is started in direct mode too and
// calls Connect() without the send lock.  If it is inside Connect (past the
// `conn != nil` test) while a direct sender connects, writes its frame into
// the buffered writer and has not flushed yet, process() replaces `wr`; the
// sender's Flush then flushes the *new*, empty writer and Send returns nil:
// the frame is accepted and silently lost on two healthy connections.
//
// The replay forces that schedule on the unchanged client through public
// extension points only: the server list [dead, live] and a Logger that blocks.
//   1. process() starts with conn == nil, dials the dead address, and blocks in
//      Logger.Errorf("connecting to … failed") — it is now inside Connect.
//   2. the sender calls Send(big frame): conn == nil → Connect → dead address
//      fails → live address connects → conn, wr assigned → Logger.Infof("Connected").
//      From one of these two log calls the harness releases process() and
//      spins for a swept delay.
//   3. process() dials the live address and assigns conn, wr.  When that lands
//      between the sender's wr.Write and wr.Buffered()/Flush, the frame is gone.
// The frame is just below the 2 MiB buffer so that copying it takes ~100 µs;
// the delay is swept until the loss is seen (typically a handful of trials).

type d42Result struct {
	Trials     int    `json:"trials"`
	Hit        bool   `json:"hit"`
	Variant    string `json:"variant,omitempty"`
	DelayUs    int    `json:"delay_us,omitempty"`
	FrameLen   int    `json:"frame_len,omitempty"`
	Conns      int    `json:"connections,omitempty"`
	Detail     string `json:"detail,omitempty"`
	Other      string `json:"other,omitempty"` // anything else that went wrong in a trial
	Serialized int    `json:"trials_where_sender_waited_for_process,omitempty"`
}

func deadAddr() string {
	ln, err := net.Listen("tcp", "127.0.0.1:0")
	if err != nil {
		return "127.0.0.1:1"
	}
	a := ln.Addr().String()
	ln.Close()
	return a
}

func spin(d time.Duration) {
	t := time.Now()
	for time.Since(t) < d {
	}
}

type d42Trial struct {
	lost       bool
	sendErr    string
	conns      int
	frameLen   int
	parkedOK   bool
	bgSeen     bool
	other      string
	serialized bool
}

func d42Once(variant string, delay time.Duration, seed uint64) d42Trial {
	var res d42Trial
	clk := &clock{}
	lg := &hookLogger{clk: clk}
	srv, err := newServer(clk, lg, nil)
	if err != nil {
		res.other = "listen: " + err.Error()
		return res
	}
	srv.wg.Add(1)
	go srv.run()
	defer func() {
		srv.shutdown()
		srv.closeLive()
	}()

	parked := make(chan struct{})
	release := make(chan struct{})
	bgConnected := make(chan struct{})
	var parkOnce, relOnce, bgOnce sync.Once
	var armed int32 = 1
	doRelease := func() { relOnce.Do(func() { close(release) }) }
	lg.onFail = func(fromProcess bool) {
		if fromProcess {
			if atomic.LoadInt32(&armed) == 1 {
				first := false
				parkOnce.Do(func() { first = true; close(parked) })
				if first {
					<-release
				}
			}
			return
		}
		if variant == "at-fail" {
			doRelease()
			spin(delay)
		}
	}
	lg.onConn = func(fromProcess bool) {
		if fromProcess {
			bgOnce.Do(func() { close(bgConnected) })
			return
		}
		if variant == "at-connected" {
			doRelease()
			spin(delay)
		}
	}

	c := oneway.NewForVerif(oneway.WithServers([]string{deadAddr(), srv.addr}), oneway.WithLicense(defaultLicense),
		oneway.WithPcode(4711), oneway.WithLogger(lg))
	done := c.StartProcessForVerif() // conn == nil: process() enters Connect at once
	defer func() {
		atomic.StoreInt32(&armed, 0)
		doRelease()
		c.StopForVerif()
		_ = done
		_ = c.Close()
	}()
	select {
	case <-parked:
		res.parkedOK = true
	case <-time.After(20 * time.Second):
		res.other = "process() never reached the failed-dial log call"
		return res
	}

	r := vh.NewRng(seed)
	tp := pack.NewTextPack()
	tp.SetPCODE(7)
	tp.SetTime(1)
	tp.AddText(pack.TextRec{Div: 1, Hash: 42, Text: randText(r, 1900*1024+r.Intn(100*1024))})
	frame := refFrame(tp, defaultLicense)
	res.frameLen = len(frame)
	var sendErr error
	var o vh.Outcome
	sent := make(chan struct{})
	go func() {
		defer close(sent)
		o = vh.Guard(func() { sendErr = c.Send(&tpack{TextPack: tp}) })
	}()
	select {
	case <-sent:
	case <-time.After(400 * time.Millisecond):
		// the sender waits for process() to leave Connect: the two are serialised
		// (process() holds the send lock around Connect) — the repaired behaviour
		res.serialized = true
		doRelease()
		<-sent
	}
	if !o.OK() {
		res.other = "Send panicked: " + o.Panic
		return res
	}
	if sendErr != nil {
		res.sendErr = sendErr.Error()
	}
	doRelease()
	select {
	case <-bgConnected:
		res.bgSeen = true
	case <-time.After(20 * time.Second):
	}
	// a second, small pack: shows which connection the client ended up with and pushes nothing else
	tp2 := pack.NewTextPack()
	tp2.SetPCODE(7)
	tp2.SetTime(2)
	tp2.AddText(pack.TextRec{Div: 1, Hash: 43, Text: "after"})
	f2 := refFrame(tp2, defaultLicense)
	var err2 error
	vh.Guard(func() { err2 = c.Send(&tpack{TextPack: tp2}) })
	sc := &scen{srv: srv}
	if err2 == nil {
		sc.waitArrived(f2, 20*time.Second)
	}
	got := sc.arrived(frame)
	if !got && sendErr == nil {
		// give the kernel time: 2 MiB on loopback
		got = sc.waitArrived(frame, 3*time.Second)
	}
	res.conns = len(srv.snapshot())
	res.lost = sendErr == nil && !got
	return res
}

// runD42 sweeps release point and delay until the accepted frame is lost.
func runD42(maxTrials int, budget time.Duration, seed uint64) d42Result {
	out := d42Result{}
	t0 := time.Now()
	delays := []int{0, 20, 50, 100, 150, 200, 300, 400, 600, 800, 1200}
	variants := []string{"at-connected", "at-fail"}
	for i := 0; i < maxTrials && time.Since(t0) < budget; i++ {
		v := variants[i%2]
		d := delays[(i/2)%len(delays)]
		tr := d42Once(v, time.Duration(d)*time.Microsecond, seed+uint64(i))
		out.Trials++
		if tr.other != "" {
			out.Other = tr.other
		}
		if tr.serialized {
			out.Serialized++
			if out.Serialized >= 3 && !tr.lost {
				return out
			}
		}
		if tr.lost {
			out.Hit, out.Variant, out.DelayUs, out.FrameLen, out.Conns = true, v, d, tr.frameLen, tr.conns
			out.Detail = "Send returned nil for a frame that no connection received; both connections stayed open and healthy"
			return out
		}
	}
	return out
}
