package main

import (
	"crypto/sha1"
	"encoding/binary"
	"fmt"
	"io"
	"net"
	"os"
	"sync"
	"sync/atomic"
	"time"
)

// directive says what the collector stand-in does with the i-th accepted
// connection.
type directive struct {
	// RefuseBefore: before listening for this connection the listener is
	// closed until the client has logged that many failed connection attempts.
	RefuseBefore int `json:"refuse_before,omitempty"`
	// Close: read Frames whole frames plus Extra bytes of the next one
	// (Extra = -1: all but the last byte), then close.  Frames=0, Extra=0
	// closes before any byte is read.
	Close  bool `json:"close,omitempty"`
	Frames int  `json:"frames,omitempty"`
	Extra  int  `json:"extra,omitempty"`
	Rst    bool `json:"rst,omitempty"`
	// Stall: read Frames whole frames, then stop reading — the socket buffers fill and the client's
	// write deadline expires in the middle of a frame — until a send has reported an error (or
	// stallCap has passed), then read on, on the same connection, to its end.  The connection is
	// never closed by the collector.
	Stall bool `json:"stall,omitempty"`
}

const stallCap = 20 * time.Second

// connObs is what the collector stand-in saw on one accepted connection.
type connObs struct {
	Idx     int   `json:"idx"`
	Faulted bool  `json:"faulted"` // closed by the fault script, or stalled until a write timed out
	Stalled bool  `json:"stalled,omitempty"`
	Resumed int64 `json:"resumed_stamp,omitempty"`
	Bytes   int   `json:"bytes"`
	EOF     bool  `json:"eof"` // the client closed it
	Accept  int64 `json:"accept_stamp"`
	data    []byte
	parsed  int  // data[:parsed] has been split into whole frames (arrival index)
	noParse bool // the stream stopped looking like frames
}

type server struct {
	clk    *clock
	log    *hookLogger
	script []directive
	addr   string

	mu         sync.Mutex
	ln         net.Listener
	conns      []*connObs
	live       map[int]net.Conn
	wg         sync.WaitGroup
	stop       chan struct{}
	stopped    int32
	scriptEnd  int32 // 1 once every scripted directive has been carried out
	executed   int32 // directives carried out
	infra      string
	notify     chan struct{}     // poked whenever data arrives
	seen       map[[20]byte]bool // sha1 of every whole frame received so far, on any connection
	refuseBase int64             // log.fails when the current refusal period began (run() only, or before run starts)
	resume     chan struct{}     // closed when a send has reported an error (stall directives wait for it)
	resumeOnce sync.Once
}

// sendFailed: a send reported an error (the stalled collector may read on).
func (s *server) sendFailed() { s.resumeOnce.Do(func() { close(s.resume) }) }

func newServer(clk *clock, log *hookLogger, script []directive) (*server, error) {
	return newServerPort(clk, log, script, 0)
}

// newServerPort: port 0 = any.  (ApplyConfig can only ever point the client at port 6600:
// net.GetWhatapHosts ignores the configured port, so reconfiguration scenarios listen there.)
func newServerPort(clk *clock, log *hookLogger, script []directive, port int) (*server, error) {
	// Every collector stand-in gets its own loopback address (127.a.b.c): scripts that refuse
	// connections close and re-open the listener on the same port, and with many scenarios in
	// flight a port that is free for a moment must not be handed to another scenario's listener
	// (a foreign client would connect and deliver its frames here).
	ln, err := net.Listen("tcp", fmt.Sprintf("%s:%d", uniqueLoopback(), port))
	if err != nil && port == 0 {
		ln, err = net.Listen("tcp", "127.0.0.1:0")
	}
	if err != nil {
		return nil, err
	}
	s := &server{clk: clk, log: log, script: script, ln: ln, addr: ln.Addr().String(),
		live: map[int]net.Conn{}, seen: map[[20]byte]bool{}, stop: make(chan struct{}), notify: make(chan struct{}, 1),
		resume: make(chan struct{})}
	if len(script) == 0 {
		atomic.StoreInt32(&s.scriptEnd, 1)
	}
	return s, nil
}

var loopbackCounter uint32

func uniqueLoopback() string {
	// (pid, counter) -> address: processes of one run (the scenarios re-run one per process listen on the
	// fixed port 6600 for ApplyConfig) get different addresses as long as their pids differ by less than 120*250
	n := atomic.AddUint32(&loopbackCounter, 1)
	pid := uint32(os.Getpid())
	a := 1 + (pid+n/250)%120 // never 127.0.x.x
	return fmt.Sprintf("127.%d.%d.%d", a, (pid/120)%250, 1+n%250)
}

func (s *server) poke() {
	select {
	case s.notify <- struct{}{}:
	default:
	}
}

func (s *server) scriptDone() bool { return atomic.LoadInt32(&s.scriptEnd) == 1 }

func (s *server) markExecuted(i int) {
	if i < len(s.script) {
		if int(atomic.AddInt32(&s.executed, 1)) == len(s.script) {
			atomic.StoreInt32(&s.scriptEnd, 1)
		}
	}
}

func (s *server) run() {
	defer s.wg.Done()
	for i := 0; ; i++ {
		var d directive
		if i < len(s.script) {
			d = s.script[i]
		}
		if d.RefuseBefore > 0 {
			// the listener was closed when the previous connection was faulted (or at start)
			base := s.refuseBase
			for atomic.LoadInt64(&s.log.fails) < base+int64(d.RefuseBefore) {
				select {
				case <-s.stop:
					return
				case <-time.After(2 * time.Millisecond):
				}
			}
			var ln net.Listener
			var err error
			for k := 0; k < 200; k++ {
				ln, err = net.Listen("tcp", s.addr)
				if err == nil {
					break
				}
				time.Sleep(5 * time.Millisecond)
			}
			if err != nil {
				s.mu.Lock()
				s.infra = "cannot re-listen on " + s.addr + ": " + err.Error()
				s.mu.Unlock()
				atomic.StoreInt32(&s.scriptEnd, 1)
				return
			}
			s.mu.Lock()
			s.ln = ln
			s.mu.Unlock()
		}
		s.mu.Lock()
		ln := s.ln
		s.mu.Unlock()
		c, err := ln.Accept()
		if err != nil {
			return
		}
		obs := &connObs{Idx: i, Accept: s.clk.tick()}
		s.mu.Lock()
		s.conns = append(s.conns, obs)
		s.live[i] = c
		s.mu.Unlock()
		if d.Stall {
			s.mu.Lock()
			obs.Stalled = true
			s.mu.Unlock()
			s.cut(c, obs, directive{Frames: d.Frames})
			// a smaller receive buffer from here on: the client's Flush blocks after a few hundred KiB instead
			// of several MiB (not smaller than the loopback segment size, or the window closes for good)
			if tc, ok := c.(*net.TCPConn); ok {
				tc.SetReadBuffer(128 * 1024)
			}
			// until the client has given this connection up: a send reported an error (direct mode), or the
			// client connected again (queue mode: process() reports nothing, it closes and re-dials)
			timedOut := false
			// (the client has logged more connections than this collector has accepted: one is waiting in the backlog)
			s.mu.Lock()
			base := int64(len(s.conns))
			s.mu.Unlock()
			t0 := time.Now()
		wait:
			for time.Since(t0) < stallCap {
				select {
				case <-s.resume:
					timedOut = true
					break wait
				case <-s.stop:
					break wait
				case <-time.After(2 * time.Millisecond):
				}
				if atomic.LoadInt64(&s.log.connected) > base {
					timedOut = true
					break
				}
			}
			if tc, ok := c.(*net.TCPConn); ok {
				tc.SetReadBuffer(4 << 20)
			}
			s.mu.Lock()
			obs.Faulted = timedOut // a write deadline expired on it: the fault of this directive
			obs.Resumed = s.clk.tick()
			s.mu.Unlock()
			s.markExecuted(i)
			s.wg.Add(1)
			go s.keep(c, obs)
			continue
		}
		if !d.Close {
			s.markExecuted(i)
			s.wg.Add(1)
			go s.keep(c, obs)
			continue
		}
		// faulted connection: handled inline so that the next directive's
		// refusal starts before the client can notice the close
		s.cut(c, obs, d)
		nextRefuses := i+1 < len(s.script) && s.script[i+1].RefuseBefore > 0
		if nextRefuses {
			s.refuseBase = atomic.LoadInt64(&s.log.fails)
			ln.Close()
		}
		if d.Rst {
			if tc, ok := c.(*net.TCPConn); ok {
				tc.SetLinger(0)
			}
		}
		c.Close()
		s.mu.Lock()
		obs.Faulted = true
		delete(s.live, i)
		s.mu.Unlock()
		s.markExecuted(i)
		s.poke()
	}
}

func (s *server) startRefusingAtStart() {
	s.refuseBase = atomic.LoadInt64(&s.log.fails)
	s.ln.Close()
}

func (s *server) appendData(obs *connObs, b []byte) {
	s.mu.Lock()
	obs.data = append(obs.data, b...)
	obs.Bytes = len(obs.data)
	// index whole frames as they complete (so that waiting for one frame never rescans the streams)
	for !obs.noParse {
		rest := obs.data[obs.parsed:]
		if len(rest) < frameHdr {
			break
		}
		if rest[0] != 10 || rest[1] != 0 {
			obs.noParse = true
			break
		}
		l := int(binary.BigEndian.Uint32(rest[18:22]))
		if l < 0 || l > 1<<28 {
			obs.noParse = true
			break
		}
		if len(rest) < frameHdr+l {
			break
		}
		s.seen[sha1.Sum(rest[:frameHdr+l])] = true
		obs.parsed += frameHdr + l
	}
	s.mu.Unlock()
	s.poke()
}

func (s *server) keep(c net.Conn, obs *connObs) {
	defer s.wg.Done()
	buf := make([]byte, 256*1024)
	for {
		n, err := c.Read(buf)
		if n > 0 {
			s.appendData(obs, buf[:n])
		}
		if err != nil {
			s.mu.Lock()
			obs.EOF = err == io.EOF
			delete(s.live, obs.Idx)
			s.mu.Unlock()
			c.Close()
			s.poke()
			return
		}
	}
}

// cut reads exactly d.Frames whole frames and d.Extra bytes of the next one.
func (s *server) cut(c net.Conn, obs *connObs, d directive) {
	readN := func(n int) bool {
		buf := make([]byte, 64*1024)
		for n > 0 {
			k := n
			if k > len(buf) {
				k = len(buf)
			}
			c.SetReadDeadline(time.Now().Add(120 * time.Second))
			m, err := c.Read(buf[:k])
			if m > 0 {
				s.appendData(obs, buf[:m])
				n -= m
			}
			if err != nil {
				return false
			}
			select {
			case <-s.stop:
				return false
			default:
			}
		}
		return true
	}
	for f := 0; f < d.Frames; f++ {
		start := len(obs.data)
		if !readN(frameHdr) {
			return
		}
		l := int(binary.BigEndian.Uint32(obs.data[start+18:]))
		if !readN(l) {
			return
		}
	}
	if d.Extra == 0 {
		return
	}
	start := len(obs.data)
	want := d.Extra
	if want > 0 && want <= frameHdr {
		readN(want)
		return
	}
	if !readN(frameHdr) {
		return
	}
	l := int(binary.BigEndian.Uint32(obs.data[start+18:]))
	total := frameHdr + l
	if want < 0 || want >= total {
		want = total - 1
	}
	readN(want - frameHdr)
}

func (s *server) shutdown() {
	if atomic.CompareAndSwapInt32(&s.stopped, 0, 1) {
		close(s.stop)
	}
	s.mu.Lock()
	ln := s.ln
	s.mu.Unlock()
	ln.Close()
}

// closeLive force-closes what is still open (after the client has been closed, as a fallback).
func (s *server) closeLive() {
	s.mu.Lock()
	for _, c := range s.live {
		c.Close()
	}
	s.mu.Unlock()
}

func (s *server) snapshot() []*connObs {
	s.mu.Lock()
	defer s.mu.Unlock()
	out := make([]*connObs, len(s.conns))
	for i, c := range s.conns {
		cp := *c
		cp.data = append([]byte(nil), c.data...)
		out[i] = &cp
	}
	return out
}

// takeStreams: like snapshot, but the observation takes the received bytes over instead of copying
// them.  Only after the server has stopped (shutdown, closeLive, wg.Wait): nothing appends any more.
func (s *server) takeStreams() []*connObs {
	s.mu.Lock()
	defer s.mu.Unlock()
	out := make([]*connObs, len(s.conns))
	for i, c := range s.conns {
		cp := *c
		c.data, c.noParse = nil, true
		out[i] = &cp
	}
	return out
}

// arrived: has this frame been received whole on some connection?
func (s *server) arrived(frame []byte) bool {
	k := sha1.Sum(frame)
	s.mu.Lock()
	defer s.mu.Unlock()
	return s.seen[k]
}
