package main

import (
	"bytes"
	"crypto/sha1"
	"fmt"
	"sync"
	"sync/atomic"
	"time"

	"github.com/whatap/golib/lang/pack"
	"github.com/whatap/golib/net/oneway"
	"verif/harness/vh"
)

// D71 — the public Close() (TcpClient interface) takes no lock.  Called by the application while
// a sender is inside send(), it sets conn = nil between send()'s `conn == nil` test and
// `conn.SetWriteDeadline`: the nil dereference panics, send()'s recover() swallows the panic and
// send() returns a nil error; Flush flushes nothing; Send returns nil for a pack that was never written.
// The replay: senders against a healthy collector stand-in while another goroutine calls Close().
// (Closing gracefully delivers everything flushed before, so without this path nothing accepted can be missing.)

type d71Result struct {
	Rounds   int    `json:"rounds"`
	Closes   int    `json:"close_calls"`
	Sends    int    `json:"sends"`
	Accepted int    `json:"accepted"`
	Received int    `json:"received"`
	Lost     int    `json:"accepted_not_received"`
	Example  string `json:"example,omitempty"`
	Other    string `json:"other,omitempty"`
	// every connection's stream: whole frames of handed packs, none twice, then at most a strict prefix of one
	Conns         int    `json:"connections"`
	Frames        int    `json:"whole_frames"`
	Broken        int    `json:"broken_streams"`
	BrokenExample string `json:"broken_example,omitempty"`
}

const keyD71 = "healthy_no_loss:close-race"

func d71Round(seed uint64, senders, closes int) (res d71Result) {
	clk := &clock{}
	lg := &hookLogger{clk: clk}
	srv, err := newServer(clk, lg, nil)
	if err != nil {
		res.Other = "listen: " + err.Error()
		return
	}
	srv.wg.Add(1)
	go srv.run()
	defer func() {
		srv.shutdown()
		srv.closeLive()
	}()
	c := oneway.NewForVerif(oneway.WithServers([]string{srv.addr}), oneway.WithLicense(defaultLicense), oneway.WithPcode(7), oneway.WithLogger(lg))
	_ = c.Connect()
	done := c.StartProcessForVerif()
	type rec struct {
		frame []byte
		ok    bool
		id    string
	}
	var mu sync.Mutex
	var recs []*rec
	var stop int32
	var wg sync.WaitGroup
	root := vh.NewRng(seed)
	for s := 0; s < senders; s++ {
		r := root.Fork()
		wg.Add(1)
		go func(sender int, r *vh.Rng) {
			defer wg.Done()
			for seq := 0; atomic.LoadInt32(&stop) == 0 && seq < 20000; seq++ {
				tp := pack.NewTextPack()
				tp.SetPCODE(7)
				tp.SetOID(int32(seed))
				tp.SetTime(int64(sender)<<32 | int64(seq))
				tp.AddText(pack.TextRec{Div: 1, Hash: int32(seq), Text: fmt.Sprintf("d71 s%d#%d %s", sender, seq, randText(r, r.Intn(200)))})
				rc := &rec{id: fmt.Sprintf("sender %d #%d", sender, seq), frame: refFrame(tp, defaultLicense)}
				var e error
				o := vh.Guard(func() { e = c.Send(&tpack{TextPack: tp}) })
				rc.ok = o.OK() && e == nil
				mu.Lock()
				recs = append(recs, rc)
				mu.Unlock()
			}
		}(s, r)
	}
	rr := root.Fork()
	for k := 0; k < closes; k++ {
		vh.Guard(func() { _ = c.Close() })
		res.Closes++
		time.Sleep(time.Duration(rr.Intn(300)) * time.Microsecond)
	}
	atomic.StoreInt32(&stop, 1)
	wg.Wait()
	sc := &scen{srv: srv}
	for k := 0; k < 50; k++ {
		tp := pack.NewTextPack()
		tp.SetPCODE(7)
		tp.SetTime(int64(999)<<32 | int64(k))
		tp.AddText(pack.TextRec{Div: 1, Hash: 1, Text: "d71 last"})
		var e error
		vh.Guard(func() { e = c.Send(&tpack{TextPack: tp}) })
		if e == nil && sc.waitArrived(refFrame(tp, defaultLicense), 3*time.Second) {
			break
		}
		time.Sleep(20 * time.Millisecond)
	}
	c.StopForVerif()
	select {
	case <-done:
	case <-time.After(20 * time.Second):
	}
	_ = c.Close()
	time.Sleep(100 * time.Millisecond)
	// whole frames under the Close() race (C06.close_race_whole_frames)
	srv.shutdown()
	srv.closeLive()
	srv.wg.Wait()
	known := map[[20]byte]*rec{}
	for _, rc := range recs {
		known[sha1.Sum(rc.frame)] = rc
	}
	seenOnce := map[[20]byte]bool{}
	broken := func(f string, a ...interface{}) {
		res.Broken++
		if res.BrokenExample == "" {
			res.BrokenExample = fmt.Sprintf(f, a...)
		}
	}
	for _, cn := range srv.snapshot() {
		res.Conns++
		frames, tail, bad := parseStream(cn.data)
		if bad != "" {
			broken("connection %d: %s", cn.Idx, bad)
			continue
		}
		for pos, f := range frames {
			k := sha1.Sum(f)
			if _, ok := known[k]; !ok && !bytes.Contains(f, []byte("d71 last")) {
				broken("connection %d frame %d is not the frame of any pack handed to the client", cn.Idx, pos)
			} else if seenOnce[k] {
				broken("connection %d frame %d (%s) was received twice", cn.Idx, pos, known[k].id)
			}
			seenOnce[k] = true
			res.Frames++
		}
		if len(tail) > 0 {
			ok := false
			for _, rc := range recs {
				if len(tail) < len(rc.frame) && bytes.Equal(rc.frame[:len(tail)], tail) {
					ok = true
					break
				}
			}
			if !ok {
				broken("connection %d ends with %d bytes that are not the beginning of a handed frame", cn.Idx, len(tail))
			}
		}
	}
	for _, rc := range recs {
		res.Sends++
		if !rc.ok {
			continue
		}
		res.Accepted++
		if srv.arrived(rc.frame) {
			res.Received++
		} else {
			res.Lost++
			if res.Example == "" {
				res.Example = rc.id
			}
		}
	}
	return
}

func runD71(seed uint64, budget time.Duration) d71Result {
	t0 := time.Now()
	agg := d71Result{}
	for round := 0; round < 40 && time.Since(t0) < budget; round++ {
		r := d71Round(seed+uint64(round), 4, 300)
		agg.Rounds++
		agg.Closes += r.Closes
		agg.Sends += r.Sends
		agg.Accepted += r.Accepted
		agg.Received += r.Received
		agg.Lost += r.Lost
		agg.Conns += r.Conns
		agg.Frames += r.Frames
		agg.Broken += r.Broken
		if agg.BrokenExample == "" {
			agg.BrokenExample = r.BrokenExample
		}
		if agg.Example == "" {
			agg.Example = r.Example
		}
		if r.Other != "" {
			agg.Other = r.Other
		}
		if agg.Lost > 0 || agg.Broken > 0 {
			break
		}
	}
	return agg
}
