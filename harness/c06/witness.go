package main

import (
	"fmt"
	"sort"
	"strconv"
	"strings"
)

// Trace inclusion: the observation is turned into the call-level events the
// driver understands (see lean/Driver/C06.lean); the driver expands them into
// the model's atomic actions, checks every guard, and answers with what each
// connection carried according to the model.  What the collector stand-in
// really received must be a prefix of that, and all of it on a connection that
// stayed healthy.
//
// Frame lengths are scaled down to at most 40 bytes (the model is generic in
// the frames; what is compared is which frames, in which order, on which
// connection, and whether a stream ends inside a frame).

const scaleMax = 40

type witness struct {
	line   string
	msid   map[int]int // real sid -> model sid
	scaled map[int]int // real sid -> scaled length
	skip   string
}

func scaledLen(l int) int {
	if l > scaleMax {
		return scaleMax
	}
	return l
}

func buildWitness(o *observation, an *analysis) *witness { return buildWitnessMode(o, an, false) }

// qev is one event of a queue-mode run with the window in which it really happened.  The queue in
// the Lean machine is C11's model (a Put is refused exactly when the queue is full, a take needs a
// non-empty queue), so the witness has to order Puts and takes as they really happened.  The harness
// sees a refused Put inside the queue's lock (RequestQueue.Failed), capacity changes and the
// consumer's own events exactly, but an accepted Put only between the invocation and the return of
// Send, and a take only between the end of the consumer's previous item and the moment it starts to
// serialise the pack.  orderQueue picks, greedily by deadline, an order consistent with all windows
// in which every Put / refusal / take is possible.
type qev struct {
	kind   string // put | fail | take | cap | bg | reconf
	lo, hi int64
	rec    *sendRec
	n      int
	ok     bool
	placed bool
}

func orderQueue(evs []*qev, cap0 int) ([]*qev, string) {
	sort.SliceStable(evs, func(i, j int) bool { return evs[i].hi < evs[j].hi })
	var out []*qev
	size, capv := 0, cap0
	room := func() bool { return capv <= 0 || size < capv }
	place := func(e *qev) {
		e.placed = true
		out = append(out, e)
		switch e.kind {
		case "put":
			size++
		case "take":
			size--
		case "cap":
			capv = e.n
		}
	}
	// the next unplaced event of a kind whose window has opened before `now`; takes strictly in their own order
	pull := func(kind string, now int64) *qev {
		var best *qev
		for _, e := range evs {
			if e.placed || e.kind != kind {
				continue
			}
			if kind == "take" {
				if e.lo < now {
					return e
				}
				return nil
			}
			if e.lo < now && (best == nil || e.hi < best.hi) {
				best = e
			}
		}
		return best
	}
	for _, e := range evs {
		if e.placed {
			continue
		}
		switch e.kind {
		case "put":
			for !room() {
				t := pull("take", e.hi)
				if t == nil {
					return nil, "an accepted Put with the queue full and no take that could have preceded it"
				}
				place(t)
			}
		case "fail":
			for room() {
				p := pull("put", e.hi)
				if p == nil {
					return nil, "a refused Put with room in the queue and no accepted Put that could have preceded it"
				}
				place(p)
			}
		case "take":
			if size == 0 {
				p := pull("put", e.hi)
				if p == nil {
					return nil, "a take from an empty queue"
				}
				place(p)
			}
		}
		place(e)
	}
	return out, ""
}

// buildWitnessMode builds the driver line of an observation (`early` is kept for the callers' retry logic).
func buildWitnessMode(o *observation, an *analysis, early bool) *witness {
	w := &witness{msid: map[int]int{}, scaled: map[int]int{}}
	for _, p := range o.Panics {
		w.skip = "panic: " + p
		return w
	}
	if o.Spec.Batch {
		w.skip = "SendAndClear batches are outside the model (decided on the received streams only)"
		return w
	}
	minInv := int64(1 << 62)
	for _, s := range o.Sends {
		w.scaled[s.Sid] = scaledLen(s.Len)
		if s.Inv < minInv {
			minInv = s.Inv
		}
	}
	queue := o.Spec.Mode == "queue"
	okfail := func(b bool) string {
		if b {
			return "ok"
		}
		return "fail"
	}
	cfgThread := o.Spec.Senders + 7
	cap0 := o.Spec.QueueCap
	if cap0 == 0 {
		cap0 = 1000
	}
	var evs []string
	next := 1 // the model numbers sends from 1 (0 is the queue's "nothing")
	assign := func(s *sendRec) {
		w.msid[s.Sid] = next
		next++
	}
	if queue {
		var all []*qev
		var takes []*sendRec
		for _, s := range o.Sends {
			switch s.Class {
			case "ok":
				all = append(all, &qev{kind: "put", lo: s.Inv, hi: s.Ret, rec: s})
				if s.Made != 0 {
					takes = append(takes, s)
				}
			case "enqueue":
				if s.failStamp != 0 {
					all = append(all, &qev{kind: "fail", lo: s.failStamp, hi: s.failStamp, rec: s})
				} else {
					all = append(all, &qev{kind: "fail", lo: s.Inv, hi: s.Ret, rec: s})
				}
			default:
				w.skip = "queue-mode send with result class " + s.Class
				return w
			}
		}
		var pside []int64 // the consumer's own exactly-stamped events (its connects)
		for _, e := range o.Log {
			kind := "bg"
			if e.Apply {
				kind = "reconf"
			}
			// the consumer's own connects are ordered exactly with its takes; a reconfiguration holds the
			// send lock, which the consumer takes right after the take — the witness keeps a take (and the
			// send that goes with it in the model) on its side of either
			pside = append(pside, e.Stamp)
			all = append(all, &qev{kind: kind, lo: e.Stamp, hi: e.Stamp, ok: e.Kind == "connected"})
		}
		for _, c := range o.CapEvents {
			all = append(all, &qev{kind: "cap", lo: c.Stamp, hi: c.Stamp, n: c.Cap})
		}
		sort.Slice(takes, func(i, j int) bool { return takes[i].taken < takes[j].taken })
		for k, s := range takes {
			hi := s.taken
			if hi == 0 {
				hi = s.Made
			}
			lo := int64(0)
			if k > 0 {
				lo = takes[k-1].Made // the consumer finishes one item before it takes the next
			}
			for _, ps := range pside {
				if ps < hi && ps > lo {
					lo = ps
				}
			}
			all = append(all, &qev{kind: "take", lo: lo, hi: hi, rec: s})
		}
		ordered, why := orderQueue(all, cap0)
		if why != "" {
			w.skip = "the order of concurrent Puts and takes could not be reconstructed: " + why
			return w
		}
		// FIFO: the k-th accepted Put is the k-th pack taken; Puts never taken follow in their own order
		var putOrder []*sendRec
		putOrder = append(putOrder, takes...)
		var rest []*sendRec
		for _, e := range ordered {
			if e.kind == "put" && e.rec.Made == 0 {
				rest = append(rest, e.rec)
			}
		}
		putOrder = append(putOrder, rest...)
		pi := 0
		for i, e := range ordered {
			switch e.kind {
			case "bg":
				evs = append(evs, "b,"+okfail(e.ok))
			case "reconf":
				evs = append(evs, fmt.Sprintf("r,%d,%s", cfgThread, okfail(e.ok)))
			case "cap":
				evs = append(evs, fmt.Sprintf("c,%d", e.n))
			case "put":
				s := putOrder[pi]
				pi++
				assign(s)
				evs = append(evs, fmt.Sprintf("q,%d,%d,ok", s.Sender+1, w.scaled[s.Sid]))
			case "fail":
				assign(e.rec)
				evs = append(evs, fmt.Sprintf("q,%d,%d,fail", e.rec.Sender+1, w.scaled[e.rec.Sid]))
			case "take":
				// the consumer's outcome is not reported by the client; it shows in what it does next:
				// a (re)connect of its own right after this pack means the pack's write or flush failed
				failed := false
				for j := i + 1; j < len(ordered); j++ {
					if ordered[j].kind == "take" {
						break
					}
					if ordered[j].kind == "bg" {
						failed = true
						break
					}
				}
				evs = append(evs, "p,"+okfail(!failed))
			}
		}
	} else {
		type item struct {
			stamp int64
			kind  string
			s     *sendRec
			ok    bool
		}
		var items []item
		for _, s := range o.Sends {
			if s.Made == 0 {
				w.skip = "a direct send whose pack was never serialised"
				return w
			}
			items = append(items, item{stamp: s.Made, kind: "send", s: s})
		}
		for _, e := range o.Log {
			switch {
			case e.Apply:
				items = append(items, item{stamp: e.Stamp, kind: "reconf", ok: e.Kind == "connected"})
			case e.Process || e.Stamp < minInv:
				items = append(items, item{stamp: e.Stamp, kind: "bg", ok: e.Kind == "connected"})
			}
		}
		sort.SliceStable(items, func(i, j int) bool { return items[i].stamp < items[j].stamp })
		for _, it := range items {
			switch it.kind {
			case "bg":
				evs = append(evs, "b,"+okfail(it.ok))
			case "reconf":
				evs = append(evs, fmt.Sprintf("r,%d,%s", cfgThread, okfail(it.ok)))
			case "send":
				s := it.s
				out := s.Class
				switch out {
				case "ok", "connect", "write", "flush":
				case "deadline":
					out = "write"
				default:
					w.skip = "direct send with result class " + out
					return w
				}
				assign(s)
				evs = append(evs, fmt.Sprintf("d,%d,%d,%s", s.Sender+1, w.scaled[s.Sid], out))
			}
		}
	}
	for _, c := range o.Conns {
		if _, ok := realRuns(o, an, w, c.Idx); !ok {
			w.skip = "a stream that is not a sequence of known frames (reported by the Spec check)"
			return w
		}
	}
	q := 0
	if queue {
		q = 1
	}
	body := "-"
	if len(evs) > 0 {
		body = strings.Join(evs, ";")
	}
	w.line = fmt.Sprintf("S %d %d 1 %s", q, cap0, body)
	return w
}

// rejectedAtPut: the driver refused the witness at a Put / take event (its placement may be the harness's guess)
func rejectedAtPut(out string) bool {
	f := strings.Fields(out)
	return len(f) >= 3 && f[0] == "reject" && (strings.HasPrefix(f[2], "q,") || strings.HasPrefix(f[2], "p,"))
}

// realRuns: what connection idx really received, as (model sid, scaled count) runs.
func realRuns(o *observation, an *analysis, w *witness, idx int) ([][2]int, bool) {
	var runs [][2]int
	for _, sid := range an.Frames[idx] {
		m, ok := w.msid[sid]
		if !ok {
			return nil, false
		}
		runs = append(runs, [2]int{m, w.scaled[sid]})
	}
	if t := an.TailLen[idx]; t > 0 {
		sid := an.TailSid[idx]
		m, ok := w.msid[sid]
		if sid < 0 || !ok {
			return nil, false
		}
		var real int
		for _, s := range o.Sends {
			if s.Sid == sid {
				real = s.Len
			}
		}
		l := w.scaled[sid]
		k := t * l / real
		if k < 1 {
			k = 1
		}
		if k > l-1 {
			k = l - 1
		}
		runs = append(runs, [2]int{m, k})
	}
	return runs, true
}

func parseRuns(s string) ([][2]int, error) {
	if s == "-" || s == "" {
		return nil, nil
	}
	var out [][2]int
	for _, p := range strings.Split(s, ",") {
		ab := strings.Split(p, "*")
		if len(ab) != 2 {
			return nil, fmt.Errorf("bad run %q", p)
		}
		a, e1 := strconv.Atoi(ab[0])
		b, e2 := strconv.Atoi(ab[1])
		if e1 != nil || e2 != nil {
			return nil, fmt.Errorf("bad run %q", p)
		}
		out = append(out, [2]int{a, b})
	}
	return out, nil
}

// compareConn: real connection c against what the model sent on its connection j.
func compareConn(o *observation, an *analysis, w *witness, c *connObs, m [][2]int, j int) string {
	real, ok := realRuns(o, an, w, c.Idx)
	if !ok {
		return "a stream that is not a sequence of known frames"
	}
	tailLen := an.TailLen[c.Idx]
	whole := real
	if tailLen > 0 {
		whole = real[:len(real)-1]
	}
	if len(real) > len(m) {
		return fmt.Sprintf("connection %d received %d frames (or parts), the model sent %d on its connection %d", c.Idx, len(real), len(m), j)
	}
	for i, r := range whole {
		if r != m[i] {
			return fmt.Sprintf("connection %d position %d: received send %d (%d bytes, scaled) where the model has send %d (%d bytes)", c.Idx, i, r[0], r[1], m[i][0], m[i][1])
		}
	}
	if tailLen > 0 {
		// the incomplete frame at the end must be the beginning of the frame the model sent next
		ms := m[len(whole)][0]
		okTail := false
		for _, s := range o.Sends {
			if k, ok := w.msid[s.Sid]; ok && k == ms && an.TailCands[c.Idx][s.Sid] {
				okTail = true
			}
		}
		if !okTail {
			return fmt.Sprintf("connection %d ends with %d bytes that are not the beginning of the frame the model sent next (send %d)", c.Idx, tailLen, ms)
		}
	}
	if !c.Faulted && c.EOF {
		if len(real) != len(m) {
			return fmt.Sprintf("connection %d stayed healthy until the client closed it, yet received %d frames where the model sent %d", c.Idx, len(real), len(m))
		}
	}
	return ""
}

// compareWitness returns "" when the model admits the observation.
func compareWitness(o *observation, an *analysis, w *witness, out string) string {
	if strings.HasPrefix(out, "reject") {
		return "the model cannot perform the observed calls: " + out
	}
	parts := strings.Split(out, " ")
	if len(parts) != 3 || parts[0] != "ok" || !strings.HasPrefix(parts[2], "r=") {
		return "unexpected driver answer: " + out
	}
	var model [][][2]int
	if parts[1] != "-" {
		for _, c := range strings.Split(parts[1], "|") {
			r, err := parseRuns(c)
			if err != nil {
				return err.Error()
			}
			model = append(model, r)
		}
	}
	// Connections are matched in order.  A connection the collector accepted and reset before
	// reading anything may have been reported to the client as a *failed* dial (the RST can arrive
	// before the dialer's final error check), so such a connection may correspond to no model connection.
	var firstMsg string
	var match func(i, j int) bool
	match = func(i, j int) bool {
		if i == len(o.Conns) {
			return true
		}
		c := o.Conns[i]
		if j < len(model) {
			if msg := compareConn(o, an, w, c, model[j], j); msg == "" {
				if match(i+1, j+1) {
					return true
				}
			} else if firstMsg == "" {
				firstMsg = msg
			}
		} else if firstMsg == "" {
			firstMsg = fmt.Sprintf("the collector accepted %d connections, the model made %d", len(o.Conns), len(model))
		}
		if c.Faulted && c.Bytes == 0 {
			return match(i+1, j)
		}
		return false
	}
	if !match(0, 0) {
		if firstMsg == "" {
			firstMsg = "the connections the collector accepted cannot be matched with the model's"
		}
		return firstMsg
	}
	res := parts[2][2:]
	for _, s := range o.Sends {
		m, ok := w.msid[s.Sid]
		if !ok || m < 1 || m-1 >= len(res) {
			continue
		}
		want := byte('0')
		if s.Class == "ok" {
			want = '1'
		}
		if res[m-1] != want {
			return fmt.Sprintf("send %d: the client reported %q, the model result is %c", s.Sid, s.Class, res[m-1])
		}
	}
	return ""
}
