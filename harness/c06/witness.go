package main

import (
	"bytes"
	"fmt"
	"sort"
	"strconv"
	"strings"
)

// Trace inclusion: the observation is turned into the call-level events the
// driver understands (see lean/Driver/C06.lean); the driver expands them into
// the model's atomic actions, checks every guard, and answers with what each
// connection carried according to the model.  What the collector stand-in
// really received must be a prefix of that, and all of it on a connection that
// stayed healthy.
//
// Frame lengths are scaled down to at most 40 bytes (the model is generic in
// the frames; what is compared is which frames, in which order, on which
// connection, and whether a stream ends inside a frame).

const scaleMax = 40

type witness struct {
	line   string
	msid   map[int]int // real sid -> model sid
	scaled map[int]int // real sid -> scaled length
	skip   string
}

func scaledLen(l int) int {
	if l > scaleMax {
		return scaleMax
	}
	return l
}

func buildWitness(o *observation, an *analysis) *witness {
	w := &witness{msid: map[int]int{}, scaled: map[int]int{}}
	for _, p := range o.Panics {
		w.skip = "panic: " + p
		return w
	}
	type item struct {
		stamp int64
		kind  string // "send" | "bg"
		s     *sendRec
		ok    bool
	}
	var items []item
	minInv := int64(1 << 62)
	for _, s := range o.Sends {
		w.scaled[s.Sid] = scaledLen(s.Len)
		if s.Inv < minInv {
			minInv = s.Inv
		}
	}
	queue := o.Spec.Mode == "queue"
	for _, s := range o.Sends {
		if s.Made != 0 {
			items = append(items, item{stamp: s.Made, kind: "send", s: s})
		} else if !queue {
			w.skip = "a direct send whose pack was never serialised"
			return w
		}
	}
	for _, e := range o.Log {
		if queue || e.Process || e.Stamp < minInv {
			items = append(items, item{stamp: e.Stamp, kind: "bg", ok: e.Kind == "connected"})
		}
	}
	sort.Slice(items, func(i, j int) bool { return items[i].stamp < items[j].stamp })

	var evs []string
	next := 0
	assign := func(s *sendRec) {
		w.msid[s.Sid] = next
		next++
	}
	okfail := func(b bool) string {
		if b {
			return "ok"
		}
		return "fail"
	}
	if queue {
		for _, s := range o.Sends {
			if s.Class == "enqueue" {
				assign(s)
				evs = append(evs, fmt.Sprintf("q,%d,%d,fail", s.Sender+1, w.scaled[s.Sid]))
			}
		}
	}
	for i, it := range items {
		if it.kind == "bg" {
			evs = append(evs, "b,"+okfail(it.ok))
			continue
		}
		s := it.s
		if queue {
			if s.Class != "ok" {
				w.skip = "a pack was taken from the queue although Send reported " + s.Class
				return w
			}
			assign(s)
			evs = append(evs, fmt.Sprintf("q,%d,%d,ok", s.Sender+1, w.scaled[s.Sid]))
			// the consumer's outcome is not reported by the client; it shows in what it does next
			failed := i+1 < len(items) && items[i+1].kind == "bg"
			evs = append(evs, "p,"+okfail(!failed))
			continue
		}
		out := s.Class
		switch out {
		case "ok", "connect", "write", "flush":
		case "deadline":
			out = "write"
		default:
			w.skip = "direct send with result class " + out
			return w
		}
		assign(s)
		evs = append(evs, fmt.Sprintf("d,%d,%d,%s", s.Sender+1, w.scaled[s.Sid], out))
	}
	if queue {
		for _, s := range o.Sends {
			if s.Class == "ok" && s.Made == 0 {
				assign(s)
				evs = append(evs, fmt.Sprintf("q,%d,%d,ok", s.Sender+1, w.scaled[s.Sid]))
			}
		}
	}
	for _, c := range o.Conns {
		if _, ok := realRuns(o, an, w, c.Idx); !ok {
			w.skip = "a stream that is not a sequence of known frames (reported by the Spec check)"
			return w
		}
	}
	cap := o.Spec.QueueCap
	if cap == 0 {
		cap = 1000
	}
	if len(o.Spec.Reconfig) > 0 {
		// the capacity changes during the run; the model lets Put refuse at any time, so the run is
		// replayed with an unbounded queue (what matters: nothing accepted leaves the queue unsent)
		cap = 0
	}
	q := 0
	if queue {
		q = 1
	}
	body := "-"
	if len(evs) > 0 {
		body = strings.Join(evs, ";")
	}
	w.line = fmt.Sprintf("S %d %d 1 %s", q, cap, body)
	return w
}

// realRuns: what connection idx really received, as (model sid, scaled count) runs.
func realRuns(o *observation, an *analysis, w *witness, idx int) ([][2]int, bool) {
	var runs [][2]int
	for _, sid := range an.Frames[idx] {
		m, ok := w.msid[sid]
		if !ok {
			return nil, false
		}
		runs = append(runs, [2]int{m, w.scaled[sid]})
	}
	if t := an.TailLen[idx]; t > 0 {
		sid := an.TailSid[idx]
		m, ok := w.msid[sid]
		if sid < 0 || !ok {
			return nil, false
		}
		var real int
		for _, s := range o.Sends {
			if s.Sid == sid {
				real = s.Len
			}
		}
		l := w.scaled[sid]
		k := t * l / real
		if k < 1 {
			k = 1
		}
		if k > l-1 {
			k = l - 1
		}
		runs = append(runs, [2]int{m, k})
	}
	return runs, true
}

func parseRuns(s string) ([][2]int, error) {
	if s == "-" || s == "" {
		return nil, nil
	}
	var out [][2]int
	for _, p := range strings.Split(s, ",") {
		ab := strings.Split(p, "*")
		if len(ab) != 2 {
			return nil, fmt.Errorf("bad run %q", p)
		}
		a, e1 := strconv.Atoi(ab[0])
		b, e2 := strconv.Atoi(ab[1])
		if e1 != nil || e2 != nil {
			return nil, fmt.Errorf("bad run %q", p)
		}
		out = append(out, [2]int{a, b})
	}
	return out, nil
}

// compareConn: real connection c against what the model sent on its connection j.
func compareConn(o *observation, an *analysis, w *witness, c *connObs, m [][2]int, j int) string {
	real, ok := realRuns(o, an, w, c.Idx)
	if !ok {
		return "a stream that is not a sequence of known frames"
	}
	_, tailBytes, _ := parseStream(c.data)
	whole := real
	if len(tailBytes) > 0 {
		whole = real[:len(real)-1]
	}
	if len(real) > len(m) {
		return fmt.Sprintf("connection %d received %d frames (or parts), the model sent %d on its connection %d", c.Idx, len(real), len(m), j)
	}
	for i, r := range whole {
		if r != m[i] {
			return fmt.Sprintf("connection %d position %d: received send %d (%d bytes, scaled) where the model has send %d (%d bytes)", c.Idx, i, r[0], r[1], m[i][0], m[i][1])
		}
	}
	if len(tailBytes) > 0 {
		// the incomplete frame at the end must be the beginning of the frame the model sent next
		ms := m[len(whole)][0]
		var fr []byte
		for _, s := range o.Sends {
			if k, ok := w.msid[s.Sid]; ok && k == ms {
				fr = s.frame
			}
		}
		if len(tailBytes) >= len(fr) || !bytes.Equal(fr[:len(tailBytes)], tailBytes) {
			return fmt.Sprintf("connection %d ends with %d bytes that are not the beginning of the frame the model sent next (send %d)", c.Idx, len(tailBytes), ms)
		}
	}
	if !c.Faulted && c.EOF {
		if len(real) != len(m) {
			return fmt.Sprintf("connection %d stayed healthy until the client closed it, yet received %d frames where the model sent %d", c.Idx, len(real), len(m))
		}
	}
	return ""
}

// compareWitness returns "" when the model admits the observation.
func compareWitness(o *observation, an *analysis, w *witness, out string) string {
	if strings.HasPrefix(out, "reject") {
		return "the model cannot perform the observed calls: " + out
	}
	parts := strings.Split(out, " ")
	if len(parts) != 3 || parts[0] != "ok" || !strings.HasPrefix(parts[2], "r=") {
		return "unexpected driver answer: " + out
	}
	var model [][][2]int
	if parts[1] != "-" {
		for _, c := range strings.Split(parts[1], "|") {
			r, err := parseRuns(c)
			if err != nil {
				return err.Error()
			}
			model = append(model, r)
		}
	}
	// Connections are matched in order.  A connection the collector accepted and reset before
	// reading anything may have been reported to the client as a *failed* dial (the RST can arrive
	// before the dialer's final error check), so such a connection may correspond to no model connection.
	var firstMsg string
	var match func(i, j int) bool
	match = func(i, j int) bool {
		if i == len(o.Conns) {
			return true
		}
		c := o.Conns[i]
		if j < len(model) {
			if msg := compareConn(o, an, w, c, model[j], j); msg == "" {
				if match(i+1, j+1) {
					return true
				}
			} else if firstMsg == "" {
				firstMsg = msg
			}
		} else if firstMsg == "" {
			firstMsg = fmt.Sprintf("the collector accepted %d connections, the model made %d", len(o.Conns), len(model))
		}
		if c.Faulted && c.Bytes == 0 {
			return match(i+1, j)
		}
		return false
	}
	if !match(0, 0) {
		if firstMsg == "" {
			firstMsg = "the connections the collector accepted cannot be matched with the model's"
		}
		return firstMsg
	}
	res := parts[2][2:]
	for _, s := range o.Sends {
		m, ok := w.msid[s.Sid]
		if !ok || m >= len(res) {
			continue
		}
		want := byte('0')
		if s.Class == "ok" {
			want = '1'
		}
		if res[m] != want {
			return fmt.Sprintf("send %d: the client reported %q, the model result is %c", s.Sid, s.Class, res[m])
		}
	}
	return ""
}
