//go:build race

package main

import (
	"fmt"
	"os"
	"path/filepath"
	"strings"
	"syscall"

	"verif/harness/vh"
)

const raceEnabled = true

// With the race detector compiled in (thorough tier) the harness re-executes
// itself once with GORACE=log_path=… so that race reports land in files that
// are classified at the end of the run instead of being lost on stderr.
func reexecForRaceLog(env *vh.Env) {
	if os.Getenv("C06_RACE_LOG") != "" {
		return
	}
	dir, err := os.Getwd()
	if err != nil {
		return
	}
	prefix := filepath.Join(dir, fmt.Sprintf("race-c06-%d", os.Getpid()))
	envv := append(os.Environ(), "C06_RACE_LOG="+prefix, "GORACE=log_path="+prefix+" halt_on_error=0 exitcode=0 history_size=3")
	exe, err := os.Executable()
	if err != nil {
		return
	}
	_ = syscall.Exec(exe, os.Args, envv)
}

// collectRaceLog classifies the race detector's reports.
//   - a report that involves the background goroutine (*OneWayTcpClient).process
//     is the data race behind D42 (conn / wr accessed without the send lock);
//   - a report between two senders contradicts the model's assumption that the
//     send lock serialises direct sends;
//   - anything else is noted.
func collectRaceLog(rep *vh.Report) {
	prefix := os.Getenv("C06_RACE_LOG")
	if prefix == "" {
		rep.Note("race detector compiled in but log redirection failed")
		return
	}
	files, _ := filepath.Glob(prefix + "*")
	n, bg, senders, other := 0, 0, 0, 0
	for _, f := range files {
		b, err := os.ReadFile(f)
		if err != nil {
			continue
		}
		os.Remove(f)
		for _, blk := range strings.Split(string(b), "==================") {
			if !strings.Contains(blk, "DATA RACE") {
				continue
			}
			n++
			client := strings.Contains(blk, "net/oneway.(*OneWayTcpClient)")
			switch {
			case strings.Contains(blk, "(*OneWayTcpClient).process"):
				bg++
				if bg == 1 {
					rep.Extra["race_process_sample"] = vh.Clip(blk, 3000)
				}
			case client && strings.Contains(blk, "sendDirect"):
				senders++
				if senders <= 2 {
					rep.Fail("correspondence", "race:direct-senders", "the race detector reports a data race between direct senders on the client's connection state: the send lock does not serialise them (model assumption `one sender in the critical section`)",
						map[string]interface{}{"report": vh.Clip(blk, 3000)})
				}
			default:
				other++
				if other <= 3 {
					rep.Note("race detector (not classified): %s", vh.Clip(blk, 1500))
				}
			}
		}
	}
	rep.Distribution["race-reports"] = n
	rep.Distribution["race-reports:process-vs-sender"] = bg
	rep.Distribution["race-reports:sender-vs-sender"] = senders
	if bg > 0 {
		rep.KnownReplay(keyD42+":data-race", true, fmt.Sprintf("race detector: %d reports of conn/wr accessed by process() without the send lock", bg))
	}
}
