// Correspondence harness for C06: the real one-way TCP client
// (net/oneway.OneWayTcpClient, built through the verif hooks NewForVerif /
// StartProcessForVerif) against a loopback collector stand-in that follows a
// seeded fault script.
//
//  1. The Spec is decided directly on what was observed (spec.go).
//  2. The observation is turned into a schedule of model actions and handed to
//     the Lean driver (drv_c06), which replays it on the CodeModel Golib.Tcp
//     (every guard checked) and returns what the model says each connection
//     carried; the real streams must be prefixes of that (equal on healthy
//     connections) — trace inclusion (witness.go).
//  3. D42 (background reconnect racing a direct send) is replayed on every run
//     (d42.go).
package main

import (
	"encoding/json"
	"fmt"
	"go/ast"
	"go/parser"
	"go/token"
	"os"
	"path/filepath"
	"sort"
	"strconv"
	"strings"

	wnet "github.com/whatap/golib/net"
	"verif/harness/vh"
)

const keyD42 = "healthy_no_loss:direct:bgConnect-race"
const keyD70 = "healthy_no_loss:applyConfig-race"

func genScript(r *vh.Rng, mode string, thorough bool) []directive {
	n := 0
	switch {
	case r.Chance(22):
		n = 0
	case r.Chance(50):
		n = 1
	case r.Chance(60):
		n = 2
	default:
		n = 3 + r.Intn(2)
	}
	var out []directive
	refusals := 0
	for i := 0; i < n; i++ {
		d := directive{Close: true}
		d.Frames = []int{0, 0, 1, 1, 2, 3, 5, 10, 25}[r.Intn(9)]
		d.Extra = []int{0, 0, 0, 1, 2, 21, 22, 23, -1, 40, 100}[r.Intn(11)]
		if r.Chance(15) {
			d.Extra = 2 + r.Intn(300)
		}
		d.Rst = r.Bool()
		maxRef := 3
		if mode == "queue" {
			maxRef = 1
			if thorough && r.Chance(30) {
				maxRef = 2
			}
		}
		if r.Chance(35) && (mode == "direct" || refusals == 0) {
			d.RefuseBefore = 1 + r.Intn(maxRef)
			refusals++
		}
		out = append(out, d)
	}
	return out
}

// genWbuf: the client's write-buffer size as read from the source (0: unknown)
var genWbuf int

func genSpec(r *vh.Rng, idx int, thorough bool) scenarioSpec {
	sp := scenarioSpec{Seed: r.U64()}
	if r.Chance(60) {
		sp.Mode = "direct"
	} else {
		sp.Mode = "queue"
	}
	sp.Senders = []int{1, 4, 16}[idx%3]
	sp.Script = genScript(r, sp.Mode, thorough)
	sp.PreMax = 400
	if !thorough {
		sp.PreMax = 150
	}
	if sp.Mode == "queue" {
		sp.PreMax = 1500
		if r.Chance(20) {
			// a small queue overflows (Send reports "Enqueue Failed"); its consumer sleeps 1.6 s whenever it
			// finds the queue empty, so these scenarios get a short script
			sp.QueueCap = []int{1, 4, 8, 32}[r.Intn(4)]
			if len(sp.Script) > 1 {
				sp.Script = sp.Script[:1]
			}
			for i := range sp.Script {
				if sp.Script[i].Frames > 2 {
					sp.Script[i].Frames = 2
				}
			}
		}
	}
	sp.Post = 3 + r.Intn(10)
	if len(sp.Script) == 0 {
		sp.Post = 10 + r.Intn(60)
	}
	if r.Chance(12) {
		sp.Big = 300 * 1024
	} else if thorough && r.Chance(4) {
		sp.Big = 5 * 1024 * 1024 // crosses the 2 MiB buffered writer
		sp.Post = 3
		sp.PreMax = 40
	}
	if sp.Mode == "queue" && len(sp.Script) == 0 && r.Chance(60) {
		n := 1 + r.Intn(3)
		for i := 0; i < n; i++ {
			sp.Reconfig = append(sp.Reconfig, []int{0, 1, 2, 5, 20, 100, 1000}[r.Intn(7)])
		}
		if sp.QueueCap == 0 && r.Chance(50) {
			sp.QueueCap = []int{16, 64, 300}[r.Intn(3)]
		}
		sp.Post = 3 + r.Intn(40)
		sp.Big = 0
	} else if sp.Mode == "queue" && len(sp.Script) == 0 {
		sp.Stall = r.Chance(60)
		if sp.Stall {
			sp.Post = 3 + r.Intn(30)
		}
	}
	if len(sp.Script) == 0 && !sp.Stall && len(sp.Reconfig) == 0 && r.Chance(25) {
		sp.TimeoutMs = 400 + r.Intn(300)
		sp.IdleMs = sp.TimeoutMs*2 + r.Intn(400)
		sp.Post = 2 + r.Intn(2)
		sp.Big = 0
	}
	if sp.Mode == "direct" && len(sp.Script) > 0 && r.Chance(6) {
		// all frames larger than the buffered writer: a cut inside a frame hits send(), not Flush()
		sp.BigAll = (3 + r.Intn(3)) << 20
		sp.Big = 0
		sp.Senders = []int{1, 1, 4}[r.Intn(3)]
		sp.PreMax = 12
		sp.Post = 10
		if len(sp.Script) > 2 {
			sp.Script = sp.Script[:2]
		}
		for i := range sp.Script {
			if sp.Script[i].Frames > 2 {
				sp.Script[i].Frames = r.Intn(3)
			}
			if r.Chance(60) {
				sp.Script[i].Extra = []int{1, 22, 100000, 1 << 20, 2500000, -1}[r.Intn(6)]
			}
		}
	}
	if !sp.Stall && len(sp.Reconfig) == 0 && sp.IdleMs == 0 && sp.BigAll == 0 && r.Chance(10) {
		// ApplyConfig while sending; the refusal machinery re-listens on the same port, so no refusals here
		sp.ApplyConfigs = 2 + r.Intn(8)
		for i := range sp.Script {
			sp.Script[i].RefuseBefore = 0
		}
		if sp.Post < 40 {
			// (not with multi-megabyte packs: hundreds of them per sender are gigabytes in flight)
			if post := 40 + r.Intn(60); sp.Big < 1<<20 {
				sp.Post = post
			}
		}
	}
	if sp.BigAll == 0 && sp.ApplyConfigs == 0 && sp.IdleMs == 0 && !sp.Stall && len(sp.Reconfig) == 0 && sp.QueueCap == 0 && r.Chance(4) {
		// the stall fault: the collector stops reading connection 0 after j frames until a write deadline has
		// expired, then reads on; the rest of the script (closes, refusals) follows on the later connections
		sp.BigAll = []int{600 << 10, 1200 << 10, 1500 << 10, 3 << 20}[r.Intn(4)]
		sp.Big = 0
		sp.TimeoutMs = 300 + r.Intn(300)
		sp.Senders = []int{1, 1, 4}[r.Intn(3)]
		sp.PreMax = 14
		sp.Post = 4 + r.Intn(4)
		rest := sp.Script
		if len(rest) > 1 {
			rest = rest[:1]
		}
		for i := range rest {
			rest[i].RefuseBefore = 0
			if rest[i].Frames > 2 {
				rest[i].Frames = r.Intn(3)
			}
		}
		pre := r.Intn(3)
		if sp.Mode == "queue" {
			pre = 0 // process() flushes only now and then: "after j frames" may never come
		}
		sp.Script = append([]directive{{Stall: true, Frames: pre}}, rest...)
		if genWbuf > 0 && r.Chance(50) {
			sp.PostBig = genWbuf + 1 + r.Intn(512*1024)
		}
	}
	if r2 := vh.NewRng(sp.Seed ^ 0x5e7115); sp.BigAll == 0 && sp.ApplyConfigs == 0 && sp.IdleMs == 0 && !sp.Stall && len(sp.Reconfig) == 0 && r2.Chance(3) {
		// a server list: dead entries (refusing / not answering) before the live collector, anything behind it
		// (its own random stream: the other scenarios of a seed stay what they were)
		sp.Servers = genServers(r2)
		sp.TimeoutMs = 400 + r2.Intn(300)
		if len(sp.Script) > 2 {
			sp.Script = sp.Script[:2]
		}
		for i := range sp.Script {
			sp.Script[i].RefuseBefore = 0
		}
		if sp.Mode == "direct" && sp.PreMax > 100 {
			sp.PreMax = 100
		}
	}
	sp.Name = fmt.Sprintf("%s/%d senders/%d faults", sp.Mode, sp.Senders, len(sp.Script))
	if len(sp.Servers) > 0 {
		sp.Name += fmt.Sprintf("/server list %v, dial timeout %d ms", sp.Servers, sp.TimeoutMs)
	}
	if len(sp.Script) > 0 && sp.Script[0].Stall {
		sp.Name += fmt.Sprintf("/collector stalls, write timeout %d ms", sp.TimeoutMs)
	}
	if len(sp.Reconfig) > 0 {
		sp.Name += fmt.Sprintf("/reconfigure %v", sp.Reconfig)
	}
	if sp.BigAll > 0 {
		sp.Name += fmt.Sprintf("/%d MiB frames", sp.BigAll>>20)
	}
	if sp.Stall {
		sp.Name += "/stalled consumer"
	}
	if sp.ApplyConfigs > 0 {
		sp.Name += fmt.Sprintf("/%d ApplyConfig calls", sp.ApplyConfigs)
	}
	if sp.IdleMs > 0 {
		sp.Name += fmt.Sprintf("/idle %d ms > timeout %d ms", sp.IdleMs, sp.TimeoutMs)
	}
	return sp
}

// genServers: 1–3 dead entries (a host that does not answer more often than one that refuses), the live
// collector, then 0–2 entries of any kind (never dialled while the live one listens).
func genServers(r *vh.Rng) []string {
	var out []string
	for i, n := 0, 1+r.Intn(3); i < n; i++ {
		if r.Chance(60) && countStr(out, "gone") < 2 {
			out = append(out, "gone")
		} else {
			out = append(out, "refused")
		}
	}
	if countStr(out, "gone") == 0 && r.Chance(70) {
		out[r.Intn(len(out))] = "gone"
	}
	out = append(out, "live")
	for i, n := 0, r.Intn(3); i < n; i++ {
		out = append(out, []string{"gone", "refused", "spare"}[r.Intn(3)])
	}
	return out
}

func countStr(xs []string, x string) int {
	n := 0
	for _, y := range xs {
		if y == x {
			n++
		}
	}
	return n
}

// serverList: a client configured with a list of collectors of which only one is up
func serverList(mode string, senders int, servers []string, script []directive, post int) scenarioSpec {
	return scenarioSpec{Mode: mode, Senders: senders, Servers: servers, Script: script, PreMax: map[string]int{"direct": 100, "queue": 1500}[mode], Post: post, TimeoutMs: 400,
		Seed: uint64(senders*71 + len(servers)*13 + len(script)*5 + len(mode)),
		Name: fmt.Sprintf("fixed %s/%d senders/%d faults/server list %v, dial timeout 400 ms", mode, senders, len(script), servers)}
}

// fixed scenarios: the corners named in the property statement, always run
func fixedSpecs(seed uint64, thorough bool, waitMs, wbuf int) []scenarioSpec {
	out := fixedSpecs0(seed)
	// server lists: the live collector behind entries that refuse / do not answer; fail-over after every fault
	out = append(out,
		serverList("direct", 1, []string{"gone", "live"}, nil, 6),
		serverList("direct", 4, []string{"refused", "gone", "live", "spare"}, []directive{{Close: true, Frames: 2, Extra: 23}}, 5),
		serverList("queue", 4, []string{"gone", "gone", "live"}, []directive{{Close: true, Frames: 1, Extra: 0}}, 6),
		serverList("direct", 1, []string{"live", "gone", "spare"}, []directive{{Close: true, Frames: 3, Extra: 0, Rst: true}}, 5))
	if thorough {
		out = append(out,
			serverList("queue", 1, []string{"refused", "refused", "gone", "live"}, nil, 8),
			serverList("direct", 16, []string{"gone", "refused", "gone", "live", "spare"}, []directive{{Close: true, Frames: 1, Extra: -1}, {Close: true, Frames: 0, Extra: 5}}, 4),
			serverList("queue", 4, []string{"refused", "live", "spare", "gone"}, []directive{{Close: true, Frames: 2, Extra: 1, Rst: true}}, 6))
	}
	if wbuf > 0 {
		// size mixes around the write buffer within one unflushed run: "in order" on the received stream
		mixes := sizeMixes(wbuf)
		out = append(out, mixSpec("queue", true, 0, mixes[0]), mixSpec("queue", true, 1, mixes[1]), mixSpec("queue", false, 2, mixes[2]), mixSpec("direct", false, 1, mixes[1]))
		if thorough {
			out = append(out, mixSpec("queue", true, 2, mixes[2]), mixSpec("queue", true, 3, mixes[3]), mixSpec("queue", false, 1, mixes[1]), mixSpec("direct", false, 3, mixes[3]))
		}
		// after a write timeout that left a fragment on a connection that stays open, the next frames are
		// larger than the write buffer
		a, b := stallSpec("direct", 1, 1500<<10, 1), stallSpec("direct", 4, 1200<<10, 0)
		a.PostBig, b.PostBig = wbuf+200*1024, wbuf+1
		a.Name += fmt.Sprintf(", then %d-byte frames", a.PostBig)
		b.Name += fmt.Sprintf(", then %d-byte frames", b.PostBig)
		a.Seed, b.Seed = a.Seed+5, b.Seed+5
		out = append(out, a, b)
	}
	// the collector stalls (no close, no reset): a write deadline expires mid-frame; frames smaller than
	// the 2 MiB buffered writer fail in Flush (the connection stays), larger ones inside send() (Close)
	out = append(out, stallSpec("direct", 1, 1500<<10, 1), stallSpec("direct", 4, 1200<<10, 0), stallSpec("queue", 1, 1500<<10, 0))
	if thorough {
		out = append(out, stallSpec("direct", 1, 3<<20, 0), stallSpec("direct", 1, 700<<10, 3), stallSpec("queue", 4, 1200<<10, 0))
	}
	if waitMs > 0 {
		// idle longer than every internal wait before traffic (one scenario in the quick tier: it runs
		// alongside the batch)
		// (two waits: the send lock is process-wide, so under load process() may reach its first
		// Queue.GetTimeout seconds after the client was started)
		pre := []scenarioSpec{afterIdle("queue", 4, 6, waitMs, 2, true)}
		if thorough {
			pre = append(pre, afterIdle("queue", 1, 12, waitMs, 2, true), afterIdle("queue", 4, 8, waitMs, 3, false),
				afterIdle("queue", 16, 4, waitMs, 2, true), afterIdle("queue", 4, 8, waitMs, 2, false), afterIdle("direct", 4, 8, waitMs, 2, false))
		}
		out = append(pre, out...) // first, so that their idle time overlaps the rest of the batch
	}
	return out
}

func fixedSpecs0(seed uint64) []scenarioSpec {
	mk := func(mode string, senders int, script []directive, post int) scenarioSpec {
		return scenarioSpec{Mode: mode, Senders: senders, Script: script, PreMax: map[string]int{"direct": 300, "queue": 1500}[mode], Post: post, Seed: seed*977 + uint64(senders) + uint64(len(script))*31,
			Name: fmt.Sprintf("fixed %s/%d senders/%d faults", mode, senders, len(script))}
	}
	return []scenarioSpec{
		mk("direct", 1, nil, 40),
		mk("direct", 16, nil, 25),
		mk("queue", 4, nil, 40),
		mk("direct", 1, []directive{{Close: true, Frames: 0, Extra: 0}}, 5),            // before any frame
		mk("direct", 4, []directive{{Close: true, Frames: 3, Extra: 0, Rst: true}}, 5), // between frames
		mk("direct", 16, []directive{{Close: true, Frames: 2, Extra: 23}}, 5),          // inside a frame
		mk("direct", 1, []directive{{Close: true, Frames: 1, Extra: -1}, {Close: true, RefuseBefore: 3, Frames: 0, Extra: 5}}, 5),
		mk("queue", 4, []directive{{Close: true, Frames: 2, Extra: 1}}, 6),
		mk("queue", 1, []directive{{Close: true, Frames: 1, Extra: 0}, {RefuseBefore: 1}}, 6),
		// every entry point against a stalled consumer: delivery order = acceptance order
		stall(1, 30), stall(4, 15), stall(16, 8),
		// a healthy connection that idles longer than the client's Timeout between sends
		idle("direct", 1), idle("direct", 4), idle("queue", 1), idle("queue", 4),
		// ApplyConfig (Close + Connect) while the senders run, healthy collector
		reconf("direct", 4, 6, 60), reconf("direct", 16, 8, 30), reconf("queue", 4, 6, 120),
		// reconfiguration under a backlog (healthy connection): lower, raise, unbounded, mixed
		rc(4, 64, 10, []int{4}), rc(4, 8, 10, []int{200}), rc(1, 32, 30, []int{0}), rc(16, 0, 5, []int{2, 100, 0, 1}),
		// frames larger than the 2 MiB buffered writer, cut inside the frame at several offsets, then >= 10 sends
		bigc("direct", 1, 3<<20, 0, 1), bigc("direct", 1, 3<<20, 1, 23), bigc("direct", 4, 3<<20, 0, 1<<20),
		bigc("direct", 1, 5<<20, 1, 2500000), bigc("direct", 1, 3<<20, 2, -1), bigc("queue", 1, 3<<20, 1, 1<<20),
	}
}

func stall(senders, perSender int) scenarioSpec {
	return scenarioSpec{Mode: "queue", Senders: senders, PreMax: 1500, Post: perSender, Stall: true,
		Seed: uint64(senders*977 + perSender), Name: fmt.Sprintf("fixed queue/%d senders/stalled consumer, all entry points", senders)}
}

func idle(mode string, senders int) scenarioSpec {
	return scenarioSpec{Mode: mode, Senders: senders, PreMax: 100, Post: 3, TimeoutMs: 500, IdleMs: 1300,
		Seed: uint64(senders*31 + len(mode)), Name: fmt.Sprintf("fixed %s/%d senders/idle 1300 ms > timeout 500 ms", mode, senders)}
}

func reconf(mode string, senders, calls, perSender int) scenarioSpec {
	return scenarioSpec{Mode: mode, Senders: senders, PreMax: 1500, Post: perSender, ApplyConfigs: calls,
		Seed: uint64(senders*53 + calls + len(mode)), Name: fmt.Sprintf("fixed %s/%d senders/%d ApplyConfig calls while sending", mode, senders, calls)}
}

func rc(senders, cap0, perSender int, caps []int) scenarioSpec {
	return scenarioSpec{Mode: "queue", Senders: senders, QueueCap: cap0, PreMax: 1500, Post: perSender, Reconfig: caps,
		Seed: uint64(senders*131 + cap0*7 + perSender + len(caps)), Name: fmt.Sprintf("fixed queue/%d senders/reconfigure %v", senders, caps)}
}

func bigc(mode string, senders, size, frames, extra int) scenarioSpec {
	return scenarioSpec{Mode: mode, Senders: senders, BigAll: size, PreMax: 12, Post: 10,
		Script: []directive{{Close: true, Frames: frames, Extra: extra, Rst: extra%2 == 1}},
		Seed:   uint64(size + frames*17 + extra), Name: fmt.Sprintf("fixed %s/%d senders/%d MiB frames cut at %d+%d", mode, senders, size>>20, frames, extra)}
}

// internalWaitMs: the longest internal wait of the client, read from its source (the `…WaitTime`
// constants of OneWayTcpClient.go: how long process() sits in Queue.GetTimeout, the flush interval).
// An idle period "longer than every internal timeout" is this plus a margin.
func internalWaitMs(repo string) (int, string) {
	fset := token.NewFileSet()
	f, err := parser.ParseFile(fset, filepath.Join(repo, "net", "oneway", "OneWayTcpClient.go"), nil, 0)
	if err != nil {
		return 0, err.Error()
	}
	best := 0
	ast.Inspect(f, func(n ast.Node) bool {
		vs, ok := n.(*ast.ValueSpec)
		if !ok {
			return true
		}
		for i, name := range vs.Names {
			if !strings.HasSuffix(name.Name, "WaitTime") || i >= len(vs.Values) {
				continue
			}
			if lit, ok := vs.Values[i].(*ast.BasicLit); ok && lit.Kind == token.INT {
				if v, err := strconv.Atoi(lit.Value); err == nil && v > best {
					best = v
				}
			}
		}
		return true
	})
	if best == 0 {
		return 0, "no …WaitTime constant found in OneWayTcpClient.go"
	}
	return best, ""
}

// writeBufferSize: the size of the client's buffered writer, read from its source: the second argument of
// bufio.NewWriterSize in Connect() (a constant expression, possibly through a named constant), or bufio's
// default for bufio.NewWriter.
func writeBufferSize(repo string) (int, string) {
	fset := token.NewFileSet()
	f, err := parser.ParseFile(fset, filepath.Join(repo, "net", "oneway", "OneWayTcpClient.go"), nil, 0)
	if err != nil {
		return 0, err.Error()
	}
	consts := map[string]ast.Expr{}
	var arg ast.Expr
	def := false
	ast.Inspect(f, func(n ast.Node) bool {
		switch x := n.(type) {
		case *ast.ValueSpec:
			for i, name := range x.Names {
				if i < len(x.Values) {
					consts[name.Name] = x.Values[i]
				}
			}
		case *ast.CallExpr:
			if s, ok := x.Fun.(*ast.SelectorExpr); ok {
				if id, ok := s.X.(*ast.Ident); ok && id.Name == "bufio" {
					if s.Sel.Name == "NewWriterSize" && len(x.Args) == 2 {
						arg = x.Args[1]
					} else if s.Sel.Name == "NewWriter" {
						def = true
					}
				}
			}
		}
		return true
	})
	if arg == nil {
		if def {
			return 4096, ""
		}
		return 0, "no bufio.NewWriterSize / NewWriter call found"
	}
	var eval func(e ast.Expr, depth int) (int64, bool)
	eval = func(e ast.Expr, depth int) (int64, bool) {
		if depth > 8 {
			return 0, false
		}
		switch x := e.(type) {
		case *ast.BasicLit:
			v, err := strconv.ParseInt(x.Value, 0, 64)
			return v, err == nil
		case *ast.ParenExpr:
			return eval(x.X, depth+1)
		case *ast.CallExpr: // a conversion: int(x)
			if len(x.Args) == 1 {
				return eval(x.Args[0], depth+1)
			}
		case *ast.Ident:
			if c, ok := consts[x.Name]; ok {
				return eval(c, depth+1)
			}
		case *ast.BinaryExpr:
			a, ok1 := eval(x.X, depth+1)
			b, ok2 := eval(x.Y, depth+1)
			if ok1 && ok2 {
				switch x.Op {
				case token.MUL:
					return a * b, true
				case token.ADD:
					return a + b, true
				case token.SUB:
					return a - b, true
				case token.SHL:
					return a << uint(b), true
				}
			}
		}
		return 0, false
	}
	v, ok := eval(arg, 0)
	if !ok || v <= 0 || v > 1<<30 {
		return 0, "the size argument of bufio.NewWriterSize is not a constant this harness can evaluate"
	}
	return int(v), ""
}

// sizeMix: frames of sizes around the write buffer B (tiny, just below, equal, just above, well above) in
// several orders within one unflushed run.
func sizeMixes(B int) [][]int {
	t := 64
	return [][]int{
		{t, t + 9, B + 1, t + 3},                         // small, small, LARGE, small: the demo order
		{B - 1, t, B, B + 1, t + 5, B + 700*1024, t + 1}, // every boundary once
		{B + 1, t, B + 1, B, t + 7, B - 1},               // large first, equal in the middle
		{t, B / 2, B/2 + 1, t + 2, B + 4096, B - 4096},   // two that fill the buffer exactly, then above / below
	}
}

func mixSpec(mode string, batch bool, k int, sizes []int) scenarioSpec {
	sp := scenarioSpec{Mode: mode, Senders: 1, PreMax: 100, Post: 2 * len(sizes), Sizes: sizes, Batch: batch, Seed: uint64(811 + 13*k + len(mode))}
	how := "SendFlush(false)…SendFlush(true)"
	if batch {
		how = "Put…Put, SendAndClear (no process())"
	}
	sp.Name = fmt.Sprintf("fixed %s/1 sender/size mix %d around the write buffer, %s", mode, k, how)
	return sp
}

// afterIdle: the client is idle for longer than every internal wait (k times), then packs arrive while
// process() is busy (gate: its first makeData is held back while the others are queued) or back to back.
func afterIdle(mode string, senders, perSender, waitMs, k int, gate bool) scenarioSpec {
	sp := scenarioSpec{Mode: mode, Senders: senders, PreMax: 1500, Post: perSender, PreIdleMs: waitMs*k + 1200, Burst: true,
		Stall: gate && mode == "queue", Seed: uint64(senders*61 + perSender + k*7 + len(mode))}
	sp.Name = fmt.Sprintf("fixed %s/%d senders/idle %d ms > every internal wait (%d ms), then a burst", mode, senders, sp.PreIdleMs, waitMs)
	if sp.Stall {
		sp.Name += " against a busy consumer"
	}
	return sp
}

// stallSpec: the collector stops reading connection 0 after `frames` frames; with a short client Timeout
// a write deadline expires inside a frame; the collector then reads on, on the same connection.
func stallSpec(mode string, senders, size, frames int) scenarioSpec {
	return scenarioSpec{Mode: mode, Senders: senders, BigAll: size, PreMax: 14, Post: 5, TimeoutMs: 400,
		Script: []directive{{Stall: true, Frames: frames}},
		Seed:   uint64(size + frames*19 + senders), Name: fmt.Sprintf("fixed %s/%d senders/%d KiB frames/collector stalls after %d frames, write timeout 400 ms, then reads on", mode, senders, size>>10, frames)}
}

func canon(o *observation, an *analysis) string {
	b, _ := json.Marshal(o.Spec.Script)
	if len(o.Spec.Servers) > 0 {
		b = append(b, []byte(fmt.Sprintf("|servers%v", o.Spec.Servers))...)
	}
	return fmt.Sprintf("%s|%d|cap%d|big%d/%d|rc%v%v|idle%d/%d|ac%d|%s|conns%d|delivered%d", o.Spec.Mode, o.Spec.Senders, o.Spec.QueueCap, o.Spec.Big, o.Spec.BigAll, o.Spec.Reconfig, o.Spec.Stall, o.Spec.IdleMs, o.Spec.PreIdleMs+len(o.Spec.Sizes)*7+o.Spec.PostBig, o.Spec.ApplyConfigs, b, len(o.Conns), len(an.Delivered))
}

func main() {
	env, rep := vh.Parse("C06")
	reexecForRaceLog(env)
	if *flagChild != "" || *flagChildD42 || *flagChildD70 || *flagChildD71 {
		childMain(env)
		return
	}
	rng := vh.NewRng(env.Seed)
	rep.Rule = "a case is one scenario: mode (direct|queue) x senders (1|4|16) x entry points (Send, SendFlush(false), SendFlush(true), per-send options) x fault script (per accepted connection: close after j whole frames + m bytes, FIN or RST; refuse k connects) x pack sizes (up to > the 2 MiB write buffer) x queue reconfiguration / stalled consumer under a backlog x idle longer than the write timeout x idle longer than every internal wait of the client before traffic (then a burst, the consumer busy or not) x a collector that stops reading until a write deadline expires inside a frame and then reads on, on the same connection (frames below and above the write buffer) x frames of sizes around the client's write buffer (read from its source: tiny, just below, equal, just above) mixed in several orders within one unflushed run (SendFlush(false)…SendFlush(true), Put…Put + SendAndClear) x server lists (the live collector behind 1–3 entries that refuse the connection or do not answer at all — the dial runs into the client's Timeout —, other entries and a spare collector behind it; fail-over through the list after every fault), run on the real client (in a child process) against a loopback collector stand-in; non-trivial = at least one frame was received and (a fault was carried out or several senders ran); distinct by (mode, senders, queue capacity, sizes, reconfiguration, script, connections accepted, frames received)"

	var specs []scenarioSpec
	replayD42, replayD70, replayD71 := false, false, false
	if env.Replay != "" {
		specs, replayD42, replayD70, replayD71 = loadReplay(env.Replay)
	} else {
		waitMs, why := internalWaitMs(env.Repo)
		if why != "" {
			rep.Note("idle-longer-than-every-internal-wait scenarios not run: %s", why)
		}
		wbuf, why2 := writeBufferSize(env.Repo)
		if why2 != "" {
			rep.Note("size-mix scenarios not run: %s", why2)
		}
		specs = fixedSpecs(env.Seed, env.Thorough, waitMs, wbuf)
		genWbuf = wbuf
		n := 150
		if env.Thorough {
			n = 800
		}
		for i := 0; i < n; i++ {
			specs = append(specs, genSpec(rng, i, env.Thorough))
		}
	}
	par := 96
	if raceEnabled {
		par = 32
	}
	jobs := make([]job, len(specs))
	for i, sp := range specs {
		jobs[i] = job{i, sp}
	}
	// the D42, D70 and D71 replays run side by side, each in its own process, while the scenarios run
	type d70out struct {
		rs   []d70Result
		died string
	}
	type d71out struct {
		d     d71Result
		died  string
		races int
	}
	var d70ch chan d70out
	var d71ch chan d71out
	if env.Replay == "" || replayD70 {
		d70ch = make(chan d70out, 1)
		go func() {
			rs, died := runD70Isolated(env)
			d70ch <- d70out{rs, died}
		}()
	}
	if env.Replay == "" || replayD71 {
		d71ch = make(chan d71out, 1)
		go func() {
			d, died, races := runD71Isolated(env)
			d71ch <- d71out{d, died, races}
		}()
	}
	type d42out struct {
		d    d42Result
		died string
	}
	var d42ch chan d42out
	if env.Replay == "" || replayD42 {
		d42ch = make(chan d42out, 1)
		go func() {
			d, died := runD42Isolated(env)
			d42ch <- d42out{d, died}
		}()
	}
	records, crashes, notes := runIsolated(env, jobs, par)
	for _, n := range notes {
		rep.Note("%s", n)
	}
	for _, c := range crashes {
		rep.Count("client-crash-or-hang")
		rep.Fail("property", c.Key, c.Summary, c.Replay)
	}
	for i := range specs {
		r := records[i]
		if r == nil {
			continue
		}
		if r.Infra != "" {
			rep.Count("infra-skip")
			rep.Note("scenario %q skipped: %s", r.Spec.Name, r.Infra)
			continue
		}
		rep.Case(r.Canon, r.Nontrivial)
		for k, v := range r.Counts {
			rep.CountN(k, v)
		}
		if i < 3 || (r.Faults > 1 && len(rep.Samples) < 8) {
			rep.Sample(map[string]interface{}{"spec": r.Spec, "connections": r.Conns, "sends": r.Sends, "received": r.Received, "wall_ms": r.WallMs})
		}
		for _, f := range r.Findings {
			rep.Fail("property", f.Key, f.Summary, map[string]interface{}{"spec": r.Spec, "finding": f, "connections": r.Conns})
		}
		if r.ListCorr != "" {
			rep.Fail("correspondence", "model-admits:connect-list", r.ListCorr, map[string]interface{}{"spec": r.Spec, "line": r.ListLine, "driver": r.ListOut, "verdict": r.List, "connect_calls": r.Groups})
		} else if r.List != nil {
			rep.Count("model-admits:connect-list")
			rep.CountN("server-list:connect-calls-as-the-model", r.List.Agree)
		}
		switch {
		case r.WitnessSkip != "":
			rep.Count("model-replay-skipped")
			rep.Note("scenario %q not replayed on the model: %s", r.Spec.Name, r.WitnessSkip)
		case r.Corr != "":
			// the Spec checks already ran on this very observation and are reported separately; a
			// disagreement here means the model does not admit what the client did
			rep.Fail("correspondence", "model-admits:"+r.Spec.Mode, r.Corr, map[string]interface{}{"spec": r.Spec, "line": r.Line, "driver": r.DriverOut, "connections": r.Conns, "client_log": r.Log})
		case r.Admitted:
			rep.Count("model-admits")
		}
	}

	// D42 replay (always), in its own process
	if d42ch != nil {
		o42 := <-d42ch
		d, died := o42.d, o42.died
		rep.Extra["d42"] = d
		what := fmt.Sprintf("D42 replay: servers [dead, live], process() parked inside Connect by a blocking Logger, one Send of a %d-byte frame; released at %q +%dµs (trial %d of the sweep)", d.FrameLen, d.Variant, d.DelayUs, d.Trials)
		if died != "" {
			rep.KnownReplay(keyD42, true, what+" — "+vh.Clip(died, 300))
			rep.Fail("property", keyD42+":crash", "direct mode, process() racing a sender inside Connect: "+vh.Clip(died, 600), map[string]interface{}{"how": what, "output": died})
		} else {
			rep.KnownReplay(keyD42, d.Hit, what)
			if d.Hit {
				rep.Fail("property", keyD42, "direct mode: Send returned nil and the frame was received on no connection although both connections stayed healthy — process() replaced the buffered writer between the sender's Write and Flush (no send lock around its Connect)",
					map[string]interface{}{"d42": d, "how": what})
			}
			if d.Other != "" {
				rep.Note("D42 replay: %s", d.Other)
			}
		}
	}
	// D70 replay (always), in its own process: ApplyConfig while sending, both modes
	if d70ch != nil {
		o70 := <-d70ch
		rs, died := o70.rs, o70.died
		rep.Extra["d70"] = rs
		lost, tot := 0, 0
		ex := ""
		for _, r := range rs {
			lost += r.Lost
			tot += r.Accepted
			if ex == "" && r.Example != "" {
				ex = r.Mode + " mode, " + r.Example
			}
		}
		what := fmt.Sprintf("D70 replay: 4 senders against a healthy collector while ApplyConfig alternates the license (Close + Connect): %d of %d accepted packs were never received (%s)", lost, tot, ex)
		if died != "" {
			rep.KnownReplay(keyD70, true, what+" — "+vh.Clip(died, 300))
			rep.Fail("property", keyD70+":crash", "ApplyConfig racing senders: "+vh.Clip(died, 600), map[string]interface{}{"how": what, "output": died})
		} else {
			rep.KnownReplay(keyD70, lost > 0, what)
			if lost > 0 {
				rep.Fail("property", keyD70, "Send returned nil (or Put true) for packs that no connection received although the collector stayed healthy: ApplyConfig closes and re-dials without the send lock (and process() writes and flushes without it), so conn/wr are replaced between a writer's Write and its Flush — "+what,
					map[string]interface{}{"d70": rs, "how": what})
			}
		}
	}
	// D71 replay (always), in its own process: the public Close() while senders run
	if d71ch != nil {
		o71 := <-d71ch
		d, died, races := o71.d, o71.died, o71.races
		rep.Extra["d71"] = d
		what := fmt.Sprintf("D71 replay: 4 senders against a healthy collector while another goroutine calls Close() (%d calls in %d rounds): %d of %d accepted packs were never received (%s); %d connections, %d whole frames, %d streams not made of whole handed frames", d.Closes, d.Rounds, d.Lost, d.Accepted, d.Example, d.Conns, d.Frames, d.Broken)
		if races > 0 {
			rep.Distribution["race-reports:close-vs-sender"] = races
			rep.Note("race detector: %d reports in the D71 replay (the public Close() reads and writes conn without the send lock; the replay calls it on purpose while senders run)", races)
		}
		switch {
		case died != "":
			rep.KnownReplay(keyD71, true, what+" — "+vh.Clip(died, 300))
			rep.Fail("property", keyD71+":crash", "Close() racing senders: "+vh.Clip(died, 600), map[string]interface{}{"how": what, "output": died})
		default:
			rep.KnownReplay(keyD71, d.Lost > 0, what)
			if d.Lost > 0 {
				rep.Fail("property", keyD71, "Send returned nil for packs that no connection received although the collector stayed healthy: Close() (no lock) set conn = nil between send()'s nil test and conn.SetWriteDeadline, the nil dereference panicked, send()'s recover() swallowed the panic and send() returned a nil error — "+what,
					map[string]interface{}{"d71": d, "how": what})
			}
			if d.Broken > 0 {
				rep.Fail("property", "frames_whole:close-race", "Close() racing senders: a connection received bytes that are not whole frames of handed packs followed by at most a prefix of one — "+d.BrokenExample,
					map[string]interface{}{"d71": d, "how": what})
			}
			if d.Other != "" {
				rep.Note("D71 replay: %s", d.Other)
			}
		}
	}
	// the no-op client of the same interface (net.EmptyTcpClient): every call returns nil
	{
		var e wnet.TcpClient = &wnet.EmptyTcpClient{}
		tp, _ := genPack(vh.NewRng(env.Seed), 1, 0, 0, 0)
		errs := []error{e.Connect(), e.Send(tp), e.SendFlush(tp, true, wnet.WithLicense("x")), e.Close()}
		for _, err := range errs {
			if err == nil {
				rep.Count("empty-client:nil")
			} else {
				rep.Count("empty-client:error")
			}
		}
	}
	collectRaceLog(rep)
	sortNotes(rep)
	if env.Out != "" {
		// the report is written whatever happened to the working directory meanwhile
		os.MkdirAll(filepath.Dir(env.Out), 0o755)
	}
	rep.Write(env.Out)
}

func sortNotes(rep *vh.Report) { sort.Strings(rep.Notes) }

func loadReplay(path string) ([]scenarioSpec, bool, bool, bool) {
	b, err := os.ReadFile(path)
	if err != nil {
		vh.Die("replay: %v", err)
	}
	var f struct {
		Key   string `json:"key"`
		Cases []struct {
			Spec *scenarioSpec   `json:"spec"`
			D42  json.RawMessage `json:"d42"`
			D70  json.RawMessage `json:"d70"`
			D71  json.RawMessage `json:"d71"`
		} `json:"cases"`
	}
	if err := json.Unmarshal(b, &f); err != nil {
		vh.Die("replay: %v", err)
	}
	var out []scenarioSpec
	d42 := f.Key == keyD42
	d70 := strings.HasPrefix(f.Key, keyD70) && len(f.Cases) > 0 && f.Cases[0].Spec == nil
	d71 := strings.HasPrefix(f.Key, keyD71) || f.Key == "frames_whole:close-race"
	for _, c := range f.Cases {
		if len(c.D42) > 0 {
			d42 = true
		}
		if len(c.D70) > 0 {
			d70 = true
		}
		if len(c.D71) > 0 {
			d71 = true
		}
		if c.Spec != nil {
			// a schedule-dependent failure may need several runs of the same scenario
			for k := 0; k < 5; k++ {
				out = append(out, *c.Spec)
			}
		}
	}
	return out, d42, d70, d71
}
