package main

import (
	"bufio"
	"bytes"
	"context"
	"encoding/json"
	"flag"
	"fmt"
	"os"
	"os/exec"
	"path/filepath"
	"runtime/debug"
	"sort"
	"strings"
	"sync"
	"time"

	"verif/harness/vh"
)

// Crash isolation.  The client under test runs goroutines of its own (process())
// and a changed client can die in ways no recover() catches (a nil dereference in
// process(), "fatal error: concurrent map writes", a deadlock).  The scenarios
// therefore run in a child process (this same binary, re-executed with -child):
// the child streams one JSON record per scenario ("start" when it begins, "done"
// with everything the parent needs when it has been evaluated) into a results
// file.  If the child dies or hangs, the scenarios that were in flight are re-run
// one per process to find the one that kills it; a crash or hang is an outcome
// of the property check (Send must neither kill nor block the application), with
// the scenario as replay.  The parent always writes the report.

var (
	flagChild      = flag.String("child", "", "internal: spec file of the scenarios to run in this child process")
	flagChildOut   = flag.String("child-out", "", "internal: results file of the child")
	flagChildD42   = flag.Bool("child-d42", false, "internal: run the D42 replay in this child process")
	flagChildPar   = flag.Int("child-par", 0, "internal: scenarios in flight")
	flagChildAlone = flag.Bool("child-alone", false, "internal: this child runs one scenario alone (patient hang deadlines)")
	flagChildMem   = flag.Int64("child-mem", 0, "internal: bound on the estimated bytes held by the scenarios in flight")
	flagChildD71   = flag.Bool("child-d71", false, "internal: run the D71 replay (Close() while sending) in this child process")
	flagChildD70   = flag.Bool("child-d70", false, "internal: run the D70 replay (ApplyConfig while sending) in this child process")
)

type job struct {
	Idx  int          `json:"idx"`
	Spec scenarioSpec `json:"spec"`
}

// scenRecord is what the child reports about one scenario.
type scenRecord struct {
	Event       string         `json:"event"` // "start" | "done"
	Idx         int            `json:"idx"`
	Spec        scenarioSpec   `json:"spec"`
	Infra       string         `json:"infra,omitempty"`
	Canon       string         `json:"canon,omitempty"`
	Nontrivial  bool           `json:"nontrivial,omitempty"`
	Faults      int            `json:"faults,omitempty"`
	Counts      map[string]int `json:"counts,omitempty"`
	Findings    []finding      `json:"findings,omitempty"`
	Conns       []*connObs     `json:"conns,omitempty"`
	Sends       int            `json:"sends,omitempty"`
	Received    int            `json:"received,omitempty"`
	WallMs      int64          `json:"wall_ms,omitempty"`
	WitnessSkip string         `json:"witness_skip,omitempty"`
	Corr        string         `json:"corr,omitempty"` // model does not admit the observation
	Line        string         `json:"line,omitempty"`
	DriverOut   string         `json:"driver_out,omitempty"`
	Admitted    bool           `json:"admitted,omitempty"`
	Log         []logEvent     `json:"log,omitempty"`
	Addr        string         `json:"addr,omitempty"`
	// Stuck: the client blocked for ever in this scenario (a call that did not return / process() that did
	// not stop).  In a batch process this only voids the rest of the batch (the send lock is process-wide:
	// the culprit may be another scenario); it counts when the scenario shows it alone in a fresh process.
	Stuck string `json:"stuck,omitempty"`
	// server-list scenarios: the Connect() calls seen in the client's log against the model's connectList
	ListLine string       `json:"list_line,omitempty"`
	ListOut  string       `json:"list_out,omitempty"`
	ListCorr string       `json:"list_corr,omitempty"`
	List     *listVerdict `json:"list,omitempty"`
	Groups   []connGroup  `json:"connect_calls,omitempty"`

	pending  *pendingReplay // child only: to be replayed on the model at the end of the batch
	pendingL *pendingList
}

type pendingList struct {
	kinds  []string
	groups []connGroup
	line   string
}

// The driver is started once per batch, after the last scenario: starting a process forks, and
// until the forked child has exec'ed it holds a copy of every socket of this process — a listener
// that a fault script has just closed would stay alive in the kernel for that moment and take
// connections nobody ever accepts.
type pendingReplay struct {
	o  *observation
	an *analysis
	w  *witness
}

const scenarioWatchdog = 5 * time.Minute

// voidGrace: after the first scenario of a batch process reported the client stuck, the process goes on for
// this long (other scenarios that are stuck too get the chance to say so), then gives the batch up.
const voidGrace = 20 * time.Second

// evaluate runs one scenario and decides everything about it.
func evaluate(j job, driver string) scenRecord {
	rec := scenRecord{Event: "done", Idx: j.Idx, Spec: j.Spec, Counts: map[string]int{}}
	type res struct {
		o  *observation
		f  []finding
		an *analysis
	}
	ch := make(chan res, 1)
	hung := make(chan string, 1)
	go func() {
		o := runScenarioWatch(j.Spec, hung)
		f, an := checkSpec(o)
		ch <- res{o, f, an}
	}()
	blocks := func(what string) finding {
		return finding{"send:blocks-forever:" + crashClass(j.Spec), "the client blocks for ever: " + what + " — accepted packs are never sent and the calling goroutines never come back (a lock that is not released on some path, or a write without deadline)"}
	}
	var r res
	select {
	case r = <-ch:
	case what := <-hung:
		rec.Stuck = what
		rec.Findings = []finding{blocks(what)}
		rec.Canon = "stuck|" + j.Spec.Name
		return rec
	case <-time.After(scenarioWatchdog):
		rec.Findings = []finding{{"client:hang:" + crashClass(j.Spec), fmt.Sprintf("the scenario did not finish within %v: a call into the client never returned", scenarioWatchdog)}}
		rec.Canon = "hang|" + j.Spec.Name
		return rec
	}
	o, an := r.o, r.an
	if o.Stuck != "" {
		rec.Stuck = o.Stuck
		rec.Findings = append([]finding{blocks(o.Stuck)}, r.f...)
		rec.Canon = "stuck|" + j.Spec.Name
		rec.Conns, rec.Sends, rec.WallMs = o.Conns, len(o.Sends), o.WallMs
		return rec
	}
	rec.Infra = o.Infra
	rec.Conns = o.Conns
	rec.Sends = len(o.Sends)
	rec.WallMs = o.WallMs
	if o.Infra != "" {
		return rec
	}
	rec.Received = len(an.Delivered)
	for _, c := range o.Conns {
		if c.Faulted {
			rec.Faults++
		}
	}
	rec.Canon = canon(o, an)
	rec.Nontrivial = len(an.Delivered) > 0 && (rec.Faults > 0 || o.Spec.Senders > 1)
	cnt := func(k string) { rec.Counts[k]++ }
	cnt("mode:" + o.Spec.Mode)
	cnt(fmt.Sprintf("senders:%d", o.Spec.Senders))
	cnt(fmt.Sprintf("faults-carried-out:%d", rec.Faults))
	if len(o.Spec.Reconfig) > 0 {
		cnt("queue-reconfigured-under-backlog")
	}
	if o.Spec.Stall {
		cnt("consumer-stalled-under-backlog")
	}
	if o.Spec.BigAll > 0 {
		cnt("all-frames-larger-than-write-buffer")
	}
	if o.Spec.IdleMs > 0 {
		cnt("idle-longer-than-write-timeout")
	}
	if o.Spec.PreIdleMs > 0 {
		cnt("idle-longer-than-every-internal-wait-before-traffic")
	}
	if len(o.Spec.Sizes) > 0 {
		cnt("size-mix-around-write-buffer")
	}
	if o.Spec.Batch {
		cnt("send-and-clear-batch")
	}
	if o.Spec.PostBig > 0 {
		cnt("frames-larger-than-write-buffer-after-write-timeout")
	}
	for _, c := range o.Conns {
		if c.Stalled {
			cnt("collector-stalled")
			if c.Faulted {
				cnt("collector-stalled:write-deadline-expired")
			}
		}
	}
	if o.Spec.ApplyConfigs > 0 {
		cnt("apply-config-while-sending")
		cnt("client-built-with:WithWhatapTcpServer")
	} else {
		cnt("client-built-with:WithServers")
	}
	if o.StoppedBy != "" {
		cnt("process-stopped-by:" + o.StoppedBy)
	} else {
		cnt("process-stopped-by:StopForVerif")
	}
	rec.Counts["public-Flush-after-SendAndClear:nothing-left"] += int(o.FlushEmpty)
	rec.Counts["public-Flush-after-SendAndClear:something-left"] += int(o.FlushOther)
	rec.Counts["sends"] += len(o.Sends)
	rec.Counts["frames-received"] += len(an.Delivered)
	rec.Counts["connections"] += len(o.Conns)
	for _, s := range o.Sends {
		cnt("result:" + s.Class)
		cnt("entry:" + s.Entry)
		if s.Lic != "" {
			cnt("license:override")
		} else {
			cnt("license:default")
		}
		switch {
		case s.Len < 100:
			cnt("frame:<100")
		case s.Len < 1000:
			cnt("frame:<1k")
		case s.Len < 100000:
			cnt("frame:<100k")
		case s.Len < 2<<20:
			cnt("frame:<2MiB")
		default:
			cnt("frame:>=2MiB")
		}
	}
	for _, c := range o.Conns {
		if c.Faulted {
			switch t := an.TailLen[c.Idx]; {
			case c.Bytes == 0:
				cnt("cut:before-any-byte")
			case t == 0:
				cnt("cut:between-frames")
			case t < frameHdr:
				cnt("cut:inside-header")
			default:
				cnt("cut:inside-payload")
			}
		}
	}
	for _, e := range o.Log {
		if e.Kind == "fail" {
			cnt("connect-refused")
		}
	}
	rec.Findings = r.f
	if len(o.Spec.Servers) > 0 {
		cnt("server-list")
		cnt(fmt.Sprintf("server-list:entries:%d", len(o.Spec.Servers)))
		for i, k := range o.Spec.Servers {
			if k == "live" {
				break
			}
			cnt("server-list:before-live:" + k)
			_ = i
		}
		groups := connectGroups(o.Log, o.Addrs)
		rec.Counts["server-list:connect-calls"] += len(groups)
		if len(groups) <= 40 {
			rec.Groups = groups
		}
		if driver != "" {
			rec.pendingL = &pendingList{o.Spec.Servers, groups, listLine(o.Spec.Servers, o.Spec.TimeoutMs)}
		}
	}
	if driver != "" {
		w := buildWitness(o, an)
		if w.skip != "" {
			rec.WitnessSkip = w.skip
		} else {
			rec.pending = &pendingReplay{o, an, w}
		}
	}
	// the byte streams and the frames are not needed any more (the model replay at the end of the batch
	// works on the analysis): a thorough batch would otherwise hold gigabytes
	for _, c := range o.Conns {
		c.data = nil
	}
	for _, s := range o.Sends {
		s.frame, s.tp = nil, nil
	}
	return rec
}

// shapeOf: the coarse shape of a scenario (for "stop feeding scenarios that block the client for ever")
func shapeOf(sp scenarioSpec) string {
	s := sp.Mode
	if len(sp.Script) > 0 {
		s += " with faults"
	} else {
		s += " without faults"
	}
	if sp.Batch {
		s += ", SendAndClear"
	}
	return s
}

func crashClass(sp scenarioSpec) string {
	if sp.Senders > 1 {
		return sp.Mode + ":concurrent-senders"
	}
	return sp.Mode + ":single-sender"
}

// childMain: run the jobs of the spec file, stream records.
var childStart = time.Now()

func childMain(env *vh.Env) {
	if *flagChildD71 {
		budget := 8 * time.Second
		if env.Thorough {
			budget = 40 * time.Second
		}
		b, _ := json.Marshal(runD71(env.Seed, budget))
		os.WriteFile(*flagChildOut, b, 0o644)
		return
	}
	if *flagChildD70 {
		budget := 8 * time.Second
		if env.Thorough {
			budget = 60 * time.Second
		}
		b, _ := json.Marshal(runD70(env.Seed, budget))
		os.WriteFile(*flagChildOut, b, 0o644)
		return
	}
	if *flagChildD42 {
		budget, trials := 25*time.Second, 66
		if env.Thorough {
			budget, trials = 90*time.Second, 400
		}
		d := runD42(trials, budget, env.Seed)
		b, _ := json.Marshal(d)
		os.WriteFile(*flagChildOut, b, 0o644)
		return
	}
	b, err := os.ReadFile(*flagChild)
	if err != nil {
		vh.Die("child: %v", err)
	}
	var jobs []job
	if err := json.Unmarshal(b, &jobs); err != nil {
		vh.Die("child: %v", err)
	}
	out, err := os.OpenFile(*flagChildOut, os.O_CREATE|os.O_WRONLY|os.O_APPEND, 0o644)
	if err != nil {
		vh.Die("child: %v", err)
	}
	var mu sync.Mutex
	emit := func(r scenRecord) {
		b, _ := json.Marshal(r)
		mu.Lock()
		out.Write(append(b, '\n'))
		mu.Unlock()
	}
	par := *flagChildPar
	if par <= 0 {
		par = 96
	}
	if *flagChildAlone {
		callWatchdog, stopWatchdog = 75*time.Second, 45*time.Second
	}
	var voidOnce sync.Once
	voidBatch := func() {
		if len(jobs) == 1 {
			return
		}
		voidOnce.Do(func() {
			go func() {
				time.Sleep(voidGrace)
				emit(scenRecord{Event: "void"})
				out.Sync()
				os.Exit(0)
			}()
		})
	}
	sem := make(chan struct{}, par)
	// memory: the scenarios in flight hold their packs, reference frames and received streams; the sum of
	// their estimates stays under the budget (a scenario heavier than the whole budget runs alone), and the
	// collector is told to work harder before the process gets big
	budget := *flagChildMem
	if budget <= 0 {
		budget = 3 << 30
	}
	debug.SetMemoryLimit(budget + 256<<20)
	gate := newMemGate(budget)
	var wg sync.WaitGroup
	var pmu sync.Mutex
	var pend, pendL []*scenRecord
	for _, j := range jobs {
		wg.Add(1)
		sem <- struct{}{}
		wgt := specWeight(j.Spec)
		go func(j job) {
			defer wg.Done()
			defer func() { <-sem }()
			// (waiting here, not in the dispatch loop: a heavy scenario that has to wait for memory does not
			// hold back the light ones behind it)
			gate.acquire(wgt)
			defer gate.release(wgt)
			emit(scenRecord{Event: "start", Idx: j.Idx, Spec: j.Spec})
			r := evaluate(j, env.Driver)
			if r.pending != nil {
				pmu.Lock()
				rr := r
				pend = append(pend, &rr)
				pmu.Unlock()
			}
			if r.pendingL != nil {
				pmu.Lock()
				rr := r
				pendL = append(pendL, &rr)
				pmu.Unlock()
			}
			if p := os.Getenv("C06_DEBUG"); strings.HasPrefix(p, "/") {
				// C06_DEBUG=/path: one line per scenario appended to that file
				if f, err := os.OpenFile(p, os.O_CREATE|os.O_WRONLY|os.O_APPEND, 0o644); err == nil {
					fmt.Fprintf(f, "%-60s faults=%d/%d conns=%d sends=%d recv=%d done_at=%dms wall=%dms\n", j.Spec.Name, r.Faults, len(j.Spec.Script), len(r.Conns), r.Sends, r.Received, time.Since(childStart).Milliseconds(), r.WallMs)
					f.Close()
				}
			} else if p != "" {
				fmt.Fprintf(os.Stderr, "%-40s cap=%d faults=%d/%d conns=%d sends=%d recv=%d wall=%dms\n", j.Spec.Name, j.Spec.QueueCap, r.Faults, len(j.Spec.Script), len(r.Conns), r.Sends, r.Received, r.WallMs)
			}
			emit(r)
			if r.Stuck != "" {
				voidBatch()
			}
		}(j)
	}
	wg.Wait()
	// model replay of everything that finished, in one driver run
	pmu.Lock()
	defer pmu.Unlock()
	if len(pendL) > 0 && env.Driver != "" {
		// server lists: what the model's Connect() does with each list, against the Connect() calls observed
		lines := make([]string, len(pendL))
		for i, r := range pendL {
			lines[i] = r.pendingL.line
		}
		outs, err := vh.RunDriver(env.Driver, lines)
		for i, r := range pendL {
			c := scenRecord{Event: "corrL", Idx: r.Idx, Spec: r.Spec, ListLine: lines[i]}
			if err != nil {
				c.ListCorr = "driver: " + err.Error()
			} else {
				v := compareListDriver(r.pendingL.kinds, r.pendingL.groups, outs[i])
				c.ListOut, c.ListCorr, c.List = outs[i], v.Corr, &v
			}
			emit(c)
		}
	}
	if len(pend) > 0 && env.Driver != "" {
		lines := make([]string, len(pend))
		for i, r := range pend {
			lines[i] = r.pending.w.line
		}
		outs, err := vh.RunDriver(env.Driver, lines)
		// second placement of accepted Puts for the witnesses the driver refused at a Put / take
		var retry []int
		if err == nil {
			for i, r := range pend {
				if rejectedAtPut(outs[i]) && r.Spec.Mode == "queue" {
					retry = append(retry, i)
				}
			}
		}
		if len(retry) > 0 {
			alt := make([]string, len(retry))
			alts := make([]*witness, len(retry))
			for k, i := range retry {
				alts[k] = buildWitnessMode(pend[i].pending.o, pend[i].pending.an, true)
				alt[k] = alts[k].line
			}
			if outs2, err2 := vh.RunDriver(env.Driver, alt); err2 == nil {
				for k, i := range retry {
					if !rejectedAtPut(outs2[k]) {
						outs[i], lines[i], pend[i].pending.w = outs2[k], alt[k], alts[k]
					}
				}
			}
		}
		for i, r := range pend {
			c := scenRecord{Event: "corr", Idx: r.Idx, Spec: r.Spec, Line: vh.Clip(lines[i], 4000)}
			if err != nil {
				c.Corr = "driver: " + err.Error()
			} else if rejectedAtPut(outs[i]) && r.Spec.Mode == "queue" {
				// neither placement of the Puts is the real interleaving: not an observation the harness can order
				c.WitnessSkip = "the order of concurrent Puts and takes could not be reconstructed (" + vh.Clip(outs[i], 80) + ")"
			} else {
				c.DriverOut = vh.Clip(outs[i], 4000)
				c.Corr = compareWitness(r.pending.o, r.pending.an, r.pending.w, outs[i])
				c.Admitted = c.Corr == ""
				if c.Corr != "" && len(r.pending.o.Log) < 200 {
					c.Log = r.pending.o.Log
				}
			}
			emit(c)
		}
	}
	out.Close()
}

// specWeight estimates the bytes a scenario holds while it runs: every pack is kept as the pack itself, its
// reference frame, the bytes the collector stand-in received, and (transiently) the client's copy.
func specWeight(sp scenarioSpec) int64 {
	pre := sp.PreMax // an upper bound that the paced senders of long scripts rarely reach
	if pre > 300 {
		pre = 300
	}
	sends := int64(sp.Senders) * int64(pre+sp.Post)
	per := int64(600)
	switch {
	case sp.BigAll > 0:
		per = int64(sp.BigAll) * 9 / 8
	case sp.Big > 0:
		per += int64(sp.Big) * 3 / 4 * 15 / 100
	}
	if sp.PostBig > 0 && int64(sp.PostBig) > per {
		per = int64(sp.PostBig)
	}
	if n := len(sp.Sizes); n > 0 {
		per = 0
		for _, s := range sp.Sizes {
			per += int64(s)
		}
		per /= int64(n)
	}
	return 4*sends*per + 8<<20
}

// memGate admits work while the sum of the weights in flight stays under the budget.
type memGate struct {
	mu     sync.Mutex
	cond   *sync.Cond
	budget int64
	used   int64
	n      int
}

func newMemGate(budget int64) *memGate {
	g := &memGate{budget: budget}
	g.cond = sync.NewCond(&g.mu)
	return g
}
func (g *memGate) acquire(w int64) {
	g.mu.Lock()
	for g.n > 0 && g.used+w > g.budget {
		g.cond.Wait()
	}
	g.used += w
	g.n++
	g.mu.Unlock()
}
func (g *memGate) release(w int64) {
	g.mu.Lock()
	g.used -= w
	g.n--
	g.mu.Unlock()
	g.cond.Broadcast()
}

type childRun struct {
	done     map[int]*scenRecord
	inflight []job // started, not finished
	rest     []job // never started
	exitErr  string
	void     bool // the child gave the batch up: a scenario reported the client stuck
	timedOut bool
	stderr   string
}

var tmpSeq int
var tmpMu sync.Mutex

func tmpName(dir, what string) string {
	tmpMu.Lock()
	tmpSeq++
	n := tmpSeq
	tmpMu.Unlock()
	return filepath.Join(dir, fmt.Sprintf("c06-%d-%s-%d", os.Getpid(), what, n))
}

// runChild runs the jobs in one child process.
func runChild(env *vh.Env, jobs []job, par int, timeout time.Duration) *childRun {
	return runChildMem(env, jobs, par, 0, timeout)
}

// killedByOS: the child ended with SIGKILL that this process did not send (its own timeout kills are
// flagged separately).  A Go program cannot end like that on its own — a crash of the client is an exit
// with a panic or "fatal error" trace, a deadlock is reported by the runtime, a hang runs into the
// timeout — so this is the kernel's out-of-memory killer (or an operator): a statement about the
// machine, not about the client.
func (cr *childRun) killedByOS() bool {
	return !cr.timedOut && strings.Contains(cr.exitErr, "signal: killed")
}

func runChildMem(env *vh.Env, jobs []job, par int, mem int64, timeout time.Duration) *childRun {
	cr := &childRun{done: map[int]*scenRecord{}}
	dir := os.TempDir()
	specFile, outFile := tmpName(dir, "specs.json"), tmpName(dir, "results.jsonl")
	defer os.Remove(specFile)
	defer os.Remove(outFile)
	b, _ := json.Marshal(jobs)
	if err := os.WriteFile(specFile, b, 0o644); err != nil {
		cr.exitErr = err.Error()
		cr.rest = jobs
		return cr
	}
	exe, err := os.Executable()
	if err != nil {
		cr.exitErr = err.Error()
		cr.rest = jobs
		return cr
	}
	ctx, cancel := context.WithTimeout(context.Background(), timeout)
	defer cancel()
	cmd := exec.CommandContext(ctx, exe, "-child", specFile, "-child-out", outFile, "-child-par", fmt.Sprint(par),
		"-child-mem", fmt.Sprint(mem), "-driver", env.Driver, "-tier", env.Tier, "-seed", fmt.Sprint(env.Seed), "-repo", env.Repo)
	if len(jobs) == 1 {
		cmd.Args = append(cmd.Args, "-child-alone")
	}
	var errb tailBuffer
	cmd.Stderr = &errb
	cmd.Stdout = &errb
	runErr := cmd.Run()
	cr.stderr = errb.String()
	if os.Getenv("C06_DEBUG") != "" {
		fmt.Fprintln(os.Stderr, cr.stderr)
	}
	if ctx.Err() == context.DeadlineExceeded {
		cr.timedOut = true
		cr.exitErr = fmt.Sprintf("child process did not finish within %v", timeout)
	} else if runErr != nil {
		cr.exitErr = runErr.Error()
	}
	started := map[int]bool{}
	if f, err := os.Open(outFile); err == nil {
		sc := bufio.NewScanner(f)
		sc.Buffer(make([]byte, 1<<20), 1<<28)
		for sc.Scan() {
			var r scenRecord
			if json.Unmarshal(sc.Bytes(), &r) != nil {
				continue // a torn last line
			}
			if r.Event == "void" {
				cr.void = true
			} else if r.Event == "start" {
				started[r.Idx] = true
			} else if r.Event == "done" {
				rr := r
				cr.done[r.Idx] = &rr
			} else if r.Event == "corrL" {
				if d, ok := cr.done[r.Idx]; ok {
					d.ListLine, d.ListOut, d.ListCorr, d.List = r.ListLine, r.ListOut, r.ListCorr, r.List
				}
			} else if r.Event == "corr" {
				if d, ok := cr.done[r.Idx]; ok {
					d.Corr, d.Line, d.DriverOut, d.Admitted, d.Log = r.Corr, r.Line, r.DriverOut, r.Admitted, r.Log
					if r.WitnessSkip != "" {
						d.WitnessSkip = r.WitnessSkip
					}
				}
			}
		}
		f.Close()
	}
	for _, j := range jobs {
		if _, ok := cr.done[j.Idx]; ok {
			continue
		}
		if started[j.Idx] {
			cr.inflight = append(cr.inflight, j)
		} else {
			cr.rest = append(cr.rest, j)
		}
	}
	return cr
}

// tailBuffer keeps the head and the tail of what is written to it.
type tailBuffer struct {
	mu   sync.Mutex
	head bytes.Buffer
	tail []byte
}

func (t *tailBuffer) Write(p []byte) (int, error) {
	t.mu.Lock()
	defer t.mu.Unlock()
	if t.head.Len() < 6000 {
		k := 6000 - t.head.Len()
		if k > len(p) {
			k = len(p)
		}
		t.head.Write(p[:k])
		if k == len(p) {
			return len(p), nil
		}
		t.tail = append(t.tail, p[k:]...)
	} else {
		t.tail = append(t.tail, p...)
	}
	if len(t.tail) > 6000 {
		t.tail = t.tail[len(t.tail)-6000:]
	}
	return len(p), nil
}
func (t *tailBuffer) String() string {
	t.mu.Lock()
	defer t.mu.Unlock()
	if len(t.tail) == 0 {
		return t.head.String()
	}
	return t.head.String() + "\n…\n" + string(t.tail)
}

// crashText extracts what killed the child from its output.
func crashText(s string) string {
	for _, mark := range []string{"fatal error:", "panic:", "unexpected signal", "all goroutines are asleep"} {
		if i := strings.Index(s, mark); i >= 0 {
			return vh.Clip(s[i:], 2500)
		}
	}
	return vh.Clip(s, 1500)
}

type crash struct {
	Key     string
	Summary string
	Replay  map[string]interface{}
}

// runIsolated runs all jobs in child processes and returns the records of the
// scenarios that completed plus the crashes / hangs met.
func runIsolated(env *vh.Env, jobs []job, par int) (map[int]*scenRecord, []crash, []string) {
	done := map[int]*scenRecord{}
	var crashes []crash
	var notes []string
	batchTimeout := 12 * time.Minute
	if env.Thorough {
		batchTimeout = 45 * time.Minute
	}
	pending := jobs
	hangRounds := 0
	stuckShapes := map[string]int{}
	mem := int64(6 << 30)
	if raceEnabled {
		mem = 3 << 29 // the race detector's shadow memory multiplies what a scenario holds
	}
	oomRounds := 0
	for round := 0; len(pending) > 0 && round < 12; round++ {
		cr := runChildMem(env, pending, par, mem, batchTimeout)
		for k, v := range cr.done {
			done[k] = v
		}
		if cr.exitErr == "" && len(cr.inflight) == 0 && len(cr.rest) == 0 {
			pending = nil
			break
		}
		if cr.void {
			// A scenario reported the client stuck.  The send lock is process-wide, so everything that ran in that
			// process after the lock was lost is void and the scenario that noticed may be a victim: the hang is
			// established by running the stuck scenarios alone, each in a fresh process with patient deadlines.
			hangRounds++
			var stuck []job
			for _, j := range pending {
				if r, ok := cr.done[j.Idx]; ok && r.Stuck != "" {
					delete(done, j.Idx)
					stuck = append(stuck, j)
				}
			}
			// Most of them are victims (they wait for the lock another client lost).  Candidates first: a lock is
			// lost on an error path, so scenarios with faults; and a process() that did not stop rather than a
			// sender that waits.  The others go back into the next batch.
			rank := func(j job) int {
				k := 0
				if len(j.Spec.Script) > 0 {
					k += 2
				}
				if strings.HasPrefix(cr.done[j.Idx].Stuck, "process()") {
					k++
				}
				return -k
			}
			sort.SliceStable(stuck, func(a, b int) bool { return rank(stuck[a]) < rank(stuck[b]) })
			alone, back := stuck, []job(nil)
			if len(alone) > 8 {
				alone, back = stuck[:8], stuck[8:]
			}
			var mu sync.Mutex
			var wg sync.WaitGroup
			nConfirmed := 0
			for _, j := range alone {
				wg.Add(1)
				go func(j job) {
					defer wg.Done()
					one := runChild(env, []job{j}, 1, 6*time.Minute)
					mu.Lock()
					defer mu.Unlock()
					if r, ok := one.done[j.Idx]; ok {
						done[j.Idx] = r
						if r.Stuck != "" {
							nConfirmed++
							stuckShapes[shapeOf(j.Spec)]++
						}
						return
					}
					// died or hung beyond every watchdog when alone
					kind, sum := "crash", "the process running the client died"
					if one.timedOut {
						kind, sum = "hang", "the scenario did not finish within 6 min"
					}
					crashes = append(crashes, crash{"client:" + kind + ":" + crashClass(j.Spec),
						fmt.Sprintf("%s while running scenario %q alone: %s", sum, j.Spec.Name, vh.Clip(crashText(one.stderr), 600)),
						map[string]interface{}{"spec": j.Spec, "exit": one.exitErr, "output": crashText(one.stderr)}})
				}(j)
			}
			wg.Wait()
			notes = append(notes, fmt.Sprintf("a batch process was given up: %d scenarios reported the client stuck; %d of them were re-run alone, %d blocked again (reported), the rest of the batch was restarted in a fresh process (round %d)", len(stuck), len(alone), nConfirmed, hangRounds))
			next := append(append(append([]job(nil), back...), cr.inflight...), cr.rest...)
			pending = pending[:0:0]
			skipped := map[string]int{}
			for _, j := range next {
				if sh := shapeOf(j.Spec); stuckShapes[sh] >= 2 {
					skipped[sh]++ // two scenarios of this shape blocked the client for ever: no point in feeding more
					continue
				}
				pending = append(pending, j)
			}
			for sh, n := range skipped {
				notes = append(notes, fmt.Sprintf("%d scenarios of shape %q not run: scenarios of that shape blocked the client for ever %d times (see the send:blocks-forever findings)", n, sh, stuckShapes[sh]))
			}
			if hangRounds >= 3 && len(pending) > 0 {
				notes = append(notes, fmt.Sprintf("%d scenarios not run: batch processes kept getting stuck", len(pending)))
				pending = nil
			}
			continue
		}
		if cr.killedByOS() {
			// out of memory on this machine: the scenarios that did not finish are run again with a quarter
			// of the parallelism and half the memory budget, after a pause; never a finding
			oomRounds++
			notes = append(notes, fmt.Sprintf("child process killed by the operating system (out of memory) with %d scenarios in flight, %d not started; re-running them with less parallelism (round %d)", len(cr.inflight), len(cr.rest), oomRounds))
			pending = append(append([]job(nil), cr.inflight...), cr.rest...)
			if oomRounds >= 5 {
				notes = append(notes, fmt.Sprintf("%d scenarios were not run: the operating system kept killing the process that ran them (out of memory)", len(pending)))
				pending = nil
				break
			}
			if par = par / 4; par < 1 {
				par = 1
			}
			if mem /= 2; mem < 256<<20 {
				mem = 256 << 20
			}
			time.Sleep(time.Duration(oomRounds) * 3 * time.Second)
			continue
		}
		what := "died"
		if cr.timedOut {
			what = "hung"
		}
		notes = append(notes, fmt.Sprintf("child process %s (%s) with %d scenarios in flight, %d not started; in-flight scenarios re-run one per process", what, cr.exitErr, len(cr.inflight), len(cr.rest)))
		// find the culprit: each in-flight scenario alone, up to 8 processes at a time, twice
		attributed := false
		var oomSkipped []string
		var mu sync.Mutex
		var wg sync.WaitGroup
		sem := make(chan struct{}, 8)
		for _, j := range cr.inflight {
			wg.Add(1)
			sem <- struct{}{}
			go func(j job) {
				defer wg.Done()
				defer func() { <-sem }()
				for try := 0; try < 2; try++ {
					one := runChild(env, []job{j}, 1, 8*time.Minute)
					for k := 0; k < 3 && one.killedByOS(); k++ {
						time.Sleep(time.Duration(k+1) * 5 * time.Second)
						one = runChild(env, []job{j}, 1, 8*time.Minute)
					}
					if one.killedByOS() {
						mu.Lock()
						attributed = true // explained: not a crash of the client
						delete(done, j.Idx)
						oomSkipped = append(oomSkipped, j.Spec.Name)
						mu.Unlock()
						return
					}
					if r, ok := one.done[j.Idx]; ok {
						mu.Lock()
						done[j.Idx] = r
						mu.Unlock()
						if try == 1 {
							return
						}
						continue
					}
					kind := "crash"
					sum := "the process running the client died"
					if one.timedOut {
						kind, sum = "hang", "a call into the client never returned (process killed after 8 min)"
					}
					mu.Lock()
					attributed = true
					delete(done, j.Idx)
					crashes = append(crashes, crash{"client:" + kind + ":" + crashClass(j.Spec),
						fmt.Sprintf("%s while running scenario %q alone: %s", sum, j.Spec.Name, vh.Clip(crashText(one.stderr), 600)),
						map[string]interface{}{"spec": j.Spec, "exit": one.exitErr, "output": crashText(one.stderr)}})
					mu.Unlock()
					return
				}
			}(j)
		}
		wg.Wait()
		for _, n := range oomSkipped {
			notes = append(notes, fmt.Sprintf("scenario %q not run: the operating system killed the process that ran it alone (out of memory), four times", n))
		}
		if !attributed && (len(cr.inflight) > 0 || cr.exitErr != "") {
			var specs []scenarioSpec
			cls := "direct:concurrent-senders"
			for i, j := range cr.inflight {
				if i < 6 {
					specs = append(specs, j.Spec)
				}
				if i == 0 {
					cls = crashClass(j.Spec)
				}
			}
			kind := "crash"
			if cr.timedOut {
				kind = "hang"
			}
			crashes = append(crashes, crash{"client:" + kind + ":" + cls + ":under-load",
				fmt.Sprintf("the process running %d scenarios at once %s (%s) and no single in-flight scenario reproduces it alone: %s", len(cr.inflight)+len(cr.done), what, cr.exitErr, vh.Clip(crashText(cr.stderr), 600)),
				map[string]interface{}{"specs_in_flight": specs, "exit": cr.exitErr, "output": crashText(cr.stderr)}})
		}
		pending = cr.rest
	}
	if len(pending) > 0 {
		notes = append(notes, fmt.Sprintf("%d scenarios were never run (child processes kept dying)", len(pending)))
	}
	return done, crashes, notes
}

// runD70Isolated runs the D70 replay (ApplyConfig while sending) in its own process.
func runD70Isolated(env *vh.Env) ([]d70Result, string) {
	var d []d70Result
	exe, err := os.Executable()
	if err != nil {
		return d, err.Error()
	}
	outFile := tmpName(os.TempDir(), "d70.json")
	defer os.Remove(outFile)
	ctx, cancel := context.WithTimeout(context.Background(), 10*time.Minute)
	defer cancel()
	cmd := exec.CommandContext(ctx, exe, "-child-d70", "-child-out", outFile, "-tier", env.Tier, "-seed", fmt.Sprint(env.Seed), "-repo", env.Repo)
	var errb tailBuffer
	cmd.Stderr = &errb
	cmd.Stdout = &errb
	runErr := cmd.Run()
	b, rerr := os.ReadFile(outFile)
	if rerr == nil && json.Unmarshal(b, &d) == nil {
		return d, ""
	}
	msg := "the process running the D70 replay died"
	if runErr != nil {
		msg += " (" + runErr.Error() + ")"
	}
	return d, msg + ": " + crashText(errb.String())
}

// runD71Isolated runs the D71 replay (Close() while sending) in its own process.  Its race reports (the
// replay races Close() against the senders on purpose) go to a log of their own and are counted.
func runD71Isolated(env *vh.Env) (d71Result, string, int) {
	var d d71Result
	exe, err := os.Executable()
	if err != nil {
		return d, err.Error(), 0
	}
	outFile := tmpName(os.TempDir(), "d71.json")
	defer os.Remove(outFile)
	ctx, cancel := context.WithTimeout(context.Background(), 10*time.Minute)
	defer cancel()
	cmd := exec.CommandContext(ctx, exe, "-child-d71", "-child-out", outFile, "-tier", env.Tier, "-seed", fmt.Sprint(env.Seed), "-repo", env.Repo)
	racePrefix := ""
	if p := os.Getenv("C06_RACE_LOG"); p != "" {
		racePrefix = p + "-d71"
		cmd.Env = append(os.Environ(), "GORACE=log_path="+racePrefix+" halt_on_error=0 exitcode=0 history_size=3")
	}
	var errb tailBuffer
	cmd.Stderr = &errb
	cmd.Stdout = &errb
	runErr := cmd.Run()
	races := 0
	if racePrefix != "" {
		files, _ := filepath.Glob(racePrefix + "*")
		for _, f := range files {
			if b, err := os.ReadFile(f); err == nil {
				races += strings.Count(string(b), "DATA RACE")
			}
			os.Remove(f)
		}
	}
	b, rerr := os.ReadFile(outFile)
	if rerr == nil && json.Unmarshal(b, &d) == nil {
		return d, "", races
	}
	msg := "the process running the D71 replay died"
	if runErr != nil {
		msg += " (" + runErr.Error() + ")"
	}
	return d, msg + ": " + crashText(errb.String()), races
}

// runD42Isolated runs the D42 replay in its own process.
func runD42Isolated(env *vh.Env) (d42Result, string) {
	var d d42Result
	exe, err := os.Executable()
	if err != nil {
		return d, err.Error()
	}
	outFile := tmpName(os.TempDir(), "d42.json")
	defer os.Remove(outFile)
	ctx, cancel := context.WithTimeout(context.Background(), 10*time.Minute)
	defer cancel()
	cmd := exec.CommandContext(ctx, exe, "-child-d42", "-child-out", outFile, "-tier", env.Tier, "-seed", fmt.Sprint(env.Seed), "-repo", env.Repo)
	var errb tailBuffer
	cmd.Stderr = &errb
	cmd.Stdout = &errb
	runErr := cmd.Run()
	b, rerr := os.ReadFile(outFile)
	if rerr == nil && json.Unmarshal(b, &d) == nil {
		return d, ""
	}
	msg := "the process running the D42 replay died"
	if runErr != nil {
		msg += " (" + runErr.Error() + ")"
	}
	return d, msg + ": " + crashText(errb.String())
}
