package main

import (
	"encoding/binary"
	"fmt"
	"runtime"
	"strings"
	"sync"
	"sync/atomic"

	gio "github.com/whatap/golib/io"
	"github.com/whatap/golib/lang/pack"
	"github.com/whatap/golib/logger"
	whash "github.com/whatap/golib/util/hash"
	"verif/harness/vh"
)

// ---------------------------------------------------------------- packs

// tpack is a TextPack whose Write reports when the client serialises it.
// makeData calls p.Write under the send lock (direct mode) or on the single
// consumer goroutine (queue mode), so the stamps give the order in which the
// client took the packs.  Pack is a public interface; a user-defined pack is a
// legitimate input.
type tpack struct {
	*pack.TextPack
	onWrite func()
	rec     *sendRec
}

func (p *tpack) Write(o *gio.DataOutputX) {
	if p.onWrite != nil {
		p.onWrite()
	}
	p.TextPack.Write(o)
}

// sendRec is one call of Send/SendFlush and everything observed about it.
type sendRec struct {
	Sid    int    `json:"sid"`
	Sender int    `json:"sender"`
	Seq    int    `json:"seq"`
	Pcode  int64  `json:"pcode"`
	Lic    string `json:"license_override"`
	Eff    string `json:"license_effective"`
	Entry  string `json:"entry"`
	Flush  bool   `json:"flush_flag"`
	Len    int    `json:"frame_len"`
	Inv    int64  `json:"inv"`
	Ret    int64  `json:"ret"`
	Made   int64  `json:"made"`
	Err    string `json:"err"`
	Class  string `json:"class"`

	frame     []byte
	tp        *pack.TextPack
	madePtr   *int64
	taken     int64 // stamp when the client began to serialise the pack (before any stall)
	failStamp int64 // queue mode: stamp taken inside RequestQueue.Put when it refused this pack
}

const frameHdr = 22

// refFrame is the reference encoding of a frame, written from the protocol
// layout and independent of makeData / WriteHeader:
//
//	[10, 0] be8(pcode) be8(hash64(license)) be4(|payload|) payload,  payload = be2(type) body
func refFrame(tp *pack.TextPack, lic string) []byte {
	o := gio.NewDataOutputX()
	o.WriteShort(tp.GetPackType())
	tp.Write(o)
	payload := o.ToByteArray()
	f := make([]byte, frameHdr+len(payload))
	f[0], f[1] = 10, 0
	binary.BigEndian.PutUint64(f[2:], uint64(tp.GetPCODE()))
	binary.BigEndian.PutUint64(f[10:], uint64(whash.Hash64Str(lic)))
	binary.BigEndian.PutUint32(f[18:], uint32(len(payload)))
	copy(f[frameHdr:], payload)
	return f
}

var textLens = []int{0, 1, 7, 30, 100, 252, 253, 254, 255, 256, 1000, 4000}
var licenses = []string{"", "", "", "lic-A", "x", "라이선스-β", "0123456789abcdef0123456789abcdef"}

// genPack builds the pack of send (sender, seq): identity is carried in Time
// and the first text record so that every frame of a scenario is distinct.
func genPack(r *vh.Rng, nonce int32, sender, seq int, big int) (*pack.TextPack, int64) {
	tp := pack.NewTextPack()
	pcode := []int64{0, 1, 127, 128, 12345, -1, 1 << 40, -(1 << 62)}[r.Intn(8)]
	tp.SetPCODE(pcode)
	tp.SetOID(nonce) // per-run nonce: a frame with another Oid comes from a foreign client
	tp.SetTime(int64(sender)<<32 | int64(seq))
	if r.Chance(20) {
		tp.SetOKIND(int32(r.Intn(5)))
		tp.SetONODE(int32(r.Intn(3)))
	}
	tp.AddText(pack.TextRec{Div: byte(r.Intn(60)), Hash: int32(r.U64()), Text: fmt.Sprintf("s%d#%d", sender, seq)})
	n := r.Intn(3)
	for i := 0; i < n; i++ {
		l := r.PickInt(textLens)
		if r.Chance(30) {
			l = r.Intn(600)
		}
		tp.AddText(pack.TextRec{Div: byte(r.Intn(60)), Hash: int32(r.U64()), Text: randText(r, l)})
	}
	if big > 0 {
		tp.AddText(pack.TextRec{Div: 1, Hash: 1, Text: randText(r, big)})
	}
	return tp, pcode
}

func randText(r *vh.Rng, n int) string {
	if n == 0 {
		return ""
	}
	b := make([]byte, n)
	// cheap fill: a random 8-byte word repeated with a counter, ASCII
	w := r.U64()
	for i := range b {
		b[i] = byte('a' + (w>>(uint(i%8)*8)+uint64(i/8))%26)
	}
	return string(b)
}

// ---------------------------------------------------------------- logical clock

type clock struct{ n int64 }

func (c *clock) tick() int64 { return atomic.AddInt64(&c.n, 1) }

// ---------------------------------------------------------------- logger hook

// hookLogger observes what the client reports through its public Logger
// option: connection attempts that failed and connections established.
type hookLogger struct {
	logger.EmptyLogger
	mu        sync.Mutex
	clk       *clock
	fails     int64
	connected int64
	events    []logEvent
	onFail    func(fromProcess bool)
	onConn    func(fromProcess bool)
	wantStack bool
}

type logEvent struct {
	Stamp   int64  `json:"stamp"`
	Kind    string `json:"kind"` // "fail" | "connected"
	Process bool   `json:"process"`
	Apply   bool   `json:"apply_config,omitempty"` // logged from inside ApplyConfig
	// Host: the server the client says it dialled (first argument of its log call); Err: what the dial
	// reported (clipped)
	Host string `json:"host,omitempty"`
	Err  string `json:"err,omitempty"`
}

// logArgs: the host and the error text of the client's "connecting to %q failed: %v" / "Connected %s"
func logArgs(args []interface{}) (host, errText string) {
	if len(args) > 0 {
		host = fmt.Sprint(args[0])
	}
	if len(args) > 1 {
		errText = fmt.Sprint(args[1])
		if len(errText) > 160 {
			errText = errText[:160]
		}
	}
	return
}

func inProcessGoroutine() bool {
	p, _ := whoLogs()
	return p
}

// whoLogs: is the caller inside process() / inside ApplyConfig?
func whoLogs() (process, apply bool) {
	buf := make([]byte, 8192)
	n := runtime.Stack(buf, false)
	s := string(buf[:n])
	return strings.Contains(s, "(*OneWayTcpClient).process"), strings.Contains(s, "(*OneWayTcpClient).ApplyConfig")
}

func (l *hookLogger) Errorf(format string, args ...interface{}) {
	if !strings.HasPrefix(format, "connecting to") {
		return
	}
	fp, fa := whoLogs()
	host, errText := logArgs(args)
	l.mu.Lock()
	l.events = append(l.events, logEvent{l.clk.tick(), "fail", fp, fa, host, errText})
	l.mu.Unlock()
	atomic.AddInt64(&l.fails, 1)
	if l.onFail != nil {
		l.onFail(fp)
	}
}

func (l *hookLogger) Infof(format string, args ...interface{}) {
	if !strings.HasPrefix(format, "Connected") {
		return
	}
	fp, fa := whoLogs()
	host, _ := logArgs(args)
	l.mu.Lock()
	l.events = append(l.events, logEvent{l.clk.tick(), "connected", fp, fa, host, ""})
	l.mu.Unlock()
	atomic.AddInt64(&l.connected, 1)
	if l.onConn != nil {
		l.onConn(fp)
	}
}

func (l *hookLogger) snapshot() []logEvent {
	l.mu.Lock()
	defer l.mu.Unlock()
	return append([]logEvent(nil), l.events...)
}

func errClass(err error) string {
	if err == nil {
		return "ok"
	}
	s := err.Error()
	switch {
	case strings.HasPrefix(s, "cannot connect"):
		return "connect"
	case strings.HasPrefix(s, "buffered writer cannot write"):
		return "write"
	case strings.HasPrefix(s, "cannot set write deadline"):
		return "deadline"
	case strings.HasPrefix(s, "cannot flush"):
		return "flush"
	case strings.HasPrefix(s, "Enqueue Failed"):
		return "enqueue"
	}
	return "other"
}
