package main

import (
	"fmt"
	"io"
	"net"
	"strings"
	"sync/atomic"
	"syscall"
	"time"
)

// Server lists.  The client is configured with a *list* of collectors and Connect() walks it in order:
// "the client reconnects on a later send" has to hold whenever one collector of the list is up,
// whatever stands before it in the list and however that fails — refusing the connection at once
// (nothing listens there) or not answering at all (host down, packets dropped: the dial runs into
// its timeout).  A scenario with Spec.Servers gives the client such a list; exactly one entry
// ("live") is the scripted collector stand-in:
//
//	live     the collector stand-in of the scenario (listening the whole time, follows the fault script)
//	refused  an address nothing listens on
//	gone     an endpoint that never answers a SYN (a listening socket with backlog 0 whose accept
//	         queue is full: the kernel drops further SYNs, the dial times out) — Linux only
//	spare    a second healthy collector *behind* the live one: it must never be connected
//
// What is decided (listCheck): every Connect() call shows in the client's log as a run of
// "connecting to <host> failed" lines ended by "Connected <host>" or by the end of the list; the
// Lean model (Golib.Tcp.Dial.connectList, asked through the driver) says which entry is reached and
// which dials fail before it.  A live collector that is never reached is reported as a failure of the
// property itself (recovers:<mode>:live-server-of-list-not-reached), together with the sentinel
// check of every scenario (recovers:<mode>:no-delivery-after-faults).

type endpoint struct {
	kind     string
	addr     string
	fd       int
	fill     []net.Conn
	ln       net.Listener
	accepted int32
}

func (e *endpoint) close() {
	for _, c := range e.fill {
		c.Close()
	}
	if e.fd > 0 {
		syscall.Close(e.fd)
	}
	if e.ln != nil {
		e.ln.Close()
	}
}

// newRefused: an address on a loopback IP of this scenario's own on which nothing listens.
func newRefused() (*endpoint, error) {
	ln, err := net.Listen("tcp", uniqueLoopback()+":0")
	if err != nil {
		return nil, err
	}
	a := ln.Addr().String()
	ln.Close()
	return &endpoint{kind: "refused", addr: a}, nil
}

// newGone: an endpoint on which a connect neither succeeds nor is refused.  The accept queue of a
// socket listening with backlog 0 is filled with connections nobody accepts; it counts as built when
// two dials in a row have run into their timeout.
func newGone() (*endpoint, error) {
	ip := net.ParseIP(uniqueLoopback()).To4()
	fd, err := syscall.Socket(syscall.AF_INET, syscall.SOCK_STREAM, 0)
	if err != nil {
		return nil, err
	}
	e := &endpoint{kind: "gone", fd: fd}
	if err := syscall.Bind(fd, &syscall.SockaddrInet4{Port: 0, Addr: [4]byte{ip[0], ip[1], ip[2], ip[3]}}); err != nil {
		e.close()
		return nil, err
	}
	if err := syscall.Listen(fd, 0); err != nil {
		e.close()
		return nil, err
	}
	sa, err := syscall.Getsockname(fd)
	if err != nil {
		e.close()
		return nil, err
	}
	e.addr = fmt.Sprintf("%s:%d", ip.String(), sa.(*syscall.SockaddrInet4).Port)
	timeouts := 0
	for i := 0; i < 24 && timeouts < 2; i++ {
		c, err := net.DialTimeout("tcp", e.addr, 250*time.Millisecond)
		if err == nil {
			e.fill = append(e.fill, c)
			timeouts = 0
			continue
		}
		if ne, ok := err.(net.Error); ok && ne.Timeout() {
			timeouts++
			continue
		}
		e.close()
		return nil, fmt.Errorf("unexpected dial error while filling the accept queue: %v", err)
	}
	if timeouts < 2 {
		e.close()
		return nil, fmt.Errorf("the accept queue never filled")
	}
	return e, nil
}

// newSpare: a healthy collector that accepts and reads whatever it is sent.
func newSpare() (*endpoint, error) {
	ln, err := net.Listen("tcp", uniqueLoopback()+":0")
	if err != nil {
		return nil, err
	}
	e := &endpoint{kind: "spare", addr: ln.Addr().String(), ln: ln}
	go func() {
		for {
			c, err := ln.Accept()
			if err != nil {
				return
			}
			atomic.AddInt32(&e.accepted, 1)
			go func() { io.Copy(io.Discard, c); c.Close() }()
		}
	}()
	return e, nil
}

// buildServerList: the addresses for the client, in list order, and the endpoints to close afterwards.
func buildServerList(kinds []string, liveAddr string) ([]string, []*endpoint, error) {
	var addrs []string
	var eps []*endpoint
	fail := func(err error) ([]string, []*endpoint, error) {
		for _, e := range eps {
			e.close()
		}
		return nil, nil, err
	}
	for _, k := range kinds {
		var e *endpoint
		var err error
		switch k {
		case "live":
			e = &endpoint{kind: "live", addr: liveAddr}
		case "refused":
			e, err = newRefused()
		case "gone":
			e, err = newGone()
		case "spare":
			e, err = newSpare()
		default:
			err = fmt.Errorf("unknown server kind %q", k)
		}
		if err != nil {
			return fail(fmt.Errorf("server list entry %q: %v", k, err))
		}
		eps = append(eps, e)
		addrs = append(addrs, e.addr)
	}
	return addrs, eps, nil
}

// connGroup is one Connect() call as the client's log shows it.
type connGroup struct {
	Failed    []int    `json:"failed_entries"`         // list indices whose dial was reported failed, in log order
	Errs      []string `json:"errors,omitempty"`       // what those dials reported
	Connected int      `json:"connected_entry"`        // list index connected, -1: "could not connect to any server"
	Unknown   string   `json:"unknown_host,omitempty"` // a host that is not in the list
}

// connectGroups splits the log into Connect() calls: a call's dials go through the list with strictly
// increasing indices; "Connected" ends it.  (Connect() calls do not overlap in these scenarios: the
// first is made before process() starts, all later ones under the send lock.)
func connectGroups(log []logEvent, addrs []string) []connGroup {
	idx := map[string]int{}
	for i, a := range addrs {
		if _, dup := idx[a]; !dup {
			idx[a] = i
		}
	}
	var out []connGroup
	cur := connGroup{Connected: -1}
	last := -1
	open := false
	flush := func() {
		if open {
			out = append(out, cur)
		}
		cur, last, open = connGroup{Connected: -1}, -1, false
	}
	for _, e := range log {
		host := strings.Trim(e.Host, `"`)
		i, known := idx[host]
		if !known {
			flush()
			out = append(out, connGroup{Connected: -1, Unknown: host})
			continue
		}
		switch e.Kind {
		case "fail":
			if open && i <= last {
				flush()
			}
			cur.Failed = append(cur.Failed, i)
			cur.Errs = append(cur.Errs, e.Err)
			last, open = i, true
		case "connected":
			if open && i <= last {
				flush()
			}
			cur.Connected = i
			open = true
			flush()
		}
	}
	flush()
	return out
}

// listLine: the driver request for what Connect() does with this list (time unit: milliseconds).
func listLine(kinds []string, timeoutMs int) string {
	var s []string
	for _, k := range kinds {
		switch k {
		case "refused":
			s = append(s, "r")
		case "gone":
			s = append(s, "g")
		default:
			s = append(s, "u0")
		}
	}
	return fmt.Sprintf("L %d %s", timeoutMs, strings.Join(s, ","))
}

// listVerdict is the comparison of the observed Connect() calls with the model's answer.
type listVerdict struct {
	Groups        int    `json:"connect_calls"`
	Agree         int    `json:"as_the_model"`
	TimeoutOnLive int    `json:"live_collector_dial_timed_out"` // the dial of a listening collector was reported "i/o timeout"
	OtherOnLive   int    `json:"live_collector_dial_failed_otherwise"`
	Order         int    `json:"wrong_order_or_wrong_server"`
	Example       string `json:"example,omitempty"`
	Corr          string `json:"-"`
	Property      string `json:"-"`
}

// compareListDriver: `out` is the driver's answer "ok <idx|-> <fails> <time>".
func compareListDriver(kinds []string, groups []connGroup, out string) listVerdict {
	f := strings.Fields(out)
	if len(f) != 4 || f[0] != "ok" {
		return listVerdict{Groups: len(groups), Corr: "unexpected driver answer: " + out}
	}
	want := -1
	if f[1] != "-" {
		fmt.Sscan(f[1], &want)
	}
	var wantFails int
	fmt.Sscan(f[2], &wantFails)
	return compareList(kinds, groups, want, wantFails)
}

// liveIndex: the list position of the scripted collector (the first entry that accepts, by construction).
func liveIndex(kinds []string) int {
	for i, k := range kinds {
		if k == "live" {
			return i
		}
	}
	return -1
}

// compareList: want = the entry Connect() has to reach (-1: none), wantFails = failed dials before it.
func compareList(kinds []string, groups []connGroup, want, wantFails int) listVerdict {
	v := listVerdict{Groups: len(groups)}
	for _, g := range groups {
		ok := g.Unknown == "" && g.Connected == want && len(g.Failed) == wantFails
		for i, x := range g.Failed {
			if x != i {
				ok = false
			}
		}
		if ok {
			v.Agree++
			continue
		}
		// why not: did the dial of a collector that is listening fail?
		liveFailed, liveTimeout := false, false
		for i, x := range g.Failed {
			if x < len(kinds) && (kinds[x] == "live" || kinds[x] == "spare") {
				liveFailed = true
				if strings.Contains(g.Errs[i], "timeout") {
					liveTimeout = true
				}
			}
		}
		switch {
		case liveTimeout:
			v.TimeoutOnLive++
		case liveFailed:
			v.OtherOnLive++
		default:
			v.Order++
		}
		if v.Example == "" || (liveTimeout && !strings.Contains(v.Example, "timeout")) {
			v.Example = fmt.Sprintf("a Connect() call reported failed dials of entries %v (%s) and connected entry %d; the model: failed dials of entries 0..%d, connected entry %d", g.Failed, strings.Join(g.Errs, " | "), g.Connected, wantFails-1, want)
		}
	}
	// A dial of a listening collector that the client reports as failed for another reason than a timeout can
	// be the collector's own reset racing the dialer (a scripted cut before any byte): tolerated.  Timeouts on
	// a listening loopback collector are counted and reported when they are the rule, not a single event.
	bad := v.TimeoutOnLive + v.Order
	if v.Order > 0 || (v.TimeoutOnLive >= 3 && 2*v.TimeoutOnLive > v.Groups) {
		v.Corr = fmt.Sprintf("%d of %d Connect() calls did not do what the model's connectList does with the server list %v: %s", bad, v.Groups, kinds, v.Example)
	}
	if want >= 0 && v.TimeoutOnLive >= 3 && 2*v.TimeoutOnLive > v.Groups {
		v.Property = fmt.Sprintf("the collector at entry %d of the server list %v was listening the whole time, yet %d of %d Connect() calls reported its dial as timed out and the client never reached it: %s", want, kinds, v.TimeoutOnLive, v.Groups, v.Example)
	}
	return v
}
