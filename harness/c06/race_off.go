//go:build !race

package main

import "verif/harness/vh"

const raceEnabled = false

func reexecForRaceLog(env *vh.Env)  {}
func collectRaceLog(rep *vh.Report) {}
