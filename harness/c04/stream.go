package main

// Stream input path: the same decoders reading through io.NewDataInputNet over an in-memory
// net.Conn that serves a byte slice in chosen fragments and ends in one of the ways a real
// connection can end: (n>0, io.EOF) together with the last bytes, (0, io.EOF) after them, an error
// together with the last bytes, or an error after them.  Whatever the fragmentation, a stream cut
// before the end of a complete encoding must make the decoder fail (no read may return bytes that
// were not in its input), and the complete encoding must decode to the same object as from a slice.

import (
	"bytes"
	"errors"
	"fmt"
	"io"
	"net"
	"os"
	"strconv"
	"strings"
	"sync"
	"time"

	gio "github.com/whatap/golib/io"
	"verif/harness/vh"
)

// timeoutErr: what a read deadline produces (net.Error with Timeout() and Temporary() true)
type timeoutErr struct{}

func (timeoutErr) Error() string   { return "i/o timeout" }
func (timeoutErr) Timeout() bool   { return true }
func (timeoutErr) Temporary() bool { return true }

var _ net.Error = timeoutErr{}

var errReset = errors.New("connection reset by peer")

// the ways a connection can end: each error either together with the last bytes or after them
var endErrs = []error{io.EOF, errReset, timeoutErr{}, os.ErrDeadlineExceeded, io.ErrUnexpectedEOF}
var endErrNames = []string{"eof", "reset", "net-timeout", "deadline-exceeded", "unexpected-eof"}

const endModes = 10 // 2*i = endErrs[i] together with the last bytes, 2*i+1 = after them

const (
	endEOFWithData = 0
	endEOFAfter    = 1
	endErrAfter    = 3
)

func endWithData(end int) bool { return end%2 == 0 }
func endErr(end int) error     { return endErrs[(end/2)%len(endErrs)] }
func endName(end int) string {
	if endWithData(end) {
		return endErrNames[(end/2)%len(endErrs)] + "-with-data"
	}
	return endErrNames[(end/2)%len(endErrs)] + "-after-data"
}

type fragConn struct {
	data  []byte
	pos   int
	frags []int // sizes of the fragments, cyclic
	fi    int
	end   int
}

func (c *fragConn) Read(p []byte) (int, error) {
	if len(p) == 0 {
		return 0, nil
	}
	if c.pos >= len(c.data) {
		return 0, endErr(c.end) // every later Read reports the same end
	}
	k := c.frags[c.fi%len(c.frags)]
	c.fi++
	if k > len(p) {
		k = len(p)
	}
	if k > len(c.data)-c.pos {
		k = len(c.data) - c.pos
	}
	copy(p, c.data[c.pos:c.pos+k])
	c.pos += k
	if c.pos == len(c.data) && endWithData(c.end) {
		return k, endErr(c.end)
	}
	return k, nil
}
func (c *fragConn) Write(p []byte) (int, error)        { return len(p), nil }
func (c *fragConn) Close() error                       { return nil }
func (c *fragConn) LocalAddr() net.Addr                { return &net.TCPAddr{} }
func (c *fragConn) RemoteAddr() net.Addr               { return &net.TCPAddr{} }
func (c *fragConn) SetDeadline(t time.Time) error      { return nil }
func (c *fragConn) SetReadDeadline(t time.Time) error  { return nil }
func (c *fragConn) SetWriteDeadline(t time.Time) error { return nil }

var fragPlans = [][]int{{1 << 20}, {1}, {2}, {3, 1}, {1, 7}, {5}, {4, 4, 1}, {64}}

func decodeStream(kind string, b []byte, frags []int, end int) interface{} {
	conn := &fragConn{data: b, frags: frags, end: end}
	return decodeIn(kind, gio.NewDataInputNet(conn), b)
}

func streamSweep(env *vh.Env, rep *vh.Report, rng *vh.Rng, encs []enc) {
	type finding struct {
		key, summary string
		rc           replayCase
		kind         string
	}
	var mu sync.Mutex
	var found []finding
	type mline struct {
		line   string
		realOK bool
		rc     replayCase
	}
	var mlines []mline
	counts := map[string]int{}
	var wg sync.WaitGroup
	sem := make(chan struct{}, 12)
	seeds := make([]*vh.Rng, len(encs))
	for i := range encs {
		seeds[i] = rng.Fork()
	}
	for ei := range encs {
		e := encs[ei]
		if !streamable(e.kind) {
			continue
		}
		wg.Add(1)
		sem <- struct{}{}
		go func(e enc, r *vh.Rng) {
			defer wg.Done()
			defer func() { <-sem }()
			local := map[string]int{}
			var fs []finding
			var ml []mline
			planStr := func(pi int) string {
				out := ""
				for i, k := range fragPlans[pi] {
					if i > 0 {
						out += ","
					}
					out += strconv.Itoa(k)
				}
				return out
			}
			// the complete encoding: same object as from a byte slice, in every way the stream can
			// end after the data (an end signalled together with the last bytes is allowed to fail)
			var ref []byte
			refOK := vh.Guard(func() { ref = reencode(decodeIn(e.kind, gio.NewDataInputX(e.b), e.b)) }).OK()
			for pi, plan := range fragPlans {
				end := []int{1, 3, 5, 7, 9}[pi%5] // the end is signalled after the data
				var got []byte
				o := vh.Guard(func() { obj := decodeStream(e.kind, e.b, plan, end); got = reencode(obj) })
				local["stream:full:"+o.String()]++
				if strings.HasPrefix(e.kind, "prim:") {
					ml = append(ml, mline{"C " + planStr(pi) + " " + e.kind[5:] + " " + vh.Hex(e.b), o.OK(),
						replayCase{Mode: "stream", Kind: e.kind, Typ: e.typ, Hex: vh.Hex(e.b), N: len(e.b), What: strconv.Itoa(pi) + ":" + strconv.Itoa(end)}})
				}
				what := fmt.Sprintf("fragments %v, %s", plan, endName(end))
				if refOK && !o.OK() {
					fs = append(fs, finding{"stream-rejects-complete:" + e.typ, e.typ + ": the complete encoding is refused when it arrives over a connection (" + what + "): " + vh.Clip(o.Panic, 80),
						replayCase{Mode: "stream", Kind: e.kind, Typ: e.typ, Hex: vh.Hex(e.b), N: len(e.b), What: strconv.Itoa(pi) + ":" + strconv.Itoa(end)}, "property"})
				} else if refOK && !bytes.Equal(ref, got) {
					fs = append(fs, finding{"stream-differs:" + e.typ, e.typ + ": the complete encoding decodes to a different object over a connection (" + what + ")",
						replayCase{Mode: "stream", Kind: e.kind, Typ: e.typ, Hex: vh.Hex(e.b), N: len(e.b), What: strconv.Itoa(pi) + ":" + strconv.Itoa(end)}, "property"})
				}
			}
			// every truncation point, fragmentation and end mode varied
			lens := prefixLens(len(e.b), r)
			for _, n := range lens {
				pi := r.Intn(len(fragPlans))
				end := r.Intn(endModes)
				if n%5 == 0 {
					end = endEOFWithData
				}
				o := vh.Guard(func() { decodeStream(e.kind, e.b[:n], fragPlans[pi], end) })
				local["stream-prefix:"+endName(end)+":"+o.String()]++
				if strings.HasPrefix(e.kind, "prim:") {
					ml = append(ml, mline{"C " + planStr(pi) + " " + e.kind[5:] + " " + vh.Hex(e.b[:n]), o.OK(),
						replayCase{Mode: "stream", Kind: e.kind, Typ: e.typ, Hex: vh.Hex(e.b), N: n, What: strconv.Itoa(pi) + ":" + strconv.Itoa(end)}})
				}
				if o.OK() {
					fs = append(fs, finding{"stream-short-read-accepted", fmt.Sprintf("%s: a connection that ends after %d of the %d bytes of a valid encoding (fragments %v, %s) decodes to an object: a read was answered with bytes that were never received", e.typ, n, len(e.b), fragPlans[pi], endName(end)),
						replayCase{Mode: "stream", Kind: e.kind, Typ: e.typ, Hex: vh.Hex(e.b), N: n, What: strconv.Itoa(pi) + ":" + strconv.Itoa(end)}, "property"})
				}
			}
			mu.Lock()
			for k, v := range local {
				counts[k] += v
			}
			found = append(found, fs...)
			mlines = append(mlines, ml...)
			mu.Unlock()
		}(e, seeds[ei])
	}
	wg.Wait()
	for k, v := range counts {
		rep.CountN(k, v)
		if len(k) > 14 && k[:14] == "stream-prefix:" {
			for i := 0; i < v; i++ {
				rep.Evaluations++
			}
		}
	}
	for _, f := range found {
		rep.Fail(f.kind, f.key, f.summary, f.rc)
	}
	// the stream model (FailClosed.runC over the same fragments) must agree with the implementation
	lines := make([]string, len(mlines))
	for i, m := range mlines {
		lines[i] = m.line
	}
	outs, err := vh.RunDriver(env.Driver, lines)
	if err != nil {
		vh.Die("%v", err)
	}
	for i, o := range outs {
		modelOK := strings.HasPrefix(o, "ok")
		rep.Count("model:stream:" + strings.Fields(o)[0])
		if modelOK != mlines[i].realOK {
			rep.Fail("correspondence", "model:stream-outcome",
				fmt.Sprintf("primitive program over a fragmented connection: implementation ok=%v, model %s", mlines[i].realOK, o), mlines[i].rc)
		}
	}
}

// replayStream re-runs one stream case of a replay file.
func replayStream(rep *vh.Report, c replayCase) {
	b := vh.UnHex(c.Hex)
	if c.N > len(b) {
		c.N = len(b)
	}
	pi, end := 0, endEOFWithData
	fmt.Sscanf(c.What, "%d:%d", &pi, &end)
	if pi < 0 || pi >= len(fragPlans) {
		pi = 0
	}
	o := vh.Guard(func() { decodeStream(c.Kind, b[:c.N], fragPlans[pi], end) })
	rep.Case("replay-stream:"+c.Kind+":"+hash8(b)+"@"+strconv.Itoa(c.N), true)
	if c.N < len(b) && o.OK() {
		rep.Fail("property", "stream-short-read-accepted", fmt.Sprintf("%s: a connection that ends after %d of %d bytes decodes to an object", c.Typ, c.N, len(b)), c)
	}
	if c.N == len(b) && !o.OK() {
		rep.Fail("property", "stream-rejects-complete:"+c.Typ, c.Typ+": the complete encoding is refused over a connection", c)
	}
}
