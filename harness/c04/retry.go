package main

// Retry / history stage: fail-closed must hold for every LATER look at the same object.
//
//  A. two-phase decoders (objects that keep raw bytes after Read and decode them in an accessor:
//     StatGeneralPack's table, ZipPack / LogSinkZipPack / Stat*Pack / SMDownCheckPack record tables):
//     the inner payload is damaged (truncated at every point, count/length fields overwritten, bad
//     list type) while the outer frame stays valid, so Read succeeds.  Then every accessor is called
//     three times on the SAME object: an accessor that failed must fail again (never yield an object
//     on retry), IsEmpty() must not flip, and Write / ToBytesPack afterwards must emit exactly the
//     bytes that were read (the still-undecoded form) or fail — never a re-encoded partial object; what
//     it emits must fail the same way when decoded again.  For StatGeneralPack the outcome sequence
//     is also compared with the model (drv_c04 `TH`: FailClosed.Lazy.unpack over the table layout).
//  B. reuse: after a failed Read into an object, a valid Read into the SAME object must give what a
//     fresh decode gives.

import (
	"bytes"
	"fmt"
	"reflect"
	"strings"

	gio "github.com/whatap/golib/io"
	"github.com/whatap/golib/lang/pack"
	"github.com/whatap/golib/lang/service"
	"github.com/whatap/golib/lang/step"
	"github.com/whatap/golib/lang/value"
	"github.com/whatap/golib/util/list"
	"verif/harness/vh"
)

type access struct {
	name string
	call func()
}

// accessorsOf: every way of looking into the lazily decoded part of obj
func accessorsOf(obj interface{}, keys []string) []access {
	var out []access
	v := reflect.ValueOf(obj)
	t := v.Type()
	for i := 0; i < t.NumMethod(); i++ {
		m := t.Method(i)
		if !strings.HasPrefix(m.Name, "Get") || m.Type.NumIn() != 1 || m.Type.NumOut() < 1 {
			continue
		}
		switch m.Type.Out(0).Kind() {
		case reflect.Slice, reflect.Map, reflect.Ptr, reflect.Interface:
			mi := i
			out = append(out, access{m.Name, func() { v.Method(mi).Call(nil) }})
		}
	}
	if g, ok := obj.(*pack.StatGeneralPack); ok {
		for _, k := range keys {
			kk := k
			out = append(out, access{"Get", func() {
				if g.Get(kk) == nil {
					panic("nil column")
				}
			}})
			break
		}
		out = append(out, access{"Iterate", func() { g.Iterate(func(a []string, b []list.AnyList, c int) {}) }})
	}
	return out
}

func fieldBytes(obj interface{}, name string) (reflect.Value, bool) {
	f := reflect.ValueOf(obj).Elem().FieldByName(name)
	if !f.IsValid() {
		return f, false
	}
	return settable(f), true
}

type lazyCase struct {
	typ   string
	outer []byte // valid frame around the damaged inner payload
	inner []byte
	what  string
	keys  []string
}

// damage: the damaged variants of an inner payload
func damage(inner []byte, rng *vh.Rng, max int) (out [][]byte, what []string) {
	add := func(b []byte, w string) {
		if !bytes.Equal(b, inner) {
			out = append(out, b)
			what = append(what, w)
		}
	}
	for n := 0; n < len(inner); n++ { // truncated at every point
		if len(inner) > 200 && n%(len(inner)/100+1) != 0 && n < len(inner)-20 {
			continue
		}
		add(append([]byte{}, inner[:n]...), fmt.Sprintf("truncated@%d", n))
	}
	for off := 0; off < len(inner); off++ {
		for _, p := range patterns {
			if !critical[p.name] && p.name != "b:63" && p.name != "i:ffffffff" && p.name != "s:ffff" && p.name != "b:ff" {
				continue
			}
			if len(out) >= max && rng.Intn(4) != 0 {
				continue
			}
			add(mutate(inner, off, p.b), fmt.Sprintf("%s@%d", p.name, off))
		}
	}
	return
}

func genTablePack(rng *vh.Rng) (*pack.StatGeneralPack, []string) {
	p := pack.NewStatGeneralPack()
	p.Id = genText(rng, false)
	p.Pcode, p.Oid, p.Time = genInt(rng, 8), int32(genInt(rng, 4)), genInt(rng, 8)
	var keys []string
	rows := 1 + rng.Intn(3)
	for c, n := 0, 1+rng.Intn(4); c < n; c++ {
		k := fmt.Sprintf("c%d%s", c, genText(rng, false))
		var l list.AnyList
		switch rng.Intn(5) {
		case 0:
			l = list.NewIntListDefault()
		case 1:
			l = list.NewLongListDefault()
		case 2:
			l = list.NewFloatListDefault()
		case 3:
			l = list.NewDoubleListDefault()
		default:
			l = list.NewStringListDefault()
		}
		for r := 0; r < rows; r++ {
			if l.GetType() == list.ANYLIST_STRING {
				l.AddString(genText(rng, false))
			} else {
				l.AddLong(genInt(rng, 4))
			}
		}
		p.Put(k, l)
		keys = append(keys, k)
	}
	return p, keys
}

// lazyCases builds, for every two-phase type, valid frames around damaged inner payloads.
func lazyCases(rng *vh.Rng, thorough bool, rep *vh.Report) []lazyCase {
	var out []lazyCase
	reps, max := 3, 250
	if thorough {
		reps, max = 12, 600
	}
	// StatGeneralPack: dataBytes
	for i := 0; i < reps; i++ {
		p, keys := genTablePack(rng)
		full, ok := tryEncode(func() []byte { return pack.ToBytesPack(p) })
		if !ok {
			continue
		}
		q, ok2 := pack.ToPack(full).(*pack.StatGeneralPack)
		if !ok2 {
			continue
		}
		f, _ := fieldBytes(q, "dataBytes")
		inner := append([]byte{}, f.Bytes()...)
		ds, ws := damage(inner, rng, max)
		ds, ws = append(ds, inner), append(ws, "intact")
		for k, d := range ds {
			o := pack.NewStatGeneralPack()
			o.Id, o.Pcode, o.Oid, o.Time = p.Id, p.Pcode, p.Oid, p.Time
			fb, _ := fieldBytes(o, "dataBytes")
			fb.SetBytes(d)
			fs, _ := fieldBytes(o, "dataBytesSize")
			fs.SetInt(int64(len(d)))
			if b, ok := tryEncode(func() []byte { return pack.ToBytesPack(o) }); ok {
				out = append(out, lazyCase{"pack.StatGeneralPack", b, d, ws[k], keys})
			}
		}
	}
	// record tables in a `Records` field
	for _, t := range []int16{pack.PACK_ZIP, pack.PACK_LOGSINK_ZIP, pack.PACK_STAT_SQL, pack.PACK_STAT_HTTPC, pack.PACK_STAT_ERROR} {
		for i := 0; i < reps; i++ {
			p := pack.CreatePack(t)
			fillObj(rng, p, 1)
			withRecords(rng, p)
			f, ok := fieldBytes(p, "Records")
			if !ok || f.Len() == 0 {
				continue
			}
			inner := append([]byte{}, f.Bytes()...)
			ds, ws := damage(inner, rng, max/2)
			ds, ws = append(ds, inner), append(ws, "intact")
			for k, d := range ds {
				f.SetBytes(d)
				if b, ok := tryEncode(func() []byte { return pack.ToBytesPack(p) }); ok {
					out = append(out, lazyCase{"pack." + typeName(p)[5:], b, d, ws[k], nil})
				}
			}
		}
	}
	rep.Note("%d two-phase objects with a valid frame around a damaged (or intact) inner payload", len(out))
	return out
}

// retryOne runs the access history of one two-phase object; it returns the outcome of the first
// GetDataTable (1 ok, 0 failed, -1 n/a) and whether the object is a StatGeneralPack table
func retryOne(rep *vh.Report, c lazyCase) (int, bool) {
	isTable := false
	if isDead("retry-type:" + c.typ) {
		rep.Count("retry:skipped-after-established-hang:" + c.typ)
		return -1, false
	}
	rc := replayCase{Mode: "retry", Kind: "pack", Typ: c.typ, Hex: vh.Hex(c.outer), What: c.what}
	rep.Case("retry:"+c.typ+":"+hash8(c.outer), c.what != "intact")
	rep.Count("retry:" + c.typ)
	var obj pack.Pack
	if !vh.Guard(func() { obj = pack.ToPack(c.outer) }).OK() || obj == nil {
		rep.Count("retry:outer-frame-rejected") // the damage reached the frame (a length the frame checks)
		return -1, false
	}
	accs := accessorsOf(obj, c.keys)
	failed := make([]bool, len(accs))
	anyFailed := false
	hung := false
	emptyBefore := false
	if g, ok := obj.(*pack.StatGeneralPack); ok {
		emptyBefore = g.IsEmpty()
	}
	first := -1
	for round := 1; round <= 3 && !hung; round++ {
		for ai, a := range accs {
			o := guardPatient(a.call)
			if o.Timeout {
				rep.Fail("property", c.typ+"."+a.name+":hangs-after-failed-decode",
					fmt.Sprintf("%s: access #%d through %s never returns (inner payload %s)", c.typ, round, a.name, c.what), rc)
				hung = true
				markDead("retry-type:" + c.typ) // established once: the remaining objects of the type are skipped
				break
			}
			if round == 1 {
				failed[ai] = !o.OK()
				if a.name == "GetDataTable" || (a.name == "GetRecords" && (c.typ == "pack.StatSqlPack" || c.typ == "pack.StatHttpcPack")) {
					first = map[bool]int{true: 1, false: 0}[o.OK()]
				}
				// a decode failure: any Get…() accessor; for StatGeneralPack only GetDataTable decides
				// (Get(key) also fails for a column that a differently decoded table does not have)
				if !o.OK() && (a.name == "GetDataTable" || (c.typ != "pack.StatGeneralPack" && strings.HasPrefix(a.name, "Get"))) {
					anyFailed = true
				}
				rep.Count("retry:first-access:" + o.String())
			} else if failed[ai] && o.OK() && anyFailed {
				rep.Fail("property", c.typ+"."+a.name+":accepts-on-retry",
					fmt.Sprintf("%s: %s failed on the first access to a damaged inner payload (%s) and returns an object on access #%d", c.typ, a.name, c.what, round), rc)
			} else if !failed[ai] && !o.OK() && !anyFailedBefore(failed, ai) {
				rep.Fail("property", c.typ+"."+a.name+":fails-on-retry",
					fmt.Sprintf("%s: %s succeeded on the first access and fails on access #%d (%s)", c.typ, a.name, round, c.what), rc)
			}
		}
	}
	if hung {
		return first, false
	}
	if g, ok := obj.(*pack.StatGeneralPack); ok && anyFailed {
		if g.IsEmpty() != emptyBefore {
			rep.Fail("property", c.typ+".IsEmpty:changes-after-failed-decode",
				fmt.Sprintf("%s: IsEmpty() was %v before the failed access and is %v after it (%s)", c.typ, emptyBefore, !emptyBefore, c.what), rc)
		}
		isTable = true
	} else if ok {
		isTable = true
	}
	if anyFailed {
		// Write after the failed accesses: the undecoded bytes, or a failure
		var re []byte
		o := guardPatient(func() { re = pack.ToBytesPack(obj) })
		if o.Timeout {
			rep.Fail("property", c.typ+".Write:hangs-after-failed-decode", c.typ+": Write never returns after a failed access ("+c.what+")", rc)
			markDead("retry-type:" + c.typ)
			return first, isTable
		}
		rep.Count("retry:write-after-failure:" + o.String())
		if o.OK() && !bytes.Equal(re, c.outer) {
			// it may only differ if decoding what it wrote fails in the same accessors
			accepted := ""
			var again pack.Pack
			if vh.Guard(func() { again = pack.ToPack(re) }).OK() && again != nil {
				for ai, a := range accessorsOf(again, c.keys) {
					if ai < len(failed) && failed[ai] && guardPatient(a.call).OK() {
						accepted = a.name
					}
				}
			}
			if accepted != "" {
				rep.Fail("property", c.typ+".Write:re-encodes-partial-object",
					fmt.Sprintf("%s: after the access to a damaged inner payload (%s) failed, Write emits %d bytes that differ from the %d bytes read and that decode without failure through %s: the partial object has become a valid one", c.typ, c.what, len(re), len(c.outer), accepted), rc)
			} else {
				rep.Fail("property", c.typ+".Write:changes-after-failed-decode",
					fmt.Sprintf("%s: after a failed access (%s) Write emits bytes that differ from the bytes read (at byte %d)", c.typ, c.what, firstDiff(re, c.outer)), rc)
			}
		}
	}
	return first, isTable
}

func retrySweep(env *vh.Env, rep *vh.Report, rng *vh.Rng, encs []enc) {
	cases := lazyCases(rng, env.Thorough, rep)
	var lines []string
	var lineCase []int
	firstOK := make([]int, len(cases)) // 1 ok, 0 fail, -1 n/a : GetDataTable round 1 (StatGeneralPack)
	for ci, c := range cases {
		if overBudget() {
			rep.Count("stage-cut-short:retry")
			break
		}
		first, isTable := retryOne(rep, c)
		firstOK[ci] = first
		switch {
		case isTable && c.inner != nil:
			lines = append(lines, "TH "+vh.Hex(c.inner))
			lineCase = append(lineCase, ci)
		case first >= 0 && c.typ == "pack.StatSqlPack":
			lines = append(lines, "RH sql "+vh.Hex(c.inner))
			lineCase = append(lineCase, ci)
		case first >= 0 && c.typ == "pack.StatHttpcPack":
			lines = append(lines, "RH httpc "+vh.Hex(c.inner))
			lineCase = append(lineCase, ci)
		}
	}
	// the model's history for the StatGeneralPack tables
	if len(lines) > 0 {
		outs, err := vh.RunDriver(env.Driver, lines)
		if err != nil {
			vh.Die("%v", err)
		}
		for i, o := range outs {
			c := cases[lineCase[i]]
			want := strings.HasPrefix(o, "ok")
			rep.Count("model:lazy-history:" + c.typ + ":" + strings.Fields(o)[0])
			// (compared for intact and truncated tables; for overwritten ones the shared list layout
			// Layout.decList rejects a negative 3-byte count, which util/list reads as an empty list)
			if firstOK[lineCase[i]] >= 0 && want != (firstOK[lineCase[i]] == 1) && (c.what == "intact" || strings.HasPrefix(c.what, "truncated")) {
				rep.Fail("correspondence", "model:"+c.typ+":lazy-outcome",
					fmt.Sprintf("lazy decode of the inner payload of %s (%s): implementation ok=%v, model %s", c.typ, c.what, firstOK[lineCase[i]] == 1, o),
					replayCase{Mode: "retry", Kind: "pack", Typ: c.typ, Hex: vh.Hex(c.outer), What: c.what})
			}
		}
	}
	reuseSweep(env, rep, rng, encs)
}

func anyFailedBefore(failed []bool, upto int) bool {
	for i := 0; i < len(failed); i++ {
		if failed[i] {
			return true
		}
	}
	return false
}

// ---------------------------------------------------------------- B. reuse of an object after a failed Read

// newReadable: a fresh object of the kind of the encoding, and the bytes its Read takes
func newReadable(e enc) (rw, []byte) {
	switch {
	case e.kind == "value" && len(e.b) > 0:
		var v value.Value
		if !vh.Guard(func() { v = value.CreateValue(e.b[0]) }).OK() {
			return nil, nil
		}
		return v, e.b[1:]
	case e.kind == "pack" && len(e.b) >= 2:
		p := pack.CreatePack(int16(e.b[0])<<8 | int16(e.b[1]))
		if p == nil {
			return nil, nil
		}
		return p, e.b[2:]
	case e.kind == "steps:1" && len(e.b) >= 1:
		s := step.CreateStep(e.b[0])
		if s == nil {
			return nil, nil
		}
		return s, e.b[1:]
	case strings.HasPrefix(e.kind, "sm:"):
		return smCtors[e.kind[3:]](), e.b
	case strings.HasPrefix(e.kind, "stepx:"):
		return stepxCtors[e.kind[6:]](), e.b
	case e.kind == "txrecord":
		return txRW{service.NewTxRecord()}, e.b
	}
	return nil, nil
}

type txRW struct{ t *service.TxRecord }

func (x txRW) Write(o *gio.DataOutputX) { x.t.Write(o) }
func (x txRW) Read(in *gio.DataInputX)  { x.t.Read(in) }

func bodyBytes(o rw) []byte {
	out := gio.NewDataOutputX()
	o.Write(out)
	return out.ToByteArray()
}

func reuseSweep(env *vh.Env, rep *vh.Report, rng *vh.Rng, encs []enc) {
	lastOfType := map[string][]byte{} // body of the previous encoding of the same type
	for _, e := range encs {
		fresh, body := newReadable(e)
		if fresh == nil || len(body) < 2 || isDead("reuse:"+e.typ) || overBudget() {
			continue
		}
		var want []byte
		if !vh.Guard(func() { fresh.Read(gio.NewDataInputX(body)); want = bodyBytes(fresh) }).OK() {
			continue
		}
		tkey := e.typ
		if e.kind == "value" { // the reader is chosen by the type byte
			tkey = fmt.Sprintf("value:%d", e.b[0])
		}
		other := lastOfType[tkey]
		lastOfType[tkey] = body
		// a failed Read first (this encoding truncated at a few points; another encoding of the same
		// type truncated), then the valid Read into the same object
		for ci, cut := range []int{len(body) / 2, len(body) - 1, 1 + rng.Intn(len(body)-1), -1} {
			obj, _ := newReadable(e)
			bad := body
			if cut < 0 {
				if len(other) < 4 {
					continue
				}
				bad, cut = other, len(other)-1-rng.Intn(len(other)/2)
			}
			_ = ci
			if vh.Guard(func() { obj.Read(gio.NewDataInputX(bad[:cut])) }).OK() {
				continue // (a prefix that decodes is the prefix sweep's finding)
			}
			var got []byte
			o := guardPatient(func() { obj.Read(gio.NewDataInputX(body)); got = bodyBytes(obj) })
			rep.Case("reuse:"+e.typ+":"+hash8(e.b)+"@"+fmt.Sprint(cut), true)
			rep.Count("reuse:" + o.String())
			rc := replayCase{Mode: "reuse", Kind: e.kind, Typ: e.typ, Hex: vh.Hex(e.b), N: cut}
			switch {
			case o.Timeout:
				markDead("reuse:" + e.typ)
				rep.Fail("property", "reuse-hangs:"+e.typ, e.typ+": after a failed Read the same object never finishes a valid Read", rc)
			case !o.OK():
				rep.Fail("property", "reuse-fails:"+e.typ, fmt.Sprintf("%s: after a failed Read (input cut at %d) the same object rejects the complete valid input: %s", e.typ, cut, vh.Clip(o.Panic, 80)), rc)
			case !bytes.Equal(got, want):
				// is it the failure that left something behind, or does this type's Read add to what the
				// object already holds whatever happened before?  Same experiment after a SUCCESSFUL Read of
				// the other encoding: if that differs from a fresh decode as well, Read is additive by
				// construction (`table.Put` in a loop, optional sections not reset) and reuse was never
				// a reset — counted, not reported
				additive := false
				if len(other) >= 4 {
					o2, _ := newReadable(e)
					var g2 []byte
					if vh.Guard(func() { o2.Read(gio.NewDataInputX(other)); o2.Read(gio.NewDataInputX(body)); g2 = bodyBytes(o2) }).OK() && !bytes.Equal(g2, want) {
						additive = true
					}
				}
				if additive || reuseMerges[tkey] {
					rep.Count("reuse:read-is-additive:" + e.typ)
				} else {
					rep.Fail("property", "reuse-differs:"+e.typ, fmt.Sprintf("%s: after a failed Read (input cut at %d of %d) a valid Read into the same object gives a different object than a fresh decode (re-encodings differ at byte %d)", e.typ, cut, len(body), firstDiff(got, want)), rc)
				}
			}
		}
	}
}

// types whose Read adds to the tables the object already holds (by construction: `table.Put` in a loop,
// no reset): reusing the object after a failed Read keeps what the failed Read had put — enumerated,
// see notes/C04.md
// (Gen.AllocSites.additiveReaders lists them from the source: MapValue.Read, IntMapValue.Read, …)
var reuseMerges = map[string]bool{"value:80": true, "value:81": true}
