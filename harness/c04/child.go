package main

// Child mode (`harness -child K C`): decodes hostile inputs one after the other under an
// address-space limit, reporting for each the outcome class and the bytes allocated
// (runtime.MemStats.TotalAlloc); the parent watches for death (fatal / out of memory) and
// stalls (timeout).
//
//   stdin :  <idx> <kind> <hex>
//   stdout:  B <idx>                                (before the decode)
//            E <idx> value|panic <allocated> <site> <Available() after>  (site = allocating function when
//                                                    allocated > K*len+C, else -)

import (
	"bufio"
	"fmt"
	"os"
	"os/exec"
	"regexp"
	"runtime"
	"strconv"
	"strings"
	"sync"
	"syscall"
	"time"

	"verif/harness/vh"
)

// confirmDeadline: how long a suspected hang is given when it is run again alone
const confirmDeadline = 150 * time.Second

const childLimitBytes = 2 << 30 // RLIMIT_AS of the child (Go needs ~1 GiB of address space to run at all)

func shortFunc(fn string) string {
	fn = strings.TrimPrefix(fn, "github.com/whatap/golib/")
	if i := strings.LastIndex(fn, "/"); i >= 0 {
		fn = fn[i+1:]
	}
	return fn
}

func decodingPkg(fn string) bool {
	return strings.Contains(fn, "whatap/golib/io.") || strings.Contains(fn, "whatap/golib/lang/") ||
		strings.Contains(fn, "whatap/golib/util/hll.")
}

// heap-profile buckets are per (stack, object size)
type bucketKey struct {
	stack [32]uintptr
	size  int64
}

var prevProfile = map[bucketKey]int64{}

// decoderFrame: a function of the packages that decode (other packages of the repository run
// background goroutines whose allocations are not the decoder's doing)
func decoderFrame(fn string) bool {
	return strings.Contains(fn, "whatap/golib/") && !strings.Contains(fn, "/util/dateutil.")
}

// topAllocSite names the repository function that made the largest allocation since the
// previous call (heap profile, every allocation ≥ 4 KiB is recorded exactly).
func topAllocSite() string {
	for tries := 0; tries < 4; tries++ {
		if s := topAllocSite1(); s != "?" {
			return s
		}
	}
	return "?"
}

func topAllocSite1() string {
	runtime.GC()
	runtime.GC()
	runtime.GC()
	var recs []runtime.MemProfileRecord
	n, ok := runtime.MemProfile(nil, true)
	for tries := 0; ; tries++ {
		recs = make([]runtime.MemProfileRecord, n+256)
		n, ok = runtime.MemProfile(recs, true)
		if ok {
			break
		}
		if tries > 5 {
			return "?"
		}
	}
	best, bestDelta := -1, int64(0)
	for i := 0; i < n; i++ {
		key := bucketKey{stack: recs[i].Stack0}
		if recs[i].AllocObjects > 0 {
			key.size = recs[i].AllocBytes / recs[i].AllocObjects
		}
		d := recs[i].AllocBytes - prevProfile[key]
		prevProfile[key] = recs[i].AllocBytes
		if d > bestDelta {
			// only allocations made below a repository frame
			fr := runtime.CallersFrames(recs[i].Stack())
			for {
				f, more := fr.Next()
				if decoderFrame(f.Function) {
					best, bestDelta = i, d
					break
				}
				if !more {
					break
				}
			}
		}
	}
	if best < 0 {
		return "?"
	}
	// name the innermost function of the decoding packages (an allocation made inside a container
	// constructor of util/hmap is the doing of the decoder that passed the size)
	fr := runtime.CallersFrames(recs[best].Stack())
	first := "?"
	for {
		f, more := fr.Next()
		if decoderFrame(f.Function) {
			if first == "?" {
				first = shortFunc(f.Function)
			}
			if decodingPkg(f.Function) {
				return shortFunc(f.Function)
			}
		}
		if !more {
			break
		}
	}
	return first
}

func childMain(args []string) {
	runtime.MemProfileRate = 4096
	k, _ := strconv.ParseInt(args[0], 10, 64)
	c, _ := strconv.ParseInt(args[1], 10, 64)
	lim := uint64(childLimitBytes)
	if err := syscall.Setrlimit(syscall.RLIMIT_AS, &syscall.Rlimit{Cur: lim, Max: lim}); err != nil {
		fmt.Fprintln(os.Stderr, "child: setrlimit:", err)
		os.Exit(3)
	}
	topAllocSite() // baseline: what package initialisation allocated is not a decoder's doing
	in := bufio.NewReaderSize(os.Stdin, 1<<20)
	out := bufio.NewWriter(os.Stdout)
	var m0, m1 runtime.MemStats
	for {
		line, err := in.ReadString('\n')
		line = strings.TrimSpace(line)
		if line != "" {
			f := strings.SplitN(line, " ", 3)
			if len(f) != 3 {
				fmt.Fprintln(os.Stderr, "child: bad line")
				os.Exit(3)
			}
			b := vh.UnHex(f[2])
			fmt.Fprintf(out, "B %s\n", f[0])
			out.Flush()
			var avail int32
			runtime.ReadMemStats(&m0)
			o := vh.Guard(func() { avail, _ = decodeFull(f[1], b) })
			runtime.ReadMemStats(&m1)
			alloc := int64(m1.TotalAlloc - m0.TotalAlloc)
			class := "value"
			if !o.OK() {
				class = "panic"
			}
			if strings.HasPrefix(o.Panic, hangMarker) {
				class = "hang"
			}
			site := "-"
			if class == "hang" {
				site = strings.ReplaceAll(strings.TrimPrefix(o.Panic, hangMarker), " ", "")
			} else if alloc > k*int64(len(b))+c {
				site = topAllocSite()
			}
			fmt.Fprintf(out, "E %s %s %d %s %d\n", f[0], class, alloc, site, avail)
			out.Flush()
		}
		if err != nil {
			return
		}
	}
}

// ---------------------------------------------------------------- parent side

type hcase struct {
	Kind string `json:"kind"`
	Typ  string `json:"type"` // decoder / object type (for keys and the report)
	Hex  string `json:"hex"`
	What string `json:"what"` // how the input was obtained
}

type hres struct {
	class string // value | panic | fatal | timeout
	alloc int64
	site  string
	avail int32
}

var fatalSiteRe = regexp.MustCompile(`(?m)^(github\.com/whatap/golib/[^\s(]+(?:\([^)]*\))?[^\s(]*)\(`)

func fatalSite(stderr string) string {
	// first repository frame of the running goroutine
	i := strings.Index(stderr, "[running]")
	if i >= 0 {
		stderr = stderr[i:]
	}
	all := fatalSiteRe.FindAllStringSubmatch(stderr, -1)
	if all == nil {
		return "?"
	}
	for _, m := range all {
		if decodingPkg(m[1]) {
			return shortFunc(m[1])
		}
	}
	return shortFunc(all[0][1])
}

type lockedBuf struct {
	mu sync.Mutex
	b  []byte
}

func (l *lockedBuf) Write(p []byte) (int, error) {
	l.mu.Lock()
	defer l.mu.Unlock()
	if len(l.b) < 1<<16 {
		l.b = append(l.b, p...)
	}
	return len(p), nil
}
func (l *lockedBuf) String() string { l.mu.Lock(); defer l.mu.Unlock(); return string(l.b) }

// runChildSeq decodes cases[lo:hi] in child processes (restarted after each death) and stores
// the results in res.
func runChildSeq(self string, k, c int64, cases []hcase, lo, hi int, res []hres, perCase time.Duration) {
	next := lo
	for next < hi {
		for next < hi && isDead("typ:"+cases[next].Typ) {
			next++
		}
		if next >= hi {
			return
		}
		cmd := exec.Command(self, "-child", strconv.FormatInt(k, 10), strconv.FormatInt(c, 10))
		cmd.Env = append(os.Environ(), "GOMEMLIMIT=256MiB", "GOTRACEBACK=single", "GOMAXPROCS=2")
		stdin, _ := cmd.StdinPipe()
		stdout, _ := cmd.StdoutPipe()
		errb := &lockedBuf{}
		cmd.Stderr = errb
		if err := cmd.Start(); err != nil {
			vh.Die("cannot start child: %v", err)
		}
		first := next
		go func() {
			w := bufio.NewWriterSize(stdin, 1<<20)
			for i := first; i < hi; i++ {
				if isDead("typ:" + cases[i].Typ) {
					continue // a hang of this type's decoder is established: its remaining cases are skipped
				}
				fmt.Fprintf(w, "%d %s %s\n", i, cases[i].Kind, cases[i].Hex)
			}
			w.Flush()
			stdin.Close()
		}()
		lines := make(chan string, 1024)
		go func() {
			sc := bufio.NewScanner(stdout)
			sc.Buffer(make([]byte, 1<<16), 1<<20)
			for sc.Scan() {
				lines <- sc.Text()
			}
			close(lines)
		}()
		running := -1
		timedOut := false
	loop:
		for {
			select {
			case l, ok := <-lines:
				if !ok {
					break loop
				}
				f := strings.Fields(l)
				if len(f) >= 2 && f[0] == "B" {
					running, _ = strconv.Atoi(f[1])
				} else if len(f) >= 5 && f[0] == "E" {
					i, _ := strconv.Atoi(f[1])
					a, _ := strconv.ParseInt(f[3], 10, 64)
					av := int64(0)
					if len(f) >= 6 {
						av, _ = strconv.ParseInt(f[5], 10, 32)
					}
					res[i] = hres{f[2], a, f[4], int32(av)}
					next = i + 1
					running = -1
				}
			case <-time.After(perCase):
				timedOut = true
				cmd.Process.Kill()
				break loop
			}
		}
		cmd.Process.Kill()
		cmd.Wait()
		// cases of a type whose hang is established are not fed: step over them
		for next < hi && res[next].class == "" && isDead("typ:"+cases[next].Typ) {
			next++
		}
		if next >= hi {
			return
		}
		// the child died or stalled while decoding case `running` (or before reporting `next`)
		i := next
		if running >= 0 {
			i = running
		}
		if timedOut {
			res[i] = hres{"timeout", 0, "-", 0}
			if perCase < confirmDeadline { // confirm once, alone and patiently; then the type is dead
				r2 := make([]hres, 1)
				runChildSeq(self, k, c, cases[i:i+1], 0, 1, r2, confirmDeadline)
				res[i] = r2[0]
				if r2[0].class == "timeout" {
					markDead("typ:" + cases[i].Typ)
				}
			}
		} else {
			st := errb.String()
			if strings.Contains(st, "harness:") || strings.Contains(st, "child:") {
				vh.Die("child failed: %s", vh.Clip(st, 600))
			}
			res[i] = hres{"fatal", 0, fatalSite(st), 0}
			if !strings.Contains(st, "out of memory") && !strings.Contains(st, "stack overflow") {
				res[i].site = "crash:" + res[i].site + ":" + vh.Clip(strings.SplitN(st, "\n", 2)[0], 80)
			}
		}
		next = i + 1
	}
}

// guardPatient runs f with a watchdog that only bounds hangs: a first deadline of 2 s, and — the
// machine may be busy — a further 40 s before the call is declared hung.  The verdict does not
// depend on how fast the machine is, only on whether the call ever returns.
func guardPatient(f func()) vh.Outcome {
	ch := make(chan vh.Outcome, 1)
	go func() { ch <- vh.Guard(f) }()
	select {
	case o := <-ch:
		return o
	case <-time.After(2 * time.Second):
	}
	select {
	case o := <-ch:
		return o
	case <-time.After(40 * time.Second):
		return vh.Outcome{Timeout: true}
	}
}

func runChildren(self string, k, c int64, cases []hcase, workers int, perCase time.Duration) []hres {
	res := runChildrenOnce(self, k, c, cases, workers, perCase)
	// load-proofing: a watchdog expiry or a death without a Go fatal error (e.g. killed from outside)
	// may be the machine, not the decoder: such a case is run again, alone, with a deadline that only
	// bounds hangs; a real hang / crash reproduces, anything else does not
	again := 0
	for i := range res {
		if again >= 6 {
			break
		}
		if res[i].class == "fatal" && strings.HasPrefix(res[i].site, "crash:") {
			again++
			r2 := runChildrenOnce(self, k, c, cases[i:i+1], 1, confirmDeadline)
			res[i] = r2[0]
		}
	}
	return res
}

func runChildrenOnce(self string, k, c int64, cases []hcase, workers int, perCase time.Duration) []hres {
	res := make([]hres, len(cases))
	if len(cases) == 0 {
		return res
	}
	if workers > len(cases) {
		workers = len(cases)
	}
	var wg sync.WaitGroup
	per := (len(cases) + workers - 1) / workers
	for w := 0; w < workers; w++ {
		lo, hi := w*per, (w+1)*per
		if hi > len(cases) {
			hi = len(cases)
		}
		if lo >= hi {
			break
		}
		wg.Add(1)
		go func(lo, hi int) {
			defer wg.Done()
			runChildSeq(self, k, c, cases, lo, hi, res, perCase)
		}(lo, hi)
	}
	wg.Wait()
	for i := range res {
		if res[i].class == "" && isDead("typ:"+cases[i].Typ) {
			res[i] = hres{"skipped", 0, "-", 0}
		}
	}
	return res
}
