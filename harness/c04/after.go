package main

// afterSweep — decoders are functions of their input: what a decode returns must not depend on what was
// decoded BEFORE it in the same process.  The prefix, hostile and retry sweeps judge every input on its
// own (and the hostile ones in child processes, by class only); state that a decode leaves behind in
// something the decoders keep between calls — a pooled / cached reader over a sub-blob that is re-pointed
// instead of rebuilt, a scratch buffer, a table that is filled while decoding — shows only in a HISTORY:
//
//	X, T     X = any input (mostly one whose decode stops part-way: the outer encoding truncated, a
//	         length-prefixed sub-blob of it shortened inside a valid outer frame, lengthened with trailing
//	         bytes, a count / tag / length overwritten; also the last damaged input of ANOTHER type),
//	         T = the complete valid encoding, or a damaged one,
//
// both decoded back to back in one goroutine (so that a per-P pool hands the same object back).  Judged:
//   - T valid: it decodes, is consumed exactly, re-encodes to what it re-encodes to after a clean
//     predecessor (V, T), and every string / blob of the object occurs in T (or in a new object of the type);
//   - T damaged: same outcome (panic | object with the same re-encoding) as after a clean predecessor —
//     in particular an input that is rejected on its own must not be completed by what X left behind.
//
// Values and primitive programs are also compared with the model's history (driver PH / PHV:
// FailClosed.Pooled.runHist with the replacing reset = C04.pooled_history_is_per_input).

import (
	"bytes"
	"context"
	"encoding/json"
	"fmt"
	"os"
	"os/exec"
	"sort"
	"strings"
	"time"

	gio "github.com/whatap/golib/io"
	"verif/harness/vh"
)

type afterOut struct {
	ok      bool
	avail   int32
	re      []byte
	foreign []byte
	msg     string
}

func (a afterOut) class() string {
	if a.ok {
		return "ok"
	}
	return "panic"
}

// decodeAfter: the full decode (reader, then the lazy accessors) of b, in this goroutine
func decodeAfter(e enc, b []byte) (out afterOut) {
	var obj interface{}
	o := vh.Guard(func() {
		in := gio.NewDataInputX(b)
		obj = decodeIn(e.kind, in, b)
		if streamable(e.kind) {
			out.avail = in.Available()
		}
	})
	if !o.OK() {
		out.msg = o.Panic
		return
	}
	if e.kind != "value" && !strings.HasPrefix(e.kind, "prim:") {
		if o2 := vh.Guard(func() { callAccessors(obj) }); !o2.OK() {
			out.msg = o2.Panic
			return
		}
	}
	out.ok = true
	vh.Guard(func() { out.re = reencodeAs(e.kind, e.typ, obj) })
	if out.re == nil && strings.HasPrefix(e.kind, "prim:") {
		out.re = []byte(fmt.Sprintf("%v", obj)) // (the other kinds without a writer: class and strings only)
	}
	if !strings.HasPrefix(e.kind, "udp:") && !strings.HasPrefix(e.kind, "prim:") {
		vh.Guard(func() { out.foreign = foreign(obj, b, freshOf(e)) })
	}
	return
}

func blobHeader(n int) []byte {
	switch {
	case n < 254:
		return []byte{byte(n)}
	case n <= 65535:
		return []byte{255, byte(n >> 8), byte(n)}
	}
	return []byte{254, byte(n >> 24), byte(n >> 16), byte(n >> 8), byte(n)}
}

// blobAt: a length-prefixed blob (ReadBlob format) that starts at off and lies within b
func blobAt(b []byte, off int) (hdr, l int, ok bool) {
	switch c := b[off]; {
	case c == 255 && off+3 <= len(b):
		hdr, l = 3, int(b[off+1])<<8|int(b[off+2])
	case c == 254 && off+5 <= len(b):
		hdr, l = 5, int(b[off+1])<<24|int(b[off+2])<<16|int(b[off+3])<<8|int(b[off+4])
	case c >= 2 && c < 254:
		hdr, l = 1, int(c)
	default:
		return 0, 0, false
	}
	return hdr, l, l >= 2 && off+hdr+l <= len(b)
}

type afterVar struct {
	b    []byte
	what string
}

// innerDamage: valid outer frames around a damaged sub-blob — shortened (its last bytes missing, the
// length field says so) and lengthened (trailing bytes inside the blob).  Blob positions are guessed from
// the bytes (a length field followed by that many bytes); the ones that reach furthest come first.
func innerDamage(b []byte, max int) (short, long []afterVar) {
	type cand struct{ off, hdr, l int }
	var cs []cand
	for off := 0; off < len(b); off++ {
		if hdr, l, ok := blobAt(b, off); ok {
			cs = append(cs, cand{off, hdr, l})
		}
	}
	sort.SliceStable(cs, func(i, j int) bool { return cs[i].l > cs[j].l })
	if len(cs) > max {
		cs = cs[:max]
	}
	splice := func(c cand, body []byte) []byte {
		out := append([]byte{}, b[:c.off]...)
		out = append(out, blobHeader(len(body))...)
		out = append(out, body...)
		return append(out, b[c.off+c.hdr+c.l:]...)
	}
	for _, c := range cs {
		body := b[c.off+c.hdr : c.off+c.hdr+c.l]
		seen := map[int]bool{}
		for _, keep := range []int{c.l - 1, c.l / 2, 5, 1, c.l - 5, 9} {
			if keep < 1 || keep >= c.l || seen[keep] {
				continue
			}
			seen[keep] = true
			short = append(short, afterVar{splice(c, body[:keep]), fmt.Sprintf("blob@%d[%d] cut to %d", c.off, c.l, keep)})
			// … and the complement: the bytes that were cut off, as a blob of their own
			long = append(long, afterVar{splice(c, body[keep:]), fmt.Sprintf("blob@%d[%d] without its first %d", c.off, c.l, keep)})
		}
		for _, extra := range []int{1, 5, c.l} {
			if extra > c.l {
				continue
			}
			long = append(long, afterVar{splice(c, append(append([]byte{}, body...), body[:extra]...)), fmt.Sprintf("blob@%d[%d] with %d trailing bytes", c.off, c.l, extra)})
		}
	}
	return
}

var afterPatterns = []string{"b:63", "b:ff", "d:4:7fffffff", "i:7fffffff", "s:7fff", "blob:254:7fffffff", "b:09", "s:ffff"}

func afterSweep(env *vh.Env, rep *vh.Report, rng *vh.Rng, encs []enc) {
	perTyp, maxBlobs, nMut := 6, 4, 12
	if env.Thorough {
		perTyp, maxBlobs, nMut = 16, 8, 24
	}
	pat := map[string][]byte{}
	for _, p := range patterns {
		pat[p.name] = p.b
	}
	taken := map[string]int{}
	var carry *afterVar // the last damaged input of the previous type
	var carryEnc enc
	type mline struct {
		line       string
		xok, tok   bool
		rc         replayCase
		typ, xwhat string
	}
	var mlines []mline
	histories := 0
	for _, e := range encs {
		lim := perTyp
		if e.kind == "value" || strings.HasPrefix(e.kind, "prim:") {
			lim = 4 * perTyp
		}
		if len(e.b) < 2 || len(e.b) > 1500 || taken[e.typ] >= lim || isDead("typ:"+e.typ) || isDead("retry-type:"+e.typ) {
			continue
		}
		if overBudget() {
			rep.Count("stage-cut-short:after")
			break
		}
		taken[e.typ]++
		n := len(e.b)
		// predecessors
		var xs []afterVar
		for _, cut := range []int{n - 1, n / 2, 1} {
			xs = append(xs, afterVar{e.b[:cut], fmt.Sprintf("truncated@%d", cut)})
		}
		short, long := innerDamage(e.b, maxBlobs)
		xs = append(xs, short...)
		xs = append(xs, long...)
		for k := 0; k < nMut; k++ {
			name := afterPatterns[rng.Intn(len(afterPatterns))]
			off := rng.Intn(n)
			if m := mutate(e.b, off, pat[name]); !bytes.Equal(m, e.b) {
				xs = append(xs, afterVar{m, fmt.Sprintf("%s@%d", name, off)})
			}
		}
		// targets: the valid encoding, and damaged ones (inner cuts first: their outer frame is valid)
		targets := []afterVar{{e.b, "valid"}}
		for i := 0; i < len(short) && i < 3; i++ {
			targets = append(targets, short[i*len(short)/3+0])
		}
		if len(long) > 0 {
			targets = append(targets, long[0])
		}
		if len(short) == 0 {
			targets = append(targets, afterVar{e.b[:n-1], fmt.Sprintf("truncated@%d", n-1)})
		}
		// reference outcome of every target: after a clean predecessor (the valid encoding, decoded to its
		// end), taken twice — a type whose re-encoding is not a function of the object (hash-ordered
		// tables) is judged by class and strings only
		refs := make([]afterOut, len(targets))
		stable := make([]bool, len(targets))
		for ti, t := range targets {
			decodeAfter(e, e.b)
			r1 := decodeAfter(e, t.b)
			decodeAfter(e, e.b)
			r2 := decodeAfter(e, t.b)
			refs[ti] = r1
			stable[ti] = r1.ok == r2.ok && bytes.Equal(r1.re, r2.re) && r1.re != nil
			if r1.ok != r2.ok {
				rep.Count("after:reference-class-unstable:" + e.typ)
			}
		}
		judge := func(x afterVar, xe enc, ti int) {
			t := targets[ti]
			xo := decodeAfter(xe, x.b)
			got := decodeAfter(e, t.b)
			histories++
			rep.Case("after:"+e.typ+":"+hash8(x.b)+">"+hash8(t.b), true)
			rep.Count("after:predecessor:" + xo.class())
			rep.Count("after:target:" + map[bool]string{true: "valid", false: "damaged"}[ti == 0] + ":" + got.class())
			rc := replayCase{Mode: "after", Kind: e.kind, Typ: e.typ, Hex: vh.Hex(t.b), What: xe.kind + "|" + xe.typ + "|" + vh.Hex(x.b) + ">" + vh.Hex(e.b), N: ti}
			pre := fmt.Sprintf("%s: decoded directly after a %d-byte %s input (%s; that decode: %s)", e.typ, len(x.b), xe.typ, x.what, xo.class())
			ref := refs[ti]
			switch {
			case ti == 0 && !got.ok && !accessorFails[hash8(e.b)]:
				rep.Fail("property", "valid-rejected-after-earlier-decode:"+e.typ,
					fmt.Sprintf("%s, the complete valid %d-byte encoding is rejected: %s", pre, len(t.b), vh.Clip(got.msg, 80)), rc)
			case ti == 0 && got.ok && got.avail != 0:
				rep.Fail("property", "decoded-differs-after-earlier-decode:"+e.typ,
					fmt.Sprintf("%s, the decode of the complete valid %d-byte encoding leaves Available() = %d", pre, len(t.b), got.avail), rc)
			case got.ok && got.foreign != nil && ref.foreign == nil:
				where := "nowhere in its input"
				if bytes.Contains(x.b, got.foreign) {
					where = "not in its input but in the input decoded BEFORE it"
				}
				rep.Fail("property", "fabricated-bytes-after-earlier-decode:"+e.typ,
					fmt.Sprintf("%s, the decode of a %d-byte input (%s) returns the %d-byte string %q, which occurs %s", pre, len(t.b), t.what, len(got.foreign), vh.Clip(string(got.foreign), 40), where), rc)
			case got.ok && !ref.ok && ti != 0:
				rep.Fail("property", "damaged-input-accepted-after-earlier-decode:"+e.typ,
					fmt.Sprintf("%s, a %d-byte input (%s) that is rejected when decoded after a complete valid one decodes to an object: bytes the earlier decode left behind complete it", pre, len(t.b), t.what), rc)
			case !got.ok && ref.ok:
				rep.Fail("property", "decode-depends-on-earlier-input:"+e.typ,
					fmt.Sprintf("%s, a %d-byte input (%s) that decodes after a complete valid one is rejected: %s", pre, len(t.b), t.what, vh.Clip(got.msg, 80)), rc)
			case got.ok && ref.ok && stable[ti] && got.re != nil && !bytes.Equal(got.re, ref.re):
				key := "decode-depends-on-earlier-input:"
				if ti == 0 {
					key = "decoded-differs-after-earlier-decode:"
				}
				rep.Fail("property", key+e.typ,
					fmt.Sprintf("%s, the decode of a %d-byte input (%s) gives a different object than the same input decoded after a complete valid one (re-encodings differ at byte %d)", pre, len(t.b), t.what, firstDiff(got.re, ref.re)), rc)
			}
			// the model's history (replacing reset): same classes, for the kinds the driver decodes
			if xe.kind == e.kind && (e.kind == "value" || strings.HasPrefix(e.kind, "prim:")) && len(mlines) < 60000 {
				l := "PHV " + vh.Hex(x.b) + "," + vh.Hex(t.b)
				if e.kind != "value" {
					l = "PH " + e.kind[5:] + " " + vh.Hex(x.b) + "," + vh.Hex(t.b)
				}
				mlines = append(mlines, mline{l, xo.ok, got.ok, rc, e.typ, x.what})
			}
		}
		for xi, x := range xs {
			if len(x.b) == 0 {
				continue
			}
			judge(x, e, 0)
			judge(x, e, 1+xi%(len(targets)-1))
		}
		if carry != nil {
			for ti := range targets {
				judge(*carry, carryEnc, ti)
			}
		}
		if len(short) > 0 {
			c := short[rng.Intn(len(short))]
			carry, carryEnc = &c, e
		} else {
			c := xs[0]
			carry, carryEnc = &c, e
		}
	}
	rep.Note("%d two-decode histories (earlier input, then the judged input) over %d types", histories, len(taken))
	if len(mlines) == 0 {
		return
	}
	lines := make([]string, len(mlines))
	for i := range mlines {
		lines[i] = mlines[i].line
	}
	outs, err := vh.RunDriver(env.Driver, lines)
	if err != nil {
		vh.Die("%v", err)
	}
	cls := map[bool]string{true: "ok", false: "fail"}
	for i, o := range outs {
		m := mlines[i]
		want := cls[m.xok] + "," + cls[m.tok]
		rep.Count("model:history:" + o)
		if o != want {
			rep.Fail("correspondence", "model:"+m.typ+":history-outcome",
				fmt.Sprintf("%s: history of two decodes (first input: %s): implementation %s, model (every decode sees its own input only) %s", m.typ, m.xwhat, want, o), m.rc)
		}
	}
}

// afterChildMain (`harness -afterhist k1 t1 hex1 k2 t2 hex2`): a two-decode history in a process of its
// own — nothing decoded before it — and the outcome of the second decode as JSON
func afterChildMain(args []string) {
	if len(args) != 6 {
		os.Exit(2)
	}
	first := enc{args[0], args[1], vh.UnHex(args[2])}
	second := enc{args[3], args[4], vh.UnHex(args[5])}
	decodeAfter(first, first.b)
	r := decodeAfter(second, second.b)
	json.NewEncoder(os.Stdout).Encode(map[string]interface{}{"ok": r.ok, "avail": r.avail, "re": vh.Hex(r.re), "foreign": vh.Hex(r.foreign), "msg": vh.Clip(r.msg, 80)})
}

func afterChild(first, second enc) (out afterOut, ok bool) {
	self, err := os.Executable()
	if err != nil {
		return out, false
	}
	ctx, cancel := context.WithTimeout(context.Background(), 5*time.Minute)
	defer cancel()
	raw, err := exec.CommandContext(ctx, self, "-afterhist", first.kind, first.typ, vh.Hex(first.b), second.kind, second.typ, vh.Hex(second.b)).Output()
	if err != nil {
		return out, false
	}
	var m struct {
		Ok      bool   `json:"ok"`
		Avail   int32  `json:"avail"`
		Re      string `json:"re"`
		Foreign string `json:"foreign"`
		Msg     string `json:"msg"`
	}
	if json.Unmarshal(raw, &m) != nil {
		return out, false
	}
	out = afterOut{ok: m.Ok, avail: m.Avail, msg: m.Msg}
	if m.Re != "" && m.Re != "-" {
		out.re = vh.UnHex(m.Re)
	}
	if m.Foreign != "" && m.Foreign != "-" {
		out.foreign = vh.UnHex(m.Foreign)
	}
	return out, true
}

// replayAfter: What = <kind of X>|<type of X>|<hex X> > <hex of the valid encoding>, Hex = the judged input.
// Both histories — (valid, T) for the reference and (X, T) — run in a process of their own, so that the
// reference is not taken in a process in which a damaged input has already been decoded.
func replayAfter(rep *vh.Report, c replayCase) {
	f := strings.SplitN(c.What, "|", 3)
	if len(f) != 3 || !strings.Contains(f[2], ">") {
		return
	}
	j := strings.LastIndex(f[2], ">")
	xe := enc{f[0], f[1], vh.UnHex(f[2][:j])}
	e := enc{c.Kind, c.Typ, vh.UnHex(f[2][j+1:])}
	t := vh.UnHex(c.Hex)
	rep.Case("replay-after:"+c.Hex, true)
	ref, ok1 := afterChild(e, enc{e.kind, e.typ, t})
	got, ok2 := afterChild(xe, enc{e.kind, e.typ, t})
	if !ok1 || !ok2 {
		rep.Note("replay-after: child process did not answer")
		return
	}
	valid := bytes.Equal(t, e.b)
	switch {
	case valid && !got.ok && ref.ok:
		rep.Fail("property", "valid-rejected-after-earlier-decode:"+c.Typ, c.Typ+": the complete valid encoding is rejected after the earlier input: "+vh.Clip(got.msg, 80), c)
	case got.ok && got.foreign != nil && ref.foreign == nil:
		rep.Fail("property", "fabricated-bytes-after-earlier-decode:"+c.Typ, fmt.Sprintf("%s returns the string %q, which is not in its input", c.Typ, vh.Clip(string(got.foreign), 40)), c)
	case got.ok && !ref.ok:
		rep.Fail("property", "damaged-input-accepted-after-earlier-decode:"+c.Typ, c.Typ+": an input rejected after a clean predecessor decodes after the earlier input", c)
	case got.ok != ref.ok || (got.ok && got.re != nil && ref.re != nil && !bytes.Equal(got.re, ref.re)):
		key := "decode-depends-on-earlier-input:"
		if valid {
			key = "decoded-differs-after-earlier-decode:"
		}
		rep.Fail("property", key+c.Typ, c.Typ+": the decode differs from the decode of the same input after a clean predecessor", c)
	}
}
