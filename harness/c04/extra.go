package main

// extraSweep — the exported readers of io/DataInputX.go that no writer-side program reaches:
//
//	stream readers   ReadShortLittle, ReadUnsignedShortLittle, ReadIntLittle, ReadUintLittle,
//	                 ReadUnsignedInt, ReadUShort, ReadDecimalLen(sz)        (model FailClosed.Extra, driver RX)
//	static getters   ToBool … ToDouble, Get (buf, pos): a buffer cut out of a larger array, every position
//	                 from -1 to len+1: the call panics (recoverably) exactly when the field does not lie
//	                 within len(buf); inside, the value is that of the bytes at the position (computed here,
//	                 independently; C01 proves the values — here the subject is failing closed)
//
// For programs of stream readers over random / boundary bytes: every strict prefix must be rejected, the
// complete input consumed exactly, trailing bytes left alone; class, bytes left and values equal the model's.

import (
	"encoding/binary"
	"fmt"
	"math"
	"strconv"
	"strings"

	gio "github.com/whatap/golib/io"
	"verif/harness/vh"
)

var xKinds = []string{"shortLE", "ushortLE", "intLE", "uintLE", "uint", "ushort",
	"decLen0", "decLen1", "decLen2", "decLen3", "decLen4", "decLen5", "decLen6", "decLen7", "decLen8", "decLen9"}

func xWidth(k string) int {
	switch k {
	case "shortLE", "ushortLE", "ushort":
		return 2
	case "intLE", "uintLE", "uint":
		return 4
	}
	sz, _ := strconv.Atoi(k[6:])
	switch {
	case sz == 0:
		return 0
	case sz <= 5:
		return sz
	}
	return 8
}

func readProgramX(kinds string, in *gio.DataInputX) []interface{} {
	var vals []interface{}
	for _, k := range strings.Split(kinds, ",") {
		switch k {
		case "shortLE":
			vals = append(vals, int64(in.ReadShortLittle()))
		case "ushortLE":
			vals = append(vals, int64(in.ReadUnsignedShortLittle()))
		case "intLE":
			vals = append(vals, int64(in.ReadIntLittle()))
		case "uintLE":
			vals = append(vals, int64(in.ReadUintLittle()))
		case "uint":
			vals = append(vals, int64(in.ReadUnsignedInt()))
		case "ushort":
			vals = append(vals, int64(in.ReadUShort()))
		default:
			if !strings.HasPrefix(k, "decLen") {
				panic("harness: unknown kind " + k)
			}
			sz, _ := strconv.Atoi(k[6:])
			vals = append(vals, in.ReadDecimalLen(sz))
		}
	}
	return vals
}

func boundaryBytes(rng *vh.Rng, n int) []byte {
	b := make([]byte, n)
	for i := range b {
		switch rng.Intn(6) {
		case 0:
			b[i] = 0
		case 1:
			b[i] = 0xff
		case 2:
			b[i] = 0x80
		case 3:
			b[i] = 0x7f
		default:
			b[i] = byte(rng.U64())
		}
	}
	return b
}

func extraSweep(env *vh.Env, rep *vh.Report, rng *vh.Rng) {
	n := 400
	if env.Thorough {
		n = 4000
	}
	type xcase struct {
		kinds string
		b     []byte
		full  int // the program's width
		ok    bool
		avail int32
		vals  string
	}
	var cases []xcase
	var lines []string
	for i := 0; i < n; i++ {
		var ks []string
		total := 0
		for j, m := 0, 1+rng.Intn(5); j < m; j++ {
			k := xKinds[rng.Intn(len(xKinds))]
			ks = append(ks, k)
			total += xWidth(k)
		}
		kinds := strings.Join(ks, ",")
		data := boundaryBytes(rng, total+3)
		for cut := 0; cut <= total+3; cut++ {
			if cut > total && cut < total+3 {
				continue
			}
			c := xcase{kinds: kinds, b: data[:cut], full: total}
			var vals []interface{}
			in := gio.NewDataInputX(c.b)
			o := vh.Guard(func() { vals = readProgramX(kinds, in) })
			c.ok = o.OK()
			if c.ok {
				c.avail = in.Available()
				var sb []string
				for _, v := range vals {
					sb = append(sb, fmt.Sprint(v))
				}
				c.vals = strings.Join(sb, ";")
			}
			rep.Case("extra:"+kinds+":"+hash8(c.b)+"@"+strconv.Itoa(cut), true)
			rep.Count("extra-reads:" + map[bool]string{true: "ok", false: "panic"}[c.ok])
			rc := replayCase{Mode: "prefix", Kind: "primx:" + kinds, Typ: "io.extra-readers", Hex: vh.Hex(data[:total]), N: cut}
			switch {
			case cut < total && c.ok:
				key := "prefix-decodes:io.extra-readers"
				if c.avail < 0 {
					key = "ReadBytes:short-read-accepted"
				}
				rep.Fail("property", key, fmt.Sprintf("reads %s (%d bytes wide) over a %d-byte input return values instead of failing (Available() = %d)", kinds, total, cut, c.avail), rc)
			case cut >= total && !c.ok:
				rep.Fail("property", "extra-readers:rejects-complete-input", fmt.Sprintf("reads %s (%d bytes wide) over a %d-byte input fail: %s", kinds, total, cut, vh.Clip(o.Panic, 60)), rc)
			case cut >= total && int(c.avail) != cut-total:
				rep.Fail("property", "extra-readers:consumes-wrong-width", fmt.Sprintf("reads %s (%d bytes wide) over a %d-byte input leave %d bytes", kinds, total, cut, c.avail), rc)
			}
			cases = append(cases, c)
			lines = append(lines, "RX "+kinds+" "+vh.Hex(c.b))
		}
	}
	outs, err := vh.RunDriver(env.Driver, lines)
	if err != nil {
		vh.Die("%v", err)
	}
	for i, o := range outs {
		c := cases[i]
		want := "fail"
		if c.ok {
			want = fmt.Sprintf("ok %d %s", c.avail, c.vals)
		}
		rep.Count("model:extra-reads:" + strings.Fields(o)[0])
		if o != want {
			rep.Fail("correspondence", "model:io.extra-readers:outcome",
				fmt.Sprintf("reads %s over %s: implementation %q, model %q", c.kinds, vh.Clip(vh.Hex(c.b), 60), want, o),
				replayCase{Mode: "prefix", Kind: "primx:" + c.kinds, Typ: "io.extra-readers", Hex: vh.Hex(c.b), N: len(c.b)})
		}
	}
	staticSweep(rep, rng, env.Thorough)
}

// ---------------------------------------------------------------- static getters

type getter struct {
	name string
	w    int
	f    func(b []byte, p int) uint64 // bit pattern of the result
	ref  func(w []byte) uint64
}

func be(w []byte) uint64 {
	var v uint64
	for _, x := range w {
		v = v<<8 | uint64(x)
	}
	return v
}
func le(w []byte) uint64 {
	var v uint64
	for i := len(w) - 1; i >= 0; i-- {
		v = v<<8 | uint64(w[i])
	}
	return v
}
func sx(v uint64, w int) uint64 { // sign extension of a w-byte field
	sh := uint(64 - 8*w)
	return uint64(int64(v<<sh) >> sh)
}

var getters = []getter{
	{"ToBool", 1, func(b []byte, p int) uint64 { return map[bool]uint64{true: 1}[gio.ToBool(b, p)] }, func(w []byte) uint64 { return map[bool]uint64{true: 1}[w[0] != 0] }},
	{"ToShort", 2, func(b []byte, p int) uint64 { return uint64(int64(gio.ToShort(b, p))) }, func(w []byte) uint64 { return sx(be(w), 2) }},
	{"ToUShort", 2, func(b []byte, p int) uint64 { return uint64(gio.ToUShort(b, p)) }, be},
	{"ToUshort", 2, func(b []byte, p int) uint64 { return uint64(gio.ToUshort(b, p)) }, be},
	{"ToShortLittle", 2, func(b []byte, p int) uint64 { return uint64(int64(gio.ToShortLittle(b, p))) }, func(w []byte) uint64 { return sx(le(w), 2) }},
	{"ToUshortLittle", 2, func(b []byte, p int) uint64 { return uint64(gio.ToUshortLittle(b, p)) }, le},
	{"ToInt3", 3, func(b []byte, p int) uint64 { return uint64(int64(gio.ToInt3(b, p))) }, func(w []byte) uint64 { return sx(be(w), 3) }},
	{"ToInt", 4, func(b []byte, p int) uint64 { return uint64(int64(gio.ToInt(b, p))) }, func(w []byte) uint64 { return sx(be(w), 4) }},
	{"ToUint", 4, func(b []byte, p int) uint64 { return uint64(gio.ToUint(b, p)) }, be},
	{"ToIntLittle", 4, func(b []byte, p int) uint64 { return uint64(int64(gio.ToIntLittle(b, p))) }, func(w []byte) uint64 { return sx(le(w), 4) }},
	{"ToUintLittle", 4, func(b []byte, p int) uint64 { return uint64(gio.ToUintLittle(b, p)) }, le},
	{"ToLong", 8, func(b []byte, p int) uint64 { return uint64(gio.ToLong(b, p)) }, be},
	{"ToLong5", 5, func(b []byte, p int) uint64 { return uint64(gio.ToLong5(b, p)) }, func(w []byte) uint64 { return sx(be(w), 5) }},
	{"ToLong6", 6, func(b []byte, p int) uint64 { return uint64(gio.ToLong6(b, p)) }, be},
	{"ToLongLittle", 8, func(b []byte, p int) uint64 { return uint64(gio.ToLongLittle(b, p)) }, le},
	{"ToUlongLittle", 8, func(b []byte, p int) uint64 { return gio.ToUlongLittle(b, p) }, le},
	{"ToFloat", 4, func(b []byte, p int) uint64 { return uint64(math.Float32bits(gio.ToFloat(b, p))) }, func(w []byte) uint64 { return uint64(binary.BigEndian.Uint32(w)) }},
	{"ToDouble", 8, func(b []byte, p int) uint64 { return math.Float64bits(gio.ToDouble(b, p)) }, be},
}

func staticSweep(rep *vh.Report, rng *vh.Rng, thorough bool) {
	rounds := 40
	if thorough {
		rounds = 400
	}
	for r := 0; r < rounds; r++ {
		// the buffer is a window of a larger array: the bytes behind it are NOT its content
		l := rng.Intn(12)
		back := boundaryBytes(rng, l+16)
		for i := l; i < len(back); i++ {
			back[i] = 0xEE
		}
		buf := back[:l]
		if r%2 == 0 {
			buf = back[:l:l]
		}
		for _, g := range getters {
			for p := -1; p <= l+1; p++ {
				var got uint64
				o := vh.Guard(func() { got = g.f(buf, p) })
				inside := p >= 0 && p+g.w <= l
				rep.Case(fmt.Sprintf("static:%s:%d:%d:%s", g.name, l, p, hash8(buf)), true)
				rep.Count("static:" + map[bool]string{true: "inside", false: "outside"}[inside] + ":" + o.String()[:2])
				rc := replayCase{Mode: "none", Kind: "static:" + g.name, Typ: "io." + g.name, Hex: vh.Hex(buf), N: p}
				switch {
				case !inside && o.OK():
					rep.Fail("property", "io."+g.name+":reads-outside-its-buffer",
						fmt.Sprintf("io.%s(buf, %d) on a %d-byte buffer returns %#x instead of failing: the %d-byte field does not lie within the buffer", g.name, p, l, got, g.w), rc)
				case inside && !o.OK():
					rep.Fail("property", "io."+g.name+":rejects-field-inside-buffer",
						fmt.Sprintf("io.%s(buf, %d) on a %d-byte buffer fails: %s", g.name, p, l, vh.Clip(o.Panic, 60)), rc)
				case inside && got != g.ref(buf[p:p+g.w]):
					rep.Fail("property", "io."+g.name+":value-not-from-its-bytes",
						fmt.Sprintf("io.%s(buf, %d) = %#x, the bytes at that position are %x", g.name, p, got, buf[p:p+g.w]), rc)
				}
			}
		}
		// Get(buf, pos, sz) = buf[pos:pos+sz]: a window of the buffer.  Inside len(buf) it must be those bytes;
		// beyond cap(buf) it must fail.  Between len and cap Go's slice expression succeeds and shows bytes
		// behind the buffer: counted (`static:Get:beyond-len-within-cap`), see notes/C04.md
		for p := -1; p <= l+1; p++ {
			for sz := 0; sz <= l+2; sz += 1 + sz/3 {
				var got []byte
				o := vh.Guard(func() { got = gio.Get(buf, p, sz) })
				rep.Case(fmt.Sprintf("static:Get:%d:%d:%d:%s", l, p, sz, hash8(buf)), true)
				rc := replayCase{Mode: "none", Kind: "static:Get", Typ: "io.Get", Hex: vh.Hex(buf), N: p, What: strconv.Itoa(sz)}
				switch {
				case p >= 0 && p+sz <= l:
					if !o.OK() || string(got) != string(buf[p:p+sz]) {
						rep.Fail("property", "io.Get:window-differs", fmt.Sprintf("io.Get(buf, %d, %d) on a %d-byte buffer: %s / %x", p, sz, l, o.String(), got), rc)
					}
					rep.Count("static:Get:inside")
				case p < 0 || p+sz > cap(buf) || p > cap(buf):
					if o.OK() {
						rep.Fail("property", "io.Get:reads-outside-its-buffer", fmt.Sprintf("io.Get(buf, %d, %d) on a buffer of length %d and capacity %d returns %d bytes", p, sz, l, cap(buf), len(got)), rc)
					}
					rep.Count("static:Get:outside")
				default:
					rep.Count("static:Get:beyond-len-within-cap:" + o.String()[:2])
				}
			}
		}
	}
}
