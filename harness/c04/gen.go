package main

// Generators of valid encodings: tagged values (own recursive generator) and programs of
// primitive writes, both encoded by the real writers of /repo.

import (
	"math"
	"strings"

	gio "github.com/whatap/golib/io"
	"github.com/whatap/golib/lang/value"
	"verif/harness/vh"
)

var bounds = vh.SignedBoundaries()

func rangeOf(w uint) (int64, int64) {
	if w == 8 {
		return math.MinInt64, math.MaxInt64
	}
	hi := int64(1)<<(8*w-1) - 1
	return -hi - 1, hi
}

func genInt(r *vh.Rng, w uint) int64 {
	lo, hi := rangeOf(w)
	switch {
	case r.Chance(45):
		v := r.Pick64(bounds)
		if v < lo || v > hi {
			span := uint64(hi-lo) + 1
			v = lo + int64(uint64(v-lo)%span)
		}
		return v
	case r.Chance(40):
		k := uint(r.Intn(int(w))) + 1
		l, h := rangeOf(k)
		return r.Range(l, h)
	}
	return r.Range(lo, hi)
}

var blobLens = []int{0, 1, 2, 3, 252, 253, 254, 255, 256, 300}

func genBytes(r *vh.Rng, big bool) []byte {
	n := 0
	switch {
	case r.Chance(35):
		n = r.PickInt(blobLens)
	case big && r.Chance(3):
		n = r.PickInt([]int{65535, 65536, 65537})
	default:
		n = r.Intn(24)
	}
	return r.Bytes(n)
}

// genText: texts are byte strings on the wire; half of them are arbitrary bytes (not valid UTF-8:
// lone continuation bytes, truncated sequences, 0xff, NUL), the rest lower-case ASCII
func genText(r *vh.Rng, big bool) string {
	b := genBytes(r, big)
	switch {
	case r.Chance(50):
		for i := range b {
			b[i] = 'a' + b[i]%26
		}
	case r.Chance(30) && len(b) > 0:
		copy(b, []byte{0xff, 0x80, 0xc3, 0x28, 0xe2, 0x82, 0x00, 0xed, 0xa0, 0x80, 0xf8})
	}
	return string(b)
}

func genCount(r *vh.Rng) int {
	switch {
	case r.Chance(25):
		return r.PickInt([]int{0, 1, 2, 3})
	case r.Chance(3):
		return r.PickInt([]int{127, 128, 255, 256, 300})
	default:
		return r.Intn(7)
	}
}

var valueTags = []byte{0, 10, 20, 21, 22, 30, 40, 45, 46, 50, 51, 60, 61, 70, 71, 72, 73, 74, 80, 81}

// genValue builds a random value.Value of nesting depth ≤ depth.
func genValue(r *vh.Rng, depth int, big bool) value.Value {
	t := valueTags[r.Intn(len(valueTags))]
	if depth <= 0 && (t == 70 || t == 80 || t == 81) {
		t = valueTags[r.Intn(13)]
	}
	switch t {
	case 0:
		return value.NewNullValue()
	case 10:
		return value.NewBoolValue(r.Bool())
	case 20:
		return value.NewDecimalValue(genInt(r, 8))
	case 21:
		return value.NewIntValue(int32(genInt(r, 4)))
	case 22:
		return value.NewLongValue(genInt(r, 8))
	case 30:
		return value.NewFloatValue(math.Float32frombits(uint32(r.U64())))
	case 40:
		return value.NewDoubleValue(math.Float64frombits(r.U64()))
	case 45:
		s := value.NewDoubleSummary()
		s.Sum, s.Count, s.Min, s.Max = math.Float64frombits(r.U64()), int32(genInt(r, 4)), float64(r.Intn(100)), float64(r.Intn(1000))
		return s
	case 46:
		s := value.NewLongSummary()
		s.Sum, s.Count, s.Min, s.Max = genInt(r, 8), int32(genInt(r, 4)), genInt(r, 8), genInt(r, 8)
		return s
	case 50:
		return value.NewTextValue(genText(r, big))
	case 51:
		return value.NewTextHashValue(int32(genInt(r, 4)))
	case 60:
		return value.NewBlobValue(genBytes(r, big))
	case 61:
		return value.NewIP4Value(r.Bytes(4))
	case 70:
		n := genCount(r)
		l := value.NewListValue(nil)
		for i := 0; i < n; i++ {
			l.Add(genValue(r, depth-1, false))
		}
		return l
	case 71:
		n := genCount(r)
		a := make([]int32, n)
		for i := range a {
			a[i] = int32(genInt(r, 4))
		}
		return value.NewIntArray(a)
	case 72:
		n := genCount(r)
		a := make([]float32, n)
		for i := range a {
			a[i] = math.Float32frombits(uint32(r.U64()))
		}
		return value.NewFloatArray(a)
	case 73:
		n := genCount(r)
		a := make([]string, n)
		for i := range a {
			a[i] = genText(r, false)
		}
		return value.NewTextArray(a)
	case 74:
		n := genCount(r)
		a := make([]int64, n)
		for i := range a {
			a[i] = genInt(r, 8)
		}
		return value.NewLongArray(a)
	case 80:
		return genMapValue(r, depth, big)
	default:
		return genIntMapValue(r, depth)
	}
}

func genMapValue(r *vh.Rng, depth int, big bool) *value.MapValue {
	m := value.NewMapValue()
	n := genCount(r)
	if n > 40 {
		n = 40
	}
	for i := 0; i < n; i++ {
		m.Put(genText(r, false)+string(rune('A'+i%26)), genValue(r, depth-1, false))
	}
	return m
}

func genIntMapValue(r *vh.Rng, depth int) *value.IntMapValue {
	m := value.NewIntMapValue()
	n := genCount(r)
	if n > 40 {
		n = 40
	}
	for i := 0; i < n; i++ {
		m.Put(int32(genInt(r, 4)), genValue(r, depth-1, false))
	}
	return m
}

func encodeValue(v value.Value) []byte {
	o := gio.NewDataOutputX()
	value.WriteValue(o, v)
	return o.ToByteArray()
}

// ---------------------------------------------------------------- primitive programs

var primKinds = []string{"bool", "byte", "short", "ushort", "int3", "int", "long5", "long", "float", "double",
	"decimal", "blob", "text", "shortBytes", "intBytes", "textShort",
	"shortArr", "intArr", "longArr", "floatArr", "doubleArr", "textArr"}

// genProgram writes a random program of primitive writes with the real DataOutputX and
// returns the kinds (comma separated) and the bytes.
func genProgram(r *vh.Rng, big bool) (string, []byte) {
	n := 1 + r.Intn(6)
	o := gio.NewDataOutputX()
	kinds := make([]string, n)
	for i := 0; i < n; i++ {
		k := r.PickStr(primKinds)
		kinds[i] = k
		switch k {
		case "bool":
			o.WriteBool(r.Bool())
		case "byte":
			o.WriteByte(byte(r.U64()))
		case "short":
			o.WriteShort(int16(genInt(r, 2)))
		case "ushort":
			o.WriteUShort(uint16(genInt(r, 2)))
		case "int3":
			o.WriteInt3(int32(genInt(r, 3)))
		case "int":
			o.WriteInt(int32(genInt(r, 4)))
		case "long5":
			o.WriteLong5(genInt(r, 5))
		case "long":
			o.WriteLong(genInt(r, 8))
		case "float":
			o.WriteFloat(math.Float32frombits(uint32(r.U64())))
		case "double":
			o.WriteDouble(math.Float64frombits(r.U64()))
		case "decimal":
			o.WriteDecimal(genInt(r, 8))
		case "blob":
			o.WriteBlob(genBytes(r, big))
		case "text":
			o.WriteText(genText(r, big))
		case "shortBytes":
			o.WriteShortBytes(genBytes(r, false))
		case "intBytes":
			o.WriteIntBytes(genBytes(r, big))
		case "textShort":
			o.WriteTextShortLength(genText(r, false))
		case "shortArr":
			a := make([]int16, genCount(r))
			for j := range a {
				a[j] = int16(genInt(r, 2))
			}
			o.WriteShortArray(a)
		case "intArr":
			a := make([]int32, genCount(r))
			for j := range a {
				a[j] = int32(genInt(r, 4))
			}
			o.WriteIntArray(a)
		case "longArr":
			a := make([]int64, genCount(r))
			for j := range a {
				a[j] = genInt(r, 8)
			}
			o.WriteLongArray(a)
		case "floatArr":
			a := make([]float32, genCount(r))
			for j := range a {
				a[j] = math.Float32frombits(uint32(r.U64()))
			}
			o.WriteFloatArray(a)
		case "doubleArr":
			a := make([]float64, genCount(r))
			for j := range a {
				a[j] = math.Float64frombits(r.U64())
			}
			o.WriteDoubleArray(a)
		case "textArr":
			a := make([]string, genCount(r))
			for j := range a {
				a[j] = genText(r, false)
			}
			o.WriteTextArray(a)
		}
	}
	return strings.Join(kinds, ","), o.ToByteArray()
}

// readProgram performs the reads of the given kinds with the real DataInputX and returns the values read.
func readProgram(kinds string, in *gio.DataInputX) []interface{} {
	var vals []interface{}
	if kinds == "-" || kinds == "" {
		return vals
	}
	for _, k := range strings.Split(kinds, ",") {
		switch k {
		case "bool":
			vals = append(vals, in.ReadBool())
		case "byte":
			vals = append(vals, in.ReadByte())
		case "short":
			vals = append(vals, in.ReadShort())
		case "ushort":
			vals = append(vals, in.ReadUnsignedShort())
		case "int3":
			vals = append(vals, in.ReadInt3())
		case "int":
			vals = append(vals, in.ReadInt())
		case "long5":
			vals = append(vals, in.ReadLong5())
		case "long":
			vals = append(vals, in.ReadLong())
		case "float":
			vals = append(vals, in.ReadFloat())
		case "double":
			vals = append(vals, in.ReadDouble())
		case "decimal":
			vals = append(vals, in.ReadDecimal())
		case "blob":
			vals = append(vals, in.ReadBlob())
		case "text":
			vals = append(vals, in.ReadText())
		case "shortBytes":
			vals = append(vals, in.ReadShortBytes())
		case "intBytes":
			vals = append(vals, in.ReadIntBytes())
		case "textShort":
			vals = append(vals, in.ReadTextShortLength())
		case "shortArr":
			vals = append(vals, in.ReadShortArray())
		case "intArr":
			vals = append(vals, in.ReadIntArray())
		case "longArr":
			vals = append(vals, in.ReadLongArray())
		case "floatArr":
			vals = append(vals, in.ReadFloatArray())
		case "doubleArr":
			vals = append(vals, in.ReadDoubleArray())
		case "textArr":
			vals = append(vals, in.ReadTextArray())
		default:
			panic("harness: unknown kind " + k)
		}
	}
	return vals
}
