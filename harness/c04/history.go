package main

// Cross-decode history stages: "no read returns bytes that were not present in its input" must hold
// for every decode in a SEQUENCE of decodes in one process — hidden state shared between decodes
// (intern tables, caches keyed by a hash, pooled objects) must never put data of an earlier input into
// a later result.
//
//  collisionHistory  decodes sequences of values / packs / steps / records whose texts and keys come
//                    from collision groups (same length, same 32-bit hash under CRC-32, Java's 31-hash,
//                    FNV-1a): first the input with A, then the input with B.  For EVERY decoded object:
//                    each byte string it holds (keys, texts, blobs; found by a reflection walk) must
//                    occur in THAT decode's input (or in a freshly constructed object of the type), and
//                    the object must re-encode to its input.
//  pooledHistory     udp.CreatePack / ClosePack: decode A (every optional field present), ClosePack,
//                    decode B of a version / shape without those fields into the recycled object: every
//                    (all types × all pairs of the versions around every layout gate); every
//                    string of the result must occur in B's input or in a decode of B into a brand-new
//                    object, and the two must re-encode identically.

import (
	"bytes"
	"fmt"
	"hash/crc32"
	"hash/fnv"
	"reflect"
	"strconv"

	gio "github.com/whatap/golib/io"
	"github.com/whatap/golib/lang/pack"
	"github.com/whatap/golib/lang/pack/udp"
	"github.com/whatap/golib/lang/service"
	"github.com/whatap/golib/lang/step"
	"github.com/whatap/golib/lang/value"
	"verif/harness/vh"
)

func java31(s string) uint32 {
	var h uint32
	for i := 0; i < len(s); i++ {
		h = 31*h + uint32(s[i])
	}
	return h
}

func fnv1a(s string) uint32 {
	h := fnv.New32a()
	h.Write([]byte(s))
	return h.Sum32()
}

func crc(s string) uint32 { return crc32.ChecksumIEEE([]byte(s)) }

// collidingPairs: birthday search over well-mixed strings of equal length
func collidingPairs(h func(string) uint32, prefix string, n, want int) [][2]string {
	seen := make(map[uint32]string, n)
	var out [][2]string
	for i := 0; i < n && len(out) < want; i++ {
		z := (uint64(i) + 0x9E3779B97F4A7C15) * 0xBF58476D1CE4E5B9
		z ^= z >> 29
		s := strconv.FormatUint(z, 36)
		for len(s) < 13 {
			s = "0" + s
		}
		s = prefix + s
		k := h(s)
		if o, ok := seen[k]; ok && o != s && len(o) == len(s) {
			out = append(out, [2]string{o, s})
		} else {
			seen[k] = s
		}
	}
	return out
}

// stringsOf collects every string / byte slice (length ≥ 2) reachable from obj
func stringsOf(obj interface{}) [][]byte {
	var out [][]byte
	seen := map[uintptr]bool{}
	var walk func(v reflect.Value, depth int)
	walk = func(v reflect.Value, depth int) {
		if depth > 14 || !v.IsValid() {
			return
		}
		switch v.Kind() {
		case reflect.String:
			if v.Len() >= 2 {
				out = append(out, []byte(v.String()))
			}
		case reflect.Slice:
			if v.IsNil() {
				return
			}
			if v.Type().Elem().Kind() == reflect.Uint8 {
				if v.Len() >= 2 {
					b := make([]byte, v.Len())
					for i := range b {
						b[i] = byte(v.Index(i).Uint())
					}
					out = append(out, b)
				}
				return
			}
			switch v.Type().Elem().Kind() {
			case reflect.String, reflect.Ptr, reflect.Interface, reflect.Struct, reflect.Slice, reflect.Map:
				for i := 0; i < v.Len() && i < 4096; i++ {
					walk(v.Index(i), depth+1)
				}
			}
		case reflect.Array:
			for i := 0; i < v.Len() && i < 64; i++ {
				walk(v.Index(i), depth+1)
			}
		case reflect.Ptr:
			if v.IsNil() || seen[v.Pointer()] {
				return
			}
			seen[v.Pointer()] = true
			walk(v.Elem(), depth+1)
		case reflect.Interface:
			if !v.IsNil() {
				walk(v.Elem(), depth+1)
			}
		case reflect.Struct:
			if v.Type().PkgPath() == "sync" {
				return
			}
			for i := 0; i < v.NumField(); i++ {
				walk(v.Field(i), depth+1)
			}
		case reflect.Map:
			it := v.MapRange()
			for it.Next() {
				walk(it.Key(), depth+1)
				walk(it.Value(), depth+1)
			}
		}
	}
	walk(reflect.ValueOf(obj), 0)
	return out
}

// foreign: a byte string of the decoded object that is neither in the input nor in any of the
// allowed baselines (a freshly constructed object of the type / a decode into a brand-new object)
func foreign(obj interface{}, input []byte, baselines ...interface{}) []byte {
	var base [][]byte
	for _, b := range baselines {
		if b != nil {
			base = append(base, stringsOf(b)...)
		}
	}
	for _, s := range stringsOf(obj) {
		if bytes.Contains(input, s) {
			continue
		}
		ok := false
		for _, b := range base {
			if bytes.Equal(b, s) {
				ok = true
				break
			}
		}
		if !ok {
			return s
		}
	}
	return nil
}

// carriers: encodings (kind, type, bytes) that hold the text s in key / text / blob positions
func carriers(rng *vh.Rng, s string) []enc {
	var out []enc
	addV := func(v value.Value) { out = append(out, enc{"value", "value", encodeValue(v)}) }
	m := value.NewMapValue()
	m.Put(s, value.NewTextValue(s))
	m.Put("k", value.NewIntValue(int32(rng.Intn(100))))
	addV(m)
	addV(value.NewTextValue(s))
	addV(value.NewTextArray([]string{s, "x", s}))
	l := value.NewListValue(nil)
	l.Add(value.NewBlobValue([]byte(s)))
	im := value.NewIntMapValue()
	im.Put(7, value.NewTextValue(s))
	l.Add(im)
	addV(l)
	// packs
	pp := pack.NewParamPack()
	pp.Put(s, value.NewTextValue(s))
	out = append(out, enc{"pack", "pack.ParamPack", pack.ToBytesPack(pp)})
	tc := pack.NewTagCountPack()
	tc.Category = s
	tc.Tags.Put(s, value.NewTextValue("t"))
	tc.Data.Put("d", value.NewTextValue(s))
	out = append(out, enc{"pack", "pack.TagCountPack", pack.ToBytesPack(tc)})
	ev := pack.NewEventPack()
	ev.Title, ev.Message = s, "m"
	ev.Attr.Put(s, s)
	out = append(out, enc{"pack", "pack.EventPack", pack.ToBytesPack(ev)})
	tp := pack.NewTextPack()
	tp.AddText(pack.TextRec{Div: 1, Hash: int32(rng.Intn(1000)), Text: s})
	out = append(out, enc{"pack", "pack.TextPack", pack.ToBytesPack(tp)})
	ls := pack.NewLogSinkPack()
	ls.Category, ls.Content = s, s
	ls.Tags = value.NewMapValue()
	ls.Tags.Put(s, value.NewTextValue(s))
	out = append(out, enc{"pack", "pack.LogSinkPack", pack.ToBytesPack(ls)})
	// steps, records
	ms := step.NewMessageStep()
	ms.Desc = s
	out = append(out, enc{"steps:1", "step.MessageStep", step.ToBytesStep([]step.Step{ms})})
	mx := step.NewMessageStepX()
	mx.Title, mx.Desc = s, s
	ox := gio.NewDataOutputX()
	mx.Write(ox)
	out = append(out, enc{"stepx:MessageStepX", "step.MessageStepX", ox.ToByteArray()})
	tx := service.NewTxRecord()
	tx.Uuid, tx.OriginUrl = s, s
	tx.Fields = value.NewMapValue()
	tx.Fields.Put(s, value.NewTextValue(s))
	out = append(out, enc{"txrecord", "service.TxRecord", tx.ToBytes()})
	return out
}

func freshOf(e enc) interface{} {
	switch {
	case (e.kind == "pack" || e.kind == "topack") && len(e.b) >= 2:
		return pack.CreatePack(int16(e.b[0])<<8 | int16(e.b[1]))
	case e.kind == "steps:1" && len(e.b) >= 1:
		return step.CreateStep(e.b[0])
	case e.kind == "txrecord", e.kind == "txobject":
		return service.NewTxRecord()
	}
	return nil
}

func collisionHistory(env *vh.Env, rep *vh.Report, rng *vh.Rng) {
	n, want := 500000, 6
	if env.Thorough {
		n, want = 2000000, 40
	}
	groups := [][2]string{{"AaAaAa", "BBBBBB"}, {"AaBB", "BBAa"}} // Java 31-hash, by construction
	for _, h := range []struct {
		name string
		f    func(string) uint32
	}{{"crc32", crc}, {"java31", java31}, {"fnv1a", fnv1a}} {
		ps := collidingPairs(h.f, "", n, want)
		rep.CountN("history:collision-pairs:"+h.name, len(ps))
		groups = append(groups, ps...)
	}
	for _, g := range groups {
		for order := 0; order < 2; order++ {
			a, b := g[order], g[1-order]
			ca, cb := carriers(rng, a), carriers(rng, b)
			for i := range ca {
				// A, then B, then A again: every decode is judged against its own input
				for step, e := range []enc{ca[i], cb[i], ca[i], cb[i]} {
					var obj interface{}
					o := vh.Guard(func() { obj = decodeIn(e.kind, gio.NewDataInputX(e.b), e.b) })
					rep.Case(fmt.Sprintf("collide:%s:%s:%d", e.typ, hash8(e.b), step), true)
					rep.Count("history:collision-decode:" + o.String())
					rc := replayCase{Mode: "collide", Kind: e.kind, Typ: e.typ, Hex: vh.Hex(e.b), What: vh.Hex(ca[i].b) + ">" + vh.Hex(cb[i].b)}
					if !o.OK() {
						rep.Fail("property", "history-rejects-valid:"+e.typ, e.typ+": a valid encoding is rejected after another one was decoded in the same process: "+vh.Clip(o.Panic, 80), rc)
						continue
					}
					if f := foreign(obj, e.b, freshOf(e)); f != nil {
						rep.Fail("property", "fabricated-bytes-across-decodes:"+e.typ,
							fmt.Sprintf("%s: after an input holding %q was decoded, the decode of an input holding %q (same length, same 32-bit hash) returns the %d-byte string %q, which occurs nowhere in its %d input bytes", e.typ, g[(order+step+1)%2], g[(order+step)%2], len(f), vh.Clip(string(f), 40), len(e.b)), rc)
					}
					var re []byte
					if vh.Guard(func() { re = reencodeAs(e.kind, e.typ, obj) }).OK() && re != nil && !bytes.Equal(re, e.b) && !reencodeExempt[e.typ] {
						rep.Fail("property", "decoded-differs-across-decodes:"+e.typ,
							fmt.Sprintf("%s: decoded after a colliding input, the object re-encodes to different bytes than its input (at byte %d)", e.typ, firstDiff(re, e.b)), rc)
					}
				}
			}
		}
	}
}

// ---------------------------------------------------------------- pooled UDP packs

func freshUdp(like udp.UdpPack, ver int32, b []byte) (p udp.UdpPack, ok bool) {
	o := vh.Guard(func() {
		p = reflect.New(reflect.TypeOf(like).Elem()).Interface().(udp.UdpPack)
		if f := reflect.ValueOf(p).Elem().FieldByName("Ver"); f.IsValid() {
			settable(f).SetInt(int64(ver))
		}
		p.Read(gio.NewDataInputX(b))
		p.Process()
	})
	return p, o.OK()
}

func pooledHistory(env *vh.Env, rep *vh.Report, rng *vh.Rng) {
	reps := 1
	if env.Thorough {
		reps = 4
	}
	for _, t := range udpTypes {
		for _, verB := range udpVers {
			for k := 0; k < reps*len(udpVers); k++ {
				// A: the layout of every version in turn (whichever carries the optional fields), every
				// string filled; B: the layout of verB, as generated
				top := udpVers[k%len(udpVers)]
				pa := genUdp(rng, t, top)
				if pa == nil {
					continue
				}
				fillStrings(reflect.ValueOf(pa).Elem(), rng)
				ba, okA := tryEncode(func() []byte { return udp.ToBytesPack(pa) })
				pb := genUdp(rng, t, verB)
				bb, okB := tryEncode(func() []byte { return udp.ToBytesPack(pb) })
				if !okA || !okB {
					continue
				}
				var da, db udp.UdpPack
				if !vh.Guard(func() { da = udp.ReadPack(t, top, gio.NewDataInputX(ba)) }).OK() || da == nil {
					continue
				}
				udp.ClosePack(da) // back into the pool
				if !vh.Guard(func() { db = udp.ReadPack(t, verB, gio.NewDataInputX(bb)) }).OK() || db == nil {
					continue
				}
				fresh, okF := freshUdp(db, verB, bb)
				rep.Case(fmt.Sprintf("pooled:%d:%d:%s", t, verB, hash8(bb)), true)
				rep.Count("history:pooled:" + typeName(db))
				if !okF {
					rep.Count("history:pooled:no-fresh-decode")
					udp.ClosePack(db)
					continue
				}
				rc := replayCase{Mode: "pooled", Kind: fmt.Sprintf("udp:%d:%d", t, verB), Typ: typeName(db), Hex: vh.Hex(bb), What: fmt.Sprintf("%d:", top) + vh.Hex(ba)}
				if f := foreign(db, bb, fresh); f != nil {
					what := "nowhere in its input"
					if bytes.Contains(ba, f) {
						what = "in the PREVIOUS datagram decoded into the same pooled object"
					}
					rep.Fail("property", "recycled-object-keeps-data:"+typeName(db),
						fmt.Sprintf("%s version %d decoded into an object recycled through ClosePack/CreatePack returns the %d-byte string %q, which occurs %s (and not in a decode into a new object)", typeName(db), verB, len(f), vh.Clip(string(f), 40), what), rc)
				}
				var r1, r2 []byte
				if vh.Guard(func() { r1, r2 = udp.ToBytesPack(db), udp.ToBytesPack(fresh) }).OK() && !bytes.Equal(r1, r2) {
					rep.Fail("property", "recycled-object-differs:"+typeName(db),
						fmt.Sprintf("%s version %d: the object decoded into a recycled pooled object differs from a decode into a new object (re-encodings differ at byte %d)", typeName(db), verB, firstDiff(r1, r2)), rc)
				}
				udp.ClosePack(db)
			}
		}
	}
}

// fillStrings makes every string / byte-slice field non-empty (so that a stale one is visible)
func fillStrings(v reflect.Value, rng *vh.Rng) {
	switch v.Kind() {
	case reflect.Struct:
		for i := 0; i < v.NumField(); i++ {
			fillStrings(v.Field(i), rng)
		}
	case reflect.String:
		v = settable(v)
		if v.CanSet() && v.Len() < 4 {
			v.SetString("stale-" + strconv.Itoa(rng.Intn(100000)) + "-marker")
		}
	}
}
