// Harness for C04: decoders fail closed (no fabricated data, bounded memory on bad input).
//
//  1. valid encodings are produced by the repository's own writers: tagged values (own recursive
//     generator), programs of primitive writes, packs of every registered type (constructor +
//     reflection fill), step lists, transaction records, SM packs, UDP packs at the versions around
//     every layout gate, decimal arrays, HLL sketches, record tables.  "Valid" = the real reader
//     accepts the complete encoding; where a reader leaves trailing bytes of its writer unread the
//     encoding is cut to what the reader consumes (layout mismatches are C03's subject);
//  2. prefix sweep: EVERY strict prefix of every encoding is decoded by the real decoder under
//     recover(); the outcome must be a panic (fail closed).  For values and primitive programs the
//     outcome is also compared with the Lean model (driver drv_c04, repaired-code model `V`/`R`;
//     the as-found model `VF`/`RF` classifies a disagreement as the short-read defect D01);
//     The decode is the FULL decode: the reader and then every lazy accessor of the decoded object
//     (Get…() returning tables/lists: ZipPack.GetRecords, StatGeneralPack.GetDataTable, …), in the
//     prefix sweep, the hostile sweep and the child's allocation measurement alike.  The complete
//     encoding must be consumed exactly (Available()==0), else the shorter prefix is reported.
//     2b. stream sweep (stream.go): the same truncation points through io.NewDataInputNet over an
//     in-memory net.Conn with varied fragmentation and the four ways a connection can end.
//  3. hostile sweep: the offsets of every encoding are overwritten with length/count/tag patterns
//     (-1, 0x7fffffff, 0x80000000, 65535, 32767, blob markers 254/255 with huge lengths, decimal
//     forms of 2^31-1 / 2^63-1, unknown tags) and decoded in a CHILD process (this binary re-executed
//     with -child) under RLIMIT_AS = 2 GiB, GOMEMLIMIT and a per-case watchdog; classes
//     {value, panic, fatal, timeout}; bytes allocated (MemStats.TotalAlloc) must stay
//     ≤ K·|input| + C; an over-allocation is keyed by the allocating function (heap profile /
//     fatal stack trace); the six "critical" patterns go to EVERY offset of every pack/step/record
//     encoding, the rest is spread within a budget; for corrupted values the model's outcome and
//     allocation units are compared as well;
//     plus a structured family of NESTING BOMBS (nested.go): lists in lists, maps of lists, composite
//     packs in composite packs, lists of text arrays, 1–64 KiB, every count claiming the bytes that
//     remain — a per-level allocation sized from the count is quadratic and breaks the same bound;
//  4. the witnesses of the Lean `finding_*` theorems are replayed on the implementation; the documented exception (SMBasePack older-version tail) is exercised.
package main

import (
	"bytes"
	"crypto/sha1"
	"encoding/hex"
	"encoding/json"
	"fmt"
	"os"
	"sort"
	"strconv"
	"strings"
	"sync"
	"sync/atomic"
	"time"

	gio "github.com/whatap/golib/io"
	"github.com/whatap/golib/lang/pack"
	"github.com/whatap/golib/lang/pack/udp"
	"github.com/whatap/golib/lang/step"
	"github.com/whatap/golib/lang/value"
	"verif/harness/vh"
)

// childPerCase: the parent's watchdog per hostile case; longer than the child's own patient watchdog
// (42 s), it only bounds hangs of the decoder itself
const childPerCase = 75 * time.Second

const (
	allocK = 1024      // allowed allocated bytes per input byte …
	allocC = 64 * 1024 // … plus this constant
)

var budget time.Duration
var started time.Time

func overBudget() bool { return time.Since(started) > budget }

// d01Present: probe of the root cause at start — does ReadBytes accept a short read?  While it
// does, a prefix accepted by a decoder whose inner stream the harness cannot observe (sub-stream
// readers such as BuildHyperLogLog) is attributed to it.
var d01Present bool

type enc struct {
	kind string
	typ  string
	b    []byte
}

// accessorFails: valid encodings (reader level) whose reflection-filled inner payload a lazy accessor
// rejects — established at generation, before any damaged input has been decoded
var accessorFails = map[string]bool{}

func hash8(b []byte) string {
	h := sha1.Sum(b)
	return hex.EncodeToString(h[:6])
}

func typeName(x interface{}) string {
	s := fmt.Sprintf("%T", x)
	return strings.TrimPrefix(s, "*")
}

// ---------------------------------------------------------------- generation

func tryEncode(f func() []byte) (b []byte, ok bool) {
	o := vh.Guard(func() { b = f() })
	return b, o.OK()
}

// valid: the real decoder accepts the complete encoding; consumed = how much of it the reader
// read (a reader that leaves trailing bytes of the writer unread is a layout mismatch, which is
// C03's subject: here the encoding is cut to what the reader consumes).
func valid(kind string, b []byte) (ok bool, consumed int) {
	var avail int32
	o := vh.Guard(func() { avail = decode(kind, b) })
	if !o.OK() || avail < 0 || int(avail) > len(b) {
		return false, 0
	}
	return true, len(b) - int(avail)
}

func generate(rng *vh.Rng, thorough bool, rep *vh.Report) []enc {
	mul := 1
	if thorough {
		mul = 12
	}
	var encs []enc
	var add func(kind, typ string, b []byte, ok bool)
	got := map[string]int{}
	add = func(kind, typ string, b []byte, ok bool) {
		if !ok {
			rep.Count("gen:unwritable:" + typ)
			return
		}
		ok2, consumed := valid(kind, b)
		if !ok2 {
			rep.Count("gen:not-accepted-by-reader:" + typ)
			return
		}
		if consumed < len(b) {
			// exact consumption: the reader must take everything its writer wrote, otherwise every
			// prefix that only drops unread bytes decodes to the same object
			rep.Count("gen:reader-leaves-trailing-bytes:" + typ)
			rep.Fail("property", "prefix-decodes:"+typ,
				fmt.Sprintf("%s: the reader consumes only %d of the %d bytes its writer produced, so the %d-byte strict prefix decodes to an object", typ, consumed, len(b), consumed),
				replayCase{Mode: "prefix", Kind: kind, Typ: typ, Hex: vh.Hex(b), N: consumed})
			b = b[:consumed]
			if ok3, c3 := valid(kind, b); !ok3 || c3 != len(b) {
				return
			}
		}
		rep.Count("gen:" + typ)
		// the decoded object must be the object that was encoded: its re-encoding is the input, byte for byte
		if streamable(kind) {
			var re []byte
			var dec interface{}
			if vh.Guard(func() { dec = decodeIn(kind, gio.NewDataInputX(b), b); re = reencodeAs(kind, typ, dec) }).OK() && re != nil {
				rep.Count("equal:checked")
				if !bytes.Equal(re, b) {
					rep.Count("gen:reencode-differs:" + typ)
					if !reencodeExempt[typ] && !strings.HasPrefix(kind, "udp:") {
						rep.Fail("property", "decoded-differs:"+typ,
							fmt.Sprintf("%s: the object decoded from a complete valid %d-byte encoding is not the object that was encoded (its re-encoding differs from the input at byte %d)", typ, len(b), firstDiff(re, b)),
							replayCase{Mode: "equal", Kind: kind, Typ: typ, Hex: vh.Hex(b), N: len(b)})
					}
				}
			}
			if kind == "value" && dec != nil {
				if bad := notContained(dec.(value.Value), b); bad != nil {
					rep.Fail("property", "fabricated-bytes:"+typ,
						fmt.Sprintf("%s: the decoded object holds the %d-byte text/blob %s, which occurs nowhere in the %d input bytes", typ, len(bad), vh.Clip(vh.Hex(bad), 40), len(b)),
						replayCase{Mode: "equal", Kind: kind, Typ: typ, Hex: vh.Hex(b), N: len(b)})
				}
			}
		}
		if vh.Guard(func() { decodeFull(kind, b) }).OK() {
			rep.Count("gen:full-decode-with-accessors-ok")
		} else {
			rep.Count("gen:accessor-panics-on-valid-encoding:" + typ)
			accessorFails[hash8(b)] = true
		}
		got[typ]++
		encs = append(encs, enc{kind, typ, b})
	}
	// values
	for i := 0; i < 300*mul; i++ {
		v := genValue(rng, 1+rng.Intn(3), i%40 == 0)
		b, ok := tryEncode(func() []byte { return encodeValue(v) })
		add("value", "value", b, ok)
	}
	// deep nesting
	for d := 1; d <= 6; d++ {
		var v value.Value = value.NewIntValue(7)
		for k := 0; k < d*5; k++ {
			if k%2 == 0 {
				l := value.NewListValue(nil)
				l.Add(v)
				v = l
			} else {
				m := value.NewMapValue()
				m.Put("k", v)
				v = m
			}
		}
		add("value", "value", encodeValue(v), true)
	}
	// primitive programs
	for i := 0; i < 200*mul; i++ {
		kinds, b := genProgram(rng, i%40 == 0)
		add("prim:"+kinds, "prim", b, true)
	}
	// packs of every registered type
	for _, t := range packTypes {
		name := "pack." + typeName(pack.CreatePack(t))[5:]
		for i := 0; i < 60*mul && got[name] < 5*mul; i++ { // types with partial round trips need more draws
			p := genPackOf(rng, t, 3)
			if p == nil {
				continue
			}
			b, ok := tryEncode(func() []byte { return pack.ToBytesPack(p) })
			add("pack", name, b, ok)
		}
		if got[name] == 0 {
			rep.Count("gen:writer-output-never-accepted-by-reader:" + name)
		}
	}
	// step lists
	for i := 0; i < 60*mul; i++ {
		n := 1 + rng.Intn(4)
		steps := make([]step.Step, n)
		for j := range steps {
			steps[j] = genStep(rng)
		}
		b, ok := tryEncode(func() []byte { return step.ToBytesStep(steps) })
		typ := "steps"
		if n == 1 {
			typ = "step." + typeName(steps[0])[5:]
		}
		add("steps:"+strconv.Itoa(n), typ, b, ok)
	}
	// steps of the types that are not in CreateStep, and every layout version of the versioned ones
	for _, name := range stepxNames {
		for i := 0; i < 8*mul; i++ {
			o := stepxCtors[name]()
			fillObj(rng, o, 2)
			if h, ok := o.(*step.HttpcStepX); ok {
				h.Version = byte(i % 4) // 0, 1 (placeholder decimal), 2 (step id, driver, url, param), 3
			}
			b, ok := tryEncode(func() []byte {
				out := gio.NewDataOutputX()
				o.Write(out)
				return out.ToByteArray()
			})
			add("stepx:"+name, "step."+name, b, ok)
		}
	}
	for i := 0; i < 12*mul; i++ {
		h := step.NewHttpcStepXVersion(byte(i % 4))
		fillObj(rng, h, 2)
		h.Version = byte(i % 4)
		b, ok := tryEncode(func() []byte { return step.ToBytesStep([]step.Step{h}) })
		add("steps:1", fmt.Sprintf("step.HttpcStepX.v%d", i%4), b, ok)
	}
	// stat records in every version their writer supports
	for i := 0; i < 12*mul; i++ {
		x := pack.NewTransactionRec()
		fillObj(rng, x, 1)
		ver := byte(2 + i%3)
		b, ok := tryEncode(func() []byte {
			out := gio.NewDataOutputX()
			pack.WriteTransactionRec(out, x, ver)
			return out.ToByteArray()
		})
		add("txrec", fmt.Sprintf("pack.TransactionRec.v%d", ver), b, ok)
		svr := &pack.ServiceRec{}
		fillObj(rng, svr, 1)
		for k, n := 0, rng.Intn(3); k < n; k++ {
			if svr.SqlMap == nil {
				svr.SqlMap, svr.HttpcMap = pack.CreateMap(4), pack.CreateMap(4)
			}
			svr.SqlMap.Put(int32(rng.U64()), pack.NewTimeCount(int32(k), 1, genInt(rng, 5)))
			svr.HttpcMap.Put(int32(rng.U64()), pack.NewTimeCount(int32(k), 0, genInt(rng, 5)))
		}
		b, ok = tryEncode(func() []byte {
			out := gio.NewDataOutputX()
			pack.NewStatServicePack().WriteRec(out, svr)
			return out.ToByteArray()
		})
		add("servicerec", "pack.ServiceRec", b, ok)
		hr := pack.NewHttpcRec()
		fillObj(rng, hr, 1)
		b, ok = tryEncode(func() []byte { out := gio.NewDataOutputX(); hr.Write(out); return out.ToByteArray() })
		add("httpcrec", "pack.HttpcRec", b, ok)
		sr := pack.NewSqlRec()
		fillObj(rng, sr, 1)
		b, ok = tryEncode(func() []byte { out := gio.NewDataOutputX(); sr.Write(out); return out.ToByteArray() })
		add("sqlrec", "pack.SqlRec", b, ok)
	}
	// transaction records
	for i := 0; i < 40*mul; i++ {
		t := genTxRecord(rng)
		b, ok := tryEncode(func() []byte { return t.ToBytes() })
		add("txrecord", "service.TxRecord", b, ok)
	}
	// the other exported entry points of the anchored files: pack.ToPack, TxRecord.ToObject (from a slice),
	// value.ReadMapValue
	for i := 0; i < 16*mul; i++ {
		if p := genPack(rng, 2); p != nil {
			b, ok := tryEncode(func() []byte { return pack.ToBytesPack(p) })
			add("topack", "pack.ToPack", b, ok)
		}
		t := genTxRecord(rng)
		b, ok := tryEncode(func() []byte { return t.ToBytes() })
		add("txobject", "service.TxRecord.ToObject", b, ok)
		m := genMapValue(rng, 2, false)
		b, ok = tryEncode(func() []byte { return value.WriteMapValue(gio.NewDataOutputX(), m).ToByteArray() })
		add("mapvalue", "value.ReadMapValue", b, ok)
	}
	// SM packs (not in CreatePack: read through their own Read)
	for _, name := range smNames {
		for i := 0; i < 40*mul && got["pack."+name] < 5*mul; i++ {
			o := genSM(rng, name)
			b, ok := tryEncode(func() []byte {
				out := gio.NewDataOutputX()
				o.Write(out)
				return out.ToByteArray()
			})
			add("sm:"+name, "pack."+name, b, ok)
		}
	}
	// UDP packs (the version comes with the datagram header, not with the body)
	for _, t := range udpTypes {
		for i := 0; i < 3*mul; i++ {
			ver := udpVers[rng.Intn(len(udpVers))]
			p := genUdp(rng, t, ver)
			if p == nil {
				continue
			}
			b, ok := tryEncode(func() []byte { return udp.ToBytesPack(p) })
			add(fmt.Sprintf("udp:%d:%d", t, ver), "udp."+typeName(p)[4:], b, ok)
		}
	}
	// decimal arrays, HLL sketch, record tables
	for i := 0; i < 10*mul; i++ {
		out := gio.NewDataOutputX()
		n := genCount(rng)
		out.WriteDecimal(int64(n))
		for j := 0; j < n; j++ {
			out.WriteDecimal(genInt(rng, 8))
		}
		add("decarr", "io.ReadDecimalArray", out.ToByteArray(), true)
		out = gio.NewDataOutputX()
		out.WriteDecimal(int64(n))
		for j := 0; j < n; j++ {
			out.WriteDecimal(genInt(rng, 4))
		}
		add("decarrint", "io.ReadDecimalArrayInt", out.ToByteArray(), true)
		out = gio.NewDataOutputX()
		out.WriteInt(int32(4 + rng.Intn(4)))
		out.WriteInt(int32(n))
		for j := 0; j < n; j++ {
			out.WriteInt(int32(rng.U64()))
		}
		add("hll", "hll.BuildHyperLogLog", out.ToByteArray(), true)
		out = gio.NewDataOutputX()
		out.WriteShort(int16(n))
		for j := 0; j < n; j++ {
			out.WriteInt(int32(rng.U64())).WriteInt(int32(rng.U64())).WriteLong(genInt(rng, 8)).WriteDecimal(genInt(rng, 4)).WriteDecimal(genInt(rng, 4))
		}
		add("errrecs", "pack.StatErrorPack.GetRecords", out.ToByteArray(), true)
		out = gio.NewDataOutputX()
		out.WriteShort(int16(n))
		for j := 0; j < n; j++ {
			out.WriteText(genText(rng, false)).WriteText(genText(rng, false)).WriteInt(int32(rng.U64())).WriteBool(rng.Bool())
		}
		add("downrecs", "pack.SMDownCheckPack.GetRecords", out.ToByteArray(), true)
		out = gio.NewDataOutputX()
		out.WriteIntBytes(genBytes(rng, false))
		add("intbyteslimit", "io.ReadIntBytesLimit", out.ToByteArray(), true)
	}
	return encs
}

// types whose writer is not canonical on the decoded object (hash-ordered tables, derived fields):
// C03 / C07 state what they carry; no byte-identical re-encoding is demanded of them here
// (a composite may hold a CounterPack1; its children's types are checked on their own; the UDP packs
// are normalised by Process() after Read — C07 states what they carry)
var reencodeExempt = map[string]bool{"pack.CounterPack1": true, "pack.ServiceRec": true, "pack.CompositePack": true, "pack.ToPack": true}

func firstDiff(a, b []byte) int {
	for i := 0; i < len(a) && i < len(b); i++ {
		if a[i] != b[i] {
			return i
		}
	}
	if len(a) < len(b) {
		return len(a)
	}
	return len(b)
}

// notContained returns a text / blob / key of the decoded value that is not a substring of the
// input (nil if all are): no read may return bytes that were not in its input
func notContained(v value.Value, in []byte) []byte {
	chk := func(s []byte) []byte {
		if len(s) > 0 && !bytes.Contains(in, s) {
			return s
		}
		return nil
	}
	switch x := v.(type) {
	case *value.TextValue:
		return chk([]byte(x.Val))
	case *value.BlobValue:
		return chk(x.Val)
	case *value.IP4Value:
		return chk(x.Val)
	case *value.TextArray:
		for _, s := range x.Val {
			if b := chk([]byte(s)); b != nil {
				return b
			}
		}
	case *value.ListValue:
		for i := 0; i < x.Size(); i++ {
			if b := notContained(x.Get(i), in); b != nil {
				return b
			}
		}
	case *value.MapValue:
		ks := x.Keys()
		for ks.HasMoreElements() {
			k := ks.NextString()
			if b := chk([]byte(k)); b != nil {
				return b
			}
			if b := notContained(x.Get(k), in); b != nil {
				return b
			}
		}
	case *value.IntMapValue:
		ks := x.Keys()
		for ks.HasMoreElements() {
			if b := notContained(x.Get(ks.NextInt()), in); b != nil {
				return b
			}
		}
	}
	return nil
}

// ---------------------------------------------------------------- format-defined exceptions

// exception reports whether the format defines the prefix b[:n] of this encoding as a complete
// message of its own (enumerated explicitly; see notes/C04.md).
func exception(e enc, n int) (string, bool) {
	switch e.kind {
	case "hll", "errrecs", "downrecs":
		// these read from a byte slice field that is the whole stream: no enclosing message
		return "", false
	}
	return "", false
}

// prefixLens: every strict prefix when the encoding is small, otherwise all prefixes within the
// first and last 400 bytes plus 300 spread offsets.
func prefixLens(n int, rng *vh.Rng) []int {
	if n <= 1500 {
		out := make([]int, n)
		for i := range out {
			out[i] = i
		}
		return out
	}
	set := map[int]struct{}{}
	for i := 0; i < 400; i++ {
		set[i] = struct{}{}
		set[n-1-i] = struct{}{}
	}
	for i := 0; i < 300; i++ {
		set[rng.Intn(n)] = struct{}{}
	}
	out := make([]int, 0, len(set))
	for k := range set {
		out = append(out, k)
	}
	sort.Ints(out)
	return out
}

type prefixRes struct {
	e     int
	n     int
	ok    bool
	avail int32
	hang  string
}

type replayCase struct {
	Mode string `json:"mode"` // prefix | hostile | witness
	Kind string `json:"kind"`
	Typ  string `json:"type"`
	Hex  string `json:"hex"`
	N    int    `json:"n,omitempty"`
	What string `json:"what,omitempty"`
}

// ---------------------------------------------------------------- hostile patterns

type pattern struct {
	name string
	b    []byte
}

var patterns = []pattern{
	{"b:ff", []byte{0xff}}, {"b:fe", []byte{0xfe}}, {"b:7f", []byte{0x7f}}, {"b:80", []byte{0x80}},
	{"b:63", []byte{0x63}}, {"b:c8", []byte{0xc8}}, {"b:09", []byte{9}},
	{"s:ffff", []byte{0xff, 0xff}}, {"s:7fff", []byte{0x7f, 0xff}}, {"s:8000", []byte{0x80, 0x00}},
	{"i:ffffffff", []byte{0xff, 0xff, 0xff, 0xff}}, {"i:7fffffff", []byte{0x7f, 0xff, 0xff, 0xff}},
	{"i:80000000", []byte{0x80, 0, 0, 0}}, {"i:0000ffff", []byte{0, 0, 0xff, 0xff}}, {"i:00100000", []byte{0, 0x10, 0, 0}},
	{"d:2:7fff", []byte{2, 0x7f, 0xff}}, {"d:3:7fffff", []byte{3, 0x7f, 0xff, 0xff}},
	{"d:4:7fffffff", []byte{4, 0x7f, 0xff, 0xff, 0xff}}, {"d:4:-1", []byte{4, 0xff, 0xff, 0xff, 0xff}},
	{"d:4:00100000", []byte{4, 0, 0x10, 0, 0}}, {"d:5:7f..", []byte{5, 0x7f, 0xff, 0xff, 0xff, 0xff}},
	{"d:8:7f..", []byte{8, 0x7f, 0xff, 0xff, 0xff, 0xff, 0xff, 0xff, 0xff}},
	{"d:8:2^32", []byte{8, 0, 0, 0, 1, 0, 0, 0, 0}},
	{"blob:254:7fffffff", []byte{254, 0x7f, 0xff, 0xff, 0xff}}, {"blob:254:-1", []byte{254, 0xff, 0xff, 0xff, 0xff}},
	{"blob:254:00100000", []byte{254, 0, 0x10, 0, 0}}, {"blob:255:ffff", []byte{255, 0xff, 0xff}},
	{"list:4:7fffffff", []byte{70, 4, 0x7f, 0xff, 0xff, 0xff}}, {"list:3:7fffff", []byte{70, 3, 0x7f, 0xff, 0xff}},
	{"textarr:7fff", []byte{73, 0x7f, 0xff}}, {"map:4:7fffffff", []byte{80, 4, 0x7f, 0xff, 0xff, 0xff}},
}

func mutate(b []byte, off int, p []byte) []byte {
	out := make([]byte, 0, len(b)+len(p))
	out = append(out, b[:off]...)
	out = append(out, p...)
	if off+len(p) < len(b) {
		out = append(out, b[off+len(p):]...)
	}
	return out
}

// ---------------------------------------------------------------- main

func main() {
	if len(os.Args) > 1 && os.Args[1] == "-child" {
		childMain(os.Args[2:])
		return
	}
	if len(os.Args) > 1 && os.Args[1] == "-afterhist" {
		afterChildMain(os.Args[2:])
		return
	}
	env, rep := vh.Parse("C04")
	rng := vh.NewRng(env.Seed)
	self, err := os.Executable()
	if err != nil {
		vh.Die("os.Executable: %v", err)
	}
	rep.Rule = "a case = (valid encoding produced by the repository's writer, truncation point) or (valid encoding, offset, hostile pattern); " +
		"valid encodings: random tagged values (depth ≤ 4, plus nesting to depth 30), programs of 1–6 primitive writes, reflection-filled packs of all 24 registered types, " +
		"step lists, TxRecords, 9 SM packs, 18 UDP pack types at 25 versions, decimal arrays, HLL sketches, record tables; non-trivial = truncation point ≥ 1 / mutated bytes differ from the original; " +
		"distinct = by (type, hash of the decoded input, truncation point)"

	if env.Replay != "" {
		runReplay(env, rep, self)
		rep.Write(env.Out)
		return
	}

	d01Present = vh.Guard(func() { gio.NewDataInputX([]byte{1, 2, 3}).ReadLong() }).OK()
	budget = 420 * time.Second
	if env.Thorough {
		budget = 2400 * time.Second
	}
	started = time.Now()
	// the last resort: a stage that blocks the main goroutine (no decoder of the repository does; a
	// changed one may) — the failures found so far and the name of the stage are reported, well
	// before the check's own timeout
	var current atomic.Value
	current.Store("generate")
	go func() {
		time.Sleep(budget + budget/3)
		last := &vh.Report{Property: rep.Property, Tier: rep.Tier, Seed: rep.Seed, Evaluations: rep.Evaluations, Rule: rep.Rule,
			Samples: []interface{}{}, Distribution: map[string]int{"stage-never-returns": 1}, Known: []vh.Known{}, Notes: []string{}, Extra: map[string]interface{}{}}
		last.Failures = append([]vh.Failure{}, rep.Failures...)
		name := current.Load().(string)
		last.Fail("property", "stage-never-returns:"+name, "the stage '"+name+"' of the harness did not return within the harness's time budget: a decoder blocks outside every watchdog", replayCase{Mode: "none"})
		last.Write(env.Out)
		os.Exit(0)
	}()
	stage := func(name string, f func()) {
		if overBudget() {
			rep.Note("stage-cut-short: %s not run (time budget of the harness used up)", name)
			rep.Count("stage-cut-short:" + name)
			return
		}
		current.Store(name)
		t0 := time.Now()
		f()
		rep.Count(fmt.Sprintf("stage-seconds:%s:%d", name, int(time.Since(t0).Seconds()+0.5)))
		if rep.NFail() > 0 {
			// what has been found survives whatever happens in a later stage (without a finding there
			// is no partial report: a harness that dies must not look like a quiet one)
			rep.Write(env.Out)
		}
	}
	encs := generate(rng, env.Thorough, rep)
	rep.Note("%d valid encodings generated", len(encs))
	for i := 0; i < len(encs) && i < 400; i += 57 {
		rep.Sample(map[string]interface{}{"type": encs[i].typ, "kind": encs[i].kind, "len": len(encs[i].b), "hex": vh.Clip(vh.Hex(encs[i].b), 120)})
	}

	stage("prefix", func() { prefixSweep(env, rep, rng, encs) })
	stage("large", func() { largeSweep(env, rep, rng) })
	stage("alias", func() { aliasSweep(env, rep, rng, encs) })
	stage("stream", func() { streamSweep(env, rep, rng, encs) })
	stage("retry", func() { retrySweep(env, rep, rng, encs) })
	// the two stages that meet allocation bombs in memory-limited child processes run before the
	// in-process history stages: when a count check is gone, what they found is already in the report
	// if a later in-process decode takes the harness down with it (C04-r7-2)
	stage("nested", func() { nestedSweep(env, rep, rng, self) })
	stage("hostile", func() { hostileSweep(env, rep, rng, encs, self) })
	stage("after", func() { afterSweep(env, rep, rng, encs) })
	stage("collision", func() { collisionHistory(env, rep, rng) })
	stage("pooled", func() { pooledHistory(env, rep, rng) })
	stage("witnesses", func() { witnesses(env, rep, self) })
	stage("extra-reads", func() { extraSweep(env, rep, rng) })
	stage("older-version", func() { olderVersion(env, rep, rng) })
	rep.Write(env.Out)
}

// ---------------------------------------------------------------- 2. prefix sweep

func prefixSweep(env *vh.Env, rep *vh.Report, rng *vh.Rng, encs []enc) {
	type job struct {
		e    int
		lens []int
	}
	jobs := make([]job, len(encs))
	for i := range encs {
		jobs[i] = job{i, prefixLens(len(encs[i].b), rng)}
	}
	results := make([][]prefixRes, len(encs))
	var wg sync.WaitGroup
	sem := make(chan struct{}, 12)
	for i := range jobs {
		wg.Add(1)
		sem <- struct{}{}
		go func(j job) {
			defer wg.Done()
			defer func() { <-sem }()
			e := encs[j.e]
			rs := make([]prefixRes, 0, len(j.lens))
			for _, n := range j.lens {
				var avail int32
				o := vh.Guard(func() { avail, _ = decodeFull(e.kind, e.b[:n]) })
				hang := ""
				if strings.HasPrefix(o.Panic, hangMarker) {
					hang = strings.TrimPrefix(o.Panic, hangMarker)
				}
				rs = append(rs, prefixRes{j.e, n, o.OK(), avail, hang})
			}
			results[j.e] = rs
		}(jobs[i])
	}
	wg.Wait()

	// model comparison for values and primitive programs
	var lines []string
	var lineOf [][2]int // (enc, index in results[enc])
	for ei, e := range encs {
		if e.kind != "value" && e.kind != "mapvalue" && e.kind != "pack" && !strings.HasPrefix(e.kind, "prim:") {
			continue
		}
		cmd := func(b []byte) string {
			switch {
			case e.kind == "value", e.kind == "mapvalue": // ReadMapValue = ReadValue on the map tag (nil otherwise)
				return "V " + vh.Hex(b)
			case e.kind == "pack": // the transcribed reader layout of the pack type, instrumented (FailClosed.toA)
				return "LP " + vh.Hex(b)
			}
			return "R " + e.kind[5:] + " " + vh.Hex(b)
		}
		for k, r := range results[ei] {
			lines = append(lines, cmd(e.b[:r.n]))
			lineOf = append(lineOf, [2]int{ei, k})
		}
		// the complete encoding
		lines = append(lines, cmd(e.b))
		lineOf = append(lineOf, [2]int{ei, -1})
	}
	outs, err := vh.RunDriver(env.Driver, lines)
	if err != nil {
		vh.Die("%v", err)
	}
	modelFail := map[[2]int]bool{}
	for i, o := range outs {
		ei, k := lineOf[i][0], lineOf[i][1]
		e := encs[ei]
		f := strings.Fields(o)
		if o == "skip" { // pack type without a fully transcribed layout
			rep.Count("model:pack-layout:skip")
			continue
		}
		if len(f) < 2 {
			vh.Die("driver answered %q to %q", o, vh.Clip(lines[i], 100))
		}
		if e.kind == "pack" {
			rep.Count("model:pack-layout:" + e.typ)
		}
		if k < 0 {
			rep.Count("model:full:" + f[0])
			if f[0] != "ok" || f[1] != "0" {
				rep.Fail("correspondence", "model:"+e.typ+":complete-encoding-rejected",
					"the model does not decode a complete encoding that the implementation decodes: "+o,
					replayCase{Mode: "prefix", Kind: e.kind, Typ: e.typ, Hex: vh.Hex(e.b), N: len(e.b)})
			}
			continue
		}
		r := results[ei][k]
		rep.Count("model:prefix:" + f[0])
		if f[0] == "ok" {
			// impossible by C04.prefix_fails; would mean the model and the writer disagree
			rep.Fail("correspondence", "model:"+e.typ+":prefix-accepted",
				fmt.Sprintf("the model decodes the %d-byte prefix of a %d-byte encoding", r.n, len(e.b)),
				replayCase{Mode: "prefix", Kind: e.kind, Typ: e.typ, Hex: vh.Hex(e.b), N: r.n})
		} else {
			modelFail[[2]int{ei, k}] = true
		}
	}

	// verdicts
	var asFoundLines []string
	var asFoundOf [][2]int
	for ei, e := range encs {
		for k, r := range results[ei] {
			rep.Case(e.typ+":"+hash8(e.b)+"@"+strconv.Itoa(r.n), r.n >= 1)
			rep.Count("prefix:" + e.typ)
			if r.hang != "" {
				rep.Fail("property", r.hang+":hangs-after-failed-decode",
					fmt.Sprintf("%s: after the lazy decode of the %d-byte prefix of a %d-byte encoding failed, calling %s (or another accessor) on the same object again never returns", e.typ, r.n, len(e.b), r.hang),
					replayCase{Mode: "prefix", Kind: e.kind, Typ: e.typ, Hex: vh.Hex(e.b), N: r.n})
			}
			if !r.ok {
				rep.Count("prefix-outcome:panic")
				continue
			}
			if what, ok := exception(e, r.n); ok {
				rep.Count("prefix-outcome:exception:" + what)
				continue
			}
			rep.Count("prefix-outcome:DECODED")
			rc := replayCase{Mode: "prefix", Kind: e.kind, Typ: e.typ, Hex: vh.Hex(e.b), N: r.n}
			inner := e.kind == "hll" || e.kind == "errrecs" || e.kind == "downrecs"
			if r.avail < 0 || (inner && d01Present) {
				rep.Fail("property", "ReadBytes:short-read-accepted",
					fmt.Sprintf("%s: the %d-byte strict prefix of a valid %d-byte encoding decodes to an object (Available() = %d afterwards: a read past the end was answered with zero padding)", e.typ, r.n, len(e.b), r.avail), rc)
				if modelFail[[2]int{ei, k}] {
					if e.kind == "pack" {
						// no as-found model of the pack layouts
					} else if e.kind == "value" || e.kind == "mapvalue" {
						asFoundLines = append(asFoundLines, "VF "+vh.Hex(e.b[:r.n]))
					} else {
						asFoundLines = append(asFoundLines, "RF "+e.kind[5:]+" "+vh.Hex(e.b[:r.n]))
					}
					asFoundOf = append(asFoundOf, [2]int{ei, k})
				}
			} else {
				rep.Fail("property", "prefix-decodes:"+e.typ,
					fmt.Sprintf("%s: the %d-byte strict prefix of a valid %d-byte encoding decodes to an object (no short read involved: the reader does not consume what the writer wrote)", e.typ, r.n, len(e.b)), rc)
			}
		}
	}
	// where the implementation accepted a prefix through a short read, the as-found model must accept it too
	if len(asFoundLines) > 0 {
		if len(asFoundLines) > 20000 {
			asFoundLines, asFoundOf = asFoundLines[:20000], asFoundOf[:20000]
		}
		outs, err := vh.RunDriver(env.Driver, asFoundLines)
		if err != nil {
			vh.Die("%v", err)
		}
		for i, o := range outs {
			rep.Count("model:asFound:" + strings.Fields(o)[0])
			if !strings.HasPrefix(o, "ok") {
				ei, k := asFoundOf[i][0], asFoundOf[i][1]
				e, r := encs[ei], results[ei][k]
				rep.Fail("correspondence", "model:"+e.typ+":asFound-differs",
					"the implementation decodes this prefix through a short read, the as-found model does not: "+o,
					replayCase{Mode: "prefix", Kind: e.kind, Typ: e.typ, Hex: vh.Hex(e.b), N: r.n})
			}
		}
	}
}

// ---------------------------------------------------------------- 3. hostile sweep

// critical patterns: the ones that turn a count / length field into a huge one in each of the
// integer forms of the format; they are applied at EVERY offset of every pack, step, record and
// SM/UDP encoding (the other patterns, and all patterns on values and primitive programs, whose
// layout the value generator already varies, are spread over the offsets within a budget)
var critical = map[string]bool{"d:4:7fffffff": true, "i:7fffffff": true, "s:7fff": true, "blob:254:7fffffff": true, "d:8:2^32": true, "d:3:7fffff": true}

func hostileSweep(env *vh.Env, rep *vh.Report, rng *vh.Rng, encs []enc, self string) {
	budget := 160000
	if env.Thorough {
		budget = 2500000
	}
	per := budget / (len(encs) + 1)
	if per < 60 {
		per = 60
	}
	var cases []hcase
	total := 0
	flush := func() {
		if len(cases) == 0 {
			return
		}
		res := runChildren(self, allocK, allocC, cases, 12, childPerCase)
		judgeHostile(env, rep, cases, res, true)
		total += len(cases)
		cases = cases[:0]
	}
	seen := map[[8]byte]struct{}{}
	everywhere := map[string]int{} // per type: encodings that got the critical patterns at every offset
	for _, e := range encs {
		structural := e.kind != "value" && !strings.HasPrefix(e.kind, "prim:")
		full := false
		if structural && len(e.b) <= 1200 && everywhere[e.typ] < 8 {
			everywhere[e.typ]++
			full = true
		}
		n := len(e.b) * len(patterns)
		stride := 1
		if n > per {
			stride = (n + per - 1) / per
		}
		idx := rng.Intn(stride)
		for off := 0; off < len(e.b); off++ {
			for _, p := range patterns {
				idx++
				if idx%stride != 0 && !(full && critical[p.name]) {
					continue
				}
				m := mutate(e.b, off, p.b)
				if string(m) == string(e.b) {
					continue
				}
				h := sha1.Sum(append([]byte(e.kind+"|"), m...))
				var k [8]byte
				copy(k[:], h[:8])
				if _, dup := seen[k]; dup {
					continue
				}
				seen[k] = struct{}{}
				cases = append(cases, hcase{Kind: e.kind, Typ: e.typ, Hex: vh.Hex(m), What: fmt.Sprintf("%s@%d", p.name, off)})
				rep.Count("hostile-pattern:" + p.name)
			}
		}
		if len(cases) >= 150000 {
			flush()
		}
		if overBudget() {
			rep.Note("stage-cut-short: hostile sweep stopped after %d inputs (time budget)", total)
			rep.Count("stage-cut-short:hostile")
			break
		}
	}
	flush()
	rep.Note("%d hostile inputs", total)
}

func judgeHostile(env *vh.Env, rep *vh.Report, cases []hcase, res []hres, model bool) {
	// an over-allocation whose site the heap profile of a busy child did not name: once more, alone
	var lone []hcase
	var loneIdx []int
	for i := range cases {
		if res[i].site == "?" && len(lone) < 64 {
			lone = append(lone, cases[i])
			loneIdx = append(loneIdx, i)
		}
	}
	if len(lone) > 0 {
		self, _ := os.Executable()
		for lo := 0; lo < len(lone); lo += 8 {
			hi := lo + 8
			if hi > len(lone) {
				hi = len(lone)
			}
			r2 := runChildren(self, allocK, allocC, lone[lo:hi], hi-lo, childPerCase)
			for k := range r2 {
				if r2[k].site != "?" && r2[k].site != "-" && r2[k].site != "" {
					res[loneIdx[lo+k]].site = r2[k].site
				}
			}
		}
		rep.CountN("hostile:site-resolved-in-isolation", len(lone))
	}
	// load-proofing: TotalAlloc is process-wide (background goroutines of the repository allocate
	// too): an allocation over the bound is measured again, alone, and the smaller reading counts
	{
		var over []hcase
		var overIdx []int
		for i, c := range cases {
			n := int64(len(c.Hex) / 2)
			if (res[i].class == "value" || res[i].class == "panic") && res[i].alloc > allocK*n+allocC && len(over) < 48 {
				over = append(over, c)
				overIdx = append(overIdx, i)
			}
		}
		if len(over) > 0 {
			self, _ := os.Executable()
			r2 := runChildren(self, allocK, allocC, over, 4, childPerCase)
			for k := range r2 {
				if (r2[k].class == "value" || r2[k].class == "panic") && r2[k].alloc < res[overIdx[k]].alloc {
					res[overIdx[k]].alloc = r2[k].alloc
					if r2[k].site != "-" && r2[k].site != "?" {
						res[overIdx[k]].site = r2[k].site
					}
				}
			}
			rep.CountN("hostile:over-bound-remeasured", len(over))
		}
	}
	var vlines []string
	var vidx []int
	for i, c := range cases {
		r := res[i]
		n := (len(c.Hex) + 1) / 2
		if c.Hex == "-" {
			n = 0
		}
		rep.Case("H:"+c.Typ+":"+hash8([]byte(c.Hex)), true)
		rep.Count("hostile:" + c.Typ)
		rep.Count("hostile-class:" + r.class)
		rc := replayCase{Mode: "hostile", Kind: c.Kind, Typ: c.Typ, Hex: c.Hex, What: c.What}
		switch r.class {
		case "skipped":
			rep.Count("hostile:skipped-after-established-hang:" + c.Typ)
		case "hang":
			rep.Fail("property", r.site+":hangs-after-failed-decode",
				fmt.Sprintf("%s: after the lazy decode of a %d-byte corrupted input (%s) failed, calling %s (or another accessor) on the same object again never returns", c.Typ, n, c.What, r.site), rc)
		case "fatal":
			rep.Fail("property", "alloc:"+r.site,
				fmt.Sprintf("%s: decoding a %d-byte corrupted input (%s) kills the process (fatal, not a recoverable panic) in %s under a 2 GiB address-space limit", c.Typ, n, c.What, r.site), rc)
		case "timeout":
			rep.Fail("property", "timeout:"+c.Typ,
				fmt.Sprintf("%s: decoding a %d-byte corrupted input (%s) does not finish within the watchdog", c.Typ, n, c.What), rc)
		case "value", "panic":
			if r.alloc > allocK*int64(n)+allocC {
				rep.Fail("property", "alloc:"+r.site,
					fmt.Sprintf("%s: decoding a %d-byte corrupted input (%s) allocates %d bytes in %s (bound %d·len+%d)", c.Typ, n, c.What, r.alloc, r.site, allocK, allocC), rc)
			} else if model && c.Kind == "value" {
				vlines = append(vlines, "V "+c.Hex)
				vidx = append(vidx, i)
			}
		default:
			vh.Die("no result for hostile case %d (%s)", i, c.Typ)
		}
	}
	if len(vlines) == 0 {
		return
	}
	outs, err := vh.RunDriver(env.Driver, vlines)
	if err != nil {
		vh.Die("%v", err)
	}
	worst := 0.0
	type sus struct {
		i    int
		cost int64
	}
	var suspects []sus
	for j, o := range outs {
		i := vidx[j]
		c, r := cases[i], res[i]
		f := strings.Fields(o)
		if len(f) < 2 {
			vh.Die("driver answered %q", o)
		}
		rc := replayCase{Mode: "hostile", Kind: c.Kind, Typ: c.Typ, Hex: c.Hex, What: c.What}
		mclass := "panic"
		if f[0] == "ok" {
			mclass = "value"
		}
		rep.Count("model:hostile:" + mclass)
		if mclass != r.class && r.class == "value" && r.avail < 0 {
			rep.Fail("property", "ReadBytes:short-read-accepted",
				fmt.Sprintf("corrupted value (%s) decodes to an object through a read past the end of the input (Available() = %d)", c.What, r.avail), rc)
			continue
		}
		if mclass != r.class {
			rep.Fail("correspondence", "model:value:hostile-outcome",
				fmt.Sprintf("corrupted value (%s): implementation %s, model %s", c.What, r.class, mclass), rc)
			continue
		}
		cost, _ := strconv.ParseInt(f[len(f)-1], 10, 64)
		// the model's units (×4: string copies, size classes) are an upper estimate of the bytes allocated
		if r.alloc > 4*cost+4096 {
			suspects = append(suspects, sus{i, cost})
		}
		if q := float64(r.alloc) / float64(4*cost+4096); q > worst && q <= 1 {
			worst = q
		}
	}
	if len(suspects) > 0 {
		// TotalAlloc is process-wide: measure again (twice) and take the smallest reading
		rep.CountN("model:alloc-remeasured", len(suspects))
		var again []hcase
		for _, s := range suspects {
			again = append(again, cases[s.i], cases[s.i])
		}
		self, _ := os.Executable()
		res2 := runChildren(self, allocK, allocC, again, 4, childPerCase)
		for k, s := range suspects {
			c := cases[s.i]
			a := res[s.i].alloc
			for _, r2 := range res2[2*k : 2*k+2] {
				if (r2.class == "value" || r2.class == "panic") && r2.alloc < a {
					a = r2.alloc
				}
			}
			if a > 4*s.cost+4096 {
				rep.Fail("correspondence", "model:value:alloc-underestimated",
					fmt.Sprintf("corrupted value (%s): implementation allocated %d bytes, the model charges %d units", c.What, a, s.cost),
					replayCase{Mode: "hostile", Kind: c.Kind, Typ: c.Typ, Hex: c.Hex, What: c.What})
			}
			if q := float64(a) / float64(4*s.cost+4096); q > worst {
				worst = q
			}
		}
	}
	rep.Extra["alloc_measured_over_model_worst"] = worst
}

// ---------------------------------------------------------------- 4. witnesses of the finding_* theorems

type witness struct {
	key  string
	kind string
	hex  string
	what string
}

var witnessList = []witness{
	{"ReadBytes:short-read-accepted", "prim:long", "010203", "finding_D01: ReadLong over the 3 bytes 01 02 03"},
	{"ReadBytes:short-read-accepted", "value", "14040102", "d01_value_padded: DecimalValue, width 4, two of four bytes"},
	{"alloc:io.(*DataInputX).ReadBytes", "prim:blob", "fe7fffffff", "finding_D02_readBytes: ReadBlob over fe 7f ff ff ff"},
	{"alloc:value.(*ListValue).Read", "value", "46047fffffff", "finding_D02_list: list tag, count 2^31-1"},
	{"alloc:io.(*DataInputX).ReadTextArray", "value", "497fff", "finding_D02_array: text array tag, count 32767"},
}

func witnesses(env *vh.Env, rep *vh.Report, self string) {
	var cases []hcase
	for _, w := range witnessList {
		cases = append(cases, hcase{Kind: w.kind, Typ: "witness", Hex: w.hex, What: w.what})
	}
	res := runChildren(self, allocK, allocC, cases, 4, childPerCase)
	for i, w := range witnessList {
		r := res[i]
		n := len(w.hex) / 2
		bad := false
		detail := ""
		if strings.HasPrefix(w.key, "ReadBytes:short") {
			bad = r.class == "value"
			detail = "decodes to an object"
		} else {
			bad = r.class == "fatal" || r.class == "timeout" || r.alloc > allocK*int64(n)+allocC
			detail = fmt.Sprintf("class %s, %d bytes allocated in %s", r.class, r.alloc, r.site)
		}
		rep.Count("witness:" + map[bool]string{true: "reproduces", false: "repaired"}[bad])
		rep.Case("W:"+w.kind+":"+w.hex, true)
		if bad {
			key := w.key
			if strings.HasPrefix(key, "alloc:") && r.site != "-" && r.site != "?" && r.site != "" {
				key = "alloc:" + r.site
			}
			rep.Fail("property", key, w.what+": "+detail,
				replayCase{Mode: "witness", Kind: w.kind, Typ: "witness", Hex: w.hex, What: w.what})
		}
	}
}

// ---------------------------------------------------------------- the documented exception

// olderVersion: an SMBasePack message written without the trailing Extra section (older agent)
// is a complete message (`if din.Available() == 0 { return }`); every other strict prefix fails.
func olderVersion(env *vh.Env, rep *vh.Report, rng *vh.Rng) {
	for i := 0; i < 20; i++ {
		o := genSM(rng, "SMBasePack").(*pack.SMBasePack)
		o.Extra = nil
		out := gio.NewDataOutputX()
		if !vh.Guard(func() { o.Write(out) }).OK() {
			continue
		}
		full := out.ToByteArray()
		if ok, c := valid("sm:SMBasePack", full); !ok || c != len(full) {
			continue
		}
		body := gio.NewDataInputX(full).ReadBlob()
		old := gio.NewDataOutputX().WriteBlob(body[:len(body)-1]).ToByteArray() // without the presence byte of Extra
		var got *pack.SMBasePack
		oc := vh.Guard(func() {
			got = pack.NewSMBasePack()
			got.Read(gio.NewDataInputX(old))
		})
		rep.Case("older:"+hash8(old), true)
		if oc.OK() && got.Extra == nil && got.EpochTime == o.EpochTime {
			rep.Count("older-version:decodes-as-older-version")
		} else {
			rep.Fail("correspondence", "older-version:SMBasePack",
				"the message without the Extra tail (complete older version) does not decode to the older-version object: "+oc.String(),
				replayCase{Mode: "prefix", Kind: "sm:SMBasePack", Typ: "pack.SMBasePack", Hex: vh.Hex(old), N: len(old)})
		}
		// inside the sub-stream the cut one byte earlier must fail
		if len(body) >= 2 {
			cut := gio.NewDataOutputX().WriteBlob(body[:len(body)-2]).ToByteArray()
			if vh.Guard(func() { pack.NewSMBasePack().Read(gio.NewDataInputX(cut)) }).OK() {
				rep.Fail("property", "prefix-decodes:pack.SMBasePack.body",
					"an SMBasePack body cut inside its last field decodes",
					replayCase{Mode: "prefix", Kind: "sm:SMBasePack", Typ: "pack.SMBasePack", Hex: vh.Hex(cut), N: len(cut)})
			} else {
				rep.Count("older-version:cut-inside-field-fails")
			}
		}
	}
}

// ---------------------------------------------------------------- replay

func runReplay(env *vh.Env, rep *vh.Report, self string) {
	raw, err := os.ReadFile(env.Replay)
	if err != nil {
		vh.Die("replay: %v", err)
	}
	var file struct {
		Cases []replayCase `json:"cases"`
	}
	if err := json.Unmarshal(raw, &file); err != nil {
		vh.Die("replay: %v", err)
	}
	var hc []hcase
	for _, c := range file.Cases {
		switch c.Mode {
		case "stream":
			replayStream(rep, c)
		case "large":
			replayLarge(env, rep, c)
		case "alias":
			replayAlias(rep, c)
		case "collide": // decode A, then B (What = hexA>hexB), judge the decode of Hex
			rep.Case("replay-collide:"+c.Hex, true)
			if i := strings.Index(c.What, ">"); i > 0 {
				for _, h := range []string{c.What[:i], c.What[i+1:]} {
					b := vh.UnHex(h)
					vh.Guard(func() { decodeIn(c.Kind, gio.NewDataInputX(b), b) })
				}
			}
			b := vh.UnHex(c.Hex)
			var obj interface{}
			if vh.Guard(func() { obj = decodeIn(c.Kind, gio.NewDataInputX(b), b) }).OK() {
				e := enc{c.Kind, c.Typ, b}
				if f := foreign(obj, b, freshOf(e)); f != nil {
					rep.Fail("property", "fabricated-bytes-across-decodes:"+c.Typ, fmt.Sprintf("%s returns the string %q, which is not in its input", c.Typ, vh.Clip(string(f), 40)), c)
				}
			}
		case "pooled": // Kind = udp:<t>:<verB>, What = <verA>:<hexA>
			rep.Case("replay-pooled:"+c.Hex, true)
			var t, verB, verA int
			var hexA string
			fmt.Sscanf(c.Kind, "udp:%d:%d", &t, &verB)
			if i := strings.Index(c.What, ":"); i > 0 {
				fmt.Sscanf(c.What[:i], "%d", &verA)
				hexA = c.What[i+1:]
			}
			ba, bb := vh.UnHex(hexA), vh.UnHex(c.Hex)
			var da, db udp.UdpPack
			if vh.Guard(func() { da = udp.ReadPack(uint8(t), int32(verA), gio.NewDataInputX(ba)) }).OK() && da != nil {
				udp.ClosePack(da)
			}
			if vh.Guard(func() { db = udp.ReadPack(uint8(t), int32(verB), gio.NewDataInputX(bb)) }).OK() && db != nil {
				if fresh, ok := freshUdp(db, int32(verB), bb); ok {
					if f := foreign(db, bb, fresh); f != nil {
						rep.Fail("property", "recycled-object-keeps-data:"+typeName(db), fmt.Sprintf("%s returns the string %q of an earlier datagram", typeName(db), vh.Clip(string(f), 40)), c)
					}
				}
			}
		case "after":
			replayAfter(rep, c)
		case "retry":
			retryOne(rep, lazyCase{typ: c.Typ, outer: vh.UnHex(c.Hex), what: c.What})
		case "reuse":
			b := vh.UnHex(c.Hex)
			reuseSweep(env, rep, vh.NewRng(env.Seed), []enc{{c.Kind, c.Typ, b}, {c.Kind, c.Typ, b}})
		case "equal":
			b := vh.UnHex(c.Hex)
			var re []byte
			rep.Case("replay-equal:"+c.Kind+":"+hash8(b), true)
			if vh.Guard(func() { re = reencodeAs(c.Kind, c.Typ, decodeIn(c.Kind, gio.NewDataInputX(b), b)) }).OK() && re != nil && !bytes.Equal(re, b) {
				rep.Fail("property", "decoded-differs:"+c.Typ, c.Typ+": the decoded object re-encodes to different bytes", c)
			}
		case "prefix":
			b := vh.UnHex(c.Hex)
			if c.N > len(b) {
				c.N = len(b)
			}
			var avail int32
			o := vh.Guard(func() { avail, _ = decodeFull(c.Kind, b[:c.N]) })
			rep.Case("replay:"+c.Kind+":"+c.Hex+"@"+strconv.Itoa(c.N), true)
			if o.OK() && c.N < len(b) {
				key := "prefix-decodes:" + c.Typ
				if avail < 0 {
					key = "ReadBytes:short-read-accepted"
				}
				rep.Fail("property", key, fmt.Sprintf("%s: the %d-byte strict prefix of a %d-byte encoding decodes", c.Typ, c.N, len(b)), c)
			}
		default:
			hc = append(hc, hcase{Kind: c.Kind, Typ: c.Typ, Hex: c.Hex, What: c.What})
		}
	}
	if len(hc) > 0 {
		res := runChildren(self, allocK, allocC, hc, 4, childPerCase)
		judgeHostile(env, rep, hc, res, false)
	}
}
