package main

// largeSweep: truncation sweeps on LARGE valid encodings — element counts above every plausible
// internal cap (4097, 6000, 32767, 40000, 70000) for every count-driven decoder; every strict prefix
// must fail (a cap applied after the count check would stop reading early and accept prefixes).
// The truncation points are sampled: every one of the last 96 bytes, the bytes around the element
// boundaries 4096 / 8192 / 32768 / 65536, and random ones.
//
// aliasSweep: "no read returns bytes that were not present in its input" for the decoded object's
// whole life: after decoding from a buffer the buffer is overwritten (the receive buffer is refilled
// with the next message) and every string / blob of the decoded object must still be what it was
// right after the decode — for blobs of every length class (≤ 253, ≤ 65535, ≥ 65536) in every carrier.

import (
	"bytes"
	"fmt"
	"sort"
	"sync"

	gio "github.com/whatap/golib/io"
	"github.com/whatap/golib/lang/pack"
	"github.com/whatap/golib/lang/value"
	"verif/harness/vh"
)

type largeEnc struct {
	enc
	count    int
	elemSize int // bytes per element (approximate), for the boundary samples
	header   int // bytes in front of the first element
}

func largeEncodings(_ *vh.Rng, thorough bool) []largeEnc {
	counts := []int{4097, 6000, 40000, 70000}
	var out []largeEnc
	for _, n := range counts {
		// TextPack records
		tp := pack.NewTextPack()
		recs := make([]pack.TextRec, n)
		for i := range recs {
			recs[i] = pack.TextRec{Div: byte(i), Hash: int32(i), Text: "t"}
		}
		tp.AddTexts(recs)
		out = append(out, largeEnc{enc{"pack", "pack.TextPack", pack.ToBytesPack(tp)}, n, 7, 20})
		// list / map / int-map values
		l := value.NewListValue(nil)
		for i := 0; i < n; i++ {
			l.Add(value.NewDecimalValue(int64(i % 100)))
		}
		out = append(out, largeEnc{enc{"value", "value", encodeValue(l)}, n, 3, 5})
		if n <= 6000 || thorough {
			m := value.NewMapValue()
			im := value.NewIntMapValue()
			for i := 0; i < n; i++ {
				m.Put(fmt.Sprintf("k%05d", i), value.NewBoolValue(true))
				im.Put(int32(i), value.NewNullValue())
			}
			out = append(out, largeEnc{enc{"value", "value", encodeValue(m)}, n, 9, 5})
			out = append(out, largeEnc{enc{"value", "value", encodeValue(im)}, n, 5, 5})
		}
		// decimal arrays
		o := gio.NewDataOutputX()
		o.WriteDecimal(int64(n))
		for i := 0; i < n; i++ {
			o.WriteDecimal(int64(i % 50))
		}
		out = append(out, largeEnc{enc{"decarr", "io.ReadDecimalArray", o.ToByteArray()}, n, 2, 4})
		// StatRemoteIpPack table, ParamPack table
		rp := pack.NewStatRemoteIpPack()
		for i := 0; i < n; i++ {
			rp.IpTable.Put(int32(i+1), int32(i))
		}
		out = append(out, largeEnc{enc{"pack", "pack.StatRemoteIpPack", pack.ToBytesPack(rp)}, n, 8, 20})
		if n != 40000 { // (40000 and 70000 both clamp to the 16-bit limits: once)
			// 16-bit counted tables: arrays (≤ 32767) and Stat*Pack record tables (≤ 65535)
			k := n
			if k > 32767 {
				k = 32767
			}
			a := make([]int32, k)
			ta := make([]string, k)
			for i := range a {
				a[i] = int32(i)
				ta[i] = "x"
			}
			out = append(out, largeEnc{enc{"value", "value", encodeValue(value.NewIntArray(a))}, k, 4, 3})
			out = append(out, largeEnc{enc{"value", "value", encodeValue(value.NewTextArray(ta))}, k, 2, 3})
			er := gio.NewDataOutputX()
			rn := n
			if rn > 65535 {
				rn = 65535
			}
			er.WriteShort(int16(rn))
			for i := 0; i < rn; i++ {
				er.WriteInt(int32(i)).WriteInt(1).WriteLong(int64(i)).WriteDecimal(1).WriteDecimal(2)
			}
			out = append(out, largeEnc{enc{"errrecs", "pack.StatErrorPack.GetRecords", er.ToByteArray()}, rn, 20, 2})
		}
	}
	return out
}

// largeCut judges one truncation point of one large encoding
func largeCut(rep *vh.Report, mu *sync.Mutex, le largeEnc, cut int) {
	var avail int32
	o := vh.Guard(func() { avail, _ = decodeFull(le.kind, le.b[:cut]) })
	mu.Lock()
	defer mu.Unlock()
	rep.Case(fmt.Sprintf("large:%s:%d@%d", le.typ, le.count, cut), true)
	rep.Count("large-prefix:" + o.String())
	if o.OK() && cut < len(le.b) {
		key := "prefix-decodes:" + le.typ
		if avail < 0 {
			key = "ReadBytes:short-read-accepted"
		}
		// the replay carries the generator's parameters, not the (large) bytes
		rep.Fail("property", key,
			fmt.Sprintf("%s with %d elements (%d bytes): the %d-byte strict prefix decodes to an object — elements beyond an internal cap are not read", le.typ, le.count, len(le.b), cut),
			replayCase{Mode: "large", Kind: le.kind, Typ: le.typ, N: cut, What: fmt.Sprintf("%d:%d", le.count, len(le.b))})
	}
}

func replayLarge(env *vh.Env, rep *vh.Report, c replayCase) {
	var count, size int
	fmt.Sscanf(c.What, "%d:%d", &count, &size)
	var mu sync.Mutex
	for _, le := range largeEncodings(vh.NewRng(env.Seed), true) {
		if le.kind == c.Kind && le.typ == c.Typ && le.count == count && len(le.b) == size && c.N < size {
			largeCut(rep, &mu, le, c.N)
			return
		}
	}
	rep.Note("replay: no large encoding " + c.Typ + " " + c.What)
}

func largeSweep(env *vh.Env, rep *vh.Report, rng *vh.Rng) {
	encs := largeEncodings(rng, env.Thorough)
	var mu sync.Mutex
	var wg sync.WaitGroup
	sem := make(chan struct{}, 12)
	for _, le := range encs {
		if ok, _ := valid(le.kind, le.b); !ok { // (an encoding that is not consumed to its end is swept too: its prefixes decode)
			mu.Lock()
			rep.Count("large:not-accepted:" + le.typ)
			mu.Unlock()
			continue
		}
		mu.Lock()
		rep.Count(fmt.Sprintf("large:%s:%d", le.typ, le.count))
		mu.Unlock()
		// truncation points
		set := map[int]struct{}{}
		n := len(le.b)
		for i := 1; i <= 96 && i < n; i++ {
			set[n-i] = struct{}{}
		}
		for _, bd := range []int{4095, 4096, 4097, 8192, 32767, 32768, 65535, 65536} {
			if bd < le.count {
				p := le.header + bd*le.elemSize
				for d := -le.elemSize; d <= le.elemSize; d++ {
					if p+d > 0 && p+d < n {
						set[p+d] = struct{}{}
					}
				}
			}
		}
		extra := 40
		if env.Thorough {
			extra = 200
		}
		for i := 0; i < extra; i++ {
			set[rng.Intn(n)] = struct{}{}
		}
		cuts := make([]int, 0, len(set))
		for k := range set {
			cuts = append(cuts, k)
		}
		sort.Ints(cuts)
		wg.Add(1)
		sem <- struct{}{}
		go func(le largeEnc, cuts []int) {
			defer wg.Done()
			defer func() { <-sem }()
			for _, cut := range cuts {
				if overBudget() {
					return
				}
				largeCut(rep, &mu, le, cut)
			}
		}(le, cuts)
	}
	wg.Wait()
}

// ---------------------------------------------------------------- lifetime of decoded data

func blobCarriers(rng *vh.Rng) []enc {
	var out []enc
	for _, n := range []int{10, 253, 254, 300, 65535, 65536, 70000} {
		b := rng.Bytes(n)
		out = append(out, enc{"value", "value", encodeValue(value.NewBlobValue(b))})
		out = append(out, enc{"value", "value", encodeValue(value.NewTextValue(string(b)))})
		l := value.NewListValue(nil)
		l.Add(value.NewBlobValue(b))
		m := value.NewMapValue()
		m.Put("k", value.NewBlobValue(b))
		l.Add(m)
		out = append(out, enc{"value", "value", encodeValue(l)})
		zp := pack.NewZipPack()
		zp.Records = b
		out = append(out, enc{"pack", "pack.ZipPack", pack.ToBytesPack(zp)})
		pp := pack.NewProfilePack()
		pp.Transaction = genTxRecord(rng)
		pp.Steps = b
		out = append(out, enc{"pack", "pack.ProfilePack", pack.ToBytesPack(pp)})
		es := pack.NewErrorSnapPack1()
		es.Profile, es.Stack = b, b
		out = append(out, enc{"pack", "pack.ErrorSnapPack1", pack.ToBytesPack(es)})
		tp := pack.NewTextPack()
		tp.AddText(pack.TextRec{Div: 1, Hash: 2, Text: string(b)})
		out = append(out, enc{"pack", "pack.TextPack", pack.ToBytesPack(tp)})
		sp := pack.NewStatSqlPack()
		sp.Records = b
		out = append(out, enc{"pack", "pack.StatSqlPack", pack.ToBytesPack(sp)})
		o := gio.NewDataOutputX()
		o.WriteIntBytes(b)
		out = append(out, enc{"intbyteslimit", "io.ReadIntBytesLimit", o.ToByteArray()})
		out = append(out, enc{"prim:blob,text", "prim", gio.NewDataOutputX().WriteBlob(b).WriteText("x" + string(b[:n/2])).ToByteArray()})
	}
	return out
}

// the blob carriers are the same in every run (a replay names one by its index)
func fixedCarriers() []enc { return blobCarriers(vh.NewRng(0xC04A11A5)) }

func sortedStrings(obj interface{}) [][]byte {
	out := stringsOf(obj)
	sort.Slice(out, func(i, j int) bool { return bytes.Compare(out[i], out[j]) < 0 })
	return out
}

func aliasOne(rep *vh.Report, e enc, rc replayCase) {
	buf := append([]byte{}, e.b...) // the caller's receive buffer
	var obj interface{}
	if !vh.Guard(func() { obj = decodeIn(e.kind, gio.NewDataInputX(buf), buf) }).OK() {
		return
	}
	before := sortedStrings(obj)
	for i := range buf { // the buffer is refilled with the next message
		buf[i] ^= 0xA5
	}
	after := sortedStrings(obj)
	rep.Case("alias:"+e.typ+":"+hash8(e.b), true)
	rep.Count("alias:checked")
	bad, n := len(before) != len(after), 0
	for i := 0; !bad && i < len(before); i++ {
		if !bytes.Equal(before[i], after[i]) {
			bad, n = true, len(before[i])
		}
	}
	if bad {
		rep.Fail("property", "decoded-data-aliases-the-input-buffer:"+e.typ,
			fmt.Sprintf("%s: after the %d-byte input buffer was overwritten, a %d-byte string/blob of the object decoded from it changed: the decoded object holds a view of the caller's buffer, not a copy", e.typ, len(e.b), n), rc)
	}
}

func aliasSweep(env *vh.Env, rep *vh.Report, rng *vh.Rng, encs []enc) {
	for i, e := range fixedCarriers() {
		aliasOne(rep, e, replayCase{Mode: "alias", Kind: e.kind, Typ: e.typ, N: i, What: "carrier"})
	}
	for _, e := range encs {
		if !streamable(e.kind) || overBudget() {
			continue
		}
		aliasOne(rep, e, replayCase{Mode: "alias", Kind: e.kind, Typ: e.typ, Hex: vh.Hex(e.b)})
	}
}

func replayAlias(rep *vh.Report, c replayCase) {
	if c.What == "carrier" {
		if cs := fixedCarriers(); c.N < len(cs) {
			aliasOne(rep, cs[c.N], c)
		}
		return
	}
	aliasOne(rep, enc{c.Kind, c.Typ, vh.UnHex(c.Hex)}, c)
}
