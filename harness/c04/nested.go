package main

// Structured hostile family: nesting bombs.  Every level of a deeply nested container claims, in
// its count field, as many elements as the bytes that remain allow (so a guard of the form
// `count ≤ Available()` passes at every level); a decoder that sizes an allocation from the
// count at each level allocates O(|input|·depth) = O(|input|²), a decoder that grows with the
// elements actually decoded stays linear.  Inputs of 1 KiB … 64 KiB are decoded in the child
// process (RLIMIT_AS, GOMEMLIMIT, MemStats) and must stay within allocK·|input| + allocC.

import (
	"fmt"

	"verif/harness/vh"
)

// decimalFor: the shortest decimal form (width byte + big-endian payload) of a non-negative count
func decimalFor(n int) []byte {
	switch {
	case n == 0:
		return []byte{0}
	case n <= 127:
		return []byte{1, byte(n)}
	case n <= 32767:
		return []byte{2, byte(n >> 8), byte(n)}
	case n <= 8388607:
		return []byte{3, byte(n >> 16), byte(n >> 8), byte(n)}
	default:
		return []byte{4, byte(n >> 24), byte(n >> 16), byte(n >> 8), byte(n)}
	}
}

// claim: the largest count c such that header(c) followed by c·minBytes bytes still fits in rem
func claim(rem int, fixed int, minBytes int, max int) int {
	c := (rem - fixed - 1) / minBytes
	for c > 0 && fixed+len(decimalFor(c))+c*minBytes > rem {
		c--
	}
	if c > max {
		c = max
	}
	if c < 0 {
		c = 0
	}
	return c
}

// nestLevels repeats level(rem) (the bytes of one container header, given the bytes that remain
// including the header) until size bytes are filled; the tail is padded with NullValue tags.
func nestLevels(prefix []byte, size int, level func(rem int) []byte) []byte {
	b := append([]byte{}, prefix...)
	for len(b) < size {
		h := level(size - len(b))
		if h == nil || len(b)+len(h) > size {
			break
		}
		b = append(b, h...)
	}
	for len(b) < size {
		b = append(b, 0)
	}
	return b
}

func listLevel(rem int) []byte {
	if rem < 4 {
		return nil
	}
	c := claim(rem, 1, 1, 1<<30)
	if c < 1 {
		return nil
	}
	return append([]byte{70}, decimalFor(c)...)
}

// map (or int map) with one claimed entry per remaining pair, whose first value is a list …
func mapListLevel(intKeys bool) func(rem int) []byte {
	return func(rem int) []byte {
		if rem < 12 {
			return nil
		}
		var h []byte
		if intKeys {
			h = append([]byte{81}, decimalFor(claim(rem, 1, 5, 1<<30))...)
			h = append(h, 0, 0, 0, 7) // key
		} else {
			h = append([]byte{80}, decimalFor(claim(rem, 1, 2, 1<<30))...)
			h = append(h, 1, 'k') // key
		}
		rem -= len(h)
		c := claim(rem, 1, 1, 1<<30)
		if c < 1 {
			return nil
		}
		h = append(h, 70)
		return append(h, decimalFor(c)...)
	}
}

// CompositePack: type 0x1700, AbstractPack header (version byte 0: pcode 0, oid, time), child count
func compositeLevel(rem int) []byte {
	if rem < 40 {
		return nil
	}
	h := []byte{0x17, 0x00, 0, 0, 0, 0, 1, 0, 0, 0, 0, 0, 0, 0, 2}
	c := (rem - len(h) - 2) / 2
	if c > 32767 {
		c = 32767
	}
	if c < 1 {
		return nil
	}
	return append(h, byte(c>>8), byte(c))
}

func paramPackPrefix() []byte {
	// ParamPack: type 0x0100, AbstractPack header, Id, Request, Response, one entry "k" -> value
	return []byte{0x01, 0x00, 0, 0, 0, 0, 1, 0, 0, 0, 0, 0, 0, 0, 2, 0, 0, 0, 9, 0, 0, 1, 1, 1, 'k'}
}

func nestedSweep(env *vh.Env, rep *vh.Report, rng *vh.Rng, self string) {
	sizes := []int{1 << 10, 3000, 1 << 12, 8000, 1 << 14, 1 << 16}
	if env.Thorough {
		for i := 0; i < 12; i++ {
			sizes = append(sizes, 1024+rng.Intn(64*1024-1024))
		}
	} else {
		sizes = append(sizes, 1024+rng.Intn(64*1024-1024), 1024+rng.Intn(16*1024))
	}
	var cases []hcase
	add := func(kind, fam string, b []byte) {
		cases = append(cases, hcase{Kind: kind, Typ: "nested:" + fam, Hex: vh.Hex(b), What: fmt.Sprintf("nesting bomb %s, %d bytes, every count claims the bytes that remain", fam, len(b))})
		rep.Count("nested:" + fam)
	}
	for _, n := range sizes {
		add("value", "list-in-list", nestLevels(nil, n, listLevel))
		add("value", "map-of-lists", nestLevels(nil, n, mapListLevel(false)))
		add("value", "intmap-of-lists", nestLevels(nil, n, mapListLevel(true)))
		add("pack", "composite-in-composite", nestLevels(nil, n, compositeLevel))
		add("pack", "parampack-list-in-list", nestLevels(paramPackPrefix(), n, listLevel))
		// a composite whose children are composites, each followed by nested lists inside a ParamPack
		add("pack", "composite-of-parampack-lists", nestLevels(nestLevels(nil, n/2, compositeLevel)[:n/2/17*17], n, func(rem int) []byte {
			if rem == n-n/2/17*17 {
				return paramPackPrefix()
			}
			return listLevel(rem)
		}))
		// arrays of texts: a list claiming the rest, its elements text arrays that claim the rest
		// (empty texts), then one honest list of many small text arrays
		ta := nestLevels(nil, n, func(rem int) []byte {
			if rem < 8 {
				return nil
			}
			if rem > 6 && rem%2 == 0 {
				return listLevel(rem)
			}
			c := rem - 3
			if c > 32767 {
				c = 32767
			}
			return []byte{73, byte(c >> 8), byte(c)}
		})
		add("value", "lists-of-text-arrays", ta)
		hon := append([]byte{70}, decimalFor((n-4)/10)...)
		for len(hon)+10 <= n {
			hon = append(hon, 73, 0, 7, 0, 0, 0, 0, 0, 0, 0)
		}
		add("value", "list-of-text-arrays-honest", hon)
		// list claiming the rest whose elements are text arrays of 32767 (the 16-bit maximum)
		big := append([]byte{70}, decimalFor(claim(n, 1, 3, 1<<30))...)
		for len(big)+3 <= n {
			big = append(big, 73, 0x7f, 0xff)
		}
		add("value", "list-of-maximal-text-arrays", big)
	}
	rep.Note("%d nesting bombs (1 KiB – 64 KiB)", len(cases))
	res := runChildren(self, allocK, allocC, cases, 8, childPerCase)
	// the model (drv_c04) is asked only about the small ones: its recursion is as deep as the nesting
	var small, large []hcase
	var rs, rl []hres
	for i, c := range cases {
		if c.Kind == "value" && len(c.Hex) <= 2*4096 {
			small, rs = append(small, c), append(rs, res[i])
		} else {
			large, rl = append(large, c), append(rl, res[i])
		}
	}
	judgeHostile(env, rep, small, rs, true)
	judgeHostile(env, rep, large, rl, false)
}
