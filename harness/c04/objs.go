package main

// Valid encodings of packs, steps, transaction records and SM packs: objects made by the
// repository's constructors, filled by reflection (unexported fields included) and written by
// the real writers.  `decodeIn(kind, stream, bytes)` is the matching real decoder.

import (
	"container/list"
	"fmt"
	"math"
	"reflect"
	"strconv"
	"strings"
	"sync"
	"unsafe"

	gio "github.com/whatap/golib/io"
	"github.com/whatap/golib/lang/pack"
	"github.com/whatap/golib/lang/pack/udp"
	"github.com/whatap/golib/lang/service"
	"github.com/whatap/golib/lang/step"
	"github.com/whatap/golib/lang/value"
	"github.com/whatap/golib/util/hll"
	"github.com/whatap/golib/util/hmap"
	"verif/harness/vh"
)

var packTypes = []int16{pack.PACK_PARAMETER, pack.PACK_COUNTER_1, pack.PACK_PROFILE, pack.PACK_ACTIVESTACK_1,
	pack.PACK_TEXT, pack.PACK_ERROR_SNAP_1, pack.PACK_REALTIME_USER, pack.PACK_STAT_SERVICE, pack.PACK_STAT_GENERAL,
	pack.PACK_STAT_SQL, pack.PACK_STAT_HTTPC, pack.PACK_STAT_ERROR, pack.PACK_STAT_REMOTE_IP, pack.PACK_STAT_USER_AGENT,
	pack.PACK_EVENT, pack.PACK_HITMAP_1, pack.PACK_EXTENSION, pack.TAG_COUNT, pack.TAG_LOG, pack.PACK_COMPOSITE,
	pack.PACK_LOGSINK, pack.PACK_ZIP, pack.PACK_LOGSINK_ZIP, pack.PACK_SERVERINFO}

var stepTypes = []byte{step.STEP_METHOD_X, step.STEP_SQL_X, step.STEP_RESULTSET, step.STEP_SOCKET, step.STEP_HTTPCALL_X,
	step.STEP_ACTIVE_STACK, step.STEP_MESSAGE, step.STEP_SECURE_MESSAGE, step.STEP_DBC}

type rw interface {
	Write(out *gio.DataOutputX)
	Read(in *gio.DataInputX)
}

var smCtors = map[string]func() rw{
	"SMBasePack":      func() rw { return pack.NewSMBasePack() },
	"SMDiskPerfPack":  func() rw { return pack.NewSMDiskPerfPack() },
	"SMLogEventPack":  func() rw { return pack.NewSMLogEventPack() },
	"SMNetPerfPack":   func() rw { return pack.NewSMNetPerfPack() },
	"SMPingPack":      func() rw { return pack.NewSMPingPack() },
	"SMProcPerfPack":  func() rw { return pack.NewSMProcPerfPack() },
	"SMTCPPerfPack":   func() rw { return pack.NewSMTCPPerfPack() },
	"SMExtension":     func() rw { return pack.NewSMExtensionPack() },
	"SMDownCheckPack": func() rw { return pack.NewSMDownCheckPack() },
}
var smNames = []string{"SMBasePack", "SMDiskPerfPack", "SMLogEventPack", "SMNetPerfPack", "SMPingPack", "SMProcPerfPack",
	"SMTCPPerfPack", "SMExtension", "SMDownCheckPack"}

// streamable: kinds whose decoder reads from a DataInputX handed in (the others build their own
// reader over a byte slice)
func streamable(kind string) bool {
	return kind != "hll" && kind != "errrecs" && kind != "downrecs" && kind != "topack" && kind != "txobject"
}

// decodeIn runs the real decoder selected by kind on the stream `in` (b = the same bytes, for the
// decoders that take a slice) and returns the decoded object; it panics when the decoder panics.
func decodeIn(kind string, in *gio.DataInputX, b []byte) interface{} {
	switch {
	case kind == "value":
		return value.ReadValue(in)
	case strings.HasPrefix(kind, "prim:"):
		return readProgram(kind[5:], in)
	case kind == "pack":
		p := pack.ReadPack(in)
		if p == nil {
			panic("nil pack")
		}
		return p
	case strings.HasPrefix(kind, "steps:"):
		n, _ := strconv.Atoi(kind[6:])
		out := make([]step.Step, 0, 4)
		for i := 0; i < n; i++ {
			st := step.ReadStep(in)
			if st == nil {
				panic("nil step")
			}
			out = append(out, st)
		}
		return out
	case strings.HasPrefix(kind, "stepx:"):
		c := stepxCtors[kind[6:]]
		if c == nil {
			panic("harness: unknown step type " + kind)
		}
		o := c()
		o.Read(in)
		return o
	case kind == "txrecord":
		return service.NewTxRecord().Read(in)
	case kind == "txobject": // the slice entry point
		return service.NewTxRecord().ToObject(b)
	case kind == "topack": // the slice entry point of the packs
		p := pack.ToPack(b)
		if p == nil {
			panic("nil pack")
		}
		return p
	case kind == "mapvalue":
		m := value.ReadMapValue(in)
		if m == nil {
			panic("not a map value") // (nil, not an object, for any other type byte)
		}
		return m
	case strings.HasPrefix(kind, "primx:"):
		return readProgramX(kind[6:], in)
	case kind == "txrec":
		return pack.ReadTransactionRec(in)
	case kind == "servicerec":
		return pack.ReadRec(in)
	case kind == "httpcrec":
		return pack.NewHttpcRec().Read(in)
	case kind == "sqlrec":
		return pack.NewSqlRec().Read(in)
	case strings.HasPrefix(kind, "sm:"):
		c := smCtors[kind[3:]]
		if c == nil {
			panic("harness: unknown sm type " + kind)
		}
		o := c()
		o.Read(in)
		return o
	case kind == "decarr":
		return in.ReadDecimalArray()
	case kind == "decarrint":
		return in.ReadDecimalArrayInt()
	case kind == "hll":
		return hll.BuildHyperLogLog(b)
	case kind == "errrecs":
		p := pack.NewStatErrorPack()
		p.Records = b
		return p.GetRecords()
	case kind == "downrecs":
		p := pack.NewSMDownCheckPack()
		p.Records = b
		return p.GetRecords()
	case kind == "intbyteslimit":
		return in.ReadIntBytesLimit(1 << 20)
	case strings.HasPrefix(kind, "udp:"):
		f := strings.Split(kind, ":")
		t, _ := strconv.Atoi(f[1])
		ver, _ := strconv.Atoi(f[2])
		p := udp.ReadPack(uint8(t), int32(ver), in)
		if p == nil {
			panic("nil udp pack")
		}
		return p
	}
	panic("harness: unknown kind " + kind)
}

// decode: first step only (the reader); returns what Available() says afterwards (negative = a
// short read was accepted).
func decode(kind string, b []byte) int32 {
	in := gio.NewDataInputX(b)
	decodeIn(kind, in, b)
	if !streamable(kind) {
		return 0
	}
	return in.Available()
}

// decodeFull: the reader AND every lazy accessor of the decoded object (second-step decoders such
// as ZipPack.GetRecords, StatGeneralPack.GetDataTable): the full decode of a message.
func decodeFull(kind string, b []byte) (int32, interface{}) {
	in := gio.NewDataInputX(b)
	obj := decodeIn(kind, in, b)
	if kind != "value" && !strings.HasPrefix(kind, "prim:") { // values and primitives have no second step
		callAccessors(obj)
	}
	if !streamable(kind) {
		return 0, obj
	}
	return in.Available(), obj
}

// callAccessors calls every exported method `Get…()` without arguments whose first result is a
// slice, map, pointer or interface (record tables, data tables, lists) on the decoded object(s).
func callAccessors(obj interface{}) {
	switch x := obj.(type) {
	case nil:
		return
	case []step.Step:
		for _, s := range x {
			callAccessors(s)
		}
		return
	case []interface{}:
		return
	}
	v := reflect.ValueOf(obj)
	if v.Kind() != reflect.Ptr || v.IsNil() {
		return
	}
	t := v.Type()
	accMu.Lock()
	idx, ok := accCache[t]
	if !ok {
		idx = []int{}
		for i := 0; i < t.NumMethod(); i++ {
			m := t.Method(i)
			if !strings.HasPrefix(m.Name, "Get") || m.Type.NumIn() != 1 || m.Type.NumOut() < 1 {
				continue
			}
			switch m.Type.Out(0).Kind() {
			case reflect.Slice, reflect.Map, reflect.Ptr, reflect.Interface:
				idx = append(idx, i)
			}
		}
		accCache[t] = idx
	}
	accMu.Unlock()
	first := ""
	tname := strings.TrimPrefix(t.String(), "*")
	for n, i := range idx {
		name := tname + "." + t.Method(i).Name
		if isDead("first:" + name) {
			continue // a hang of this accessor is established: it has been reported once, it is not called again
		}
		// every accessor call runs under the patient watchdog: a spin or a deadlock inside a lazy decoder
		// must not stall the sweep
		o := guardPatient(func() { v.Method(i).Call(nil) })
		if o.Timeout {
			markDead("first:" + name)
			panic(hangMarker + name)
		}
		if o.OK() {
			continue
		}
		if first == "" {
			first = o.Panic
		}
		// a failed access must leave the object usable: the same accessor, and another one, are called
		// again; they may fail again but must return (a lock leaked by the panic would block them).
		// A hang is established ONCE per accessor: after that the re-calls are skipped.
		if isDead("retry:" + name) {
			continue
		}
		again := []int{i}
		if len(idx) > 1 {
			again = append(again, idx[(n+1)%len(idx)])
		}
		for _, j := range again {
			if guardPatient(func() { v.Method(j).Call(nil) }).Timeout {
				markDead("retry:" + name)
				panic(hangMarker + name)
			}
		}
	}
	if first != "" {
		panic(first)
	}
}

// dead: hangs that have been established (and reported) in this process
var dead = map[string]bool{}

func isDead(k string) bool { accMu.Lock(); defer accMu.Unlock(); return dead[k] }
func markDead(k string)    { accMu.Lock(); dead[k] = true; accMu.Unlock() }

const hangMarker = "harness-hang:"

var accMu sync.Mutex
var accCache = map[reflect.Type][]int{}

// reencode: canonical bytes of a decoded object (for comparing two decodes of the same input)
func reencode(obj interface{}) []byte {
	out := gio.NewDataOutputX()
	switch x := obj.(type) {
	case []step.Step:
		return step.ToBytesStep(x)
	case *service.TxRecord:
		return x.ToBytes()
	case *pack.TransactionRec:
		pack.WriteTransactionRec(out, x, 4)
		return out.ToByteArray()
	case *pack.ServiceRec:
		pack.NewStatServicePack().WriteRec(out, x)
		return out.ToByteArray()
	case rw:
		x.Write(out)
		return out.ToByteArray()
	case interface{ Write(o *gio.DataOutputX) }:
		x.Write(out)
		return out.ToByteArray()
	}
	return []byte(fmt.Sprintf("%v", obj))
}

// reencodeAs: the bytes the repository's writer produces for a decoded object, in the format the
// encoding of that kind was produced in (nil: no writer for this kind)
func reencodeAs(kind, typ string, obj interface{}) []byte {
	out := gio.NewDataOutputX()
	switch {
	case kind == "value":
		return encodeValue(obj.(value.Value))
	case kind == "pack", kind == "topack":
		return pack.ToBytesPack(obj.(pack.Pack))
	case kind == "mapvalue":
		return value.WriteMapValue(out, obj.(*value.MapValue)).ToByteArray()
	case kind == "txobject":
		return obj.(*service.TxRecord).ToBytes()
	case strings.HasPrefix(kind, "steps:"):
		return step.ToBytesStep(obj.([]step.Step))
	case kind == "txrecord":
		return obj.(*service.TxRecord).ToBytes()
	case kind == "txrec":
		ver := byte(4)
		if i := strings.LastIndex(typ, ".v"); i >= 0 {
			if n, err := strconv.Atoi(typ[i+2:]); err == nil {
				ver = byte(n)
			}
		}
		pack.WriteTransactionRec(out, obj.(*pack.TransactionRec), ver)
		return out.ToByteArray()
	case kind == "servicerec":
		pack.NewStatServicePack().WriteRec(out, obj.(*pack.ServiceRec))
		return out.ToByteArray()
	case strings.HasPrefix(kind, "udp:"):
		return udp.ToBytesPack(obj.(udp.UdpPack))
	case strings.HasPrefix(kind, "stepx:"), strings.HasPrefix(kind, "sm:"), kind == "httpcrec", kind == "sqlrec":
		if w, ok := obj.(interface{ Write(o *gio.DataOutputX) }); ok {
			w.Write(out)
			return out.ToByteArray()
		}
	}
	return nil
}

var stepxCtors = map[string]func() rw{
	"MessageStepX": func() rw { return step.NewMessageStepX() },
	"SqlStep_3":    func() rw { return step.NewSqlStep_3() },
	"HttpcStepX":   func() rw { return step.NewHttpcStepX() },
	"SqlStepX":     func() rw { return step.NewSqlStepX() },
	"MethodStepX":  func() rw { return step.NewMethodStepX() },
}
var stepxNames = []string{"MessageStepX", "SqlStep_3", "HttpcStepX", "SqlStepX", "MethodStepX"}

// ---------------------------------------------------------------- reflection filler

type filler struct {
	r     *vh.Rng
	owner string
}

func settable(v reflect.Value) reflect.Value {
	if v.CanSet() {
		return v
	}
	if v.CanAddr() {
		return reflect.NewAt(v.Type(), unsafe.Pointer(v.UnsafeAddr())).Elem()
	}
	return v
}

var (
	tValue   = reflect.TypeOf((*value.Value)(nil)).Elem()
	tPack    = reflect.TypeOf((*pack.Pack)(nil)).Elem()
	tMapV    = reflect.TypeOf((*value.MapValue)(nil))
	tIntMapV = reflect.TypeOf((*value.IntMapValue)(nil))
	tSKLM    = reflect.TypeOf((*hmap.StringKeyLinkedMap)(nil))
	tIILM    = reflect.TypeOf((*hmap.IntIntLinkedMap)(nil))
	tIIM     = reflect.TypeOf((*hmap.IntIntMap)(nil))
	tSILM    = reflect.TypeOf((*hmap.StringIntLinkedMap)(nil))
	tTxRec   = reflect.TypeOf((*service.TxRecord)(nil))
)

func (f *filler) fill(v reflect.Value, name string, depth int) {
	v = settable(v)
	if !v.CanSet() {
		return
	}
	r := f.r
	t := v.Type()
	switch t {
	case tMapV:
		if r.Chance(85) {
			v.Set(reflect.ValueOf(genMapValue(r, 1, false)))
		}
		return
	case tIntMapV:
		if r.Chance(85) {
			v.Set(reflect.ValueOf(genIntMapValue(r, 1)))
		}
		return
	case tSKLM:
		m := hmap.NewStringKeyLinkedMap()
		n := genCount(r)
		for i := 0; i < n && i < 20; i++ {
			k := genText(r, false) + strconv.Itoa(i)
			switch f.owner + "." + name {
			case "EventPack.Attr":
				m.Put(k, genText(r, false))
			case "ParamPack.table":
				m.Put(k, genValue(r, 1, false))
			default:
				return // unknown element type: leave what the constructor made
			}
		}
		v.Set(reflect.ValueOf(m))
		return
	case tIILM:
		m := hmap.NewIntIntLinkedMap()
		for i, n := 0, genCount(r); i < n && i < 20; i++ {
			m.Put(int32(genInt(r, 4)), int32(genInt(r, 4)))
		}
		v.Set(reflect.ValueOf(m))
		return
	case tIIM:
		if r.Chance(70) {
			m := hmap.NewIntIntMapDefault()
			for i, n := 0, genCount(r); i < n && i < 20; i++ {
				m.Put(int32(genInt(r, 4)), int32(genInt(r, 4)))
			}
			v.Set(reflect.ValueOf(m))
		}
		return
	case tSILM:
		m := hmap.NewStringIntLinkedMap()
		for i, n := 0, genCount(r); i < n && i < 20; i++ {
			m.Put(genText(r, false)+strconv.Itoa(i), int32(genInt(r, 4)))
		}
		v.Set(reflect.ValueOf(m))
		return
	case tTxRec:
		if r.Chance(90) {
			v.Set(reflect.ValueOf(genTxRecord(r)))
		}
		return
	}
	switch t.Kind() {
	case reflect.Bool:
		v.SetBool(r.Bool())
	case reflect.Int8:
		v.SetInt(genInt(r, 1))
	case reflect.Int16:
		v.SetInt(genInt(r, 2))
	case reflect.Int32:
		v.SetInt(genInt(r, 4))
	case reflect.Int64:
		if r.Chance(20) { // optional sections are switched by "field != 0"
			v.SetInt(0)
			return
		}
		v.SetInt(genInt(r, 8))
	case reflect.Int:
		v.SetInt(genInt(r, 4))
	case reflect.Uint8:
		if ln := strings.ToLower(name); (strings.HasPrefix(ln, "ver") || strings.HasSuffix(ln, "version")) && r.Chance(85) {
			// every layout version a writer can emit, not only the constructor's default
			v.SetUint(uint64(r.PickInt([]int{0, 1, 2, 3, 4, 5, 8, 9, 10})))
			return
		}
		v.SetUint(uint64(byte(r.U64())))
	case reflect.Uint16:
		v.SetUint(uint64(uint16(r.U64())))
	case reflect.Uint32:
		v.SetUint(uint64(uint32(r.U64())))
	case reflect.Uint64, reflect.Uint:
		v.SetUint(r.U64())
	case reflect.Float32:
		v.SetFloat(float64(math.Float32frombits(uint32(r.U64()) & 0x7f7fffff)))
	case reflect.Float64:
		v.SetFloat(math.Float64frombits(r.U64() & 0x7fefffffffffffff))
	case reflect.String:
		v.SetString(genText(r, false))
	case reflect.Slice:
		if t.Elem().Kind() == reflect.Uint8 {
			v.SetBytes(genBytes(r, false))
			return
		}
		if depth <= 0 {
			return
		}
		n := genCount(r)
		if n > 5 {
			n = 5
		}
		if v.Len() > 0 { // keep the constructor's length (fixed-size tables)
			n = v.Len()
		}
		s := reflect.MakeSlice(t, n, n)
		for i := 0; i < n; i++ {
			f.fill(s.Index(i), name, depth-1)
		}
		v.Set(s)
	case reflect.Struct:
		if t.PkgPath() == "sync" {
			return
		}
		for i := 0; i < t.NumField(); i++ {
			f.fill(v.Field(i), t.Field(i).Name, depth)
		}
	case reflect.Ptr:
		if k := t.Elem().Kind(); k == reflect.String || k == reflect.Int32 || k == reflect.Int64 {
			v.Set(reflect.New(t.Elem()))
			f.fill(v.Elem(), name, depth)
			return
		}
		if t.Elem().Kind() != reflect.Struct || depth <= 0 {
			return
		}
		pk := t.Elem().PkgPath()
		if !strings.HasPrefix(pk, "github.com/whatap/golib/lang") {
			return // containers of other packages: leave what the constructor made
		}
		if v.IsNil() {
			if !r.Chance(60) {
				return
			}
			v.Set(reflect.New(t.Elem()))
		}
		f.fill(v.Elem(), name, depth-1)
	case reflect.Interface:
		switch {
		case t == tValue:
			v.Set(reflect.ValueOf(genValue(r, 1, false)))
		case t == tPack && depth > 0:
			if p := genPack(r, depth-1); p != nil {
				v.Set(reflect.ValueOf(p))
			}
		}
	}
}

func fillObj(r *vh.Rng, obj interface{}, depth int) {
	v := reflect.ValueOf(obj).Elem()
	f := &filler{r: r, owner: v.Type().Name()}
	f.fill(v, "", depth)
}

func genTxRecord(r *vh.Rng) *service.TxRecord {
	t := service.NewTxRecord()
	fillObj(r, t, 2)
	if t.ErrorLevel == 0 && t.Error != 0 {
		// the reader derives WARNING for "error without a level" (a default of the format, not wire
		// data): keep the generated records in the reader's normal form so that they compare equal
		t.ErrorLevel = service.WARNING
	}
	return t
}

// genPack makes a pack of a random registered type; nil when the type needs more care than
// the generic filler gives (then the caller draws again).
func genPack(r *vh.Rng, depth int) pack.Pack {
	t := packTypes[r.Intn(len(packTypes))]
	return genPackOf(r, t, depth)
}

func genPackOf(r *vh.Rng, t int16, depth int) pack.Pack {
	p := pack.CreatePack(t)
	if p == nil {
		return nil
	}
	fillObj(r, p, depth)
	if r.Chance(75) {
		withRecords(r, p)
	}
	if q, ok := p.(*pack.StatGeneralPack); ok {
		// the pack type and the size field are derived data, not free fields
		v := reflect.ValueOf(q).Elem()
		settable(v.FieldByName("packType")).SetInt(int64(pack.PACK_STAT_GENERAL))
		settable(v.FieldByName("dataBytesSize")).SetInt(int64(v.FieldByName("dataBytes").Len()))
	}
	return p
}

// withRecords gives the packs that carry an encoded record table (decoded lazily by an accessor)
// a real table written by the repository's own setters instead of random bytes.
func withRecords(r *vh.Rng, p pack.Pack) {
	n := r.Intn(4)
	vh.Guard(func() {
		switch q := p.(type) {
		case *pack.ZipPack:
			var items []pack.Pack
			for i := 0; i < n; i++ {
				items = append(items, genPackOf(r, int16(r.PickInt([]int{pack.PACK_TEXT, pack.PACK_EVENT, pack.PACK_PARAMETER, pack.PACK_ACTIVESTACK_1})), 1))
			}
			q.SetRecords(items)
			q.Status = 0
		case *pack.LogSinkZipPack:
			o := gio.NewDataOutputX()
			for i := 0; i < n; i++ {
				pack.WritePack(o, genPackOf(r, pack.PACK_LOGSINK, 1))
			}
			q.Status = 0
			q.SetRecords(o.ToByteArray(), 1<<30)
			q.RecordCount = n
		case *pack.StatHttpcPack:
			l := list.New()
			for i := 0; i < n; i++ {
				x := pack.NewHttpcRec()
				fillObj(r, x, 1)
				l.PushBack(x)
			}
			q.SetRecordsList(l)
		case *pack.StatSqlPack:
			l := list.New()
			for i := 0; i < n; i++ {
				x := pack.NewSqlRec()
				fillObj(r, x, 1)
				l.PushBack(x)
			}
			q.SetRecordsList(l)
		case *pack.StatTransactionPack:
			q.Version = byte(r.PickInt([]int{2, 3, 4}))
			l := list.New()
			for i := 0; i < n; i++ {
				x := pack.NewTransactionRec()
				fillObj(r, x, 1)
				l.PushBack(x)
			}
			q.SetRecordsList(l)
		case *pack.StatTransactionPack1:
			q.Version = byte(r.PickInt([]int{2, 3, 4}))
			l := list.New()
			for i := 0; i < n; i++ {
				x := pack.NewTransactionRec()
				fillObj(r, x, 1)
				l.PushBack(x)
			}
			q.SetRecordsList(l)
		case *pack.StatErrorPack:
			var items []*pack.ErrorRec
			for i := 0; i < n; i++ {
				x := pack.NewErrorRec()
				fillObj(r, x, 1)
				items = append(items, x)
			}
			q.SetRecordsArray(items)
		}
	})
}

func genStep(r *vh.Rng) step.Step {
	s := step.CreateStep(stepTypes[r.Intn(len(stepTypes))])
	fillObj(r, s, 2)
	return s
}

func genSM(r *vh.Rng, name string) rw {
	o := smCtors[name]()
	fillObj(r, o, 3)
	if b, ok := o.(*pack.SMBasePack); ok {
		// the reader chooses the Cpu/Memory implementation from OS
		if r.Bool() {
			b.OS = pack.OS_LINUX
			b.Cpu = &pack.CpuLinux{User: 1.5, Idle: 90}
			b.Memory = &pack.MemoryLinux{Total: genInt(r, 8), Free: genInt(r, 5)}
			b.CpuCore = nil
			for i, n := 0, r.Intn(4); i < n; i++ {
				b.CpuCore = append(b.CpuCore, &pack.CpuLinux{User: float32(i), Load1: 0.25})
			}
		} else {
			b.OS = pack.OS_WINDOW
			c := &pack.CpuWindow{}
			fillObj(r, c, 1)
			b.Cpu = c
			m := &pack.MemoryWindow{}
			fillObj(r, m, 1)
			b.Memory = m
			b.CpuCore = nil
			for i, n := 0, r.Intn(3); i < n; i++ {
				cc := &pack.CpuWindow{}
				fillObj(r, cc, 1)
				b.CpuCore = append(b.CpuCore, cc)
			}
		}
	}
	return o
}

var udpTypes = []uint8{udp.TX_START, udp.TX_DB_CONN, udp.TX_SQL, udp.TX_HTTPC, udp.TX_ERROR, udp.TX_MSG, udp.TX_METHOD,
	udp.TX_SECURE_MSG, udp.TX_SQL_PARAM, udp.TX_PARAM, udp.ACTIVE_STACK_1, udp.ACTIVE_STACK, udp.ACTIVE_STATS,
	udp.DBCONN_POOL, udp.CONFIG_INFO, udp.TX_START_END, udp.TX_END}

// (udp.RELAY_PACK reads `Len` bytes, and Len comes with the datagram header, not through ReadPack)

// versions around every gate of the UDP layouts
var udpVers = []int32{0, 10100, 10101, 10102, 10103, 10104, 10105, 10107, 10108, 10109, 10110, 20000, 20001, 20102, 20104,
	30000, 30001, 30102, 30103, 40000, 40001, 50000, 50001, 50100, 50101}

func genUdp(r *vh.Rng, t uint8, ver int32) udp.UdpPack {
	p := udp.CreatePack(t, ver)
	if p == nil {
		return nil
	}
	fillObj(r, p, 2)
	if f := reflect.ValueOf(p).Elem().FieldByName("Ver"); f.IsValid() {
		settable(f).SetInt(int64(ver))
	}
	if q, ok := p.(*udp.UdpRelayPack); ok {
		q.Len = int32(len(q.Data)) // comes with the datagram header
	}
	return p
}
