package main

import (
	"encoding/json"
	"fmt"
	"math"
	"os"
	"reflect"

	gio "github.com/whatap/golib/io"
	"github.com/whatap/golib/lang/pack"
	"github.com/whatap/golib/lang/service"
	"github.com/whatap/golib/lang/step"
	"github.com/whatap/golib/lang/value"
	"verif/harness/vh"
)

var bounds = vh.SignedBoundaries()

func clampTo(v int64, bits uint) int64 {
	if bits >= 64 {
		return v
	}
	hi := int64(1)<<(bits-1) - 1
	lo := -hi - 1
	if v < lo || v > hi {
		span := uint64(hi-lo) + 1
		return lo + int64(uint64(v-lo)%span)
	}
	return v
}

func genInt(r *vh.Rng, bits uint) int64 {
	switch {
	case r.Chance(15):
		return 0
	case r.Chance(45):
		return clampTo(r.Pick64(bounds), bits)
	case r.Chance(40):
		k := uint(r.Intn(int(bits/8))+1) * 8
		return clampTo(r.I64(), k)
	}
	return clampTo(r.I64(), bits)
}

var strLens = []int{0, 0, 1, 2, 5, 17, 252, 253, 254, 255, 256, 300}

func genBytes(r *vh.Rng, big bool) []byte {
	n := 0
	switch {
	case big && r.Chance(2):
		n = r.PickInt([]int{65534, 65535, 65536, 70000})
	case r.Chance(35):
		n = r.PickInt(strLens)
	default:
		n = r.Intn(24)
	}
	if r.Chance(50) { // readable text, otherwise arbitrary bytes (Go strings carry any bytes)
		b := make([]byte, n)
		for i := range b {
			b[i] = byte('a' + r.Intn(26))
		}
		return b
	}
	return r.Bytes(n)
}

func genInts(r *vh.Rng, big bool) []int32 {
	n := 0
	switch {
	case r.Chance(30):
		return nil
	case big && r.Chance(1):
		n = 32767
	case r.Chance(20):
		n = r.PickInt([]int{0, 1, 2, 255, 256})
	default:
		n = r.Intn(8)
	}
	xs := make([]int32, n)
	for i := range xs {
		xs[i] = int32(genInt(r, 32))
	}
	return xs
}

var f32bits = []uint32{0, 0x80000000, 0x7f800000, 0x7fc00000, 0x7fc00001, 0x3f800000, 1, 0xffffffff}
var f64bits = []uint64{0, 0x8000000000000000, 0x7ff0000000000000, 0x7ff8000000000000, 0x7ff8000000000001, 0x3ff0000000000000, 1, 0xffffffffffffffff}

func genValue(r *vh.Rng, depth int) value.Value {
	k := r.Intn(16)
	if depth >= 2 && k >= 11 {
		k = r.Intn(11)
	}
	switch k {
	case 0:
		return value.NewNullValue()
	case 1:
		return value.NewBoolValue(r.Bool())
	case 2:
		return value.NewDecimalValue(genInt(r, 64))
	case 3:
		return value.NewIntValue(int32(genInt(r, 32)))
	case 4:
		return value.NewLongValue(genInt(r, 64))
	case 5:
		return value.NewFloatValue(math.Float32frombits(f32bits[r.Intn(len(f32bits))]))
	case 6:
		return value.NewDoubleValue(math.Float64frombits(f64bits[r.Intn(len(f64bits))]))
	case 7, 8:
		return value.NewTextValue(string(genBytes(r, false)))
	case 9:
		return value.NewTextHashValue(int32(genInt(r, 32)))
	case 10:
		return value.NewBlobValue(genBytes(r, false))
	case 11:
		return value.NewIntArray(append([]int32{}, genInts(r, false)...))
	case 12:
		xs := make([]int64, r.Intn(4))
		for i := range xs {
			xs[i] = genInt(r, 64)
		}
		return value.NewLongArray(xs)
	case 13:
		n := r.Intn(4)
		xs := make([]interface{}, n)
		for i := range xs {
			xs[i] = genValue(r, depth+1)
		}
		return value.NewListValue(xs)
	case 14:
		return genMap(r, depth+1, 3)
	default:
		return value.NewIP4Value(r.Bytes(4))
	}
}

func genMap(r *vh.Rng, depth int, maxN int) *value.MapValue {
	m := value.NewMapValue()
	n := r.Intn(maxN + 1)
	for i := 0; i < n; i++ {
		var key string
		if r.Chance(10) {
			key = string(genBytes(r, false))
		} else {
			key = fmt.Sprintf("k%d", r.Intn(1000))
		}
		m.Put(key, genValue(r, depth))
	}
	return m
}

func genAttr(r *vh.Rng) *value.MapValue {
	switch {
	case r.Chance(30):
		return nil
	case r.Chance(15):
		return value.NewMapValue()
	case r.Chance(3):
		m := value.NewMapValue()
		n := r.PickInt([]int{127, 128, 255})
		for i := 0; i < n; i++ {
			m.Put(fmt.Sprintf("f%d", i), value.NewDecimalValue(int64(i)))
		}
		return m
	}
	m := genMap(r, 0, 6)
	if m.Size() == 0 {
		m.Put("a", value.NewTextValue(""))
	}
	return m
}

// fill sets every wire-relevant field of o from the generator.
func fill(r *vh.Rng, o interface{}, s *spec, big bool) {
	for _, l := range leaves(o, s) {
		v := l.v
		switch v.Kind() {
		case reflect.Int32:
			v.SetInt(genInt(r, 32))
		case reflect.Int64, reflect.Int:
			v.SetInt(genInt(r, 64))
		case reflect.Uint8:
			if r.Chance(40) {
				v.SetUint(uint64(r.PickInt([]int{0, 1, 2, 127, 128, 254, 255})))
			} else {
				v.SetUint(uint64(r.Intn(256)))
			}
		case reflect.Bool:
			v.SetBool(r.Bool())
		case reflect.String:
			v.SetString(string(genBytes(r, big)))
		case reflect.Slice:
			switch v.Type().Elem().Kind() {
			case reflect.Uint8:
				b := genBytes(r, big)
				if len(b) == 0 && r.Bool() {
					b = nil
				}
				v.SetBytes(b)
			case reflect.Int32:
				v.Set(reflect.ValueOf(genInts(r, big)))
			}
		case reflect.Ptr:
			if v.Type() == mapValueType {
				if m := genAttr(r); m != nil {
					v.Set(reflect.ValueOf(m))
				} else {
					v.Set(reflect.Zero(v.Type()))
				}
			}
		}
	}
	// type-specific shaping of the discriminating fields
	switch p := o.(type) {
	case *step.HttpcStepX:
		switch {
		case r.Chance(45):
			p.Version = 2
		case r.Chance(80):
			p.Version = 1
		default:
			p.Version = byte(r.PickInt([]int{0, 3, 255}))
		}
	case *step.SqlStep_3:
		p.Opt = byte(r.Intn(8))
		if r.Chance(10) {
			p.Opt |= byte(r.Intn(256)) &^ 7
		}
	}
}

// fillTransient randomises the fields that are not compared (Drop, Opt, AbstractService ids, pack header):
// they never travel, but they are inputs an encoder could look at.
func fillTransient(r *vh.Rng, o interface{}, s *spec) {
	for _, l := range transientLeaves(o, s) {
		v := l.v
		switch v.Kind() {
		case reflect.Bool:
			v.SetBool(r.Chance(35))
		case reflect.Uint8:
			v.SetUint(uint64(r.PickInt([]int{0, 0, 1, 2, 3, 255})))
		case reflect.Int32:
			if r.Chance(50) {
				v.SetInt(genInt(r, 32))
			}
		case reflect.Int64, reflect.Int:
			if r.Chance(50) {
				v.SetInt(genInt(r, 64))
			}
		}
	}
	// the same through the setters of the Step interface
	if st, ok := o.(step.Step); ok && r.Chance(30) {
		st.SetDrop(r.Bool())
		if r.Bool() {
			st.SetTrue(step.FLAG_ALREADY_SET_INDEX)
		}
	}
}

func newFilled(r *vh.Rng, s *spec, big bool) interface{} {
	o := s.mk()
	fill(r, o, s, big)
	fillTransient(r, o, s)
	return o
}

func genSteps(r *vh.Rng, n int) []item {
	items := make([]item, n)
	mono := r.Chance(10) // a stream of one type only
	ms := stepSpecs[r.Intn(len(stepSpecs))]
	for i := range items {
		s := ms
		if !mono {
			s = stepSpecs[r.Intn(len(stepSpecs))]
		}
		items[i] = item{s, newFilled(r, s, false)}
	}
	return items
}

func stepsOf(items []item) []step.Step {
	out := make([]step.Step, len(items))
	for i, it := range items {
		out[i] = it.o.(step.Step)
	}
	return out
}

// shapeTx forces one combination of TxRecord's optional sections.
func shapeTx(r *vh.Rng, t *service.TxRecord, combo int) {
	nz := func(bits uint) int64 {
		for {
			if v := genInt(r, bits); v != 0 {
				return v
			}
		}
	}
	if combo&1 != 0 {
		t.Mtid = nz(64)
	} else {
		t.Mtid = 0
	}
	if combo&2 != 0 {
		t.McallerPcode = nz(64)
	} else {
		t.McallerPcode = 0
	}
	switch {
	case combo&4 == 0 && r.Bool():
		t.Fields = nil
	case combo&4 == 0:
		t.Fields = value.NewMapValue()
	default:
		if t.Fields == nil || t.Fields.Size() == 0 {
			t.Fields = value.NewMapValue()
			t.Fields.Put("f", genValue(r, 0))
		}
	}
	if t.Fields != nil && t.Fields.Size() > 0 && t.Fields.Size() < 250 && r.Chance(20) {
		t.Fields.Put(fmt.Sprintf("nil%d", r.Intn(3)), nil) // written as an empty TextValue
		if r.Chance(30) {
			t.Fields.Put("k1", nil)
		}
	}
	if combo&8 != 0 {
		t.Error = nz(64)
	} else {
		t.Error = 0
	}
	if combo&16 != 0 {
		t.ErrorLevel = byte(r.PickInt([]int{10, 20, 30, 1, 255}))
	} else {
		t.ErrorLevel = 0
	}
}

func generate(c *ctx, r *vh.Rng) {
	th := c.env.Thorough
	mult := 2
	if th {
		mult = 12
	}
	rep := c.rep
	// 1. every type alone, with and without bytes following
	for _, s := range specs {
		n := 500 * mult / 2
		for i := 0; i < n; i++ {
			o := newFilled(r, s, i%10 == 0)
			var rest []byte
			if s.fam != "step" && s.fam != "svc" && r.Chance(40) {
				rest = r.Bytes(1 + r.Intn(5))
			}
			if pp, ok := o.(*pack.ProfilePack); ok {
				pp.SetProfile(stepsOf(genSteps(r, r.Intn(4))))
				shapeTx(r, pp.Transaction, r.Intn(32))
			}
			if sp, ok := o.(*pack.ProfileStepSplitPack); ok && r.Bool() {
				sp.SetProfile(stepsOf(genSteps(r, r.Intn(4))))
			}
			if ep, ok := o.(*pack.ErrorSnapPack1); ok && r.Bool() {
				ep.SetProfile(stepsOf(genSteps(r, r.Intn(4))))
				ep.SetStack(genInts(r, false))
			}
			c.checkSingle(s, o, rest)
		}
	}
	// 2. TxRecord: all 2^5 combinations of the optional sections
	txs := specOf("TxRecord")
	for combo := 0; combo < 32; combo++ {
		for i := 0; i < 8*mult; i++ {
			t := newFilled(r, txs, i == 0).(*service.TxRecord)
			shapeTx(r, t, combo)
			rep.Count(fmt.Sprintf("tx-combo:mtid=%d,caller=%d,fields=%d,error=%d,level=%d", combo&1, combo>>1&1, combo>>2&1, combo>>3&1, combo>>4&1))
			var rest []byte
			if r.Bool() {
				rest = r.Bytes(1 + r.Intn(3))
			}
			c.checkSingle(txs, t, rest)
		}
	}
	// 3. step streams
	maxLen := 200
	nStreams := 600
	if th {
		maxLen = 2000
		nStreams = 1500
	}
	for i := 0; i < nStreams; i++ {
		n := 1
		switch {
		case i < 9:
			n = 1
		case r.Chance(15):
			n = r.PickInt([]int{1, 2, 3, maxLen - 1, maxLen})
		case r.Chance(60):
			n = 1 + r.Intn(30)
		default:
			n = 1 + r.Intn(maxLen)
		}
		items := genSteps(r, n)
		if i < 9 { // every registered type alone first
			items = []item{{stepSpecs[i], newFilled(r, stepSpecs[i], true)}}
		}
		c.checkStream(items)
	}
	// 3b. encodings of older agents, raw streams behind unregistered type codes
	genLegacy(c, r)
	genRawStreams(c, r)
	// 3c. service-record streams; decoding into re-used objects
	genSvcStreams(c, r)
	genReuse(c, r)
	// 4. histories: hidden shared state / aliasing between encodings and between decodings
	genHistories(c, r)
	// 5. observations outside the property's quantifier (registered types only): recorded, not judged
	observeUnregistered(c, r)
}

// A MessageStepX / SqlStep_3 put into a step stream cannot be read back: not in CreateStep.
func observeUnregistered(c *ctx, r *vh.Rng) {
	mx := step.NewMessageStepX()
	mx.Attr = value.NewMapValue()
	b := step.ToBytesStep([]step.Step{mx})
	oc := vh.Guard(func() { step.ReadStep(gio.NewDataInputX(b)) })
	c.rep.Note("observation: MessageStepX (type %d) is not in step.CreateStep: ReadStep on a stream holding one → %s", step.STEP_MESSAGE_X, oc.String())
	c.rep.Note("observation: AbstractService.Mtid/Mdepth/Mcaller are not on the wire (AbstractService.Write omits them; WasService writes its own shadowing fields), so an AppService does not carry them; AbstractStep.Drop/Opt are process-local flags")
	c.rep.Note("observation: SqlStep_3 answers type %d (STEP_SQL_X), is not in step.CreateStep and does not implement step.Step (IsTrue(byte)); it can only be written and read directly", step.NewSqlStep_3().GetStepType())
}

// ---------------------------------------------------------------- fixed witnesses

func knownReplays(c *ctx) {
	rep := c.rep
	// D29a: MessageStepX without attributes
	{
		s := specOf("MessageStepX")
		p := step.NewMessageStepX()
		p.Title, p.Desc, p.Ctr = "t", "d", 1
		b, _ := encode(s, p)
		d := decodeOne(s, b)
		rep.Extra["witness_D29_messagestepx_nil_attr"] = d.oc.String()
		c.checkSingle(s, p, nil)
	}
	// D29b: HttpcStepX version 1
	{
		s := specOf("HttpcStepX")
		p := step.NewHttpcStepXVersion(1)
		p.Url = 5
		b, _ := encode(s, p)
		d := decodeOne(s, b)
		got := "panic"
		if d.oc.OK() {
			got = fmt.Sprint(d.obj.(*step.HttpcStepX).Version)
		}
		rep.Extra["witness_D29_httpc_v1_version_read_back"] = got
		c.checkStream([]item{{s, p}})
	}
	// D23: ProfilePack
	{
		s := specOf("ProfilePack")
		p := pack.NewProfilePack()
		p.Transaction = service.NewTxRecord()
		p.Transaction.Txid = 9
		p.SetProfile([]step.Step{step.NewDBCStep()})
		b, _ := encode(s, p)
		d := decodeOne(s, b)
		rep.Extra["witness_D23_profilepack_read"] = d.oc.String()
		c.checkSingle(s, p, nil)
	}
	// known finding: more than 255 custom fields do not fit the count byte
	{
		s := specOf("TxRecord")
		t := service.NewTxRecord()
		t.Fields = value.NewMapValue()
		for i := 0; i < 256; i++ {
			t.Fields.Put(fmt.Sprintf("f%d", i), value.NewDecimalValue(int64(i)))
		}
		b, _ := encode(s, t)
		d := decodeOne(s, b)
		fails := !d.oc.OK()
		if d.oc.OK() {
			got := dump(d.obj, s)
			fails = len(diffFields(carried(s.name, dump(t, s)), got)) > 0
		}
		rep.KnownReplay("TxRecord.Fields:count-byte-wraps", fails,
			"a TxRecord with 256 custom fields writes the count byte 0 and does not read back (the count is a single byte)")
	}
}

// ---------------------------------------------------------------- replay

func runReplay(c *ctx, path string) {
	raw, err := os.ReadFile(path)
	if err != nil {
		vh.Die("replay: %v", err)
	}
	var f struct {
		Cases []replayCase `json:"cases"`
	}
	if err := json.Unmarshal(raw, &f); err != nil {
		vh.Die("replay: %v", err)
	}
	for _, rc := range f.Cases {
		var items []item
		for _, it := range rc.Items {
			s := specOf(it.Type)
			if s == nil {
				vh.Die("replay: unknown type %s", it.Type)
			}
			items = append(items, item{s, fromRec(s, it.Rec)})
		}
		switch rc.Op {
		case "history":
			replayHistory(c, rc)
		case "svc-stream":
			c.checkSvcStream(items)
		case "reuse":
			c.checkReuse(items[0].s, items[0].o, items[1].o, rc.Mutate)
		case "legacy":
			s := specOf("TxRecord")
			c.checkLegacy(fromRec(s, rc.Items[0].Rec).(*service.TxRecord), rc.Ver, rc.MtidFlag, rc.CallerFlag, vh.UnHex(rc.Rest))
		case "single":
			c.checkSingle(items[0].s, items[0].o, vh.UnHex(rc.Rest))
		case "stream":
			c.checkStream(items)
		}
	}
}
