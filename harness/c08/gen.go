package main

import (
	"strings"
	"encoding/json"
	"fmt"
	"math"
	"os"
	"reflect"

	gio "github.com/whatap/golib/io"
	"github.com/whatap/golib/lang/pack"
	"github.com/whatap/golib/lang/service"
	"github.com/whatap/golib/lang/step"
	"github.com/whatap/golib/lang/value"
	"verif/harness/vh"
)

var bounds = vh.SignedBoundaries()

func clampTo(v int64, bits uint) int64 {
	if bits >= 64 {
		return v
	}
	hi := int64(1)<<(bits-1) - 1
	lo := -hi - 1
	if v < lo || v > hi {
		span := uint64(hi-lo) + 1
		return lo + int64(uint64(v-lo)%span)
	}
	return v
}

func genInt(r *vh.Rng, bits uint) int64 {
	switch {
	case r.Chance(15):
		return 0
	case r.Chance(45):
		return clampTo(r.Pick64(bounds), bits)
	case r.Chance(40):
		k := uint(r.Intn(int(bits/8))+1) * 8
		return clampTo(r.I64(), k)
	}
	return clampTo(r.I64(), bits)
}

var strLens = []int{0, 0, 1, 2, 5, 17, 252, 253, 254, 255, 256, 300}

// specialContent: byte strings whose CONTENT looks like something structured — network addresses of
// every family and notable value, text in and out of UTF-8, numeric-looking text.  A wire format
// carries them byte for byte; an encoder that "normalises" one of them (compacts an IPv4-mapped
// address, trims, re-encodes, parses a number) breaks the round trip for exactly these values.
type special struct {
	label string
	b     []byte
}

func cat(parts ...[]byte) []byte {
	var o []byte
	for _, p := range parts {
		o = append(o, p...)
	}
	return o
}
func rep(b byte, n int) []byte {
	o := make([]byte, n)
	for i := range o {
		o[i] = b
	}
	return o
}

var specialPool = func() []special {
	v4s := map[string][]byte{"1.2.3.4": {1, 2, 3, 4}, "127.0.0.1": {127, 0, 0, 1}, "0.0.0.0": {0, 0, 0, 0},
		"255.255.255.255": {255, 255, 255, 255}, "10.0.0.255": {10, 0, 0, 255}, "192.168.1.1": {192, 168, 1, 1}}
	var p []special
	for _, name := range []string{"1.2.3.4", "127.0.0.1", "0.0.0.0", "255.255.255.255", "10.0.0.255", "192.168.1.1"} {
		a := v4s[name]
		p = append(p, special{"ipv4:" + name, a})
		p = append(p, special{"ipv4-mapped-ipv6:" + name, cat(rep(0, 10), []byte{0xff, 0xff}, a)})
		p = append(p, special{"ipv4-compatible-ipv6:" + name, cat(rep(0, 12), a)})
		p = append(p, special{"text-address:" + name, []byte(name)})
		p = append(p, special{"text-address:::ffff:" + name, []byte("::ffff:" + name)})
	}
	p = append(p,
		special{"ipv6:::1", cat(rep(0, 15), []byte{1})},
		special{"ipv6:::", rep(0, 16)},
		special{"ipv6:all-ff", rep(0xff, 16)},
		special{"ipv6:2001:db8::1", cat([]byte{0x20, 0x01, 0x0d, 0xb8}, rep(0, 11), []byte{1})},
		special{"ipv6:fe80::1", cat([]byte{0xfe, 0x80}, rep(0, 13), []byte{1})},
		special{"ipv6:64:ff9b::1.2.3.4", cat([]byte{0, 0x64, 0xff, 0x9b}, rep(0, 8), []byte{1, 2, 3, 4})},
		special{"almost-mapped:10x00+fffe", cat(rep(0, 10), []byte{0xff, 0xfe, 1, 2, 3, 4})},
		special{"almost-mapped:9x00", cat(rep(0, 9), []byte{1, 0xff, 0xff, 1, 2, 3, 4})},
		special{"text-address:::1", []byte("::1")},
		special{"text-address:[::1]:80", []byte("[::1]:80")},
	)
	for _, n := range []int{0, 1, 3, 4, 5, 8, 15, 16, 17, 32} { // address lengths and off-by-one, all-zero and all-ones and counting
		p = append(p, special{fmt.Sprintf("len%d:zero", n), rep(0, n)})
		if n > 0 {
			p = append(p, special{fmt.Sprintf("len%d:ff", n), rep(0xff, n)})
			c := make([]byte, n)
			for i := range c {
				c[i] = byte(i + 1)
			}
			p = append(p, special{fmt.Sprintf("len%d:counting", n), c})
		}
	}
	for _, t := range []struct{ l, s string }{
		{"utf8:2-byte", "h\u00e9llo"}, {"utf8:3-byte", "\u65e5\u672c\u8a9e"}, {"utf8:4-byte", "\U0001F600"}, {"utf8:bom", "\ufeffx"},
		{"utf8:combining", "e\u0301"}, {"utf8:replacement-char", "\ufffd"},
		{"invalid-utf8:ff-fe", "\xff\xfe"}, {"invalid-utf8:lone-continuation", "a\x80b"}, {"invalid-utf8:truncated", "\xe2\x82"},
		{"invalid-utf8:overlong", "\xc0\xaf"}, {"invalid-utf8:surrogate", "\xed\xa0\x80"}, {"invalid-utf8:latin1", "caf\xe9"},
		{"numeric:0", "0"}, {"numeric:00", "00"}, {"numeric:007", "007"}, {"numeric:-1", "-1"}, {"numeric:+1", "+1"}, {"numeric:-0", "-0"},
		{"numeric:1e3", "1e3"}, {"numeric:0x10", "0x10"}, {"numeric:1.0", "1.0"}, {"numeric:.5", ".5"}, {"numeric:spaces", " 12 "},
		{"numeric:int64-max+1", "9223372036854775808"}, {"numeric:int32-min", "-2147483648"}, {"numeric:NaN", "NaN"}, {"numeric:Inf", "-Inf"},
		{"keyword:null", "null"}, {"keyword:nil", "nil"}, {"keyword:true", "true"}, {"keyword:empty-json", "{}"},
		{"space:single", " "}, {"space:newline", "\n"}, {"space:crlf", "a\r\nb"}, {"space:tab", "\t"}, {"space:leading-trailing", "  x  "},
		{"nul:single", "\x00"}, {"nul:trailing", "a\x00"}, {"nul:leading", "\x00a"}, {"case:mixed", "AbC"}, {"percent:encoded", "%41%00"},
		{"url:query", "/a/b?x=1&y=2#f"}, {"sql:quote", "it's \"q\""},
	} {
		p = append(p, special{t.l, []byte(t.s)})
	}
	return p
}()

func genBytes(r *vh.Rng, big bool) []byte {
	if r.Chance(18) { // content that looks like an address / text / number
		return append([]byte{}, specialPool[r.Intn(len(specialPool))].b...)
	}
	n := 0
	switch {
	case big && r.Chance(2):
		n = r.PickInt([]int{65534, 65535, 65536, 70000})
	case r.Chance(35):
		n = r.PickInt(strLens)
	default:
		n = r.Intn(24)
	}
	if r.Chance(50) { // readable text, otherwise arbitrary bytes (Go strings carry any bytes)
		b := make([]byte, n)
		for i := range b {
			b[i] = byte('a' + r.Intn(26))
		}
		return b
	}
	return r.Bytes(n)
}

func genInts(r *vh.Rng, big bool) []int32 {
	n := 0
	switch {
	case r.Chance(30):
		return nil
	case big && r.Chance(1):
		n = 32767
	case r.Chance(20):
		n = r.PickInt([]int{0, 1, 2, 255, 256})
	default:
		n = r.Intn(8)
	}
	xs := make([]int32, n)
	for i := range xs {
		xs[i] = int32(genInt(r, 32))
	}
	return xs
}

var f32bits = []uint32{0, 0x80000000, 0x7f800000, 0x7fc00000, 0x7fc00001, 0x3f800000, 1, 0xffffffff}
var f64bits = []uint64{0, 0x8000000000000000, 0x7ff0000000000000, 0x7ff8000000000000, 0x7ff8000000000001, 0x3ff0000000000000, 1, 0xffffffffffffffff}

func genValue(r *vh.Rng, depth int) value.Value {
	k := r.Intn(16)
	if depth >= 2 && k >= 11 {
		k = r.Intn(11)
	}
	switch k {
	case 0:
		return value.NewNullValue()
	case 1:
		return value.NewBoolValue(r.Bool())
	case 2:
		return value.NewDecimalValue(genInt(r, 64))
	case 3:
		return value.NewIntValue(int32(genInt(r, 32)))
	case 4:
		return value.NewLongValue(genInt(r, 64))
	case 5:
		return value.NewFloatValue(math.Float32frombits(f32bits[r.Intn(len(f32bits))]))
	case 6:
		return value.NewDoubleValue(math.Float64frombits(f64bits[r.Intn(len(f64bits))]))
	case 7, 8:
		return value.NewTextValue(string(genBytes(r, false)))
	case 9:
		return value.NewTextHashValue(int32(genInt(r, 32)))
	case 10:
		return value.NewBlobValue(genBytes(r, false))
	case 11:
		return value.NewIntArray(append([]int32{}, genInts(r, false)...))
	case 12:
		xs := make([]int64, r.Intn(4))
		for i := range xs {
			xs[i] = genInt(r, 64)
		}
		return value.NewLongArray(xs)
	case 13:
		n := r.Intn(4)
		xs := make([]interface{}, n)
		for i := range xs {
			xs[i] = genValue(r, depth+1)
		}
		return value.NewListValue(xs)
	case 14:
		return genMap(r, depth+1, 3)
	default:
		return value.NewIP4Value(r.Bytes(4))
	}
}

func genMap(r *vh.Rng, depth int, maxN int) *value.MapValue {
	m := value.NewMapValue()
	n := r.Intn(maxN + 1)
	for i := 0; i < n; i++ {
		var key string
		if r.Chance(10) {
			key = string(genBytes(r, false))
		} else {
			key = fmt.Sprintf("k%d", r.Intn(1000))
		}
		m.Put(key, genValue(r, depth))
	}
	return m
}

func genAttr(r *vh.Rng) *value.MapValue {
	switch {
	case r.Chance(30):
		return nil
	case r.Chance(15):
		return value.NewMapValue()
	case r.Chance(3):
		m := value.NewMapValue()
		n := r.PickInt([]int{127, 128, 255})
		for i := 0; i < n; i++ {
			m.Put(fmt.Sprintf("f%d", i), value.NewDecimalValue(int64(i)))
		}
		return m
	}
	m := genMap(r, 0, 6)
	if m.Size() == 0 {
		m.Put("a", value.NewTextValue(""))
	}
	return m
}

// fill sets every wire-relevant field of o from the generator.
func fill(r *vh.Rng, o interface{}, s *spec, big bool) {
	for _, l := range leaves(o, s) {
		v := l.v
		switch v.Kind() {
		case reflect.Int32:
			v.SetInt(genInt(r, 32))
		case reflect.Int64, reflect.Int:
			v.SetInt(genInt(r, 64))
		case reflect.Uint8:
			if r.Chance(40) {
				v.SetUint(uint64(r.PickInt([]int{0, 1, 2, 127, 128, 254, 255})))
			} else {
				v.SetUint(uint64(r.Intn(256)))
			}
		case reflect.Bool:
			v.SetBool(r.Bool())
		case reflect.String:
			v.SetString(string(genBytes(r, big)))
		case reflect.Slice:
			switch v.Type().Elem().Kind() {
			case reflect.Uint8:
				b := genBytes(r, big)
				if len(b) == 0 && r.Bool() {
					b = nil
				}
				v.SetBytes(b)
			case reflect.Int32:
				v.Set(reflect.ValueOf(genInts(r, big)))
			}
		case reflect.Ptr:
			if v.Type() == mapValueType {
				if m := genAttr(r); m != nil {
					v.Set(reflect.ValueOf(m))
				} else {
					v.Set(reflect.Zero(v.Type()))
				}
			}
		}
	}
	// type-specific shaping of the discriminating fields
	switch p := o.(type) {
	case *step.HttpcStepX:
		switch {
		case r.Chance(45):
			p.Version = 2
		case r.Chance(80):
			p.Version = 1
		default:
			p.Version = byte(r.PickInt([]int{0, 3, 255}))
		}
	case *step.SqlStep_3:
		p.Opt = byte(r.Intn(8))
		if r.Chance(10) {
			p.Opt |= byte(r.Intn(256)) &^ 7
		}
	}
}

// fillTransient randomises the fields that are not compared (Drop, Opt, AbstractService ids, pack header):
// they never travel, but they are inputs an encoder could look at.
func fillTransient(r *vh.Rng, o interface{}, s *spec) {
	for _, l := range transientLeaves(o, s) {
		v := l.v
		switch v.Kind() {
		case reflect.Bool:
			v.SetBool(r.Chance(35))
		case reflect.Uint8:
			v.SetUint(uint64(r.PickInt([]int{0, 0, 1, 2, 3, 255})))
		case reflect.Int32:
			if r.Chance(50) {
				v.SetInt(genInt(r, 32))
			}
		case reflect.Int64, reflect.Int:
			if r.Chance(50) {
				v.SetInt(genInt(r, 64))
			}
		}
	}
	// the same through the setters of the Step interface
	if st, ok := o.(step.Step); ok && r.Chance(30) {
		st.SetDrop(r.Bool())
		if r.Bool() {
			st.SetTrue(step.FLAG_ALREADY_SET_INDEX)
		}
	}
}

// genSpecialContent: for every []byte and string field of every type, one object per special
// value (the other fields random), so that a writer or reader that treats such content specially
// is exhibited on exactly that value; steps also inside a short stream.
func genSpecialContent(c *ctx, r *vh.Rng) {
	for _, s := range specs {
		probe := s.mk()
		var fields []string
		for _, l := range leaves(probe, s) {
			k := l.v.Kind()
			if k == reflect.String || (k == reflect.Slice && l.v.Type().Elem().Kind() == reflect.Uint8) {
				fields = append(fields, l.name)
			}
		}
		for _, f := range fields {
			if s.fam == "pack" && (f == "Steps" || f == "Profile") {
				continue // holds a step stream (checked through SetProfile), not free content
			}
			for _, sp := range specialPool {
				o := newFilled(r, s, false)
				for _, l := range leaves(o, s) {
					if l.name != f {
						continue
					}
					if l.v.Kind() == reflect.String {
						l.v.SetString(string(sp.b))
					} else {
						l.v.SetBytes(append([]byte{}, sp.b...))
					}
				}
				if h, ok := o.(*step.HttpcStepX); ok {
					h.Version = 2 // the text fields travel only in version 2
				}
				if q, ok := o.(*step.SqlStep_3); ok {
					q.Opt |= 1 // P1/P2 travel only with bit 1
				}
				c.rep.Count("special-content:" + strings.SplitN(sp.label, ":", 2)[0])
				c.rep.Count("special-field:" + s.name + "." + f)
				if s.fam == "step" && r.Chance(25) {
					items := genSteps(r, r.Intn(3))
					items = append(items, item{s, o})
					items = append(items, genSteps(r, r.Intn(2))...)
					c.checkStream(items)
				} else {
					c.checkSingle(s, o, nil)
				}
			}
		}
	}
}

func newFilled(r *vh.Rng, s *spec, big bool) interface{} {
	o := s.mk()
	fill(r, o, s, big)
	fillTransient(r, o, s)
	return o
}

func genSteps(r *vh.Rng, n int) []item {
	items := make([]item, n)
	mono := r.Chance(10) // a stream of one type only
	ms := stepSpecs[r.Intn(len(stepSpecs))]
	for i := range items {
		s := ms
		if !mono {
			s = stepSpecs[r.Intn(len(stepSpecs))]
		}
		items[i] = item{s, newFilled(r, s, false)}
	}
	return items
}

func stepsOf(items []item) []step.Step {
	out := make([]step.Step, len(items))
	for i, it := range items {
		out[i] = it.o.(step.Step)
	}
	return out
}

// shapeTx forces one combination of TxRecord's optional sections.
func shapeTx(r *vh.Rng, t *service.TxRecord, combo int) {
	nz := func(bits uint) int64 {
		for {
			if v := genInt(r, bits); v != 0 {
				return v
			}
		}
	}
	if combo&1 != 0 {
		t.Mtid = nz(64)
	} else {
		t.Mtid = 0
	}
	if combo&2 != 0 {
		t.McallerPcode = nz(64)
	} else {
		t.McallerPcode = 0
	}
	switch {
	case combo&4 == 0 && r.Bool():
		t.Fields = nil
	case combo&4 == 0:
		t.Fields = value.NewMapValue()
	default:
		if t.Fields == nil || t.Fields.Size() == 0 {
			t.Fields = value.NewMapValue()
			t.Fields.Put("f", genValue(r, 0))
		}
	}
	if t.Fields != nil && t.Fields.Size() > 0 && t.Fields.Size() < 250 && r.Chance(20) {
		t.Fields.Put(fmt.Sprintf("nil%d", r.Intn(3)), nil) // written as an empty TextValue
		if r.Chance(30) {
			t.Fields.Put("k1", nil)
		}
	}
	if combo&8 != 0 {
		t.Error = nz(64)
	} else {
		t.Error = 0
	}
	if combo&16 != 0 {
		t.ErrorLevel = byte(r.PickInt([]int{10, 20, 30, 1, 255}))
	} else {
		t.ErrorLevel = 0
	}
}

func generate(c *ctx, r *vh.Rng) {
	th := c.env.Thorough
	mult := 2
	if th {
		mult = 12
	}
	rep := c.rep
	// 1. every type alone, with and without bytes following
	for _, s := range specs {
		n := 500 * mult / 2
		for i := 0; i < n; i++ {
			o := newFilled(r, s, i%10 == 0)
			var rest []byte
			if s.fam != "step" && s.fam != "svc" && r.Chance(40) {
				rest = r.Bytes(1 + r.Intn(5))
			}
			if pp, ok := o.(*pack.ProfilePack); ok {
				pp.SetProfile(stepsOf(genSteps(r, r.Intn(4))))
				shapeTx(r, pp.Transaction, r.Intn(32))
			}
			if sp, ok := o.(*pack.ProfileStepSplitPack); ok && r.Bool() {
				sp.SetProfile(stepsOf(genSteps(r, r.Intn(4))))
			}
			if ep, ok := o.(*pack.ErrorSnapPack1); ok && r.Bool() {
				ep.SetProfile(stepsOf(genSteps(r, r.Intn(4))))
				ep.SetStack(genInts(r, false))
			}
			c.checkSingle(s, o, rest)
		}
	}
	// 2. TxRecord: all 2^5 combinations of the optional sections
	txs := specOf("TxRecord")
	for combo := 0; combo < 32; combo++ {
		for i := 0; i < 8*mult; i++ {
			t := newFilled(r, txs, i == 0).(*service.TxRecord)
			shapeTx(r, t, combo)
			rep.Count(fmt.Sprintf("tx-combo:mtid=%d,caller=%d,fields=%d,error=%d,level=%d", combo&1, combo>>1&1, combo>>2&1, combo>>3&1, combo>>4&1))
			var rest []byte
			if r.Bool() {
				rest = r.Bytes(1 + r.Intn(3))
			}
			c.checkSingle(txs, t, rest)
		}
	}
	// 3. step streams
	maxLen := 200
	nStreams := 600
	if th {
		maxLen = 2000
		nStreams = 1500
	}
	for i := 0; i < nStreams; i++ {
		n := 1
		switch {
		case i < 9:
			n = 1
		case r.Chance(15):
			n = r.PickInt([]int{1, 2, 3, maxLen - 1, maxLen})
		case r.Chance(60):
			n = 1 + r.Intn(30)
		default:
			n = 1 + r.Intn(maxLen)
		}
		items := genSteps(r, n)
		if i < 9 { // every registered type alone first
			items = []item{{stepSpecs[i], newFilled(r, stepSpecs[i], true)}}
		}
		c.checkStream(items)
	}
	// 3a. every byte-slice / text field of every type with every special-content value
	genSpecialContent(c, r)
	// 3b. encodings of older agents, raw streams behind unregistered type codes
	genLegacy(c, r)
	genRawStreams(c, r)
	// 3c. service-record streams; decoding into re-used objects
	genSvcStreams(c, r)
	genReuse(c, r)
	genRefill(c, r)
	// 3d. the API around Write / Read: accessors, constructors, ToBytes / ToObject, WriteVer0 / ReadVer0, mixed streams
	genApi(c, r)
	// 4. histories: hidden shared state / aliasing between encodings and between decodings
	genHistories(c, r)
	// 5. observations outside the property's quantifier (registered types only): recorded, not judged
	observeUnregistered(c, r)
}

// A MessageStepX / SqlStep_3 put into a step stream cannot be read back: not in CreateStep.
func observeUnregistered(c *ctx, r *vh.Rng) {
	mx := step.NewMessageStepX()
	mx.Attr = value.NewMapValue()
	b := step.ToBytesStep([]step.Step{mx})
	oc := vh.Guard(func() { step.ReadStep(gio.NewDataInputX(b)) })
	c.rep.Note("observation: MessageStepX (type %d) is not in step.CreateStep: ReadStep on a stream holding one → %s", step.STEP_MESSAGE_X, oc.String())
	c.rep.Note("observation: AbstractService.Mtid/Mdepth/Mcaller are not on the wire (AbstractService.Write omits them; WasService writes its own shadowing fields), so an AppService does not carry them; AbstractStep.Drop/Opt are process-local flags")
	c.rep.Note("observation: SqlStep_3 answers type %d (STEP_SQL_X), is not in step.CreateStep and does not implement step.Step (IsTrue(byte)); it can only be written and read directly", step.NewSqlStep_3().GetStepType())
}

// ---------------------------------------------------------------- fixed witnesses

func knownReplays(c *ctx) {
	rep := c.rep
	// D29a: MessageStepX without attributes
	{
		s := specOf("MessageStepX")
		p := step.NewMessageStepX()
		p.Title, p.Desc, p.Ctr = "t", "d", 1
		b, _ := encode(s, p)
		d := decodeOne(s, b)
		rep.Extra["witness_D29_messagestepx_nil_attr"] = d.oc.String()
		c.checkSingle(s, p, nil)
	}
	// D29b: HttpcStepX version 1
	{
		s := specOf("HttpcStepX")
		p := step.NewHttpcStepXVersion(1)
		p.Url = 5
		b, _ := encode(s, p)
		d := decodeOne(s, b)
		got := "panic"
		if d.oc.OK() {
			got = fmt.Sprint(d.obj.(*step.HttpcStepX).Version)
		}
		rep.Extra["witness_D29_httpc_v1_version_read_back"] = got
		c.checkStream([]item{{s, p}})
	}
	// D23: ProfilePack
	{
		s := specOf("ProfilePack")
		p := pack.NewProfilePack()
		p.Transaction = service.NewTxRecord()
		p.Transaction.Txid = 9
		p.SetProfile([]step.Step{step.NewDBCStep()})
		b, _ := encode(s, p)
		d := decodeOne(s, b)
		rep.Extra["witness_D23_profilepack_read"] = d.oc.String()
		c.checkSingle(s, p, nil)
	}
	// known finding: more than 255 custom fields do not fit the count byte
	{
		s := specOf("TxRecord")
		t := service.NewTxRecord()
		t.Fields = value.NewMapValue()
		for i := 0; i < 256; i++ {
			t.Fields.Put(fmt.Sprintf("f%d", i), value.NewDecimalValue(int64(i)))
		}
		b, _ := encode(s, t)
		d := decodeOne(s, b)
		fails := !d.oc.OK()
		if d.oc.OK() {
			got := dump(d.obj, s)
			fails = len(diffFields(carried(s.name, dump(t, s)), got)) > 0
		}
		rep.KnownReplay("TxRecord.Fields:count-byte-wraps", fails,
			"a TxRecord with 256 custom fields writes the count byte 0 and does not read back (the count is a single byte)")
	}
}

// ---------------------------------------------------------------- replay

func runReplay(c *ctx, path string) {
	raw, err := os.ReadFile(path)
	if err != nil {
		vh.Die("replay: %v", err)
	}
	var f struct {
		Cases []replayCase `json:"cases"`
	}
	if err := json.Unmarshal(raw, &f); err != nil {
		vh.Die("replay: %v", err)
	}
	for _, rc := range f.Cases {
		var items []item
		for _, it := range rc.Items {
			s := specOf(it.Type)
			if s == nil {
				vh.Die("replay: unknown type %s", it.Type)
			}
			items = append(items, item{s, fromRec(s, it.Rec)})
		}
		switch rc.Op {
		case "api", "ctor", "txobj", "ver0", "tostring", "mixed":
			replayApi(c, rc, items)
		case "history":
			replayHistory(c, rc)
		case "refill":
			c.runRefill(items[0].s, rc.Items[0].Rec, rc.Refill)
		case "refill-stream":
			c.replayRefillStream(items, rc.Order)
		case "svc-stream":
			c.checkSvcStream(items)
		case "reuse":
			c.checkReuse(items[0].s, items[0].o, items[1].o, rc.Mutate)
		case "legacy":
			s := specOf("TxRecord")
			c.checkLegacy(fromRec(s, rc.Items[0].Rec).(*service.TxRecord), rc.Ver, rc.MtidFlag, rc.CallerFlag, vh.UnHex(rc.Rest))
		case "single":
			c.checkSingle(items[0].s, items[0].o, vh.UnHex(rc.Rest))
		case "stream":
			c.checkStream(items)
		}
	}
}
