package main

// The API around Write / Read (fourth round):
//
//   - histories of accessor calls on one step object — SetParent/GetParent, SetIndex/GetIndex,
//     SetStartTime/GetStartTime, SetDrop/GetDrop, SetTrue/IsTrue, GetElapsed — made by one of its
//     constructors: get-after-set evaluated directly, SetDrop / SetTrue must not change what the step
//     writes, the decoded step must show the same values through the getters; returns, bytes and the
//     transient flags against the model (driver AC);
//   - every constructor's object against the model (FR) and through the round trip;
//   - TxRecord.ToBytes / ToObject (into a new and into a used record, bytes following) (TB / TO);
//   - MessageStepX.WriteVer0 / ReadVer0 called directly, CtrToJson (V0W / V0R / CJ);
//   - ProfileStepSplitPack.ToString (implementation only);
//   - mixed streams: steps, service records and untagged records written onto ONE output in any
//     interleaving and read back, each by its own reader, from ONE input (EM / DM).

import (
	"bytes"
	"fmt"
	"reflect"
	"sort"
	"strings"

	gio "github.com/whatap/golib/io"
	"github.com/whatap/golib/lang/pack"
	"github.com/whatap/golib/lang/service"
	"github.com/whatap/golib/lang/step"
	"verif/harness/vh"
)

type apiCall struct {
	M string `json:"m"`
	A int64  `json:"a"`
}

type ctorInfo struct {
	name   string
	typ    string
	hasArg bool
	mk     func(arg int64) interface{}
}

var ctors = []ctorInfo{
	{"NewMethodStepX", "MethodStepX", false, func(int64) interface{} { return step.NewMethodStepX() }},
	{"NewSqlStepX", "SqlStepX", false, func(int64) interface{} { return step.NewSqlStepX() }},
	{"NewResultSetStep", "ResultSetStep", false, func(int64) interface{} { return step.NewResultSetStep() }},
	{"NewSocketStep", "SocketStep", false, func(int64) interface{} { return step.NewSocketStep() }},
	{"NewHttpcStepX", "HttpcStepX", false, func(int64) interface{} { return step.NewHttpcStepX() }},
	{"NewHttpcStepXVersion", "HttpcStepX", true, func(a int64) interface{} { return step.NewHttpcStepXVersion(byte(a)) }},
	{"NewActiveStackStep", "ActiveStackStep", false, func(int64) interface{} { return step.NewActiveStackStep() }},
	{"NewMessageStep", "MessageStep", false, func(int64) interface{} { return step.NewMessageStep() }},
	{"NewSecureMsgStep", "SecureMsgStep", false, func(int64) interface{} { return step.NewSecureMsgStep() }},
	{"NewDBCStep", "DBCStep", false, func(int64) interface{} { return step.NewDBCStep() }},
	{"NewMessageStepX", "MessageStepX", false, func(int64) interface{} { return step.NewMessageStepX() }},
	{"NewMessageStepXWithStartTime", "MessageStepX", true, func(a int64) interface{} { return step.NewMessageStepXWithStartTime(int32(a)) }},
	{"NewSqlStep_3", "SqlStep_3", false, func(int64) interface{} { return step.NewSqlStep_3() }},
	{"NewWasService", "WasService", false, func(int64) interface{} { return service.NewWasService() }},
	{"NewAppService", "AppService", false, func(int64) interface{} { return service.NewAppService() }},
	{"NewWasService2", "WasService2", false, func(int64) interface{} { return service.NewWasService2() }},
	{"NewTxRecord", "TxRecord", false, func(int64) interface{} { return service.NewTxRecord() }},
	{"NewProfilePack", "ProfilePack", false, func(int64) interface{} { return pack.NewProfilePack() }},
	{"NewProfileStepSplitPack", "ProfileStepSplitPack", false, func(int64) interface{} { return pack.NewProfileStepSplitPack() }},
	{"NewErrorSnapPack1", "ErrorSnapPack1", false, func(int64) interface{} { return pack.NewErrorSnapPack1() }},
}

func ctorOf(name string) *ctorInfo {
	for i := range ctors {
		if ctors[i].name == name {
			return &ctors[i]
		}
	}
	return nil
}

// callMethod calls an accessor by name with an integer argument converted to the parameter's type;
// returns the result as an integer (bool → 0/1) and whether there was one.
func callMethod(o interface{}, m string, a int64) (int64, bool) {
	mv := reflect.ValueOf(o).MethodByName(m)
	if !mv.IsValid() {
		panic("harness: no method " + m)
	}
	var args []reflect.Value
	if mv.Type().NumIn() == 1 {
		pt := mv.Type().In(0)
		v := reflect.New(pt).Elem()
		switch pt.Kind() {
		case reflect.Bool:
			v.SetBool(a != 0)
		case reflect.Uint8:
			v.SetUint(uint64(byte(a)))
		default:
			v.SetInt(a)
		}
		args = []reflect.Value{v}
	}
	outs := mv.Call(args)
	if len(outs) == 0 {
		return 0, false
	}
	switch outs[0].Kind() {
	case reflect.Bool:
		if outs[0].Bool() {
			return 1, true
		}
		return 0, true
	case reflect.Uint8:
		return int64(outs[0].Uint()), true
	}
	return outs[0].Int(), true
}

var ifaceGetters = []string{"GetStepType", "GetParent", "GetIndex", "GetStartTime", "GetElapsed"}

func callsText(cs []apiCall) string {
	if len(cs) == 0 {
		return "-"
	}
	p := make([]string, len(cs))
	for i, c := range cs {
		p[i] = fmt.Sprintf("%s!%d", c.M, c.A)
	}
	return strings.Join(p, ",")
}

// runApi: one object made by `ctor(arg)`, the fields of rec assigned, then the accessor calls.
func (c *ctx) runApi(ctor string, arg int64, rec string, calls []apiCall) {
	rep := c.rep
	ci := ctorOf(ctor)
	if ci == nil {
		vh.Die("api: unknown constructor %s", ctor)
	}
	s := specOf(ci.typ)
	rc := replayCase{Op: "api", Items: []replayItem{{ci.typ, rec}}, Ctor: ctor, CtorArg: arg, Calls: calls}
	rep.Case("api "+ctor+fmt.Sprint(arg)+" "+rec+" "+callsText(calls), true)
	rep.Count("api:" + ci.typ)
	var o interface{}
	if oc := vh.Guard(func() { o = ci.mk(arg); assignFrom(o, s, rec) }); !oc.OK() {
		rep.Fail("property", ctor+":panic", vh.Clip(oc.Panic, 100), rc)
		return
	}
	// shadow of what the setters were given (the property evaluated directly: get-after-set)
	shadow := map[string]int64{}
	var flags byte
	ownFlags := ci.typ == "SqlStep_3" // its own IsTrue/SetTrue work on the wire field Opt
	if oc := vh.Guard(func() {
		for _, g := range []string{"Parent", "Index", "StartTime", "Drop"} {
			shadow[g], _ = callMethod(o, "Get"+g, 0)
		}
		tr := dumpTransient(o, s)
		if ownFlags {
			fmt.Sscanf(dump(o, s)["Opt"], "i%d", &flags)
		} else {
			fmt.Sscanf(tr["AbstractStep.Opt"], "i%d", &flags)
		}
	}); !oc.OK() {
		rep.Fail("property", ci.typ+".Get:panic", vh.Clip(oc.Panic, 100), rc)
		return
	}
	var rets []string
	propOK := true
	for k, cl := range calls {
		rep.Count("api-call:" + cl.M)
		before, _ := encode(s, o)
		var ret int64
		var has bool
		if oc := vh.Guard(func() { ret, has = callMethod(o, cl.M, cl.A) }); !oc.OK() {
			rep.Fail("property", ci.typ+"."+cl.M+":panic", fmt.Sprintf("call %d: %s", k, vh.Clip(oc.Panic, 100)), rc)
			return
		}
		rets = append(rets, fmt.Sprint(ret))
		after, _ := encode(s, o)
		switch {
		case strings.HasPrefix(cl.M, "Set") && cl.M != "SetTrue":
			v := cl.A
			if cl.M == "SetDrop" && v != 0 {
				v = 1
			}
			shadow[cl.M[3:]] = v
		case cl.M == "SetTrue":
			flags |= byte(cl.A)
		case cl.M == "IsTrue":
			want := int64(0)
			if flags&byte(cl.A) != 0 {
				want = 1
			}
			if ret != want {
				propOK = false
				rep.Fail("property", ci.typ+".IsTrue:get-after-set", fmt.Sprintf("call %d: IsTrue(%d) = %d after the flags %d were set", k, cl.A, ret, flags), rc)
			}
		case cl.M == "GetElapsed":
		case strings.HasPrefix(cl.M, "Get") && has:
			if want := shadow[cl.M[3:]]; ret != want {
				propOK = false
				rep.Fail("property", ci.typ+"."+cl.M+":get-after-set", fmt.Sprintf("call %d: %s() = %d, the last value set is %d", k, cl.M, ret, want), rc)
			}
		}
		// getters, bit tests and the process-local flags never change what the step writes
		transient := cl.M == "SetDrop" || (cl.M == "SetTrue" && !ownFlags)
		if (strings.HasPrefix(cl.M, "Get") || cl.M == "IsTrue" || transient) && !bytes.Equal(before, after) {
			propOK = false
			rep.Fail("property", ci.typ+"."+cl.M+":changes-encoding", fmt.Sprintf("call %d: the step writes %s before and %s after %s(%d)", k, vh.Clip(vh.Hex(before), 50), vh.Clip(vh.Hex(after), 50), cl.M, cl.A), rc)
		}
	}
	// the decoded step shows the same through the interface getters
	b, oc := encode(s, o)
	if !oc.OK() {
		rep.Fail("property", ci.typ+".Write:panic", vh.Clip(oc.Panic, 100), rc)
		return
	}
	d := decodeOne(s, b)
	if !d.oc.OK() {
		propOK = false
		rep.Fail("property", ci.typ+".Read:panic", vh.Clip(d.oc.Panic, 100), rc)
	} else {
		for _, g := range ifaceGetters {
			var w, r int64
			if oc := vh.Guard(func() { w, _ = callMethod(o, g, 0); r, _ = callMethod(d.obj, g, 0) }); !oc.OK() {
				rep.Fail("property", ci.typ+"."+g+":panic", vh.Clip(oc.Panic, 100), rc)
				continue
			}
			if w != r {
				propOK = false
				rep.Fail("property", ci.typ+"."+g+":after-roundtrip", fmt.Sprintf("%s() is %d on the written step and %d on the decoded one", g, w, r), rc)
			}
		}
		if d.consumed != len(b) {
			propOK = false
			rep.Fail("property", ci.typ+":consumed", fmt.Sprintf("decoder consumed %d of %d bytes", d.consumed, len(b)), rc)
		}
	}
	tr := dumpTransient(o, s)
	hl := 0
	if s.fam == "step" {
		hl = 1 // the model's AC answers the body; WriteStep puts the type byte in front
	}
	c.ask(fmt.Sprintf("AC %s %d %s %s", ctor, arg, rec, callsText(calls)), func(ans string) {
		if !propOK {
			return
		}
		parts := strings.Split(ans, " ")
		if len(parts) != 5 || parts[0] != "ok" {
			rep.Fail("correspondence", ci.typ+":api-model", "model: "+vh.Clip(ans, 80), rc)
			return
		}
		want := "-"
		if len(rets) > 0 {
			want = strings.Join(rets, ",")
		}
		if parts[1] != want {
			rep.Fail("correspondence", ci.typ+":api-returns", fmt.Sprintf("model returns %s, implementation %s", vh.Clip(parts[1], 60), vh.Clip(want, 60)), rc)
		}
		if parts[2] != vh.Hex(b[hl:]) {
			rep.Fail("correspondence", ci.typ+":api-bytes", fmt.Sprintf("model bytes %s, implementation %s", vh.Clip(parts[2], 60), vh.Clip(vh.Hex(b[hl:]), 60)), rc)
		}
		if parts[3] != tr["AbstractStep.Drop"] || parts[4] != tr["AbstractStep.Opt"] {
			rep.Fail("correspondence", ci.typ+":api-transient", fmt.Sprintf("model Drop/Opt %s %s, implementation %s %s", parts[3], parts[4], tr["AbstractStep.Drop"], tr["AbstractStep.Opt"]), rc)
		}
	})
}

// checkCtor: what a constructor returns, against the model; and the fresh object round-trips.
func (c *ctx) checkCtor(ctor string, arg int64) {
	rep := c.rep
	ci := ctorOf(ctor)
	s := specOf(ci.typ)
	rc := replayCase{Op: "ctor", Ctor: ctor, CtorArg: arg}
	rep.Case(fmt.Sprintf("ctor %s %d", ctor, arg), true)
	rep.Count("ctor:" + ctor)
	var o interface{}
	if oc := vh.Guard(func() { o = ci.mk(arg) }); !oc.OK() || o == nil || reflect.ValueOf(o).IsNil() {
		rep.Fail("property", ctor+":panic", "constructor panicked or returned nil: "+vh.Clip(oc.Panic, 100), rc)
		return
	}
	if got := reflect.TypeOf(o).Elem().Name(); got != ci.typ {
		rep.Fail("property", ctor+":type", "constructs a "+got, rc)
		return
	}
	m := dump(o, s)
	c.ask(fmt.Sprintf("FR %s %d", ctor, arg), func(ans string) {
		parts := strings.Split(ans, " ")
		if len(parts) != 3 || parts[0] != "ok" || parts[1] != ci.typ {
			rep.Fail("correspondence", ctor+":fresh-model", "model: "+vh.Clip(ans, 80), rc)
			return
		}
		if ci.typ == "ProfilePack" { // Transaction is nil: only Steps is there to compare
			mm := parseRec(parts[2])
			if mm["Steps"] != m["Steps"] {
				rep.Fail("correspondence", ctor+":fresh-object", "Steps differ", rc)
			}
			return
		}
		if bad := diffFields(parseRec(parts[2]), m); len(bad) > 0 {
			rep.Fail("correspondence", ctor+":fresh-object", "the constructor's object differs from the model's in "+strings.Join(bad, ","), rc)
		}
	})
	if ci.typ != "ProfilePack" { // a fresh ProfilePack has no transaction record to write
		c.checkSingle(s, o, nil)
	}
}

// checkTxObject: TxRecord.ToBytes / ToObject, into a new record and into a used one, with bytes following.
func (c *ctx) checkTxObject(t, used *service.TxRecord, rest []byte) {
	rep := c.rep
	s := specOf("TxRecord")
	m := dump(t, s)
	prior := dump(used, s)
	rc := replayCase{Op: "txobj", Items: []replayItem{{"TxRecord", replayRec(t, s)}, {"TxRecord", replayRec(used, s)}}, Rest: vh.Hex(rest)}
	rep.Case("txobj "+recText(m)+" into "+recText(prior)+" rest "+vh.Hex(rest), true)
	rep.Count("txobj")
	var b []byte
	if oc := vh.Guard(func() { b = t.ToBytes() }); !oc.OK() {
		rep.Fail("property", "TxRecord.ToBytes:panic", vh.Clip(oc.Panic, 100), rc)
		return
	}
	if w, _ := encode(s, t); !bytes.Equal(w, b) {
		rep.Fail("property", "TxRecord.ToBytes:differs-from-Write", fmt.Sprintf("ToBytes %s, Write %s", vh.Clip(vh.Hex(b), 50), vh.Clip(vh.Hex(w), 50)), rc)
	}
	full := append(append([]byte{}, b...), rest...)
	propOK := true
	fresh := service.NewTxRecord()
	var ret *service.TxRecord
	if oc := vh.Guard(func() { ret = fresh.ToObject(full) }); !oc.OK() {
		propOK = false
		rep.Fail("property", "TxRecord.ToObject:panic", vh.Clip(oc.Panic, 100), rc)
	} else {
		if ret != fresh {
			propOK = false
			rep.Fail("property", "TxRecord.ToObject:returns-other-object", "ToObject does not return its receiver", rc)
		}
		if bad := diffFields(carried("TxRecord", m), dump(fresh, s)); len(bad) > 0 {
			propOK = false
			for _, f := range bad {
				rep.Fail("property", "TxRecord."+f+":toobject-roundtrip", fmt.Sprintf("field %s: wrote %s, ToObject gives %s", f, vh.Clip(m[f], 50), vh.Clip(dump(fresh, s)[f], 50)), rc)
			}
		}
	}
	var got map[string]string
	if oc := vh.Guard(func() { used.ToObject(full) }); !oc.OK() {
		propOK = false
		rep.Fail("property", "TxRecord.ToObject:panic", "into a used record: "+vh.Clip(oc.Panic, 100), rc)
	} else {
		got = dump(used, s)
	}
	c.ask("TB "+recText(m), func(ans string) {
		if ans != vh.Hex(b) {
			rep.Fail("correspondence", "TxRecord.ToBytes:bytes", fmt.Sprintf("model %s, implementation %s", vh.Clip(ans, 60), vh.Clip(vh.Hex(b), 60)), rc)
		}
	})
	c.ask("TO "+recText(prior)+" "+vh.Hex(full), func(ans string) {
		if !propOK {
			return
		}
		if !strings.HasPrefix(ans, "ok ") {
			rep.Fail("correspondence", "TxRecord.ToObject:model", "model: "+vh.Clip(ans, 80), rc)
			return
		}
		if bad := diffFields(parseRec(ans[3:]), got); len(bad) > 0 {
			rep.Fail("correspondence", "TxRecord.ToObject:fields", "ToObject into a used record: model and implementation differ in "+strings.Join(bad, ","), rc)
		}
	})
}

// checkVer0: MessageStepX.WriteVer0 / ReadVer0 called directly; CtrToJson.
func (c *ctx) checkVer0(p, used *step.MessageStepX) {
	rep := c.rep
	s := specOf("MessageStepX")
	m := dump(p, s)
	prior := dump(used, s)
	rc := replayCase{Op: "ver0", Items: []replayItem{{"MessageStepX", replayRec(p, s)}, {"MessageStepX", replayRec(used, s)}}}
	rep.Case("ver0 "+recText(m)+" into "+recText(prior), true)
	rep.Count("ver0")
	var w []byte
	if oc := vh.Guard(func() { w = p.WriteVer0() }); !oc.OK() {
		rep.Fail("property", "MessageStepX.WriteVer0:panic", vh.Clip(oc.Panic, 100), rc)
		return
	}
	w = append([]byte{}, w...)
	// Write = AbstractStep, version byte 0, WriteVer0() as a blob
	full, _ := encode(s, p)
	exp := gio.NewDataOutputX()
	p.AbstractStep.Write(exp)
	exp.WriteByte(0)
	exp.WriteBlob(w)
	if !bytes.Equal(full, exp.ToByteArray()) {
		rep.Fail("property", "MessageStepX.Write:not-ver0-blob", fmt.Sprintf("Write gives %s, header+0+blob(WriteVer0) %s", vh.Clip(vh.Hex(full), 50), vh.Clip(vh.Hex(exp.ToByteArray()), 50)), rc)
	}
	propOK := true
	var got map[string]string
	if oc := vh.Guard(func() { used.ReadVer0(w) }); !oc.OK() {
		propOK = false
		rep.Fail("property", "MessageStepX.ReadVer0:panic", vh.Clip(oc.Panic, 100), rc)
	} else {
		got = dump(used, s)
		for _, f := range []string{"Title", "Desc", "Ctr", "Attr"} {
			want := m[f]
			if f == "Attr" && m[f] == "n" {
				want = prior[f] // nothing written: the reader leaves what the object held
			}
			if got[f] != want {
				propOK = false
				rep.Fail("property", "MessageStepX."+f+":readver0-roundtrip", fmt.Sprintf("wrote %s, expected %s, read %s", vh.Clip(m[f], 50), vh.Clip(want, 50), vh.Clip(got[f], 50)), rc)
			}
		}
		for _, f := range []string{"Parent", "Index", "StartTime"} {
			if got[f] != prior[f] {
				propOK = false
				rep.Fail("property", "MessageStepX."+f+":readver0-touches-header", "ReadVer0 changed a field that is not in the version-0 body", rc)
			}
		}
	}
	// CtrToJson: the decoded step answers what the written one answers; the key is there iff bit 1 is set
	keysOf := func(x *step.MessageStepX) string {
		var ks []string
		for k, v := range x.CtrToJson() {
			if b, ok := v.(bool); ok && b {
				ks = append(ks, k)
			} else {
				ks = append(ks, k+"=?")
			}
		}
		sort.Strings(ks)
		if len(ks) == 0 {
			return "-"
		}
		return strings.Join(ks, ",")
	}
	var kp string
	if oc := vh.Guard(func() { kp = keysOf(p) }); !oc.OK() {
		rep.Fail("property", "MessageStepX.CtrToJson:panic", vh.Clip(oc.Panic, 100), rc)
		return
	}
	wantKeys := "-"
	if p.Ctr&1 != 0 {
		wantKeys = "SINGLE_LINE_DISPLAY"
	}
	if kp != wantKeys {
		rep.Fail("property", "MessageStepX.CtrToJson:bit", fmt.Sprintf("Ctr=%d: CtrToJson has keys %s", p.Ctr, kp), rc)
	}
	if d := decodeOne(s, full); d.oc.OK() {
		if kd := keysOf(d.obj.(*step.MessageStepX)); kd != kp {
			rep.Fail("property", "MessageStepX.CtrToJson:after-roundtrip", fmt.Sprintf("written step: %s, decoded step: %s", kp, kd), rc)
		}
	}
	c.ask("V0W "+recText(m), func(ans string) {
		if ans != vh.Hex(w) {
			rep.Fail("correspondence", "MessageStepX.WriteVer0:bytes", fmt.Sprintf("model %s, implementation %s", vh.Clip(ans, 60), vh.Clip(vh.Hex(w), 60)), rc)
		}
	})
	c.ask("V0R "+recText(prior)+" "+vh.Hex(w), func(ans string) {
		if !propOK {
			return
		}
		if !strings.HasPrefix(ans, "ok ") {
			rep.Fail("correspondence", "MessageStepX.ReadVer0:model", "model: "+vh.Clip(ans, 80), rc)
			return
		}
		if bad := diffFields(parseRec(ans[3:]), got); len(bad) > 0 {
			rep.Fail("correspondence", "MessageStepX.ReadVer0:fields", "model and implementation differ in "+strings.Join(bad, ","), rc)
		}
	})
	c.ask("CJ "+recText(m), func(ans string) {
		if ans != kp {
			rep.Fail("correspondence", "MessageStepX.CtrToJson:keys", fmt.Sprintf("model %s, implementation %s", ans, kp), rc)
		}
	})
}

// checkToString: ProfileStepSplitPack.ToString (implementation only): no panic, does not change the
// pack, names the chunk index and the number of step bytes.
func (c *ctx) checkToString(p *pack.ProfileStepSplitPack) {
	rep := c.rep
	s := specOf("ProfileStepSplitPack")
	rc := replayCase{Op: "tostring", Items: []replayItem{{s.name, replayRec(p, s)}}}
	rep.Case("tostring "+replayRec(p, s), true)
	rep.Count("tostring")
	before, _ := encode(s, p)
	var str string
	if oc := vh.Guard(func() { str = p.ToString() }); !oc.OK() {
		rep.Fail("property", "ProfileStepSplitPack.ToString:panic", vh.Clip(oc.Panic, 100), rc)
		return
	}
	after, _ := encode(s, p)
	if !bytes.Equal(before, after) {
		rep.Fail("property", "ProfileStepSplitPack.ToString:changes-object", "the pack writes other bytes after ToString()", rc)
	}
	if !strings.Contains(str, fmt.Sprintf(" inx=%d", p.Inx)) || !strings.HasSuffix(str, fmt.Sprintf(" step_bytes=%d", len(p.Steps))) {
		rep.Fail("property", "ProfileStepSplitPack.ToString:content", "ToString() = "+vh.Clip(str, 120), rc)
	}
}

// checkMixed: steps, service records and untagged records on ONE output, read back from ONE input.
func (c *ctx) checkMixed(items []item, rest []byte) {
	rep := c.rep
	rc := replayCase{Op: "mixed", Rest: vh.Hex(rest)}
	kindOf := func(s *spec) string {
		switch s.fam {
		case "step":
			return "S"
		case "svc":
			return "V"
		}
		return "P"
	}
	var elems, schema []string
	var recs []map[string]string
	var encs [][]byte
	out := gio.NewDataOutputX()
	oc := vh.Guard(func() {
		for _, it := range items {
			it.s.enc(it.o, out)
		}
	})
	for _, it := range items {
		m := dump(it.o, it.s)
		recs = append(recs, m)
		rc.Items = append(rc.Items, replayItem{it.s.name, replayRec(it.o, it.s)})
		k := kindOf(it.s)
		elems = append(elems, fmt.Sprintf("%s:%d:%s:%s", k, it.s.code, it.s.name, recText(m)))
		if k == "P" {
			schema = append(schema, "P:"+it.s.name)
		} else {
			schema = append(schema, k)
		}
		b, _ := encode(it.s, it.o)
		encs = append(encs, b)
		rep.Count("mixed-elem:" + it.s.name)
	}
	rep.Case("mixed "+strings.Join(elems, "|")+" rest "+vh.Hex(rest), true)
	rep.Count(fmt.Sprintf("mixed-len:%d", len(items)))
	if !oc.OK() {
		rep.Fail("property", "mixed:write-panic", vh.Clip(oc.Panic, 100), rc)
		return
	}
	b := append([]byte{}, out.ToByteArray()...)
	sum := 0
	for _, e := range encs {
		sum += len(e)
	}
	if sum != len(b) {
		rep.Fail("property", "mixed:not-concatenation", fmt.Sprintf("the output has %d bytes, the elements alone %d", len(b), sum), rc)
	}
	full := append(append([]byte{}, b...), rest...)
	in := gio.NewDataInputX(full)
	propOK := true
	type one struct {
		m    map[string]string
		cons int
	}
	var outs []one
	for k, it := range items {
		before := int(in.Available())
		var o interface{}
		if oc := vh.Guard(func() { o = it.s.dec(in) }); !oc.OK() {
			propOK = false
			rep.Fail("property", it.s.name+".Read:panic", fmt.Sprintf("element %d of a mixed stream: %s", k, vh.Clip(oc.Panic, 100)), rc)
			break
		}
		if reflect.TypeOf(o) != reflect.TypeOf(it.o) {
			propOK = false
			rep.Fail("property", it.s.name+":concrete-type", fmt.Sprintf("element %d of a mixed stream read as %T", k, o), rc)
			break
		}
		got := dump(o, it.s)
		cons := before - int(in.Available())
		outs = append(outs, one{got, cons})
		if bad := diffFields(carried(it.s.name, recs[k]), got); len(bad) > 0 {
			propOK = false
			for _, f := range bad {
				rep.Fail("property", it.s.name+"."+f+":roundtrip", fmt.Sprintf("element %d of a mixed stream, field %s: wrote %s read %s", k, f, vh.Clip(recs[k][f], 50), vh.Clip(got[f], 50)), rc)
			}
		}
		if cons != len(encs[k]) {
			propOK = false
			rep.Fail("property", it.s.name+":consumed", fmt.Sprintf("element %d of a mixed stream consumed %d bytes, its encoding has %d", k, cons, len(encs[k])), rc)
			break
		}
	}
	if propOK && int(in.Available()) != len(rest) {
		propOK = false
		rep.Fail("property", "mixed:rest", fmt.Sprintf("%d bytes left, %d followed the stream", in.Available(), len(rest)), rc)
	}
	c.ask("EM "+strings.Join(elems, "|"), func(ans string) {
		if ans != vh.Hex(b) {
			rep.Fail("correspondence", "mixed:bytes", fmt.Sprintf("model %s, implementation %s", vh.Clip(ans, 60), vh.Clip(vh.Hex(b), 60)), rc)
		}
	})
	c.ask("DM "+strings.Join(schema, ",")+" "+vh.Hex(full), func(ans string) {
		if !propOK {
			return
		}
		if !strings.HasPrefix(ans, "ok ") {
			rep.Fail("correspondence", "mixed:model-decode", "model: "+vh.Clip(ans, 80), rc)
			return
		}
		sp := strings.LastIndex(ans, " ")
		parts := strings.Split(ans[3:sp], "|")
		if len(parts) != len(outs) || ans[sp+1:] != fmt.Sprint(len(rest)) {
			rep.Fail("correspondence", "mixed:model-count", fmt.Sprintf("model decodes %d elements and leaves %s bytes; implementation %d and %d", len(parts), ans[sp+1:], len(outs), len(rest)), rc)
			return
		}
		for k, p := range parts {
			i := strings.Index(p, ":")
			j := strings.LastIndex(p, "@")
			var cons int
			fmt.Sscanf(p[j+1:], "%d", &cons)
			if cons != outs[k].cons {
				rep.Fail("correspondence", items[k].s.name+":model-consumed", fmt.Sprintf("element %d: model consumed %d, implementation %d", k, cons, outs[k].cons), rc)
				return
			}
			if bad := diffFields(parseRec(p[i+1:j]), outs[k].m); len(bad) > 0 {
				rep.Fail("correspondence", items[k].s.name+":decoded-fields", fmt.Sprintf("element %d of a mixed stream: model and implementation decode differently: %s", k, strings.Join(bad, ",")), rc)
				return
			}
		}
	})
}

// ---------------------------------------------------------------- generators

func genCalls(r *vh.Rng, typ string, n int) []apiCall {
	own := typ == "SqlStep_3"
	var cs []apiCall
	for i := 0; i < n; i++ {
		switch r.Intn(12) {
		case 0:
			cs = append(cs, apiCall{"SetParent", genInt(r, 32)}, apiCall{"GetParent", 0})
		case 1:
			cs = append(cs, apiCall{"SetIndex", genInt(r, 32)})
		case 2:
			cs = append(cs, apiCall{"SetStartTime", genInt(r, 32)})
		case 3:
			cs = append(cs, apiCall{"SetDrop", int64(r.Intn(2))})
		case 4, 5:
			k := int64(r.PickInt([]int{0, 1, 2, 3, 4, 128, 255}))
			if !own && r.Chance(30) {
				k = int64(r.PickInt([]int{256, 258, 511, -1, -256, 65536 + 2}))
			}
			cs = append(cs, apiCall{"SetTrue", k})
		case 6, 7:
			k := int64(r.PickInt([]int{0, 1, 2, 4, 7, 128, 255}))
			if !own && r.Chance(20) {
				k = int64(r.PickInt([]int{256, 258, -1}))
			}
			cs = append(cs, apiCall{"IsTrue", k})
		case 8:
			cs = append(cs, apiCall{"GetElapsed", 0})
		default:
			cs = append(cs, apiCall{r.PickStr([]string{"GetParent", "GetIndex", "GetStartTime", "GetDrop"}), 0})
		}
	}
	return cs
}

func genApi(c *ctx, r *vh.Rng) {
	mult := 1
	if c.env.Thorough {
		mult = 6
	}
	// accessor histories on objects of every step type, made by each of its constructors
	for _, ci := range ctors {
		s := specOf(ci.typ)
		if s.fam != "step" && s.fam != "unreg" {
			continue
		}
		for i := 0; i < 25*mult; i++ {
			arg := int64(0)
			if ci.hasArg {
				arg = genInt(r, 32)
				if ci.name == "NewHttpcStepXVersion" {
					arg = int64(r.PickInt([]int{0, 1, 2, 3, 255}))
				}
			}
			rec := "-"
			if i%4 != 0 { // mostly on a populated object (fields assigned after construction)
				rec = replayRec(newFilled(r, s, false), s)
			}
			c.runApi(ci.name, arg, rec, genCalls(r, ci.typ, r.Intn(9)))
		}
	}
	// every constructor
	for _, ci := range ctors {
		args := []int64{0}
		switch ci.name {
		case "NewHttpcStepXVersion":
			args = []int64{0, 1, 2, 3, 127, 128, 255}
		case "NewMessageStepXWithStartTime":
			args = []int64{0, 1, -1, 2147483647, -2147483648, genInt(r, 32)}
		}
		for _, a := range args {
			c.checkCtor(ci.name, a)
		}
	}
	// TxRecord.ToBytes / ToObject
	txs := specOf("TxRecord")
	for i := 0; i < 64*mult; i++ {
		t := newFilled(r, txs, false).(*service.TxRecord)
		shapeTx(r, t, i%32)
		used := service.NewTxRecord()
		if r.Chance(70) {
			used = newFilled(r, txs, false).(*service.TxRecord)
			shapeTx(r, used, r.Intn(32))
		}
		var rest []byte
		if r.Bool() {
			rest = r.Bytes(1 + r.Intn(6))
		}
		c.checkTxObject(t, used, rest)
	}
	// MessageStepX.WriteVer0 / ReadVer0 / CtrToJson
	ms := specOf("MessageStepX")
	for i := 0; i < 60*mult; i++ {
		p := newFilled(r, ms, false).(*step.MessageStepX)
		if r.Bool() {
			p.SetCtr(step.SINGLE_LINE_DISPLAY)
		}
		used := step.NewMessageStepX()
		if r.Chance(60) {
			used = newFilled(r, ms, false).(*step.MessageStepX)
		}
		c.checkVer0(p, used)
	}
	// ProfileStepSplitPack.ToString
	ps := specOf("ProfileStepSplitPack")
	for i := 0; i < 20*mult; i++ {
		p := newFilled(r, ps, false).(*pack.ProfileStepSplitPack)
		if r.Bool() {
			p.SetProfile(stepsOf(genSteps(r, r.Intn(4))))
		}
		// the time stamp goes through util/dateutil's day table (not this property's subject): a plausible time
		p.Time = 1500000000000 + r.Range(0, 400000000000)
		c.checkToString(p)
	}
	// mixed streams
	var pool []*spec
	for _, s := range specs {
		if s.fam != "pack" { // a pack starts with its header (C03); inside a stream it is the pack reader's business
			pool = append(pool, s)
		}
	}
	for i := 0; i < 150*mult; i++ {
		n := 2 + r.Intn(7)
		items := make([]item, n)
		for k := range items {
			s := pool[r.Intn(len(pool))]
			items[k] = item{s, newFilled(r, s, false)}
			if t, ok := items[k].o.(*service.TxRecord); ok {
				shapeTx(r, t, r.Intn(32))
			}
		}
		var rest []byte
		if r.Chance(40) {
			rest = r.Bytes(1 + r.Intn(5))
		}
		c.checkMixed(items, rest)
	}
}

func replayApi(c *ctx, rc replayCase, items []item) {
	switch rc.Op {
	case "api":
		c.runApi(rc.Ctor, rc.CtorArg, rc.Items[0].Rec, rc.Calls)
	case "ctor":
		c.checkCtor(rc.Ctor, rc.CtorArg)
	case "txobj":
		c.checkTxObject(items[0].o.(*service.TxRecord), items[1].o.(*service.TxRecord), vh.UnHex(rc.Rest))
	case "ver0":
		c.checkVer0(items[0].o.(*step.MessageStepX), items[1].o.(*step.MessageStepX))
	case "tostring":
		c.checkToString(items[0].o.(*pack.ProfileStepSplitPack))
	case "mixed":
		c.checkMixed(items, vh.UnHex(rc.Rest))
	}
}
