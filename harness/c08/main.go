// Correspondence + direct-property harness for C08: lang/step, lang/service (TxRecord, services) and the
// profile-carrying packs against the Lean CodeModel Golib.Step.* (driver drv_c08).
//
// For every generated object the property is evaluated directly on the implementation
// (encode → decode → compare with the carried projection, exact consumption, no panic);
// the bytes and the decoded fields are also compared with the model.
package main

import (
	"bytes"
	"fmt"
	"reflect"
	"sort"
	"strings"

	gio "github.com/whatap/golib/io"
	"github.com/whatap/golib/lang/pack"
	"github.com/whatap/golib/lang/service"
	"github.com/whatap/golib/lang/step"
	"verif/harness/vh"
)

// ---------------------------------------------------------------- type table

type spec struct {
	name string
	code int
	fam  string // step | unreg | svc | single | pack
	mk   func() interface{}
	enc  func(o interface{}, out *gio.DataOutputX)
	dec  func(in *gio.DataInputX) interface{}
}

type writer interface{ Write(out *gio.DataOutputX) }

func encStep(o interface{}, out *gio.DataOutputX) { step.WriteStep(out, o.(step.Step)) }
func decStep(in *gio.DataInputX) interface{}      { return step.ReadStep(in) }
func encSvc(o interface{}, out *gio.DataOutputX)  { service.ToBytes(o.(service.Service), out) }
func decSvc(in *gio.DataInputX) interface{}       { return service.ToObject(in) }
func encPlain(o interface{}, out *gio.DataOutputX) { o.(writer).Write(out) }

var specs = []*spec{
	{"MethodStepX", step.STEP_METHOD_X, "step", func() interface{} { return step.NewMethodStepX() }, encStep, decStep},
	{"SqlStepX", step.STEP_SQL_X, "step", func() interface{} { return step.NewSqlStepX() }, encStep, decStep},
	{"ResultSetStep", step.STEP_RESULTSET, "step", func() interface{} { return step.NewResultSetStep() }, encStep, decStep},
	{"SocketStep", step.STEP_SOCKET, "step", func() interface{} { return step.NewSocketStep() }, encStep, decStep},
	{"HttpcStepX", step.STEP_HTTPCALL_X, "step", func() interface{} { return step.NewHttpcStepX() }, encStep, decStep},
	{"ActiveStackStep", step.STEP_ACTIVE_STACK, "step", func() interface{} { return step.NewActiveStackStep() }, encStep, decStep},
	{"MessageStep", step.STEP_MESSAGE, "step", func() interface{} { return step.NewMessageStep() }, encStep, decStep},
	{"SecureMsgStep", step.STEP_SECURE_MESSAGE, "step", func() interface{} { return step.NewSecureMsgStep() }, encStep, decStep},
	{"DBCStep", step.STEP_DBC, "step", func() interface{} { return step.NewDBCStep() }, encStep, decStep},

	{"MessageStepX", step.STEP_MESSAGE_X, "unreg", func() interface{} { return step.NewMessageStepX() }, encPlain,
		func(in *gio.DataInputX) interface{} { p := step.NewMessageStepX(); p.Read(in); return p }},
	{"SqlStep_3", step.STEP_SQL_X, "unreg", func() interface{} { return step.NewSqlStep_3() }, encPlain,
		func(in *gio.DataInputX) interface{} { p := step.NewSqlStep_3(); p.Read(in); return p }},

	{"WasService", service.SERVICE_WAS, "svc", func() interface{} { return service.NewWasService() }, encSvc, decSvc},
	{"AppService", service.SERVICE_APP, "svc", func() interface{} { return service.NewAppService() }, encSvc, decSvc},
	{"WasService2", service.SERVICE_WAS_2, "svc", func() interface{} { return service.NewWasService2() }, encSvc, decSvc},

	{"TxRecord", 0, "single", func() interface{} { return service.NewTxRecord() }, encPlain,
		func(in *gio.DataInputX) interface{} { return service.NewTxRecord().Read(in) }},

	{"ProfilePack", 0, "pack", func() interface{} { p := pack.NewProfilePack(); p.Transaction = service.NewTxRecord(); return p }, encPlain,
		func(in *gio.DataInputX) interface{} { p := pack.NewProfilePack(); p.Read(in); return p }},
	{"ProfileStepSplitPack", 0, "pack", func() interface{} { return pack.NewProfileStepSplitPack() }, encPlain,
		func(in *gio.DataInputX) interface{} { p := pack.NewProfileStepSplitPack(); p.Read(in); return p }},
	{"ErrorSnapPack1", 0, "pack", func() interface{} { return pack.NewErrorSnapPack1() }, encPlain,
		func(in *gio.DataInputX) interface{} { p := pack.NewErrorSnapPack1(); p.Read(in); return p }},
}

func specOf(name string) *spec {
	for _, s := range specs {
		if s.name == name {
			return s
		}
	}
	return nil
}

var stepSpecs []*spec

func init() {
	for _, s := range specs {
		if s.fam == "step" {
			stepSpecs = append(stepSpecs, s)
		}
	}
}

// ---------------------------------------------------------------- the carried projection (oracle of the property)

func zeroOf(v string) string {
	switch v[0] {
	case 'i':
		return "i0"
	case 'x':
		return "x-"
	case 'a':
		return "a-"
	}
	return "n"
}

// carried maps the fields of a written object to the fields a correct reader restores into a fresh object.
func carried(typ string, m map[string]string) map[string]string {
	c := map[string]string{}
	for k, v := range m {
		c[k] = v
	}
	z := func(names ...string) {
		for _, n := range names {
			if v, ok := c[n]; ok {
				c[n] = zeroOf(v)
			}
		}
	}
	switch typ {
	case "HttpcStepX":
		if c["Version"] != "i2" { // version 1 carries a placeholder, other versions nothing
			z("StepId", "Driver", "OriginUrl", "Param")
		}
	case "SqlStep_3":
		var opt int
		fmt.Sscanf(c["Opt"], "i%d", &opt)
		if opt&1 == 0 {
			z("P1", "P2", "Pcrc")
		}
		if opt&2 == 0 {
			z("StartCpu", "Cpu", "StartMem", "Mem")
		}
		if opt&4 == 0 {
			z("Stack")
		}
	case "TxRecord", "ProfilePack":
		if c["Mtid"] == "i0" {
			z("Mdepth", "Mcaller")
		}
		if c["McallerPcode"] == "i0" {
			z("McallerOkind", "McallerOid", "McallerSpec", "McallerUrl", "MthisSpec")
		}
		if c["Fields"] == "m-" { // an empty map is written as count 0 and read back as nil
			c["Fields"] = "n"
		}
		if f := c["Fields"]; strings.Contains(f, "~Z") { // a nil value is written as an empty TextValue
			es := strings.Split(f[1:], "&")
			for i, e := range es {
				if strings.HasSuffix(e, "~Z") {
					es[i] = e[:len(e)-1] + "T-"
				}
			}
			c["Fields"] = "m" + strings.Join(es, "&")
		}
		if c["ErrorLevel"] == "i0" && c["Error"] != "i0" { // the decoder's deliberate default
			c["ErrorLevel"] = "i20"
		}
	}
	return c
}

// ---------------------------------------------------------------- evaluation

type ctx struct {
	env   *vh.Env
	rep   *vh.Report
	lines []string
	after []func(ans string)
	sampled map[string]int
}

func (c *ctx) ask(line string, f func(ans string)) {
	c.lines = append(c.lines, line)
	c.after = append(c.after, f)
}

func encode(s *spec, o interface{}) ([]byte, vh.Outcome) {
	var b []byte
	oc := vh.Guard(func() {
		out := gio.NewDataOutputX()
		s.enc(o, out)
		b = out.ToByteArray()
	})
	return b, oc
}

type decoded struct {
	obj      interface{}
	consumed int
	oc       vh.Outcome
}

func decodeOne(s *spec, b []byte) decoded {
	var d decoded
	d.oc = vh.Guard(func() {
		in := gio.NewDataInputX(b)
		d.obj = s.dec(in)
		d.consumed = len(b) - int(in.Available())
	})
	return d
}

func diffFields(want, got map[string]string) []string {
	var bad []string
	for k, w := range want {
		if g, ok := got[k]; !ok || g != w {
			bad = append(bad, k)
		}
	}
	for k := range got {
		if _, ok := want[k]; !ok {
			bad = append(bad, k)
		}
	}
	sort.Strings(bad)
	return bad
}

type replayCase struct {
	Op    string       `json:"op"` // single | stream | history
	Fam   string       `json:"fam,omitempty"`
	Items []replayItem `json:"items"`
	Rest  string       `json:"rest,omitempty"`
	// op = history: encodings produced one after another, decoded in Order
	History []histEntry `json:"history,omitempty"`
	Order   []int       `json:"order,omitempty"`
	Mutate  bool        `json:"mutate_originals,omitempty"`
	// op = legacy: a TxRecord as an older agent wrote it
	Ver        int `json:"version_byte,omitempty"`
	MtidFlag   int `json:"mtid_flag,omitempty"`
	CallerFlag int `json:"caller_flag,omitempty"`
	// op = refill: a history of builder calls / assignments / reads on the object of Items[0]
	Refill []refillOp `json:"refill,omitempty"`
	// op = api / ctor: an object made by Ctor(CtorArg), the fields of Items[0].Rec assigned, then the accessor calls
	Ctor    string    `json:"ctor,omitempty"`
	CtorArg int64     `json:"ctor_arg,omitempty"`
	Calls   []apiCall `json:"calls,omitempty"`
}
type replayItem struct {
	Type string `json:"type"`
	Rec  string `json:"rec"`
}

// headerLen is the number of bytes of the AbstractPack header (C03's subject; the model covers the body).
func headerLen(o interface{}) int {
	out := gio.NewDataOutputX()
	switch p := o.(type) {
	case *pack.ProfilePack:
		p.AbstractPack.Write(out)
	case *pack.ProfileStepSplitPack:
		p.AbstractPack.Write(out)
	case *pack.ErrorSnapPack1:
		p.AbstractPack.Write(out)
	}
	return len(out.ToByteArray())
}

// checkSingle: one object of a type, written alone (with `rest` appended before decoding).
func (c *ctx) checkSingle(s *spec, o interface{}, rest []byte) {
	rep := c.rep
	m := dump(o, s)
	rec := recText(m)
	rc := replayCase{Op: "single", Items: []replayItem{{s.name, replayRec(o, s)}}, Rest: vh.Hex(rest)}
	rep.Case(s.name+" "+rec, true)
	rep.Count("single:" + s.name)
	if n := c.sampled[s.name]; n < 1 && (s.name == "HttpcStepX" || s.name == "TxRecord" || s.name == "MessageStepX" || s.name == "WasService" || s.name == "ProfilePack") {
		c.sampled[s.name] = n + 1
		rep.Sample(map[string]string{"op": "single", "type": s.name, "rec": vh.Clip(rec, 400), "rest": vh.Hex(rest)})
	}
	branchBuckets(rep, s.name, m)
	b, oc := encode(s, o)
	if !oc.OK() {
		rep.Fail("property", s.name+".Write:panic", "encoding panicked: "+vh.Clip(oc.Panic, 120), rc)
		return
	}
	rep.Count(sizeBucket(len(b)))
	full := append(append([]byte{}, b...), rest...)
	d := decodeOne(s, full)
	want := carried(s.name, m)
	propOK := true
	var got map[string]string
	if !d.oc.OK() {
		propOK = false
		rep.Fail("property", s.name+".Read:panic", "decoding its own encoding panicked: "+vh.Clip(d.oc.Panic, 120), rc)
	} else {
		got = dump(d.obj, s)
		if bad := diffFields(want, got); len(bad) > 0 {
			propOK = false
			for _, f := range bad {
				rep.Fail("property", s.name+"."+f+":roundtrip",
					fmt.Sprintf("field %s: wrote %s, expected back %s, read %s", f, vh.Clip(m[f], 60), vh.Clip(want[f], 60), vh.Clip(got[f], 60)), rc)
			}
		}
		if d.consumed != len(b) {
			propOK = false
			rep.Fail("property", s.name+":consumed", fmt.Sprintf("decoder consumed %d of its %d bytes (rest %d)", d.consumed, len(b), len(rest)), rc)
		}
		if !c.checkIdentity(s, o, d.obj, m, want, b, rc, "") {
			propOK = false
		}
	}
	// correspondence with the model
	hl := 0
	mname := s.name
	var line1, line2 string
	switch s.fam {
	case "step", "svc":
		line1 = fmt.Sprintf("ES %d:%s:%s", s.code, s.name, rec)
		line2 = fmt.Sprintf("DS %s %s", map[string]string{"step": "step", "svc": "svc"}[s.fam], vh.Hex(b))
	default:
		if s.fam == "pack" {
			hl = headerLen(o)
		}
		line1 = fmt.Sprintf("E1 %s %s", mname, rec)
		line2 = fmt.Sprintf("D1 %s %s", mname, vh.Hex(full[hl:]))
	}
	c.ask(line1, func(ans string) {
		if ans != vh.Hex(b[hl:]) {
			kind := "correspondence"
			rep.Fail(kind, s.name+":bytes", fmt.Sprintf("model bytes %s, implementation %s", vh.Clip(ans, 80), vh.Clip(vh.Hex(b[hl:]), 80)), rc)
		}
	})
	c.ask(line2, func(ans string) {
		if !propOK {
			return // already reported as a failure of the property itself
		}
		var mrec string
		var mrest int
		switch s.fam {
		case "step", "svc":
			// ok <code>:<rec>@<consumed>
			if !strings.HasPrefix(ans, "ok ") {
				rep.Fail("correspondence", s.name+":model-decode", "model: "+vh.Clip(ans, 80)+" where the implementation decodes", rc)
				return
			}
			body := ans[3:]
			i := strings.Index(body, ":")
			j := strings.LastIndex(body, "@")
			if i < 0 || j < 0 || strings.Contains(body, "|") {
				rep.Fail("correspondence", s.name+":model-decode", "model: "+vh.Clip(ans, 80), rc)
				return
			}
			mrec = body[i+1 : j]
			var cons int
			fmt.Sscanf(body[j+1:], "%d", &cons)
			mrest = len(b) - cons
		default:
			if !strings.HasPrefix(ans, "ok ") {
				rep.Fail("correspondence", s.name+":model-decode", "model: "+vh.Clip(ans, 80)+" where the implementation decodes", rc)
				return
			}
			parts := strings.Split(ans, " ")
			mrec = parts[1]
			fmt.Sscanf(parts[2], "%d", &mrest)
			mrest -= len(rest)
		}
		if bad := diffFields(parseRec(mrec), got); len(bad) > 0 {
			rep.Fail("correspondence", s.name+":decoded-fields", "model and implementation decode differently: "+strings.Join(bad, ","), rc)
		}
		if mrest != 0 {
			rep.Fail("correspondence", s.name+":model-consumed", fmt.Sprintf("model leaves %d bytes of the encoding unread", mrest), rc)
		}
	})
}

type item struct {
	s *spec
	o interface{}
}

// checkStream: ToBytesStep of a list of steps, decoded by ReadStep until the input is used up.
func (c *ctx) checkStream(items []item) {
	rep := c.rep
	rc := replayCase{Op: "stream", Fam: "step"}
	var steps []step.Step
	var recs []map[string]string
	var itexts []string
	var lens []int
	var encs [][]byte
	for _, it := range items {
		m := dump(it.o, it.s)
		recs = append(recs, m)
		r := recText(m)
		rc.Items = append(rc.Items, replayItem{it.s.name, replayRec(it.o, it.s)})
		itexts = append(itexts, fmt.Sprintf("%d:%s:%s", it.s.code, it.s.name, r))
		steps = append(steps, it.o.(step.Step))
		b, _ := encode(it.s, it.o)
		lens = append(lens, len(b))
		encs = append(encs, b)
		rep.Count("stream-step:" + it.s.name)
	}
	canon := strings.Join(itexts, "|")
	rep.Case(canon, true)
	if len(items) > 1 && c.sampled["stream"] < 2 {
		c.sampled["stream"]++
		rep.Sample(map[string]string{"op": "stream", "steps": fmt.Sprint(len(items)), "items": vh.Clip(canon, 400)})
	}
	for k, it := range items {
		branchBuckets(rep, it.s.name, recs[k])
	}
	rep.Count(fmt.Sprintf("stream-len:%s", lenBucket(len(items))))
	var b []byte
	oc := vh.Guard(func() { b = step.ToBytesStep(steps) })
	if !oc.OK() {
		rep.Fail("property", "ToBytesStep:panic", vh.Clip(oc.Panic, 120), rc)
		return
	}
	sum := 0
	for _, l := range lens {
		sum += l
	}
	if sum != len(b) {
		rep.Fail("property", "ToBytesStep:not-concatenation", fmt.Sprintf("stream has %d bytes, the steps alone %d", len(b), sum), rc)
	}
	// decode step by step
	type one struct {
		m    map[string]string
		typ  string
		cons int
		obj  step.Step
	}
	var outs []one
	in := gio.NewDataInputX(b)
	propOK := true
	for k := 0; in.Available() > 0 && k < len(items)+2; k++ {
		before := int(in.Available())
		var st step.Step
		oc := vh.Guard(func() { st = step.ReadStep(in) })
		if !oc.OK() {
			propOK = false
			typ := "?"
			if k < len(items) {
				typ = items[k].s.name
			}
			rep.Fail("property", typ+".Read:panic", fmt.Sprintf("ReadStep panicked at step %d of %d: %s", k, len(items), vh.Clip(oc.Panic, 100)), rc)
			break
		}
		sp := specOfObj(st)
		outs = append(outs, one{dump(st, sp), sp.name, before - int(in.Available()), st})
	}
	if propOK {
		if len(outs) != len(items) {
			propOK = false
			rep.Fail("property", "stream:count", fmt.Sprintf("wrote %d steps, read %d (the per-step comparison is skipped: the steps no longer line up)", len(items), len(outs)), rc)
		}
		for k := 0; propOK && k < len(outs) && k < len(items); k++ {
			it := items[k]
			if outs[k].typ != it.s.name {
				propOK = false
				rep.Fail("property", "Step.ReadStep:concrete-type", fmt.Sprintf("step %d written as %s read as %s", k, it.s.name, outs[k].typ), rc)
				break
			}
			if !c.checkIdentity(it.s, it.o, outs[k].obj, recs[k], carried(it.s.name, recs[k]), encs[k], rc, fmt.Sprintf("step %d of %d: ", k, len(items))) {
				propOK = false
			}
			if bad := diffFields(carried(it.s.name, recs[k]), outs[k].m); len(bad) > 0 {
				propOK = false
				for _, f := range bad {
					rep.Fail("property", it.s.name+"."+f+":roundtrip", fmt.Sprintf("step %d of %d, field %s: wrote %s read %s", k, len(items), f, vh.Clip(recs[k][f], 60), vh.Clip(outs[k].m[f], 60)), rc)
				}
			}
			if outs[k].cons != lens[k] {
				propOK = false
				rep.Fail("property", it.s.name+":consumed", fmt.Sprintf("step %d consumed %d bytes, its encoding has %d", k, outs[k].cons, lens[k]), rc)
			}
		}
	}
	c.ask("ES "+canon, func(ans string) {
		if ans != vh.Hex(b) {
			rep.Fail("correspondence", "stream:bytes", fmt.Sprintf("model bytes %s, implementation %s", vh.Clip(ans, 80), vh.Clip(vh.Hex(b), 80)), rc)
		}
	})
	c.ask("DS step "+vh.Hex(b), func(ans string) {
		if !propOK {
			return
		}
		if !strings.HasPrefix(ans, "ok ") {
			rep.Fail("correspondence", "stream:model-decode", "model: "+vh.Clip(ans, 80), rc)
			return
		}
		parts := strings.Split(ans[3:], "|")
		if len(parts) != len(outs) {
			rep.Fail("correspondence", "stream:model-count", fmt.Sprintf("model decodes %d steps, implementation %d", len(parts), len(outs)), rc)
			return
		}
		for k, p := range parts {
			i := strings.Index(p, ":")
			j := strings.LastIndex(p, "@")
			var code, cons int
			fmt.Sscanf(p[:i], "%d", &code)
			fmt.Sscanf(p[j+1:], "%d", &cons)
			if code != items[k].s.code || cons != outs[k].cons {
				rep.Fail("correspondence", items[k].s.name+":model-consumed", fmt.Sprintf("step %d: model code %d consumed %d, implementation code %d consumed %d", k, code, cons, items[k].s.code, outs[k].cons), rc)
				return
			}
			if bad := diffFields(parseRec(p[i+1:j]), outs[k].m); len(bad) > 0 {
				rep.Fail("correspondence", items[k].s.name+":decoded-fields", fmt.Sprintf("step %d: model and implementation decode differently: %s", k, strings.Join(bad, ",")), rc)
				return
			}
		}
	})
}

func specOfObj(o interface{}) *spec {
	switch o.(type) {
	case *step.MethodStepX:
		return specOf("MethodStepX")
	case *step.SqlStepX:
		return specOf("SqlStepX")
	case *step.ResultSetStep:
		return specOf("ResultSetStep")
	case *step.SocketStep:
		return specOf("SocketStep")
	case *step.HttpcStepX:
		return specOf("HttpcStepX")
	case *step.ActiveStackStep:
		return specOf("ActiveStackStep")
	case *step.MessageStep:
		return specOf("MessageStep")
	case *step.SecureMsgStep:
		return specOf("SecureMsgStep")
	case *step.DBCStep:
		return specOf("DBCStep")
	case *step.MessageStepX:
		return specOf("MessageStepX")
	case *step.SqlStep_3:
		return specOf("SqlStep_3")
	}
	return &spec{name: fmt.Sprintf("%T", o)}
}

// branchBuckets records which branch of the version / presence switches a case takes.
func branchBuckets(rep *vh.Report, typ string, m map[string]string) {
	switch typ {
	case "HttpcStepX":
		v := m["Version"]
		if v != "i1" && v != "i2" {
			v = "other"
		}
		rep.Count("httpc-version:" + v)
	case "MessageStepX":
		a := m["Attr"]
		if len(a) > 2 {
			a = "entries"
		}
		rep.Count("messagex-attr:" + a)
	case "SqlStep_3":
		var opt int
		fmt.Sscanf(m["Opt"], "i%d", &opt)
		rep.Count(fmt.Sprintf("sqlstep3-opt-bits:%d", opt&7))
	case "TxRecord", "ProfilePack":
		f := m["Fields"]
		if len(f) > 2 {
			f = "entries"
		}
		rep.Count("tx-fields:" + f)
	}
}

func sizeBucket(n int) string {
	switch {
	case n <= 253:
		return "bytes:<=253"
	case n <= 65535:
		return "bytes:<=65535"
	}
	return "bytes:>65535"
}
func lenBucket(n int) string {
	switch {
	case n == 1:
		return "1"
	case n <= 3:
		return "2-3"
	case n <= 20:
		return "4-20"
	case n <= 100:
		return "21-100"
	case n < 200:
		return "101-199"
	}
	return ">=200"
}


// ---------------------------------------------------------------- identity of the decoded object

func typeCodeOf(o interface{}) (int, bool) {
	switch x := o.(type) {
	case interface{ GetStepType() byte }:
		return int(x.GetStepType()), true
	case interface{ GetServiceType() byte }:
		return int(x.GetServiceType()), true
	case interface{ GetPackType() int16 }:
		return int(x.GetPackType()), true
	}
	return 0, false
}

func sameMap(a, b map[string]string) bool {
	if len(a) != len(b) {
		return false
	}
	for k, v := range a {
		if w, ok := b[k]; !ok || w != v {
			return false
		}
	}
	return true
}

// expectedReencoding: the bytes a decoded object must re-encode to — the original encoding, or,
// where the decoder deliberately normalises (TxRecord error level, empty field map), the encoding
// of the carried value.
func expectedReencoding(s *spec, orig interface{}, m, want map[string]string, b []byte) ([]byte, bool) {
	if sameMap(m, want) {
		return b, true
	}
	var out []byte
	oc := vh.Guard(func() {
		co := fromRec(s, recText(want))
		if s.fam == "pack" { // the header is not part of the record text
			src := reflect.ValueOf(orig).Elem().FieldByName("AbstractPack")
			dst := reflect.ValueOf(co).Elem().FieldByName("AbstractPack")
			if src.IsValid() && dst.IsValid() {
				dst.Set(src)
			}
		}
		var eo vh.Outcome
		out, eo = encode(s, co)
		if !eo.OK() {
			panic(eo.Panic)
		}
	})
	return out, oc.OK()
}

// checkIdentity: "returns the same steps / records" also means the same concrete Go type, the same
// type code, and an object that writes the same bytes again.  Returns false when something differs.
func (c *ctx) checkIdentity(s *spec, orig, dec interface{}, m, want map[string]string, b []byte, rc interface{}, where string) bool {
	rep := c.rep
	ok := true
	to, td := reflect.TypeOf(orig), reflect.TypeOf(dec)
	if to != td {
		ok = false
		key := s.name + ":concrete-type"
		switch s.fam {
		case "svc":
			key = "Service.ToObject:concrete-type"
		case "step":
			key = "Step.ReadStep:concrete-type"
		}
		rep.Fail("property", key, fmt.Sprintf("%swritten as %v, decoded as %v", where, to, td), rc)
	}
	co, ho := typeCodeOf(orig)
	cd, hd := typeCodeOf(dec)
	if ho != hd || co != cd {
		ok = false
		rep.Fail("property", s.name+":type-code", fmt.Sprintf("%sthe written object answers type code %d, the decoded one %d", where, co, cd), rc)
	}
	exp, eok := expectedReencoding(s, orig, m, want, b)
	if !eok {
		return ok // the carried value could not be rebuilt by the harness: nothing to compare with
	}
	var again []byte
	oc := vh.Guard(func() {
		out := gio.NewDataOutputX()
		switch x := dec.(type) {
		case step.Step:
			if s.fam == "step" {
				step.WriteStep(out, x)
			} else {
				x.Write(out)
			}
		case service.Service:
			service.ToBytes(x, out)
		case writer:
			x.Write(out)
		default:
			panic(fmt.Sprintf("decoded object %T cannot be written", dec))
		}
		again = out.ToByteArray()
	})
	if !oc.OK() {
		rep.Fail("property", s.name+":reencode-panic", where+"writing the decoded object panicked: "+vh.Clip(oc.Panic, 100), rc)
		return false
	}
	if !bytes.Equal(again, exp) {
		ok = false
		rep.Fail("property", s.name+":reencode-differs",
			fmt.Sprintf("%sthe decoded object writes %s, the original %s", where, vh.Clip(vh.Hex(again), 60), vh.Clip(vh.Hex(exp), 60)), rc)
	}
	return ok
}

// ---------------------------------------------------------------- main

func main() {
	env, rep := vh.Parse("C08")
	c := &ctx{env: env, rep: rep, sampled: map[string]int{}}
	rep.Rule = "objects of every step type (9 registered, 2 unregistered), 3 service types, TxRecord and 3 profile packs with reflection-filled fields " +
		"(edges of every width class, empty/nil/long strings, blobs and arrays, attribute maps; every []byte / text field of every type additionally with a pool of structured-looking content: IPv4, IPv4-mapped / IPv4-compatible / other IPv6 addresses, lengths 0,1,3,4,5,8,15,16,17,32 all-zero / all-ones / counting, valid and invalid UTF-8, numeric-looking and keyword text, NUL / whitespace); step streams of 1..200 (thorough 2000) steps; " +
		"all 2^5 combinations of TxRecord's optional sections (custom fields with nil values included); TxRecords as older agents wrote them (version bytes 10..255 and < 10, multi-trace presence bytes 1..255, caller flags 1,3,4,5,6 and unknown ones) synthesised by the harness; raw streams behind the unregistered type codes 22 and 18; streams of 2..5 service records of mixed types read in turn from one input; re-fill histories (SetProfile / SetStack / SetCtr / SetTrue / field assignments / Read called repeatedly on one object; the last content must come back); decoding a second record into an object used before (decoded into, or populated through its fields and setters); the fields left out of the comparison (AbstractStep.Drop/Opt, AbstractService ids, pack header) are randomised in every generated object; histories of 0..8 accessor calls of the Step interface (Set/Get Parent, Index, StartTime, Drop; SetTrue/IsTrue with flags beyond one byte; GetElapsed) on objects of all 11 step types made by each of their constructors; every constructor alone; TxRecord.ToBytes / ToObject into new and used records with bytes following; MessageStepX.WriteVer0 / ReadVer0 / CtrToJson called directly; ProfileStepSplitPack.ToString; mixed streams of 2..8 steps, service records, TxRecords, MessageStepX and SqlStep_3 on one output read back from one input; histories of k in {2,3,5} live encodings (step profiles, packs via SetProfile, TxRecord, services) produced one after another with the originals changed in between, decoded in a different order, inputs overwritten afterwards (thorough: also produced from several goroutines); a case is its canonical field text — two cases are distinct when any field differs; all generated cases are non-trivial"

	if env.Replay != "" {
		runReplay(c, env.Replay)
	} else {
		rng := vh.NewRng(env.Seed)
		generate(c, rng)
	}
	knownReplays(c)

	outs, err := vh.RunDriver(env.Driver, c.lines)
	if err != nil {
		vh.Die("%v", err)
	}
	for i, f := range c.after {
		f(outs[i])
	}
	rep.Extra["driver_lines"] = len(c.lines)
	rep.Write(env.Out)
}
