package main

// Multi-object histories: hidden shared state / aliasing in encoders and decoders.
//
// A single encode→decode round trip cannot see an encoder that hands out a view of a buffer it
// reuses, or a decoder whose result shares storage with something later calls overwrite.  A history
// keeps k live encodings produced one after another (steps via ToBytesStep, packs via SetProfile +
// Write, TxRecord, services), mutates the originals in between, then
//   1. checks every live byte slice is still what it was when it was handed out,
//   2. decodes them in a different order and compares each with ITS OWN original,
//   3. scribbles over the input slices and inspects every decoded object again.
// In the thorough tier the encodings of a round are also produced from several goroutines at once.

import (
	"bytes"
	"fmt"
	"reflect"
	"strings"
	"sync"

	gio "github.com/whatap/golib/io"
	"github.com/whatap/golib/lang/pack"
	"github.com/whatap/golib/lang/step"
	"github.com/whatap/golib/lang/value"
	"verif/harness/vh"
)

type histEntry struct {
	Kind  string       `json:"kind"` // stream | single | pack
	Items []replayItem `json:"items"`
}

type hent struct {
	kind  string // stream: steps → ToBytesStep;  single: s.enc(o);  pack: o.SetProfile(steps) now, Write later
	s     *spec
	o     interface{}
	steps []item
	// production
	live   []byte              // the slice handed out by the encoder (for packs: the field SetProfile assigned)
	snap   []byte              // its content at that moment
	want   []map[string]string // carried fields of the original(s), taken before any mutation
	names  []string
	// decoding
	dec   []interface{}
	first []map[string]string
}

func (e *hent) label() string {
	switch e.kind {
	case "stream":
		return "ToBytesStep"
	case "pack":
		return e.s.name + ".SetProfile"
	}
	return e.s.name + ".Write"
}

func (e *hent) typeLabel() string {
	if e.kind == "stream" {
		return "ToBytesStep"
	}
	return e.s.name
}

func (e *hent) replay() histEntry {
	h := histEntry{Kind: e.kind}
	if e.kind != "stream" {
		h.Items = append(h.Items, replayItem{e.s.name, replayRec(e.o, e.s)})
	}
	for _, it := range e.steps {
		h.Items = append(h.Items, replayItem{it.s.name, replayRec(it.o, it.s)})
	}
	return h
}

func clone(b []byte) []byte { return append([]byte{}, b...) }

// profileField: the field a pack's SetProfile assigns.
func profileField(o interface{}) *[]byte {
	switch p := o.(type) {
	case *pack.ProfilePack:
		return &p.Steps
	case *pack.ProfileStepSplitPack:
		return &p.Steps
	case *pack.ErrorSnapPack1:
		return &p.Profile
	}
	return nil
}

func setProfile(o interface{}, steps []step.Step) {
	switch p := o.(type) {
	case *pack.ProfilePack:
		p.SetProfile(steps)
	case *pack.ProfileStepSplitPack:
		p.SetProfile(steps)
	case *pack.ErrorSnapPack1:
		p.SetProfile(steps)
	}
}

// produce runs the encoder of one entry and leaves the handed-out slice in e.live.
func (e *hent) produce() vh.Outcome {
	return vh.Guard(func() {
		switch e.kind {
		case "stream":
			e.live = step.ToBytesStep(stepsOf(e.steps))
		case "pack":
			setProfile(e.o, stepsOf(e.steps))
			e.live = *profileField(e.o)
		default:
			out := gio.NewDataOutputX()
			e.s.enc(e.o, out)
			e.live = out.ToByteArray()
		}
	})
}

// expectations of an entry, from the originals as they are now
func (e *hent) expectNow() {
	e.want, e.names = nil, nil
	if e.kind == "stream" {
		for _, it := range e.steps {
			e.want = append(e.want, carried(it.s.name, dump(it.o, it.s)))
			e.names = append(e.names, it.s.name)
		}
		return
	}
	e.want = []map[string]string{carried(e.s.name, dump(e.o, e.s))}
	e.names = []string{e.s.name}
}

// scribble changes the original objects in place after they were encoded: an encoder must have
// copied what it needs.
func scribble(o interface{}, s *spec) {
	for _, l := range leaves(o, s) {
		v := l.v
		switch v.Kind() {
		case reflect.Slice:
			switch v.Type().Elem().Kind() {
			case reflect.Uint8:
				b := v.Bytes()
				for i := range b {
					b[i] ^= 0xA5
				}
			case reflect.Int32:
				for i := 0; i < v.Len(); i++ {
					v.Index(i).SetInt(int64(int32(v.Index(i).Int()) ^ 0x5A5A5A5A))
				}
			}
		case reflect.Int32, reflect.Int64, reflect.Int:
			v.SetInt(v.Int() ^ 0x55)
		case reflect.Ptr:
			if v.Type() == mapValueType && !v.IsNil() {
				v.Interface().(*value.MapValue).Put("zz-mutated-after-encoding", value.NewBoolValue(true))
			}
		}
	}
}

// decode one entry from bytes: the decoded objects
func (e *hent) decode(b []byte) ([]interface{}, vh.Outcome) {
	var objs []interface{}
	oc := vh.Guard(func() {
		in := gio.NewDataInputX(b)
		if e.kind == "stream" {
			for k := 0; in.Available() > 0 && k < len(e.steps)+2; k++ {
				objs = append(objs, step.ReadStep(in))
			}
			return
		}
		objs = append(objs, e.s.dec(in))
	})
	return objs, oc
}

func (e *hent) dumpDec(o interface{}) map[string]string {
	if e.kind == "stream" {
		if st, ok := o.(step.Step); ok && st != nil {
			return dump(st, specOfObj(st))
		}
		return map[string]string{}
	}
	return dump(o, e.s)
}

func (c *ctx) checkHistory(ents []*hent, order []int, mutate bool, concurrent bool) {
	rep := c.rep
	rc := replayCase{Op: "history", Order: order, Mutate: mutate}
	var canon []string
	for _, e := range ents {
		h := e.replay()
		rc.History = append(rc.History, h)
		var parts []string
		for _, it := range h.Items {
			parts = append(parts, it.Type+":"+it.Rec)
		}
		canon = append(canon, e.kind+"["+strings.Join(parts, "|")+"]")
		rep.Count("history-entry:" + e.kind)
	}
	rep.Case("history "+fmt.Sprint(order)+" "+strings.Join(canon, " ; "), true)
	rep.Count(fmt.Sprintf("history-k:%d", len(ents)))
	if c.sampled["history"] < 1 {
		c.sampled["history"]++
		rep.Sample(map[string]interface{}{"op": "history", "k": len(ents), "order": order, "entries": vh.Clip(strings.Join(canon, " ; "), 400)})
	}

	// ---- produce the encodings one after another (or all at once), keeping every returned slice live
	if concurrent {
		rep.Count("history:concurrent")
		// what each must be, from a run alone
		for _, e := range ents {
			if oc := e.produce(); !oc.OK() {
				rep.Fail("property", e.label()+":panic", vh.Clip(oc.Panic, 120), rc)
				return
			}
			e.snap = clone(e.live)
			e.expectNow()
		}
		var wg sync.WaitGroup
		start := make(chan struct{})
		ocs := make([]vh.Outcome, len(ents))
		for i, e := range ents {
			wg.Add(1)
			go func(i int, e *hent) {
				defer wg.Done()
				<-start
				ocs[i] = e.produce()
			}(i, e)
		}
		close(start)
		wg.Wait()
		for i, e := range ents {
			if !ocs[i].OK() {
				rep.Fail("property", e.label()+":concurrent-panic", "encoding from several goroutines at once panicked: "+vh.Clip(ocs[i].Panic, 100), rc)
				return
			}
		}
	} else {
		for _, e := range ents {
			if oc := e.produce(); !oc.OK() {
				rep.Fail("property", e.label()+":panic", vh.Clip(oc.Panic, 120), rc)
				return
			}
			e.snap = clone(e.live)
			e.expectNow() // right after the encoder returned, before anything else is encoded or changed
			if mutate {
				for _, it := range e.steps {
					scribble(it.o, it.s)
				}
				if e.kind == "single" {
					scribble(e.o, e.s)
				}
			}
		}
	}

	// ---- 1. every live encoding is still what was handed out
	ok := true
	for i, e := range ents {
		if !bytes.Equal(e.live, e.snap) {
			ok = false
			rep.Fail("property", e.label()+":aliased-output",
				fmt.Sprintf("encoding %d of %d changed after it was returned (later encodings / changes of the originals reached it): was %s, is %s",
					i, len(ents), vh.Clip(vh.Hex(e.snap), 48), vh.Clip(vh.Hex(e.live), 48)), rc)
		}
	}

	// ---- 2. decode in a different order; each must be its own original
	inputs := make([][]byte, len(ents))
	for _, i := range order {
		e := ents[i]
		var b []byte
		if e.kind == "pack" { // the pack is written only now, after the other profiles were set
			var oc vh.Outcome
			b, oc = encode(e.s, e.o)
			if !oc.OK() {
				rep.Fail("property", e.s.name+".Write:panic", vh.Clip(oc.Panic, 120), rc)
				continue
			}
		} else {
			b = e.live
		}
		inputs[i] = b
		objs, oc := e.decode(b)
		if !oc.OK() {
			if ok { // otherwise a consequence of the overwritten bytes already reported
				rep.Fail("property", e.typeLabel()+":history-decode-panic", fmt.Sprintf("decoding encoding %d of the history panicked: %s", i, vh.Clip(oc.Panic, 100)), rc)
			}
			ok = false
			continue
		}
		e.dec = objs
		if len(objs) != len(e.want) {
			ok = false
			rep.Fail("property", e.typeLabel()+":history-roundtrip", fmt.Sprintf("encoding %d of the history: wrote %d objects, read %d", i, len(e.want), len(objs)), rc)
			continue
		}
		for k, o := range objs {
			got := e.dumpDec(o)
			e.first = append(e.first, got)
			if bad := diffFields(e.want[k], got); len(bad) > 0 {
				ok = false
				rep.Fail("property", e.typeLabel()+":history-roundtrip",
					fmt.Sprintf("encoding %d of the history (decoded after the others were produced), object %d (%s): fields %s differ from its own original",
						i, k, e.names[k], vh.Clip(strings.Join(bad, ","), 80)), rc)
			}
		}
	}

	// ---- 3. decoder-side aliasing: scribble over every input, look at every decoded object again
	for _, b := range inputs {
		for j := range b {
			b[j] ^= 0xFF
		}
	}
	for i, e := range ents {
		for k, o := range e.dec {
			if k >= len(e.first) {
				break
			}
			if bad := diffFields(e.first[k], e.dumpDec(o)); len(bad) > 0 {
				rep.Fail("property", e.names[k]+".Read:aliased-result",
					fmt.Sprintf("object %d decoded from encoding %d changed after later decodes / after its input bytes were overwritten: %s", k, i, strings.Join(bad, ",")), rc)
			}
		}
	}
}

func permutation(r *vh.Rng, k int) []int {
	p := make([]int, k)
	for i := range p {
		p[i] = k - 1 - i // reverse: never the production order for k >= 2
	}
	if r.Bool() {
		for i := k - 1; i > 0; i-- {
			j := r.Intn(i + 1)
			p[i], p[j] = p[j], p[i]
		}
		same := true
		for i := range p {
			if p[i] != i {
				same = false
			}
		}
		if same {
			p[0], p[k-1] = p[k-1], p[0]
		}
	}
	return p
}

var packSpecs = []string{"ProfilePack", "ProfileStepSplitPack", "ErrorSnapPack1"}
var singleSpecs = []string{"TxRecord", "TxRecord", "WasService", "AppService", "WasService2", "MessageStepX"}

func genEntry(r *vh.Rng) *hent {
	switch {
	case r.Chance(45):
		return &hent{kind: "stream", steps: genSteps(r, 1+r.Intn(8))}
	case r.Chance(55):
		s := specOf(r.PickStr(packSpecs))
		o := newFilled(r, s, false)
		return &hent{kind: "pack", s: s, o: o, steps: genSteps(r, 1+r.Intn(6))}
	default:
		s := specOf(r.PickStr(singleSpecs))
		return &hent{kind: "single", s: s, o: newFilled(r, s, false)}
	}
}

func genHistories(c *ctx, r *vh.Rng) {
	n := 700
	if c.env.Thorough {
		n = 6000
	}
	for i := 0; i < n; i++ {
		k := r.PickInt([]int{2, 3, 5})
		ents := make([]*hent, k)
		for j := range ents {
			ents[j] = genEntry(r)
		}
		if i < 3 { // the plain shapes first: k profiles / k packs
			for j := range ents {
				ents[j] = &hent{kind: "stream", steps: genSteps(r, 1+r.Intn(4))}
				if i == 1 {
					s := specOf(packSpecs[j%3])
					ents[j] = &hent{kind: "pack", s: s, o: newFilled(r, s, false), steps: genSteps(r, 1+r.Intn(4))}
				}
			}
		}
		c.checkHistory(ents, permutation(r, k), r.Chance(60), false)
	}
	if c.env.Thorough {
		for i := 0; i < 600; i++ {
			k := r.PickInt([]int{2, 3, 5, 8})
			ents := make([]*hent, k)
			for j := range ents {
				ents[j] = genEntry(r)
			}
			c.checkHistory(ents, permutation(r, k), false, true)
		}
	}
}

// a history from a replay file
func replayHistory(c *ctx, rc replayCase) {
	var ents []*hent
	for _, h := range rc.History {
		e := &hent{kind: h.Kind}
		items := h.Items
		if h.Kind != "stream" && len(items) > 0 {
			e.s = specOf(items[0].Type)
			if e.s == nil {
				vh.Die("replay: unknown type %s", items[0].Type)
			}
			e.o = fromRec(e.s, items[0].Rec)
			items = items[1:]
		}
		for _, it := range items {
			s := specOf(it.Type)
			if s == nil {
				vh.Die("replay: unknown type %s", it.Type)
			}
			e.steps = append(e.steps, item{s, fromRec(s, it.Rec)})
		}
		ents = append(ents, e)
	}
	order := rc.Order
	if len(order) != len(ents) {
		order = nil
		for i := len(ents) - 1; i >= 0; i-- {
			order = append(order, i)
		}
	}
	c.checkHistory(ents, order, rc.Mutate, false)
}
