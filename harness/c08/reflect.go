package main

// Reflection over the Go structs: flatten to leaf fields (the way Go resolves promoted fields:
// a shallower field shadows a deeper one of the same name), print / parse the canonical text
// of a field value, fill fields from the generator.

import (
	"fmt"
	"math"
	"reflect"
	"sort"
	"strconv"
	"strings"

	gio "github.com/whatap/golib/io"
	"github.com/whatap/golib/lang/service"
	"github.com/whatap/golib/lang/value"
	"verif/harness/vh"
)

// fields that are process-local by design (never written): AbstractStep.Drop/Opt; the pack header
// is C03's subject and is handled apart.
func skipField(typ, path string) bool {
	switch path {
	case "AbstractStep.Drop", "AbstractStep.Opt":
		return true
	case "AbstractService.Mtid", "AbstractService.Mdepth", "AbstractService.Mcaller":
		// never written by AbstractService.Write (WasService writes its own, shadowing fields) — see observeUnregistered
		return true
	}
	return strings.HasPrefix(path, "AbstractPack")
}

// transientLeaves: the exported fields left out of the comparison (skipField): process-local flags
// of AbstractStep, the never-written ids of AbstractService, the pack header.  They are inputs all
// the same — an encoder may look at them — so the generators randomise them (fillTransient) and the
// replays carry them under their qualified names.
func transientLeaves(o interface{}, s *spec) []leaf {
	v := reflect.ValueOf(o)
	for v.Kind() == reflect.Ptr {
		v = v.Elem()
	}
	var out []leaf
	var walk func(v reflect.Value, path string, skipped bool)
	walk = func(v reflect.Value, path string, skipped bool) {
		t := v.Type()
		for i := 0; i < t.NumField(); i++ {
			f := t.Field(i)
			if !f.IsExported() {
				continue
			}
			p := f.Name
			if path != "" {
				p = path + "." + f.Name
			}
			fv := v.Field(i)
			if f.Anonymous && f.Type.Kind() == reflect.Struct {
				walk(fv, f.Name, skipped || skipField(s.name, f.Name))
				continue
			}
			if fv.Kind() == reflect.Ptr || fv.Kind() == reflect.Struct {
				continue
			}
			if skipped || skipField(s.name, p) {
				out = append(out, leaf{p, fv})
			}
		}
	}
	walk(v, "", false)
	return out
}

func dumpTransient(o interface{}, s *spec) map[string]string {
	m := map[string]string{}
	for _, l := range transientLeaves(o, s) {
		m[l.name] = leafText(l.v)
	}
	return m
}

// replayRec: the record text of a replay — compared fields and transient ones.
func replayRec(o interface{}, s *spec) string {
	m := dump(o, s)
	for k, v := range dumpTransient(o, s) {
		m[k] = v
	}
	return recText(m)
}

type leaf struct {
	name string
	v    reflect.Value
}

var mapValueType = reflect.TypeOf((*value.MapValue)(nil))
var txRecordType = reflect.TypeOf((*service.TxRecord)(nil))

func leaves(o interface{}, s *spec) []leaf {
	v := reflect.ValueOf(o)
	for v.Kind() == reflect.Ptr {
		v = v.Elem()
	}
	seen := map[string]bool{}
	var out []leaf
	var walk func(v reflect.Value, path string)
	walk = func(v reflect.Value, path string) {
		t := v.Type()
		var embedded []int
		// this level first (shadowing), then the embedded structs
		for i := 0; i < t.NumField(); i++ {
			f := t.Field(i)
			if f.Anonymous && f.Type.Kind() == reflect.Struct {
				embedded = append(embedded, i)
				continue
			}
			if f.Type == txRecordType { // ProfilePack.Transaction: its fields are the pack's fields
				embedded = append(embedded, i)
				continue
			}
			if !f.IsExported() {
				continue
			}
			p := f.Name
			if path != "" {
				p = path + "." + f.Name
			}
			if skipField(s.name, p) || seen[f.Name] {
				continue
			}
			seen[f.Name] = true
			out = append(out, leaf{f.Name, v.Field(i)})
		}
		for _, i := range embedded {
			f := t.Field(i)
			if skipField(s.name, f.Name) {
				continue
			}
			fv := v.Field(i)
			if fv.Kind() == reflect.Ptr {
				if fv.IsNil() {
					continue
				}
				fv = fv.Elem()
				walk(fv, "")
				continue
			}
			walk(fv, f.Name)
		}
	}
	walk(v, "")
	return out
}

// ---------------------------------------------------------------- canonical text

func hexv(b []byte) string { return vh.Hex(b) }

func valueText(v value.Value) string {
	if v == nil {
		return "Z" // a nil value inside a map
	}
	switch x := v.(type) {
	case *value.NullValue:
		return "N"
	case *value.BoolValue:
		if x.Val {
			return "B1"
		}
		return "B0"
	case *value.DecimalValue:
		return fmt.Sprintf("D%d", x.Val)
	case *value.IntValue:
		return fmt.Sprintf("I%d", x.Val)
	case *value.LongValue:
		return fmt.Sprintf("L%d", x.Val)
	case *value.FloatValue:
		return fmt.Sprintf("F%d", math.Float32bits(x.Val))
	case *value.DoubleValue:
		return fmt.Sprintf("G%d", math.Float64bits(x.Val))
	case *value.TextValue:
		return "T" + hexv([]byte(x.Val))
	case *value.TextHashValue:
		return fmt.Sprintf("H%d", x.Val)
	case *value.BlobValue:
		return "X" + hexv(x.Val)
	}
	out := gio.NewDataOutputX()
	value.WriteValue(out, v)
	return "V" + hexv(out.ToByteArray())
}

func parseValue(s string) value.Value {
	p := s[1:]
	i64 := func() int64 { n, _ := strconv.ParseInt(p, 10, 64); return n }
	u64 := func() uint64 { n, _ := strconv.ParseUint(p, 10, 64); return n }
	switch s[0] {
	case 'Z':
		return nil
	case 'N':
		return value.NewNullValue()
	case 'B':
		return value.NewBoolValue(p == "1")
	case 'D':
		return value.NewDecimalValue(i64())
	case 'I':
		return value.NewIntValue(int32(i64()))
	case 'L':
		return value.NewLongValue(i64())
	case 'F':
		return value.NewFloatValue(math.Float32frombits(uint32(u64())))
	case 'G':
		return value.NewDoubleValue(math.Float64frombits(u64()))
	case 'T':
		return value.NewTextValue(string(vh.UnHex(p)))
	case 'H':
		return value.NewTextHashValue(int32(i64()))
	case 'X':
		return value.NewBlobValue(vh.UnHex(p))
	case 'V':
		return value.ReadValue(gio.NewDataInputX(vh.UnHex(p)))
	}
	panic("bad value text " + s)
}

func mapText(m *value.MapValue) string {
	if m == nil {
		return "n"
	}
	if m.Size() == 0 {
		return "m-"
	}
	var parts []string
	keys := m.Keys()
	for keys.HasMoreElements() {
		k := keys.NextString()
		parts = append(parts, hexv([]byte(k))+"~"+valueText(m.Get(k)))
	}
	return "m" + strings.Join(parts, "&")
}

func leafText(v reflect.Value) string {
	switch v.Kind() {
	case reflect.Int32, reflect.Int64, reflect.Int:
		return fmt.Sprintf("i%d", v.Int())
	case reflect.Uint8:
		return fmt.Sprintf("i%d", v.Uint())
	case reflect.Bool:
		if v.Bool() {
			return "i1"
		}
		return "i0"
	case reflect.String:
		return "x" + hexv([]byte(v.String()))
	case reflect.Slice:
		switch v.Type().Elem().Kind() {
		case reflect.Uint8:
			return "x" + hexv(v.Bytes())
		case reflect.Int32:
			if v.Len() == 0 {
				return "a-"
			}
			xs := make([]string, v.Len())
			for i := range xs {
				xs[i] = strconv.FormatInt(v.Index(i).Int(), 10)
			}
			return "a" + strings.Join(xs, ",")
		}
	case reflect.Ptr:
		if v.Type() == mapValueType {
			if v.IsNil() {
				return "n"
			}
			return mapText(v.Interface().(*value.MapValue))
		}
	}
	panic(fmt.Sprintf("harness: unsupported field kind %s (%s)", v.Kind(), v.Type()))
}

func setLeaf(v reflect.Value, s string) {
	p := s[1:]
	switch v.Kind() {
	case reflect.Int32, reflect.Int64, reflect.Int:
		n, _ := strconv.ParseInt(p, 10, 64)
		v.SetInt(n)
	case reflect.Uint8:
		n, _ := strconv.ParseUint(p, 10, 8)
		v.SetUint(n)
	case reflect.Bool:
		v.SetBool(p == "1")
	case reflect.String:
		v.SetString(string(vh.UnHex(p)))
	case reflect.Slice:
		switch v.Type().Elem().Kind() {
		case reflect.Uint8:
			v.SetBytes(vh.UnHex(p))
		case reflect.Int32:
			if p == "-" {
				v.Set(reflect.ValueOf([]int32{}))
				return
			}
			var xs []int32
			for _, t := range strings.Split(p, ",") {
				n, _ := strconv.ParseInt(t, 10, 32)
				xs = append(xs, int32(n))
			}
			v.Set(reflect.ValueOf(xs))
		}
	case reflect.Ptr:
		if s == "n" {
			v.Set(reflect.Zero(v.Type()))
			return
		}
		m := value.NewMapValue()
		if p != "-" {
			for _, e := range strings.Split(p, "&") {
				kv := strings.SplitN(e, "~", 2)
				m.Put(string(vh.UnHex(kv[0])), parseValue(kv[1]))
			}
		}
		v.Set(reflect.ValueOf(m))
	}
}

func dump(o interface{}, s *spec) map[string]string {
	m := map[string]string{}
	for _, l := range leaves(o, s) {
		m[l.name] = leafText(l.v)
	}
	return m
}

func recText(m map[string]string) string {
	if len(m) == 0 {
		return "-"
	}
	keys := make([]string, 0, len(m))
	for k := range m {
		keys = append(keys, k)
	}
	sort.Strings(keys)
	parts := make([]string, len(keys))
	for i, k := range keys {
		parts[i] = k + "=" + m[k]
	}
	return strings.Join(parts, ";")
}

func parseRec(s string) map[string]string {
	m := map[string]string{}
	if s == "-" || s == "" {
		return m
	}
	for _, f := range strings.Split(s, ";") {
		kv := strings.SplitN(f, "=", 2)
		if len(kv) == 2 {
			m[kv[0]] = kv[1]
		}
	}
	return m
}

// build an object of a type from its record text (replays)
func fromRec(s *spec, rec string) interface{} {
	o := s.mk()
	m := parseRec(rec)
	for _, l := range leaves(o, s) {
		if t, ok := m[l.name]; ok {
			setLeaf(l.v, t)
		}
	}
	for _, l := range transientLeaves(o, s) {
		if t, ok := m[l.name]; ok {
			setLeaf(l.v, t)
		}
	}
	return o
}
