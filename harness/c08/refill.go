package main

// Re-fill: builders and setters called MORE THAN ONCE on one object (the write-side mirror of
// decoding into a used object).  fill → encode → fill again with different content (also after a
// Read into the object) → encode; the LAST encoding must decode to exactly the LAST content.
//
//   packs        SetProfile(steps) twice / after Read; ErrorSnapPack1.SetStack twice
//   step streams ToBytesStep(a) then ToBytesStep(b)
//   records      every field of a TxRecord / step / service assigned a second time (incl. the same
//                MapValue re-populated), MessageStepX.SetCtr and SqlStep_3.SetTrue called repeatedly
//
// Oracle of the property: the decoded object's profile blob, read with ReadStep until exhausted, must be
// exactly the steps of the last SetProfile (count, types, fields); the decoded fields must be the last
// assigned ones.  Oracle of the builders' semantics (replace vs accumulate): the model — driver `OPS`
// runs the same history through Step.applyOps (whose Setter semantics tie A reads off the Go source) and
// its final encoding is compared with the implementation's.

import (
	"fmt"
	"strings"

	gio "github.com/whatap/golib/io"
	"github.com/whatap/golib/lang/pack"
	"github.com/whatap/golib/lang/service"
	"github.com/whatap/golib/lang/step"
	"github.com/whatap/golib/lang/value"
	"verif/harness/vh"
)

type refillOp struct {
	Kind  string       `json:"kind"` // profile | stack | bits | assign | read
	Items []replayItem `json:"items,omitempty"`
	Ints  []int32      `json:"ints,omitempty"`
	Key   int          `json:"key,omitempty"`
	Rec   string       `json:"rec,omitempty"` // assign: the new field values; read: the record decoded into the object
}

func itemsText(items []item) string {
	if len(items) == 0 {
		return "-"
	}
	var ts []string
	for _, it := range items {
		ts = append(ts, fmt.Sprintf("%d:%s:%s", it.s.code, it.s.name, recText(dump(it.o, it.s))))
	}
	return strings.Join(ts, "|")
}

func intsText(xs []int32) string {
	if len(xs) == 0 {
		return "a-"
	}
	ss := make([]string, len(xs))
	for i, x := range xs {
		ss[i] = fmt.Sprint(x)
	}
	return "a" + strings.Join(ss, ",")
}

// readStepsBlob: ReadStep until the blob is used up.
func readStepsBlob(b []byte) ([]step.Step, vh.Outcome) {
	var out []step.Step
	oc := vh.Guard(func() {
		in := gio.NewDataInputX(b)
		for k := 0; in.Available() > 0 && k < 4096; k++ {
			out = append(out, step.ReadStep(in))
		}
	})
	return out, oc
}

// checkBlobIsSteps: the property on a decoded profile blob — exactly these steps, in this order.
func (c *ctx) checkBlobIsSteps(key string, blob []byte, want []item, wantRecs []map[string]string, rc interface{}) bool {
	got, oc := readStepsBlob(blob)
	if !oc.OK() {
		c.rep.Fail("property", key, "the profile of the last SetProfile does not read back step by step: "+vh.Clip(oc.Panic, 80), rc)
		return false
	}
	if len(got) != len(want) {
		c.rep.Fail("property", key, fmt.Sprintf("the pack was last filled with %d steps, its decoded profile holds %d", len(want), len(got)), rc)
		return false
	}
	for k, st := range got {
		sp := specOfObj(st)
		if sp.name != want[k].s.name {
			c.rep.Fail("property", key, fmt.Sprintf("step %d of the decoded profile is a %s, the last SetProfile gave a %s", k, sp.name, want[k].s.name), rc)
			return false
		}
		if bad := diffFields(carried(sp.name, wantRecs[k]), dump(st, sp)); len(bad) > 0 {
			c.rep.Fail("property", key, fmt.Sprintf("step %d of the decoded profile differs from the step last set: %s", k, strings.Join(bad, ",")), rc)
			return false
		}
	}
	return true
}

func profileBlob(o interface{}) []byte { return *profileField(o) }

func assignFrom(o interface{}, s *spec, rec string) {
	m := parseRec(rec)
	for _, l := range leaves(o, s) {
		if t, ok := m[l.name]; ok {
			setLeaf(l.v, t)
		}
	}
	for _, l := range transientLeaves(o, s) {
		if t, ok := m[l.name]; ok {
			setLeaf(l.v, t)
		}
	}
}

// runRefill applies a history of builder calls / assignments / Reads to ONE object built from rec0,
// then checks the last content comes back.  Used by the generator and by replays alike.
func (c *ctx) runRefill(s *spec, rec0 string, ops []refillOp) {
	rep := c.rep
	rc := replayCase{Op: "refill", Items: []replayItem{{s.name, rec0}}, Refill: ops}
	p := fromRec(s, rec0)
	start := recText(dump(p, s))
	var lines []string
	var last []item
	var lastRecs []map[string]string
	haveProfile := false
	var lastStack []int32
	haveStack := false
	for _, op := range ops {
		switch op.Kind {
		case "profile":
			var items []item
			var recs []map[string]string
			for _, it := range op.Items {
				is := specOf(it.Type)
				o := fromRec(is, it.Rec)
				items = append(items, item{is, o})
				recs = append(recs, dump(o, is))
			}
			lines = append(lines, fmt.Sprintf("P!%s.SetProfile!%s", s.name, itemsText(items)))
			if oc := vh.Guard(func() { setProfile(p, stepsOf(items)) }); !oc.OK() {
				rep.Fail("property", s.name+".SetProfile:panic", vh.Clip(oc.Panic, 100), rc)
				return
			}
			last, lastRecs, haveProfile = items, recs, true
		case "write": // an earlier Write of the object (its result is dropped): later Writes must not replay it
			if _, oc := encode(s, p); !oc.OK() {
				rep.Fail("property", s.name+".Write:panic", vh.Clip(oc.Panic, 100), rc)
				return
			}
			rep.Count("rewrite:write-in-history")
		case "newtx": // the pack's transaction REPLACED by another record object
			txs := specOf("TxRecord")
			p.(*pack.ProfilePack).Transaction = fromRec(txs, op.Rec).(*service.TxRecord)
			m := dump(p, s)
			for _, k := range sortedKeys(m) {
				lines = append(lines, "A!"+k+"="+m[k])
			}
		case "stack":
			p.(*pack.ErrorSnapPack1).SetStack(op.Ints)
			lastStack, haveStack = op.Ints, true
			lines = append(lines, "K!ErrorSnapPack1.SetStack!"+intsText(op.Ints))
		case "read":
			q := fromRec(s, op.Rec)
			qb, oc := encode(s, q)
			if !oc.OK() {
				continue
			}
			if oc := vh.Guard(func() { readInto(s, p, gio.NewDataInputX(qb)) }); !oc.OK() {
				rep.Fail("property", s.name+".Read:reused-object-panic", vh.Clip(oc.Panic, 100), rc)
				return
			}
			haveStack, haveProfile = false, false
			body := qb
			switch s.fam {
			case "step", "svc":
				body = qb[1:]
			case "pack":
				body = qb[headerLen(q):]
			}
			lines = append(lines, "R!"+vh.Hex(body))
		case "assign", "putfields":
			if op.Kind == "putfields" { // the SAME MapValue populated again: Put over existing keys, new keys appended
				t := p.(*service.TxRecord)
				src := fromRec(s, "Fields="+op.Rec).(*service.TxRecord).Fields
				if t.Fields == nil {
					t.Fields = value.NewMapValue()
				}
				if src != nil {
					keys := src.Keys()
					for keys.HasMoreElements() {
						k := keys.NextString()
						t.Fields.Put(k, src.Get(k))
					}
				}
			} else {
				assignFrom(p, s, op.Rec)
				if s.fam == "pack" { // the blob fields were assigned directly: no SetProfile / SetStack content to expect
					haveProfile, haveStack = false, false
				}
			}
			m := dump(p, s)
			for _, k := range sortedKeys(m) {
				lines = append(lines, "A!"+k+"="+m[k])
			}
		case "bits":
			switch x := p.(type) {
			case *step.MessageStepX:
				x.SetCtr(op.Key)
				lines = append(lines, fmt.Sprintf("O!MessageStepX.SetCtr!%d", op.Key))
			case *step.SqlStep_3:
				x.SetTrue(byte(op.Key))
				lines = append(lines, fmt.Sprintf("O!SqlStep_3.SetTrue!%d", op.Key))
			}
		}
	}
	rep.Case("refill "+s.name+" "+start+" "+strings.Join(lines, " "), true)
	rep.Count("refill:" + s.name)
	rep.Count(fmt.Sprintf("refill-ops:%d", len(ops)))
	b, oc := encode(s, p)
	if !oc.OK() {
		rep.Fail("property", s.name+".Write:panic", vh.Clip(oc.Panic, 100), rc)
		return
	}
	ok := true
	if s.fam == "pack" {
		d := decodeOne(s, b)
		if !d.oc.OK() {
			rep.Fail("property", s.name+".Read:panic", "decoding the re-filled pack panicked: "+vh.Clip(d.oc.Panic, 100), rc)
			return
		}
		if haveProfile {
			ok = c.checkBlobIsSteps(s.name+".SetProfile:refill", profileBlob(d.obj), last, lastRecs, rc)
		}
		if ok && haveStack {
			var got []int32
			oc := vh.Guard(func() { got = gio.NewDataInputX(d.obj.(*pack.ErrorSnapPack1).Stack).ReadIntArray() })
			if !oc.OK() || intsText(got) != intsText(lastStack) {
				ok = false
				rep.Fail("property", "ErrorSnapPack1.SetStack:refill", fmt.Sprintf("the stack last set was %s, the decoded pack holds %s", vh.Clip(intsText(lastStack), 40), vh.Clip(intsText(got), 40)), rc)
			}
		}
		// … and every field of the decoded pack is the CURRENT content (a Write that replays what an earlier
		// Write produced shows here: stale transaction, current steps)
		if ok {
			got := dump(d.obj, s)
			if bad := diffFields(carried(s.name, dump(p, s)), got); len(bad) > 0 {
				ok = false
				rep.Fail("property", s.name+".Write:stale-after-mutation",
					fmt.Sprintf("after write / mutate / write the decoded pack does not hold the current content: %s", vh.Clip(strings.Join(bad, ","), 100)), rc)
			}
		}
	} else {
		// the property on the re-filled object: encode → decode → carried, identity, model bytes and decode
		c.checkSingle(s, p, nil)
	}
	body := b
	switch s.fam {
	case "step", "svc":
		body = b[1:]
	case "pack":
		body = b[headerLen(p):]
	}
	c.ask("OPS "+s.name+" "+start+" "+strings.Join(lines, " "), func(ans string) {
		if !ok {
			return
		}
		parts := strings.Split(ans, " ")
		if parts[0] != "ok" || len(parts) < 3 {
			rep.Fail("correspondence", s.name+":refill-model", "model: "+vh.Clip(ans, 60), rc)
			return
		}
		if parts[1] != vh.Hex(body) {
			rep.Fail("correspondence", s.name+":refill-bytes", fmt.Sprintf("after the same history of builder calls / assignments / reads the model writes %s, the implementation %s", vh.Clip(parts[1], 60), vh.Clip(vh.Hex(body), 60)), rc)
		}
	})
}

func profileOp(r *vh.Rng) refillOp {
	ro := refillOp{Kind: "profile"}
	for _, it := range genSteps(r, r.Intn(5)) {
		ro.Items = append(ro.Items, replayItem{it.s.name, replayRec(it.o, it.s)})
	}
	return ro
}

func genRefillPack(c *ctx, r *vh.Rng, s *spec) {
	p := newFilled(r, s, false)
	if pp, ok := p.(*pack.ProfilePack); ok {
		shapeTx(r, pp.Transaction, r.Intn(32))
	}
	var ops []refillOp
	n := 2 + r.Intn(3)
	for i := 0; i < n; i++ {
		switch {
		case i == n-1 || r.Chance(55): // the last op is always a SetProfile: the content that must come back
			ops = append(ops, profileOp(r))
		case s.name == "ErrorSnapPack1" && r.Chance(50):
			ops = append(ops, refillOp{Kind: "stack", Ints: genInts(r, false)})
		default: // a whole other pack read into this one; the next SetProfile must replace what came in
			q := newFilled(r, s, false)
			setProfile(q, stepsOf(genSteps(r, 1+r.Intn(4))))
			if qq, ok := q.(*pack.ProfilePack); ok {
				shapeTx(r, qq.Transaction, r.Intn(32))
			}
			ops = append(ops, refillOp{Kind: "read", Rec: replayRec(q, s)})
		}
	}
	if s.name == "ErrorSnapPack1" && r.Bool() { // SetStack twice, the second after the last profile
		ops = append(ops, refillOp{Kind: "stack", Ints: genInts(r, false)}, refillOp{Kind: "stack", Ints: genInts(r, false)})
	}
	c.runRefill(s, replayRec(p, s), ops)
}

func genRefillRecord(c *ctx, r *vh.Rng, s *spec) {
	o := newFilled(r, s, false)
	var ops []refillOp
	if r.Chance(30) { // a Read in between
		ops = append(ops, refillOp{Kind: "read", Rec: replayRec(newFilled(r, s, false), s)})
	}
	o2 := newFilled(r, s, false)
	if t, ok := o2.(*service.TxRecord); ok {
		shapeTx(r, t, r.Intn(32))
	}
	ops = append(ops, refillOp{Kind: "assign", Rec: replayRec(o2, s)})
	if _, ok := o.(*service.TxRecord); ok && r.Bool() {
		// the union must fit the count byte: more than 255 custom fields is the known finding
		// TxRecord.Fields:count-byte-wraps (replayed on its own every run), not a re-fill failure
		m := genAttr(r)
		have := 0
		if f := o2.(*service.TxRecord).Fields; f != nil {
			have = f.Size()
		}
		if m == nil || have+m.Size() <= 255 {
			ops = append(ops, refillOp{Kind: "putfields", Rec: mapText(m)})
		}
	}
	switch o.(type) {
	case *step.MessageStepX:
		for i := 0; i < 1+r.Intn(3); i++ {
			k := int(int32(genInt(r, 32)))
			if r.Bool() {
				k = 1 << uint(r.Intn(31))
			}
			ops = append(ops, refillOp{Kind: "bits", Key: k})
		}
	case *step.SqlStep_3:
		for i := 0; i < 1+r.Intn(3); i++ {
			ops = append(ops, refillOp{Kind: "bits", Key: r.PickInt([]int{1, 2, 4, 8, 128, 3})})
		}
	}
	c.runRefill(s, replayRec(o, s), ops)
}

func sortedKeys(m map[string]string) []string {
	ks := make([]string, 0, len(m))
	for k := range m {
		ks = append(ks, k)
	}
	for i := 1; i < len(ks); i++ {
		for j := i; j > 0 && ks[j] < ks[j-1]; j-- {
			ks[j], ks[j-1] = ks[j-1], ks[j]
		}
	}
	return ks
}

// refillStream: ToBytesStep called again with other steps; the second result must be the second steps.
func (c *ctx) runRefillStream(a, b []item) {
	var recs []map[string]string
	rc := replayCase{Op: "refill-stream", Order: []int{len(a)}}
	for _, it := range a {
		rc.Items = append(rc.Items, replayItem{it.s.name, replayRec(it.o, it.s)})
	}
	for _, it := range b {
		recs = append(recs, dump(it.o, it.s))
		rc.Items = append(rc.Items, replayItem{it.s.name, replayRec(it.o, it.s)})
	}
	c.rep.Case("refill-stream "+itemsText(a)+" / "+itemsText(b), true)
	c.rep.Count("refill:ToBytesStep")
	var second []byte
	oc := vh.Guard(func() {
		step.ToBytesStep(stepsOf(a))
		second = step.ToBytesStep(stepsOf(b))
	})
	if !oc.OK() {
		c.rep.Fail("property", "ToBytesStep:panic", vh.Clip(oc.Panic, 100), rc)
		return
	}
	c.checkBlobIsSteps("ToBytesStep:refill", second, b, recs, rc)
}

func (c *ctx) replayRefillStream(items []item, order []int) {
	n := 0
	if len(order) > 0 {
		n = order[0]
	}
	if n > len(items) {
		n = len(items)
	}
	c.runRefillStream(items[:n], items[n:])
}

// genRewrite: write → mutate every part → write again on ONE object.
func genRewrite(c *ctx, r *vh.Rng, s *spec) {
	p := newFilled(r, s, false)
	if pp, ok := p.(*pack.ProfilePack); ok {
		shapeTx(r, pp.Transaction, r.Intn(32))
	}
	var ops []refillOp
	if s.fam == "pack" && r.Bool() {
		ops = append(ops, profileOp(r))
	}
	rounds := 1 + r.Intn(2)
	for k := 0; k < rounds; k++ {
		ops = append(ops, refillOp{Kind: "write"})
		// mutate: fields changed in place, the transaction replaced, the steps replaced
		q := newFilled(r, s, false)
		if qq, ok := q.(*pack.ProfilePack); ok {
			shapeTx(r, qq.Transaction, r.Intn(32))
		}
		switch {
		case s.name == "ProfilePack" && r.Chance(40):
			t := newFilled(r, specOf("TxRecord"), false).(*service.TxRecord)
			shapeTx(r, t, r.Intn(32))
			ops = append(ops, refillOp{Kind: "newtx", Rec: replayRec(t, specOf("TxRecord"))})
		default:
			ops = append(ops, refillOp{Kind: "assign", Rec: replayRec(q, s)})
		}
		if s.fam == "pack" && r.Chance(60) {
			ops = append(ops, profileOp(r))
		}
		if s.name == "ErrorSnapPack1" && r.Bool() {
			ops = append(ops, refillOp{Kind: "stack", Ints: genInts(r, false)})
		}
	}
	c.rep.Count("rewrite:" + s.name)
	c.runRefill(s, replayRec(p, s), ops)
}

func genRefill(c *ctx, r *vh.Rng) {
	n := 150
	if c.env.Thorough {
		n = 1500
	}
	for _, name := range packSpecs {
		s := specOf(name)
		for i := 0; i < n; i++ {
			genRefillPack(c, r, s)
		}
	}
	for _, s := range specs {
		if s.fam == "pack" {
			continue
		}
		m := n / 5
		if s.name == "TxRecord" || s.name == "MessageStepX" || s.name == "SqlStep_3" {
			m = n
		}
		for i := 0; i < m; i++ {
			genRefillRecord(c, r, s)
		}
	}
	for _, s := range specs { // write → mutate → write
		m := n / 5
		if s.fam == "pack" || s.name == "TxRecord" {
			m = n
		}
		for i := 0; i < m; i++ {
			genRewrite(c, r, s)
		}
	}
	for i := 0; i < n; i++ {
		c.runRefillStream(genSteps(r, 1+r.Intn(5)), genSteps(r, r.Intn(5)))
	}
}
